# sourced by setup.sh and by anyone building the harness by hand
export GO=/root/go/pkg/mod/golang.org/toolchain@v0.0.1-go1.24.0.linux-amd64/bin/go
export GOTOOLCHAIN=local GOFLAGS=-mod=mod GOPROXY=off GOSUMDB=off
export PATH=/root/go/pkg/mod/golang.org/toolchain@v0.0.1-go1.24.0.linux-amd64/bin:$PATH
