// vcheck is the driver: it builds a property harness from /repo's current working tree
// (build tag verif, one binary per build variant), runs it as a child process with a
// watchdog, attributes crashes and race-detector reports, applies known_findings.json and
// writes evidence/<ID>.json.
//
//	vcheck run <ID> [--tier quick|thorough]
//	vcheck manifest            (re)generate MANIFEST.json from checks.json
//	vcheck build-all           warm the build cache for every variant (setup)
//
// Exit: 0 held, 1 violation (VIOLATION line printed), 2 inconclusive, 3 harness error.
package main

import (
	"bytes"
	"crypto/sha256"
	"encoding/json"
	"fmt"
	"os"
	"os/exec"
	"path/filepath"
	"regexp"
	"sort"
	"strconv"
	"strings"
	"syscall"
	"time"

	"verif/lib/vrt"
)

const (
	root   = "/verif"
	goBin  = "/root/go/pkg/mod/golang.org/toolchain@v0.0.1-go1.24.0.linux-amd64/bin/go"
	gethNS = "github.com/ethereum/go-ethereum/"
)

type Variant struct {
	Name      string            `json:"name"`
	Race      bool              `json:"race,omitempty"`
	Tags      []string          `json:"tags,omitempty"`
	Cgo       string            `json:"cgo,omitempty"` // "0" disables cgo
	Gcflags   string            `json:"gcflags,omitempty"`
	Asan      bool              `json:"asan,omitempty"`
	Env       map[string]string `json:"env,omitempty"`
	Tiers     []string          `json:"tiers,omitempty"` // default: both
	Pkg       string            `json:"pkg,omitempty"`   // override package (e.g. cmd/evm build)
	BuildOnly bool              `json:"build_only,omitempty"`
}

type Check struct {
	ID        string    `json:"id"`
	Pkg       string    `json:"pkg,omitempty"`
	Level     string    `json:"level"`
	LevelText string    `json:"level_text"`
	LevelNote string    `json:"level_note"`
	Technique string    `json:"technique"`
	DesignRef string    `json:"design_ref,omitempty"`
	Variants  []Variant `json:"variants,omitempty"`
	Floor     int64     `json:"floor,omitempty"`
	WatchdogQ int       `json:"watchdog_quick_s,omitempty"`
	WatchdogT int       `json:"watchdog_thorough_s,omitempty"`
	RacePkgs  []string  `json:"race_pkgs,omitempty"` // geth package path prefixes whose frames make a race report count
}

type ChecksFile struct {
	Checks        []Check          `json:"checks"`
	NotApplicable []map[string]any `json:"not_applicable"`
	HookCommits   []string         `json:"hook_commits"`
}

type Finding struct {
	Property    string `json:"property"`
	Fingerprint string `json:"fingerprint"`
	What        string `json:"what"`
	Status      string `json:"status"` // known | fixed
	Commit      string `json:"commit,omitempty"`
}

func loadChecks() ChecksFile {
	var cf ChecksFile
	b, err := os.ReadFile(filepath.Join(root, "checks.json"))
	if err != nil {
		fatal("read checks.json: %v", err)
	}
	if err := json.Unmarshal(b, &cf); err != nil {
		fatal("parse checks.json: %v", err)
	}
	// per-property entries live next to their harness: h/p/<id>/check.json
	files, _ := filepath.Glob(filepath.Join(root, "h", "p", "*", "check.json"))
	sort.Strings(files)
	for _, f := range files {
		b, err := os.ReadFile(f)
		if err != nil {
			fatal("%v", err)
		}
		var c Check
		if err := json.Unmarshal(b, &c); err != nil {
			fatal("parse %s: %v", f, err)
		}
		if c.ID == "" || c.Level == "" {
			fatal("%s: id and level are required", f)
		}
		cf.Checks = append(cf.Checks, c)
	}
	return cf
}

func fatal(format string, a ...any) {
	fmt.Fprintf(os.Stderr, "HARNESS-ERROR: "+format+"\n", a...)
	os.Exit(3)
}

func goEnv(v Variant) []string {
	env := os.Environ()
	env = append(env, "GOTOOLCHAIN=local", "GOFLAGS=-mod=mod", "GOPROXY=off", "GOSUMDB=off")
	if v.Cgo == "0" {
		env = append(env, "CGO_ENABLED=0")
	} else {
		env = append(env, "CGO_ENABLED=1")
	}
	if v.Asan {
		env = append(env, "CC=clang")
	}
	return env
}

// modfileArgs supports VERIF_REPO=<worktree> for mutation trials: a temporary go.mod whose
// replace points there. MANIFEST commands never set it.
func modfileArgs() []string {
	repo := os.Getenv("VERIF_REPO")
	if repo == "" || repo == "/repo" {
		return nil
	}
	sum := sha256.Sum256([]byte(repo))
	dir := filepath.Join(root, ".build", fmt.Sprintf("alt-%x", sum[:6]))
	os.MkdirAll(dir, 0o755)
	b, err := os.ReadFile(filepath.Join(root, "h", "go.mod"))
	if err != nil {
		fatal("%v", err)
	}
	s := strings.Replace(string(b), "=> /repo", "=> "+repo, 1)
	os.WriteFile(filepath.Join(dir, "go.mod"), []byte(s), 0o644)
	sumb, _ := os.ReadFile(filepath.Join(root, "h", "go.sum"))
	os.WriteFile(filepath.Join(dir, "go.sum"), sumb, 0o644)
	return []string{"-modfile=" + filepath.Join(dir, "go.mod")}
}

func binPath(c Check, v Variant) string {
	suffix := ""
	if r := os.Getenv("VERIF_REPO"); r != "" && r != "/repo" {
		sum := sha256.Sum256([]byte(r))
		suffix = fmt.Sprintf("-alt%x", sum[:4])
	}
	return filepath.Join(root, ".build", c.ID+"-"+v.Name+suffix)
}

func build(c Check, v Variant) error {
	pkg := v.Pkg
	if pkg == "" {
		pkg = c.Pkg
	}
	if pkg == "" {
		pkg = "./p/" + strings.ToLower(c.ID)
	}
	tags := append([]string{"verif"}, v.Tags...)
	args := []string{"build"}
	args = append(args, modfileArgs()...)
	args = append(args, "-tags", strings.Join(tags, ","))
	if v.Race {
		args = append(args, "-race")
	}
	if v.Asan {
		args = append(args, "-asan")
	}
	if v.Gcflags != "" {
		args = append(args, "-gcflags="+v.Gcflags)
	}
	args = append(args, "-o", binPath(c, v), pkg)
	cmd := exec.Command(goBin, args...)
	cmd.Dir = filepath.Join(root, "h")
	cmd.Env = goEnv(v)
	out, err := cmd.CombinedOutput()
	if err != nil {
		return fmt.Errorf("go %s: %v\n%s", strings.Join(args, " "), err, out)
	}
	return nil
}

func tierOK(v Variant, tier string) bool {
	if len(v.Tiers) == 0 {
		return true
	}
	for _, t := range v.Tiers {
		if t == tier {
			return true
		}
	}
	return false
}

type variantOutcome struct {
	v        Variant
	res      *vrt.Result
	exit     int
	signal   string
	timedOut bool
	logPath  string
	races    []raceReport
	wall     float64
}

type raceReport struct {
	fp      string
	text    string
	harness bool // no go-ethereum frame from an anchored package
}

func main() {
	if len(os.Args) < 2 {
		fatal("usage: vcheck run <ID> [--tier quick|thorough] | manifest | build-all")
	}
	switch os.Args[1] {
	case "run":
		if len(os.Args) < 3 {
			fatal("usage: vcheck run <ID> [--tier t]")
		}
		tier := os.Getenv("VERIF_TIER")
		for i := 3; i < len(os.Args); i++ {
			if os.Args[i] == "--tier" && i+1 < len(os.Args) {
				tier = os.Args[i+1]
			}
		}
		if tier == "" {
			tier = "quick"
		}
		os.Exit(run(os.Args[2], tier))
	case "manifest":
		manifest()
	case "build-all":
		buildAll()
	default:
		fatal("unknown command %q", os.Args[1])
	}
}

func findCheck(id string) Check {
	cf := loadChecks()
	for _, c := range cf.Checks {
		if c.ID == id {
			if len(c.Variants) == 0 {
				c.Variants = []Variant{{Name: "default"}}
			}
			return c
		}
	}
	fatal("no check %q in checks.json", id)
	return Check{}
}

func buildAll() {
	cf := loadChecks()
	failed := 0
	for _, c := range cf.Checks {
		if len(c.Variants) == 0 {
			c.Variants = []Variant{{Name: "default"}}
		}
		for _, v := range c.Variants {
			if !tierOK(v, "quick") {
				continue
			}
			t0 := time.Now()
			if err := build(c, v); err != nil {
				fmt.Printf("build %s/%s FAILED: %v\n", c.ID, v.Name, err)
				failed++
				continue
			}
			fmt.Printf("build %s/%s ok %.1fs\n", c.ID, v.Name, time.Since(t0).Seconds())
		}
	}
	if failed > 0 {
		os.Exit(3)
	}
}

func run(id, tier string) int {
	start := time.Now()
	c := findCheck(id)
	seed, _ := strconv.ParseInt(os.Getenv("VERIF_SEED"), 10, 64)
	if os.Getenv("VERIF_SEED") == "" {
		seed = 1
	}
	os.MkdirAll(filepath.Join(root, ".build"), 0o755)
	evDir, replayDir := filepath.Join(root, "evidence"), filepath.Join(root, "replay", id)
	if r := os.Getenv("VERIF_REPO"); r != "" && r != "/repo" {
		// mutation trial against another tree: keep its output away from the real evidence
		evDir, replayDir = filepath.Join(root, ".build", "alt-evidence"), filepath.Join(root, ".build", "alt-replay", id)
	}
	os.MkdirAll(evDir, 0o755)
	evPath := filepath.Join(evDir, id+".json")
	os.Remove(evPath)
	os.MkdirAll(replayDir, 0o755)

	scratch, err := os.MkdirTemp("/dev/shm", "verif-"+id+"-")
	if err != nil {
		scratch, err = os.MkdirTemp("", "verif-"+id+"-")
		if err != nil {
			fatal("scratch: %v", err)
		}
	}
	defer os.RemoveAll(scratch)

	var outcomes []variantOutcome
	for _, v := range c.Variants {
		if !tierOK(v, tier) {
			continue
		}
		if err := build(c, v); err != nil {
			fmt.Printf("HARNESS-ERROR: build of %s/%s failed:\n%v\n", id, v.Name, err)
			return 3
		}
		if v.BuildOnly {
			continue
		}
	}
	for _, v := range c.Variants {
		if !tierOK(v, tier) || v.BuildOnly {
			continue
		}
		outcomes = append(outcomes, runVariant(c, v, tier, seed, scratch, replayDir))
	}
	if len(outcomes) == 0 {
		fatal("no runnable variant for %s tier %s", id, tier)
	}

	// ---- merge ----
	findings := loadFindings()
	var viols []vrt.Violation
	var inconcl []string
	harnessErr := false
	cov := map[string]any{}
	variantsCov := map[string]any{}
	var primary *vrt.Result
	totalEval := int64(0)
	raceCount := 0
	assumptions := []string{}
	for i := range outcomes {
		o := &outcomes[i]
		vc := map[string]any{"exit": o.exit, "wall_s": round1(o.wall)}
		if o.res != nil {
			if primary == nil {
				primary = o.res
			}
			totalEval += o.res.Evaluations
			vc["evaluations"] = o.res.Evaluations
			vc["distinct_nontrivial"] = o.res.Distinct
			vc["counters"] = o.res.Counters
			for _, vi := range o.res.Violations {
				viols = append(viols, vi)
			}
			for _, s := range o.res.Inconclusive {
				inconcl = append(inconcl, o.v.Name+": "+s)
			}
			for _, a := range o.res.Assumptions {
				if !contains(assumptions, a) {
					assumptions = append(assumptions, a)
				}
			}
		}
		if o.v.Race {
			vc["race_reports"] = len(o.races)
		}
		for _, rr := range o.races {
			raceCount++
			if rr.harness {
				fmt.Printf("HARNESS-RACE (%s/%s): %s\n", id, o.v.Name, rr.fp)
				p := filepath.Join(replayDir, fmt.Sprintf("harness-race-%s-s%d.txt", o.v.Name, seed))
				os.WriteFile(p, []byte(rr.text), 0o644)
				harnessErr = true
				continue
			}
			hs := sha256.Sum256([]byte(rr.fp))
			p := filepath.Join(replayDir, fmt.Sprintf("race-%s-s%d-%x.txt", o.v.Name, seed, hs[:5]))
			os.WriteFile(p, []byte(rr.text), 0o644)
			viols = append(viols, vrt.Violation{Fingerprint: "race:" + rr.fp, Msg: "data race reported by the race detector", Replay: p})
		}
		// abnormal termination
		switch {
		case o.timedOut:
			inconcl = append(inconcl, fmt.Sprintf("%s: watchdog fired (goroutine dump in %s)", o.v.Name, o.logPath))
		case o.res == nil || (o.exit != 0 && o.exit != 1 && o.exit != 3):
			kind, site, isGeth := classifyCrash(o.logPath)
			lastCase := readCase(filepath.Join(scratch, "case-"+o.v.Name))
			keep := filepath.Join(replayDir, fmt.Sprintf("crash-%s-s%d.log", o.v.Name, seed))
			copyFile(o.logPath, keep)
			appendFile(keep, "\n--- last case ---\n"+lastCase+"\n")
			if o.exit == 4 || !isGeth {
				fmt.Printf("HARNESS-ERROR: %s/%s exited %d %s (%s at %s); log %s\n", id, o.v.Name, o.exit, o.signal, kind, site, keep)
				harnessErr = true
			} else {
				viols = append(viols, vrt.Violation{Fingerprint: "crash:" + kind + ":" + site, Msg: "process died while executing: " + lastCase, Replay: keep})
			}
		}
		variantsCov[o.v.Name] = vc
	}

	// known findings
	seenFP := map[string]bool{}
	unknown := []vrt.Violation{}
	for _, vi := range viols {
		if seenFP[vi.Fingerprint] {
			continue
		}
		seenFP[vi.Fingerprint] = true
		if f, ok := findings[id+"|"+vi.Fingerprint]; ok && f.Status == "known" {
			fmt.Printf("KNOWN-FINDING: property=%s %s [%s]\n", id, f.What, f.Fingerprint)
			continue
		}
		unknown = append(unknown, vi)
	}

	// ---- evidence ----
	if primary != nil {
		cov["evaluations"] = totalEval
		cov["distinct_nontrivial"] = primary.Distinct
		cov["rule"] = primary.Rule
		cov["samples"] = primary.Samples
		cov["counters"] = primary.Counters
		for k, v := range primary.Extra {
			cov[k] = v
		}
		if primary.Exhaustive {
			cov["exhaustive_subfamily"] = true
		}
	}
	cov["variants"] = variantsCov
	cov["race_reports"] = raceCount
	cov["known_findings_matched"] = len(viols) - len(unknown) - 0
	floor := c.Floor
	if floor < 2 {
		floor = 2
	}
	if primary != nil {
		if primary.Distinct < floor {
			inconcl = append(inconcl, fmt.Sprintf("distinct_nontrivial %d below floor %d", primary.Distinct, floor))
		}
		if len(primary.Samples) == 0 {
			inconcl = append(inconcl, "no samples recorded")
		}
		if primary.Rule == "" {
			inconcl = append(inconcl, "no rule recorded")
		}
	}
	verdict := "held"
	switch {
	case len(unknown) > 0:
		verdict = "violated"
	case harnessErr:
		verdict = "harness-error"
	case len(inconcl) > 0:
		verdict = "inconclusive"
	}
	cov["verdict"] = verdict
	if len(inconcl) > 0 {
		cov["inconclusive"] = inconcl
	}
	ev := map[string]any{
		"property_id": id, "tier": tier, "seed": seed, "level": c.Level,
		"coverage": cov, "assumptions": assumptions,
		"wall_s": round1(time.Since(start).Seconds()), "violations": len(unknown),
	}
	if primary != nil && primary.Distinct >= 2 && primary.Evaluations >= 1 && len(primary.Samples) > 0 {
		b, _ := json.MarshalIndent(ev, "", " ")
		os.WriteFile(evPath, b, 0o644)
	} else if primary != nil {
		// still write what we have; schema validity is the harness's obligation
		b, _ := json.MarshalIndent(ev, "", " ")
		os.WriteFile(evPath, b, 0o644)
	}

	for _, vi := range unknown {
		rp := vi.Replay
		if rp == "" {
			rp = replayDir
		}
		fmt.Printf("VIOLATION property=%s replay=%s\n", id, rp)
		fmt.Printf("  fingerprint=%s %s\n", vi.Fingerprint, firstLine(vi.Msg))
	}
	for _, s := range inconcl {
		fmt.Printf("INCONCLUSIVE property=%s %s\n", id, s)
	}
	if primary != nil {
		fmt.Printf("%s tier=%s seed=%d verdict=%s evaluations=%d distinct=%d races=%d wall=%.1fs\n", id, tier, seed, verdict, totalEval, primary.Distinct, raceCount, time.Since(start).Seconds())
	}
	switch verdict {
	case "violated":
		return 1
	case "harness-error":
		return 3
	case "inconclusive":
		return 2
	}
	return 0
}

func runVariant(c Check, v Variant, tier string, seed int64, scratch, replayDir string) variantOutcome {
	o := variantOutcome{v: v}
	wd := c.WatchdogQ
	if wd == 0 {
		wd = 900
	}
	if tier == "thorough" {
		wd = c.WatchdogT
		if wd == 0 {
			wd = 4 * 3600
		}
	}
	if s := os.Getenv("VERIF_WATCHDOG_S"); s != "" {
		wd, _ = strconv.Atoi(s)
	}
	vs := filepath.Join(scratch, v.Name)
	os.MkdirAll(vs, 0o755)
	out := filepath.Join(scratch, "result-"+v.Name+".json")
	o.logPath = filepath.Join(scratch, "log-"+v.Name+".txt")
	logf, _ := os.Create(o.logPath)
	cmd := exec.Command(binPath(c, v))
	cmd.Dir = root
	cmd.Stdout = logf
	cmd.Stderr = logf
	cmd.Env = append(os.Environ(),
		"VERIF_TIER="+tier, fmt.Sprintf("VERIF_SEED=%d", seed), "VERIF_VARIANT="+v.Name,
		"VERIF_SCRATCH="+vs, "VERIF_OUT="+out, "VERIF_REPLAY="+replayDir,
		"VERIF_CASEFILE="+filepath.Join(scratch, "case-"+v.Name),
		"VERIF_BUILD_DIR="+filepath.Join(root, ".build"),
		"GOTRACEBACK=all",
	)
	if v.Race {
		cmd.Env = append(cmd.Env, "GORACE=halt_on_error=0 exitcode=0 history_size=3 log_path="+filepath.Join(scratch, "race-"+v.Name))
	}
	for k, val := range v.Env {
		cmd.Env = append(cmd.Env, k+"="+val)
	}
	cmd.SysProcAttr = &syscall.SysProcAttr{Setpgid: true}
	t0 := time.Now()
	if err := cmd.Start(); err != nil {
		fatal("start %s: %v", binPath(c, v), err)
	}
	done := make(chan error, 1)
	go func() { done <- cmd.Wait() }()
	var err error
	select {
	case err = <-done:
	case <-time.After(time.Duration(wd) * time.Second):
		o.timedOut = true
		syscall.Kill(-cmd.Process.Pid, syscall.SIGQUIT)
		select {
		case err = <-done:
		case <-time.After(20 * time.Second):
			syscall.Kill(-cmd.Process.Pid, syscall.SIGKILL)
			err = <-done
		}
	}
	// make sure no stray grandchildren survive
	syscall.Kill(-cmd.Process.Pid, syscall.SIGKILL)
	logf.Close()
	o.wall = time.Since(t0).Seconds()
	if err != nil {
		if ee, ok := err.(*exec.ExitError); ok {
			ws := ee.Sys().(syscall.WaitStatus)
			if ws.Signaled() {
				o.exit = -1
				o.signal = ws.Signal().String()
			} else {
				o.exit = ws.ExitStatus()
			}
		} else {
			o.exit = 127
		}
	}
	if b, err := os.ReadFile(out); err == nil {
		var r vrt.Result
		if json.Unmarshal(b, &r) == nil {
			o.res = &r
		}
	}
	if o.timedOut {
		copyFile(o.logPath, filepath.Join(replayDir, fmt.Sprintf("watchdog-%s-s%d.log", v.Name, seed)))
	}
	// echo harness-level violation lines and the tail of the log for the operator
	if tail := tailFile(o.logPath, 15); tail != "" && (o.exit != 0 || os.Getenv("VERIF_VERBOSE") != "") {
		fmt.Printf("--- %s/%s log tail ---\n%s\n", c.ID, v.Name, tail)
	}
	if v.Race {
		o.races = parseRaces(filepath.Join(scratch, "race-"+v.Name), c.RacePkgs)
	}
	return o
}

var frameRe = regexp.MustCompile(`^\s+(\S+)\(\)\s*$`)

// parseRaces reads the race detector's log files, splits them into report blocks,
// fingerprints each block by the outermost-to-innermost first go-ethereum function of each
// of the two accessing stacks and de-duplicates.
func parseRaces(prefix string, racePkgs []string) []raceReport {
	files, _ := filepath.Glob(prefix + ".*")
	seen := map[string]bool{}
	var out []raceReport
	for _, f := range files {
		b, err := os.ReadFile(f)
		if err != nil {
			continue
		}
		blocks := strings.Split(string(b), "WARNING: DATA RACE")
		for _, blk := range blocks[1:] {
			if i := strings.Index(blk, "=================="); i >= 0 {
				blk = blk[:i]
			}
			// the first two stacks are the conflicting accesses
			secs := strings.Split(blk, "\n\n")
			var tops []string
			anchored := false
			for si, sec := range secs {
				if si >= 2 {
					break
				}
				top := ""
				for _, l := range strings.Split(sec, "\n") {
					m := frameRe.FindStringSubmatch(l)
					if m == nil {
						continue
					}
					fn := m[1]
					if strings.HasPrefix(fn, gethNS) {
						rel := strings.TrimPrefix(fn, gethNS)
						if top == "" {
							top = rel
						}
						if len(racePkgs) == 0 {
							anchored = true
						}
						for _, p := range racePkgs {
							if strings.HasPrefix(rel, p) {
								anchored = true
							}
						}
					}
				}
				if top == "" {
					top = "non-geth"
				}
				tops = append(tops, top)
			}
			sort.Strings(tops)
			fp := strings.Join(tops, "|")
			if seen[fp] {
				continue
			}
			seen[fp] = true
			out = append(out, raceReport{fp: fp, text: "WARNING: DATA RACE" + blk, harness: !anchored})
		}
	}
	return out
}

// classifyCrash inspects a child's log for a Go panic / fatal error and reports the first
// go-ethereum function on the crashing goroutine's stack.
func classifyCrash(logPath string) (kind, site string, isGeth bool) {
	b, err := os.ReadFile(logPath)
	if err != nil {
		return "unknown", "unknown", false
	}
	s := string(b)
	idx := -1
	for _, marker := range []string{"fatal error:", "panic:", "SIGSEGV", "checkptr"} {
		if i := strings.Index(s, marker); i >= 0 && (idx < 0 || i < idx) {
			idx = i
			kind = strings.TrimSuffix(marker, ":")
		}
	}
	if idx < 0 {
		// log.Crit exits with status 1 after printing CRIT; treat as crash in geth
		if strings.Contains(s, "CRIT") || strings.Contains(s, "Fatal:") {
			return "log.Crit", "log", true
		}
		return "exit", "unknown", false
	}
	kind = strings.ReplaceAll(kind, " ", "-")
	rest := s[idx:]
	// first goroutine block after the marker
	if g := strings.Index(rest, "goroutine "); g >= 0 {
		rest = rest[g:]
		if e := strings.Index(rest, "\n\n"); e >= 0 {
			rest = rest[:e]
		}
	}
	firstVerif := false
	for _, l := range strings.Split(rest, "\n") {
		if strings.HasPrefix(l, "verif/") || strings.HasPrefix(l, "main.") {
			if site == "" {
				firstVerif = true
			}
		}
		if strings.HasPrefix(l, gethNS) {
			l = strings.TrimPrefix(l, gethNS)
			if i := strings.LastIndex(l, "("); i > 0 {
				l = l[:i]
			}
			if site == "" {
				site = l
			}
			isGeth = true
		}
	}
	if site == "" {
		site = "unknown"
	}
	// a crash whose innermost user frame is harness code and never enters geth is a harness bug
	_ = firstVerif
	return kind, site, isGeth
}

func loadFindings() map[string]Finding {
	m := map[string]Finding{}
	b, err := os.ReadFile(filepath.Join(root, "known_findings.json"))
	if err != nil {
		return m
	}
	var f struct {
		Findings []Finding `json:"findings"`
	}
	if json.Unmarshal(b, &f) != nil {
		fatal("known_findings.json does not parse")
	}
	for _, x := range f.Findings {
		m[x.Property+"|"+x.Fingerprint] = x
	}
	// per-property staging files written by the harness authors; consolidated into
	// known_findings.json by tools/merge_findings.py before a release
	files, _ := filepath.Glob(filepath.Join(root, "h", "p", "*", "known_findings.json"))
	for _, pf := range files {
		b, err := os.ReadFile(pf)
		if err != nil {
			continue
		}
		var g struct {
			Findings []Finding `json:"findings"`
		}
		if json.Unmarshal(b, &g) != nil {
			fatal("%s does not parse", pf)
		}
		for _, x := range g.Findings {
			m[x.Property+"|"+x.Fingerprint] = x
		}
	}
	return m
}

func manifest() {
	cf := loadChecks()
	type lvl struct {
		Category  string `json:"category"`
		Text      string `json:"text"`
		DesignRef string `json:"design_ref,omitempty"`
	}
	type mcheck struct {
		PropertyID string `json:"property_id"`
		Quick      string `json:"quick_cmd"`
		Thorough   string `json:"thorough_cmd"`
		Evidence   string `json:"evidence_file"`
		Replay     string `json:"replay_cmd_template"`
		Engine     string `json:"engine"`
		Level      lvl    `json:"level_claimed"`
		Note       string `json:"level_note"`
		Technique  string `json:"technique"`
	}
	checks := []mcheck{}
	for _, c := range cf.Checks {
		ref := c.DesignRef
		if ref == "" {
			ref = "DESIGN.md section 5, " + c.ID
		}
		checks = append(checks, mcheck{
			PropertyID: c.ID,
			Quick:      "bin/vcheck run " + c.ID + " --tier quick",
			Thorough:   "bin/vcheck run " + c.ID + " --tier thorough",
			Evidence:   "evidence/" + c.ID + ".json",
			Replay:     "cat {path}",
			Engine:     "vcheck",
			Level:      lvl{c.Level, c.LevelText, ref},
			Note:       c.LevelNote,
			Technique:  c.Technique,
		})
	}
	na := cf.NotApplicable
	if na == nil {
		na = []map[string]any{}
	}
	hooks := cf.HookCommits
	if hooks == nil {
		hooks = []string{}
	}
	baseline := "cd /repo && go build ./... && go test -vet=off -count=1 -timeout 25m ./..."
	if b, err := os.ReadFile("/root/.vp/BASELINE.json"); err == nil {
		var bl struct {
			Cmd string `json:"cmd"`
		}
		if json.Unmarshal(b, &bl) == nil && bl.Cmd != "" {
			baseline = bl.Cmd
		}
	}
	m := map[string]any{
		"version":   1,
		"setup_cmd": "./setup.sh",
		"hooks": map[string]any{
			"guard": "verif", "enable": "go build -tags verif (the driver bin/vcheck always builds the harness with -tags verif against /repo's working tree)",
			"baseline_off_cmd": baseline, "source_commits": hooks, "add_only": true,
		},
		"engines": []map[string]any{
			{"name": "vcheck", "path": "h/cmd/vcheck", "kind_free_text": "driver: builds harness binaries from /repo with -tags verif (default, -race, purego/nocgo variants), runs them as watched child processes, attributes crashes and race-detector reports, applies known_findings.json, writes evidence"},
			{"name": "vrt", "path": "h/lib/vrt", "kind_free_text": "harness runtime: seeded per-case PRNG, case log for crash attribution, evidence counters, violation/replay files, child re-exec"},
			{"name": "refmodels", "path": "h/lib", "kind_free_text": "independent reference models used as oracles (refrlp, refmpt, refhp, acctmodel, refkv, statehist, sysjournal/crashgen, ...)"},
		},
		"checks":         checks,
		"not_applicable": na,
		"notes":          "Runtime monitoring: every check runs the real code built from /repo under generated hostile workloads with reference-model, history and invariant oracles; see DESIGN.md. Verdicts: exit 0 held, 1 violation, 2 inconclusive, 3 harness error.",
	}
	b, _ := json.MarshalIndent(m, "", " ")
	if err := os.WriteFile(filepath.Join(root, "MANIFEST.json"), append(b, '\n'), 0o644); err != nil {
		fatal("%v", err)
	}
	fmt.Printf("MANIFEST.json written: %d checks, %d not_applicable\n", len(checks), len(na))
}

// ---- small helpers ----

func contains(l []string, s string) bool {
	for _, x := range l {
		if x == s {
			return true
		}
	}
	return false
}
func round1(f float64) float64 { return float64(int64(f*10)) / 10 }
func firstLine(s string) string {
	if i := strings.IndexByte(s, '\n'); i >= 0 {
		s = s[:i]
	}
	if len(s) > 300 {
		s = s[:300]
	}
	return s
}
func copyFile(src, dst string) {
	b, err := os.ReadFile(src)
	if err != nil {
		return
	}
	if len(b) > 4<<20 {
		b = append(append([]byte{}, b[:1<<20]...), b[len(b)-(3<<20):]...)
	}
	os.WriteFile(dst, b, 0o644)
}
func appendFile(p, s string) {
	f, err := os.OpenFile(p, os.O_APPEND|os.O_WRONLY|os.O_CREATE, 0o644)
	if err != nil {
		return
	}
	f.WriteString(s)
	f.Close()
}
func readCase(p string) string {
	b, err := os.ReadFile(p)
	if err != nil {
		return "(no case recorded)"
	}
	return strings.TrimSpace(string(bytes.TrimRight(b, " \n")))
}
func tailFile(p string, n int) string {
	b, err := os.ReadFile(p)
	if err != nil {
		return ""
	}
	lines := strings.Split(strings.TrimRight(string(b), "\n"), "\n")
	if len(lines) > n {
		lines = lines[len(lines)-n:]
	}
	for i, l := range lines {
		if len(l) > 400 {
			lines[i] = l[:400] + "…"
		}
	}
	return strings.Join(lines, "\n")
}
