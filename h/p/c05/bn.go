package main

import (
	"bytes"
	"fmt"
	"math/big"
	"math/rand"

	cloudflare "github.com/ethereum/go-ethereum/crypto/bn256/cloudflare"
	gnark "github.com/ethereum/go-ethereum/crypto/bn256/gnark"
	google "github.com/ethereum/go-ethereum/crypto/bn256/google"

	"verif/lib/vrt"
)

var backends = [3]string{"cloudflare", "google", "gnark"}

func rndBig(rng *rand.Rand, bits int) *big.Int {
	b := make([]byte, (bits+7)/8)
	rng.Read(b)
	v := new(big.Int).SetBytes(b)
	if bits%8 != 0 {
		v.Rsh(v, uint(8-bits%8))
	}
	return v
}

func rndScalar(rng *rand.Rand) *big.Int {
	switch rng.Intn(4) {
	case 0:
		return big.NewInt(int64(1 + rng.Intn(50)))
	case 1:
		k := rndBig(rng, 1+rng.Intn(64))
		if k.Sign() == 0 {
			k.SetInt64(3)
		}
		return k
	default:
		k := rndBig(rng, 254)
		k.Mod(k, bnR)
		if k.Sign() == 0 {
			k.SetInt64(1)
		}
		return k
	}
}

var g1Gen = g1{x: big.NewInt(1), y: big.NewInt(2)}

func be32(v *big.Int) []byte {
	out := make([]byte, 32)
	if v.BitLen() <= 256 {
		v.FillBytes(out)
	}
	return out
}

// genG1Input returns a byte string and its class name.
func genG1Input(rng *rand.Rand) ([]byte, string) {
	valid := func() g1 { return g1Mul(g1Gen, rndScalar(rng)) }
	switch rng.Intn(14) {
	case 0:
		return make([]byte, 64), "infinity"
	case 1, 2:
		return valid().encode(), "valid"
	case 3:
		p := valid()
		return append(be32(new(big.Int).Add(p.x, bnP)), be32(p.y)...), "x+p"
	case 4:
		p := valid()
		return append(be32(p.x), be32(new(big.Int).Add(p.y, bnP))...), "y+p"
	case 5:
		// (p, y): x = p is 0 mod p
		return append(be32(bnP), be32(big.NewInt(int64(rng.Intn(3))))...), "x=p"
	case 6:
		p := valid()
		return append(be32(p.x), be32(fpAdd(p.y, big.NewInt(1)))...), "off-curve-y+1"
	case 7:
		p := valid()
		return append(be32(fpAdd(p.x, big.NewInt(1))), be32(p.y)...), "off-curve-x+1"
	case 8:
		b := make([]byte, 64)
		rng.Read(b)
		return b, "random64"
	case 9:
		b := valid().encode()
		return b[:rng.Intn(64)], "short"
	case 10:
		b := valid().encode()
		extra := make([]byte, 1+rng.Intn(70))
		rng.Read(extra)
		return append(b, extra...), "long"
	case 11:
		return g1Neg(valid()).encode(), "valid-negated"
	case 12:
		// only one coordinate zero
		p := valid()
		if rng.Intn(2) == 0 {
			return append(make([]byte, 32), be32(p.y)...), "x=0"
		}
		return append(be32(p.x), make([]byte, 32)...), "y=0"
	default:
		b := make([]byte, 64)
		for i := range b {
			b[i] = 0xff
		}
		if rng.Intn(2) == 0 {
			copy(b[32:], be32(big.NewInt(2)))
		}
		return b, "all-ones"
	}
}

func genG2Input(rng *rand.Rand, gen g2) ([]byte, string) {
	valid := func() g2 { return g2Mul(gen, rndScalar(rng)) }
	next := func() *big.Int { return rndBig(rng, 300) }
	switch rng.Intn(13) {
	case 0:
		return make([]byte, 128), "infinity"
	case 1, 2:
		return valid().encode(), "valid"
	case 3:
		b := valid().encode()
		k := rng.Intn(4)
		v := new(big.Int).SetBytes(b[32*k : 32*k+32])
		copy(b[32*k:], be32(v.Add(v, bnP)))
		return b, fmt.Sprintf("coord%d+p", k)
	case 4:
		p := valid()
		p.y.a = fpAdd(p.y.a, big.NewInt(1))
		return p.encode(), "off-curve"
	case 5, 6:
		return g2RandomTwistPoint(next).encode(), "on-twist-not-in-subgroup"
	case 7:
		b := make([]byte, 128)
		rng.Read(b)
		return b, "random128"
	case 8:
		b := valid().encode()
		return b[:rng.Intn(128)], "short"
	case 9:
		b := valid().encode()
		extra := make([]byte, 1+rng.Intn(70))
		rng.Read(extra)
		return append(b, extra...), "long"
	case 10:
		return g2Neg(valid()).encode(), "valid-negated"
	case 11:
		// swapped real/imaginary parts of a valid point
		b := valid().encode()
		out := make([]byte, 128)
		copy(out[0:32], b[32:64])
		copy(out[32:64], b[0:32])
		copy(out[64:96], b[96:128])
		copy(out[96:128], b[64:96])
		return out, "re-im-swapped"
	default:
		b := valid().encode()
		k := rng.Intn(4)
		for i := 0; i < 32; i++ {
			b[32*k+i] = 0
		}
		return b, fmt.Sprintf("coord%d=0", k)
	}
}

type bnChecker struct {
	r   *vrt.Run
	gen g2
}

// unmarshalG1 runs the three decoders; dec[i] = accepted; out[i] = Marshal() of the result.
func (c *bnChecker) unmarshalG1(in []byte, w map[string]any) (dec [3]bool, out [3][]byte, pts struct {
	c *cloudflare.G1
	g *google.G1
	s *gnark.G1
}, panicked bool) {
	r := c.r
	pts.c, pts.g, pts.s = new(cloudflare.G1), new(google.G1), new(gnark.G1)
	p := false
	p = r.Guard("bn:g1-unmarshal:cloudflare", w, func() {
		if _, err := pts.c.Unmarshal(append([]byte{}, in...)); err == nil {
			dec[0], out[0] = true, pts.c.Marshal()
		}
	}) || p
	p = r.Guard("bn:g1-unmarshal:google", w, func() {
		if _, err := pts.g.Unmarshal(append([]byte{}, in...)); err == nil {
			dec[1], out[1] = true, pts.g.Marshal()
		}
	}) || p
	p = r.Guard("bn:g1-unmarshal:gnark", w, func() {
		if _, err := pts.s.Unmarshal(append([]byte{}, in...)); err == nil {
			dec[2], out[2] = true, pts.s.Marshal()
		}
	}) || p
	return dec, out, pts, p
}

func (c *bnChecker) unmarshalG2(in []byte, w map[string]any) (dec [3]bool, out [3][]byte, pts struct {
	c *cloudflare.G2
	g *google.G2
	s *gnark.G2
}, panicked bool) {
	r := c.r
	pts.c, pts.g, pts.s = new(cloudflare.G2), new(google.G2), new(gnark.G2)
	p := false
	p = r.Guard("bn:g2-unmarshal:cloudflare", w, func() {
		if _, err := pts.c.Unmarshal(append([]byte{}, in...)); err == nil {
			dec[0], out[0] = true, pts.c.Marshal()
		}
	}) || p
	p = r.Guard("bn:g2-unmarshal:google", w, func() {
		if _, err := pts.g.Unmarshal(append([]byte{}, in...)); err == nil {
			dec[1], out[1] = true, pts.g.Marshal()
		}
	}) || p
	p = r.Guard("bn:g2-unmarshal:gnark", w, func() {
		if _, err := pts.s.Unmarshal(append([]byte{}, in...)); err == nil {
			dec[2], out[2] = true, pts.s.Marshal()
		}
	}) || p
	return dec, out, pts, p
}

func decStr(d [3]bool) string {
	s := ""
	for _, b := range d {
		if b {
			s += "A"
		} else {
			s += "R"
		}
	}
	return s
}

func (c *bnChecker) g1Unmarshal(i int) {
	r := c.r
	rng := r.Rand("g1u", i)
	in, class := genG1Input(rng)
	w := map[string]any{"input": vrt.Hex(in), "class": class}
	r.Case("bn g1-unmarshal i=%d class=%s in=%x", i, class, in)
	ref, refOK := g1Decode(in)
	dec, out, _, panicked := c.unmarshalG1(in, w)
	if panicked {
		return
	}
	w["decisions(cloudflare,google,gnark)"] = decStr(dec)
	w["reference_accepts"] = refOK
	if dec[0] != dec[1] || dec[1] != dec[2] {
		r.Violation("bn:g1-unmarshal:decision-split", fmt.Sprintf("G1.Unmarshal accept/reject differs: cloudflare=%v google=%v gnark=%v (class %s, EIP-196 reference accepts=%v)", dec[0], dec[1], dec[2], class, refOK), w)
	} else if dec[0] != refOK {
		r.Violation("bn:g1-unmarshal:all-vs-reference", fmt.Sprintf("all backends %v but EIP-196 reference accepts=%v (class %s)", dec[0], refOK, class), w)
	}
	if refOK {
		want := ref.encode()
		for k := range backends {
			if dec[k] && !bytes.Equal(out[k], want) {
				r.Violation("bn:g1-marshal:"+backends[k], fmt.Sprintf("%s: Marshal(Unmarshal(in))=%x want %x", backends[k], out[k], want), w)
			}
		}
	}
	r.Eval(fmt.Sprintf("bn/g1-unmarshal/%s/%s", class, decStr(dec)))
	r.Count("bn_g1_unmarshal", 1)
	if dec[0] {
		r.Count("bn_g1_unmarshal_accepted", 1)
	}
}

func (c *bnChecker) g2Unmarshal(i int) {
	r := c.r
	rng := r.Rand("g2u", i)
	in, class := genG2Input(rng, c.gen)
	w := map[string]any{"input": vrt.Hex(in), "class": class}
	r.Case("bn g2-unmarshal i=%d class=%s in=%x", i, class, in)
	ref, rc := g2Decode(in)
	refOK := rc == g2Valid || rc == g2Infinity
	dec, out, _, panicked := c.unmarshalG2(in, w)
	if panicked {
		return
	}
	rcn := []string{"bad-encoding", "not-on-curve", "not-in-subgroup", "valid", "infinity"}[rc]
	w["decisions(cloudflare,google,gnark)"] = decStr(dec)
	w["reference_class"] = rcn
	if dec[0] != dec[1] || dec[1] != dec[2] {
		r.Violation("bn:g2-unmarshal:decision-split", fmt.Sprintf("G2.Unmarshal accept/reject differs: cloudflare=%v google=%v gnark=%v (class %s, EIP-197 reference: %s)", dec[0], dec[1], dec[2], class, rcn), w)
	} else if dec[0] != refOK {
		r.Violation("bn:g2-unmarshal:all-vs-reference", fmt.Sprintf("all backends %v but EIP-197 reference says %s (class %s)", dec[0], rcn, class), w)
	}
	if refOK {
		want := ref.encode()
		for k := range backends {
			if dec[k] && !bytes.Equal(out[k], want) {
				r.Violation("bn:g2-marshal:"+backends[k], fmt.Sprintf("%s: Marshal(Unmarshal(in))=%x want %x", backends[k], out[k], want), w)
			}
		}
	}
	r.Eval(fmt.Sprintf("bn/g2-unmarshal/%s/%s/%s", class, rcn, decStr(dec)))
	r.Count("bn_g2_unmarshal", 1)
	r.Count("bn_g2_ref_"+rcn, 1)
}

func pickG1(rng *rand.Rand) (g1, string) {
	switch rng.Intn(8) {
	case 0:
		return g1Inf(), "inf"
	case 1:
		return g1Gen, "gen"
	default:
		return g1Mul(g1Gen, rndScalar(rng)), "mult"
	}
}

func (c *bnChecker) g1Add(i int) {
	r := c.r
	rng := r.Rand("g1add", i)
	p, pc := pickG1(rng)
	var q g1
	var qc string
	switch rng.Intn(6) {
	case 0:
		q, qc = p, "same"
	case 1:
		q, qc = g1Neg(p), "negation"
	default:
		q, qc = pickG1(rng)
	}
	pe, qe := p.encode(), q.encode()
	w := map[string]any{"p": vrt.Hex(pe), "q": vrt.Hex(qe)}
	r.Case("bn g1-add i=%d p=%x q=%x", i, pe, qe)
	want := g1Add(p, q).encode()
	_, _, pp, pan1 := c.unmarshalG1(pe, w)
	_, _, qq, pan2 := c.unmarshalG1(qe, w)
	if pan1 || pan2 {
		return
	}
	var out [3][]byte
	r.Guard("bn:g1-add:cloudflare", w, func() { out[0] = new(cloudflare.G1).Add(pp.c, qq.c).Marshal() })
	r.Guard("bn:g1-add:google", w, func() { out[1] = new(google.G1).Add(pp.g, qq.g).Marshal() })
	r.Guard("bn:g1-add:gnark", w, func() { s := new(gnark.G1); s.Add(pp.s, qq.s); out[2] = s.Marshal() })
	c.compare3("g1-add", out, want, w)
	r.Eval(fmt.Sprintf("bn/g1-add/%s/%s/resinf%v", pc, qc, bytes.Equal(want, make([]byte, 64))))
	r.Count("bn_g1_add", 1)
}

func (c *bnChecker) compare3(op string, out [3][]byte, want []byte, w map[string]any) {
	r := c.r
	for k := range backends {
		w["out_"+backends[k]] = vrt.Hex(out[k])
	}
	w["reference"] = vrt.Hex(want)
	if !bytes.Equal(out[0], out[1]) || !bytes.Equal(out[1], out[2]) {
		r.Violation("bn:"+op+":output-split", fmt.Sprintf("%s outputs differ: cloudflare=%x google=%x gnark=%x (reference %x)", op, out[0], out[1], out[2], want), w)
	} else if !bytes.Equal(out[0], want) {
		r.Violation("bn:"+op+":all-vs-reference", fmt.Sprintf("%s: all backends give %x, affine reference %x", op, out[0], want), w)
	}
}

func (c *bnChecker) g1Mul(i int) {
	r := c.r
	rng := r.Rand("g1mul", i)
	p, pc := pickG1(rng)
	var k *big.Int
	var kc string
	specials := []struct {
		n string
		v *big.Int
	}{
		{"0", big.NewInt(0)}, {"1", big.NewInt(1)}, {"2", big.NewInt(2)},
		{"r-1", new(big.Int).Sub(bnR, big.NewInt(1))}, {"r", bnR}, {"r+1", new(big.Int).Add(bnR, big.NewInt(1))},
		{"2^256-1", new(big.Int).Sub(new(big.Int).Lsh(big.NewInt(1), 256), big.NewInt(1))}, {"p", bnP}, {"2r", new(big.Int).Lsh(bnR, 1)},
	}
	switch rng.Intn(3) {
	case 0:
		s := specials[rng.Intn(len(specials))]
		k, kc = s.v, s.n
	case 1:
		k, kc = rndBig(rng, 256), "rand256"
	default:
		k, kc = rndBig(rng, 1+rng.Intn(255)), "randbits"
	}
	pe := p.encode()
	w := map[string]any{"p": vrt.Hex(pe), "k": k.String()}
	r.Case("bn g1-mul i=%d p=%x k=%s", i, pe, k)
	want := g1Mul(p, k).encode()
	_, _, pp, pan := c.unmarshalG1(pe, w)
	if pan {
		return
	}
	var out [3][]byte
	r.Guard("bn:g1-mul:cloudflare", w, func() { out[0] = new(cloudflare.G1).ScalarMult(pp.c, new(big.Int).Set(k)).Marshal() })
	r.Guard("bn:g1-mul:google", w, func() { out[1] = new(google.G1).ScalarMult(pp.g, new(big.Int).Set(k)).Marshal() })
	r.Guard("bn:g1-mul:gnark", w, func() { s := new(gnark.G1); s.ScalarMult(pp.s, new(big.Int).Set(k)); out[2] = s.Marshal() })
	c.compare3("g1-mul", out, want, w)
	// small multiples by repeated addition (group-law sanity independent of double-and-add)
	if k.IsInt64() && k.Int64() <= 50 {
		acc := g1Inf()
		for j := int64(0); j < k.Int64(); j++ {
			acc = g1Add(acc, p)
		}
		if !bytes.Equal(acc.encode(), want) {
			r.Inconclusive("reference g1Mul disagrees with repeated addition for k=%s", k)
		}
	}
	r.Eval(fmt.Sprintf("bn/g1-mul/%s/%s/resinf%v", pc, kc, bytes.Equal(want, make([]byte, 64))))
	r.Count("bn_g1_mul", 1)
}

// pairing: sets with a known product.
func (c *bnChecker) pairing(i int) {
	r := c.r
	rng := r.Rand("pair", i)
	type pr struct {
		p g1
		q g2
	}
	var pairs []pr
	var kind string
	expect := false
	mulG1 := func(k *big.Int) g1 { return g1Mul(g1Gen, new(big.Int).Mod(k, bnR)) }
	mulG2 := func(k *big.Int) g2 { return g2Mul(c.gen, new(big.Int).Mod(k, bnR)) }
	switch rng.Intn(8) {
	case 0:
		kind, expect = "empty", true
	case 1, 2:
		// e(aG1, bG2) * e(-(ab)G1, G2) = 1
		a, b := rndScalar(rng), rndScalar(rng)
		ab := new(big.Int).Mul(a, b)
		pairs = []pr{{mulG1(a), mulG2(b)}, {g1Neg(mulG1(ab)), c.gen}}
		kind, expect = "bilinear-2", true
		if rng.Intn(2) == 0 {
			ab.Add(ab, big.NewInt(1))
			pairs[1].p = g1Neg(mulG1(ab))
			kind, expect = "bilinear-2-broken", false
		}
	case 3:
		// three pairs: e(aG1,bG2) e(-(ab-c)G1, G2) e(-G1, cG2) = 1
		a, b, cc := rndScalar(rng), rndScalar(rng), rndScalar(rng)
		ab := new(big.Int).Mul(a, b)
		pairs = []pr{{mulG1(a), mulG2(b)}, {g1Neg(mulG1(new(big.Int).Sub(ab, cc))), c.gen}, {g1Neg(g1Gen), mulG2(cc)}}
		kind, expect = "bilinear-3", true
		if rng.Intn(3) == 0 {
			pairs[2].q = mulG2(new(big.Int).Add(cc, big.NewInt(1)))
			kind, expect = "bilinear-3-broken", false
		}
	case 4:
		// four pairs incl. infinities, which contribute 1
		a, b := rndScalar(rng), rndScalar(rng)
		ab := new(big.Int).Mul(a, b)
		pairs = []pr{{g1Inf(), mulG2(a)}, {mulG1(a), mulG2(b)}, {mulG1(b), g2{inf: true}}, {g1Neg(mulG1(ab)), c.gen}}
		rng.Shuffle(len(pairs), func(x, y int) { pairs[x], pairs[y] = pairs[y], pairs[x] })
		kind, expect = "bilinear-4-with-infinity", true
	case 5:
		n := 1 + rng.Intn(4)
		for j := 0; j < n; j++ {
			pairs = append(pairs, pr{mulG1(rndScalar(rng)), mulG2(rndScalar(rng))})
		}
		kind, expect = fmt.Sprintf("random-%d", n), false
		// (a product of random pairings is 1 with probability ~1/r)
	case 6:
		n := 1 + rng.Intn(3)
		for j := 0; j < n; j++ {
			if rng.Intn(2) == 0 {
				pairs = append(pairs, pr{g1Inf(), mulG2(rndScalar(rng))})
			} else {
				pairs = append(pairs, pr{mulG1(rndScalar(rng)), g2{inf: true}})
			}
		}
		kind, expect = fmt.Sprintf("only-infinity-%d", n), true
	default:
		// e(P,Q) e(-P,Q) = 1 and e(P,Q) e(P,-Q) = 1
		p, q := mulG1(rndScalar(rng)), mulG2(rndScalar(rng))
		if rng.Intn(2) == 0 {
			pairs = []pr{{p, q}, {g1Neg(p), q}}
		} else {
			pairs = []pr{{p, q}, {p, g2Neg(q)}}
		}
		kind, expect = "inverse-pair", true
	}
	enc := make([]string, 0, len(pairs))
	for _, x := range pairs {
		enc = append(enc, vrt.Hex(x.p.encode())+vrt.Hex(x.q.encode()))
	}
	w := map[string]any{"kind": kind, "pairs(g1||g2)": enc, "expected": expect}
	r.Case("bn pairing i=%d kind=%s pairs=%v", i, kind, enc)
	var ac []*cloudflare.G1
	var bc []*cloudflare.G2
	var ag []*google.G1
	var bg []*google.G2
	var as []*gnark.G1
	var bs []*gnark.G2
	for _, x := range pairs {
		d1, _, p1, pan1 := c.unmarshalG1(x.p.encode(), w)
		d2, _, p2, pan2 := c.unmarshalG2(x.q.encode(), w)
		if pan1 || pan2 {
			return
		}
		if d1 != [3]bool{true, true, true} || d2 != [3]bool{true, true, true} {
			r.Violation("bn:pairing:valid-input-rejected", fmt.Sprintf("a reference-valid point was rejected: g1 %s g2 %s", decStr(d1), decStr(d2)), w)
			return
		}
		ac, bc = append(ac, p1.c), append(bc, p2.c)
		ag, bg = append(ag, p1.g), append(bg, p2.g)
		as, bs = append(as, p1.s), append(bs, p2.s)
	}
	var res [3]bool
	r.Guard("bn:pairing:cloudflare", w, func() { res[0] = cloudflare.PairingCheck(ac, bc) })
	r.Guard("bn:pairing:google", w, func() { res[1] = google.PairingCheck(ag, bg) })
	r.Guard("bn:pairing:gnark", w, func() { res[2] = gnark.PairingCheck(as, bs) })
	w["results(cloudflare,google,gnark)"] = res
	if res[0] != res[1] || res[1] != res[2] {
		r.Violation("bn:pairing:decision-split", fmt.Sprintf("PairingCheck differs: cloudflare=%v google=%v gnark=%v (%s, algebra says %v)", res[0], res[1], res[2], kind, expect), w)
	} else if res[0] != expect {
		r.Violation("bn:pairing:all-vs-algebra", fmt.Sprintf("all backends return %v for a %s set whose product is %v by bilinearity", res[0], kind, expect), w)
	}
	r.Eval(fmt.Sprintf("bn/pairing/%s/%v", kind, res))
	r.Count("bn_pairing", 1)
	r.Count(fmt.Sprintf("bn_pairing_%v", expect), 1)
	if i == 0 {
		r.Sample(map[string]any{"primitive": "bn254 PairingCheck", "case": w})
	}
}

// selfCheck validates the reference itself (generator constants, group orders).
func (c *bnChecker) selfCheck() bool {
	r := c.r
	ok := true
	if !g1OnCurve(g1Gen.x, g1Gen.y) || !g1Mul(g1Gen, bnR).inf {
		r.Inconclusive("reference: G1 generator/order self-check failed")
		ok = false
	}
	if !g2OnCurve(c.gen.x, c.gen.y) || !g2Mul(c.gen, bnR).inf {
		r.Inconclusive("reference: G2 generator (EIP-197 constants) is not on the twist / not of order r")
		ok = false
	}
	return ok
}
