package main

import (
	"fmt"
	"time"

	"github.com/ethereum/go-ethereum/crypto/kzg4844"
)

func main() {
	t0 := time.Now()
	fmt.Println(kzg4844.UseCKZG(true), time.Since(t0))
	t0 = time.Now()
	fmt.Println(kzg4844.UseCKZG(false), time.Since(t0))
	var blob kzg4844.Blob
	blob[1] = 7
	for _, ck := range []bool{false, true} {
		kzg4844.UseCKZG(ck)
		t0 = time.Now()
		c, err := kzg4844.BlobToCommitment(&blob)
		fmt.Println("commit", ck, err, time.Since(t0))
		t0 = time.Now()
		p, err := kzg4844.ComputeBlobProof(&blob, c)
		fmt.Println("blobproof", ck, err, time.Since(t0))
		t0 = time.Now()
		err = kzg4844.VerifyBlobProof(&blob, c, p)
		fmt.Println("verifyblob", ck, err, time.Since(t0))
		t0 = time.Now()
		pr, cl, err := kzg4844.ComputeProof(&blob, kzg4844.Point{31: 5})
		fmt.Println("proof", ck, err, time.Since(t0))
		t0 = time.Now()
		err = kzg4844.VerifyProof(c, kzg4844.Point{31: 5}, cl, pr)
		fmt.Println("verify", ck, err, time.Since(t0))
		t0 = time.Now()
		cps, err := kzg4844.ComputeCellProofs(&blob)
		fmt.Println("cellproofs", ck, err, len(cps), time.Since(t0))
		t0 = time.Now()
		err = kzg4844.VerifyCellProofs([]kzg4844.Blob{blob}, []kzg4844.Commitment{c}, cps)
		fmt.Println("verifycells", ck, err, time.Since(t0))
	}
}
