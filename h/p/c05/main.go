// C05: interchangeable cryptographic backends agree on outputs and on accept/reject, and
// none panics on malformed input.
//
//   - BN254: crypto/bn256/{cloudflare,google,gnark} called directly, plus a big.Int affine
//     reference (refbn.go: EIP-196/197 decoding rules, curve/twist/subgroup membership, group
//     law) and bilinearity for PairingCheck.
//   - BLAKE2b F: fGeneric / fSSE4 / fAVX / fAVX2 (verif hook, as far as the CPU allows), the
//     public dispatcher F, the 0x09 precompile framing, and refhash.Blake2bF (RFC 7693).
//   - KZG: kzg4844 with UseCKZG(false) vs UseCKZG(true) (build tag ckzg).
package main

import (
	"verif/lib/vrt"
)

func main() { vrt.Main("C05", run) }

func run(r *vrt.Run) {
	r.Rule("inputs are generated per class: BN254 G1/G2 encodings (valid multiples, infinity, coordinate >= p, off-curve, on-twist-but-outside-subgroup, random, short, long, zero coordinate), G1 add/mul operands incl. doubling, negation, infinity and scalars 0,1,r-1,r,r+1,p,2^256-1, pairing sets with a known product (bilinear identities of 2-4 pairs, broken variants, infinities, empty); BLAKE2b F with rounds 0,1,2,9-13,<2120,2^16,2^20, random/extreme h,m,t, both final flags, operands at varying 8-byte offsets; KZG genuine material for random/sparse/zero blobs and evaluation points inside/outside the domain, then single mutations (bit flips, non-canonical field elements, x not on curve, outside subgroup, flag bits, swapped/foreign proofs). signature = (primitive, input class, decision vector / outcome class)")

	// ---- BN254
	bn := &bnChecker{r: r, gen: g2Gen()}
	if bn.selfCheck() {
		scale := r.N(1, 30)
		vrt.Par(900*scale, 0, bn.g1Unmarshal)
		vrt.Par(400*scale, 0, bn.g2Unmarshal)
		vrt.Par(500*scale, 0, bn.g1Add)
		vrt.Par(500*scale, 0, bn.g1Mul)
		vrt.Par(300*scale, 0, bn.pairing)
	}

	// ---- BLAKE2b F
	bl := newBlakeChecker(r)
	if len(bl.available) < 2 {
		r.Inconclusive("fewer than two BLAKE2b F implementations can run on this CPU (%v)", bl.available)
	}
	vrt.Par(r.N(100000, 5000000), 0, bl.one)

	// ---- KZG
	kz := &kzgChecker{r: r}
	kz.run()

	for _, k := range []string{"bn_g1_unmarshal_accepted", "bn_g2_ref_not-in-subgroup", "bn_g2_ref_valid", "bn_g2_ref_not-on-curve", "bn_g2_ref_bad-encoding", "bn_pairing_true", "bn_pairing_false", "blake2b_precompile_cases", "kzg_accepted", "kzg_rejected"} {
		r.Require(k, 20)
	}
	r.Require("kzg_backends_compared", 2)
	r.Assume("BN254 reference: big.Int affine arithmetic written from EIP-196/197 (self-checked: generators on curve/twist and of order r; double-and-add vs repeated addition); pairing values have no independent reference, only N-version agreement plus bilinearity identities")
	r.Assume("BLAKE2b reference: verif/lib/refhash.Blake2bF from RFC 7693; round counts above 2^20 are not executed")
	r.Assume("KZG: agreement of go-eth-kzg and c-kzg-4844 (both real libraries) plus the known validity of genuine and singly-mutated inputs; no independent KZG reference")
}
