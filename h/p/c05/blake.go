package main

import (
	"bytes"
	"encoding/binary"
	"fmt"
	"unsafe"

	"github.com/ethereum/go-ethereum/common"
	"github.com/ethereum/go-ethereum/core/vm"
	"github.com/ethereum/go-ethereum/crypto/blake2b"

	"verif/lib/refhash"
	"verif/lib/vrt"
)

var fKinds = []string{"generic", "sse4", "avx", "avx2"}

type blakeChecker struct {
	r         *vrt.Run
	available []string
	precomp   vm.PrecompiledContract
}

func newBlakeChecker(r *vrt.Run) *blakeChecker {
	c := &blakeChecker{r: r}
	avx2, avx, sse4 := blake2b.VerifCPU()
	r.Extra("blake2b_cpu_flags", map[string]bool{"avx2": avx2, "avx": avx, "sse4": sse4})
	for _, k := range fKinds {
		var h [8]uint64
		var m [16]uint64
		if blake2b.VerifF(k, &h, &m, [2]uint64{}, false, 0) {
			c.available = append(c.available, k)
		}
	}
	r.Extra("blake2b_F_implementations_run", c.available)
	c.precomp = vm.PrecompiledContractsCancun[common.BytesToAddress([]byte{9})]
	return c
}

func (c *blakeChecker) one(i int) {
	r := c.r
	rng := r.Rand("blakeF", i)
	var rounds uint32
	var rc string
	switch x := rng.Intn(1000); {
	case x < 80:
		rounds, rc = 0, "0"
	case x < 160:
		rounds, rc = 1, "1"
	case x < 220:
		rounds, rc = 2, "2"
	case x < 450:
		rounds, rc = 12, "12"
	case x < 600:
		rounds, rc = uint32(9+rng.Intn(4)), "9-12" // around the SIGMA wrap (i mod 10)
	case x < 960:
		rounds, rc = uint32(rng.Intn(120)), "<120"
	case x < 999:
		rounds, rc = uint32(120+rng.Intn(2000)), "<2120"
	default:
		rounds, rc = 1<<16+uint32(rng.Intn(3)), "2^16"
		if i%10 == 0 {
			rounds, rc = 1<<20-uint32(rng.Intn(11)), "2^20"
		}
	}
	final := rng.Intn(2) == 0
	// operands at varying 8-byte offsets inside larger buffers (16/32-byte misalignment for
	// the vector loads/stores of the assembly)
	hbuf := make([]uint64, 8+4)
	mbuf := make([]uint64, 16+4)
	ho, mo := rng.Intn(4), rng.Intn(4)
	var h0 [8]uint64
	var m [16]uint64
	style := rng.Intn(8)
	for k := range h0 {
		h0[k] = rng.Uint64()
		if style == 0 {
			h0[k] = 0
		} else if style == 1 {
			h0[k] = ^uint64(0)
		}
	}
	for k := range m {
		m[k] = rng.Uint64()
		if style == 0 || style == 2 {
			m[k] = 0
		} else if style == 1 {
			m[k] = ^uint64(0)
		}
	}
	t := [2]uint64{rng.Uint64(), rng.Uint64()}
	switch rng.Intn(5) {
	case 0:
		t = [2]uint64{0, 0}
	case 1:
		t = [2]uint64{^uint64(0), ^uint64(0)}
	case 2:
		t = [2]uint64{uint64(rng.Intn(1 << 20)), 0}
	}
	w := map[string]any{"rounds": rounds, "h": h0, "m": m, "t": t, "final": final}
	if i%512 == 0 || rounds > 5000 {
		r.Case("blake2b F i=%d rounds=%d final=%v h=%x m=%x t=%x", i, rounds, final, h0, m, t)
	}
	want := h0
	refhash.Blake2bF(&want, &m, t, final, rounds)

	// public dispatcher
	got := h0
	mm := m
	if r.Guard("blake2b:F", w, func() { blake2b.F(&got, mm, t, final, rounds) }) {
		return
	}
	results := map[string][8]uint64{"F(dispatch)": got}
	for _, k := range c.available {
		hp := (*[8]uint64)(unsafe.Pointer(&hbuf[ho]))
		mp := (*[16]uint64)(unsafe.Pointer(&mbuf[mo]))
		*hp, *mp = h0, m
		// canaries around the operands
		for j := range hbuf {
			if j < ho || j >= ho+8 {
				hbuf[j] = 0xA5A5A5A5A5A5A5A5
			}
		}
		for j := range mbuf {
			if j < mo || j >= mo+16 {
				mbuf[j] = 0x5A5A5A5A5A5A5A5A
			}
		}
		if r.Guard("blake2b:"+k, w, func() { blake2b.VerifF(k, hp, mp, t, final, rounds) }) {
			return
		}
		results[k] = *hp
		if *mp != m {
			r.Violation("blake2b:message-modified:"+k, fmt.Sprintf("%s modified the message block", k), w)
		}
		for j := range hbuf {
			if (j < ho || j >= ho+8) && hbuf[j] != 0xA5A5A5A5A5A5A5A5 {
				r.Violation("blake2b:out-of-bounds-write:"+k, fmt.Sprintf("%s wrote outside h (offset %d)", k, j-ho), w)
			}
		}
		for j := range mbuf {
			if (j < mo || j >= mo+16) && mbuf[j] != 0x5A5A5A5A5A5A5A5A {
				r.Violation("blake2b:out-of-bounds-write:"+k, fmt.Sprintf("%s wrote outside m (offset %d)", k, j-mo), w)
			}
		}
	}
	split := false
	for k, v := range results {
		if v != want {
			split = true
			w["out_"+k] = v
		}
	}
	if split {
		w["reference(RFC7693)"] = want
		names := ""
		for k, v := range results {
			if v != want {
				names += k + " "
			}
		}
		r.Violation("blake2b:F-mismatch", fmt.Sprintf("F(rounds=%d final=%v): %sdiffer from the RFC 7693 reference %x", rounds, final, names, want), w)
	}
	r.Eval(fmt.Sprintf("blake2b/F/rounds%s/final%v/style%d/align%d%d", rc, final, style, ho%2, mo%2))
	r.Count("blake2b_F_cases", 1)
	r.Count("blake2b_F_comparisons", len(results))

	// EIP-152 precompile framing around F: 213 bytes = rounds(4,BE) h(64,LE) m(128,LE) t(16,LE) f(1)
	if i%8 == 0 && rounds < 5000 {
		in := make([]byte, 213)
		binary.BigEndian.PutUint32(in[0:4], rounds)
		for k, v := range h0 {
			binary.LittleEndian.PutUint64(in[4+8*k:], v)
		}
		for k, v := range m {
			binary.LittleEndian.PutUint64(in[68+8*k:], v)
		}
		binary.LittleEndian.PutUint64(in[196:], t[0])
		binary.LittleEndian.PutUint64(in[204:], t[1])
		if final {
			in[212] = 1
		}
		expOut := make([]byte, 64)
		for k, v := range want {
			binary.LittleEndian.PutUint64(expOut[8*k:], v)
		}
		expectErr := false
		class := "wellformed"
		switch rng.Intn(6) {
		case 0:
			in[212] = byte(2 + rng.Intn(254))
			expectErr, class = true, "final-byte>1"
		case 1:
			in = in[:rng.Intn(213)]
			expectErr, class = true, "short"
		case 2:
			in = append(in, byte(rng.Intn(256)))
			expectErr, class = true, "long"
		}
		pw := map[string]any{"input": vrt.Hex(in), "class": class}
		var out []byte
		var err error
		if !r.Guard("blake2b:precompile", pw, func() { out, err = c.precomp.Run(append([]byte{}, in...)) }) {
			if (err != nil) != expectErr {
				r.Violation("blake2b:precompile-accept-reject", fmt.Sprintf("precompile 0x09 on %s input: err=%v, EIP-152 expects error=%v", class, err, expectErr), pw)
			} else if err == nil && !bytes.Equal(out, expOut) {
				r.Violation("blake2b:precompile-output", fmt.Sprintf("precompile 0x09 output %x, reference %x", out, expOut), pw)
			}
			r.Eval(fmt.Sprintf("blake2b/precompile/%s/final%v", class, final))
			r.Count("blake2b_precompile_cases", 1)
		}
	}
	if i == 0 {
		r.Sample(map[string]any{"primitive": "blake2b F", "case": w, "implementations": c.available, "out": want})
	}
}
