package main

import (
	"bytes"
	"fmt"
	"math/big"
	"math/rand"

	"github.com/ethereum/go-ethereum/crypto/kzg4844"

	"verif/lib/vrt"
)

var (
	blsP, _ = new(big.Int).SetString("1a0111ea397fe69a4b1ba7b6434bacd764774b84f38512bf6730d2a0f6b0f6241eabfffeb153ffffb9feffffffffaaab", 16)
	blsR, _ = new(big.Int).SetString("73eda753299d7d483339d80809a1d80553bda402fffe5bfeffffffff00000001", 16)
)

// ---- BLS12-381 G1 compressed encodings of chosen classes (y^2 = x^3 + 4) ----------------

func blsCompress(x *big.Int, ySign bool) (out [48]byte) {
	x.FillBytes(out[:])
	out[0] |= 0x80
	if ySign {
		out[0] |= 0x20
	}
	return
}

// blsCurveX finds an x (from the rng) that is / is not the abscissa of a curve point.
func blsCurveX(rng *rand.Rand, onCurve bool) *big.Int {
	for {
		x := rndBig(rng, 380)
		if x.Cmp(blsP) >= 0 {
			continue
		}
		rhs := new(big.Int).Exp(x, big.NewInt(3), blsP)
		rhs.Add(rhs, big.NewInt(4)).Mod(rhs, blsP)
		if (new(big.Int).ModSqrt(rhs, blsP) != nil) == onCurve {
			return x
		}
	}
}

type kzgCase struct {
	prim   string // primitive
	class  string // input class
	expect int    // 1 accept, 0 reject, -1 unknown (agreement only)
	run    func() ([]byte, error)
}

type kzgRes struct {
	ok       bool
	out      []byte
	err      string
	panicked bool
}

func frBytes(v *big.Int) (o [32]byte) { v.FillBytes(o[:]); return }

func randomBlob(rng *rand.Rand, sparse bool) *kzg4844.Blob {
	b := new(kzg4844.Blob)
	for i := 0; i < 4096; i++ {
		if sparse && rng.Intn(16) != 0 {
			continue
		}
		v := rndBig(rng, 256)
		v.Mod(v, blsR)
		fe := frBytes(v)
		copy(b[32*i:], fe[:])
	}
	return b
}

type kzgMaterial struct {
	blob       *kzg4844.Blob
	commit     kzg4844.Commitment
	blobProof  kzg4844.Proof
	points     []kzg4844.Point
	claims     []kzg4844.Claim
	proofs     []kzg4844.Proof
	cellProofs []kzg4844.Proof
	name       string
}

// mutateG1 produces a malformed / wrong 48-byte group element from a genuine one.
func mutateG1(rng *rand.Rand, g [48]byte) ([48]byte, string) {
	switch rng.Intn(10) {
	case 0:
		g[rng.Intn(48)] ^= 1 << uint(rng.Intn(8))
		return g, "bitflip"
	case 1:
		return blsCompress(blsCurveX(rng, false), rng.Intn(2) == 0), "x-not-on-curve"
	case 2:
		return blsCompress(blsCurveX(rng, true), rng.Intn(2) == 0), "on-curve-not-in-subgroup"
	case 3:
		g[0] &^= 0x80
		return g, "compression-flag-cleared"
	case 4:
		g[0] |= 0x40
		return g, "infinity-flag-with-x"
	case 5:
		g[0] ^= 0x20
		return g, "negated(sign-flag)"
	case 6:
		var o [48]byte
		o[0] = 0xc0
		return o, "infinity"
	case 7:
		var o [48]byte
		x := new(big.Int).Add(blsP, big.NewInt(int64(rng.Intn(5))))
		x.FillBytes(o[:])
		o[0] |= 0x80
		return o, "x>=p"
	case 8:
		var o [48]byte
		for i := range o {
			o[i] = 0xff
		}
		return o, "all-ones"
	default:
		var o [48]byte
		if rng.Intn(2) == 0 {
			o[0] = 0xc0
			o[47] = 1
			return o, "infinity-nonzero-tail"
		}
		return o, "all-zero"
	}
}

func mutateFr(rng *rand.Rand, v [32]byte) ([32]byte, string) {
	x := new(big.Int).SetBytes(v[:])
	switch rng.Intn(6) {
	case 0:
		x.Add(x, blsR) // same residue, non-canonical encoding (fits: 2r < 2^256)
		return frBytes(x), "non-canonical(+r)"
	case 1:
		return frBytes(blsR), "equals-modulus"
	case 2:
		var o [32]byte
		for i := range o {
			o[i] = 0xff
		}
		return o, "all-ones"
	case 3:
		x.Add(x, big.NewInt(1)).Mod(x, blsR)
		return frBytes(x), "plus-one"
	case 4:
		v[rng.Intn(32)] ^= 1 << uint(rng.Intn(8))
		if new(big.Int).SetBytes(v[:]).Cmp(blsR) >= 0 {
			return v, "bitflip-non-canonical"
		}
		return v, "bitflip"
	default:
		return frBytes(new(big.Int).Sub(blsR, big.NewInt(1))), "modulus-minus-one"
	}
}

type kzgChecker struct {
	r     *vrt.Run
	cases []kzgCase
}

func (c *kzgChecker) add(prim, class string, expect int, run func() ([]byte, error)) {
	c.cases = append(c.cases, kzgCase{prim, class, expect, run})
}

// runAll evaluates every case under the currently selected backend.
func (c *kzgChecker) runAll(backend string) []kzgRes {
	res := make([]kzgRes, len(c.cases))
	vrt.Par(len(c.cases), 4, func(i int) {
		cs := c.cases[i]
		c.r.Case("kzg backend=%s case %d %s/%s", backend, i, cs.prim, cs.class)
		var out []byte
		var err error
		p := c.r.Guard("kzg:"+cs.prim+":"+backend, map[string]any{"class": cs.class, "backend": backend}, func() { out, err = cs.run() })
		res[i] = kzgRes{ok: err == nil && !p, out: out, panicked: p}
		if err != nil {
			res[i].err = err.Error()
		}
	})
	return res
}

func (c *kzgChecker) build(mats []*kzgMaterial, nVerify, nBlob, nCell int) {
	r := c.r
	// ---- computing primitives: outputs must be identical
	for _, m := range mats {
		m := m
		c.add("BlobToCommitment", m.name, 1, func() ([]byte, error) { x, err := kzg4844.BlobToCommitment(m.blob); return x[:], err })
		c.add("ComputeBlobProof", m.name, 1, func() ([]byte, error) { x, err := kzg4844.ComputeBlobProof(m.blob, m.commit); return x[:], err })
		for j, z := range m.points {
			z := z
			c.add("ComputeProof", fmt.Sprintf("%s/point%d", m.name, j), 1, func() ([]byte, error) {
				p, y, err := kzg4844.ComputeProof(m.blob, z)
				return append(p[:], y[:]...), err
			})
		}
		if m.cellProofs != nil {
			c.add("ComputeCellProofs", m.name, 1, func() ([]byte, error) {
				ps, err := kzg4844.ComputeCellProofs(m.blob)
				var out []byte
				for _, p := range ps {
					out = append(out, p[:]...)
				}
				return out, err
			})
		}
	}
	// malformed inputs to the computing primitives
	{
		rng := r.Rand("kzg-compute-bad", 0)
		for k := 0; k < 6; k++ {
			m := mats[k%len(mats)]
			bad := *m.blob
			idx := rng.Intn(4096)
			var fe [32]byte
			copy(fe[:], bad[32*idx:])
			nfe, cl := mutateFr(rng, fe)
			for cl == "plus-one" || cl == "bitflip" || cl == "modulus-minus-one" {
				nfe, cl = mutateFr(rng, fe)
			}
			copy(bad[32*idx:], nfe[:])
			bb := bad
			c.add("BlobToCommitment", "blob-element-"+cl, 0, func() ([]byte, error) { x, err := kzg4844.BlobToCommitment(&bb); return x[:], err })
			z, zc := mutateFr(rng, m.points[0])
			exp := 0
			if zc == "plus-one" || zc == "bitflip" || zc == "modulus-minus-one" {
				exp = 1
			}
			c.add("ComputeProof", "point-"+zc, exp, func() ([]byte, error) {
				p, y, err := kzg4844.ComputeProof(m.blob, kzg4844.Point(z))
				return append(p[:], y[:]...), err
			})
		}
	}
	// ---- VerifyProof
	for i := 0; i < nVerify; i++ {
		rng := r.Rand("kzg-verify", i)
		m := mats[rng.Intn(len(mats))]
		j := rng.Intn(len(m.points))
		cm, z, y, pf := m.commit, m.points[j], m.claims[j], m.proofs[j]
		class, expect := "genuine", 1
		switch rng.Intn(9) {
		case 0:
		case 1:
			g, cl := mutateG1(rng, pf)
			pf, class, expect = g, "proof:"+cl, 0
		case 2:
			g, cl := mutateG1(rng, cm)
			cm, class, expect = g, "commitment:"+cl, 0
		case 3:
			v, cl := mutateFr(rng, z)
			z, class, expect = v, "point:"+cl, 0
		case 4:
			v, cl := mutateFr(rng, y)
			y, class, expect = v, "claim:"+cl, 0
		case 5:
			cm, pf = kzg4844.Commitment(pf), kzg4844.Proof(cm)
			class, expect = "proof-commitment-swapped", 0
		case 6:
			j2 := (j + 1 + rng.Intn(len(m.points)-1)) % len(m.points)
			pf = m.proofs[j2]
			class, expect = "proof-of-other-point", 0
		case 7:
			m2 := mats[(rng.Intn(len(mats)-1)+1+indexOf(mats, m))%len(mats)]
			cm = m2.commit
			class, expect = "commitment-of-other-blob", 0
		default:
			y = m.claims[(j+1)%len(m.points)]
			class, expect = "claim-of-other-point", 0
		}
		// coincidences (a mutation that reproduces the genuine value) are judged by agreement only
		if expect == 0 && cm == m.commit && z == m.points[j] && y == m.claims[j] && pf == m.proofs[j] {
			expect = -1
		}
		if m.name == "zero-blob" && class != "genuine" {
			// the zero polynomial has commitment = proof = infinity and claim 0 for every point:
			// several "wrong" combinations are genuinely valid there
			expect = -1
		}
		c.add("VerifyProof", class, expect, func() ([]byte, error) { return nil, kzg4844.VerifyProof(cm, z, y, pf) })
	}
	// ---- VerifyBlobProof
	for i := 0; i < nBlob; i++ {
		rng := r.Rand("kzg-verifyblob", i)
		m := mats[rng.Intn(len(mats))]
		blob, cm, pf := m.blob, m.commit, m.blobProof
		class, expect := "genuine", 1
		switch rng.Intn(6) {
		case 0:
		case 1:
			g, cl := mutateG1(rng, pf)
			pf, class, expect = g, "proof:"+cl, 0
		case 2:
			g, cl := mutateG1(rng, cm)
			cm, class, expect = g, "commitment:"+cl, 0
		case 3, 4:
			bad := *blob
			idx := rng.Intn(4096)
			var fe [32]byte
			copy(fe[:], bad[32*idx:])
			nfe, cl := mutateFr(rng, fe)
			copy(bad[32*idx:], nfe[:])
			blob, class, expect = &bad, "blob-element:"+cl, 0
			if nfe == fe {
				expect = 1
			}
		default:
			m2 := mats[(rng.Intn(len(mats)-1)+1+indexOf(mats, m))%len(mats)]
			pf = m2.blobProof
			class, expect = "proof-of-other-blob", 0
		}
		if m.name == "zero-blob" && class != "genuine" {
			expect = -1
		}
		c.add("VerifyBlobProof", class, expect, func() ([]byte, error) { return nil, kzg4844.VerifyBlobProof(blob, cm, pf) })
	}
	// ---- VerifyCellProofs
	var withCells []*kzgMaterial
	for _, m := range mats {
		if m.cellProofs != nil {
			withCells = append(withCells, m)
		}
	}
	for i := 0; i < nCell && len(withCells) > 0; i++ {
		rng := r.Rand("kzg-cells", i)
		m := withCells[rng.Intn(len(withCells))]
		blobs := []kzg4844.Blob{*m.blob}
		cms := []kzg4844.Commitment{m.commit}
		proofs := append([]kzg4844.Proof{}, m.cellProofs...)
		class, expect := "genuine", 1
		switch i % 6 {
		case 0:
		case 1:
			k := rng.Intn(len(proofs))
			g, cl := mutateG1(rng, proofs[k])
			proofs[k], class, expect = g, "cellproof:"+cl, 0
		case 2:
			proofs = proofs[:127]
			class, expect = "127-proofs", 0
		case 3:
			g, cl := mutateG1(rng, cms[0])
			cms[0], class, expect = g, "commitment:"+cl, 0
		case 4:
			idx := rng.Intn(4096)
			var fe [32]byte
			copy(fe[:], blobs[0][32*idx:])
			nfe, cl := mutateFr(rng, fe)
			copy(blobs[0][32*idx:], nfe[:])
			class, expect = "blob-element:"+cl, 0
			if nfe == fe {
				expect = 1
			}
		default:
			k := rng.Intn(127)
			proofs[k], proofs[k+1] = proofs[k+1], proofs[k]
			class, expect = "cellproofs-swapped", 0
			if proofs[k] == proofs[k+1] {
				expect = 1
			}
		}
		if m.name == "zero-blob" && class != "genuine" {
			expect = -1
		}
		c.add("VerifyCellProofs", class, expect, func() ([]byte, error) { return nil, kzg4844.VerifyCellProofs(blobs, cms, proofs) })
	}
}

func indexOf(ms []*kzgMaterial, m *kzgMaterial) int {
	for i, x := range ms {
		if x == m {
			return i
		}
	}
	return 0
}

// material computes the genuine commitment/proofs of a blob with the currently selected backend.
func material(r *vrt.Run, name string, blob *kzg4844.Blob, points []kzg4844.Point, cells bool) (*kzgMaterial, error) {
	m := &kzgMaterial{blob: blob, name: name, points: points}
	var err error
	if m.commit, err = kzg4844.BlobToCommitment(blob); err != nil {
		return nil, err
	}
	if m.blobProof, err = kzg4844.ComputeBlobProof(blob, m.commit); err != nil {
		return nil, err
	}
	for _, z := range points {
		p, y, err := kzg4844.ComputeProof(blob, z)
		if err != nil {
			return nil, err
		}
		m.proofs = append(m.proofs, p)
		m.claims = append(m.claims, y)
	}
	if cells {
		if m.cellProofs, err = kzg4844.ComputeCellProofs(blob); err != nil {
			return nil, err
		}
	}
	return m, nil
}

func (c *kzgChecker) run() {
	r := c.r
	if err := kzg4844.UseCKZG(true); err != nil {
		r.Inconclusive("c-kzg backend unavailable in this build (%v): KZG backends not compared (build with -tags ckzg)", err)
		return
	}
	kzg4844.UseCKZG(false)
	rng := r.Rand("kzg-material", 0)
	// evaluation points: random, 0, 1 (= omega^0, inside the evaluation domain), omega, -1
	omega := new(big.Int).Exp(big.NewInt(7), new(big.Int).Div(new(big.Int).Sub(blsR, big.NewInt(1)), big.NewInt(4096)), blsR)
	mkPoints := func() []kzg4844.Point {
		ps := []kzg4844.Point{frBytes(big.NewInt(0)), frBytes(big.NewInt(1)), frBytes(omega), frBytes(new(big.Int).Sub(blsR, big.NewInt(1)))}
		for k := 0; k < 2; k++ {
			v := rndBig(rng, 256)
			ps = append(ps, frBytes(v.Mod(v, blsR)))
		}
		return ps
	}
	type spec struct {
		name  string
		blob  *kzg4844.Blob
		cells bool
	}
	specs := []spec{
		{"random-blob", randomBlob(rng, false), true},
		{"sparse-blob", randomBlob(rng, true), false},
		{"zero-blob", new(kzg4844.Blob), false},
	}
	if !r.Quick() {
		specs = append(specs, spec{"random-blob-2", randomBlob(rng, false), true}, spec{"sparse-blob-2", randomBlob(rng, true), true})
	}
	var mats []*kzgMaterial
	for _, s := range specs {
		r.Case("kzg material %s (gokzg)", s.name)
		m, err := material(r, s.name, s.blob, mkPoints(), s.cells)
		if err != nil {
			r.Violation("kzg:genuine-material-error", fmt.Sprintf("gokzg failed on a canonical blob %s: %v", s.name, err), nil)
			return
		}
		mats = append(mats, m)
	}
	c.build(mats, r.N(260, 9000), r.N(60, 1500), r.N(12, 120))

	kzg4844.UseCKZG(false)
	goRes := c.runAll("gokzg")
	kzg4844.UseCKZG(true)
	cRes := c.runAll("ckzg")
	kzg4844.UseCKZG(false)

	for i, cs := range c.cases {
		a, b := goRes[i], cRes[i]
		if a.panicked || b.panicked {
			continue
		}
		w := map[string]any{"primitive": cs.prim, "class": cs.class, "gokzg_ok": a.ok, "ckzg_ok": b.ok, "gokzg_err": a.err, "ckzg_err": b.err, "case_index": i}
		dec := fmt.Sprintf("go%v/c%v", a.ok, b.ok)
		switch {
		case a.ok != b.ok:
			r.Violation("kzg:"+cs.prim+":decision-split", fmt.Sprintf("%s on %s: gokzg ok=%v (%s), ckzg ok=%v (%s)", cs.prim, cs.class, a.ok, a.err, b.ok, b.err), w)
		case a.ok && !bytes.Equal(a.out, b.out):
			w["gokzg_out"], w["ckzg_out"] = vrt.Hex(a.out[:min(len(a.out), 200)]), vrt.Hex(b.out[:min(len(b.out), 200)])
			r.Violation("kzg:"+cs.prim+":output-split", fmt.Sprintf("%s on %s: outputs differ", cs.prim, cs.class), w)
		case cs.expect >= 0 && a.ok != (cs.expect == 1):
			r.Violation("kzg:"+cs.prim+":both-vs-expectation", fmt.Sprintf("%s on %s: both backends ok=%v, expected accept=%v", cs.prim, cs.class, a.ok, cs.expect == 1), w)
		}
		r.Eval(fmt.Sprintf("kzg/%s/%s/%s", cs.prim, cs.class, dec))
		r.Count("kzg_"+cs.prim, 1)
		if a.ok {
			r.Count("kzg_accepted", 1)
		} else {
			r.Count("kzg_rejected", 1)
		}
		if i == len(c.cases)-1 {
			r.Sample(map[string]any{"primitive": "kzg " + cs.prim, "class": cs.class, "decisions": dec})
		}
	}
	r.Count("kzg_backends_compared", 2)
}
