package main

// Minimal big.Int reference for alt_bn128 / BN254 as used by EIP-196/197: decoding rules,
// curve and twist membership, subgroup membership (r*P = infinity), affine addition and
// double-and-add scalar multiplication. Independent of the three judged libraries; slow and
// simple on purpose.

import (
	"math/big"
)

var (
	bnP, _ = new(big.Int).SetString("21888242871839275222246405745257275088696311157297823662689037894645226208583", 10)
	bnR, _ = new(big.Int).SetString("21888242871839275222246405745257275088548364400416034343698204186575808495617", 10)
	three  = big.NewInt(3)
)

func fpMod(x *big.Int) *big.Int    { return x.Mod(x, bnP) }
func fpAdd(a, b *big.Int) *big.Int { return fpMod(new(big.Int).Add(a, b)) }
func fpSub(a, b *big.Int) *big.Int { return fpMod(new(big.Int).Sub(a, b)) }
func fpMul(a, b *big.Int) *big.Int { return fpMod(new(big.Int).Mul(a, b)) }
func fpInv(a *big.Int) *big.Int    { return new(big.Int).ModInverse(a, bnP) }
func fpNeg(a *big.Int) *big.Int    { return fpMod(new(big.Int).Neg(a)) }

// ---- G1: y^2 = x^3 + 3 over Fp -----------------------------------------------------------

type g1 struct {
	x, y *big.Int
	inf  bool
}

func g1Inf() g1 { return g1{inf: true} }

func g1OnCurve(x, y *big.Int) bool {
	l := fpMul(y, y)
	r := fpAdd(fpMul(fpMul(x, x), x), three)
	return l.Cmp(r) == 0
}

// g1Decode applies EIP-196: two 32-byte big-endian coordinates, each < p; (0,0) is the
// point at infinity; otherwise the point must be on the curve (G1 has cofactor 1).
func g1Decode(b []byte) (g1, bool) {
	if len(b) < 64 {
		return g1{}, false
	}
	x := new(big.Int).SetBytes(b[:32])
	y := new(big.Int).SetBytes(b[32:64])
	if x.Cmp(bnP) >= 0 || y.Cmp(bnP) >= 0 {
		return g1{}, false
	}
	if x.Sign() == 0 && y.Sign() == 0 {
		return g1Inf(), true
	}
	if !g1OnCurve(x, y) {
		return g1{}, false
	}
	return g1{x: x, y: y}, true
}

func (p g1) encode() []byte {
	out := make([]byte, 64)
	if p.inf {
		return out
	}
	p.x.FillBytes(out[:32])
	p.y.FillBytes(out[32:])
	return out
}

func g1Neg(p g1) g1 {
	if p.inf {
		return p
	}
	return g1{x: new(big.Int).Set(p.x), y: fpNeg(p.y)}
}

func g1Add(p, q g1) g1 {
	if p.inf {
		return q
	}
	if q.inf {
		return p
	}
	var lam *big.Int
	if p.x.Cmp(q.x) == 0 {
		if fpAdd(p.y, q.y).Sign() == 0 {
			return g1Inf()
		}
		// doubling: lambda = 3x^2 / 2y
		lam = fpMul(fpMul(three, fpMul(p.x, p.x)), fpInv(fpAdd(p.y, p.y)))
	} else {
		lam = fpMul(fpSub(q.y, p.y), fpInv(fpSub(q.x, p.x)))
	}
	x3 := fpSub(fpSub(fpMul(lam, lam), p.x), q.x)
	y3 := fpSub(fpMul(lam, fpSub(p.x, x3)), p.y)
	return g1{x: x3, y: y3}
}

func g1Mul(p g1, k *big.Int) g1 {
	acc := g1Inf()
	for i := k.BitLen() - 1; i >= 0; i-- {
		acc = g1Add(acc, acc)
		if k.Bit(i) == 1 {
			acc = g1Add(acc, p)
		}
	}
	return acc
}

// ---- Fp2 = Fp[i]/(i^2+1) ------------------------------------------------------------------

type fp2 struct{ a, b *big.Int } // a + b*i

func f2(a, b int64) fp2     { return fp2{fpMod(big.NewInt(a)), fpMod(big.NewInt(b))} }
func (x fp2) isZero() bool  { return x.a.Sign() == 0 && x.b.Sign() == 0 }
func (x fp2) eq(y fp2) bool { return x.a.Cmp(y.a) == 0 && x.b.Cmp(y.b) == 0 }
func (x fp2) add(y fp2) fp2 { return fp2{fpAdd(x.a, y.a), fpAdd(x.b, y.b)} }
func (x fp2) sub(y fp2) fp2 { return fp2{fpSub(x.a, y.a), fpSub(x.b, y.b)} }
func (x fp2) neg() fp2      { return fp2{fpNeg(x.a), fpNeg(x.b)} }
func (x fp2) mul(y fp2) fp2 {
	return fp2{fpSub(fpMul(x.a, y.a), fpMul(x.b, y.b)), fpAdd(fpMul(x.a, y.b), fpMul(x.b, y.a))}
}
func (x fp2) inv() fp2 {
	n := fpInv(fpAdd(fpMul(x.a, x.a), fpMul(x.b, x.b)))
	return fp2{fpMul(x.a, n), fpMul(fpNeg(x.b), n)}
}

// sqrt in Fp2 for p = 3 mod 4 (complex method); ok=false if x is not a square.
func (x fp2) sqrt() (fp2, bool) {
	if x.isZero() {
		return f2(0, 0), true
	}
	fpSqrt := func(v *big.Int) *big.Int { return new(big.Int).ModSqrt(v, bnP) }
	var cand []fp2
	if x.b.Sign() == 0 {
		if s := fpSqrt(x.a); s != nil {
			cand = append(cand, fp2{s, new(big.Int)})
		}
		if s := fpSqrt(fpNeg(x.a)); s != nil {
			cand = append(cand, fp2{new(big.Int), s})
		}
	} else {
		n := fpSqrt(fpAdd(fpMul(x.a, x.a), fpMul(x.b, x.b)))
		if n == nil {
			return fp2{}, false
		}
		half := fpInv(big.NewInt(2))
		for _, s := range []*big.Int{n, fpNeg(n)} {
			d := fpMul(fpAdd(x.a, s), half)
			x0 := fpSqrt(d)
			if x0 == nil || x0.Sign() == 0 {
				continue
			}
			x1 := fpMul(x.b, fpInv(fpAdd(x0, x0)))
			cand = append(cand, fp2{x0, x1})
		}
	}
	for _, c := range cand {
		if c.mul(c).eq(x) {
			return c, true
		}
	}
	return fp2{}, false
}

// ---- G2: y^2 = x^3 + 3/(9+i) over Fp2 ------------------------------------------------------

var twistB = f2(3, 0).mul(f2(9, 1).inv())

type g2 struct {
	x, y fp2
	inf  bool
}

func g2OnCurve(x, y fp2) bool { return y.mul(y).eq(x.mul(x).mul(x).add(twistB)) }

func g2Add(p, q g2) g2 {
	if p.inf {
		return q
	}
	if q.inf {
		return p
	}
	var lam fp2
	if p.x.eq(q.x) {
		if p.y.add(q.y).isZero() {
			return g2{inf: true}
		}
		lam = f2(3, 0).mul(p.x.mul(p.x)).mul(p.y.add(p.y).inv())
	} else {
		lam = q.y.sub(p.y).mul(q.x.sub(p.x).inv())
	}
	x3 := lam.mul(lam).sub(p.x).sub(q.x)
	y3 := lam.mul(p.x.sub(x3)).sub(p.y)
	return g2{x: x3, y: y3}
}

func g2Mul(p g2, k *big.Int) g2 {
	acc := g2{inf: true}
	for i := k.BitLen() - 1; i >= 0; i-- {
		acc = g2Add(acc, acc)
		if k.Bit(i) == 1 {
			acc = g2Add(acc, p)
		}
	}
	return acc
}

func g2Neg(p g2) g2 {
	if p.inf {
		return p
	}
	return g2{x: p.x, y: p.y.neg()}
}

type g2Class int

const (
	g2BadEncoding g2Class = iota // short input or a coordinate >= p
	g2NotOnCurve
	g2NotInSubgroup
	g2Valid
	g2Infinity
)

// g2Decode applies EIP-197: x = x_im*i + x_re encoded as (x_im, x_re, y_im, y_re), each
// 32-byte big-endian < p; all-zero is infinity; must be on the twist and in the r-torsion.
func g2Decode(b []byte) (g2, g2Class) {
	if len(b) < 128 {
		return g2{}, g2BadEncoding
	}
	v := make([]*big.Int, 4)
	allZero := true
	for i := range v {
		v[i] = new(big.Int).SetBytes(b[32*i : 32*i+32])
		if v[i].Cmp(bnP) >= 0 {
			return g2{}, g2BadEncoding
		}
		if v[i].Sign() != 0 {
			allZero = false
		}
	}
	if allZero {
		return g2{inf: true}, g2Infinity
	}
	p := g2{x: fp2{v[1], v[0]}, y: fp2{v[3], v[2]}}
	if !g2OnCurve(p.x, p.y) {
		return g2{}, g2NotOnCurve
	}
	if !g2Mul(p, bnR).inf {
		return p, g2NotInSubgroup
	}
	return p, g2Valid
}

func (p g2) encode() []byte {
	out := make([]byte, 128)
	if p.inf {
		return out
	}
	p.x.b.FillBytes(out[0:32])
	p.x.a.FillBytes(out[32:64])
	p.y.b.FillBytes(out[64:96])
	p.y.a.FillBytes(out[96:128])
	return out
}

// g2Gen is the generator given in EIP-197.
func g2Gen() g2 {
	s := func(v string) *big.Int { x, _ := new(big.Int).SetString(v, 10); return x }
	return g2{
		x: fp2{s("10857046999023057135944570762232829481370756359578518086990519993285655852781"), s("11559732032986387107991004021392285783925812861821192530917403151452391805634")},
		y: fp2{s("8495653923123431417604973247489272438418190587263600148770280649306958101930"), s("4082367875863433681332203403145435568316851327593401208105741076214120093531")},
	}
}

// g2RandomTwistPoint returns a point on the twist for a pseudo-random x (almost surely
// outside the r-torsion: the twist has cofactor 2p-r).
func g2RandomTwistPoint(next func() *big.Int) g2 {
	for {
		x := fp2{fpMod(next()), fpMod(next())}
		rhs := x.mul(x).mul(x).add(twistB)
		if y, ok := rhs.sqrt(); ok {
			return g2{x: x, y: y}
		}
	}
}
