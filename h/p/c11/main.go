// C11: trie generation from flat state (triedb.GenerateTrie) reproduces the canonical trie.
//
// Every case writes a random flat snapshot (accounts in slim RLP, storage slots, a random
// subset of accounts with stale storage roots, storage of non-existent accounts at chosen
// positions, unrelated noise keys) into a fresh database, runs the real GenerateTrie with the
// root of the *corrected* state computed by the reference trie (refmpt), and then compares
//   - the returned error / statistics,
//   - the complete raw key space of the database with the expected one (corrected flat state,
//     canonical node set keyed by path resp. hash, noise untouched),
//   - what the real trie database reads when opened at that root (in-process on a copy for
//     memorydb, in a child process after closing for Pebble),
//
// plus: a wrong expected root must give an error, a closed cancel channel must give
// ErrCancelled when there is anything to walk.
package main

import (
	"bytes"
	"crypto/sha256"
	"errors"
	"fmt"
	"math/rand"
	"os"
	"path/filepath"
	"runtime"
	"sort"
	"strings"
	"sync/atomic"
	"time"

	"github.com/ethereum/go-ethereum/common"
	"github.com/ethereum/go-ethereum/core/rawdb"
	"github.com/ethereum/go-ethereum/ethdb"
	"github.com/ethereum/go-ethereum/ethdb/pebble"
	"github.com/ethereum/go-ethereum/trie"
	"github.com/ethereum/go-ethereum/triedb"
	"github.com/ethereum/go-ethereum/triedb/hashdb"
	"github.com/ethereum/go-ethereum/triedb/pathdb"

	"verif/lib/flatstate"
	"verif/lib/refmpt"
	"verif/lib/vrt"
)

func main() { vrt.Main("C11", run) }

func init() { vrt.RegisterChild("reopen", childReopen) }

// ---- counting database wrapper (observes batch flushes beyond IdealBatchSize) ----

type cntDB struct {
	ethdb.Database
	big *atomic.Int64
}

type cntBatch struct {
	ethdb.Batch
	big *atomic.Int64
}

func (d cntDB) NewBatch() ethdb.Batch { return &cntBatch{d.Database.NewBatch(), d.big} }
func (d cntDB) NewBatchWithSize(n int) ethdb.Batch {
	return &cntBatch{d.Database.NewBatchWithSize(n), d.big}
}
func (b *cntBatch) Write() error {
	if b.ValueSize() > ethdb.IdealBatchSize {
		b.big.Add(1)
	}
	return b.Batch.Write()
}

// ---- case description ----

type shape struct {
	NAcc      int
	Parts     string // any | one | two | all16
	Nibbles   []byte
	MaxSlots  int
	BigStor   int // if >0 one account gets that many slots
	StaleP    float64
	NDangling int
	BigDang   int // if >0 one dangling account gets that many slots
	Cluster   float64
	Scheme    string
	Backend   string // mem | pebble
	Procs     int    // GOMAXPROCS for sequential cases (0 = unchanged)
}

type flatCase struct {
	sh       shape
	state    *flatstate.State
	built    *flatstate.Built
	stale    map[string][]byte            // account hash -> stale root written to the flat state
	dangling map[string]map[string][]byte // non-existent account hash -> slot hash -> value
	dangPos  map[string]string            // dangling account -> position class
	noise    map[string][]byte            // unrelated raw keys
	flatRoot []byte                       // root a generator would get if it trusted the stale roots
	edgeAcc  int                          // accounts placed exactly on partition boundaries
}

func hashAdd(h string, d int) string {
	b := []byte(h)
	for i := 31; i >= 0; i-- {
		if d > 0 {
			b[i]++
			if b[i] != 0 {
				break
			}
		} else {
			b[i]--
			if b[i] != 0xff {
				break
			}
		}
	}
	return string(b)
}

func pickShape(rng *rand.Rand, i int, quick bool) shape {
	sh := shape{Scheme: rawdb.HashScheme, Backend: "mem"}
	if i%2 == 1 {
		sh.Scheme = rawdb.PathScheme
	}
	switch x := rng.Intn(100); {
	case x < 4:
		sh.NAcc = 0
	case x < 14:
		sh.NAcc = 1
	case x < 24:
		sh.NAcc = 2
	case x < 50:
		sh.NAcc = 3 + rng.Intn(14)
	case x < 78:
		sh.NAcc = 17 + rng.Intn(50)
	default:
		sh.NAcc = 100 + rng.Intn(250)
	}
	switch x := rng.Intn(100); {
	case x < 30:
		sh.Parts = "one"
		sh.Nibbles = []byte{byte(rng.Intn(16))}
	case x < 50:
		sh.Parts = "two"
		a := byte(rng.Intn(16))
		b := byte(rng.Intn(16))
		if rng.Intn(2) == 0 {
			b = (a + 1) & 15
		}
		if a == b {
			b = (a + 7) & 15
		}
		sh.Nibbles = []byte{a, b}
	case x < 70:
		sh.Parts = "all16"
		if sh.NAcc < 16 {
			sh.NAcc = 16 + rng.Intn(30)
		}
	default:
		sh.Parts = "any"
	}
	sh.MaxSlots = []int{0, 1, 1, 6, 6, 40}[rng.Intn(6)]
	sh.StaleP = []float64{0, 0, 0.3, 0.3, 1}[rng.Intn(5)]
	sh.NDangling = []int{0, 0, 1, 2, 5, 12}[rng.Intn(6)]
	sh.Cluster = []float64{0, 0.3, 0.8}[rng.Intn(3)]
	if rng.Intn(10) == 0 {
		sh.Backend = "pebble"
	}
	// forced heavy shapes (batch flush paths): both schemes
	heavy := -1
	if quick {
		if i >= 2 && i < 8 {
			heavy = i - 2
		}
	} else if i%100 >= 2 && i%100 < 8 {
		heavy = i%100 - 2
	}
	switch heavy {
	case 0, 1: // many accounts in one/two partitions: account-trie flushes
		sh.NAcc = 2500 + rng.Intn(2500)
		sh.Parts, sh.Nibbles = "one", []byte{byte(rng.Intn(16))}
		if heavy == 1 {
			sh.Parts, sh.Nibbles = "two", []byte{3, 4}
		}
		sh.MaxSlots = 1
	case 2, 3: // one very large storage trie
		sh.BigStor = 2500 + rng.Intn(1500)
		if sh.MaxSlots == 0 {
			sh.MaxSlots = 1
		}
		if sh.NAcc == 0 {
			sh.NAcc = 3
		}
	case 4, 5: // very many dangling slots (flush while deleting)
		sh.BigDang = 2500 + rng.Intn(1500)
		if sh.NDangling == 0 {
			sh.NDangling = 2
		}
		if heavy == 5 {
			sh.Backend = "pebble"
		}
	}
	return sh
}

func nibbleOf(h string) byte { return h[0] >> 4 }

func buildCase(rng *rand.Rand, sh shape) *flatCase {
	c := &flatCase{sh: sh, stale: map[string][]byte{}, dangling: map[string]map[string][]byte{}, dangPos: map[string]string{}, noise: map[string][]byte{}}
	o := flatstate.GenOpts{Accounts: sh.NAcc, MaxSlots: sh.MaxSlots, StorageP: 0.6, CodeP: 0.3, ShareCodeP: 0.3, ShareStorP: 0.15,
		Nibbles: sh.Nibbles, ClusterP: sh.Cluster, SmallVals: rng.Intn(2) == 0}
	c.state = flatstate.Gen(rng, o)
	if sh.Parts == "all16" {
		have := map[byte]bool{}
		for h := range c.state.Accounts {
			have[nibbleOf(h)] = true
		}
		for n := byte(0); n < 16; n++ {
			if !have[n] {
				o2 := o
				o2.Accounts, o2.Nibbles, o2.ClusterP = 1, []byte{n}, 0
				for h, a := range flatstate.Gen(rng, o2).Accounts {
					c.state.Accounts[h] = a
				}
			}
		}
	}
	// accounts sitting exactly on partition boundaries (x000..0 / xfff..f)
	if sh.NAcc > 0 && rng.Intn(3) == 0 {
		for k := 1 + rng.Intn(3); k > 0; k-- {
			n := byte(rng.Intn(16))
			if len(sh.Nibbles) > 0 {
				n = sh.Nibbles[rng.Intn(len(sh.Nibbles))]
			}
			h := make([]byte, 32)
			h[0] = n << 4
			// The all-zero account hash is excluded: go-ethereum uses owner == common.Hash{}
			// to denote the account trie itself everywhere (rawdb.WriteTrieNode, trie IDs), so
			// an account with that hash is outside the domain (it needs a keccak preimage of 0).
			if n == 0 || rng.Intn(2) == 0 {
				h = bytes.Repeat([]byte{0xff}, 32)
				h[0] = n<<4 | 0x0f
			}
			o2 := o
			o2.Accounts, o2.Nibbles, o2.ClusterP = 1, nil, 0
			for _, a := range flatstate.Gen(rng, o2).Accounts {
				a.Hash = string(h)
				c.state.Accounts[a.Hash] = a
			}
			c.edgeAcc++
		}
	}
	hashes := c.state.SortedHashes()
	if sh.BigStor > 0 && len(hashes) > 0 {
		a := c.state.Accounts[hashes[rng.Intn(len(hashes))]]
		a.Slots, a.SlotPre = flatstate.GenStorage(rng, sh.BigStor, flatstate.GenOpts{ClusterP: 0.2})
	}
	c.built = c.state.Build()
	// stale roots
	for _, h := range hashes {
		if rng.Float64() >= sh.StaleP {
			continue
		}
		var st []byte
		switch rng.Intn(4) {
		case 0:
			st = flatstate.EmptyRoot
		case 1:
			st = c.built.Roots[hashes[rng.Intn(len(hashes))]]
		default:
			st = make([]byte, 32)
			rng.Read(st)
		}
		if bytes.Equal(st, c.built.Roots[h]) {
			st = refmpt.Keccak(st)
		}
		c.stale[h] = st
	}
	// dangling storage
	isAcc := func(h string) bool { _, ok := c.state.Accounts[h]; return ok }
	for tries := 0; len(c.dangling) < sh.NDangling && tries < 200; tries++ {
		var d string
		switch k := rng.Intn(10); {
		case k < 3: // random hash, random partition (possibly an unpopulated one)
			b := make([]byte, 32)
			rng.Read(b)
			d = string(b)
		case k < 4: // lower partition boundary
			b := make([]byte, 32)
			b[0] = byte(rng.Intn(16)) << 4
			d = string(b)
		case k < 5: // upper partition boundary
			b := bytes.Repeat([]byte{0xff}, 32)
			b[0] = byte(rng.Intn(16))<<4 | 0x0f
			d = string(b)
		case k < 8: // neighbour of an existing account
			if len(hashes) == 0 {
				continue
			}
			d = hashAdd(hashes[rng.Intn(len(hashes))], []int{-1, 1}[rng.Intn(2)])
		default: // random hash inside a populated partition
			if len(hashes) == 0 {
				continue
			}
			b := make([]byte, 32)
			rng.Read(b)
			b[0] = b[0]&15 | hashes[rng.Intn(len(hashes))][0]&0xf0
			d = string(b)
		}
		if isAcc(d) || c.dangling[d] != nil {
			continue
		}
		n := 1 + rng.Intn(4)
		if sh.BigDang > 0 && len(c.dangling) == 0 {
			n = sh.BigDang
		}
		slots, _ := flatstate.GenStorage(rng, n, flatstate.GenOpts{ClusterP: 0.2})
		if rng.Intn(6) == 0 {
			slots[string(make([]byte, 32))] = []byte{1}
		}
		if rng.Intn(6) == 0 {
			slots[string(bytes.Repeat([]byte{0xff}, 32))] = []byte{2}
		}
		c.dangling[d] = slots
	}
	for d := range c.dangling {
		var first, last string
		for _, h := range hashes {
			if nibbleOf(h) == nibbleOf(d) {
				if first == "" {
					first = h
				}
				last = h
			}
		}
		pos := "between"
		switch {
		case first == "":
			pos = "emptypart"
		case d < first:
			pos = "before"
		case d > last:
			pos = "after"
		}
		if d[1:] == string(make([]byte, 31)) && d[0]&15 == 0 || d[1:] == strings.Repeat("\xff", 31) && d[0]&15 == 15 {
			pos += "+edge"
		}
		c.dangPos[d] = pos
	}
	// noise: keys that share the snapshot prefixes but not their lengths, codes, misc
	for i := 0; i < 6; i++ {
		v := make([]byte, 1+rng.Intn(40))
		rng.Read(v)
		var k []byte
		switch i {
		case 0:
			k = append([]byte("a"), make([]byte, 31)...)
		case 1:
			k = append([]byte("a"), make([]byte, 33)...)
		case 2:
			k = append([]byte("o"), make([]byte, 63)...)
		case 3:
			k = append([]byte("o"), make([]byte, 66)...)
		case 4:
			k = append([]byte("c"), make([]byte, 32)...)
		case 5:
			k = []byte("SnapshotRoot")
		}
		if len(k) > 1 && i < 5 {
			rng.Read(k[1:])
		}
		c.noise[string(k)] = v
	}
	// the root a naive generator (trusting flat roots) would compute
	full := map[string][]byte{}
	for h, a := range c.state.Accounts {
		if st, ok := c.stale[h]; ok {
			full[h] = a.Full(st)
		} else {
			full[h] = c.built.Full[h]
		}
	}
	c.flatRoot = refmpt.Build(full).Root
	return c
}

// write stores the (uncorrected) flat input through the real rawdb accessors.
func (c *flatCase) write(db ethdb.KeyValueWriter) {
	for h, a := range c.state.Accounts {
		root := c.built.Roots[h]
		if st, ok := c.stale[h]; ok {
			root = st
		}
		rawdb.WriteAccountSnapshot(db, common.BytesToHash([]byte(h)), a.Slim(root))
		for s, v := range a.Slots {
			rawdb.WriteStorageSnapshot(db, common.BytesToHash([]byte(h)), common.BytesToHash([]byte(s)), flatstate.SlotRLP(v))
		}
	}
	for d, slots := range c.dangling {
		for s, v := range slots {
			rawdb.WriteStorageSnapshot(db, common.BytesToHash([]byte(d)), common.BytesToHash([]byte(s)), flatstate.SlotRLP(v))
		}
	}
	for k, v := range c.noise {
		db.Put([]byte(k), v)
	}
}

// expected returns the complete expected key space after a successful generation. Keys are
// assembled from the schema's prefix letters directly (not through rawdb).
func (c *flatCase) expected() map[string][]byte {
	m := map[string][]byte{}
	for k, v := range c.noise {
		m[k] = v
	}
	for h, a := range c.state.Accounts {
		m["a"+h] = c.built.Slim[h]
		for s, v := range a.Slots {
			m["o"+h+s] = flatstate.SlotRLP(v)
		}
	}
	for owner, set := range c.built.NodeSets() {
		for p, blob := range set {
			switch {
			case c.sh.Scheme == rawdb.HashScheme:
				m[string(refmpt.Keccak(blob))] = blob
			case owner == "":
				m["A"+p] = blob
			default:
				m["O"+owner+p] = blob
			}
		}
	}
	return m
}

func dump(db ethdb.Iteratee) map[string][]byte {
	m := map[string][]byte{}
	it := db.NewIterator(nil, nil)
	defer it.Release()
	for it.Next() {
		m[string(it.Key())] = common.CopyBytes(it.Value())
	}
	return m
}

func copyDB(src ethdb.Iteratee) ethdb.Database {
	dst := rawdb.NewMemoryDatabase()
	it := src.NewIterator(nil, nil)
	defer it.Release()
	for it.Next() {
		dst.Put(it.Key(), it.Value())
	}
	return dst
}

func keyClass(k string, scheme string) string {
	switch {
	case len(k) == 33 && k[0] == 'a':
		return "flat-account"
	case len(k) == 65 && k[0] == 'o':
		return "flat-storage"
	case k[0] == 'A' && scheme == rawdb.PathScheme:
		return "account-trie-node"
	case k[0] == 'O' && scheme == rawdb.PathScheme:
		return "storage-trie-node"
	case len(k) == 32 && scheme == rawdb.HashScheme:
		return "hash-node"
	}
	return "other"
}

func tdbConfig(scheme string) *triedb.Config {
	if scheme == rawdb.PathScheme {
		return &triedb.Config{PathDB: &pathdb.Config{SnapshotNoBuild: true, NoAsyncFlush: true, TrieCleanSize: 1 << 20, StateCleanSize: 1 << 20, WriteBufferSize: 1 << 20}}
	}
	return &triedb.Config{HashDB: &hashdb.Config{CleanCacheSize: 1 << 20}}
}

// readState opens the real trie database over db at root and returns everything it reads:
// "A"+accountHash -> full account RLP, "S"+accountHash+slotHash -> slot value.
func readState(db ethdb.Database, scheme string, root common.Hash) (map[string][]byte, error) {
	tdb := triedb.NewDatabase(db, tdbConfig(scheme))
	defer tdb.Close()
	out := map[string][]byte{}
	if root == common.BytesToHash(flatstate.EmptyRoot) {
		return out, nil
	}
	at, err := trie.New(trie.StateTrieID(root), tdb)
	if err != nil {
		return nil, fmt.Errorf("open account trie: %w", err)
	}
	nit, err := at.NodeIterator(nil)
	if err != nil {
		return nil, err
	}
	it := trie.NewIterator(nit)
	for it.Next() {
		out["A"+string(it.Key)] = common.CopyBytes(it.Value)
		acc, err := flatstate.DecodeAccount(it.Value)
		if err != nil {
			return nil, fmt.Errorf("account %x undecodable: %v", it.Key, err)
		}
		if bytes.Equal(acc.Root, flatstate.EmptyRoot) {
			continue
		}
		st, err := trie.New(trie.StorageTrieID(root, common.BytesToHash(it.Key), common.BytesToHash(acc.Root)), tdb)
		if err != nil {
			return nil, fmt.Errorf("open storage trie of %x: %w", it.Key, err)
		}
		snit, err := st.NodeIterator(nil)
		if err != nil {
			return nil, err
		}
		sit := trie.NewIterator(snit)
		for sit.Next() {
			out["S"+string(it.Key)+string(sit.Key)] = common.CopyBytes(sit.Value)
		}
		if sit.Err != nil {
			return nil, fmt.Errorf("iterate storage of %x: %w", it.Key, sit.Err)
		}
	}
	if it.Err != nil {
		return nil, fmt.Errorf("iterate accounts: %w", it.Err)
	}
	return out, nil
}

func (c *flatCase) expectedRead() map[string][]byte {
	out := map[string][]byte{}
	for h, a := range c.state.Accounts {
		out["A"+h] = c.built.Full[h]
		for s, v := range a.Slots {
			out["S"+h+s] = flatstate.SlotRLP(v)
		}
	}
	return out
}

func digest(m map[string][]byte) string {
	keys := make([]string, 0, len(m))
	for k := range m {
		keys = append(keys, k)
	}
	sort.Strings(keys)
	h := sha256.New()
	for _, k := range keys {
		fmt.Fprintf(h, "%d:%s%d:%s", len(k), k, len(m[k]), m[k])
	}
	return fmt.Sprintf("%x", h.Sum(nil))
}

// childReopen: VERIF_C11_DIR, VERIF_C11_SCHEME, VERIF_C11_ROOT -> prints "DIGEST <hex> <n>".
func childReopen(r *vrt.Run) {
	kv, err := pebble.New(os.Getenv("VERIF_C11_DIR"), 16, 16, "", false)
	if err != nil {
		fmt.Println("OPENERR", err)
		return
	}
	db := rawdb.NewDatabase(kv)
	defer db.Close()
	m, err := readState(db, os.Getenv("VERIF_C11_SCHEME"), common.HexToHash(os.Getenv("VERIF_C11_ROOT")))
	if err != nil {
		fmt.Println("READERR", err)
		return
	}
	fmt.Println("DIGEST", digest(m), len(m))
}

func (c *flatCase) witness() map[string]any {
	w := map[string]any{"shape": c.sh, "root": vrt.Hex(c.built.Root)}
	total := len(c.state.Accounts)
	for _, a := range c.state.Accounts {
		total += len(a.Slots)
	}
	for _, s := range c.dangling {
		total += len(s)
	}
	if total <= 120 {
		acc := map[string]any{}
		for h, a := range c.state.Accounts {
			slots := map[string]string{}
			for s, v := range a.Slots {
				slots[vrt.Hex([]byte(s))] = vrt.Hex(v)
			}
			e := map[string]any{"slim_correct": vrt.Hex(c.built.Slim[h]), "slots": slots}
			if st, ok := c.stale[h]; ok {
				e["stale_root"] = vrt.Hex(st)
			}
			acc[vrt.Hex([]byte(h))] = e
		}
		dg := map[string]any{}
		for d, s := range c.dangling {
			slots := map[string]string{}
			for k, v := range s {
				slots[vrt.Hex([]byte(k))] = vrt.Hex(v)
			}
			dg[vrt.Hex([]byte(d))] = slots
		}
		w["accounts"], w["dangling"] = acc, dg
	}
	return w
}

func partsClass(c *flatCase) string {
	have := map[byte]bool{}
	for h := range c.state.Accounts {
		have[nibbleOf(h)] = true
	}
	switch n := len(have); {
	case n == 0:
		return "p0"
	case n == 1:
		return "p1"
	case n == 2:
		return "p2"
	case n == 16:
		return "p16"
	default:
		return "p3-15"
	}
}

func runCase(r *vrt.Run, idx int, stream string, sh shape) {
	rng := r.Rand(stream, idx)
	c := buildCase(rng, sh)
	r.Case("%s %d shape=%+v", stream, idx, sh)
	w := c.witness()
	w["stream"], w["idx"] = stream, idx
	root := common.BytesToHash(c.built.Root)

	// underlying database
	var (
		base ethdb.Database
		dir  string
	)
	if sh.Backend == "pebble" {
		dir = filepath.Join(r.Scratch, fmt.Sprintf("pb-%s-%d", stream, idx))
		kv, err := pebble.New(dir, 16, 16, "", false)
		if err != nil {
			r.Inconclusive("pebble open failed: %v", err)
			return
		}
		base = rawdb.NewDatabase(kv)
		defer os.RemoveAll(dir)
	} else {
		base = rawdb.NewMemoryDatabase()
	}
	c.write(base)
	input := dump(base)

	// (1) wrong expected root on a copy: must fail
	if rng.Intn(3) == 0 {
		var wrong common.Hash
		kind := ""
		switch k := rng.Intn(4); {
		case k == 0 && len(c.stale) > 0:
			wrong, kind = common.BytesToHash(c.flatRoot), "uncorrected-root"
		case k == 1 && len(c.state.Accounts) > 0:
			wrong, kind = common.BytesToHash(flatstate.EmptyRoot), "empty-root"
		case k == 2:
			kind = "zero"
		default:
			rng.Read(wrong[:])
			kind = "random"
		}
		if wrong != root {
			cp := copyDB(base)
			var err error
			if !r.Guard("wrong-root", w, func() { _, err = triedb.GenerateTrie(cp, sh.Scheme, wrong, nil) }) {
				if err == nil {
					r.Violation("wrong-root-accepted", fmt.Sprintf("GenerateTrie returned nil for expected root %x (%s), true root %x", wrong, kind, root), w)
				}
				r.Count("wrong_root_"+kind, 1)
			}
			cp.Close()
		}
	}
	// (2) closed cancel channel on a copy: ErrCancelled whenever a loop body is reached
	if rng.Intn(6) == 0 {
		cp := copyDB(base)
		ch := make(chan struct{})
		close(ch)
		var err error
		if !r.Guard("cancel", w, func() { _, err = triedb.GenerateTrie(cp, sh.Scheme, root, ch) }) {
			walk := len(c.state.Accounts) > 0 || len(c.dangling) > 0
			if walk && !errors.Is(err, triedb.ErrCancelled) {
				r.Violation("cancel-ignored", fmt.Sprintf("GenerateTrie with a closed cancel channel returned %v", err), w)
			}
			if !walk && err != nil {
				r.Violation("cancel-empty-error", fmt.Sprintf("GenerateTrie on an empty flat state returned %v", err), w)
			}
			r.Count("cancel_cases", 1)
		}
		cp.Close()
	}

	// (3) the real run
	var big atomic.Int64
	db := cntDB{base, &big}
	if sh.Procs > 0 {
		defer runtime.GOMAXPROCS(runtime.GOMAXPROCS(sh.Procs))
	}
	var (
		stats triedb.GenerateStats
		err   error
	)
	if r.Guard("generate", w, func() { stats, err = triedb.GenerateTrie(db, sh.Scheme, root, nil) }) {
		base.Close()
		return
	}
	flushed := big.Load() > 0
	nStale, nDang, nSlots := len(c.stale), 0, 0
	for _, s := range c.dangling {
		nDang += len(s)
	}
	for _, a := range c.state.Accounts {
		nSlots += len(a.Slots)
	}
	if err != nil {
		r.Violation("error-on-right-root", fmt.Sprintf("GenerateTrie(%s) failed for the root of the corrected state %x: %v", sh.Scheme, root, err), w)
	} else {
		if stats.Scanned != int64(len(c.state.Accounts)) || stats.Updated != int64(nStale) || stats.Deleted != int64(nDang) {
			r.Violation("stats", fmt.Sprintf("stats %+v, want scanned=%d updated=%d deleted=%d", stats, len(c.state.Accounts), nStale, nDang), w)
		}
		// raw key space
		got, want := dump(base), c.expected()
		nd := 0
		for k, v := range want {
			g, ok := got[k]
			cl := keyClass(k, sh.Scheme)
			if !ok {
				if nd++; nd <= 3 {
					r.Violation("missing:"+cl, fmt.Sprintf("%s: key %x missing after generation (want %x)", sh.Scheme, k, v), w)
				}
			} else if !bytes.Equal(g, v) {
				if nd++; nd <= 3 {
					r.Violation("differs:"+cl, fmt.Sprintf("%s: key %x = %x, want %x", sh.Scheme, k, g, v), w)
				}
			}
		}
		for k, v := range got {
			if _, ok := want[k]; ok {
				continue
			}
			cl := keyClass(k, sh.Scheme)
			if cl == "hash-node" && bytes.Equal(refmpt.Keccak(v), []byte(k)) {
				// hash scheme: the property only demands exactness of the node store under
				// the path scheme; leftover hash-keyed nodes are tolerated.
				r.Count("hash_scheme_extra_nodes", 1)
				continue
			}
			if _, was := input[k]; was && cl == "flat-storage" {
				cl = "dangling-storage-kept"
			}
			if nd++; nd <= 3 {
				r.Violation("extra:"+cl, fmt.Sprintf("%s: unexpected key %x = %x after generation", sh.Scheme, k, v), w)
			}
		}
		r.Count("keys_compared", len(want))
		// open the node store at the root and read everything
		wantRead := c.expectedRead()
		if sh.Backend == "pebble" {
			base.Close()
			cr := r.Child("reopen", []string{"VERIF_C11_DIR=" + dir, "VERIF_C11_SCHEME=" + sh.Scheme, "VERIF_C11_ROOT=" + root.Hex()}, 5*time.Minute)
			out := string(cr.Output)
			want := fmt.Sprintf("DIGEST %s %d", digest(wantRead), len(wantRead))
			switch {
			case cr.TimedOut:
				r.Inconclusive("reopen child timed out")
			case cr.Exit != 0 || !strings.Contains(out, "DIGEST "):
				r.Violation("reopen-failed", fmt.Sprintf("%s: reopening the database at %x failed (exit %d): %s", sh.Scheme, root, cr.Exit, tail(out, 600)), w)
			case !strings.Contains(out, want):
				r.Violation("reopen-state", fmt.Sprintf("%s: state read after reopen differs: got %q want %q", sh.Scheme, tail(out, 200), want), w)
			}
			r.Count("reopen_child", 1)
		} else {
			cp := copyDB(base)
			var (
				read map[string][]byte
				rerr error
			)
			if !r.Guard("read", w, func() { read, rerr = readState(cp, sh.Scheme, root) }) {
				if rerr != nil {
					r.Violation("open-read", fmt.Sprintf("%s: node store does not read at %x: %v", sh.Scheme, root, rerr), w)
				} else if digest(read) != digest(wantRead) {
					r.Violation("read-state", fmt.Sprintf("%s: node store at %x yields %d entries, want %d (or differing values)", sh.Scheme, root, len(read), len(wantRead)), w)
				}
			}
			r.Count("open_read", 1)
			base.Close()
		}
	}
	// evidence
	pos := map[string]bool{}
	for _, p := range c.dangPos {
		pos[p] = true
		r.Count("dangling_"+p, 1)
	}
	var pl []string
	for p := range pos {
		pl = append(pl, p)
	}
	sort.Strings(pl)
	pc := partsClass(c)
	r.Count("parts_"+pc, 1)
	r.Count("scheme_"+sh.Scheme, 1)
	r.Count("accounts", len(c.state.Accounts))
	r.Count("slots", nSlots)
	r.Count("stale_roots", nStale)
	r.Count("boundary_accounts", c.edgeAcc)
	r.Count("dangling_slots", nDang)
	if flushed {
		r.Count("cases_with_flush", 1)
		r.Count("flush_"+sh.Scheme, 1)
		if sh.BigDang > 0 {
			r.Count("flush_with_big_dangling", 1)
		}
	}
	if len(c.state.Accounts) == 1 && pc == "p1" {
		r.Count("single_account", 1)
	}
	staleC := "s0"
	if nStale > 0 {
		staleC = "s+"
		if nStale == len(c.state.Accounts) {
			staleC = "sall"
		}
	}
	storC := "st0"
	if nSlots > 0 {
		storC = "st+"
	}
	if sh.BigStor > 0 {
		storC = "stbig"
	}
	sig := fmt.Sprintf("%s|%s|%s|%s|%s|flush%v|%s|procs%d", pc, staleC, strings.Join(pl, ","), sh.Scheme, storC, flushed, sh.Backend, sh.Procs)
	if len(c.state.Accounts) == 0 && nDang == 0 {
		sig = ""
	}
	r.Eval(sig)
	if r.WantSample() && idx%7 == 3 {
		r.Sample(map[string]any{"shape": sh, "accounts": len(c.state.Accounts), "slots": nSlots, "stale": nStale, "dangling": c.dangPosList(), "root": root.Hex(), "stats": stats, "flushed": flushed})
	}
}

func (c *flatCase) dangPosList() []string {
	var l []string
	for d, p := range c.dangPos {
		l = append(l, fmt.Sprintf("%x..:%s:%d", d[:4], p, len(c.dangling[d])))
	}
	sort.Strings(l)
	return l
}

func tail(s string, n int) string {
	if len(s) > n {
		return s[len(s)-n:]
	}
	return s
}

func run(r *vrt.Run) {
	r.Rule("case = random flat snapshot: accounts (0..5000, clustered hashes) confined to none/one/two/all 16 first-nibble partitions, storage 0..4000 slots, a random subset of stale account roots, storage of non-existent accounts placed before/between/after accounts, in unpopulated partitions and on partition boundaries, noise keys; scheme alternates; memorydb or Pebble. Non-trivial = anything to walk; signature = (populated partitions class, stale class, dangling position set, scheme, storage class, batch flush observed, backend, GOMAXPROCS)")
	n := r.N(150, 6000)
	nseq := r.N(24, 240)
	if r.Race() {
		n, nseq = n/5, nseq/4
	}
	quick := r.Quick()
	vrt.Par(n, 0, func(i int) {
		sh := pickShape(r.Rand("shape", i), i, quick)
		if r.Race() && sh.NAcc > 1500 {
			sh.NAcc = 1200 + sh.NAcc%300 // still > IdealBatchSize in one partition, cheaper for the (slow under -race) reference trie
		}
		if r.Race() && sh.BigStor > 0 {
			sh.BigStor = 1800
		}
		if r.Race() && sh.BigDang > 0 {
			sh.BigDang = 2000
		}
		runCase(r, i, "gen", sh)
	})
	// sequential phase with restricted GOMAXPROCS (16 partition goroutines on 1 / 4 Ps)
	for i := 0; i < nseq; i++ {
		sh := pickShape(r.Rand("shape-seq", i), 100+i, quick)
		sh.Procs = []int{1, 4}[i%2]
		if sh.Backend == "pebble" && i%4 != 0 {
			sh.Backend = "mem"
		}
		runCase(r, i, "seq", sh)
	}
	need := func(name string, min int64) { // coverage obligations, scaled down for the (smaller) race workload
		if r.Race() {
			min = max(1, min/5)
		}
		r.Require(name, min)
	}
	need("parts_p1", 5)
	need("parts_p16", 5)
	need("single_account", 1)
	need("stale_roots", 20)
	need("boundary_accounts", 5)
	need("dangling_slots", 20)
	need("dangling_emptypart", 1)
	need("dangling_before", 1)
	need("dangling_between", 1)
	need("dangling_after", 1)
	need("scheme_path", 10)
	need("scheme_hash", 10)
	need("cases_with_flush", 2)
	need("reopen_child", 1)
	need("wrong_root_random", 1)
	r.Assume("reference trie refmpt and refrlp/flatstate encoders (cross-checked against go-ethereum's trie by lib/flatstate's test and bld-B1)")
	r.Assume("precondition of GenerateTrie as at its call site (snap syncer resets the trie-node key space first): no trie nodes in the database before the run")
}
