// C13: account state (core/state.StateDB) behaves like the reference account model.
//
// Random histories of interpreter-issued call patterns (lib/sdbdrive) are executed in lock-step
// on a real StateDB and on lib/acctmodel; every getter, every setter return value and every
// IntermediateRoot is compared. The first divergence of a history is minimised by delta
// debugging and reported with the remaining op list as witness.
package main

import (
	"fmt"
	"runtime/debug"
	"strings"
	"sync"

	sd "verif/lib/sdbdrive"
	"verif/lib/vrt"
)

func main() { vrt.Main("C13", run) }

// Hist is the replayable description of one history.
type Hist struct {
	Fork      string              `json:"fork"`
	DBKind    int                 `json:"db_kind"`
	Genesis   []sd.GenesisAccount `json:"genesis"`
	ReadLevel int                 `json:"read_level"`
	Ops       []sd.Op             `json:"ops"`
}

// replay executes a fixed op list on a fresh pair and returns the pair (for its failure/shape).
func replay(h *Hist) (p *sd.Pair, fail *sd.Failure) {
	env := sd.NewEnv(h.DBKind)
	defer env.Close()
	defer func() {
		if e := recover(); e != nil {
			fail = &sd.Failure{FP: "panic:" + vrt.PanicSite(string(debug.Stack())), Msg: fmt.Sprintf("panic: %v\n%s", e, trim(string(debug.Stack())))}
		}
	}()
	p, fail = env.Start(sd.ForkByName(h.Fork), h.Genesis)
	if fail != nil {
		return nil, fail
	}
	for _, op := range h.Ops {
		p.Exec(op)
	}
	finish(p)
	return p, p.Err
}

func trim(s string) string {
	if len(s) > 2500 {
		return s[:2500]
	}
	return s
}

// finish closes an open transaction and compares root and every observable once more.
func finish(p *sd.Pair) {
	if p.InTx() {
		p.Exec(sd.Op{K: "end"})
	}
	p.Exec(sd.Op{K: "iroot"})
	p.Exec(sd.Op{K: "rdall"})
	// A second root computation without intervening changes must be stable.
	p.Exec(sd.Op{K: "iroot"})
}

func run(r *vrt.Run) {
	r.Rule("history i: rule set = Forks[i mod 10] (Frontier, SpuriousDragon, Byzantium, Berlin, London, Shanghai, Cancun, Prague, Osaka, Amsterdam); database kind (hash / hash+snapshot / path / path-4k) and start state (empty / random committed state with contracts+storage, EOAs, pre-funded addresses and, up to Byzantium, empty accounts) and read level (sparse / per-op sample / full state after every op) drawn per history; 1-5 transactions of 4-30 ops from the interpreter call-pattern alphabet (transfers incl. zero value, nonce bumps, EIP-7702 set-code, SSTORE incl. same-value and write-back, TSTORE, access-list adds, refunds, logs, nested call/create frames with revert/return/revert-to-outer, fork-specific SELFDESTRUCT composites) over 8 addresses x 4 slots; tx end = IntermediateRoot before Byzantium, Finalise or IntermediateRoot after. non-trivial signature = (rule set, start kind, #tx bucket {1-2,3-4,5}, max frame depth bucket {0,1-2,3+}, create frame reverted?, set of self-destruct kinds); a history without any write op is trivial")
	n := r.N(4000, 300000)
	if r.Race() {
		n = r.N(700, 30000)
	}
	vrt.Par(n, 0, func(i int) {
		rng := r.Rand("hist", i)
		f := sd.Forks[i%len(sd.Forks)]
		h := &Hist{Fork: f.Name, DBKind: rng.Intn(sd.NDBKinds), ReadLevel: rng.Intn(3)}
		if rng.Intn(3) != 0 {
			h.Genesis = sd.GenGenesis(f, rng)
		}
		r.Case("hist %d fork=%s db=%d genesis=%d", i, h.Fork, h.DBKind, len(h.Genesis))
		var p *sd.Pair
		var fail *sd.Failure
		func() {
			env := sd.NewEnv(h.DBKind)
			defer env.Close()
			defer func() {
				if e := recover(); e != nil {
					st := string(debug.Stack())
					fail = &sd.Failure{FP: "panic:" + vrt.PanicSite(st), Msg: fmt.Sprintf("panic: %v\n%s", e, trim(st))}
				}
			}()
			p, fail = env.Start(f, h.Genesis)
			if fail != nil {
				return
			}
			ntx := 1 + rng.Intn(5)
			cfg := sd.GenCfg{ReadLevel: h.ReadLevel, EndIRootPct: 30}
			for t := 0; t < ntx && p.Err == nil; t++ {
				h.Ops = sd.GenTx(p, rng, 4+rng.Intn(27), cfg, h.Ops)
				if rng.Intn(4) == 0 {
					// observe between transactions as well
					op := sd.Op{K: []string{"rdall", "iroot", "rd"}[rng.Intn(3)], A: rng.Intn(sd.NAddr)}
					if p.Exec(op) {
						h.Ops = append(h.Ops, op)
					}
				}
			}
			finish(p)
			fail = p.Err
		}()
		if fail != nil {
			report(r, h, fail)
			r.Eval("fail/" + f.Name)
			return
		}
		for k, v := range p.Stats {
			r.Count(k, v)
		}
		r.Count("ripemd_touch_survived_revert", p.M.RipemdKept)
		writes := p.Stats["op.AddBalance"] + p.Stats["op.SetState"] + p.Stats["op.SetNonce"] + p.Stats["op.SetCode"]
		if writes == 0 {
			r.Eval("")
			return
		}
		kinds := make([]string, 0, 4)
		for _, k := range []string{"legacy", "6780-new", "6780-new-self-funded", "6780-old-sweep", "6780-old-noop"} {
			if p.DestructKinds[k] {
				kinds = append(kinds, k)
			}
		}
		if p.RevertedCreate {
			r.Count("hist.reverted_across_create", 1)
		}
		if len(kinds) > 0 {
			r.Count("hist.with_selfdestruct", 1)
		}
		if h.Genesis != nil {
			r.Count("hist.nonempty_start", 1)
		}
		r.Count("hist.fork."+f.Name, 1)
		r.Count("hist.db."+sd.DBKindNames[h.DBKind], 1)
		sig := fmt.Sprintf("%s/gen%v/tx%d/depth%d/rc%v/sd[%s]", f.Name, h.Genesis != nil, (p.TxCount()+1)/2, (min(p.MaxDepth(), 4)+1)/2, p.RevertedCreate, strings.Join(kinds, ","))
		r.Eval(sig)
		if r.WantSample() && i%7 == 0 {
			ops := h.Ops
			if len(ops) > 40 {
				ops = ops[:40]
			}
			r.Sample(map[string]any{"hist": i, "fork": h.Fork, "db": sd.DBKindNames[h.DBKind], "genesis": h.Genesis, "first_ops": ops, "n_ops": len(h.Ops), "reads_compared": p.Stats["reads"], "roots_compared": p.Stats["roots"]})
		}
	})
	r.Require("reads", int64(r.N(200000, 10000000)/map[bool]int{false: 1, true: 8}[r.Race()]))
	r.Require("roots", int64(r.N(4000, 300000)/map[bool]int{false: 1, true: 8}[r.Race()]))
	r.Require("op.Revert", 200)
	r.Require("op.Revert.create", 30)
	r.Require("op.SelfDestruct", 50)
	r.Require("op.SetState.restore", 30)
	r.Require("op.AddBalance.zero", 100)
	r.Require("hist.nonempty_start", 100)
	r.Require("hist.reverted_across_create", 30)
	for _, f := range sd.Forks {
		r.Require("hist.fork."+f.Name, 20)
	}
	r.Assume("reference account model lib/acctmodel (deep-copy snapshots, EIP-161/6780/Amsterdam end-of-transaction rules written from the EIPs) and reference trie lib/refmpt + lib/refrlp for state roots")
	r.Assume("histories are restricted to interpreter-issued call patterns (preconditions listed in lib/sdbdrive/sdbdrive.go); database type MPT only (UBT not covered)")
}

// report minimises the failing history and records the violation.
var (
	repMu    sync.Mutex
	repCount = map[string]int{}
)

func report(r *vrt.Run, h *Hist, fail *sd.Failure) {
	full := len(h.Ops)
	fp := fail.FP
	repMu.Lock()
	repCount[fp]++
	skip := repCount[fp] > 3
	repMu.Unlock()
	if skip { // vrt stores three witnesses per fingerprint; do not spend time minimising more
		r.Violation(fp, fail.Msg, nil)
		return
	}
	min := *h
	min.Ops = sd.Minimize(h.Ops, 400, func(ops []sd.Op) bool {
		c := *h
		c.Ops = ops
		_, f := replay(&c)
		return f != nil && f.FP == fp
	})
	// re-run the minimised history to get its own message
	if _, f := replay(&min); f != nil && f.FP == fp {
		fail = f
	} else {
		min.Ops = h.Ops // minimisation was not reproducible: keep the original
	}
	r.Violation(fp, fail.Msg, map[string]any{"history": min, "failure": fail, "ops_before_minimisation": full,
		"universe": map[string]any{"addrs": sd.Addrs, "slots": sd.Slots, "vals": sd.Vals, "amounts": sd.Amounts}})
}
