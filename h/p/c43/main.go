// C43: the price-and-nonce iterator used for block building.
//
// A naive selection model (a map account -> remaining nonce-ordered list, the best head is
// found by a linear scan) is run in lock step with
// core/txpool/txorder.TransactionsByPriceAndNonce under random Peek/Shift/Pop scripts.
//
// Contract relaxations (DESIGN section 7): ties on the effective tip are broken by arrival
// time; when the arrival times tie as well, any of the tied heads is accepted (the heap is
// not stable and the constructor iterates over a Go map). The model then follows the head
// the iterator actually chose.
package main

import (
	"fmt"
	"math/big"
	"sort"
	"time"

	"github.com/ethereum/go-ethereum/common"
	"github.com/ethereum/go-ethereum/core/txpool"
	"github.com/ethereum/go-ethereum/core/txpool/txorder"
	"github.com/ethereum/go-ethereum/core/types"
	"github.com/ethereum/go-ethereum/params"
	"github.com/holiman/uint256"

	"verif/lib/vrt"
)

func main() { vrt.Main("C43", run) }

type mtx struct {
	lazy  *txpool.LazyTransaction
	from  common.Address
	idx   int // position in the account's list
	nonce uint64
}

type wTx struct {
	Nonce  uint64 `json:"nonce"`
	FeeCap string `json:"feeCap"`
	TipCap string `json:"tipCap"`
	Time   int64  `json:"time_ns"`
}
type wAcc struct {
	Addr string `json:"addr"`
	Txs  []wTx  `json:"txs"`
}

// model is the naive reference: remaining[a][0] is the head of account a.
type model struct {
	remaining map[common.Address][]*mtx
	baseFee   *uint256.Int
}

func (m *model) affordable(t *mtx) bool {
	return m.baseFee == nil || t.lazy.GasFeeCap.Cmp(m.baseFee) >= 0
}

// tip = min(tipCap, feeCap - baseFee), or tipCap without a base fee.
func (m *model) tip(t *mtx) *uint256.Int {
	if m.baseFee == nil {
		return t.lazy.GasTipCap.Clone()
	}
	d := new(uint256.Int).Sub(t.lazy.GasFeeCap, m.baseFee)
	if d.Gt(t.lazy.GasTipCap) {
		return t.lazy.GasTipCap.Clone()
	}
	return d
}

// settle drops an account whose head cannot pay the base fee (with everything behind it:
// a later nonce may never be yielded before its predecessor) or whose list is exhausted.
func (m *model) settle(a common.Address) (droppedLow bool) {
	l, ok := m.remaining[a]
	if !ok {
		return false
	}
	if len(l) == 0 {
		delete(m.remaining, a)
		return false
	}
	if !m.affordable(l[0]) {
		delete(m.remaining, a)
		return true
	}
	return false
}

// best returns the maximal tip among the heads, the set of heads that are acceptable
// (maximal tip and, among those, earliest time) and whether the choice involved ties.
func (m *model) best() (max *uint256.Int, ok map[*txpool.LazyTransaction]*mtx, feeTie, timeTie bool) {
	var bestTime time.Time
	nMax := 0
	for _, l := range m.remaining {
		t := m.tip(l[0])
		switch {
		case max == nil || t.Cmp(max) > 0:
			max, bestTime, nMax = t, l[0].lazy.Time, 1
		case t.Cmp(max) == 0:
			nMax++
			if l[0].lazy.Time.Before(bestTime) {
				bestTime = l[0].lazy.Time
			}
		}
	}
	ok = map[*txpool.LazyTransaction]*mtx{}
	for _, l := range m.remaining {
		if m.tip(l[0]).Cmp(max) == 0 && l[0].lazy.Time.Equal(bestTime) {
			ok[l[0].lazy] = l[0]
		}
	}
	return max, ok, nMax > 1, len(ok) > 1
}

func bucket(n int) string {
	switch {
	case n <= 1:
		return "1"
	case n <= 4:
		return "2-4"
	case n <= 15:
		return "5-15"
	default:
		return "16+"
	}
}

func one(r *vrt.Run, i int) {
	rng := r.Rand("script", i)
	// ---- generate the pending map ----
	nAcc := 1 + rng.Intn(6)
	switch rng.Intn(4) {
	case 0:
		nAcc = 1 + rng.Intn(60)
	case 1:
		nAcc = 1 + rng.Intn(20)
	}
	maxTx := 1 + rng.Intn(8)
	ladderN := []int{1, 2, 3, 5, 8, 16}[rng.Intn(6)]
	ladder := make([]*uint256.Int, ladderN)
	huge := rng.Intn(12) == 0 // values near 2^256 (no overflow may occur in the tip computation)
	for k := range ladder {
		v := uint256.NewInt(uint64(1+k) * uint64(1+rng.Intn(3)) * 5)
		if huge && rng.Intn(2) == 0 {
			v = new(uint256.Int).Sub(new(uint256.Int).SetAllOne(), uint256.NewInt(uint64(rng.Intn(40))))
		}
		ladder[k] = v
	}
	sort.Slice(ladder, func(a, b int) bool { return ladder[a].Lt(ladder[b]) })
	nTimes := []int{1, 2, 4, 1000}[rng.Intn(4)]
	legacy := rng.Intn(5) == 0 // tip == feeCap (legacy / access-list pricing)

	var baseFee *big.Int
	baseKind := []string{"nil", "zero", "mid", "exact", "above"}[rng.Intn(5)]
	switch baseKind {
	case "zero":
		baseFee = new(big.Int)
	case "mid": // strictly between ladder values where possible
		baseFee = new(big.Int).Add(ladder[rng.Intn(ladderN)].ToBig(), big.NewInt(1))
		if baseFee.BitLen() > 256 {
			baseFee.Sub(baseFee, big.NewInt(2))
		}
	case "exact": // equal to a ladder value: feeCap == baseFee is still payable, tip 0
		baseFee = ladder[rng.Intn(ladderN)].ToBig()
	case "above":
		baseFee = new(big.Int).Add(ladder[ladderN-1].ToBig(), big.NewInt(1))
		if baseFee.BitLen() > 256 {
			baseFee = ladder[ladderN-1].ToBig()
			baseKind = "exact"
		}
	}

	m := &model{remaining: map[common.Address][]*mtx{}}
	if baseFee != nil {
		m.baseFee = uint256.MustFromBig(baseFee)
	}
	pending := map[common.Address][]*txpool.LazyTransaction{}
	var wit []wAcc
	total := 0
	t0 := time.Unix(1700000000, 0)
	for a := 0; a < nAcc; a++ {
		var addr common.Address
		rng.Read(addr[:])
		if _, dup := pending[addr]; dup {
			continue
		}
		n := 1 + rng.Intn(maxTx)
		nonce := uint64(rng.Intn(1000))
		wa := wAcc{Addr: addr.Hex()}
		for k := 0; k < n; k++ {
			feeCap := ladder[rng.Intn(ladderN)].Clone()
			tipCap := feeCap.Clone()
			if !legacy {
				switch rng.Intn(3) {
				case 0: // tip from the ladder, capped by the fee cap
					tipCap = ladder[rng.Intn(ladderN)].Clone()
					if tipCap.Gt(feeCap) {
						tipCap = feeCap.Clone()
					}
				case 1: // small tip
					tipCap = uint256.NewInt(uint64(rng.Intn(4)))
					if tipCap.Gt(feeCap) {
						tipCap = feeCap.Clone()
					}
				}
			}
			tm := t0.Add(time.Duration(rng.Intn(nTimes)) * time.Millisecond)
			var inner types.TxData
			if legacy {
				inner = &types.LegacyTx{Nonce: nonce, To: &common.Address{}, Gas: 21000, GasPrice: feeCap.ToBig()}
			} else {
				inner = &types.DynamicFeeTx{ChainID: params.TestChainConfig.ChainID, Nonce: nonce, To: &common.Address{}, Gas: 21000, GasFeeCap: feeCap.ToBig(), GasTipCap: tipCap.ToBig()}
			}
			tx := types.NewTx(inner)
			lazy := &txpool.LazyTransaction{Hash: tx.Hash(), Tx: tx, Time: tm, GasFeeCap: feeCap, GasTipCap: tipCap, Gas: 21000}
			pending[addr] = append(pending[addr], lazy)
			m.remaining[addr] = append(m.remaining[addr], &mtx{lazy: lazy, from: addr, idx: k, nonce: nonce})
			wa.Txs = append(wa.Txs, wTx{nonce, feeCap.Dec(), tipCap.Dec(), tm.UnixNano()})
			nonce++
			total++
		}
		wit = append(wit, wa)
	}
	var ops []string
	witness := func() any {
		bf := "nil"
		if baseFee != nil {
			bf = baseFee.String()
		}
		return map[string]any{"case": i, "baseFee": bf, "accounts": wit, "ops": ops}
	}
	r.Case("script %d accounts=%d base=%s", i, len(pending), baseKind)

	// ---- construct ----
	signer := types.LatestSigner(params.TestChainConfig)
	var it *txorder.TransactionsByPriceAndNonce
	if r.Guard("construct", witness(), func() { it = txorder.NewTransactionsByPriceAndNonce(signer, pending, baseFee) }) {
		return
	}
	lowInit, lowMid := 0, 0
	for a := range m.remaining {
		if m.settle(a) {
			lowInit++
		}
	}

	// ---- drive ----
	var sawFeeTie, sawTimeTie, didPop, didClear bool
	yielded := 0
	lastNonce := map[common.Address]uint64{}
	popP := []int{0, 10, 25, 60}[rng.Intn(4)]
	clearAt := -1
	if rng.Intn(10) == 0 {
		clearAt = rng.Intn(total + 1)
	}
	bad := false
	fail := func(fp, msg string) { bad = true; r.Violation(fp, msg, witness()) }
	for step := 0; step <= total+1 && !bad; step++ {
		if e := it.Empty(); e != (len(m.remaining) == 0) {
			fail("empty-inconsistent", fmt.Sprintf("Empty()=%v but the model has %d accounts with an available head", e, len(m.remaining)))
			break
		}
		var got *txpool.LazyTransaction
		var fee *uint256.Int
		if r.Guard("peek", witness(), func() { got, fee = it.Peek() }) {
			return
		}
		ops = append(ops, "peek")
		r.Count("peeks", 1)
		if len(m.remaining) == 0 {
			if got != nil {
				fail("peek-after-exhaustion", fmt.Sprintf("Peek returned tx nonce %d although nothing is available", got.Tx.Nonce()))
			}
			break
		}
		if got == nil {
			fail("peek-nil-early", fmt.Sprintf("Peek returned nil with %d accounts still available", len(m.remaining)))
			break
		}
		// locate what was returned
		max, okSet, feeTie, timeTie := m.best()
		sawFeeTie = sawFeeTie || feeTie
		sawTimeTie = sawTimeTie || timeTie
		var cur *mtx
		for _, l := range m.remaining {
			if l[0].lazy == got {
				cur = l[0]
			}
		}
		if cur == nil {
			// classify: below base fee / out of nonce order / after pop / unknown
			fp := "peek-not-a-head"
			if m.baseFee != nil && got.GasFeeCap.Lt(m.baseFee) {
				fp = "yielded-below-basefee"
			}
			fail(fp, fmt.Sprintf("Peek returned tx (nonce %d feeCap %s tip %s) that is not the current head of any available account", got.Tx.Nonce(), got.GasFeeCap.Dec(), got.GasTipCap.Dec()))
			break
		}
		if m.baseFee != nil && got.GasFeeCap.Lt(m.baseFee) {
			fail("yielded-below-basefee", fmt.Sprintf("tx with feeCap %s < baseFee %s yielded", got.GasFeeCap.Dec(), m.baseFee.Dec()))
			break
		}
		want := m.tip(cur)
		if fee == nil || fee.Cmp(want) != 0 {
			fail("tip-value", fmt.Sprintf("Peek tip=%v want min(tipCap, feeCap-baseFee)=%s", fee, want.Dec()))
			break
		}
		if want.Cmp(max) < 0 {
			fail("not-highest-tip", fmt.Sprintf("Peek head has tip %s but another available head has %s", want.Dec(), max.Dec()))
			break
		}
		if _, ok := okSet[got]; !ok {
			fail("tie-not-by-time", fmt.Sprintf("Peek head (tip %s, time %d) although an equally priced head arrived earlier", want.Dec(), got.Time.UnixNano()))
			break
		}
		if prev, seen := lastNonce[cur.from]; seen && cur.nonce <= prev {
			fail("nonce-order", fmt.Sprintf("account %x: nonce %d yielded after %d", cur.from, cur.nonce, prev))
			break
		}
		// Peek is idempotent
		if rng.Intn(8) == 0 {
			g2, f2 := it.Peek()
			if g2 != got || f2.Cmp(fee) != 0 {
				fail("peek-not-idempotent", "two consecutive Peek calls returned different heads")
				break
			}
		}
		yielded++
		lastNonce[cur.from] = cur.nonce
		if yielded == clearAt {
			it.Clear()
			ops = append(ops, "clear")
			didClear = true
			if g, _ := it.Peek(); g != nil || !it.Empty() {
				fail("clear", "iterator not empty after Clear")
			}
			break
		}
		if rng.Intn(100) < popP {
			ops = append(ops, "pop")
			didPop = true
			r.Count("pops", 1)
			if len(m.remaining[cur.from]) > 1 {
				r.Count("pops_dropping_successors", 1)
			}
			if r.Guard("pop", witness(), func() { it.Pop() }) {
				return
			}
			delete(m.remaining, cur.from)
		} else {
			ops = append(ops, "shift")
			r.Count("shifts", 1)
			if r.Guard("shift", witness(), func() { it.Shift() }) {
				return
			}
			m.remaining[cur.from] = m.remaining[cur.from][1:]
			if m.settle(cur.from) {
				lowMid++
			}
		}
	}
	if bad {
		return
	}
	r.Count("yielded", yielded)
	r.Count("accounts_dropped_low_head", lowInit)
	r.Count("accounts_dropped_low_successor", lowMid)
	if sawFeeTie {
		r.Count("scripts_with_fee_ties", 1)
	}
	if sawTimeTie {
		r.Count("scripts_with_time_ties", 1)
	}
	if total <= 1 {
		r.Eval("")
		return
	}
	sig := fmt.Sprintf("acc%s/tx%s/base=%s/feeTie=%v/timeTie=%v/pop=%v/clear=%v/lowInit=%v/lowMid=%v/legacy=%v/huge=%v",
		bucket(len(pending)), bucket(maxTx), baseKind, sawFeeTie, sawTimeTie, didPop, didClear, lowInit > 0, lowMid > 0, legacy, huge)
	r.Eval(sig)
	if r.WantSample() && len(pending) <= 4 && yielded >= 3 {
		r.Sample(witness())
	}
}

func run(r *vrt.Run) {
	r.Rule("each case: a random pending map (1-60 accounts x 1-8 consecutive-nonce lazy transactions, fee caps/tips from a small ladder so that ties are frequent, arrival times from 1/2/4/1000 distinct instants, base fee nil/0/between ladder steps/equal to a ladder step/above all, occasionally values near 2^256) and a random Peek/Shift/Pop(/Clear) script run in lock step with a naive linear-scan model. non-trivial = more than one transaction; signature = (account bucket, list-length bucket, base-fee kind, fee ties seen, time ties seen, pop used, clear used, account dropped at construction / mid-account for feeCap<baseFee, legacy pricing, huge values)")
	n := r.N(20000, 2000000)
	if r.Race() {
		n /= 8
	}
	vrt.Par(n, 0, func(i int) { one(r, i) })
	r.Require("scripts_with_fee_ties", 100)
	r.Require("scripts_with_time_ties", 100)
	r.Require("accounts_dropped_low_successor", 100)
	r.Require("pops_dropping_successors", 100)
	r.Assume("naive linear-scan selection model (harness, ~40 lines); equal (tip, time) heads: any accepted")
}
