// C10: hex-prefix path encoding is a bijection.
package main

import (
	"bytes"
	"fmt"

	"github.com/ethereum/go-ethereum/trie"

	"verif/lib/refmpt"
	"verif/lib/vrt"
)

func main() { vrt.Main("C10", run) }

// check judges one nibble path (term = with terminator).
func check(r *vrt.Run, nib []byte, term bool) {
	hex := append([]byte{}, nib...)
	if term {
		hex = append(hex, 16)
	}
	w := map[string]any{"nibbles": vrt.Hex(nib), "term": term}
	r.Case("nib=%x term=%v", nib, term)
	compact := trie.VerifHexToCompact(append([]byte{}, hex...))
	ref := refmpt.HP(nib, term)
	if !bytes.Equal(compact, ref) {
		r.Violation("hexToCompact-vs-ref", fmt.Sprintf("hexToCompact(%x)=%x ref=%x", hex, compact, ref), w)
	}
	back := trie.VerifCompactToHex(append([]byte{}, compact...))
	if !bytes.Equal(back, hex) {
		r.Violation("roundtrip", fmt.Sprintf("compactToHex(hexToCompact(%x))=%x", hex, back), w)
	}
	// The in-place variant writes len/2+1 bytes into its input; for the empty path without
	// terminator there is no room by construction (its two callers in stacktrie.go never pass
	// it: extension keys are non-empty, leaf keys carry the terminator) -> outside the domain.
	if len(hex) > 0 {
		inplace := trie.VerifHexToCompactInPlace(append([]byte{}, hex...))
		if !bytes.Equal(inplace, compact) {
			r.Violation("inplace", fmt.Sprintf("hexToCompactInPlace(%x)=%x want %x", hex, inplace, compact), w)
		}
	}
	// leaf vs extension never coincide
	other := trie.VerifHexToCompact(append(append([]byte{}, nib...), map[bool][]byte{true: {}, false: {16}}[term]...))
	if bytes.Equal(other, compact) {
		r.Violation("leaf-ext-collision", fmt.Sprintf("compact forms of leaf and extension coincide for %x", nib), w)
	}
	rn, rt, ok := refmpt.UnHP(compact)
	if !ok || rt != term || !bytes.Equal(rn, nib) {
		r.Violation("ref-decode", fmt.Sprintf("reference decoder disagrees on %x", compact), w)
	}
	sig := fmt.Sprintf("len%d/odd%v/term%v", min(len(nib), 8), len(nib)%2 == 1, term)
	r.Eval(sig)
}

func checkKey(r *vrt.Run, k []byte) {
	r.Case("key=%x", k)
	hex := trie.VerifKeybytesToHex(k)
	want := append(refmpt.KeyToNibbles(k), 16)
	w := map[string]any{"key": vrt.Hex(k)}
	if !bytes.Equal(hex, want) {
		r.Violation("keybytesToHex", fmt.Sprintf("keybytesToHex(%x)=%x want %x", k, hex, want), w)
	}
	back := trie.VerifHexToKeybytes(append([]byte{}, hex...))
	if !bytes.Equal(back, k) {
		r.Violation("key-roundtrip", fmt.Sprintf("hexToKeybytes(keybytesToHex(%x))=%x", k, back), w)
	}
	back2 := trie.VerifHexToKeybytes(append([]byte{}, hex[:len(hex)-1]...))
	if !bytes.Equal(back2, k) {
		r.Violation("key-roundtrip-noterm", fmt.Sprintf("hexToKeybytes without terminator (%x)=%x", k, back2), w)
	}
	// compact of a full key path decodes back to the key's hex
	c := trie.VerifHexToCompact(append([]byte{}, hex...))
	if h2 := trie.VerifCompactToHex(c); !bytes.Equal(h2, hex) {
		r.Violation("key-compact-roundtrip", fmt.Sprintf("%x -> %x -> %x", hex, c, h2), w)
	}
	r.Eval(fmt.Sprintf("key/len%d", min(len(k), 8)))
}

func run(r *vrt.Run) {
	r.Rule("exhaustive: every nibble string of length 0..L (L=5 thorough, 4 quick) with and without terminator, every byte key of length <=2; random: nibble strings to length 130, keys to 64 bytes. non-trivial signature = (length bucket, parity, terminator) resp. key length bucket")
	maxLen := r.N(4, 5)
	var rec func(prefix []byte)
	rec = func(prefix []byte) {
		check(r, prefix, false)
		check(r, prefix, true)
		if len(prefix) == maxLen {
			return
		}
		for n := byte(0); n < 16; n++ {
			rec(append(prefix, n))
		}
	}
	rec(nil)
	r.Exhaustive(true)
	r.Extra("exhaustive_family", fmt.Sprintf("all nibble strings of length <= %d x {term, no term}; all byte keys of length <= 2", maxLen))
	for a := 0; a < 256; a++ {
		checkKey(r, []byte{byte(a)})
		for b := 0; b < 256; b++ {
			checkKey(r, []byte{byte(a), byte(b)})
		}
	}
	checkKey(r, nil)
	n := r.N(200000, 5000000)
	for i := 0; i < n; i++ {
		rng := r.Rand("rand", i)
		l := rng.Intn(131)
		nib := make([]byte, l)
		for j := range nib {
			nib[j] = byte(rng.Intn(16))
		}
		check(r, nib, rng.Intn(2) == 0)
		if i%4 == 0 {
			k := make([]byte, rng.Intn(65))
			rng.Read(k)
			checkKey(r, k)
		}
		if i < 3 {
			r.Sample(map[string]any{"nibbles": vrt.Hex(nib), "compact": vrt.Hex(trie.VerifHexToCompact(append([]byte{}, nib...)))})
		}
	}
	r.Assume("reference hex-prefix encoder refmpt.HP/UnHP written from the yellow paper definition")
}
