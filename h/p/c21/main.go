// C21: hash-scheme garbage collection never drops live nodes.
//
// triedb.Database (hash scheme) is driven with node sets produced by real trie.StateTrie
// commits (account trie with leaf collection, storage tries), Reference / Dereference /
// Cap / Commit in random orders, optional injected disk write failures and concurrent
// readers. Oracle: brute-force reachability (own node decoder refmpt.ChildRefs + own account
// leaf decoder for storage-root edges) over the union of all emitted node blobs, model
// reference counts per root, and a white-box snapshot of the dirty cache
// (triedb/hashdb/verif_dirties_on.go).
package main

import (
	"bytes"
	"errors"
	"fmt"
	"math/rand"
	"sort"
	"sync"
	"sync/atomic"

	"github.com/ethereum/go-ethereum/common"
	"github.com/ethereum/go-ethereum/core/rawdb"
	"github.com/ethereum/go-ethereum/core/types"
	"github.com/ethereum/go-ethereum/ethdb"
	"github.com/ethereum/go-ethereum/trie"
	"github.com/ethereum/go-ethereum/trie/trienode"
	"github.com/ethereum/go-ethereum/triedb"
	"github.com/ethereum/go-ethereum/triedb/hashdb"
	"github.com/holiman/uint256"

	"verif/lib/refmpt"
	"verif/lib/refrlp"
	"verif/lib/vrt"
)

func main() { vrt.Main("C21", run) }

// ---- fault-injecting, write-monitoring disk ----

var errInjected = errors.New("injected write failure")

type faultDB struct {
	ethdb.Database
	failAt   atomic.Int64 // fail the n-th batch write from now (1 = next); 0 = never
	writes   atomic.Int64
	inflate  int // ValueSize multiplier: makes hashdb split commits into several batches
	onWrite  func(k, v []byte)
	failures atomic.Int64
}

func (d *faultDB) NewBatch() ethdb.Batch { return &faultBatch{Batch: d.Database.NewBatch(), d: d} }
func (d *faultDB) NewBatchWithSize(n int) ethdb.Batch {
	return &faultBatch{Batch: d.Database.NewBatchWithSize(n), d: d}
}

type faultBatch struct {
	ethdb.Batch
	d *faultDB
}

func (b *faultBatch) ValueSize() int { return b.Batch.ValueSize() * b.d.inflate }
func (b *faultBatch) Write() error {
	if b.Batch.ValueSize() == 0 {
		return b.Batch.Write()
	}
	b.d.writes.Add(1)
	if n := b.d.failAt.Load(); n > 0 {
		if b.d.failAt.Add(-1) == 0 {
			b.d.failures.Add(1)
			return errInjected
		}
	}
	if b.d.onWrite != nil {
		b.Batch.Replay(monitor{b.d.onWrite})
	}
	return b.Batch.Write()
}

type monitor struct{ f func(k, v []byte) }

func (m monitor) Put(k, v []byte) error { m.f(k, v); return nil }
func (m monitor) Delete(k []byte) error { m.f(k, nil); return nil }

// ---- model state ----

type acct struct {
	nonce, bal uint64
	stor       map[common.Hash][]byte // slot key -> value (non-empty)
	storRoot   common.Hash            // storage root as committed
}

type state struct{ accts map[common.Address]*acct }

func (s *state) copy() *state {
	n := &state{accts: make(map[common.Address]*acct, len(s.accts))}
	for a, x := range s.accts {
		y := &acct{nonce: x.nonce, bal: x.bal, storRoot: x.storRoot, stor: make(map[common.Hash][]byte, len(x.stor))}
		for k, v := range x.stor {
			y.stor[k] = v
		}
		n.accts[a] = y
	}
	return n
}

type rootInfo struct {
	hash      common.Hash
	st        *state
	refs      int  // model reference count (Reference(root,{}) minus Dereference)
	inserted  bool // Update happened and the root was not removed since
	committed bool // a successful Commit(root) happened: the whole trie is on disk
	closure   []common.Hash
	seq       int // creation order
}

// world is one case.
type world struct {
	r    *vrt.Run
	rng  *rand.Rand
	idx  int
	disk *faultDB
	tdb  *triedb.Database
	hdb  *hashdb.Database

	mu       sync.Mutex // protects union (read by concurrent readers)
	union    map[common.Hash][]byte
	acctNode map[common.Hash]bool
	roots    map[common.Hash]*rootInfo
	order    []common.Hash // creation order of roots
	block    uint64
	log      []string
	logMu    sync.Mutex
	tmpl     []map[common.Hash][]byte // storage templates (sharing)
	addrs    []common.Address
	history  []map[common.Address]*acct // older account versions (for reinsertion of equal nodes)

	// shape
	shared, reinserted, forked, faulted, concurrent bool
	capKinds, commitKinds, derefKinds               map[string]bool
}

func (w *world) logf(format string, a ...any) {
	w.logMu.Lock()
	defer w.logMu.Unlock()
	w.log = append(w.log, fmt.Sprintf(format, a...))
	if len(w.log) > 300 {
		w.log = append([]string(nil), w.log[len(w.log)-300:]...)
	}
}

func (w *world) witness() map[string]any {
	w.logMu.Lock()
	defer w.logMu.Unlock()
	return map[string]any{"case": w.idx, "ops_tail": append([]string(nil), w.log...)}
}

func (w *world) viol(fp, msg string) { w.r.Violation(fp, msg, w.witness()) }

// storageRoots is the harness's own decoder of account leaves inside an account-trie node:
// it returns the storage roots (other than the empty root) of all accounts stored in the
// node (including embedded children).
func storageRoots(blob []byte) [][]byte {
	it, err := refrlp.Decode(blob)
	if err != nil || !it.IsList {
		return nil
	}
	var out [][]byte
	var walk func(it *refrlp.Item)
	walk = func(it *refrlp.Item) {
		switch len(it.List) {
		case 2:
			_, term, ok := refmpt.UnHP(it.List[0].Str)
			if !ok {
				return
			}
			if term {
				acc, err := refrlp.Decode(it.List[1].Str)
				if err == nil && acc.IsList && len(acc.List) == 4 && len(acc.List[2].Str) == 32 && !bytes.Equal(acc.List[2].Str, refmpt.EmptyRoot) {
					out = append(out, acc.List[2].Str)
				}
			} else if it.List[1].IsList {
				walk(it.List[1])
			}
		case 17:
			for _, c := range it.List[:16] {
				if c.IsList {
					walk(c)
				}
			}
		}
	}
	walk(it)
	return out
}

func (w *world) children(h common.Hash) []common.Hash {
	blob := w.union[h]
	var out []common.Hash
	for _, c := range refmpt.ChildRefs(blob) {
		out = append(out, common.BytesToHash(c))
	}
	if w.acctNode[h] {
		for _, c := range storageRoots(blob) {
			out = append(out, common.BytesToHash(c))
		}
	}
	return out
}

// closureOf computes (and caches) the set of node hashes reachable from root.
func (w *world) closureOf(ri *rootInfo) []common.Hash {
	if ri.closure != nil || ri.hash == types.EmptyRootHash {
		return ri.closure
	}
	seen := map[common.Hash]bool{}
	var stack = []common.Hash{ri.hash}
	for len(stack) > 0 {
		h := stack[len(stack)-1]
		stack = stack[:len(stack)-1]
		if seen[h] {
			continue
		}
		if _, ok := w.union[h]; !ok {
			panic(fmt.Sprintf("harness: node %x reachable from root %x was never emitted", h, ri.hash))
		}
		seen[h] = true
		stack = append(stack, w.children(h)...)
	}
	ri.closure = make([]common.Hash, 0, len(seen))
	for h := range seen {
		ri.closure = append(ri.closure, h)
	}
	sort.Slice(ri.closure, func(i, j int) bool { return bytes.Compare(ri.closure[i][:], ri.closure[j][:]) < 0 })
	return ri.closure
}

// mutate derives a child state from st.
func (w *world) mutate(st *state) {
	rng := w.rng
	n := 1 + rng.Intn(4)
	for i := 0; i < n; i++ {
		a := w.addrs[rng.Intn(len(w.addrs))]
		x := st.accts[a]
		switch op := rng.Intn(12); {
		case x == nil || op == 0: // create / recreate
			x = &acct{nonce: uint64(rng.Intn(3)), bal: uint64(rng.Intn(1000)), stor: map[common.Hash][]byte{}, storRoot: types.EmptyRootHash}
			st.accts[a] = x
			if rng.Intn(2) == 0 {
				for k, v := range w.tmpl[rng.Intn(len(w.tmpl))] {
					x.stor[k] = v
				}
				w.shared = true
			}
		case op == 1:
			delete(st.accts, a)
		case op <= 3:
			x.bal = uint64(rng.Intn(1000))
			x.nonce++
		case op <= 5: // adopt a storage template wholesale (many accounts share one storage root)
			x.stor = map[common.Hash][]byte{}
			for k, v := range w.tmpl[rng.Intn(len(w.tmpl))] {
				x.stor[k] = v
			}
			w.shared = true
		case op <= 8: // touch a slot
			var k common.Hash
			k[31] = byte(rng.Intn(24))
			if rng.Intn(4) == 0 {
				delete(x.stor, k)
			} else {
				x.stor[k] = []byte{byte(1 + rng.Intn(3))}
			}
		case op == 9: // wipe storage
			x.stor = map[common.Hash][]byte{}
		default: // restore an older version of the account (re-creates nodes that existed before)
			if len(w.history) > 0 {
				if old := w.history[rng.Intn(len(w.history))][a]; old != nil {
					y := &acct{nonce: old.nonce, bal: old.bal, stor: map[common.Hash][]byte{}}
					for k, v := range old.stor {
						y.stor[k] = v
					}
					y.storRoot = x.storRoot // the trie still holds x's storage; diffed below
					st.accts[a] = y
					w.reinserted = true
				}
			}
		}
	}
}

// build commits the transition parent -> child through real tries and feeds the node set
// to the database. It returns the child root info (possibly an existing one).
func (w *world) build(parent *rootInfo) (*rootInfo, bool) {
	child := parent.st.copy()
	w.mutate(child)
	merged := trienode.NewMergedNodeSet()
	at, err := trie.NewStateTrie(trie.StateTrieID(parent.hash), w.tdb)
	if err != nil {
		w.viol("open-parent", fmt.Sprintf("cannot open account trie at live root %x: %v", parent.hash, err))
		return nil, false
	}
	var addrs []common.Address
	seenA := map[common.Address]bool{}
	for a := range child.accts {
		addrs, seenA[a] = append(addrs, a), true
	}
	for a := range parent.st.accts {
		if !seenA[a] {
			addrs = append(addrs, a)
		}
	}
	sort.Slice(addrs, func(i, j int) bool { return bytes.Compare(addrs[i][:], addrs[j][:]) < 0 })
	for _, a := range addrs {
		old, cur := parent.st.accts[a], child.accts[a]
		if cur == nil {
			if err := at.DeleteAccount(a); err != nil {
				w.viol("trie-error", fmt.Sprintf("DeleteAccount: %v", err))
				return nil, false
			}
			continue
		}
		// storage diff against what the parent trie holds for this address
		oldStor, oldRoot := map[common.Hash][]byte{}, types.EmptyRootHash
		if old != nil {
			oldStor, oldRoot = old.stor, old.storRoot
		}
		changed := len(oldStor) != len(cur.stor)
		if !changed {
			for k, v := range cur.stor {
				if !bytes.Equal(oldStor[k], v) {
					changed = true
					break
				}
			}
		}
		cur.storRoot = oldRoot
		if changed {
			addrHash := common.BytesToHash(refmpt.Keccak(a[:]))
			st, err := trie.NewStateTrie(trie.StorageTrieID(parent.hash, addrHash, oldRoot), w.tdb)
			if err != nil {
				w.viol("open-parent-storage", fmt.Sprintf("cannot open storage trie %x of live root %x: %v", oldRoot, parent.hash, err))
				return nil, false
			}
			var keys []common.Hash
			for k := range oldStor {
				if _, ok := cur.stor[k]; !ok {
					keys = append(keys, k)
				}
			}
			sort.Slice(keys, func(i, j int) bool { return bytes.Compare(keys[i][:], keys[j][:]) < 0 })
			for _, k := range keys {
				if err := st.DeleteStorage(a, k[:]); err != nil {
					w.viol("trie-error", fmt.Sprintf("DeleteStorage: %v", err))
					return nil, false
				}
			}
			keys = keys[:0]
			for k, v := range cur.stor {
				if !bytes.Equal(oldStor[k], v) {
					keys = append(keys, k)
				}
			}
			sort.Slice(keys, func(i, j int) bool { return bytes.Compare(keys[i][:], keys[j][:]) < 0 })
			for _, k := range keys {
				if err := st.UpdateStorage(a, k[:], cur.stor[k]); err != nil {
					w.viol("trie-error", fmt.Sprintf("UpdateStorage: %v", err))
					return nil, false
				}
			}
			sroot, set := st.Commit(false)
			cur.storRoot = sroot
			if set != nil {
				if err := merged.Merge(set); err != nil {
					panic(err)
				}
			}
		}
		if old == nil || changed || old.nonce != cur.nonce || old.bal != cur.bal {
			sa := &types.StateAccount{Nonce: cur.nonce, Balance: uint256.NewInt(cur.bal), Root: cur.storRoot, CodeHash: types.EmptyCodeHash.Bytes()}
			if err := at.UpdateAccount(a, sa, 0); err != nil {
				w.viol("trie-error", fmt.Sprintf("UpdateAccount: %v", err))
				return nil, false
			}
		}
	}
	root, set := at.Commit(true)
	if set != nil {
		if err := merged.Merge(set); err != nil {
			panic(err)
		}
	}
	if root == parent.hash {
		return parent, true // nothing changed (core/state skips the Update in that case, too)
	}
	// record emitted nodes
	w.mu.Lock()
	nn := 0
	for owner, s := range merged.Sets {
		for _, n := range s.Nodes {
			if n.IsDeleted() {
				continue
			}
			if !bytes.Equal(refmpt.Keccak(n.Blob), n.Hash[:]) {
				panic("harness: emitted node hash mismatch")
			}
			if _, ok := w.union[n.Hash]; !ok {
				nn++
			}
			w.union[n.Hash] = n.Blob
			if owner == (common.Hash{}) {
				w.acctNode[n.Hash] = true
			}
		}
	}
	w.mu.Unlock()
	w.block++
	if err := w.tdb.Update(root, parent.hash, w.block, merged, nil); err != nil {
		w.viol("update-error", fmt.Sprintf("Update(%x): %v", root, err))
		return nil, false
	}
	w.r.Count("updates", 1)
	w.r.Count("nodes_emitted", nn)
	ri := w.roots[root]
	if ri == nil {
		ri = &rootInfo{hash: root, st: child, seq: len(w.order)}
		w.roots[root] = ri
		w.order = append(w.order, root)
	} else {
		w.r.Count("duplicate_roots", 1)
	}
	ri.inserted = true
	w.history = append(w.history, child.accts)
	if len(w.history) > 12 {
		w.history = w.history[1:]
	}
	w.logf("update #%d %x <- %x (%d new nodes)", w.block, root[:4], parent.hash[:4], nn)
	return ri, true
}

// live roots: those the property speaks about (model refcount > 0) plus committed ones
// (entirely on disk, which is never deleted).
func (w *world) liveRoots() []*rootInfo {
	var out []*rootInfo
	for _, h := range w.order {
		if ri := w.roots[h]; ri.refs > 0 || ri.committed {
			out = append(out, ri)
		}
	}
	return out
}

// buildable roots: states a new block may be built on.
func (w *world) buildable() []*rootInfo {
	var out []*rootInfo
	for _, h := range w.order {
		if ri := w.roots[h]; ri.refs > 0 || ri.committed || ri.inserted {
			out = append(out, ri)
		}
	}
	return out
}

// audit checks all invariants; sample > 0 limits the number of live roots whose closure
// is read back.
func (w *world) audit(tag string, sample int) bool {
	r := w.r
	snap := w.hdb.VerifDirties()
	// S1: flush list is a permutation of the dirty set, ending at newest
	if !snap.FlushListEnded || snap.FlushListLost != (common.Hash{}) || len(snap.FlushList) != len(snap.Dirties) {
		w.viol("flushlist-broken", fmt.Sprintf("%s: flush list walk: %d nodes, ended=%v lost=%x; dirties=%d", tag, len(snap.FlushList), snap.FlushListEnded, snap.FlushListLost, len(snap.Dirties)))
		return false
	}
	seen := make(map[common.Hash]bool, len(snap.FlushList))
	for i, h := range snap.FlushList {
		if seen[h] {
			w.viol("flushlist-cycle", fmt.Sprintf("%s: node %x twice in the flush list", tag, h))
			return false
		}
		seen[h] = true
		if i > 0 && snap.Dirties[h].FlushPrev != snap.FlushList[i-1] {
			w.viol("flushlist-prev", fmt.Sprintf("%s: flushPrev of #%d is %x, predecessor is %x", tag, i, snap.Dirties[h].FlushPrev, snap.FlushList[i-1]))
			return false
		}
	}
	if n := len(snap.FlushList); n > 0 && snap.FlushList[n-1] != snap.Newest {
		w.viol("flushlist-newest", fmt.Sprintf("%s: flush list ends at %x, newest=%x", tag, snap.FlushList[n-1], snap.Newest))
		return false
	}
	if len(snap.Dirties) == 0 && snap.Oldest != (common.Hash{}) {
		w.viol("flushlist-oldest", fmt.Sprintf("%s: empty cache but oldest=%x", tag, snap.Oldest))
		return false
	}
	// S2: size accounting. Contract read from hashdb.Size(): dirtiesSize (sum of
	// hash length + blob length) + childrenSize (hash length per external child) +
	// cachedNodeSize per cached node.
	var ds, cs int
	for h, n := range snap.Dirties {
		ds += 32 + n.Len
		cs += 32 * len(n.External)
		if blob, ok := w.union[h]; !ok || len(blob) != n.Len {
			w.viol("foreign-node", fmt.Sprintf("%s: cached node %x (len %d) was never emitted with that length", tag, h, n.Len))
			return false
		}
	}
	if int(snap.DirtiesSize) != ds || int(snap.ChildrenSize) != cs {
		w.viol("size-accounting", fmt.Sprintf("%s: dirtiesSize=%d (recomputed %d) childrenSize=%d (recomputed %d) over %d nodes", tag, int(snap.DirtiesSize), ds, int(snap.ChildrenSize), cs, len(snap.Dirties)))
		return false
	}
	if _, got, _ := w.tdb.Size(); int(got) != ds+cs+len(snap.Dirties)*snap.CachedNodeSize {
		w.viol("size-reported", fmt.Sprintf("%s: Size()=%d, cached contents amount to %d+%d+%d*%d", tag, int(got), ds, cs, len(snap.Dirties), snap.CachedNodeSize))
		return false
	}
	r.Count("snapshots_checked", 1)
	// B: every node reachable from a referenced (or committed) root is readable
	live := w.liveRoots()
	reach := map[common.Hash]bool{}
	for _, ri := range live {
		for _, h := range w.closureOf(ri) {
			reach[h] = true
		}
	}
	check := live
	if sample > 0 && len(check) > sample {
		check = append([]*rootInfo(nil), live...)
		w.rng.Shuffle(len(check), func(i, j int) { check[i], check[j] = check[j], check[i] })
		check = check[:sample]
	}
	for _, ri := range check {
		if ri.hash == types.EmptyRootHash {
			continue
		}
		rd, err := w.tdb.NodeReader(ri.hash)
		if err != nil {
			w.viol("live-root-unavailable", fmt.Sprintf("%s: NodeReader(%x) (refs=%d committed=%v): %v", tag, ri.hash, ri.refs, ri.committed, err))
			return false
		}
		for _, h := range w.closureOf(ri) {
			blob, err := rd.Node(common.Hash{}, nil, h)
			if err != nil || !bytes.Equal(blob, w.union[h]) {
				_, inDirty := snap.Dirties[h]
				w.viol("live-node-lost", fmt.Sprintf("%s: node %x reachable from root %x (refs=%d committed=%v) unreadable (err=%v, got %d bytes, dirty=%v, on disk=%v)", tag, h, ri.hash, ri.refs, ri.committed, err, len(blob), inDirty, len(rawdb.ReadLegacyTrieNode(w.disk.Database, h)) > 0))
				return false
			}
		}
		r.Count("nodes_read_back", len(ri.closure))
	}
	r.Count("live_roots_checked", len(check))
	// C: nothing reachable only from removed roots stays cached, unless it is on disk
	// (a node flushed earlier and re-created later may sit in the cache without parents:
	// the corner case described in dereference(); it is harmless and merely counted).
	pending := map[common.Hash]bool{}
	for _, h := range w.order {
		if ri := w.roots[h]; ri.inserted && ri.refs == 0 && !ri.committed {
			for _, x := range w.closureOf(ri) {
				pending[x] = true // inserted, never referenced nor dereferenced yet: no claim
			}
		}
	}
	for h := range snap.Dirties {
		if reach[h] || pending[h] {
			continue
		}
		if len(rawdb.ReadLegacyTrieNode(w.disk.Database, h)) > 0 {
			r.Count("garbage_cached_but_on_disk", 1)
			continue
		}
		w.viol("garbage-left", fmt.Sprintf("%s: node %x (parents=%d) is cached, not on disk, and reachable from no referenced or pending root (%d live roots)", tag, h, snap.Dirties[h].Parents, len(live)))
		return false
	}
	return true
}

func oneCase(r *vrt.Run, idx int) {
	rng := r.Rand("hist", idx)
	r.Case("history %d", idx)
	w := &world{r: r, rng: rng, idx: idx, union: map[common.Hash][]byte{}, acctNode: map[common.Hash]bool{}, roots: map[common.Hash]*rootInfo{},
		capKinds: map[string]bool{}, commitKinds: map[string]bool{}, derefKinds: map[string]bool{}}
	w.disk = &faultDB{Database: rawdb.NewMemoryDatabase(), inflate: 1}
	if rng.Intn(3) == 0 {
		w.disk.inflate = 200 + rng.Intn(3000) // several batches per Cap/Commit
	}
	w.disk.onWrite = func(k, v []byte) {
		// every durable write of the node database must be a genuine emitted node
		w.mu.Lock()
		blob, ok := w.union[common.BytesToHash(k)]
		w.mu.Unlock()
		if v == nil || len(k) != 32 || !ok || !bytes.Equal(blob, v) {
			w.viol("disk-write-foreign", fmt.Sprintf("disk write key=%x value=%x is not an emitted node", k, v))
		}
		r.Count("disk_node_writes", 1)
	}
	clean := 0
	if rng.Intn(3) == 0 {
		clean = 1 << 20
	}
	w.tdb = triedb.NewDatabase(w.disk, &triedb.Config{HashDB: &hashdb.Config{CleanCacheSize: clean}})
	defer w.tdb.Close()
	w.hdb = w.tdb.VerifHashDB()
	for i := 0; i < 12; i++ {
		var a common.Address
		rng.Read(a[:])
		w.addrs = append(w.addrs, a)
	}
	for t := 0; t < 3; t++ {
		m := map[common.Hash][]byte{}
		for s, n := 0, 1+rng.Intn(14); s < n; s++ {
			var k common.Hash
			k[31] = byte(rng.Intn(24))
			m[k] = []byte{byte(1 + rng.Intn(3))}
		}
		w.tmpl = append(w.tmpl, m)
	}
	empty := &rootInfo{hash: types.EmptyRootHash, st: &state{accts: map[common.Address]*acct{}}, committed: true}
	w.roots[empty.hash] = empty
	w.order = append(w.order, empty.hash)

	derefPolicy := []string{"fifo", "lifo", "random"}[rng.Intn(3)]
	window := 2 + rng.Intn(10) // number of referenced roots kept before dereferencing starts
	nUpdates := 5 + rng.Intn(116)
	if r.Race() {
		nUpdates = 5 + rng.Intn(40)
	}
	concAt := -1
	if rng.Intn(2) == 0 {
		concAt = nUpdates / 2
	}
	head := empty
	var referenced []*rootInfo // roots with refs > 0, in reference order (multiset)
	sample := 6
	for u := 0; u < nUpdates && !r.Violated(); u++ {
		// choose the parent: usually the head, sometimes an older buildable state (fork)
		parent := head
		if rng.Intn(6) == 0 {
			b := w.buildable()
			parent = b[rng.Intn(len(b))]
			if parent != head {
				w.forked = true
			}
		}
		if !(parent.refs > 0 || parent.committed || parent.inserted) {
			parent = empty
		}
		ri, ok := w.build(parent)
		if !ok {
			return
		}
		head = ri
		// reference (as the blockchain does), sometimes twice, sometimes not at all
		nref := 1
		switch rng.Intn(10) {
		case 0:
			nref = 0
		case 1:
			nref = 2
		}
		for k := 0; k < nref && ri.hash != types.EmptyRootHash; k++ {
			if err := w.tdb.Reference(ri.hash, common.Hash{}); err != nil {
				w.viol("reference-error", err.Error())
				return
			}
			ri.refs++
			referenced = append(referenced, ri)
			w.logf("reference %x -> %d", ri.hash[:4], ri.refs)
			r.Count("references", 1)
		}
		if concAt == u {
			w.concurrentPhase(&head, &referenced)
			if r.Violated() {
				return
			}
		}
		// dereference beyond the window
		for len(referenced) > window {
			var k int
			switch derefPolicy {
			case "fifo":
				k = 0
			case "lifo":
				k = len(referenced) - 1
			default:
				k = rng.Intn(len(referenced))
			}
			w.derefKinds[derefPolicy] = true
			x := referenced[k]
			referenced = append(referenced[:k], referenced[k+1:]...)
			w.dereference(x)
		}
		// occasionally drop a never-referenced (pending) root
		if rng.Intn(8) == 0 {
			for _, h := range w.order {
				if x := w.roots[h]; x.inserted && x.refs == 0 && !x.committed && x != head {
					w.dereference(x)
					w.derefKinds["pending"] = true
					break
				}
			}
		}
		// cap / commit with optional injected write failure
		switch rng.Intn(8) {
		case 0, 1:
			w.doCap()
		case 2:
			w.doCommit(referenced, head)
		}
		if !w.audit(fmt.Sprintf("after update %d", u), sample) {
			return
		}
	}
	// tear down: dereference everything that is still referenced, in policy order
	for len(referenced) > 0 && !r.Violated() {
		k := 0
		if derefPolicy == "lifo" {
			k = len(referenced) - 1
		} else if derefPolicy == "random" {
			k = rng.Intn(len(referenced))
		}
		x := referenced[k]
		referenced = append(referenced[:k], referenced[k+1:]...)
		w.dereference(x)
		if !w.audit("teardown", 3) {
			return
		}
	}
	for _, h := range w.order {
		if x := w.roots[h]; x.inserted && x.refs == 0 && !x.committed && h != types.EmptyRootHash {
			w.dereference(x)
		}
	}
	if !w.audit("final", 0) {
		return
	}
	// after every root was removed the cache holds only nodes that are also on disk
	snap := w.hdb.VerifDirties()
	r.Count("final_cached_nodes", len(snap.Dirties))
	if len(snap.Dirties) == 0 {
		r.Count("final_cache_empty", 1)
	}
	sig := fmt.Sprintf("deref=%s/window=%d/shared=%v/reins=%v/fork=%v/fault=%v/conc=%v/clean=%v/inflate=%v/caps=%s/commits=%s", derefPolicy, min(window, 6), w.shared, w.reinserted, w.forked, w.faulted, w.concurrent, clean > 0, w.disk.inflate > 1, keys(w.capKinds), keys(w.commitKinds))
	r.Eval(sig)
	if r.WantSample() && w.shared && len(w.capKinds) > 0 && len(w.commitKinds) > 0 {
		r.Sample(map[string]any{"case": idx, "updates": nUpdates, "deref": derefPolicy, "window": window, "ops_tail": w.witness()["ops_tail"]})
	}
}

func keys(m map[string]bool) string {
	var k []string
	for s := range m {
		k = append(k, s)
	}
	sort.Strings(k)
	return fmt.Sprint(k)
}

func (w *world) dereference(x *rootInfo) {
	if err := w.tdb.Dereference(x.hash); err != nil {
		w.viol("dereference-error", err.Error())
		return
	}
	if x.refs > 0 {
		x.refs--
	}
	if x.refs == 0 {
		x.inserted = false // removed (hashdb deletes the root node when its counter hits zero)
	}
	w.logf("dereference %x -> %d", x.hash[:4], x.refs)
	w.r.Count("dereferences", 1)
}

func (w *world) arm() (armed bool) {
	if w.rng.Intn(4) == 0 {
		w.disk.failAt.Store(int64(1 + w.rng.Intn(3)))
		return true
	}
	return false
}

func (w *world) doCap() {
	_, size, _ := w.tdb.Size()
	var limit common.StorageSize
	kind := ""
	switch w.rng.Intn(4) {
	case 0:
		limit, kind = 0, "zero"
	case 1:
		limit, kind = common.StorageSize(w.rng.Intn(2000)), "tiny"
	case 2:
		limit, kind = size*common.StorageSize(w.rng.Intn(100))/100, "partial"
	default:
		limit, kind = size+common.StorageSize(w.rng.Intn(1000)), "above"
	}
	armed := w.arm()
	f0 := w.disk.failures.Load()
	err := w.tdb.Cap(limit)
	failed := w.disk.failures.Load() > f0
	w.disk.failAt.Store(0)
	w.logf("cap %v (%s) armed=%v err=%v", limit, kind, armed, err)
	w.r.Count("caps", 1)
	if failed {
		w.faulted = true
		w.r.Count("injected_failures_cap", 1)
		if err == nil {
			w.viol("cap-swallowed-error", "Cap returned nil although a batch write failed")
		}
		w.capKinds[kind+"+fault"] = true
		return
	}
	if err != nil {
		w.viol("cap-error", fmt.Sprintf("Cap(%v): %v", limit, err))
		return
	}
	w.capKinds[kind] = true
	if _, after, _ := w.tdb.Size(); after > limit {
		w.viol("cap-not-below-limit", fmt.Sprintf("Cap(%v) returned with Size()=%v", limit, after))
	}
}

func (w *world) doCommit(referenced []*rootInfo, head *rootInfo) {
	var x *rootInfo
	kind := ""
	switch {
	case len(referenced) == 0 || w.rng.Intn(4) == 0:
		x, kind = head, "newest"
	case w.rng.Intn(2) == 0:
		x, kind = referenced[0], "oldest"
	default:
		x, kind = referenced[w.rng.Intn(len(referenced))], "middle"
	}
	if x.hash == types.EmptyRootHash || !(x.refs > 0 || x.inserted || x.committed) {
		return
	}
	armed := w.arm()
	f0 := w.disk.failures.Load()
	err := w.tdb.Commit(x.hash, false)
	failed := w.disk.failures.Load() > f0
	w.disk.failAt.Store(0)
	w.logf("commit %x (%s) armed=%v err=%v", x.hash[:4], kind, armed, err)
	w.r.Count("commits", 1)
	if failed {
		w.faulted = true
		w.r.Count("injected_failures_commit", 1)
		if err == nil {
			w.viol("commit-swallowed-error", "Commit returned nil although a batch write failed")
		}
		w.commitKinds[kind+"+fault"] = true
		return
	}
	if err != nil {
		w.viol("commit-error", fmt.Sprintf("Commit(%x): %v", x.hash, err))
		return
	}
	w.commitKinds[kind] = true
	// the whole trie must be on disk now
	for _, h := range w.closureOf(x) {
		if !bytes.Equal(rawdb.ReadLegacyTrieNode(w.disk.Database, h), w.union[h]) {
			w.viol("commit-incomplete", fmt.Sprintf("after Commit(%x) node %x is not on disk", x.hash, h))
			return
		}
	}
	x.committed = true
}

// concurrentPhase: readers keep reading the closures of pinned referenced roots while the
// mutator extends the chain, dereferences other roots, caps and commits. A live node must
// be readable at every instant, whatever the interleaving.
func (w *world) concurrentPhase(head **rootInfo, referenced *[]*rootInfo) {
	var pinned []*rootInfo
	seen := map[*rootInfo]bool{}
	for _, x := range *referenced {
		if !seen[x] && x.hash != types.EmptyRootHash && len(pinned) < 3 {
			seen[x] = true
			pinned = append(pinned, x)
		}
	}
	if len(pinned) == 0 {
		return
	}
	w.concurrent = true
	type item struct {
		root common.Hash
		h    common.Hash
		blob []byte
	}
	var items []item
	for _, x := range pinned {
		for _, h := range w.closureOf(x) {
			items = append(items, item{x.hash, h, w.union[h]})
		}
	}
	var stop atomic.Bool
	var wg sync.WaitGroup
	var reads atomic.Int64
	for g := 0; g < 3; g++ {
		wg.Add(1)
		go func(seed int64) {
			defer wg.Done()
			rr := rand.New(rand.NewSource(seed))
			for !stop.Load() {
				it := items[rr.Intn(len(items))]
				rd, err := w.tdb.NodeReader(it.root)
				if err != nil {
					w.viol("conc-live-root-unavailable", fmt.Sprintf("concurrent NodeReader(%x): %v", it.root, err))
					return
				}
				blob, err := rd.Node(common.Hash{}, nil, it.h)
				if err != nil || !bytes.Equal(blob, it.blob) {
					w.viol("conc-live-node-lost", fmt.Sprintf("concurrent read of node %x of pinned root %x failed (err=%v, %d bytes)", it.h, it.root, err, len(blob)))
					return
				}
				reads.Add(1)
			}
		}(w.rng.Int63())
	}
	// mutator burst (never dereferences a pinned root)
	var mine []*rootInfo
	for k := 0; k < 12 && !w.r.Violated(); k++ {
		ri, ok := w.build(*head)
		if !ok {
			break
		}
		*head = ri
		if ri.hash != types.EmptyRootHash {
			w.tdb.Reference(ri.hash, common.Hash{})
			ri.refs++
			mine = append(mine, ri)
		}
		switch w.rng.Intn(4) {
		case 0:
			w.doCap()
		case 1:
			w.doCommit(mine, ri)
		case 2:
			if len(mine) > 1 {
				j := w.rng.Intn(len(mine) - 1)
				x := mine[j]
				mine = append(mine[:j], mine[j+1:]...)
				if !seen[x] {
					w.dereference(x)
				} else {
					*referenced = append(*referenced, x)
				}
			}
		}
	}
	// make sure the readers got scheduled at all (count, not time)
	for reads.Load() < 200 && !w.r.Violated() {
		w.tdb.Size()
	}
	stop.Store(true)
	wg.Wait()
	for _, x := range mine {
		*referenced = append(*referenced, x)
	}
	w.r.Count("concurrent_reads", int(reads.Load()))
	w.r.Count("concurrent_phases", 1)
}

func run(r *vrt.Run) {
	r.Rule("one history = private memorydb + triedb.Database(hash scheme, clean cache on/off, batch-size inflation on/off); 5-120 state transitions over 12 addresses / 24 slots / 3 shared storage templates built on the head or on an older live state (fork), each committed through real StateTrie commits and Update, Reference x{0,1,2}; Dereference by policy fifo/lifo/random beyond a window of 2-11 roots; Cap{0,tiny,partial,above}, Commit{oldest,middle,newest} with injected batch-write failures; optional concurrent reader phase; audit after every transition. non-trivial signature = (deref policy, window, storage sharing, node reinsertion, fork, fault, concurrency, clean cache, inflation, cap kinds, commit kinds)")
	n := r.N(300, 20000)
	if r.Race() {
		n = r.N(60, 3000)
	}
	vrt.Par(n, 0, func(i int) { oneCase(r, i) })
	r.Require("caps", 50)
	r.Require("commits", 30)
	r.Require("dereferences", 500)
	r.Require("concurrent_phases", 10)
	r.Require("injected_failures_commit", 3)
	r.Require("injected_failures_cap", 3)
	r.Assume("node sets come from go-ethereum's own trie.StateTrie commits (trie package is not judged here); reachability uses the harness's decoders refmpt.ChildRefs and storageRoots (refrlp)")
	r.Assume("a cached node that is unreachable from referenced roots but also present on disk is counted, not reported (re-creation of an already flushed node: corner case documented in hashdb.dereference)")
}
