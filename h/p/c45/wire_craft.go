package main

// Hand-made discv5 handshake packets (initiator side written from the wire specification:
// id signature, ECDH + HKDF-SHA256 key agreement, AES-GCM message, AES-CTR header masking),
// so that the harness can send a handshake whose static-header source id differs from the
// identity of the enclosed record.

import (
	"crypto/aes"
	"crypto/cipher"
	"crypto/ecdsa"
	"crypto/sha256"
	"encoding/binary"
	"fmt"
	"io"
	"math/rand"

	"github.com/ethereum/go-ethereum/crypto"
	"github.com/ethereum/go-ethereum/p2p/discover/v5wire"
	"github.com/ethereum/go-ethereum/p2p/enode"
	"github.com/ethereum/go-ethereum/rlp"
	"golang.org/x/crypto/hkdf"
)

// unmaskHeader returns the unmasked header (iv || static header || authdata) of a packet
// addressed to dest.
func unmaskHeader(pkt []byte, dest enode.ID) []byte {
	as := authSizeOf(pkt, dest)
	end := min(39+as, len(pkt))
	out := append([]byte{}, pkt[:end]...)
	blk, _ := aes.NewCipher(dest[:16])
	cipher.NewCTR(blk, pkt[:16]).XORKeyStream(out[16:], out[16:])
	return out
}

// craftHandshake builds a handshake packet to dest answering challenge data cdata, claiming
// source id srcID, signed with key signer and carrying record rec (may be nil).
func craftHandshake(rng *rand.Rand, cdata []byte, srcID enode.ID, signer *ecdsa.PrivateKey, rec []byte, dest enode.ID, destPub *ecdsa.PublicKey, msg v5wire.Packet) []byte {
	eph := genKey(rng)
	ephPub := crypto.CompressPubkey(&eph.PublicKey)
	// id signature
	h := sha256.New()
	h.Write([]byte("discovery v5 identity proof"))
	h.Write(cdata)
	h.Write(ephPub)
	h.Write(dest[:])
	sig, err := crypto.Sign(h.Sum(nil), signer)
	if err != nil {
		panic(err)
	}
	sig = sig[:64]
	// key agreement
	sx, sy := crypto.S256().ScalarMult(destPub.X, destPub.Y, eph.D.Bytes())
	secret := make([]byte, 33)
	secret[0] = 0x02 | byte(sy.Bit(0))
	sx.FillBytes(secret[1:])
	info := append([]byte("discovery v5 key agreement"), srcID[:]...)
	info = append(info, dest[:]...)
	kdf := hkdf.New(sha256.New, secret, cdata, info)
	writeKey := make([]byte, 16)
	io.ReadFull(kdf, writeKey)
	// header
	auth := append([]byte{}, srcID[:]...)
	auth = append(auth, byte(len(sig)), byte(len(ephPub)))
	auth = append(auth, sig...)
	auth = append(auth, ephPub...)
	auth = append(auth, rec...)
	head := make([]byte, 16, 39+len(auth))
	rng.Read(head)
	head = append(head, "discv5"...)
	head = binary.BigEndian.AppendUint16(head, 1)
	head = append(head, 2) // flag: handshake
	nonce := make([]byte, 12)
	rng.Read(nonce)
	head = append(head, nonce...)
	head = binary.BigEndian.AppendUint16(head, uint16(len(auth)))
	head = append(head, auth...)
	// message
	body, err := rlp.EncodeToBytes(msg)
	if err != nil {
		panic(err)
	}
	pt := append([]byte{msg.Kind()}, body...)
	blk, _ := aes.NewCipher(writeKey)
	gcm, _ := cipher.NewGCM(blk)
	ct := gcm.Seal(nil, nonce, pt, head)
	// mask
	out := append([]byte{}, head...)
	mblk, _ := aes.NewCipher(dest[:16])
	cipher.NewCTR(mblk, out[:16]).XORKeyStream(out[16:], out[16:])
	return append(out, ct...)
}

// craftedStep: Y challenges an unknown node; the answer is hand-made. Positive control: a
// consistent handshake by a fresh identity D is accepted (validates the encoder). Negative:
// the same handshake claiming X's id in the static header while carrying D's record and D's
// signature must not be accepted as coming from X.
func (s *wireSession) craftedStep(i, j int) {
	X, Y := s.n[i], s.n[j]
	rng := s.rng
	dkey := genKey(rng)
	drec := signedRecordFor(rng, dkey)
	dnode, err := enode.New(enode.ValidSchemes, drec)
	if err != nil {
		return
	}
	drecBytes, _ := rlp.EncodeToBytes(drec)
	mismatch := rng.Intn(3) != 0
	claim, addr := dnode.ID(), "10.9.9.9:999"
	if mismatch {
		claim, addr = X.id(), X.addr
	}
	var nonce v5wire.Nonce
	rng.Read(nonce[:])
	who := &v5wire.Whoareyou{Nonce: nonce}
	rng.Read(who.IDNonce[:])
	wenc, _, err := Y.c.Encode(claim, addr, who, nil)
	if err != nil {
		return
	}
	cdata := unmaskHeader(append([]byte{}, wenc...), claim)
	p := randPacket(rng)
	var ypub ecdsa.PublicKey
	if Y.node().Load((*enode.Secp256k1)(&ypub)) != nil {
		return
	}
	pkt := craftHandshake(rng, cdata, claim, dkey, drecBytes, Y.id(), &ypub, p)
	src, node, dp, derr := Y.c.Decode(pkt, addr)
	d := decoded{src, node, dp, derr}
	if mismatch {
		s.mustNotBeMessage("id-mismatch-handshake", d, pkt, "record-of-other-identity")
		if d.isMessage() {
			s.setSync(i, j, false)
		}
		return
	}
	s.r.Count("pos_crafted-handshake", 1)
	s.logf("crafted handshake by fresh identity -> %s", d.class())
	if !d.isMessage() || !packetEqual(d.p, p) || d.src != dnode.ID() || d.node == nil || d.node.ID() != dnode.ID() {
		s.violation("wire:roundtrip:crafted-handshake", fmt.Sprintf("consistent hand-made handshake not accepted: %v", d), map[string]any{"packet": fmt.Sprintf("%x", pkt)})
	}
	s.r.Eval("pos/crafted-handshake/" + p.Name() + "/" + d.class())
}
