package main

// Part B: discovery v5 wire codec. Two (three) v5wire.Codec instances with a shared
// simulated clock exchange packets through the harness, which keeps a small model of which
// pairs share session keys. Positive expectation: in-sync messages and complete handshakes
// decode to exactly what was sent. Negative expectation: tampered, cross-session-replayed,
// misdirected, wrong-challenge and impostor packets never decode to a message (errors and
// Unknown are fine).

import (
	"bytes"
	"crypto/aes"
	"crypto/cipher"
	"crypto/ecdsa"
	"fmt"
	"math/rand"
	"net"
	"time"

	"github.com/ethereum/go-ethereum/common/mclock"
	"github.com/ethereum/go-ethereum/p2p/discover/v5wire"
	"github.com/ethereum/go-ethereum/p2p/enode"
	"github.com/ethereum/go-ethereum/p2p/enr"
	"github.com/ethereum/go-ethereum/rlp"

	"verif/lib/vrt"
)

type wnode struct {
	name  string
	key   *ecdsa.PrivateKey
	db    *enode.DB
	ln    *enode.LocalNode
	c     *v5wire.Codec
	addr  string
	clock *mclock.Simulated
}

func newWnode(name string, rng *rand.Rand, clock *mclock.Simulated, i int) *wnode {
	n := &wnode{name: name, key: genKey(rng), clock: clock}
	n.db, _ = enode.OpenDB("")
	n.ln = enode.NewLocalNode(n.db, n.key)
	n.ln.SetStaticIP(net.IP{127, 0, 0, byte(1 + i)})
	n.ln.Set(enr.UDP(30300 + i))
	if rng.Intn(2) == 0 {
		n.ln.Set(enr.WithEntry("x", randBytes(rng, rng.Intn(60))))
	}
	n.addr = fmt.Sprintf("127.0.0.%d:%d", 1+i, 30300+i)
	n.reset()
	return n
}

func (n *wnode) reset()            { n.c = v5wire.NewCodec(n.ln, n.key, n.clock, nil) }
func (n *wnode) id() enode.ID      { return n.ln.ID() }
func (n *wnode) node() *enode.Node { return n.ln.Node() }
func (n *wnode) close()            { n.db.Close() }

// encode returns a private copy of the encoded packet.
func (n *wnode) encode(to *wnode, p v5wire.Packet, ch *v5wire.Whoareyou) ([]byte, v5wire.Nonce, error) {
	enc, nonce, err := n.c.Encode(to.id(), to.addr, p, ch)
	return append([]byte{}, enc...), nonce, err
}

type decoded struct {
	src  enode.ID
	node *enode.Node
	p    v5wire.Packet
	err  error
}

func (n *wnode) decode(b []byte, from *wnode) decoded {
	src, node, p, err := n.c.Decode(b, from.addr)
	return decoded{src, node, p, err}
}

// isMessage: the packet was accepted as an authenticated protocol message.
func (d decoded) isMessage() bool {
	if d.err != nil || d.p == nil {
		return false
	}
	k := d.p.Kind()
	return k != v5wire.UnknownPacket && k != v5wire.WhoareyouPacket
}

func (d decoded) class() string {
	switch {
	case d.err != nil:
		return "err"
	case d.p == nil:
		return "nil"
	case d.p.Kind() == v5wire.UnknownPacket:
		return "unknown"
	case d.p.Kind() == v5wire.WhoareyouPacket:
		return "whoareyou"
	}
	return "msg"
}

func (d decoded) String() string {
	if d.p == nil {
		return fmt.Sprintf("packet=nil err=%v", d.err)
	}
	return fmt.Sprintf("packet=%s err=%v src=%x", d.p.Name(), d.err, d.src[:4])
}

// ---------------------------------------------------------------- packets

func randReqID(rng *rand.Rand) []byte {
	return randBytes(rng, []int{0, 1, 1, 2, 4, 7, 8, 8}[rng.Intn(8)])
}

func signedRecord(rng *rand.Rand) *enr.Record {
	var rec enr.Record
	rec.SetSeq(uint64(rng.Intn(1000)))
	rec.Set(enr.IPv4{byte(1 + rng.Intn(200)), byte(rng.Intn(256)), 1, 2})
	rec.Set(enr.UDP(rng.Intn(65536)))
	if rng.Intn(2) == 0 {
		rec.Set(enr.WithEntry("k", randBytes(rng, rng.Intn(100))))
	}
	if err := enode.SignV4(&rec, genKey(rng)); err != nil {
		panic(err)
	}
	return &rec
}

func signedRecordFor(rng *rand.Rand, key *ecdsa.PrivateKey) *enr.Record {
	var rec enr.Record
	rec.SetSeq(uint64(1 + rng.Intn(1000)))
	rec.Set(enr.IPv4{byte(1 + rng.Intn(200)), byte(rng.Intn(256)), 1, 2})
	rec.Set(enr.UDP(rng.Intn(65536)))
	if err := enode.SignV4(&rec, key); err != nil {
		panic(err)
	}
	return &rec
}

func randPacket(rng *rand.Rand) v5wire.Packet {
	switch rng.Intn(6) {
	case 0:
		return &v5wire.Ping{ReqID: randReqID(rng), ENRSeq: seqChoices[rng.Intn(len(seqChoices))]}
	case 1:
		ip := net.IP(randIP4(rng))
		if rng.Intn(2) == 0 {
			ip = net.IP(randIP6(rng))
		}
		return &v5wire.Pong{ReqID: randReqID(rng), ENRSeq: rng.Uint64(), ToIP: ip, ToPort: uint16(rng.Intn(65536))}
	case 2:
		d := make([]uint, rng.Intn(6))
		for i := range d {
			d[i] = uint(rng.Intn(258))
		}
		return &v5wire.Findnode{ReqID: randReqID(rng), Distances: d}
	case 3:
		n := &v5wire.Nodes{ReqID: randReqID(rng), RespCount: uint8(rng.Intn(256))}
		for i := rng.Intn(4); i > 0; i-- {
			n.Nodes = append(n.Nodes, signedRecord(rng))
		}
		return n
	case 4:
		return &v5wire.TalkRequest{ReqID: randReqID(rng), Protocol: string(randBytes(rng, rng.Intn(12))), Message: randBytes(rng, []int{0, 1, 55, 56, 300, 900}[rng.Intn(6)])}
	default:
		return &v5wire.TalkResponse{ReqID: randReqID(rng), Message: randBytes(rng, []int{0, 1, 55, 56, 300, 900}[rng.Intn(6)])}
	}
}

func packetEqual(a, b v5wire.Packet) bool {
	if a == nil || b == nil || a.Kind() != b.Kind() {
		return false
	}
	ea, err1 := rlp.EncodeToBytes(a)
	eb, err2 := rlp.EncodeToBytes(b)
	return err1 == nil && err2 == nil && bytes.Equal(ea, eb)
}

func pktHex(p v5wire.Packet) string {
	if p == nil {
		return "nil"
	}
	e, _ := rlp.EncodeToBytes(p)
	return fmt.Sprintf("%s:%x", p.Name(), e)
}

// ---------------------------------------------------------------- tampering

// remask converts the header masking of a packet from destination a to destination b.
func remask(pkt []byte, a, b enode.ID) []byte {
	out := append([]byte{}, pkt...)
	if len(out) < 16+23 {
		return out
	}
	iv := out[:16]
	// unmask the static header to learn the auth size
	blk, _ := aes.NewCipher(a[:16])
	s := cipher.NewCTR(blk, iv)
	s.XORKeyStream(out[16:39], out[16:39])
	authsize := int(out[16+21])<<8 | int(out[16+22])
	end := min(39+authsize, len(out))
	s.XORKeyStream(out[39:end], out[39:end])
	blk2, _ := aes.NewCipher(b[:16])
	cipher.NewCTR(blk2, iv).XORKeyStream(out[16:end], out[16:end])
	return out
}

// authSizeOf unmasks (a copy of) the static header of a packet addressed to dest.
func authSizeOf(pkt []byte, dest enode.ID) int {
	if len(pkt) < 39 {
		return 0
	}
	h := append([]byte{}, pkt[16:39]...)
	blk, _ := aes.NewCipher(dest[:16])
	cipher.NewCTR(blk, pkt[:16]).XORKeyStream(h, h)
	return int(h[21])<<8 | int(h[22])
}

var tamperRegions = []string{"iv", "static", "auth", "body", "tag", "any"}

// tamper returns a modified copy of pkt and a description.
func tamper(rng *rand.Rand, pkt []byte, dest enode.ID) ([]byte, string) {
	out := append([]byte{}, pkt...)
	switch rng.Intn(10) {
	case 0:
		n := 1 + rng.Intn(min(len(out), 40))
		return out[:len(out)-n], "truncate"
	case 1:
		return append(out, randBytes(rng, 1+rng.Intn(20))...), "append"
	}
	as := authSizeOf(pkt, dest)
	region := tamperRegions[rng.Intn(len(tamperRegions))]
	lo, hi := 0, len(out)
	switch region {
	case "iv":
		lo, hi = 0, 16
	case "static":
		lo, hi = 16, 39
	case "auth":
		lo, hi = 39, 39+as
	case "body":
		lo, hi = 39+as, len(out)-16
	case "tag":
		lo, hi = len(out)-16, len(out)
	}
	if lo < 0 || hi > len(out) || hi <= lo {
		lo, hi, region = 0, len(out), "any"
	}
	pos := lo + rng.Intn(hi-lo)
	if rng.Intn(2) == 0 {
		out[pos] ^= 1 << uint(rng.Intn(8))
		return out, "flip-" + region
	}
	out[pos] ^= byte(1 + rng.Intn(255))
	return out, "replace-" + region
}

// ---------------------------------------------------------------- session scenario

type oldPkt struct {
	b        []byte
	from, to int
	epoch    int
	p        v5wire.Packet
}

type wireSession struct {
	r     *vrt.Run
	rng   *rand.Rand
	clock *mclock.Simulated
	n     [3]*wnode
	// model: sync[i][j] (i<j) — both codecs hold the same session keys for the pair
	sync  [3][3]bool
	epoch [3][3]int
	old   []oldPkt
	lastH [3][3][]byte // last successfully used handshake packet i->j
	log   []string
	idx   int
	ops   int
}

func (s *wireSession) setSync(i, j int, v bool) { s.sync[i][j], s.sync[j][i] = v, v }
func (s *wireSession) bump(i, j int) {
	s.epoch[i][j]++
	s.epoch[j][i] = s.epoch[i][j]
}

func (s *wireSession) logf(f string, a ...any) {
	if len(s.log) < 200 {
		s.log = append(s.log, fmt.Sprintf(f, a...))
	}
}

func (s *wireSession) wit(extra map[string]any) map[string]any {
	w := map[string]any{"session": s.idx, "log": s.log}
	for k, v := range extra {
		w[k] = v
	}
	return w
}

func (s *wireSession) violation(fp, msg string, extra map[string]any) {
	s.r.Violation(fp, msg, s.wit(extra))
}

// mustNotBeMessage judges a negative case.
func (s *wireSession) mustNotBeMessage(what string, d decoded, pkt []byte, detail string) {
	s.r.Count("neg_"+what, 1)
	s.logf("%s (%s) -> %s", what, detail, d.class())
	if d.isMessage() {
		s.violation("wire:accepted:"+what, fmt.Sprintf("%s packet (%s) decoded to a message: %v", what, detail, d), map[string]any{"packet": vrt.Hex(pkt)})
	}
	s.r.Eval("neg/" + what + "/" + detail + "/" + d.class())
}

// expectMessage judges a positive case.
func (s *wireSession) expectMessage(what string, d decoded, from *wnode, p v5wire.Packet, pkt []byte) bool {
	s.r.Count("pos_"+what, 1)
	ok := d.err == nil && packetEqual(d.p, p) && d.src == from.id()
	s.logf("%s %s -> %s", what, p.Name(), d.class())
	if !ok {
		s.violation("wire:roundtrip:"+what, fmt.Sprintf("%s: sent %s, decoded %v (%s)", what, pktHex(p), d, pktHex(d.p)), map[string]any{"packet": vrt.Hex(pkt)})
	}
	s.r.Eval(fmt.Sprintf("pos/%s/%s/%d/%v", what, p.Name(), min(len(pkt)/100, 9), ok))
	return ok
}

// challenge makes j send WHOAREYOU to i (answering nonce) and i decode it. It returns the
// challenge as decoded by i (Node set) and the wire bytes. known: j includes its knowledge
// of i's record.
func (s *wireSession) challenge(i, j int, nonce v5wire.Nonce, known bool) (*v5wire.Whoareyou, []byte, bool) {
	X, Y := s.n[i], s.n[j]
	who := &v5wire.Whoareyou{Nonce: nonce}
	s.rng.Read(who.IDNonce[:])
	if known {
		who.Node = X.node()
		who.RecordSeq = X.node().Seq()
		if s.rng.Intn(4) == 0 {
			who.RecordSeq = 0 // ask for the record although one is known
		}
	}
	wenc, _, err := Y.encode(X, who, nil)
	if err != nil {
		s.violation("wire:encode-whoareyou", err.Error(), nil)
		return nil, nil, false
	}
	d := X.decode(wenc, Y)
	w, isW := d.p.(*v5wire.Whoareyou)
	if d.err != nil || !isW || w.Nonce != who.Nonce || w.IDNonce != who.IDNonce || w.RecordSeq != who.RecordSeq {
		s.violation("wire:roundtrip:whoareyou", fmt.Sprintf("WHOAREYOU not decoded to what was sent: %v", d), map[string]any{"packet": vrt.Hex(wenc)})
		return nil, nil, false
	}
	s.r.Count("pos_whoareyou", 1)
	w.Node = Y.node()
	return w, wenc, true
}

// handshake runs a full handshake i -> j carrying p. variation: "", "lose-who", "lose-hs",
// "timeout". Returns whether the pair is in sync afterwards.
func (s *wireSession) handshake(i, j int, variation string) {
	X, Y := s.n[i], s.n[j]
	p := randPacket(s.rng)
	// (1) request: a random packet if X has no keys, otherwise a message Y may or may not read
	enc, nonce, err := X.encode(Y, p, nil)
	if err != nil {
		s.violation("wire:encode", err.Error(), nil)
		return
	}
	d := Y.decode(enc, X)
	if s.sync[i][j] {
		// keys shared: the message is readable; Y challenges anyway (allowed at any time)
		s.expectMessage("msg-before-rehandshake", d, X, p, enc)
	} else if d.isMessage() {
		s.violation("wire:accepted:out-of-sync", fmt.Sprintf("message decoded although the codecs cannot share keys: %v", d), map[string]any{"packet": vrt.Hex(enc)})
		return
	}
	known := s.rng.Intn(2) == 0
	w, _, ok := s.challenge(i, j, nonce, known)
	if !ok {
		return
	}
	if variation == "lose-who" {
		s.logf("handshake %s->%s: WHOAREYOU lost", X.name, Y.name)
		return
	}
	henc, _, err := X.encode(Y, p, w)
	if err != nil {
		s.violation("wire:encode-handshake", err.Error(), nil)
		return
	}
	// X has replaced its keys for Y now
	s.setSync(i, j, false)
	if variation == "lose-hs" {
		s.logf("handshake %s->%s: handshake packet lost", X.name, Y.name)
		s.r.Count("hs_lost", 1)
		return
	}
	if variation == "timeout" {
		s.clock.Run(time.Second + time.Duration(s.rng.Intn(3000))*time.Millisecond)
		d := Y.decode(henc, X)
		s.logf("handshake %s->%s after timeout -> %s", X.name, Y.name, d.class())
		s.r.Count("hs_after_timeout_"+d.class(), 1)
		// either outcome is within the property; follow what happened
		if d.isMessage() {
			if !packetEqual(d.p, p) || d.src != X.id() {
				s.violation("wire:roundtrip:handshake", fmt.Sprintf("late handshake decoded to something else: %v", d), map[string]any{"packet": vrt.Hex(henc)})
			}
			s.setSync(i, j, true)
			s.bump(i, j)
		}
		s.r.Eval("hs-timeout/" + d.class())
		return
	}
	d = Y.decode(henc, X)
	if s.expectMessage("handshake", d, X, p, henc) {
		sentRecord := w.RecordSeq < X.node().Seq()
		switch {
		case d.node == nil:
			s.violation("wire:handshake-node", "handshake decoded without a node", map[string]any{"packet": vrt.Hex(henc)})
		case d.node.ID() != X.id():
			s.violation("wire:handshake-node", fmt.Sprintf("handshake node id %x, sender %x", d.node.ID(), X.id()), map[string]any{"packet": vrt.Hex(henc)})
		case sentRecord:
			a, _ := rlp.EncodeToBytes(d.node.Record())
			b, _ := rlp.EncodeToBytes(X.node().Record())
			if !bytes.Equal(a, b) {
				s.violation("wire:handshake-record", "record delivered with the handshake differs from the sender's record", map[string]any{"packet": vrt.Hex(henc)})
			}
			s.r.Count("hs_with_record", 1)
		}
		if sn := Y.c.SessionNode(X.id(), X.addr); sn == nil || sn.ID() != X.id() {
			s.violation("wire:session-node", "SessionNode after handshake is not the sender", nil)
		}
		s.setSync(i, j, true)
		s.bump(i, j)
		s.lastH[i][j] = henc
		s.r.Count("hs_ok", 1)
	}
}

func (s *wireSession) pair() (int, int) {
	i := s.rng.Intn(2)
	j := 1 - i
	if s.rng.Intn(6) == 0 { // involve the third node
		k := 2
		if s.rng.Intn(2) == 0 {
			return i, k
		}
		return k, i
	}
	return i, j
}

func (s *wireSession) ensureSync(i, j int) bool {
	if !s.sync[i][j] {
		s.handshake(i, j, "")
	}
	return s.sync[i][j]
}

func (s *wireSession) step() {
	rng := s.rng
	i, j := s.pair()
	X, Y := s.n[i], s.n[j]
	switch op := rng.Intn(23); {
	case op < 6: // plain message
		p := randPacket(rng)
		enc, _, err := X.encode(Y, p, nil)
		if err != nil {
			s.violation("wire:encode", err.Error(), nil)
			return
		}
		if rng.Intn(8) == 0 {
			s.logf("msg %s->%s lost", X.name, Y.name)
			if s.sync[i][j] {
				s.old = append(s.old, oldPkt{enc, i, j, s.epoch[i][j], p})
			}
			return
		}
		d := Y.decode(enc, X)
		if s.sync[i][j] {
			s.expectMessage("msg", d, X, p, enc)
			s.old = append(s.old, oldPkt{enc, i, j, s.epoch[i][j], p})
		} else {
			s.mustNotBeMessage("out-of-sync", d, enc, "msg")
			if u, ok := d.p.(*v5wire.Unknown); ok && d.err == nil {
				_ = u
				s.handshake(i, j, "")
			}
		}
	case op < 9:
		s.handshake(i, j, []string{"", "", "", "lose-who", "lose-hs", "timeout"}[rng.Intn(6)])
	case op < 12: // tampered message, then the original
		if !s.ensureSync(i, j) {
			return
		}
		p := randPacket(rng)
		enc, _, _ := X.encode(Y, p, nil)
		for k := 1 + rng.Intn(3); k > 0; k-- {
			bad, how := tamper(rng, enc, Y.id())
			s.mustNotBeMessage("tampered-msg", Y.decode(bad, X), bad, how)
		}
		s.expectMessage("msg-after-tampered", Y.decode(enc, X), X, p, enc)
	case op == 12: // replay from an earlier session
		var cand []oldPkt
		for _, o := range s.old {
			if o.epoch < s.epoch[o.from][o.to] {
				cand = append(cand, o)
			}
		}
		if len(cand) == 0 {
			s.handshake(i, j, "") // make history
			return
		}
		o := cand[rng.Intn(len(cand))]
		s.mustNotBeMessage("replay-old-session", s.n[o.to].decode(o.b, s.n[o.from]), o.b, o.p.Name())
	case op == 13: // delivered to the wrong node
		if !s.ensureSync(i, j) {
			return
		}
		k := 3 - i - j
		Z := s.n[k]
		p := randPacket(rng)
		enc, _, _ := X.encode(Y, p, nil)
		s.mustNotBeMessage("wrong-recipient", Z.decode(enc, X), enc, "as-is")
		re := remask(enc, Y.id(), Z.id())
		s.mustNotBeMessage("wrong-recipient", Z.decode(re, X), re, fmt.Sprintf("remasked/zsync=%v", s.sync[i][k]))
		s.expectMessage("msg-after-misdelivery", Y.decode(enc, X), X, p, enc)
	case op == 14: // answer to a superseded challenge
		var nonce v5wire.Nonce
		rng.Read(nonce[:])
		w1, _, ok1 := s.challenge(i, j, nonce, rng.Intn(2) == 0)
		rng.Read(nonce[:])
		_, _, ok2 := s.challenge(i, j, nonce, rng.Intn(2) == 0)
		if !ok1 || !ok2 {
			return
		}
		p := randPacket(rng)
		henc, _, err := X.encode(Y, p, w1)
		if err != nil {
			return
		}
		s.setSync(i, j, false)
		s.mustNotBeMessage("wrong-challenge", Y.decode(henc, X), henc, "superseded")
	case op == 15: // tampered WHOAREYOU
		var nonce v5wire.Nonce
		rng.Read(nonce[:])
		_, wenc, ok := s.challenge(i, j, nonce, rng.Intn(2) == 0)
		if !ok {
			return
		}
		bad, how := tamper(rng, wenc, X.id())
		d := X.decode(bad, Y)
		if d.isMessage() {
			s.violation("wire:accepted:tampered-whoareyou", fmt.Sprintf("tampered WHOAREYOU decoded to a message: %v", d), map[string]any{"packet": vrt.Hex(bad)})
			return
		}
		w, isW := d.p.(*v5wire.Whoareyou)
		if d.err != nil || !isW {
			s.r.Count("neg_tampered-whoareyou-rejected", 1)
			s.r.Eval("neg/tampered-whoareyou/" + how + "/" + d.class())
			return
		}
		if orig := Y.c.CurrentChallenge(X.id(), X.addr); orig != nil && bytes.Equal(orig.ChallengeData, w.ChallengeData) {
			// the modification did not touch the challenge data (e.g. bytes appended after the
			// header, which the decoder ignores): the challenge is the genuine one.
			s.r.Count("whoareyou_tamper_ineffective", 1)
			s.r.Eval("neg/tampered-whoareyou/" + how + "/same-challenge")
			return
		}
		// X cannot know: it answers the modified challenge. Y must not accept the answer.
		w.Node = Y.node()
		p := randPacket(rng)
		henc, _, err := X.encode(Y, p, w)
		if err != nil {
			return
		}
		s.setSync(i, j, false)
		s.mustNotBeMessage("wrong-challenge", Y.decode(henc, X), henc, "tampered-whoareyou-"+how)
	case op == 16: // tampered handshake packet
		var nonce v5wire.Nonce
		rng.Read(nonce[:])
		w, _, ok := s.challenge(i, j, nonce, rng.Intn(2) == 0)
		if !ok {
			return
		}
		p := randPacket(rng)
		henc, _, err := X.encode(Y, p, w)
		if err != nil {
			return
		}
		s.setSync(i, j, false)
		bad, how := tamper(rng, henc, Y.id())
		s.mustNotBeMessage("tampered-handshake", Y.decode(bad, X), bad, how)
	case op == 17: // replayed handshake packet
		h := s.lastH[i][j]
		if h == nil {
			s.handshake(i, j, "")
			return
		}
		if rng.Intn(2) == 0 {
			s.mustNotBeMessage("replay-handshake", Y.decode(h, X), h, "no-challenge")
		} else {
			var nonce v5wire.Nonce
			rng.Read(nonce[:])
			if _, _, ok := s.challenge(i, j, nonce, rng.Intn(2) == 0); !ok {
				return
			}
			s.mustNotBeMessage("replay-handshake", Y.decode(h, X), h, "new-challenge")
		}
	case op == 18: // impostor: X's identity and record, but another static key
		var nonce v5wire.Nonce
		rng.Read(nonce[:])
		who := &v5wire.Whoareyou{Nonce: nonce}
		rng.Read(who.IDNonce[:])
		if rng.Intn(2) == 0 {
			who.Node, who.RecordSeq = X.node(), X.node().Seq()
		}
		wenc, _, err := Y.encode(X, who, nil)
		if err != nil {
			return
		}
		evil := v5wire.NewCodec(X.ln, genKey(rng), s.clock, nil)
		_, _, wp, err := evil.Decode(wenc, Y.addr)
		w, isW := wp.(*v5wire.Whoareyou)
		if err != nil || !isW {
			return
		}
		w.Node = Y.node()
		henc, _, err := evil.Encode(Y.id(), Y.addr, randPacket(rng), w)
		if err != nil {
			return
		}
		henc = append([]byte{}, henc...)
		s.mustNotBeMessage("impostor-handshake", Y.decode(henc, X), henc, fmt.Sprintf("known=%v", who.Node != nil))
	case op == 19: // restart of one node
		X.reset()
		for k := 0; k < 3; k++ {
			if k != i {
				s.setSync(i, k, false)
			}
		}
		s.logf("%s restarted", X.name)
		s.r.Count("codec_resets", 1)
	case op == 20:
		s.clock.Run(time.Duration(rng.Intn(3000)) * time.Millisecond)
	case op == 21:
		s.craftedStep(i, j)
	default: // garbage
		var b []byte
		if rng.Intn(2) == 0 {
			b = randBytes(rng, 63+rng.Intn(400))
		} else {
			// keep a valid masked header, randomize the rest
			p := randPacket(rng)
			enc, _, _ := X.encode(Y, p, nil)
			as := authSizeOf(enc, Y.id())
			b = append([]byte{}, enc...)
			if from := 39 + rng.Intn(max(as, 1)); from < len(b) {
				rng.Read(b[from:])
			}
		}
		var d decoded
		if s.r.Guard("wire-decode", s.wit(map[string]any{"packet": vrt.Hex(b)}), func() { d = Y.decode(b, X) }) {
			return
		}
		s.mustNotBeMessage("garbage", d, b, "random")
	}
}

func wireCase(r *vrt.Run, idx int) {
	rng := r.Rand("wire", idx)
	clock := new(mclock.Simulated)
	s := &wireSession{r: r, rng: rng, clock: clock, idx: idx}
	for k := range s.n {
		s.n[k] = newWnode(string(rune('A'+k)), rng, clock, k)
		defer s.n[k].close()
	}
	r.Case("wire session %d", idx)
	steps := 2 + rng.Intn(29)
	if perr, st := vrt.Recover(func() {
		for k := 0; k < steps && !r.Violated(); k++ {
			s.step()
		}
	}); perr != nil {
		r.Violation("wire:panic:"+vrt.PanicSite(st), fmt.Sprintf("panic: %v\n%s", perr, st), s.wit(nil))
	}
	r.Count("wire_sessions", 1)
	if idx < 2 && r.WantSample() {
		r.Sample(map[string]any{"wire_session": idx, "log": s.log})
	}
}

// randomDecode feeds unrelated bytes to a codec (never panics, never a message).
func randomDecode(r *vrt.Run, idx int) {
	rng := r.Rand("rnd", idx)
	clock := new(mclock.Simulated)
	n := newWnode("R", rng, clock, 0)
	defer n.close()
	for k := 0; k < 200; k++ {
		b := randBytes(rng, rng.Intn(700))
		r.Case("random decode %d/%d %x", idx, k, b)
		var d decoded
		if r.Guard("wire-decode", map[string]any{"packet": vrt.Hex(b)}, func() { d = n.decode(b, n) }) {
			return
		}
		if d.isMessage() {
			r.Violation("wire:accepted:garbage", fmt.Sprintf("random bytes decoded to a message: %v", d), map[string]any{"packet": vrt.Hex(b)})
		}
		r.Count("random_decodes", 1)
	}
	r.EvalN("random-bytes", 200)
}
