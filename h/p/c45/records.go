package main

// Part A: node records. Records are assembled byte-by-byte with refrlp and signed by the
// harness (content hash computed with the reference Keccak), mutated, and offered to
// rlp.DecodeBytes + enode.New(enode.ValidSchemes). Oracle: acceptance implies the necessary
// conditions of the property (recomputed from the bytes by refCheck); well-formed genuine
// records must be accepted; accepted records re-encode identically.

import (
	"bytes"
	"crypto/ecdsa"
	"fmt"
	"math/rand"
	"net/netip"
	"sort"

	"github.com/ethereum/go-ethereum/crypto"
	"github.com/ethereum/go-ethereum/p2p/enode"
	"github.com/ethereum/go-ethereum/p2p/enr"
	"github.com/ethereum/go-ethereum/rlp"

	"verif/lib/refmpt"
	"verif/lib/refrlp"
	"verif/lib/vrt"
)

type kv struct {
	k string
	v []byte // raw RLP of the value
}

type recSpec struct {
	key   *ecdsa.PrivateKey
	seq   []byte // raw RLP of seq
	pairs []kv
}

func genKey(rng *rand.Rand) *ecdsa.PrivateKey {
	for {
		b := make([]byte, 32)
		rng.Read(b)
		if k, err := crypto.ToECDSA(b); err == nil {
			return k
		}
	}
}

func randBytes(rng *rand.Rand, n int) []byte {
	b := make([]byte, n)
	rng.Read(b)
	return b
}

// randValue returns the RLP of a random value of any shape.
func randValue(rng *rand.Rand, depth int) []byte {
	switch x := rng.Intn(8); {
	case x < 3:
		return refrlp.EncodeString(randBytes(rng, rng.Intn(20)))
	case x == 3:
		return refrlp.EncodeUint(uint64(rng.Intn(70000)))
	case x == 4:
		return refrlp.EncodeString([]byte{byte(rng.Intn(256))})
	case x == 5:
		return refrlp.EncodeString(randBytes(rng, 50+rng.Intn(30)))
	default:
		if depth >= 2 {
			return refrlp.EncodeListRaw()
		}
		n := rng.Intn(4)
		items := make([][]byte, n)
		for i := range items {
			items[i] = randValue(rng, depth+1)
		}
		return refrlp.EncodeListRaw(items...)
	}
}

var seqChoices = []uint64{0, 1, 2, 127, 128, 255, 256, 65535, 1 << 32, 1<<63 - 1, 1 << 63, 1<<64 - 1}
var unknownKeys = []string{"", "a", "A", "eth", "eth2", "snap", "les", "attnets", "zz", "id2", "secp256k2", "ip7", "\x00", "\xff", "tcp66", "B", "b"}

func genSpec(rng *rand.Rand) *recSpec {
	s := &recSpec{key: genKey(rng)}
	sq := seqChoices[rng.Intn(len(seqChoices))]
	if rng.Intn(3) == 0 {
		sq = rng.Uint64() >> uint(rng.Intn(64))
	}
	s.seq = refrlp.EncodeUint(sq)
	s.pairs = append(s.pairs, kv{"id", refrlp.EncodeString([]byte("v4"))})
	s.pairs = append(s.pairs, kv{"secp256k1", refrlp.EncodeString(crypto.CompressPubkey(&s.key.PublicKey))})
	have := map[string]bool{"id": true, "secp256k1": true}
	add := func(k string, v []byte) {
		if !have[k] {
			have[k] = true
			s.pairs = append(s.pairs, kv{k, v})
		}
	}
	n := rng.Intn(11)
	for i := 0; i < n; i++ {
		switch rng.Intn(9) {
		case 0:
			add("ip", refrlp.EncodeString(randIP4(rng)))
		case 1:
			add("ip6", refrlp.EncodeString(randIP6(rng)))
		case 2:
			add("tcp", refrlp.EncodeUint(uint64(rng.Intn(65536))))
		case 3:
			add("udp", refrlp.EncodeUint(uint64(rng.Intn(65536))))
		case 4:
			add("tcp6", refrlp.EncodeUint(uint64(rng.Intn(65536))))
		case 5:
			add("udp6", refrlp.EncodeUint(uint64(rng.Intn(65536))))
		default:
			add(unknownKeys[rng.Intn(len(unknownKeys))], randValue(rng, 0))
		}
	}
	return s
}

func randIP4(rng *rand.Rand) []byte {
	switch rng.Intn(6) {
	case 0:
		return []byte{127, 0, 0, byte(1 + rng.Intn(200))}
	case 1:
		return []byte{10, byte(rng.Intn(256)), byte(rng.Intn(256)), byte(rng.Intn(256))}
	case 2:
		return []byte{224, 0, 0, byte(rng.Intn(256))} // multicast: not a valid endpoint
	}
	return []byte{byte(1 + rng.Intn(222)), byte(rng.Intn(256)), byte(rng.Intn(256)), byte(rng.Intn(256))}
}

func randIP6(rng *rand.Rand) []byte {
	b := randBytes(rng, 16)
	switch rng.Intn(4) {
	case 0:
		b[0], b[1] = 0x20, 0x01
	case 1:
		b[0], b[1] = 0xfe, 0x80
	case 2:
		copy(b, []byte{0, 0, 0, 0, 0, 0, 0, 0, 0, 0, 0xff, 0xff})
	}
	return b
}

func (s *recSpec) sorted() {
	sort.SliceStable(s.pairs, func(i, j int) bool { return s.pairs[i].k < s.pairs[j].k })
}

// content returns the RLP list [seq, k, v, ...] that is signed.
func (s *recSpec) content() []byte {
	items := [][]byte{s.seq}
	for _, p := range s.pairs {
		items = append(items, refrlp.EncodeString([]byte(p.k)), p.v)
	}
	return refrlp.EncodeListRaw(items...)
}

func (s *recSpec) sign(by *ecdsa.PrivateKey) []byte {
	sig, err := crypto.Sign(refmpt.Keccak(s.content()), by)
	if err != nil {
		panic(err)
	}
	return sig[:64]
}

func (s *recSpec) encode(sig []byte) []byte {
	items := [][]byte{refrlp.EncodeString(sig), s.seq}
	for _, p := range s.pairs {
		items = append(items, refrlp.EncodeString([]byte(p.k)), p.v)
	}
	return refrlp.EncodeListRaw(items...)
}

// padTo adds/adjusts an unknown pair so that the encoded record has exactly the given size
// (if possible); returns false if not reached.
func (s *recSpec) padTo(target int) bool {
	cur := len(s.encode(make([]byte, 64)))
	for _, p := range s.pairs {
		if p.k == "pad" {
			return false
		}
	}
	for l := 0; l < 300; l++ {
		t := *s
		t.pairs = append(append([]kv{}, s.pairs...), kv{"pad", refrlp.EncodeString(bytes.Repeat([]byte{0xaa}, l))})
		t.sorted()
		if n := len(t.encode(make([]byte, 64))); n == target {
			s.pairs = t.pairs
			return true
		} else if n > target && cur <= target {
			return false
		}
	}
	return false
}

// ---------------------------------------------------------------- reference check

// split parses one RLP header leniently (no canonical-form demands) and returns kind,
// content and total length.
func split(b []byte) (isList bool, content []byte, total int, ok bool) {
	if len(b) == 0 {
		return false, nil, 0, false
	}
	p := b[0]
	var off, n int
	switch {
	case p < 0x80:
		return false, b[:1], 1, true
	case p <= 0xb7:
		off, n = 1, int(p-0x80)
	case p <= 0xbf, p >= 0xf8:
		ll := int(p - 0xb7)
		if p >= 0xf8 {
			ll = int(p - 0xf7)
			isList = true
		}
		if len(b) < 1+ll {
			return false, nil, 0, false
		}
		var v uint64
		for _, c := range b[1 : 1+ll] {
			if v > 1<<24 {
				return false, nil, 0, false
			}
			v = v<<8 | uint64(c)
		}
		off, n = 1+ll, int(v)
	default:
		off, n, isList = 1, int(p-0xc0), true
	}
	if n < 0 || off+n > len(b) {
		return false, nil, 0, false
	}
	return isList, b[off : off+n], off + n, true
}

type refRec struct {
	seq    uint64
	keys   []string
	vals   [][]byte
	pubkey []byte
}

// refCheck recomputes the necessary conditions for accepting b as a signed node record.
// It returns "" if they hold, otherwise the name of the violated condition.
func refCheck(b []byte) (string, *refRec) {
	isList, content, total, ok := split(b)
	if !ok || !isList || total != len(b) {
		return "not-one-list", nil
	}
	if len(b) > 300 {
		return "oversize", nil
	}
	var elems [][]byte // raw elements
	var conts [][]byte
	var kinds []bool
	for rest := content; len(rest) > 0; {
		l, c, t, ok := split(rest)
		if !ok {
			return "malformed-element", nil
		}
		elems, conts, kinds = append(elems, rest[:t]), append(conts, c), append(kinds, l)
		rest = rest[t:]
	}
	if len(elems) < 2 {
		return "too-few-elements", nil
	}
	if (len(elems)-2)%2 != 0 {
		return "incomplete-pair", nil
	}
	if kinds[0] || kinds[1] || len(conts[1]) > 8 {
		return "sig-or-seq-shape", nil
	}
	rr := &refRec{}
	for _, c := range conts[1] {
		rr.seq = rr.seq<<8 | uint64(c)
	}
	for i := 2; i < len(elems); i += 2 {
		if kinds[i] {
			return "key-not-string", nil
		}
		k := string(conts[i])
		if n := len(rr.keys); n > 0 {
			if k == rr.keys[n-1] {
				return "duplicate-key", nil
			}
			if k < rr.keys[n-1] {
				return "unsorted-keys", nil
			}
		}
		rr.keys = append(rr.keys, k)
		rr.vals = append(rr.vals, elems[i+1])
	}
	// identity scheme v4
	var id, pub []byte
	for i, k := range rr.keys {
		_, c, _, _ := split(rr.vals[i])
		switch k {
		case "id":
			id = c
		case "secp256k1":
			pub = c
		}
	}
	if string(id) != "v4" {
		return "scheme-not-v4", nil
	}
	if len(pub) != 33 {
		return "no-pubkey", nil
	}
	rr.pubkey = pub
	// canonical form: signature, seq and keys re-encoded canonically (values are opaque)
	// must reproduce the input ("accepted records re-encode to the same bytes")
	canon := [][]byte{refrlp.EncodeString(conts[0]), refrlp.EncodeUint(rr.seq)}
	for i, k := range rr.keys {
		canon = append(canon, refrlp.EncodeString([]byte(k)), rr.vals[i])
	}
	if !bytes.Equal(refrlp.EncodeListRaw(canon...), b) {
		return "noncanonical", nil
	}
	// signature over [seq, k, v, ...] with the raw elements as they appear
	signed := refrlp.EncodeListRaw(elems[1:]...)
	if len(conts[0]) != 64 || !crypto.VerifySignature(pub, refmpt.Keccak(signed), conts[0]) {
		return "bad-signature", nil
	}
	return "", rr
}

// ---------------------------------------------------------------- one record case

var recMutations = []string{"none", "none", "none", "size-edge", "swap-resigned", "dup-resigned", "dup-value-resigned", "sig-flip", "value-after-sign",
	"noncanon-seq", "oversize", "scheme", "pubkey-len", "trailing", "odd-elements", "other-signer", "byte-flip", "byte-flip", "unsorted-unsigned",
	"noncanon-key", "sig-len", "nested-garbage", "truncate", "list-header"}

func recordCase(r *vrt.Run, i int) {
	rng := r.Rand("rec", i)
	s := genSpec(rng)
	s.sorted()
	mut := recMutations[rng.Intn(len(recMutations))]
	genuine := false
	var b []byte
	resign := func() []byte { return s.encode(s.sign(s.key)) }
	switch mut {
	case "none":
		b = resign()
		genuine = len(b) <= 300
	case "size-edge":
		target := 296 + rng.Intn(9)
		if !s.padTo(target) {
			mut = "none"
		}
		b = resign()
		genuine = len(b) <= 300
	case "swap-resigned":
		j := rng.Intn(len(s.pairs) - 1)
		s.pairs[j], s.pairs[j+1] = s.pairs[j+1], s.pairs[j]
		b = resign()
	case "dup-resigned":
		j := rng.Intn(len(s.pairs))
		s.pairs = append(s.pairs[:j+1], append([]kv{s.pairs[j]}, s.pairs[j+1:]...)...)
		b = resign()
	case "dup-value-resigned":
		j := rng.Intn(len(s.pairs))
		d := kv{s.pairs[j].k, randValue(rng, 0)}
		s.pairs = append(s.pairs[:j+1], append([]kv{d}, s.pairs[j+1:]...)...)
		b = resign()
	case "sig-flip":
		sig := s.sign(s.key)
		sig[rng.Intn(64)] ^= 1 << uint(rng.Intn(8))
		b = s.encode(sig)
	case "value-after-sign":
		sig := s.sign(s.key)
		j := rng.Intn(len(s.pairs))
		if s.pairs[j].k == "id" || rng.Intn(3) == 0 {
			s.seq = refrlp.EncodeUint(rng.Uint64() | 1<<40)
		} else {
			s.pairs[j].v = randValue(rng, 0)
		}
		b = s.encode(sig)
	case "noncanon-seq":
		_, c, _, _ := split(s.seq)
		if len(c) == 1 && c[0] < 0x80 && rng.Intn(2) == 0 {
			s.seq = []byte{0x81, c[0]}
		} else {
			s.seq = refrlp.EncodeString(append([]byte{0}, c...))
		}
		b = resign()
	case "oversize":
		s.padTo(301 + rng.Intn(40))
		b = resign()
		if len(b) <= 300 {
			mut = "none"
			genuine = true
		}
	case "scheme":
		switch rng.Intn(3) {
		case 0:
			s.pairs[0].v = refrlp.EncodeString([]byte("v5"))
		case 1:
			s.pairs = s.pairs[1:]
		default:
			s.pairs[0].v = refrlp.EncodeListRaw(refrlp.EncodeString([]byte("v4")))
		}
		b = resign()
	case "pubkey-len":
		for j := range s.pairs {
			if s.pairs[j].k == "secp256k1" {
				pk := crypto.CompressPubkey(&s.key.PublicKey)
				switch rng.Intn(3) {
				case 0:
					pk = pk[:32]
				case 1:
					pk = append(pk, 0)
				default:
					pk = crypto.FromECDSAPub(&s.key.PublicKey)
				}
				s.pairs[j].v = refrlp.EncodeString(pk)
			}
		}
		b = resign()
	case "trailing":
		b = append(resign(), randBytes(rng, 1+rng.Intn(3))...)
	case "odd-elements":
		sig := s.sign(s.key)
		items := [][]byte{refrlp.EncodeString(sig), s.seq}
		for _, p := range s.pairs {
			items = append(items, refrlp.EncodeString([]byte(p.k)), p.v)
		}
		items = append(items, refrlp.EncodeString([]byte("zzz")))
		b = refrlp.EncodeListRaw(items...)
	case "other-signer":
		b = s.encode(s.sign(genKey(rng)))
	case "byte-flip":
		b = resign()
		b[rng.Intn(len(b))] ^= 1 << uint(rng.Intn(8))
	case "unsorted-unsigned":
		rng.Shuffle(len(s.pairs), func(a, c int) { s.pairs[a], s.pairs[c] = s.pairs[c], s.pairs[a] })
		b = s.encode(randBytes(rng, 64))
	case "noncanon-key":
		// a one-byte key below 0x80 wrapped as 0x81 xx, signed over exactly these bytes
		s.pairs = append(s.pairs, kv{"\x05", randValue(rng, 0)})
		s.sorted()
		items := [][]byte{s.seq}
		for _, p := range s.pairs {
			ke := refrlp.EncodeString([]byte(p.k))
			if p.k == "\x05" {
				ke = []byte{0x81, 0x05}
			}
			items = append(items, ke, p.v)
		}
		sig, _ := crypto.Sign(refmpt.Keccak(refrlp.EncodeListRaw(items...)), s.key)
		b = refrlp.EncodeListRaw(append([][]byte{refrlp.EncodeString(sig[:64])}, items...)...)
	case "sig-len":
		sig := s.sign(s.key)
		switch rng.Intn(3) {
		case 0:
			sig = sig[:63]
		case 1:
			sig = append(sig, byte(rng.Intn(2)))
		default:
			sig = nil
		}
		b = s.encode(sig)
	case "nested-garbage":
		// a list value whose payload is not valid RLP; the record is signed over it. The
		// property does not forbid it (values are opaque): accepted or not, both fine.
		s.pairs = append(s.pairs, kv{"zzzz", append([]byte{0xc3}, 0x83, 0x01, 0x02)})
		s.sorted()
		b = resign()
	case "truncate":
		b = resign()
		b = b[:rng.Intn(len(b))]
	case "list-header":
		b = resign()
		_, c, _, _ := split(b)
		// non-canonical long-form list header
		b = append([]byte{0xf9, byte(len(c) >> 8), byte(len(c))}, c...)
	}
	judgeRecord(r, b, mut, genuine, s)
}

func judgeRecord(r *vrt.Run, b []byte, mut string, genuine bool, s *recSpec) {
	w := map[string]any{"record": vrt.Hex(b), "mutation": mut, "size": len(b)}
	r.Case("record %s %x", mut, b)
	var rec enr.Record
	var node *enode.Node
	var derr, nerr error
	if r.Guard("record-decode", w, func() {
		derr = rlp.DecodeBytes(b, &rec)
		if derr == nil {
			node, nerr = enode.New(enode.ValidSchemes, &rec)
		}
	}) {
		return
	}
	accepted := derr == nil && nerr == nil
	reason, rr := refCheck(b)
	r.Count("rec_"+mut, 1)
	switch {
	case accepted && reason != "":
		r.Violation("record:accepted-invalid:"+reason, fmt.Sprintf("record accepted by rlp.DecodeBytes+enode.New although the reference check says %q (mutation %s)", reason, mut), w)
	case !accepted && genuine:
		r.Violation("record:genuine-rejected", fmt.Sprintf("well-formed signed record of %d bytes rejected: decode=%v new=%v (reference: %q)", len(b), derr, nerr, reason), w)
	}
	out := "rejected"
	if accepted {
		out = "accepted"
		r.Count("rec_accepted", 1)
		enc, err := rlp.EncodeToBytes(&rec)
		if err != nil || !bytes.Equal(enc, b) {
			r.Violation("record:reencode-differs", fmt.Sprintf("re-encoding differs: %x (err %v)", enc, err), w)
		}
		enc2, err := rlp.EncodeToBytes(node.Record())
		if err != nil || !bytes.Equal(enc2, b) {
			r.Violation("record:node-record-differs", fmt.Sprintf("Node.Record() re-encoding differs: %x (err %v)", enc2, err), w)
		}
		if rr != nil {
			if node.Seq() != rr.seq || rec.Seq() != rr.seq {
				r.Violation("record:seq", fmt.Sprintf("Seq()=%d, bytes say %d", node.Seq(), rr.seq), w)
			}
			if pk, err := crypto.DecompressPubkey(rr.pubkey); err == nil {
				want := refmpt.Keccak(crypto.FromECDSAPub(pk)[1:])
				if id := node.ID(); !bytes.Equal(id[:], want) {
					r.Violation("record:node-id", fmt.Sprintf("ID()=%x want keccak(pubkey)=%x", id, want), w)
				}
				if np := node.Pubkey(); np == nil || !np.Equal(pk) {
					r.Violation("record:node-pubkey", "Pubkey() differs from the secp256k1 entry", w)
				}
			}
			checkAccessors(r, node, rr, w)
		}
		// text form round trip
		n2, err := enode.Parse(enode.ValidSchemes, node.String())
		if err != nil {
			r.Violation("record:text-roundtrip", fmt.Sprintf("enode.Parse(node.String()) failed: %v", err), w)
		} else if e3, _ := rlp.EncodeToBytes(n2.Record()); !bytes.Equal(e3, b) || n2.ID() != node.ID() {
			r.Violation("record:text-roundtrip", "enode.Parse(node.String()) gives a different record", w)
		}
	}
	if genuine {
		r.Count("rec_genuine", 1)
	}
	sizeB := "small"
	switch {
	case len(b) > 300:
		sizeB = "over"
	case len(b) >= 296:
		sizeB = "edge"
	case len(b) > 200:
		sizeB = "large"
	}
	np := 0
	if s != nil {
		np = len(s.pairs)
	}
	r.Eval(fmt.Sprintf("rec/%s/%s/%s/%s/p%d", mut, out, reason, sizeB, min(np, 8)))
	if mut == "none" && r.WantSample() {
		r.Sample(w)
	}
}

// checkAccessors compares the endpoint accessors with the entries, for the unambiguous
// situations only (IPv4 entry alone, or no IP entry at all).
func checkAccessors(r *vrt.Run, node *enode.Node, rr *refRec, w map[string]any) {
	get := func(k string) ([]byte, bool, bool) {
		for i, kk := range rr.keys {
			if kk == k {
				l, c, _, _ := split(rr.vals[i])
				return c, l, true
			}
		}
		return nil, false, false
	}
	ip4, l4, has4 := get("ip")
	_, _, has6 := get("ip6")
	port := func(k string) (int, bool) {
		c, l, ok := get(k)
		if !ok || l || len(c) > 2 || (len(c) > 0 && c[0] == 0) {
			return 0, false
		}
		v := 0
		for _, x := range c {
			v = v<<8 | int(x)
		}
		return v, true
	}
	switch {
	case has4 && !has6 && !l4 && len(ip4) == 4:
		a := netip.AddrFrom4([4]byte(ip4))
		if a.IsMulticast() {
			if node.IPAddr().IsValid() {
				r.Violation("record:accessor-ip", fmt.Sprintf("IPAddr()=%v for a multicast ip entry", node.IPAddr()), w)
			}
			return
		}
		r.Count("rec_accessor_checks", 1)
		if node.IPAddr() != a {
			r.Violation("record:accessor-ip", fmt.Sprintf("IPAddr()=%v, entry says %v", node.IPAddr(), a), w)
		}
		if p, ok := port("udp"); ok && node.UDP() != p {
			r.Violation("record:accessor-udp", fmt.Sprintf("UDP()=%d, entry says %d", node.UDP(), p), w)
		}
		if p, ok := port("tcp"); ok && node.TCP() != p {
			r.Violation("record:accessor-tcp", fmt.Sprintf("TCP()=%d, entry says %d", node.TCP(), p), w)
		}
	case !has4 && !has6:
		r.Count("rec_accessor_checks", 1)
		if node.IPAddr().IsValid() {
			r.Violation("record:accessor-ip", fmt.Sprintf("IPAddr()=%v without any ip entry", node.IPAddr()), w)
		}
	}
}

// differentialCase signs a record with geth's own enode.SignV4 and checks that the
// reference agrees it is valid (guards the reference against drift).
func differentialCase(r *vrt.Run, i int) {
	rng := r.Rand("diff", i)
	key := genKey(rng)
	var rec enr.Record
	rec.SetSeq(seqChoices[rng.Intn(len(seqChoices))])
	if rng.Intn(2) == 0 {
		rec.Set(enr.IPv4Addr(netip.AddrFrom4([4]byte(randIP4(rng)))))
	}
	if rng.Intn(2) == 0 {
		rec.Set(enr.UDP(rng.Intn(65536)))
	}
	if rng.Intn(2) == 0 {
		rec.Set(enr.TCP(rng.Intn(65536)))
	}
	if rng.Intn(3) == 0 {
		rec.Set(enr.WithEntry(unknownKeys[1+rng.Intn(8)], randBytes(rng, rng.Intn(40))))
	}
	r.Case("diff record %d", i)
	if err := enode.SignV4(&rec, key); err != nil {
		r.Eval("")
		return
	}
	b, err := rlp.EncodeToBytes(&rec)
	if err != nil {
		r.Violation("record:signed-unencodable", err.Error(), nil)
		return
	}
	if reason, _ := refCheck(b); reason != "" {
		r.Violation("record:signv4-vs-reference:"+reason, fmt.Sprintf("record produced by enode.SignV4 fails the reference check: %s", reason), map[string]any{"record": vrt.Hex(b)})
	}
	judgeRecord(r, b, "signv4", true, nil)
}
