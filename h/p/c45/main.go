// C45: discovery packets and node records are authenticated and canonical.
package main

import (
	"verif/lib/vrt"
)

func main() { vrt.Main("C45", run) }

func run(r *vrt.Run) {
	r.Rule("records: a case is one byte string built from a random record (0-12 pairs incl. id/secp256k1/ip/ip6/tcp/udp/unknown keys, values of all RLP shapes, boundary sequence numbers, sizes around 300) with one of 22 mutations (re-signed unsorted/duplicate pairs, signature/value changes, non-canonical forms, size, scheme, key length, truncation ...); signature = (mutation, accepted/rejected, reference reason, size class, pair count). wire: a case is one operation inside a scenario of 2-30 operations between three codecs sharing a simulated clock (messages of all six types with boundary field sizes, handshakes with lost WHOAREYOU/handshake packets and timeouts, tampering by region, cross-session replay, misdelivery with re-masking, superseded/tampered challenges, handshake replay, impostor key, restart, garbage); signature = (operation, packet type or tamper kind+region, outcome class)")

	nRec := r.N(20000, 2000000)
	nDiff := r.N(1500, 60000)
	nWire := r.N(1500, 100000)
	nRnd := r.N(40, 2000)
	if r.Race() {
		nRec, nDiff, nWire, nRnd = nRec/8, nDiff/8, nWire/8, nRnd/8
	}
	r.Logf("records")
	vrt.Par(nRec, 0, func(i int) { recordCase(r, i) })
	vrt.Par(nDiff, 0, func(i int) { differentialCase(r, i) })
	r.Logf("wire sessions")
	vrt.Par(nWire, 0, func(i int) { wireCase(r, i) })
	vrt.Par(nRnd, 0, func(i int) { randomDecode(r, i) })

	r.Require("rec_genuine", int64(nRec/10))
	r.Require("rec_accepted", int64(nRec/10))
	r.Require("rec_swap-resigned", 50)
	r.Require("rec_dup-resigned", 50)
	r.Require("hs_ok", int64(nWire))
	r.Require("pos_msg", int64(nWire))
	for _, k := range []string{"neg_tampered-msg", "neg_replay-old-session", "neg_wrong-recipient", "neg_wrong-challenge", "neg_tampered-handshake", "neg_replay-handshake", "neg_impostor-handshake", "neg_out-of-sync", "neg_id-mismatch-handshake", "pos_crafted-handshake"} {
		r.Require(k, int64(nWire/60))
	}
	r.Assume("reference: lenient RLP splitter + refrlp canonical encoder + refmpt.Keccak; crypto.Sign/VerifySignature/DecompressPubkey (secp256k1) are trusted")
	r.Assume("the harness model of which codecs share session keys (a handshake packet replaces the initiator's keys when it is encoded)")
}
