// C09: range proofs accept exactly the true ranges.
//
// For random tries with fixed-length keys every honest run (start key, contiguous entries
// [i..j], Prove(start) ∪ Prove(last key)) must be accepted by VerifyRangeProof with
// more == (the trie holds a key beyond the run); empty runs must be accepted exactly when no
// entry lies at or after the start key; whole-trie runs without proof likewise. Tampered runs
// (dropped / injected / altered / swapped / duplicated entries, shifted start key, extended
// runs, proof-node subsets) are judged by one rule: if the run differs from the trie's true
// content over [start, last key] it must be rejected; if it is accepted, `more` must be
// right. A superset of inputs (variable-length and unsorted keys, empty values, arbitrary
// start keys, arbitrary subsets of genuine nodes) is only required not to panic.
package main

import (
	"bytes"
	"errors"
	"fmt"
	"math/rand"
	"sort"

	"github.com/ethereum/go-ethereum/common"
	"github.com/ethereum/go-ethereum/ethdb"
	"github.com/ethereum/go-ethereum/trie"

	"verif/lib/refmpt"
	"verif/lib/trieh"
	"verif/lib/vrt"
)

func main() { vrt.Main("C09", run) }

type proofDB map[string][]byte

func (p proofDB) Put(k, v []byte) error { p[string(k)] = common.CopyBytes(v); return nil }
func (p proofDB) Delete(k []byte) error { delete(p, string(k)); return nil }
func (p proofDB) Has(k []byte) (bool, error) {
	_, ok := p[string(k)]
	return ok, nil
}
func (p proofDB) Get(k []byte) ([]byte, error) {
	if v, ok := p[string(k)]; ok {
		return v, nil
	}
	return nil, errors.New("not found")
}
func (p proofDB) clone() proofDB {
	c := make(proofDB, len(p))
	for k, v := range p {
		c[k] = v
	}
	return c
}
func (p proofDB) sortedKeys() []string {
	ks := make([]string, 0, len(p))
	for k := range p {
		ks = append(ks, k)
	}
	sort.Strings(ks)
	return ks
}
func (p proofDB) hex() map[string]string {
	m := map[string]string{}
	for k, v := range p {
		m[vrt.Hex([]byte(k))] = vrt.Hex(v)
	}
	return m
}

type rcase struct {
	r    *vrt.Run
	idx  int
	rng  *rand.Rand
	kind string
	klen int
	m    map[string][]byte
	ref  *refmpt.Trie
	keys [][]byte // sorted
	vals [][]byte
	tr   *trie.Trie
	root common.Hash
	all  proofDB
	cnt  map[string]int
	sigs map[string]struct{}
}

func (c *rcase) count(n string, k int) { c.cnt[n] += k }

func hexes(bs [][]byte) []string {
	out := make([]string, len(bs))
	for i, b := range bs {
		out[i] = vrt.Hex(b)
	}
	return out
}

func (c *rcase) witness(first []byte, ks, vs [][]byte, proof proofDB, noProof bool, extra map[string]any) map[string]any {
	w := map[string]any{"trie": c.idx, "kind": c.kind, "root": c.root.Hex(), "first_key": vrt.Hex(first), "no_proof": noProof,
		"replay": fmt.Sprintf("VERIF_SEED=%d stream \"trie\" index %d", c.r.Seed, c.idx)}
	if len(c.keys) <= 300 {
		w["trie_entries"] = trieh.HexMap(c.m, 300)
	}
	if len(ks) <= 300 {
		w["run_keys"], w["run_values"] = hexes(ks), hexes(vs)
	} else {
		w["run_len"] = len(ks)
	}
	if proof != nil && len(proof) <= 80 {
		w["proof"] = proof.hex()
	}
	for k, v := range extra {
		w[k] = v
	}
	return w
}

func (c *rcase) prove(keys ...[]byte) proofDB {
	db := proofDB{}
	for _, k := range keys {
		if err := c.tr.Prove(k, db); err != nil {
			c.r.Violation("prove-error", fmt.Sprintf("trie %d: Prove(%x): %v", c.idx, k, err), nil)
		}
	}
	return db
}

// call runs VerifyRangeProof, converting a panic into a violation.
func (c *rcase) call(what string, first []byte, ks, vs [][]byte, proof proofDB, noProof bool) (more bool, err error, panicked bool) {
	var rd ethdb.KeyValueReader
	if !noProof {
		rd = proof
	}
	perr, stack := vrt.Recover(func() { more, err = trie.VerifyRangeProof(c.root, first, ks, vs, rd) })
	c.count("verifications", 1)
	if perr != nil {
		c.count("panics", 1)
		c.r.Violation("C09:panic:"+vrt.PanicSite(stack)+"/"+c.domain(first, ks), fmt.Sprintf("trie %d (%s): VerifyRangeProof panicked on %s: %v\n%s", c.idx, c.kind, what, perr, stack),
			c.witness(first, ks, vs, proof, noProof, map[string]any{"input": what}))
		return false, nil, true
	}
	return
}

// domain tells whether start key and run keys all have the trie's key length ("emptykey":
// the run contains a zero-length key).
func (c *rcase) domain(first []byte, ks [][]byte) string {
	for _, k := range ks {
		if len(k) == 0 {
			return "emptykey"
		}
	}
	if len(first) != c.klen {
		return "varlen"
	}
	for _, k := range ks {
		if len(k) != c.klen {
			return "varlen"
		}
	}
	return "fixedlen"
}

// truthful: does the run equal the trie's content over [first, last key] (whole trie when
// no proof is given; for an empty run: no entry at or after first)?
func (c *rcase) truthful(first []byte, ks, vs [][]byte, noProof bool) bool {
	if len(ks) != len(vs) {
		return false
	}
	var want []refmpt.KV
	switch {
	case noProof:
		want = c.ref.Sorted
	case len(ks) == 0:
		lo := sort.Search(len(c.keys), func(i int) bool { return bytes.Compare(c.keys[i], first) >= 0 })
		return lo == len(c.keys)
	default:
		last := ks[len(ks)-1]
		lo := sort.Search(len(c.keys), func(i int) bool { return bytes.Compare(c.keys[i], first) >= 0 })
		hi := sort.Search(len(c.keys), func(i int) bool { return bytes.Compare(c.keys[i], last) > 0 })
		if lo > hi {
			return false
		}
		want = c.ref.Sorted[lo:hi]
	}
	if len(want) != len(ks) {
		return false
	}
	for i := range ks {
		if !bytes.Equal(ks[i], want[i].K) || !bytes.Equal(vs[i], want[i].V) {
			return false
		}
	}
	return true
}

func (c *rcase) moreAfter(ks [][]byte, noProof bool) bool {
	if noProof || len(ks) == 0 {
		return false
	}
	last := ks[len(ks)-1]
	hi := sort.Search(len(c.keys), func(i int) bool { return bytes.Compare(c.keys[i], last) > 0 })
	return hi < len(c.keys)
}

func lenClass(n int) string {
	switch {
	case n == 0:
		return "0"
	case n == 1:
		return "1"
	case n == 2:
		return "2"
	case n <= 8:
		return "3to8"
	case n <= 64:
		return "9to64"
	default:
		return "gt64"
	}
}

// judge applies the rule to one call. honest = the proof is exactly Prove(first) ∪
// Prove(last key) (or absent for whole-trie runs) and the run is truthful, so that
// rejection is a violation as well.
func (c *rcase) judge(kind, edge string, first []byte, ks, vs [][]byte, proof proofDB, noProof, honest bool) {
	dom := c.domain(first, ks)
	more, err, panicked := c.call(kind, first, ks, vs, proof, noProof)
	if panicked {
		return
	}
	decision := "rejected"
	if err == nil {
		decision = "accepted"
	}
	if dom == "fixedlen" {
		truth := c.truthful(first, ks, vs, noProof)
		switch {
		case err == nil && !truth:
			c.r.Violation("forged-range-accepted/"+kind, fmt.Sprintf("trie %d (%s, %d entries): VerifyRangeProof accepted a run (%s, %d keys, start %x) that differs from the trie's content over the covered interval", c.idx, c.kind, len(c.keys), kind, len(ks), first),
				c.witness(first, ks, vs, proof, noProof, map[string]any{"tamper": kind, "more": more}))
		case err == nil && more != c.moreAfter(ks, noProof):
			c.r.Violation("wrong-more-flag/"+kind, fmt.Sprintf("trie %d (%s, %d entries): VerifyRangeProof accepted the run (%s, %d keys) with more=%v, but the trie %s keys beyond %x", c.idx, c.kind, len(c.keys), kind, len(ks), more,
				map[bool]string{true: "holds", false: "holds no"}[c.moreAfter(ks, noProof)], lastOf(ks)), c.witness(first, ks, vs, proof, noProof, map[string]any{"tamper": kind, "more": more}))
		case err != nil && honest:
			if !truth {
				c.r.Violation("harness:honest-run-not-truthful", "internal error: an honest run is not truthful", c.witness(first, ks, vs, proof, noProof, nil))
				return
			}
			c.r.Violation("honest-range-rejected/"+kind+"/"+edge, fmt.Sprintf("trie %d (%s, %d entries): VerifyRangeProof rejected an honest run (%s, start %x [%s], %d keys): %v", c.idx, c.kind, len(c.keys), kind, first, edge, len(ks), err),
				c.witness(first, ks, vs, proof, noProof, map[string]any{"error": err.Error()}))
		}
		if truth {
			decision += "-true-run"
		} else {
			decision += "-false-run"
		}
		if honest {
			c.count("honest_runs", 1)
			if more {
				c.count("honest_runs_more_true", 1)
			} else {
				c.count("honest_runs_more_false", 1)
			}
		} else {
			c.count("tampered_runs", 1)
			c.count("tampered_"+decision, 1)
			c.count("tamper_"+kind, 1)
		}
	} else {
		c.count("panic_only_calls", 1)
	}
	c.sigs[fmt.Sprintf("%s/n%s/%s/%s/run%s/%s/%s", c.kind, lenClass(len(c.keys)), dom, edge, lenClass(len(ks)), kind, decision)] = struct{}{}
}

func lastOf(ks [][]byte) []byte {
	if len(ks) == 0 {
		return nil
	}
	return ks[len(ks)-1]
}

func inc(k []byte, d int) []byte {
	o := common.CopyBytes(k)
	for i := len(o) - 1; i >= 0; i-- {
		o[i] += byte(d)
		if (d > 0 && o[i] != 0) || (d < 0 && o[i] != 0xff) {
			break
		}
	}
	return o
}

// between returns a key strictly between a and b (a < b, equal length) if one exists.
func (c *rcase) between(a, b []byte) ([]byte, bool) {
	x := inc(a, 1)
	if bytes.Compare(x, a) > 0 && bytes.Compare(x, b) < 0 {
		if y := inc(b, -1); c.rng.Intn(2) == 0 && bytes.Compare(y, a) > 0 && bytes.Compare(y, b) < 0 {
			return y, true
		}
		return x, true
	}
	return nil, false
}

// starts lists honest start keys for a run beginning at entry i: the key itself and keys in
// the gap before it (non-existent edges), incl. all-zero for i == 0.
func (c *rcase) starts(i int) (out [][]byte, kinds []string) {
	out, kinds = append(out, c.keys[i]), append(kinds, "first=key")
	lo := make([]byte, c.klen) // all-zero
	if i > 0 {
		lo = c.keys[i-1]
		if g, ok := c.between(lo, c.keys[i]); ok {
			out, kinds = append(out, g), append(kinds, "first-in-gap")
		}
	} else if bytes.Compare(lo, c.keys[0]) < 0 {
		out, kinds = append(out, lo), append(kinds, "first=zero")
		if g, ok := c.between(lo, c.keys[0]); ok {
			out, kinds = append(out, g), append(kinds, "first-before-all")
		}
	}
	return
}

func (c *rcase) honest(i, j int, allStarts bool) {
	sts, kinds := c.starts(i)
	if !allStarts && len(sts) > 1 {
		p := c.rng.Intn(len(sts))
		sts, kinds = sts[p:p+1], kinds[p:p+1]
	}
	for s, first := range sts {
		ks, vs := c.keys[i:j+1], c.vals[i:j+1]
		proof := c.prove(first, c.keys[j])
		c.judge("honest", kinds[s], first, ks, vs, proof, false, true)
	}
}

func (c *rcase) emptyRuns() {
	ones := bytes.Repeat([]byte{0xff}, c.klen)
	zero := make([]byte, c.klen)
	cands := [][]byte{ones, zero, inc(c.keys[len(c.keys)-1], 1), c.keys[len(c.keys)-1], c.keys[c.rng.Intn(len(c.keys))], inc(c.keys[c.rng.Intn(len(c.keys))], 1)}
	names := []string{"first=ones", "first=zero", "first=after-last", "first=last-key", "first=key", "first=key+1"}
	for x, first := range cands {
		proof := c.prove(first)
		truth := c.truthful(first, nil, nil, false)
		// an empty run with the honest proof is "honest" exactly when it is truthful
		c.judge("empty-run", names[x], first, nil, nil, proof, false, truth)
		if truth {
			c.count("empty_runs_true", 1)
		} else {
			c.count("empty_runs_false", 1)
		}
	}
}

func (c *rcase) wholeTrie() {
	c.judge("whole-trie-no-proof", "none", c.keys[0], c.keys, c.vals, nil, true, true)
	c.judge("whole-trie-no-proof", "none", nil, c.keys, c.vals, nil, true, true)
	if len(c.keys) > 1 {
		p := c.rng.Intn(len(c.keys))
		ks := append(append([][]byte{}, c.keys[:p]...), c.keys[p+1:]...)
		vs := append(append([][]byte{}, c.vals[:p]...), c.vals[p+1:]...)
		c.judge("whole-trie-one-missing-no-proof", "none", ks[0], ks, vs, nil, true, false)
	}
	// whole trie with edge proofs
	c.judge("honest", "first=key", c.keys[0], c.keys, c.vals, c.prove(c.keys[0], c.keys[len(c.keys)-1]), false, true)
}

// absentKey returns a key of the trie's length that is not in the trie, near k.
func (c *rcase) absentKey(k []byte) ([]byte, bool) {
	for t := 0; t < 8; t++ {
		x := common.CopyBytes(k)
		switch c.rng.Intn(3) {
		case 0:
			x = inc(x, 1+c.rng.Intn(3))
		case 1:
			x[len(x)-1] ^= byte(1 + c.rng.Intn(255))
		default:
			p := c.rng.Intn(2 * len(x))
			x[p/2] ^= byte(1+c.rng.Intn(15)) << (4 * uint(1-p%2))
		}
		if _, ok := c.m[string(x)]; !ok {
			return x, true
		}
	}
	return nil, false
}

func insertSorted(ks, vs [][]byte, k, v []byte) ([][]byte, [][]byte) {
	p := sort.Search(len(ks), func(i int) bool { return bytes.Compare(ks[i], k) >= 0 })
	nk := append(append(append([][]byte{}, ks[:p]...), k), ks[p:]...)
	nv := append(append(append([][]byte{}, vs[:p]...), v), vs[p:]...)
	return nk, nv
}

// tamper derives dishonest inputs from the honest run [i..j] with start key first.
func (c *rcase) tamper(i, j int) {
	sts, kinds := c.starts(i)
	s := c.rng.Intn(len(sts))
	first, edge := sts[s], kinds[s]
	ks0, vs0 := c.keys[i:j+1], c.vals[i:j+1]
	proof := c.prove(first, c.keys[j])
	n := len(ks0)
	cp := func() ([][]byte, [][]byte) {
		return append([][]byte{}, ks0...), append([][]byte{}, vs0...)
	}
	for t := 0; t < 4; t++ {
		ks, vs := cp()
		pf := proof
		f := first
		kind := ""
		switch c.rng.Intn(14) {
		case 0: // drop one entry (any position)
			p := c.rng.Intn(n)
			ks, vs = append(ks[:p], ks[p+1:]...), append(vs[:p], vs[p+1:]...)
			kind = "drop"
			if p == n-1 {
				kind = "drop-last"
			} else if p == 0 {
				kind = "drop-first"
			}
		case 1: // drop one entry and re-prove the new last key
			p := c.rng.Intn(n)
			ks, vs = append(ks[:p], ks[p+1:]...), append(vs[:p], vs[p+1:]...)
			kind = "drop+reprove"
			if len(ks) > 0 {
				pf = c.prove(f, ks[len(ks)-1])
			}
		case 2: // inject an absent key inside the run / gap
			if x, ok := c.absentKey(ks[c.rng.Intn(n)]); ok {
				ks, vs = insertSorted(ks, vs, x, c.vals[c.rng.Intn(len(c.vals))])
				kind = "inject"
				if c.rng.Intn(2) == 0 {
					pf = c.prove(f, ks[len(ks)-1])
					kind = "inject+reprove"
				}
			}
		case 3: // alter a value
			p := c.rng.Intn(n)
			v := common.CopyBytes(vs[p])
			switch c.rng.Intn(3) {
			case 0:
				v[c.rng.Intn(len(v))] ^= 1 << uint(c.rng.Intn(8))
			case 1:
				v = append(v, 0)
			default:
				v = c.vals[c.rng.Intn(len(c.vals))]
			}
			if !bytes.Equal(v, vs[p]) {
				vs[p] = v
				kind = "alter-value"
			}
		case 4: // swap two
			if n >= 2 {
				a, b := c.rng.Intn(n), c.rng.Intn(n)
				if a != b {
					ks[a], ks[b] = ks[b], ks[a]
					vs[a], vs[b] = vs[b], vs[a]
					kind = "swap"
				}
			}
		case 5: // swap values only
			if n >= 2 {
				a, b := c.rng.Intn(n), c.rng.Intn(n)
				if !bytes.Equal(vs[a], vs[b]) {
					vs[a], vs[b] = vs[b], vs[a]
					kind = "swap-values"
				}
			}
		case 6: // duplicate
			p := c.rng.Intn(n)
			ks = append(ks[:p+1], ks[p:]...)
			vs = append(vs[:p+1], vs[p:]...)
			kind = "duplicate"
		case 7: // extend beyond the last key with true entries, proof not updated
			if j+1 < len(c.keys) {
				e := j + 1 + c.rng.Intn(min(3, len(c.keys)-j-1))
				ks, vs = c.keys[i:e+1], c.vals[i:e+1]
				kind = "extend-true-stale-proof"
			}
		case 8: // extend with an absent key beyond last
			if x, ok := c.absentKey(inc(ks[n-1], 1)); ok && bytes.Compare(x, ks[n-1]) > 0 {
				ks, vs = append(ks, x), append(vs, c.vals[c.rng.Intn(len(c.vals))])
				kind = "extend-false"
				if c.rng.Intn(2) == 0 {
					pf = c.prove(f, x)
					kind = "extend-false+reprove"
				}
			}
		case 9: // shift the start key to the left over earlier entries
			if i > 0 {
				p := c.rng.Intn(i)
				f = c.keys[p]
				if c.rng.Intn(2) == 0 {
					f = inc(f, -1)
				}
				kind = "shift-first-left"
				if c.rng.Intn(2) == 0 {
					pf = c.prove(f, ks[n-1])
					kind = "shift-first-left+reprove"
				}
			}
		case 10: // shift the start key to the right of the first entry
			if n >= 2 {
				f = c.keys[i+1+c.rng.Intn(n-1)]
				pf = c.prove(f, ks[n-1])
				kind = "shift-first-right"
			}
		case 11: // remove proof nodes
			pf = proof.clone()
			for _, k := range proof.sortedKeys() {
				if c.rng.Intn(3) == 0 {
					delete(pf, k)
				}
			}
			if len(pf) != len(proof) {
				kind = "proof-subset"
			}
		case 12: // bloated proof: all nodes of the trie
			pf = c.all
			kind = "proof-all-nodes"
			if c.rng.Intn(2) == 0 && n > 1 {
				p := c.rng.Intn(n)
				ks, vs = append(ks[:p], ks[p+1:]...), append(vs[:p], vs[p+1:]...)
				kind = "drop+proof-all-nodes"
			}
		default: // interior gap: drop a middle slice
			if n >= 3 {
				a := 1 + c.rng.Intn(n-2)
				b := a + 1 + c.rng.Intn(n-1-a)
				ks, vs = append(ks[:a], ks[b:]...), append(vs[:a], vs[b:]...)
				kind = "drop-slice"
			}
		}
		if kind == "" {
			continue
		}
		c.judge(kind, edge, f, ks, vs, pf, false, false)
	}
}

// hostile feeds inputs from the superset (panic check only, forged acceptance still judged
// when everything has the trie's key length).
func (c *rcase) hostile() {
	rk := func() []byte {
		switch c.rng.Intn(5) {
		case 0:
			k := make([]byte, c.rng.Intn(c.klen+3))
			c.rng.Read(k)
			return k
		case 1:
			k := c.keys[c.rng.Intn(len(c.keys))]
			return k[:c.rng.Intn(len(k)+1)]
		case 2:
			return append(common.CopyBytes(c.keys[c.rng.Intn(len(c.keys))]), byte(c.rng.Intn(256)))
		case 3:
			return inc(c.keys[c.rng.Intn(len(c.keys))], c.rng.Intn(3)-1)
		default:
			return c.keys[c.rng.Intn(len(c.keys))]
		}
	}
	for t := 0; t < 12; t++ {
		n := c.rng.Intn(6)
		var ks, vs [][]byte
		for x := 0; x < n; x++ {
			ks = append(ks, rk())
			v := c.vals[c.rng.Intn(len(c.vals))]
			if c.rng.Intn(10) == 0 {
				v = nil
			}
			vs = append(vs, v)
		}
		if c.rng.Intn(3) != 0 {
			sort.Slice(ks, func(a, b int) bool { return bytes.Compare(ks[a], ks[b]) < 0 })
		}
		first := rk()
		if c.rng.Intn(2) == 0 && len(ks) > 0 && bytes.Compare(first, ks[0]) > 0 {
			first = ks[0]
		}
		if c.rng.Intn(6) == 0 {
			first = nil
		}
		var pf proofDB
		switch c.rng.Intn(4) {
		case 0:
			pf = c.all
		case 1:
			pf = proofDB{}
			for _, k := range c.all.sortedKeys() {
				if c.rng.Intn(2) == 0 {
					pf[k] = c.all[k]
				}
			}
		case 2:
			pf = c.prove(first)
			if len(ks) > 0 {
				pf = c.prove(first, ks[len(ks)-1])
			}
		default:
			pf = c.prove(rk(), rk())
		}
		if c.rng.Intn(12) == 0 && len(vs) > 0 {
			vs = vs[:len(vs)-1] // length mismatch
		}
		c.judge("hostile", "arbitrary", first, ks, vs, pf, c.rng.Intn(15) == 0, false)
	}
}

var trieKinds = []string{"single", "pair", "dense2", "h32", "h32-deep", "fixed4", "small-fixed", "h32", "dense2", "h32-deep"}

func runTrie(r *vrt.Run, idx int) {
	rng := r.Rand("trie", idx)
	kind := trieKinds[idx%len(trieKinds)]
	c := &rcase{r: r, idx: idx, rng: rng, kind: kind, m: map[string][]byte{}, cnt: map[string]int{}, sigs: map[string]struct{}{}}
	sizes := []int{3, 5, 9, 17, 33, 64, 200, 600}
	if !r.Quick() {
		sizes = append(sizes, 1500, 4096)
	}
	size := sizes[rng.Intn(len(sizes))]
	var sp *trieh.Space
	switch kind {
	case "single", "pair":
		size = map[string]int{"single": 1, "pair": 2}[kind]
		sp = trieh.NewSpace(rng, []string{"h32", "fixed4", "small-fixed", "h32-deep"}[rng.Intn(4)], 8)
	case "dense2":
		sp = trieh.NewSpace(rng, "h32", 2) // value generator only
		p := byte(rng.Intn(256))
		dens := 30 + rng.Intn(71)
		sp.Keys = nil
		for x := 0; x < 256; x++ {
			if rng.Intn(100) < dens {
				sp.Keys = append(sp.Keys, []byte{p, byte(x)})
			}
		}
		if len(sp.Keys) == 0 {
			sp.Keys = [][]byte{{p, 0}}
		}
		size = len(sp.Keys)
	default:
		sp = trieh.NewSpace(rng, kind, size)
	}
	r.Case("C09 trie %d kind=%s size=%d", idx, kind, size)
	store := trieh.NewStore()
	tr := trie.NewEmpty(store)
	for i := 0; i < size && i < len(sp.Keys); i++ {
		v := sp.Val(rng)
		tr.MustUpdate(sp.Keys[i], v)
		c.m[string(sp.Keys[i])] = v
	}
	if rng.Intn(2) == 0 {
		root, set := tr.Commit(false)
		store.Apply(set)
		var err error
		if tr, err = trie.New(trie.TrieID(root), store); err != nil {
			r.Violation("reopen-error", err.Error(), nil)
			return
		}
	}
	c.tr = tr
	c.ref = refmpt.Build(c.m)
	c.root = tr.Hash()
	if !bytes.Equal(c.root[:], c.ref.Root) {
		r.Violation("root-vs-reference", fmt.Sprintf("trie %d root %x reference %x", idx, c.root, c.ref.Root), nil)
		return
	}
	for _, kv := range c.ref.Sorted {
		c.keys = append(c.keys, kv.K)
		c.vals = append(c.vals, kv.V)
	}
	c.klen = len(c.keys[0])
	c.all = proofDB{}
	for h, b := range c.ref.HashedNodes() {
		c.all[h] = b
	}
	n := len(c.keys)
	// honest runs: all boundaries for small tries, sampled otherwise
	if n <= 64 {
		for i := 0; i < n; i++ {
			for j := i; j < n; j++ {
				c.honest(i, j, n <= 24)
			}
		}
		c.count("tries_all_boundaries", 1)
	} else {
		for t := 0; t < 250; t++ {
			i := rng.Intn(n)
			l := 1 + rng.Intn(8)
			switch rng.Intn(6) {
			case 0:
				l = 1
			case 1:
				l = 1 + rng.Intn(64)
			case 2:
				l = 1 + rng.Intn(n)
			}
			if rng.Intn(8) == 0 {
				i = 0
			}
			j := min(n-1, i+l-1)
			if rng.Intn(8) == 0 {
				j = n - 1
			}
			c.honest(i, j, false)
		}
	}
	c.emptyRuns()
	c.wholeTrie()
	nt := 60
	if n == 1 {
		nt = 10
	}
	for t := 0; t < nt; t++ {
		i := rng.Intn(n)
		j := min(n-1, i+rng.Intn(12))
		if rng.Intn(10) == 0 {
			j = min(n-1, i+rng.Intn(n))
		}
		c.tamper(i, j)
	}
	c.hostile()

	for k, v := range c.cnt {
		r.Count(k, v)
	}
	r.Count("tries", 1)
	r.Count("tries_"+kind, 1)
	for s := range c.sigs {
		r.EvalN(s, 0)
	}
	r.EvalN("", c.cnt["verifications"])
	if r.WantSample() && n >= 3 && n <= 6 {
		first := c.keys[1]
		r.Sample(c.witness(first, c.keys[1:3], c.vals[1:3], c.prove(first, c.keys[2]), false, map[string]any{"expected": "accepted", "expected_more": n > 3}))
	}
}

func run(r *vrt.Run) {
	r.Rule("a case is one VerifyRangeProof call on a random fixed-key-length trie (single entry, pair, dense 2-byte keys with a common prefix, random and prefix-sharing 32-byte keys, dense 3/4-byte keys; 1..600 entries, thorough to 4096); honest runs for ALL (i,j) boundaries of tries <= 64 entries (sampled above) with start key = first key / inside the preceding gap / all-zero / before all keys; empty runs; whole-trie runs without proof; tamperings (drop, drop-last, inject, alter value, swap, duplicate, extend, shift start key, proof subsets, bloated proof); hostile superset (variable-length/unsorted keys, empty values, arbitrary start key, arbitrary subsets of genuine nodes). non-trivial signature = (trie kind, size class, key-length domain, start-key kind, run length class, tamper kind, decision x truthfulness)")
	n := r.N(300, 10000)
	vrt.Par(n, 0, func(i int) { runTrie(r, i) })
	r.Require("honest_runs", 20000)
	r.Require("honest_runs_more_true", 1000)
	r.Require("honest_runs_more_false", 1000)
	r.Require("tampered_rejected-false-run", 10000)
	r.Require("empty_runs_true", 100)
	r.Require("empty_runs_false", 100)
	r.Require("tries_all_boundaries", 50)
	r.Require("panic_only_calls", 500)
	r.Assume("shadow map / lib/refmpt as the truth about the trie's content; proofs are produced by Trie.Prove (judged by C08)")
	r.Assume("the accept/reject verdict is restricted to inputs whose start key and run keys have the trie's key length (VerifyRangeProof requires equal-length edge keys); other inputs are only required not to panic")
}
