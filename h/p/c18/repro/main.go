//go:build verif

// Standalone reproduction of the three C18 known findings (pathdb history indexing).
// Run: . /verif/env.sh; cd /verif/h; $GO run -tags verif ./p/c18/repro
package main

import (
	"fmt"
	"math/big"
	"math/rand"
	"os"
	"strings"
	"time"

	"github.com/ethereum/go-ethereum/core/rawdb"
	"github.com/ethereum/go-ethereum/log"
	"github.com/ethereum/go-ethereum/triedb/pathdb"

	"verif/lib/statehist"
)

type env struct {
	h     *statehist.History
	db    *pathdb.Database
	chain []*statehist.State
	close func()
}

func open(trienode bool) *env {
	dir, _ := os.MkdirTemp("/dev/shm", "c18repro")
	disk, err := rawdb.Open(rawdb.NewMemoryDatabase(), rawdb.OpenOptions{Ancient: dir})
	if err != nil {
		panic(err)
	}
	th := int64(-1)
	if trienode {
		th = 0
	}
	db := pathdb.New(disk, &pathdb.Config{NoAsyncFlush: true, NoAsyncGeneration: true, StateHistory: 0, TrienodeHistory: th,
		FullValueCheckpoint: 4, EnableStateIndexing: true, NoHistoryIndexDelay: true}, false)
	h := statehist.New(statehist.Config{Accounts: 4, Slots: 2}, rand.New(rand.NewSource(1)))
	e := &env{h: h, db: db, chain: []*statehist.State{h.Genesis()}}
	e.close = func() { db.Close(); disk.Close(); os.RemoveAll(dir) }
	// wait for the initial indexing pass (readers are refused until then)
	for i := 0; i < 3000; i++ {
		if _, err := db.HistoricReader(h.Genesis().Root); err == nil || !strings.Contains(err.Error(), "indexed yet") {
			break
		}
		time.Sleep(10 * time.Millisecond)
	}
	return e
}

// push feeds the transition head -> model as the next state id.
func (e *env) push(model map[int]*statehist.Acct) error {
	st := e.h.AddModel(model)
	ed := e.h.Diff(e.chain[len(e.chain)-1], st)
	id := uint64(len(e.chain))
	if err := e.db.Update(st.Root, ed.Parent.Root, id, ed.NodeSet(), ed.StateSet(true)); err != nil {
		return fmt.Errorf("Update to state id %d: %v", id, err)
	}
	e.chain = append(e.chain, st)
	return nil
}

func acct(nonce uint64) *statehist.Acct {
	return &statehist.Acct{Nonce: nonce, Balance: big.NewInt(int64(1000 + nonce)), CodeHash: statehist.EmptyCode, Storage: map[int][]byte{}}
}

func main() {
	log.SetDefault(log.NewLogger(log.DiscardHandler()))
	pathdb.VerifSetMaxDiffLayers(1)

	fmt.Println("1. trienode history + indexing; every state holds ONE account (only the account-trie root node changes)")
	{
		e := open(true)
		a := e.h.AddrIndices()[0]
		for n := uint64(1); n <= 5; n++ {
			err := e.push(map[int]*statehist.Acct{a: acct(n)})
			fmt.Printf("   state id %d: Update err = %v\n", n, err)
			if err != nil {
				break
			}
		}
		fmt.Println("   expected: every Update succeeds")
		e.close()
	}

	fmt.Println("2. rollback to the empty state, then re-extension")
	{
		e := open(false)
		a, b := e.h.AddrIndices()[0], e.h.AddrIndices()[1]
		for n := uint64(1); n <= 4; n++ {
			if err := e.push(map[int]*statehist.Acct{a: acct(n), b: acct(100 + n)}); err != nil {
				fmt.Println("   unexpected:", err)
			}
		}
		fmt.Println("   Commit:", e.db.Commit(e.chain[4].Root, false), " Recover(genesis):", e.db.Recover(e.chain[0].Root))
		e.chain = e.chain[:1]
		for n := uint64(1); n <= 3; n++ {
			err := e.push(map[int]*statehist.Acct{a: acct(50 + n), b: acct(200 + n)})
			fmt.Printf("   new fork state id %d: Update err = %v\n", n, err)
			if err != nil {
				break
			}
		}
		fmt.Println("   expected: every Update succeeds")
		e.close()
	}

	fmt.Println("3. a reader handed out before a rollback, used after the chain was re-extended past the old head")
	{
		e := open(false)
		x, y := e.h.AddrIndices()[0], e.h.AddrIndices()[1]
		xAddr := e.h.U.Addrs[x]
		xHash := e.h.U.AddrHashes[x]
		// ids 1..30: X is created at id 1 (nonce 1) and touched again only at id 25; Y changes every step
		for n := uint64(1); n <= 30; n++ {
			xn := uint64(1)
			if n >= 25 {
				xn = 2
			}
			if err := e.push(map[int]*statehist.Acct{x: acct(xn), y: acct(100 + n)}); err != nil {
				fmt.Println("   unexpected:", err)
			}
		}
		e.db.Commit(e.chain[30].Root, false)
		held, err := e.db.HistoricReader(e.chain[20].Root)
		if err != nil {
			fmt.Println("   unexpected:", err)
			return
		}
		v, err := held.AccountRLP(xAddr)
		fmt.Printf("   held reader (state id 20) before the rollback: X = %x err=%v (state holds %x)\n", v, err, e.chain[20].Account(xHash))
		fmt.Println("   Recover(state id 21):", e.db.Recover(e.chain[21].Root))
		e.chain = e.chain[:22]
		// new fork: X changes at 23' (nonce 7) and 25' (nonce 8)
		for n := uint64(22); n <= 45; n++ {
			xn := uint64(1)
			if n >= 23 {
				xn = 7
			}
			if n >= 25 {
				xn = 8
			}
			if err := e.push(map[int]*statehist.Acct{x: acct(xn), y: acct(500 + n)}); err != nil {
				fmt.Println("   unexpected:", err)
			}
		}
		e.db.Commit(e.chain[45].Root, false)
		v, err = held.AccountRLP(xAddr)
		fmt.Printf("   held reader (state id 20) after re-extension to id 45: X = %x err=%v\n", v, err)
		fresh, _ := e.db.HistoricReader(e.chain[20].Root)
		v2, err2 := fresh.AccountRLP(xAddr)
		fmt.Printf("   fresh reader (state id 20):                            X = %x err=%v\n", v2, err2)
		fmt.Printf("   state id 20 (still canonical and retained) holds        X = %x\n", e.chain[20].Account(xHash))
		fmt.Println("   expected: the held reader returns an error or the same value as the fresh reader")
		e.close()
	}
}
