// C18: historical state reads return the value at that state.
//
// A pathdb.Database with state (and optionally trienode) history and history indexing enabled
// is driven through exported methods only, with transitions from verif/lib/statehist (not
// produced by trie.Commit / StateDB). For every canonical state id and every key ever touched
// the answers of HistoricReader / HistoricNodeReader are classified against statehist:
//
//	retained historical root (history id+1 is stored, indexing idle)  -> reader handed out, exact values
//	   (HistoricReader: stored in the state freezer; HistoricNodeReader: stored in the trienode freezer;
//	    each freezer must hold at least the configured number of newest histories)
//	disk layer / diff layer roots                                      -> refused, or exact values
//	pruned roots, roots of abandoned forks, unknown roots              -> refused (never data)
//	any reader at any time (held across extension, rollback, reopen)   -> error or exact value
package main

import (
	"bytes"
	"encoding/binary"
	"fmt"
	"math/rand"
	"os"
	"path/filepath"
	"strings"
	"sync"
	"sync/atomic"
	"time"

	"github.com/ethereum/go-ethereum/common"
	"github.com/ethereum/go-ethereum/core/rawdb"
	"github.com/ethereum/go-ethereum/ethdb"
	"github.com/ethereum/go-ethereum/log"
	"github.com/ethereum/go-ethereum/triedb/pathdb"

	"verif/lib/refmpt"
	"verif/lib/statehist"
	"verif/lib/vrt"
)

func main() { vrt.Main("C18", run) }

type config struct {
	Max        int    `json:"maxDiffLayers"`
	Buffer     int    `json:"writeBuffer"`
	Async      bool   `json:"asyncFlush"`
	Hist       uint64 `json:"stateHistory"`    // 0 = keep everything
	TrieHist   int64  `json:"trienodeHistory"` // -1 off, otherwise equal to Hist
	Checkpoint uint32 `json:"fullValueCheckpoint"`
	RawKeys    bool   `json:"rawKeys"`
	Accounts   int    `json:"accounts"`
	Slots      int    `json:"slots"`
	Backlog    int    `json:"backlog"` // transitions made with indexing disabled before the first (re)open with indexing
}

func (c config) path(indexing bool) *pathdb.Config {
	return &pathdb.Config{
		WriteBufferSize: c.Buffer, NoAsyncFlush: !c.Async, NoAsyncGeneration: true,
		StateHistory: c.Hist, TrienodeHistory: c.TrieHist, FullValueCheckpoint: c.Checkpoint,
		EnableStateIndexing: indexing, NoHistoryIndexDelay: true,
	}
}

type heldReader struct {
	rb    int // number of rollbacks of the case when the reader was handed out
	stale int // number of probes since a rollback happened
	id    int // canonical state id at the time the reader was handed out
	st    *statehist.State
	sr    *pathdb.HistoricalStateReader
	nr    *pathdb.HistoricalNodeReader
}

type dut struct {
	r    *vrt.Run
	rng  *rand.Rand
	idx  int
	cfg  config
	disk ethdb.Database
	db   *pathdb.Database
	h    *statehist.History

	chain     []*statehist.State // canonical line, chain[i] has state id i
	abandoned []*statehist.State
	held      []heldReader
	oplog     []string
	bad       bool
	quiet     bool // probe mode: remember the message instead of reporting
	lastMsg   string
	seen      map[string]bool

	// shape
	pruned, rolledBack, reopened, backlog, heldUsed bool
	toGenesis                                       bool // a rollback to state id 0 happened
	tailsDiverged                                   bool // the two history stores had different tails at some check
	maxHead                                         int  // highest head id the case has reached
	indexPruned                                     bool // the index pruner ran at least once
	prunedState, prunedTrie                         int  // tails of the last index pruner runs
	rollbacks                                       int
}

func (d *dut) logf(f string, a ...any) { d.oplog = append(d.oplog, fmt.Sprintf(f, a...)) }

// once reports a finding class once per case without ending the case.
func (d *dut) once(fp, msg string) {
	if d.seen == nil {
		d.seen = map[string]bool{}
	}
	if d.seen[fp] {
		return
	}
	d.seen[fp] = true
	bad := d.bad
	d.viol(fp, msg)
	d.bad = bad
}

func (d *dut) viol(fp, msg string) {
	d.bad = true
	if d.quiet {
		d.lastMsg = msg
		return
	}
	ops := d.oplog
	if len(ops) > 60 {
		ops = ops[len(ops)-60:]
	}
	d.r.Violation(fp, msg, map[string]any{"case": d.idx, "config": d.cfg, "ops_tail": ops})
}

// commitError: a flush that fails for the known indexing-stall reason gets that class.
func (d *dut) commitError(err error) {
	if d.cfg.TrieHist >= 0 && strings.Contains(err.Error(), "history indexing is out of order") && !strings.Contains(err.Error(), "last: null") {
		d.viol("index-stalled-after-history-without-index-entries", "Commit fails: "+err.Error())
		return
	}
	if d.toGenesis && strings.Contains(err.Error(), "history indexing is out of order, last: null") {
		d.viol("reextend-after-rollback-to-genesis:index-metadata-deleted", "after Recover to state id 0, Commit fails: "+err.Error())
		return
	}
	d.viol("commit-failed", err.Error())
}

func (d *dut) head() *statehist.State { return d.chain[len(d.chain)-1] }

// extend appends n fresh transitions (block number = state id).
func (d *dut) extend(n int) bool {
	for i := 0; i < n; i++ {
		e := d.h.DeriveFresh(d.head(), d.rng)
		id := len(d.chain)
		if err := d.db.Update(e.Child.Root, e.Parent.Root, uint64(id), e.NodeSet(), e.StateSet(d.cfg.RawKeys)); err != nil {
			switch {
			case strings.Contains(err.Error(), "history indexing is out of order, last: null") && d.toGenesis:
				// unindexing history 1 deletes the index metadata; the next indexSingle then
				// refuses to index history 1 again and Update fails from there on
				d.viol("reextend-after-rollback-to-genesis:index-metadata-deleted", fmt.Sprintf("after Recover to state id 0, Update to state id %d fails: %v", id, err))
			case strings.Contains(err.Error(), "history indexing is out of order") && d.cfg.TrieHist >= 0:
				// a history without any indexable element (e.g. only the account trie root changed:
				// the trienode index skips the root) does not advance the index metadata
				// (batchIndexer.finish returns early when nothing is pending); indexing of the
				// next history is then refused as out of order
				d.viol("index-stalled-after-history-without-index-entries", fmt.Sprintf("Update to state id %d fails: %v (accounts in the two preceding states: %d, %d)", id, err, len(d.head().Accounts), len(d.chain[max(0, len(d.chain)-2)].Accounts)))
			default:
				d.viol("update-failed", fmt.Sprintf("Update to state id %d: %v", id, err))
			}
			return false
		}
		d.chain = append(d.chain, e.Child)
		d.maxHead = max(d.maxHead, len(d.chain)-1)
	}
	d.logf("extend %d -> head id %d", n, len(d.chain)-1)
	d.r.Count("transitions", n)
	return true
}

// diskID returns the canonical id of the disk layer's state (-1 if unknown).
func (d *dut) diskID() int {
	base, _ := d.db.VerifLayerTreeShape()
	for i := len(d.chain) - 1; i >= 0; i-- {
		if d.chain[i].Root == base {
			return i
		}
	}
	return -1
}

// waitIndexed waits until the indexers accept readers (the initial indexing pass is done).
// Waiting is no verdict: if it does not happen the case is inconclusive.
func (d *dut) waitIndexed() bool {
	probe := d.chain[0].Root
	for i := 0; i < 6000; i++ {
		_, err := d.db.HistoricReader(probe)
		ok := err == nil || !strings.Contains(err.Error(), "indexed yet")
		if ok && d.cfg.TrieHist >= 0 {
			_, err = d.db.HistoricNodeReader(probe)
			ok = err == nil || !strings.Contains(err.Error(), "indexed yet")
		}
		if ok {
			if s, t, err := d.db.IndexProgress(); err == nil && s == 0 && t == 0 {
				return true
			}
		}
		time.Sleep(10 * time.Millisecond)
	}
	d.r.Inconclusive("case %d: history indexers did not become ready", d.idx)
	d.bad = true
	return false
}

func same(a, b []byte) bool { return bytes.Equal(a, b) } // nil == empty

// readError reports a failed read at a retained root. The one known cause (trienode index
// metadata not advanced by a history without index entries, see extend) gets its own class.
func (d *dut) readError(fp, msg string, err error) {
	if d.cfg.TrieHist >= 0 && strings.Contains(err.Error(), "history is not fully indexed") {
		d.viol("index-stalled-after-history-without-index-entries", msg)
		return
	}
	d.viol(fp, msg)
}

// readState compares every touched key (sampled by frac/256) of state st through the two
// readers. exactRequired: an error is a violation as well (retained root, indexing idle).
func (d *dut) readState(st *statehist.State, id int, sr *pathdb.HistoricalStateReader, nr *pathdb.HistoricalNodeReader, frac int, exactRequired bool, ctx string) {
	u := d.h.U
	if sr != nil {
		for _, ah := range d.h.TouchedAccounts() {
			if d.rng.Intn(256) >= frac {
				continue
			}
			addr, _ := u.AddrOf(ah)
			got, err := sr.AccountRLP(addr)
			want := st.Account(ah)
			switch {
			case err != nil && exactRequired:
				d.readError("account-read-error", fmt.Sprintf("%s: AccountRLP(%x) at canonical id %d: %v", ctx, addr, id, err), err)
				return
			case err != nil:
				d.r.Count("reads_refused", 1)
			case !same(got, want):
				d.viol("account-wrong-value", fmt.Sprintf("%s: AccountRLP(%x) at canonical id %d = %x, state holds %x", ctx, addr, id, got, want))
				return
			default:
				d.r.Count("account_reads_exact", 1)
			}
		}
		for _, sk := range d.h.TouchedSlots() {
			if d.rng.Intn(256) >= frac {
				continue
			}
			addr, _ := u.AddrOf(sk.Addr)
			key, _ := u.SlotKeyOf(sk.Slot)
			got, err := sr.Storage(addr, key)
			want := st.Storage(sk.Addr, sk.Slot)
			switch {
			case err != nil && exactRequired:
				d.readError("storage-read-error", fmt.Sprintf("%s: Storage(%x,%x) at canonical id %d: %v", ctx, addr, key, id, err), err)
				return
			case err != nil:
				d.r.Count("reads_refused", 1)
			case !same(got, want):
				d.viol("storage-wrong-value", fmt.Sprintf("%s: Storage(%x,%x) at canonical id %d = %x, state holds %x", ctx, addr, key, id, got, want))
				return
			default:
				d.r.Count("storage_reads_exact", 1)
			}
		}
	}
	if nr != nil {
		for _, nk := range d.h.TouchedNodes() {
			if d.rng.Intn(256) >= frac {
				continue
			}
			want := st.Node(nk.Owner, []byte(nk.Path))
			if want != nil {
				got, err := nr.Node(nk.Owner, []byte(nk.Path), common.BytesToHash(refmpt.Keccak(want)))
				switch {
				case err != nil && exactRequired:
					d.readError("node-read-error", fmt.Sprintf("%s: Node(%x,%x) at canonical id %d: %v", ctx, nk.Owner, nk.Path, id, err), err)
					return
				case err != nil:
					d.r.Count("reads_refused", 1)
				case !bytes.Equal(got, want):
					d.viol("node-wrong-value", fmt.Sprintf("%s: Node(%x,%x) at canonical id %d = %x, state holds %x", ctx, nk.Owner, nk.Path, id, got, want))
					return
				default:
					d.r.Count("node_reads_exact", 1)
				}
				continue
			}
			// the state has no node there: asking for another state's node must fail
			hs := d.h.NodeHashesAt(nk)
			if len(hs) == 0 {
				continue
			}
			hh := hs[d.rng.Intn(len(hs))]
			// The reader is hash-addressed: it may serve the node with the requested hash from
			// the disk layer (shortcut in HistoricalNodeReader.Node) although this state has
			// no node at the position; what it returns must at least carry that hash.
			if got, err := nr.Node(nk.Owner, []byte(nk.Path), hh); err == nil {
				if common.BytesToHash(refmpt.Keccak(got)) != hh {
					d.viol("node-hash-mismatch", fmt.Sprintf("%s: Node(%x,%x,%x) at canonical id %d returned %x which does not hash to the requested hash", ctx, nk.Owner, nk.Path, hh, id, got))
					return
				}
				d.r.Count("node_absent_served_by_hash", 1)
			} else {
				d.r.Count("node_absent_refused", 1)
			}
		}
	}
}

// endingAt counts the index metadata entries under the prefixes whose first index block ends
// exactly at history id tail (the first 8 bytes of the metadata are the largest id of the
// first block, see indexPruner.pruneEntry). Coverage counter only.
func (d *dut) endingAt(tail int, prefixes ...[]byte) int {
	n := 0
	for _, p := range prefixes {
		it := d.disk.NewIterator(p, nil)
		for it.Next() {
			if v := it.Value(); len(it.Key()) >= len(p)+32 && len(v) >= 8 && binary.BigEndian.Uint64(v[:8]) == uint64(tail) {
				n++
			}
		}
		it.Release()
	}
	return n
}

// pruneIndex lets the index pruner catch up with the tails of the history stores. In
// production indexer.prune(newFirst) is signalled after every tail truncation, but the
// background loop calls indexPruner.process(tail) only once 90000 histories were truncated
// since its last run (unexported constant), which never happens at this scale. The harness
// issues the very same call (a pruner over the same key-value store, process(first retained
// history id)) while the database is idle: no flush, no indexing, no other reader. Right
// after it every touched account and slot (trie node position) is read at the oldest root
// retained by the state (trienode) store: its first needed history is exactly the pruner's
// tail, and an element last modified by that history has an index block ending exactly there.
func (d *dut) pruneIndex(ctx string) {
	if first, last, ok := d.historyWindow(); ok && first > 1 && first > d.prunedState && first <= last && first-1 < len(d.chain) {
		ending := d.endingAt(first, rawdb.StateHistoryAccountMetadataPrefix, rawdb.StateHistoryStorageMetadataPrefix)
		if err := pathdb.VerifPruneIndex(d.disk, false, uint64(first)); err != nil {
			d.viol("index-pruner-failed:state", fmt.Sprintf("%s: indexPruner.process(%d): %v", ctx, first, err))
			return
		}
		d.prunedState = first
		d.indexPruned = true
		d.logf("prune state index, tail %d", first)
		d.r.Count("index_pruner_runs", 1)
		d.r.Count("index_pruner_runs_state", 1)
		d.r.Count("elements_with_block_ending_at_tail", ending)
		st := d.chain[first-1]
		where := fmt.Sprintf("%s: oldest retained root, canonical id %d (state histories %d..%d, index pruned with tail %d, %d elements whose first index block ended at the tail)", ctx, first-1, first, last, first, ending)
		sr, err := d.db.HistoricReader(st.Root)
		if err != nil {
			d.viol("retained-root-refused:state", fmt.Sprintf("%s: HistoricReader refused a retained root: %v", where, err))
			return
		}
		d.readState(st, first-1, sr, nil, 256, true, where)
		if d.bad {
			return
		}
		d.r.Count("reads_at_oldest_retained_root_after_prune", len(d.h.TouchedAccounts())+len(d.h.TouchedSlots()))
	}
	if d.cfg.TrieHist < 0 {
		return
	}
	f, l, on, err := d.db.VerifTrienodeHistoryWindow()
	if err != nil || !on {
		return // reported by checkAll
	}
	if first, last := int(f), int(l); first > 1 && first > d.prunedTrie && first <= last && first-1 < len(d.chain) {
		ending := d.endingAt(first, rawdb.TrienodeHistoryMetadataPrefix)
		if err := pathdb.VerifPruneIndex(d.disk, true, uint64(first)); err != nil {
			d.viol("index-pruner-failed:trienode", fmt.Sprintf("%s: indexPruner.process(%d): %v", ctx, first, err))
			return
		}
		d.prunedTrie = first
		d.indexPruned = true
		d.logf("prune trienode index, tail %d", first)
		d.r.Count("index_pruner_runs", 1)
		d.r.Count("index_pruner_runs_trienode", 1)
		d.r.Count("elements_with_block_ending_at_tail", ending)
		d.r.Count("trienode_elements_with_block_ending_at_tail", ending)
		st := d.chain[first-1]
		where := fmt.Sprintf("%s: oldest retained root, canonical id %d (trienode histories %d..%d, index pruned with tail %d, %d elements whose first index block ended at the tail)", ctx, first-1, first, last, first, ending)
		nr, err := d.db.HistoricNodeReader(st.Root)
		if err != nil {
			d.viol("retained-root-refused:trienode", fmt.Sprintf("%s: HistoricNodeReader refused a retained root: %v", where, err))
			return
		}
		d.readState(st, first-1, nil, nr, 256, true, where)
		if d.bad {
			return
		}
		d.r.Count("reads_at_oldest_retained_root_after_prune", len(d.h.TouchedNodes()))
	}
}

// historyWindow returns first/last retained state history ids (0,0,false if none).
func (d *dut) historyWindow() (int, int, bool) {
	f, l, err := d.db.HistoryRange()
	if err != nil {
		return 0, 0, false
	}
	return int(f), int(l), true
}

// checkAll classifies reader creation and reads for every canonical id, for abandoned and
// unknown roots. frac/256 of the keys are read.
func (d *dut) checkAll(frac int, ctx string) {
	if d.bad {
		return
	}
	first, last, ok := d.historyWindow()
	disk := d.diskID()
	if disk < 0 {
		d.viol("harness:disk-root-unknown", "the disk layer root is not on the canonical line")
		return
	}
	if ok && last != disk {
		d.viol("history-head-mismatch", fmt.Sprintf("%s: newest state history id %d but the disk layer is at id %d", ctx, last, disk))
		return
	}
	if ok && first > 1 {
		d.pruned = true
	}
	// The trienode freezer has its own tail. Both stores are truncated by the same rule
	// (disklayer.writeHistory: keep the newest `limit` histories), but the truncation of a
	// store is skipped while the persistent state id is behind the new tail, and that id is
	// advanced by the background flusher: within one disklayer.commit the state store may skip
	// the truncation and the trienode store perform it (or vice versa). A trienode history
	// that was truncated according to TrienodeHistory is "no longer retained" for
	// HistoricNodeReader although the state store still holds the state history of that id.
	// Every reader kind is therefore classified by the window of its own store.
	tfirst, tlast, tok := 0, 0, false
	if d.cfg.TrieHist >= 0 {
		f, l, on, err := d.db.VerifTrienodeHistoryWindow()
		if err != nil || !on {
			d.viol("harness:trienode-window-unreadable", fmt.Sprintf("%s: trienode freezer window: enabled=%v err=%v", ctx, on, err))
			return
		}
		tfirst, tlast, tok = int(f), int(l), l >= f
		if tok && tlast != disk {
			d.viol("history-head-mismatch:trienode", fmt.Sprintf("%s: newest trienode history id %d but the disk layer is at id %d", ctx, tlast, disk))
			return
		}
		switch {
		case ok && tok && tfirst > first:
			d.tailsDiverged = true
			d.r.Count("trienode_tail_ahead_of_state_tail", 1)
		case ok && tok && tfirst < first:
			d.tailsDiverged = true
			d.r.Count("state_tail_ahead_of_trienode_tail", 1)
		}
	}
	// Lower bound of retention (what the configuration promises): a store configured with
	// limit N is only ever truncated to first = flushedID-N+1, and no flushed id exceeds the
	// highest head id the case has reached.
	if lim := int(d.cfg.Hist); lim > 0 {
		bound := max(1, d.maxHead-lim+1)
		if ok && first > bound {
			d.viol("history-over-pruned:state", fmt.Sprintf("%s: StateHistory=%d, highest head id so far %d, but the oldest state history is %d (> %d)", ctx, lim, d.maxHead, first, bound))
			return
		}
		if tok && tfirst > bound {
			d.viol("history-over-pruned:trienode", fmt.Sprintf("%s: TrienodeHistory=%d, highest head id so far %d, but the oldest trienode history is %d (> %d)", ctx, lim, d.maxHead, tfirst, bound))
			return
		}
	}
	for i, st := range d.chain {
		if d.bad {
			return
		}
		// history i+1 (transition i -> i+1) must be stored for state i to be readable
		retained := ok && i+1 >= first && i+1 <= last
		tretained := tok && i+1 >= tfirst && i+1 <= tlast
		sr, serr := d.db.HistoricReader(st.Root)
		var nr *pathdb.HistoricalNodeReader
		var nerr error
		if d.cfg.TrieHist >= 0 {
			nr, nerr = d.db.HistoricNodeReader(st.Root)
		}
		where := fmt.Sprintf("%s: canonical id %d (histories %d..%d, disk %d, head %d)", ctx, i, first, last, disk, len(d.chain)-1)
		if d.cfg.TrieHist >= 0 {
			where = fmt.Sprintf("%s: canonical id %d (state histories %d..%d, trienode histories %d..%d, disk %d, head %d)", ctx, i, first, last, tfirst, tlast, disk, len(d.chain)-1)
		}
		// state history reader
		switch {
		case retained:
			if serr != nil {
				d.viol("retained-root-refused:state", fmt.Sprintf("%s: HistoricReader refused a retained root: %v", where, serr))
				return
			}
			d.readState(st, i, sr, nil, frac, true, where)
			d.r.Count("retained_roots_read", 1)
		case i < first-1 || !ok && i < disk:
			// pruned: must not yield data
			if serr == nil {
				d.readPruned(st, i, sr, nil, where)
			}
			d.r.Count("pruned_roots_probed", 1)
		default:
			// disk layer and diff layers: served by the regular readers; the historic readers
			// may refuse, but whatever they return must be right
			if serr == nil {
				d.readState(st, i, sr, nil, frac, false, where)
			}
			d.r.Count("live_roots_probed", 1)
		}
		if d.bad {
			return
		}
		// trienode history reader, by the trienode store's own window
		if d.cfg.TrieHist >= 0 {
			switch {
			case tretained:
				if nerr != nil {
					d.viol("retained-root-refused:trienode", fmt.Sprintf("%s: HistoricNodeReader refused a retained root: %v", where, nerr))
					return
				}
				d.readState(st, i, nil, nr, frac, true, where)
				d.r.Count("retained_roots_read_trienode", 1)
			case i < tfirst-1 || !tok && i < disk:
				// pruned in the trienode store (possibly still retained in the state store)
				if nerr == nil {
					d.readState(st, i, nil, nr, frac, false, where) // error or exact, never other data
				} else {
					nr = nil
				}
				d.r.Count("pruned_roots_probed_trienode", 1)
				if retained {
					d.r.Count("roots_retained_in_state_store_only", 1)
				}
			default:
				if nerr == nil {
					d.readState(st, i, nil, nr, frac, false, where)
				} else {
					nr = nil
				}
			}
		}
		if retained && !d.bad && d.rng.Intn(6) == 0 && len(d.held) < 6 {
			d.held = append(d.held, heldReader{d.rollbacks, 0, i, st, sr, nr})
		}
	}
	for _, st := range d.abandoned {
		if d.bad {
			return
		}
		if _, onLine := d.canonicalID(st); onLine {
			continue // the same state was reached again on the new fork
		}
		if sr, err := d.db.HistoricReader(st.Root); err == nil {
			d.readForeign(st, sr, nil, "abandoned")
		}
		if d.cfg.TrieHist >= 0 {
			if nr, err := d.db.HistoricNodeReader(st.Root); err == nil {
				d.readForeign(st, nil, nr, "abandoned")
			}
		}
		d.r.Count("abandoned_roots_probed", 1)
	}
	if _, err := d.db.HistoricReader(common.Hash{0xde, 0xad}); err == nil {
		d.viol("unknown-root-accepted", ctx+": HistoricReader(unknown root) handed out a reader")
	}
}

func (d *dut) canonicalID(st *statehist.State) (int, bool) {
	for i, c := range d.chain {
		if c == st {
			return i, true
		}
	}
	return 0, false
}

// readPruned: a reader was handed out for a root whose history is gone: every read must fail.
func (d *dut) readPruned(st *statehist.State, id int, sr *pathdb.HistoricalStateReader, nr *pathdb.HistoricalNodeReader, where string) {
	u := d.h.U
	if sr != nil {
		for _, ah := range d.h.TouchedAccounts() {
			addr, _ := u.AddrOf(ah)
			if got, err := sr.AccountRLP(addr); err == nil && !same(got, st.Account(ah)) {
				d.viol("pruned-root-wrong-data", fmt.Sprintf("%s: reader of a pruned root returned %x for account %x, the state held %x", where, got, addr, st.Account(ah)))
				return
			} else if err == nil {
				d.r.Count("pruned_root_still_exact", 1)
			}
		}
	}
	_ = nr
}

// readForeign: a reader was handed out for a root that is not on the canonical line.
func (d *dut) readForeign(st *statehist.State, sr *pathdb.HistoricalStateReader, nr *pathdb.HistoricalNodeReader, kind string) {
	u := d.h.U
	if sr != nil {
		for _, ah := range d.h.TouchedAccounts() {
			addr, _ := u.AddrOf(ah)
			if got, err := sr.AccountRLP(addr); err == nil {
				d.viol("noncanonical-root-served:"+kind, fmt.Sprintf("HistoricReader(%s root %x) handed out a reader and AccountRLP(%x) returned %x", kind, st.Root, addr, got))
				return
			}
		}
	}
	if nr != nil {
		for _, nk := range d.h.TouchedNodes() {
			if want := st.Node(nk.Owner, []byte(nk.Path)); want != nil {
				if got, err := nr.Node(nk.Owner, []byte(nk.Path), common.BytesToHash(refmpt.Keccak(want))); err == nil {
					d.viol("noncanonical-root-served:"+kind, fmt.Sprintf("HistoricNodeReader(%s root %x) handed out a reader and Node(%x,%x) returned %x", kind, st.Root, nk.Owner, nk.Path, got))
					return
				}
			}
		}
	}
}

// useHeld reads through readers handed out earlier (before extension / rollback / pruning):
// every answer must be an error or the exact value of the state the reader was created for,
// as long as that state is still canonical at that id.
func (d *dut) useHeld(ctx string) {
	keep := d.held[:0]
	for _, hr := range d.held {
		if d.bad {
			return
		}
		if hr.id < len(d.chain) && d.chain[hr.id] == hr.st {
			if hr.rb != d.rollbacks {
				// The reader caches index readers. A rollback followed by a re-extension beyond
				// the old indexing position defeats its staleness check (limit > lastID), so it
				// may resolve a key through index entries of the abandoned fork.
				probe := &dut{r: d.r, rng: d.rng, idx: d.idx, cfg: d.cfg, h: d.h, oplog: d.oplog, quiet: true}
				probe.readState(hr.st, hr.id, hr.sr, hr.nr, 64, false, ctx+": reader held across a rollback")
				if probe.bad {
					d.once("held-reader:stale-index-after-rollback-and-reextension", fmt.Sprintf("%s: a reader for canonical id %d handed out before a rollback (state still canonical) returned a wrong value after the chain was re-extended: %s", ctx, hr.id, probe.lastMsg))
				}
				d.r.Count("held_readers_across_rollback", 1)
				if hr.stale++; hr.stale < 3 {
					keep = append(keep, hr) // probed again after the next extension, then dropped
				}
				continue
			}
			d.readState(hr.st, hr.id, hr.sr, hr.nr, 64, false, ctx+": held reader")
			d.heldUsed = true
			d.r.Count("held_readers_used", 1)
			keep = append(keep, hr)
		}
		// readers of states that were rolled back are dropped: the same id may now denote
		// another state and the interface gives no way to tell
	}
	d.held = keep
}

func (d *dut) rollback() {
	first, last, ok := d.historyWindow()
	if !ok || last < 1 {
		return
	}
	// target t: history t+1 must exist; roll back by 1..20
	lo := max(first-1, 0)
	hi := d.diskID() - 1
	if hi < lo {
		// everything still lives in diff layers: flush first
		if err := d.db.Commit(d.head().Root, false); err != nil {
			d.commitError(err)
			return
		}
		first, last, ok = d.historyWindow()
		lo, hi = max(first-1, 0), d.diskID()-1
		if !ok || hi < lo {
			return
		}
	}
	t := hi - d.rng.Intn(min(20, hi-lo+1))
	if t == 0 && hi >= 1 && d.rng.Intn(8) != 0 {
		t = 1 // rolling back to the empty state is kept rare (known finding ends the case)
	}
	target := d.chain[t]
	if !d.db.Recoverable(target.Root) {
		d.r.Count("rollback_target_not_recoverable", 1)
		return
	}
	var err error
	if d.r.Guard("recover", map[string]any{"case": d.idx, "config": d.cfg, "target": t}, func() { err = d.db.Recover(target.Root) }) {
		d.bad = true
		return
	}
	if err != nil {
		// judged by C17; the database may be half rolled back: end the case
		d.r.Count("recover_failed_case_ended", 1)
		d.logf("recover to %d failed: %v", t, err)
		d.bad = true
		return
	}
	d.abandoned = append(d.abandoned, d.chain[t+1:]...)
	d.chain = d.chain[:t+1]
	d.rolledBack = true
	d.rollbacks++
	if t == 0 {
		d.toGenesis = true
	}
	d.logf("recover to id %d", t)
	d.r.Count("rollbacks", 1)
}

func (d *dut) reopen(indexing bool) bool {
	if err := d.db.Journal(d.head().Root); err != nil {
		d.viol("journal-failed", err.Error())
		return false
	}
	d.db.Close()
	d.held = nil
	d.db = pathdb.New(d.disk, d.cfg.path(indexing), false)
	d.logf("reopen indexing=%v", indexing)
	d.r.Count("reopens", 1)
	return true
}

func historyCase(r *vrt.Run, idx, maxLayers int) {
	rng := r.Rand("hist", idx)
	cfg := config{Max: maxLayers}
	cfg.Buffer = []int{0, 512, 2048, 8192}[rng.Intn(4)]
	cfg.Async = rng.Intn(2) == 0
	cfg.Hist = []uint64{0, 8, 8, 32}[rng.Intn(4)]
	cfg.TrieHist = -1
	if rng.Intn(2) == 0 {
		cfg.TrieHist = int64(cfg.Hist)
	}
	cfg.Checkpoint = []uint32{1, 4, 16}[rng.Intn(3)]
	cfg.RawKeys = rng.Intn(4) != 0
	cfg.Accounts = 3 + rng.Intn(14)
	cfg.Slots = 2 + rng.Intn(6)
	if rng.Intn(3) == 0 {
		cfg.Backlog = 5 + rng.Intn(40)
	}
	r.Case("history %d cfg=%+v", idx, cfg)
	dir := filepath.Join(r.Scratch, fmt.Sprintf("c18-%d", idx))
	os.RemoveAll(dir)
	defer os.RemoveAll(dir)
	disk, err := rawdb.Open(rawdb.NewMemoryDatabase(), rawdb.OpenOptions{Ancient: dir})
	if err != nil {
		r.Inconclusive("cannot open database: %v", err)
		return
	}
	d := &dut{r: r, rng: rng, idx: idx, cfg: cfg, disk: disk}
	d.h = statehist.New(statehist.Config{Accounts: cfg.Accounts, Slots: cfg.Slots}, rng)
	d.chain = []*statehist.State{d.h.Genesis()}
	d.db = pathdb.New(disk, cfg.path(cfg.Backlog == 0), false)
	// first transition: genesis -> a state several random steps away (a one-account state
	// would immediately run into the known trienode indexing stall, see extend)
	{
		s := d.h.Genesis()
		for k := 0; k < 5; k++ {
			s = d.h.DeriveFresh(s, rng).Child
		}
		e := d.h.Diff(d.h.Genesis(), s)
		if err := d.db.Update(e.Child.Root, e.Parent.Root, 1, e.NodeSet(), e.StateSet(cfg.RawKeys)); err != nil {
			d.viol("update-failed", fmt.Sprintf("first Update: %v", err))
			return
		}
		d.chain = append(d.chain, e.Child)
	}
	defer func() {
		d.db.Close()
		disk.Close()
	}()
	frac := 64 // 25 % of the keys in the quick tier
	if !r.Quick() {
		frac = 256
	}
	if cfg.Backlog > 0 {
		// histories accumulate without indexing, then the database is reopened with indexing:
		// the initial indexing pass has to work through the backlog
		if !d.extend(cfg.Backlog) {
			return
		}
		if err := d.db.Commit(d.head().Root, false); err != nil {
			d.commitError(err)
			return
		}
		if !d.reopen(true) {
			return
		}
		d.backlog = true
		// reads while the backlog may still be being indexed: error or exact
		for i, st := range d.chain {
			sr, e1 := d.db.HistoricReader(st.Root)
			if e1 != nil {
				r.Count("readers_refused_while_indexing", 1)
				continue
			}
			d.readState(st, i, sr, nil, 32, false, "while indexing the backlog")
			r.Count("readers_handed_out_while_indexing", 1)
		}
	}
	if !d.waitIndexed() {
		return
	}
	rounds := 3 + rng.Intn(5)
	if r.Race() {
		rounds = 2 + rng.Intn(2)
	}
	for round := 0; round < rounds && !d.bad; round++ {
		n := 3 + rng.Intn(30)
		if rng.Intn(5) == 0 {
			n = 40 + rng.Intn(60)
		}
		if r.Race() && n > 25 {
			n = 25
		}
		stop := concurrentReaders(d) // readers race with the extension (race variant / schedule coverage)
		ok := d.extend(n)
		if ok && rng.Intn(3) == 0 {
			if err := d.db.Commit(d.head().Root, false); err != nil {
				d.commitError(err)
			}
			d.logf("commit head")
		}
		stop()
		if !ok || d.bad {
			return
		}
		if err := d.db.VerifWaitFlush(); err != nil {
			d.viol("flush-failed", err.Error())
			return
		}
		if !d.waitIndexed() {
			return
		}
		if rng.Intn(3) != 0 {
			// the index pruner catches up with the history tail before the reads of this round
			d.pruneIndex(fmt.Sprintf("round %d after index pruning", round))
			if d.bad {
				return
			}
		}
		d.useHeld(fmt.Sprintf("round %d after extension", round))
		d.checkAll(frac, fmt.Sprintf("round %d", round))
		if d.bad {
			return
		}
		switch rng.Intn(4) {
		case 0, 1:
			d.rollback()
			if d.bad {
				return
			}
			if d.rolledBack {
				d.useHeld(fmt.Sprintf("round %d after rollback", round))
				d.checkAll(frac, fmt.Sprintf("round %d after rollback", round))
				// a different fork follows in the next round (DeriveFresh never repeats a state)
			}
		case 2:
			if !d.reopen(true) || !d.waitIndexed() {
				return
			}
			d.reopened = true
			d.checkAll(frac, fmt.Sprintf("round %d after reopen", round))
		}
	}
	if d.bad {
		return
	}
	r.Eval(fmt.Sprintf("max%d/hist%d/trie%v/cp%d/raw%v/async%v/buf%v/pruned%v/rb%v/reopen%v/backlog%v/held%v/tdiv%v/ipruned%v", cfg.Max, cfg.Hist, cfg.TrieHist >= 0, cfg.Checkpoint, cfg.RawKeys, cfg.Async, cfg.Buffer > 0, d.pruned, d.rolledBack, d.reopened, d.backlog, d.heldUsed, d.tailsDiverged, d.indexPruned))
	r.Count("histories", 1)
	if d.pruned {
		r.Count("histories_pruned", 1)
	}
	if r.WantSample() && d.pruned && d.rolledBack {
		r.Sample(map[string]any{"case": idx, "config": cfg, "ops": d.oplog})
	}
}

// concurrentReaders starts goroutines that keep reading retained roots through fresh
// historic readers while the caller extends the chain (flushes, history writes, synchronous
// indexing and tail pruning happen underneath). Every answer must be an error or exact.
// The returned function stops them.
func concurrentReaders(d *dut) func() {
	first, last, ok := d.historyWindow()
	if !ok || last-first < 1 {
		return func() {}
	}
	type target struct {
		id int
		st *statehist.State
	}
	var ts []target
	for i := max(first-1, 0); i < last && i < len(d.chain); i++ {
		ts = append(ts, target{i, d.chain[i]})
	}
	accts := d.h.TouchedAccounts()
	if len(ts) == 0 || len(accts) == 0 {
		return func() {}
	}
	var stop atomic.Bool
	var wg sync.WaitGroup
	var reads atomic.Int64
	var mu sync.Mutex
	var failure string
	for g := 0; g < 2; g++ {
		wg.Add(1)
		go func(seed int64) {
			defer wg.Done()
			rr := rand.New(rand.NewSource(seed))
			for !stop.Load() || reads.Load() < 20 {
				t := ts[rr.Intn(len(ts))]
				sr, err := d.db.HistoricReader(t.st.Root)
				if err != nil {
					reads.Add(1)
					continue
				}
				ah := accts[rr.Intn(len(accts))]
				addr, _ := d.h.U.AddrOf(ah)
				got, err := sr.AccountRLP(addr)
				if err == nil && !same(got, t.st.Account(ah)) {
					mu.Lock()
					failure = fmt.Sprintf("concurrent AccountRLP(%x) at canonical id %d = %x, state holds %x", addr, t.id, got, t.st.Account(ah))
					mu.Unlock()
					return
				}
				reads.Add(1)
			}
		}(d.rng.Int63())
	}
	return func() {
		stop.Store(true)
		wg.Wait()
		d.r.Count("concurrent_reads", int(reads.Load()))
		if failure != "" {
			d.viol("concurrent-wrong-value", failure)
		}
	}
}

func run(r *vrt.Run) {
	log.SetDefault(log.NewLogger(log.DiscardHandler()))
	r.Rule("one history = private memorydb+freezer pathdb with EnableStateIndexing/NoHistoryIndexDelay, random config (maxDiffLayers 1/2/4, write buffer 0..8KiB, sync/async flush, state history limit 0/8/32, trienode history off or same limit with full-value checkpoint 1/4/16, raw or hashed storage keys, optional backlog of 5-44 unindexed histories indexed after a reopen); 3-7 rounds of {extend 3-100 statehist transitions with concurrent readers, optional Commit, classify HistoricReader/HistoricNodeReader for every canonical id and 25% (thorough: all) of the touched accounts/slots/node positions, in 2/3 of the rounds the index pruner is first run for the current history tails and every touched key is read at the oldest retained root; then rollback by 1-20 via Recover followed by a different fork, or reopen}; readers held across extension/rollback are re-read. signature = (config classes, pruned, rolled back, reopened, backlog, held readers used, tails of the two history stores diverged, index pruner ran)")
	groups := []int{1, 2, 4}
	per := r.N(20, 1000)
	if r.Race() {
		per = r.N(6, 100)
	}
	idx := 0
	for _, m := range groups {
		pathdb.VerifSetMaxDiffLayers(m)
		base := idx
		// cases mostly wait for the indexer's 15 s heartbeat: more workers than threads
		vrt.Par(per, 16, func(i int) {
			if only := os.Getenv("C18_ONLY"); only != "" && only != fmt.Sprint(base+i) {
				return
			}
			historyCase(r, base+i, m)
		})
		idx += per
	}
	pathdb.VerifSetMaxDiffLayers(128)
	r.Require("histories", int64(per))
	r.Require("retained_roots_read", 200)
	r.Require("histories_pruned", 5)
	r.Require("rollbacks", 5)
	r.Require("reopens", 5)
	r.Require("held_readers_used", 5)
	r.Require("pruned_roots_probed", 20)
	r.Require("index_pruner_runs", 5)
	r.Require("reads_at_oldest_retained_root_after_prune", 200)
	r.Require("elements_with_block_ending_at_tail", 5)
	r.Assume("statehist/refmpt ground truth; block number passed to Update equals the state id so that HistoryRange() yields history ids; trienode and state history use the same retention limit; each reader kind is classified by the window of its own freezer (the tails may differ by the timing-dependent skip of a tail truncation), and each window must keep at least the configured number of newest histories")
	r.Assume("Recover itself is judged by C17; a failing Recover ends the case")
}
