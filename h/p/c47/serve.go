package main

// Honest snap responses computed from the ground truth (refmpt tries), including Merkle
// edge proofs assembled by walking the reference trie's own node set. Independent of
// go-ethereum's trie.Prove / snap handlers.

import (
	"bytes"
	"sort"

	"github.com/ethereum/go-ethereum/common"

	"verif/lib/refmpt"
	"verif/lib/refrlp"
)

// prove returns the hashed nodes (and the root) on the path of key in t, in root-first
// order: a proof of existence or of absence.
func prove(t *refmpt.Trie, key []byte) [][]byte {
	rootBlob, ok := t.Nodes[""]
	if !ok {
		return nil
	}
	out := [][]byte{rootBlob}
	cur, err := refrlp.Decode(rootBlob)
	if err != nil {
		panic("refmpt produced an undecodable node")
	}
	nib := refmpt.KeyToNibbles(key)
	var path []byte
	depth := 0
	for {
		var child *refrlp.Item
		switch len(cur.List) {
		case 17:
			if depth >= len(nib) {
				return out
			}
			child = cur.List[nib[depth]]
			path = append(path, nib[depth])
			depth++
		case 2:
			k, term, ok := refmpt.UnHP(cur.List[0].Str)
			if !ok {
				panic("bad hex-prefix in reference node")
			}
			if term {
				return out
			}
			if depth+len(k) > len(nib) || !bytes.Equal(nib[depth:depth+len(k)], k) {
				return out
			}
			path = append(path, k...)
			depth += len(k)
			child = cur.List[1]
		default:
			panic("bad reference node")
		}
		switch {
		case child.IsList:
			cur = child // embedded node, part of the parent's blob
		case len(child.Str) == 32:
			blob, ok := t.Nodes[string(path)]
			if !ok {
				panic("reference trie lacks a hashed child")
			}
			out = append(out, blob)
			cur, err = refrlp.Decode(blob)
			if err != nil {
				panic("refmpt produced an undecodable node")
			}
		default:
			return out // empty slot: absence proven
		}
	}
}

func mergeProofs(ps ...[][]byte) [][]byte {
	seen := map[string]bool{}
	var out [][]byte
	for _, p := range ps {
		for _, n := range p {
			if !seen[string(n)] {
				seen[string(n)] = true
				out = append(out, n)
			}
		}
	}
	return out
}

// rangeOf returns the entries of t with key >= origin, at most maxItems, stopping after
// the first key >= limit and once maxBytes is exceeded. complete reports that the
// entries are all entries of the trie.
func rangeOf(t *refmpt.Trie, origin, limit []byte, maxBytes, maxItems int) (kvs []refmpt.KV, complete bool) {
	s := t.Sorted
	i := sort.Search(len(s), func(i int) bool { return bytes.Compare(s[i].K, origin) >= 0 })
	start := i
	size := 0
	for ; i < len(s); i++ {
		if len(kvs) >= maxItems || size >= maxBytes {
			break
		}
		kvs = append(kvs, s[i])
		size += 32 + len(s[i].V)
		if bytes.Compare(s[i].K, limit) >= 0 {
			i++
			break
		}
	}
	return kvs, start == 0 && i == len(s)
}

var maxHash = bytes.Repeat([]byte{0xff}, 32)

// accountRange is an honest AccountRange response.
func accountRange(st *stateData, origin, limit common.Hash, maxBytes, maxItems int) (hashes []common.Hash, vals [][]byte, proof [][]byte) {
	lim := limit[:]
	if limit == (common.Hash{}) {
		lim = maxHash
	}
	kvs, _ := rangeOf(st.acctTrie, origin[:], lim, maxBytes, maxItems)
	for _, kv := range kvs {
		hashes = append(hashes, common.BytesToHash(kv.K))
		vals = append(vals, kv.V)
	}
	proof = prove(st.acctTrie, origin[:])
	if len(kvs) > 0 {
		proof = mergeProofs(proof, prove(st.acctTrie, kvs[len(kvs)-1].K))
	}
	return
}

// storageRanges is an honest StorageRanges response. alwaysProve attaches the edge proof
// of the last delivered account even when its storage was delivered completely.
func storageRanges(st *stateData, accounts []common.Hash, origin, limit []byte, maxBytes, maxItems int, alwaysProve bool) (hashes [][]common.Hash, slots [][][]byte, proof [][]byte) {
	size, items := 0, 0
	for i, acc := range accounts {
		if i > 0 && (size >= maxBytes || items >= maxItems) {
			break
		}
		tr := st.stor[string(acc[:])]
		if tr == nil {
			break // no such storage in this state: serve what we have
		}
		org, lim := make([]byte, 32), maxHash
		if i == 0 {
			if len(origin) > 0 {
				org = common.BytesToHash(origin).Bytes()
			}
			if len(limit) > 0 {
				lim = common.BytesToHash(limit).Bytes()
			}
		}
		kvs, complete := rangeOf(tr, org, lim, maxBytes-size, maxItems-items)
		var hs []common.Hash
		var vs [][]byte
		for _, kv := range kvs {
			hs = append(hs, common.BytesToHash(kv.K))
			vs = append(vs, kv.V)
			size += 32 + len(kv.V)
			items++
		}
		last := i == len(accounts)-1
		if complete && !(alwaysProve && last) {
			hashes = append(hashes, hs)
			slots = append(slots, vs)
			continue
		}
		// partial (or proof-happy): edge proofs terminate the response
		if len(hs) > 0 {
			hashes = append(hashes, hs)
			slots = append(slots, vs)
		}
		proof = prove(tr, org)
		if len(kvs) > 0 {
			proof = mergeProofs(proof, prove(tr, kvs[len(kvs)-1].K))
		}
		break
	}
	return
}

// compactToNibbles decodes a hex-prefix encoded path (no terminator expected).
func compactToNibbles(c []byte) ([]byte, bool) {
	if len(c) == 0 {
		return nil, true // the trie package encodes the empty path as empty compact too
	}
	n, _, ok := refmpt.UnHP(c)
	return n, ok
}

// trieNodes answers a GetTrieNodes request in request order; unknown nodes are skipped.
func trieNodes(st *stateData, pathsets [][][]byte) [][]byte {
	var out [][]byte
	for _, ps := range pathsets {
		switch len(ps) {
		case 0:
		case 1:
			nib, ok := compactToNibbles(ps[0])
			if !ok {
				continue
			}
			if blob, ok := st.acctTrie.Nodes[string(nib)]; ok {
				out = append(out, blob)
			}
		default:
			tr := st.stor[string(ps[0])]
			if tr == nil {
				continue
			}
			for _, p := range ps[1:] {
				nib, ok := compactToNibbles(p)
				if !ok {
					continue
				}
				if blob, ok := tr.Nodes[string(nib)]; ok {
					out = append(out, blob)
				}
			}
		}
	}
	return out
}
