package main

// Completion oracle: after Sync returned nil for target T, the database content is
// compared with the ground truth of T.

import (
	"bytes"
	"fmt"

	"verif/lib/refmpt"
)

type oracleOpts struct {
	exactFlat  bool // flat state must equal the target exactly (else: every entry genuine for a targeted state)
	exactNodes bool // path scheme: the trie-node key space must equal the target's node set exactly
}

type diffs struct {
	n    int
	msgs []string
}

func (d *diffs) add(format string, a ...any) {
	d.n++
	if len(d.msgs) < 8 {
		d.msgs = append(d.msgs, fmt.Sprintf(format, a...))
	}
}

// checkCompletion compares the store with target t. It returns per-class difference lists
// and the number of comparisons made.
func checkCompletion(db *recDB, t *stateData, c *chain, g *genuine, adm *bits, pathScheme bool, o oracleOpts) (res map[string]*diffs, compared int) {
	res = map[string]*diffs{}
	d := func(class string) *diffs {
		if res[class] == nil {
			res[class] = &diffs{}
		}
		return res[class]
	}
	// dump the store
	flatAcc := map[string][]byte{}
	flatSlot := map[string][]byte{}
	codes := map[string][]byte{}
	hashNodes := map[string][]byte{}
	pathNodes := map[string][]byte{} // 'A'+path / 'O'+owner+path
	it := db.raw().NewIterator(nil, nil)
	for it.Next() {
		k, v := it.Key(), it.Value()
		switch {
		case len(k) == 33 && k[0] == 'a':
			flatAcc[string(k[1:])] = append([]byte{}, v...)
		case len(k) == 65 && k[0] == 'o':
			flatSlot[string(k[1:])] = append([]byte{}, v...)
		case len(k) == 33 && k[0] == 'c':
			codes[string(k[1:])] = append([]byte{}, v...)
		case !pathScheme && len(k) == 32:
			hashNodes[string(k)] = append([]byte{}, v...)
		case pathScheme && k[0] == 'A' && len(k) <= 65 && isNibbles(k[1:]):
			pathNodes[string(k)] = append([]byte{}, v...)
		case pathScheme && k[0] == 'O' && len(k) >= 33 && len(k) <= 97 && isNibbles(k[33:]):
			pathNodes[string(k)] = append([]byte{}, v...)
		}
	}
	it.Release()

	// ---- flat accounts and storage
	wantSlots := 0
	for h := range t.accts {
		want := t.slim(h)
		have, ok := flatAcc[h]
		compared++
		switch {
		case !ok:
			if o.exactFlat {
				d("flat-account-missing").add("account %x missing from the flat state", h)
			}
		case !bytes.Equal(have, want):
			if o.exactFlat {
				d("flat-account-different").add("account %x: flat %x want %x", h, have, want)
			} else if !lookup(g.acctSlim, h, digest(have)).meets(adm) {
				d("flat-account-not-genuine").add("account %x: flat %x is no targeted state's account", h, have)
			}
		}
		if tr := t.stor[h]; tr != nil {
			for _, kv := range tr.Sorted {
				wantSlots++
				compared++
				have, ok := flatSlot[h+string(kv.K)]
				switch {
				case !ok:
					if o.exactFlat {
						d("flat-slot-missing").add("slot %x/%x missing from the flat state", h, kv.K)
					}
				case !bytes.Equal(have, kv.V):
					if o.exactFlat {
						d("flat-slot-different").add("slot %x/%x: flat %x want %x", h, kv.K, have, kv.V)
					} else if !lookup(g.slot, h+string(kv.K), digest(have)).meets(adm) {
						d("flat-slot-not-genuine").add("slot %x/%x: flat %x is no targeted state's value", h, kv.K, have)
					}
				}
			}
		}
	}
	for h, have := range flatAcc {
		if _, ok := t.accts[h]; ok {
			continue
		}
		compared++
		if o.exactFlat {
			d("flat-account-extra").add("flat state holds account %x (%x) that the target does not have", h, have)
		} else if !lookup(g.acctSlim, h, digest(have)).meets(adm) {
			d("flat-account-not-genuine").add("extra account %x: flat %x is no targeted state's account", h, have)
		}
	}
	if len(flatSlot) != wantSlots || !o.exactFlat {
		for k, have := range flatSlot {
			h, sk := k[:32], k[32:]
			if tr := t.stor[h]; tr != nil && tr.Get([]byte(sk)) != nil {
				continue
			}
			compared++
			if o.exactFlat {
				d("flat-slot-extra").add("flat state holds slot %x/%x (%x) that the target does not have", h, sk, have)
			} else if !lookup(g.slot, k, digest(have)).meets(adm) {
				d("flat-slot-not-genuine").add("extra slot %x/%x: flat %x is no targeted state's value", h, sk, have)
			}
		}
	}

	// ---- codes
	for h, a := range t.accts {
		if len(a.Code) == 0 {
			continue
		}
		compared++
		ch := string(a.CodeHash())
		have, ok := codes[ch]
		if !ok {
			d("code-missing").add("code %x of account %x missing", ch, h)
		} else if !bytes.Equal(have, a.Code) {
			d("code-different").add("code %x of account %x differs", ch, h)
		}
	}
	for ch, blob := range codes {
		compared++
		if string(refmpt.Keccak(blob)) != ch {
			d("code-hash-mismatch").add("stored code under %x does not hash to its key", ch)
		}
	}

	// ---- trie
	if pathScheme {
		want := map[string][]byte{}
		for p, blob := range t.acctTrie.Nodes {
			want["A"+p] = blob
		}
		for h, tr := range t.stor {
			for p, blob := range tr.Nodes {
				want["O"+h+p] = blob
			}
		}
		for k, blob := range want {
			compared++
			have, ok := pathNodes[k]
			if !ok {
				d("trie-node-missing").add("path-scheme node %q(%x) missing", k[:1], k[1:])
			} else if !bytes.Equal(have, blob) {
				d("trie-node-different").add("path-scheme node %q(%x) differs: have %x want %x", k[:1], k[1:], have, blob)
			}
		}
		for k, have := range pathNodes {
			if _, ok := want[k]; ok {
				continue
			}
			compared++
			if o.exactNodes {
				d("trie-node-extra").add("path-scheme node %q(%x) = %x is not part of the target", k[:1], k[1:], have)
			} else if !lookup(g.node, k, digest(have)).meets(adm) {
				d("trie-node-not-genuine").add("left-over path-scheme node %q(%x) is no targeted state's node", k[:1], k[1:])
			}
		}
	} else {
		// hash scheme: everything reachable from the root must be present and authentic.
		// Walk the *database* from the target root with the harness's own node decoder and
		// compare the reachable set with the target's node set.
		want := map[string][]byte{}
		for _, blob := range t.acctTrie.Nodes {
			want[string(refmpt.Keccak(blob))] = blob
		}
		for _, tr := range t.stor {
			for _, blob := range tr.Nodes {
				want[string(refmpt.Keccak(blob))] = blob
			}
		}
		for h, blob := range want {
			compared++
			have, ok := hashNodes[h]
			if !ok {
				d("trie-node-missing").add("hash-scheme node %x missing", h)
			} else if !bytes.Equal(have, blob) {
				d("trie-node-different").add("hash-scheme node %x differs", h)
			}
		}
		// reachability walk over the account trie in the database
		seen := map[string]bool{}
		var walk func(h []byte, depth int)
		walk = func(h []byte, depth int) {
			if seen[string(h)] || depth > 80 {
				return
			}
			seen[string(h)] = true
			blob, ok := hashNodes[string(h)]
			compared++
			if !ok {
				d("trie-unreachable").add("node %x referenced from the synced root is absent", h)
				return
			}
			if _, ok := want[string(h)]; !ok {
				d("trie-foreign-node").add("node %x reachable from the synced root is not a target node", h)
			}
			for _, ch := range refmpt.ChildRefs(blob) {
				walk(ch, depth+1)
			}
		}
		walk(t.root[:], 0)
		for h, tr := range t.stor {
			_ = h
			walk(tr.Root, 0)
		}
	}
	return res, compared
}
