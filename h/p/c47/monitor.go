package main

// kvrec-lite: an ethdb.KeyValueStore wrapper over memorydb that reports every mutation
// that becomes visible in the store (direct Put/Delete/DeleteRange and, at Write time,
// every operation of a batch) to a write monitor, plus the "genuineness" index the
// monitor judges against.

import (
	"encoding/binary"
	"hash/fnv"
	"sync"
	"sync/atomic"

	"github.com/ethereum/go-ethereum/ethdb"
	"github.com/ethereum/go-ethereum/ethdb/memorydb"

	"verif/lib/flatstate"
	"verif/lib/refmpt"
)

// ---------------------------------------------------------------------------------------
// genuineness index

// bits is a set of state indices (stateData.idx < maxStates).
type bits [4]uint64

const maxStates = 256

func bit(i int) (b bits) { b[i>>6] = 1 << uint(i&63); return }
func (b bits) or(o bits) bits {
	for i := range b {
		b[i] |= o[i]
	}
	return b
}
func (b bits) meets(o *bits) bool {
	for i := range b {
		if b[i]&o[i] != 0 {
			return true
		}
	}
	return false
}

type valMask struct {
	h    uint64 // 64-bit digest of the value
	mask bits   // states in which the key has this value
}

func digest(b []byte) uint64 {
	h := fnv.New64a()
	h.Write(b)
	return h.Sum64()
}

type genuine struct {
	acctSlim  map[string][]valMask // account hash -> slim RLP digests
	acctTuple map[string][]valMask // account hash -> digest(nonce|balance|codehash)
	acctRoot  map[string][]valMask // account hash -> digest(storage root)
	slot      map[string][]valMask // account hash + slot hash -> digest(rlp(value))
	node      map[string][]valMask // owner(32 bytes or none) + path nibbles -> digest(blob); key prefixed by 'A' / 'O'
	nodeHash  map[string]bits      // keccak(blob) -> states mask (hash-scheme membership)
}

func add(m map[string][]valMask, k string, h uint64, mask bits) {
	l := m[k]
	for i := range l {
		if l[i].h == h {
			l[i].mask = l[i].mask.or(mask)
			return
		}
	}
	m[k] = append(l, valMask{h, mask})
}

func lookup(m map[string][]valMask, k string, h uint64) bits {
	for _, e := range m[k] {
		if e.h == h {
			return e.mask
		}
	}
	return bits{}
}

func tupleDigest(nonce uint64, balance, codeHash []byte) uint64 {
	var n [8]byte
	binary.BigEndian.PutUint64(n[:], nonce)
	h := fnv.New64a()
	h.Write(n[:])
	h.Write([]byte{byte(len(balance))})
	h.Write(balance)
	h.Write(codeHash)
	return h.Sum64()
}

func buildGenuine(c *chain) *genuine {
	g := &genuine{acctSlim: map[string][]valMask{}, acctTuple: map[string][]valMask{}, acctRoot: map[string][]valMask{},
		slot: map[string][]valMask{}, node: map[string][]valMask{}, nodeHash: map[string]bits{}}
	acctMask := map[*acct]bits{}
	type ownedTrie struct {
		owner string
		t     *refmpt.Trie
	}
	trieMask := map[ownedTrie]bits{}
	for _, s := range c.states {
		bit := bit(s.idx)
		for h, a := range s.accts {
			acctMask[a] = acctMask[a].or(bit)
			if t := s.stor[h]; t != nil {
				trieMask[ownedTrie{h, t}] = trieMask[ownedTrie{h, t}].or(bit)
			}
		}
		for p, blob := range s.acctTrie.Nodes {
			add(g.node, "A"+p, digest(blob), bit)
			g.nodeHash[string(refmpt.Keccak(blob))] = g.nodeHash[string(refmpt.Keccak(blob))].or(bit)
		}
	}
	for a, mask := range acctMask {
		root := refmpt.EmptyRoot
		if t := c.stCache[a]; t != nil && len(a.Slots) > 0 {
			root = t.Root
		}
		add(g.acctSlim, a.Hash, digest(a.Slim(root)), mask)
		add(g.acctTuple, a.Hash, tupleDigest(a.Nonce, a.Balance, a.CodeHash()), mask)
		add(g.acctRoot, a.Hash, digest(root), mask)
	}
	for ot, mask := range trieMask {
		for _, kv := range ot.t.Sorted {
			add(g.slot, ot.owner+string(kv.K), digest(kv.V), mask)
		}
		for p, blob := range ot.t.Nodes {
			add(g.node, "O"+ot.owner+p, digest(blob), mask)
			g.nodeHash[string(refmpt.Keccak(blob))] = g.nodeHash[string(refmpt.Keccak(blob))].or(mask)
		}
	}
	return g
}

// ---------------------------------------------------------------------------------------
// write monitor

type writeKind int

const (
	wPut writeKind = iota
	wDel
	wDelRange
)

// monitor judges every write. It is shared by all goroutines of the syncer.
type monitor struct {
	c       *caseCtx
	g       *genuine
	version int
	path    bool // path scheme

	admissible atomic.Pointer[bits] // mask of states that have been sync targets (or catch-up waypoints) so far
	strictV2   atomic.Bool          // v2: trie nodes must belong to an admissible state

	mu     sync.Mutex
	counts map[string]int
	other  map[string]int // unclassified key shapes
}

func (m *monitor) count(k string) {
	m.mu.Lock()
	m.counts[k]++
	m.mu.Unlock()
}

func isNibbles(p []byte) bool {
	for _, b := range p {
		if b > 15 {
			return false
		}
	}
	return true
}

func (m *monitor) onWrite(kind writeKind, key, value []byte) {
	if kind != wPut {
		if kind == wDel {
			m.count("deletes")
		} else {
			m.count("delete_ranges")
		}
		return
	}
	m.c.onPut()
	adm := m.admissible.Load()
	switch {
	case len(key) == 33 && key[0] == 'a':
		m.count("puts_flat_account")
		h := string(key[1:])
		if m.version == 1 {
			if !lookup(m.g.acctSlim, h, digest(value)).meets(adm) {
				m.c.violation("write:flat-account-not-genuine", "flat account written that is not the account of any targeted state", key, value)
			}
			return
		}
		// snap/2 deliberately leaves the storage root stale during catch-up: judge the
		// (nonce, balance, codehash) tuple and the root separately.
		d, err := flatstate.DecodeAccount(value)
		if err != nil {
			m.c.violation("write:flat-account-undecodable", "undecodable flat account written: "+err.Error(), key, value)
			return
		}
		if !lookup(m.g.acctTuple, h, tupleDigest(d.Nonce, d.Balance, d.CodeHash)).meets(adm) {
			m.c.violation("write:flat-account-not-genuine", "flat account (nonce,balance,codehash) written that no targeted state holds", key, value)
		}
		if string(d.Root) != string(refmpt.EmptyRoot) && !lookup(m.g.acctRoot, h, digest(d.Root)).meets(adm) {
			m.c.violation("write:flat-account-root-not-genuine", "flat account written with a storage root no targeted state holds", key, value)
		}
	case len(key) == 65 && key[0] == 'o':
		m.count("puts_flat_slot")
		if !lookup(m.g.slot, string(key[1:]), digest(value)).meets(adm) {
			m.c.violation("write:flat-slot-not-genuine", "flat storage slot written that is not the slot value of any targeted state", key, value)
		}
	case len(key) == 33 && key[0] == 'c':
		m.count("puts_code")
		if string(refmpt.Keccak(value)) != string(key[1:]) {
			m.c.violation("write:code-hash-mismatch", "bytecode stored under a key that is not its hash", key, value)
		}
	case !m.path && len(key) == 32:
		m.count("puts_trienode_hash")
		kh := refmpt.Keccak(value)
		if string(kh) != string(key) {
			m.c.violation("write:trienode-hash-mismatch", "trie node stored under a key that is not its hash", key, value)
		} else if m.strictV2.Load() && !m.g.nodeHash[string(key)].meets(adm) {
			m.c.violation("write:trienode-not-genuine", "generated trie node is not a node of any targeted state", key, value)
		}
	case m.path && key[0] == 'A' && len(key) <= 1+64 && isNibbles(key[1:]):
		m.count("puts_trienode_path_account")
		if m.version == 2 && !m.strictV2.Load() {
			return
		}
		if !lookup(m.g.node, string(key), digest(value)).meets(adm) {
			m.c.violation("write:path-node-not-genuine", "account trie node written that is not the node at that path in any targeted state", key, value)
		}
	case m.path && key[0] == 'O' && len(key) >= 33 && len(key) <= 33+64 && isNibbles(key[33:]):
		m.count("puts_trienode_path_storage")
		if m.version == 2 && !m.strictV2.Load() {
			return
		}
		if !lookup(m.g.node, string(key), digest(value)).meets(adm) {
			m.c.violation("write:path-node-not-genuine", "storage trie node written that is not the node at that path in any targeted state", key, value)
		}
	default:
		m.mu.Lock()
		m.counts["puts_other"]++
		shape := string(key)
		if len(shape) > 12 {
			shape = shape[:12]
		}
		m.other[shape]++
		m.mu.Unlock()
	}
}

// ---------------------------------------------------------------------------------------
// store wrapper

type recDB struct {
	*memorydb.Database
	mon  *monitor
	lock sync.Mutex // makes "apply + report" of one mutation atomic with respect to others
}

func newRecDB(mon *monitor) *recDB { return &recDB{Database: memorydb.New(), mon: mon} }

func (d *recDB) Put(key, value []byte) error {
	d.lock.Lock()
	defer d.lock.Unlock()
	d.mon.onWrite(wPut, key, value)
	return d.Database.Put(key, value)
}

func (d *recDB) Delete(key []byte) error {
	d.lock.Lock()
	defer d.lock.Unlock()
	d.mon.onWrite(wDel, key, nil)
	return d.Database.Delete(key)
}

func (d *recDB) DeleteRange(start, end []byte) error {
	d.lock.Lock()
	defer d.lock.Unlock()
	d.mon.onWrite(wDelRange, start, end)
	return d.Database.DeleteRange(start, end)
}

func (d *recDB) NewBatch() ethdb.Batch { return &recBatch{Batch: d.Database.NewBatch(), db: d} }
func (d *recDB) NewBatchWithSize(size int) ethdb.Batch {
	return &recBatch{Batch: d.Database.NewBatchWithSize(size), db: d}
}

// raw gives the harness unmonitored access (headers, canonical hashes, dumps).
func (d *recDB) raw() *memorydb.Database { return d.Database }

type recBatch struct {
	ethdb.Batch
	db *recDB
}

type replayer struct{ m *monitor }

func (r replayer) Put(key, value []byte) error { r.m.onWrite(wPut, key, value); return nil }
func (r replayer) Delete(key []byte) error     { r.m.onWrite(wDel, key, nil); return nil }
func (r replayer) DeleteRange(start, end []byte) error {
	r.m.onWrite(wDelRange, start, end)
	return nil
}

func (b *recBatch) Write() error {
	b.db.lock.Lock()
	defer b.db.lock.Unlock()
	b.db.mon.count("batch_writes")
	if err := b.Batch.Replay(replayer{b.db.mon}); err != nil {
		return err
	}
	return b.Batch.Write()
}
