package main

// In-process snap peers with per-request random behaviour.

import (
	"bytes"
	"errors"
	"fmt"
	"math/rand"
	"strings"
	"sync"
	"time"

	"github.com/ethereum/go-ethereum/common"
	"github.com/ethereum/go-ethereum/core/types/bal"
	"github.com/ethereum/go-ethereum/eth/protocols/snap"
	"github.com/ethereum/go-ethereum/log"
	"github.com/ethereum/go-ethereum/rlp"
	"github.com/holiman/uint256"

	"verif/lib/vrt"
)

// behaviour kinds. "valid" kinds are honest (possibly partial / unusual but correct)
// responses; everything else is a protocol violation by the peer.
var (
	rangeHostile = []string{"wrongroot", "dropproof", "corruptvalue", "swapvalue", "unsorted", "duplicate", "gap", "before",
		"emptyreject", "emptyproofmid", "noproof", "corruptkey"}
	storHostile = []string{"setsmismatch", "toomanysets", "swapsets"}
	codeHostile = []string{"corruptblob", "extrablob", "reorder", "emptyreject", "duplicate"}
	nodeHostile = []string{"corruptblob", "substitute", "reorder", "emptyreject", "duplicate"}
	balHostile  = []string{"refuse", "forged", "swapped", "garbage", "toomany", "emptyreject"}
	protoKinds  = []string{"silent", "late", "unknownid", "double", "unregister", "sendfail"}
)

func family(msg, kind string) string {
	switch kind {
	case "honest", "partial", "bloat", "beyondlimit", "proofhappy":
		return ""
	}
	for _, k := range protoKinds {
		if k == kind {
			return "proto"
		}
	}
	switch msg {
	case "acct", "stor":
		switch kind {
		case "wrongroot", "dropproof", "emptyproofmid", "noproof":
			return "rangeproof"
		}
		return "rangedata"
	}
	return msg // code, node, bal
}

type peer struct {
	id      string
	c       *caseCtx
	logger  log.Logger
	anchor  bool    // never misbehaves (keeps the sync able to finish)
	partial float64 // probability of truncating an honest response
	hostile float64 // probability of misbehaving on a request

	mu    sync.Mutex
	rng   *rand.Rand
	stale []func() // late deliveries, flushed at the next request
	gen   int
}

func (p *peer) ID() string      { return p.id }
func (p *peer) Log() log.Logger { return p.logger }

func (p *peer) clone() *peer {
	p.mu.Lock()
	defer p.mu.Unlock()
	p.gen++
	base := p.id
	if i := strings.IndexByte(base, '#'); i >= 0 {
		base = base[:i]
	}
	return &peer{id: fmt.Sprintf("%s#%d", base, p.c.peerSeq.Add(1)), c: p.c, logger: p.logger, partial: p.partial,
		hostile: p.hostile, rng: rand.New(rand.NewSource(p.rng.Int63()))}
}

func (p *peer) intn(n int) int {
	p.mu.Lock()
	defer p.mu.Unlock()
	if n <= 0 {
		return 0
	}
	return p.rng.Intn(n)
}

func (p *peer) float() float64 {
	p.mu.Lock()
	defer p.mu.Unlock()
	return p.rng.Float64()
}

// itemCap draws the number of items an honest-but-partial response carries.
func (p *peer) itemCap() int {
	switch r := p.intn(10); {
	case r < 1:
		return 1 + p.intn(4)
	case r < 5:
		return 5 + p.intn(46)
	default:
		return 50 + p.intn(450)
	}
}

// choose picks the behaviour for one request of message family msg.
func (p *peer) choose(msg string, hostileKinds []string) string {
	c := p.c
	if !p.anchor && c.hostile && p.float() < p.hostile {
		var pool []string
		for _, k := range hostileKinds {
			if c.enabled[k] {
				pool = append(pool, k)
			}
		}
		for _, k := range protoKinds {
			if c.enabled[k] && (k != "silent" && k != "late" || c.shortTTL) {
				pool = append(pool, k)
			}
		}
		if len(pool) > 0 && c.budget.Add(-1) >= 0 {
			return pool[p.intn(len(pool))]
		}
	}
	if p.float() < p.partial {
		return "partial"
	}
	if r := p.intn(40); r == 0 && (msg == "acct" || msg == "stor") {
		return "bloat"
	} else if r == 1 && msg == "acct" {
		return "beyondlimit"
	} else if r == 2 && msg == "stor" {
		return "proofhappy"
	}
	return "honest"
}

// flushStale delivers the responses this peer withheld earlier. It also adds a little
// random latency so that responses of different peers overtake each other (schedule
// variety only; no verdict depends on it).
func (p *peer) flushStale() {
	if p.intn(4) == 0 {
		time.Sleep(time.Duration(p.intn(3000)) * time.Microsecond)
	}
	p.mu.Lock()
	st := p.stale
	p.stale = nil
	p.mu.Unlock()
	for _, f := range st {
		f()
	}
}

// deliver calls the syncer's callback, converts panics into violations, records the
// verdict and applies the real handler's policy (a peer whose delivery is rejected is
// dropped; here it rejoins under a fresh id).
func (p *peer) deliver(msg, kind string, syn snap.Syncer, call func() error) {
	c := p.c
	var err error
	perr, stack := vrt.Recover(func() { err = call() })
	if perr != nil {
		c.violation("panic:"+msg+":"+vrt.PanicSite(stack), fmt.Sprintf("panic while delivering a %s/%s response: %v\n%s", msg, kind, perr, stack), nil, nil)
	}
	c.noteVerdict(msg, kind, err)
	if err != nil {
		if family(msg, kind) == "" && !c.cancelled() {
			c.violation("honest-response-rejected:"+msg, fmt.Sprintf("the syncer rejected a correct %s response (%s): %v", msg, kind, err), nil, nil)
		}
		p.rejoin(syn)
	}
	c.onResponse()
}

// rejoin unregisters the peer and registers a fresh identity with the same profile.
func (p *peer) rejoin(syn snap.Syncer) {
	if p.anchor {
		return
	}
	syn.Unregister(p.id)
	c := p.c
	if c.cur() != syn {
		return
	}
	np := p.clone()
	c.addPeer(np)
	syn.Register(np)
	c.count("peer_rejoins", 1)
}

func flip(b []byte, rng func(int) int) []byte {
	out := append([]byte{}, b...)
	if len(out) == 0 {
		return []byte{0x01}
	}
	out[rng(len(out))] ^= byte(1 + rng(255))
	return out
}

// protoAct handles the message-independent misbehaviours. It returns true if the request
// has been dealt with. honest is a closure delivering the correct response under an id.
func (p *peer) protoAct(kind, msg string, id uint64, syn snap.Syncer, honest func(id uint64, kind string)) bool {
	switch kind {
	case "silent":
		p.c.noteKind(msg, kind)
		return true
	case "late":
		p.c.noteKind(msg, kind)
		p.mu.Lock()
		p.stale = append(p.stale, func() { honest(id, "late") })
		p.mu.Unlock()
		return true
	case "unknownid":
		p.c.noteKind(msg, kind)
		honest(id^uint64(1+p.intn(1<<30)), "unknownid")
		honest(id, "honest")
		return true
	case "double":
		p.c.noteKind(msg, kind)
		honest(id, "honest")
		honest(id, "double")
		return true
	case "unregister":
		p.c.noteKind(msg, kind)
		p.rejoin(syn)
		return true
	}
	return false
}

// ---------------------------------------------------------------------------------------
// account ranges

type rangeResp struct {
	hashes []common.Hash
	vals   [][]byte
	proof  [][]byte
}

// mutateRange applies a hostile transformation to a correct range response. other supplies
// a genuine (key,value) preceding the origin and a genuine foreign value.
func (p *peer) mutateRange(kind string, r rangeResp, before *rangeResp) (rangeResp, string) {
	n := len(r.hashes)
	cp := rangeResp{append([]common.Hash{}, r.hashes...), append([][]byte{}, r.vals...), append([][]byte{}, r.proof...)}
	switch kind {
	case "dropproof":
		if len(cp.proof) > 0 {
			i := p.intn(len(cp.proof))
			cp.proof = append(cp.proof[:i], cp.proof[i+1:]...)
			return cp, kind
		}
	case "noproof":
		if len(cp.proof) > 0 && n > 0 {
			cp.proof = nil
			return cp, kind
		}
	case "corruptvalue":
		if n > 0 {
			i := p.intn(n)
			cp.vals[i] = flip(cp.vals[i], p.intn)
			return cp, kind
		}
	case "swapvalue":
		if n > 1 {
			i := p.intn(n - 1)
			if !bytes.Equal(cp.vals[i], cp.vals[i+1]) {
				cp.vals[i], cp.vals[i+1] = cp.vals[i+1], cp.vals[i]
				return cp, kind
			}
		}
	case "unsorted":
		if n > 1 {
			i := p.intn(n - 1)
			cp.hashes[i], cp.hashes[i+1] = cp.hashes[i+1], cp.hashes[i]
			cp.vals[i], cp.vals[i+1] = cp.vals[i+1], cp.vals[i]
			return cp, kind
		}
	case "duplicate":
		if n > 0 {
			i := p.intn(n)
			cp.hashes = append(cp.hashes[:i+1], cp.hashes[i:]...)
			cp.vals = append(cp.vals[:i+1], cp.vals[i:]...)
			return cp, kind
		}
	case "gap":
		if n > 2 {
			i := 1 + p.intn(n-2)
			cp.hashes = append(cp.hashes[:i], cp.hashes[i+1:]...)
			cp.vals = append(cp.vals[:i], cp.vals[i+1:]...)
			return cp, kind
		}
	case "before":
		if before != nil && len(before.hashes) > 0 {
			cp.hashes = append([]common.Hash{before.hashes[0]}, cp.hashes...)
			cp.vals = append([][]byte{before.vals[0]}, cp.vals...)
			return cp, kind
		}
	case "corruptkey":
		if n > 0 {
			i := p.intn(n)
			cp.hashes[i][31-p.intn(4)] ^= byte(1 + p.intn(255))
			return cp, kind
		}
	case "emptyproofmid":
		if n > 0 && len(cp.proof) > 0 {
			return rangeResp{nil, nil, cp.proof}, kind
		}
	}
	// not applicable to this response: fall back to a flat refusal
	return rangeResp{}, "emptyreject"
}

func (p *peer) RequestAccountRange(id uint64, root, origin, limit common.Hash, bytes int) error {
	p.c.count("req_account_range", 1)
	kind := p.choose("acct", rangeHostile)
	if kind == "sendfail" {
		p.c.noteKind("acct", kind)
		return errors.New("send failed")
	}
	go p.handleAccounts(kind, id, root, origin, limit, bytes)
	return nil
}

func (p *peer) handleAccounts(kind string, id uint64, root, origin, limit common.Hash, maxBytes int) {
	c := p.c
	p.flushStale()
	syn := c.cur()
	st := c.ch.byRoot[root]
	honest := func(id uint64, k string) {
		if st == nil {
			p.deliver("acct", "unknownroot", syn, func() error { return syn.OnAccounts(p, id, nil, nil, nil) })
			return
		}
		h, v, pr := accountRange(st, origin, limit, maxBytes, 1<<30)
		p.deliver("acct", k, syn, func() error { return syn.OnAccounts(p, id, h, v, pr) })
	}
	if p.protoAct(kind, "acct", id, syn, honest) {
		return
	}
	if st == nil {
		honest(id, "honest")
		return
	}
	items := 1 << 30
	lim := limit
	switch kind {
	case "partial":
		items = p.itemCap()
	case "beyondlimit":
		lim = common.MaxHash // ignore the limit: correct data, more than asked for
	case "wrongroot":
		st = c.otherState(st, p)
	}
	h, v, pr := accountRange(st, origin, lim, maxBytes, items)
	r := rangeResp{h, v, pr}
	switch kind {
	case "honest", "partial", "beyondlimit", "wrongroot":
	case "bloat":
		// valid: extra proof nodes (paths of a few delivered keys)
		for i := 0; i < 3 && len(h) > 0; i++ {
			r.proof = mergeProofs(r.proof, prove(st.acctTrie, h[p.intn(len(h))][:]))
		}
	case "emptyreject":
		r = rangeResp{}
	default:
		var before *rangeResp
		if kind == "before" && origin != (common.Hash{}) {
			bh, bv, _ := accountRange(st, common.Hash{}, common.Hash{}, 1<<30, 1)
			if len(bh) > 0 && bytes.Compare(bh[0][:], origin[:]) < 0 {
				before = &rangeResp{hashes: bh, vals: bv}
			}
		}
		r, kind = p.mutateRange(kind, r, before)
	}
	c.noteKind("acct", kind)
	p.deliver("acct", kind, syn, func() error { return syn.OnAccounts(p, id, r.hashes, r.vals, r.proof) })
}

// ---------------------------------------------------------------------------------------
// storage ranges

func (p *peer) RequestStorageRanges(id uint64, root common.Hash, accounts []common.Hash, origin, limit []byte, bytes int) error {
	p.c.count("req_storage_ranges", 1)
	if len(accounts) == 1 && len(origin) > 0 && common.BytesToHash(origin) != (common.Hash{}) {
		p.c.count("req_storage_subrange", 1)
		if len(limit) > 0 && common.BytesToHash(limit) != common.MaxHash {
			p.c.count("req_storage_subrange_bounded", 1)
		}
	}
	kind := p.choose("stor", append(append([]string{}, rangeHostile...), storHostile...))
	if kind == "sendfail" {
		p.c.noteKind("stor", kind)
		return errors.New("send failed")
	}
	go p.handleStorage(kind, id, root, append([]common.Hash{}, accounts...), append([]byte{}, origin...), append([]byte{}, limit...), bytes)
	return nil
}

func (p *peer) handleStorage(kind string, id uint64, root common.Hash, accounts []common.Hash, origin, limit []byte, maxBytes int) {
	c := p.c
	p.flushStale()
	syn := c.cur()
	st := c.ch.byRoot[root]
	honest := func(id uint64, k string) {
		if st == nil {
			p.deliver("stor", "unknownroot", syn, func() error { return syn.OnStorage(p, id, nil, nil, nil) })
			return
		}
		h, s, pr := storageRanges(st, accounts, origin, limit, maxBytes, 1<<30, false)
		p.deliver("stor", k, syn, func() error { return syn.OnStorage(p, id, h, s, pr) })
	}
	if p.protoAct(kind, "stor", id, syn, honest) {
		return
	}
	if st == nil {
		honest(id, "honest")
		return
	}
	items := 1 << 30
	src := st
	switch kind {
	case "partial":
		items = p.itemCap()
	case "wrongroot":
		src = c.otherState(st, p)
	}
	h, s, pr := storageRanges(src, accounts, origin, limit, maxBytes, items, kind == "proofhappy")
	if kind == "partial" || kind == "honest" {
		// A contract with mined low-hash slots: a correct response that stops right after
		// those slots makes the syncer estimate a huge contract and split it into many
		// sub-ranges (the large-contract path with few slots).
		zeroOrigin := len(origin) == 0 || common.BytesToHash(origin) == (common.Hash{})
		for j, acc := range accounts {
			if c.mined[string(acc[:])] && (j > 0 || zeroOrigin) && p.intn(3) != 0 {
				fh, fs, fpr := storageRanges(src, accounts[:j], origin, limit, 1<<30, 1<<30, false)
				if len(fh) == j && len(fpr) == 0 {
					mh, ms, mpr := storageRanges(src, accounts[j:j+1], nil, nil, 1<<30, 2+p.intn(2), false)
					if len(mh) == 1 && len(mpr) > 0 {
						h, s, pr = append(fh, mh...), append(fs, ms...), mpr
						kind = "partial"
						c.count("mined_truncations", 1)
					}
				}
				break
			}
		}
	}
	switch kind {
	case "honest", "partial", "proofhappy", "wrongroot":
	case "bloat":
		if len(h) > 0 && len(pr) > 0 {
			last := len(h) - 1
			if tr := st.stor[string(accounts[last][:])]; tr != nil && len(h[last]) > 0 {
				pr = mergeProofs(pr, prove(tr, h[last][p.intn(len(h[last]))][:]))
			}
		}
	case "emptyreject":
		h, s, pr = nil, nil, nil
	case "setsmismatch":
		if len(h) > 0 {
			s = s[:len(s)-1]
		} else {
			kind = "emptyreject"
		}
	case "toomanysets":
		for len(h) <= len(accounts) && len(h) > 0 {
			h = append(h, h[0])
			s = append(s, s[0])
		}
		if len(h) == 0 {
			kind = "emptyreject"
		}
	case "swapsets":
		if len(h) > 1 && !(len(h[0]) == len(h[1]) && len(h[0]) > 0 && h[0][0] == h[1][0] && bytes.Equal(s[0][0], s[1][0])) {
			h[0], h[1] = h[1], h[0]
			s[0], s[1] = s[1], s[0]
		} else {
			h, s, pr, kind = nil, nil, nil, "emptyreject"
		}
	default:
		if len(h) == 0 {
			h, s, pr, kind = nil, nil, nil, "emptyreject"
			break
		}
		// mutate one delivered set (the proven one if the flaw concerns the proof)
		i := len(h) - 1
		if kind != "dropproof" && kind != "noproof" && kind != "emptyproofmid" {
			i = p.intn(len(h))
		}
		var before *rangeResp
		if kind == "before" && i == 0 && len(origin) > 0 && common.BytesToHash(origin) != (common.Hash{}) {
			if tr := st.stor[string(accounts[0][:])]; tr != nil && len(tr.Sorted) > 0 && bytes.Compare(tr.Sorted[0].K, common.BytesToHash(origin).Bytes()) < 0 {
				before = &rangeResp{hashes: []common.Hash{common.BytesToHash(tr.Sorted[0].K)}, vals: [][]byte{tr.Sorted[0].V}}
			}
		}
		var r rangeResp
		r, kind = p.mutateRange(kind, rangeResp{h[i], s[i], pr}, before)
		if kind == "emptyreject" {
			h, s, pr = nil, nil, nil
		} else if kind == "emptyproofmid" {
			h, s, pr = h[:i], s[:i], r.proof
		} else {
			h[i], s[i], pr = r.hashes, r.vals, r.proof
		}
	}
	c.noteKind("stor", kind)
	p.deliver("stor", kind, syn, func() error { return syn.OnStorage(p, id, h, s, pr) })
}

// ---------------------------------------------------------------------------------------
// bytecodes

func (p *peer) RequestByteCodes(id uint64, hashes []common.Hash, bytes int) error {
	p.c.count("req_bytecodes", 1)
	kind := p.choose("code", codeHostile)
	if kind == "sendfail" {
		p.c.noteKind("code", kind)
		return errors.New("send failed")
	}
	go p.handleCodes(kind, id, append([]common.Hash{}, hashes...))
	return nil
}

func (p *peer) handleCodes(kind string, id uint64, hashes []common.Hash) {
	c := p.c
	p.flushStale()
	syn := c.cur()
	gather := func() [][]byte {
		var out [][]byte
		for _, h := range hashes {
			if code, ok := c.ch.codes[string(h[:])]; ok {
				out = append(out, code)
			}
		}
		return out
	}
	honest := func(id uint64, k string) {
		codes := gather()
		p.deliver("code", k, syn, func() error { return syn.OnByteCodes(p, id, codes) })
	}
	if p.protoAct(kind, "code", id, syn, honest) {
		return
	}
	codes := gather()
	switch kind {
	case "partial":
		// an in-order subsequence with at least one element
		var sub [][]byte
		for _, cd := range codes {
			if p.intn(2) == 0 {
				sub = append(sub, cd)
			}
		}
		if len(sub) == 0 && len(codes) > 0 {
			sub = codes[:1]
		}
		codes = sub
	case "corruptblob":
		if len(codes) > 0 {
			i := p.intn(len(codes))
			codes[i] = flip(codes[i], p.intn)
		}
	case "extrablob":
		extra := make([]byte, 1+p.intn(40))
		for i := range extra {
			extra[i] = byte(p.intn(256))
		}
		at := p.intn(len(codes) + 1)
		codes = append(codes[:at], append([][]byte{extra}, codes[at:]...)...)
	case "reorder":
		if len(codes) > 1 && !bytes.Equal(codes[0], codes[len(codes)-1]) {
			codes[0], codes[len(codes)-1] = codes[len(codes)-1], codes[0]
		} else {
			codes, kind = nil, "emptyreject"
		}
	case "duplicate":
		if len(codes) > 0 {
			codes = append(codes, codes[len(codes)-1])
		}
	case "emptyreject":
		codes = nil
	}
	c.noteKind("code", kind)
	p.deliver("code", kind, syn, func() error { return syn.OnByteCodes(p, id, codes) })
}

// ---------------------------------------------------------------------------------------
// trie nodes (snap/1 healing)

func (p *peer) RequestTrieNodes(id uint64, root common.Hash, count int, paths []snap.TrieNodePathSet, bytes int) error {
	p.c.count("req_trienodes", 1)
	p.c.count("req_trienodes_paths", count)
	kind := p.choose("node", nodeHostile)
	if kind == "sendfail" {
		p.c.noteKind("node", kind)
		return errors.New("send failed")
	}
	ps := make([][][]byte, len(paths))
	for i, set := range paths {
		for _, b := range set {
			ps[i] = append(ps[i], append([]byte{}, b...))
		}
	}
	go p.handleNodes(kind, id, root, ps)
	return nil
}

func (p *peer) handleNodes(kind string, id uint64, root common.Hash, paths [][][]byte) {
	c := p.c
	p.flushStale()
	syn := c.cur()
	st := c.ch.byRoot[root]
	gather := func() [][]byte {
		if st == nil {
			return nil
		}
		return trieNodes(st, paths)
	}
	honest := func(id uint64, k string) {
		nodes := gather()
		p.deliver("node", k, syn, func() error { return syn.OnTrieNodes(p, id, nodes) })
	}
	if p.protoAct(kind, "node", id, syn, honest) {
		return
	}
	nodes := gather()
	switch kind {
	case "partial":
		var sub [][]byte
		for _, n := range nodes {
			if p.intn(3) != 0 {
				sub = append(sub, n)
			}
		}
		if len(sub) == 0 && len(nodes) > 0 {
			sub = nodes[:1]
		}
		nodes = sub
	case "corruptblob":
		if len(nodes) > 0 {
			i := p.intn(len(nodes))
			nodes[i] = flip(nodes[i], p.intn)
			c.count("heal_corrupt_nodes_delivered", 1)
		}
	case "substitute":
		// a genuine node of the same state, but not the requested one
		if len(nodes) > 0 && st != nil {
			for _, blob := range st.acctTrie.Nodes {
				if !bytes.Equal(blob, nodes[0]) {
					nodes[p.intn(len(nodes))] = blob
					c.count("heal_substituted_nodes_delivered", 1)
					break
				}
			}
		}
	case "reorder":
		if len(nodes) > 1 && !bytes.Equal(nodes[0], nodes[len(nodes)-1]) {
			nodes[0], nodes[len(nodes)-1] = nodes[len(nodes)-1], nodes[0]
			c.count("heal_reordered_nodes_delivered", 1)
		} else {
			nodes, kind = nil, "emptyreject"
		}
	case "duplicate":
		if len(nodes) > 0 {
			nodes = append(nodes, nodes[len(nodes)-1])
		}
	case "emptyreject":
		nodes = nil
	}
	c.noteKind("node", kind)
	p.deliver("node", kind, syn, func() error { return syn.OnTrieNodes(p, id, nodes) })
}

// ---------------------------------------------------------------------------------------
// block access lists (snap/2 catch-up)

func (p *peer) RequestAccessLists(id uint64, hashes []common.Hash, bytes int) error {
	p.c.count("req_access_lists", 1)
	p.c.count("req_access_lists_blocks", len(hashes))
	kind := p.choose("bal", balHostile)
	if kind == "sendfail" {
		p.c.noteKind("bal", kind)
		return errors.New("send failed")
	}
	go p.handleBALs(kind, id, append([]common.Hash{}, hashes...))
	return nil
}

func (p *peer) handleBALs(kind string, id uint64, hashes []common.Hash) {
	c := p.c
	p.flushStale()
	syn := c.cur()
	gather := func() []rlp.RawValue {
		var out []rlp.RawValue
		for _, h := range hashes {
			if st := c.ch.byHash[h]; st != nil && st.balRaw != nil {
				out = append(out, st.balRaw)
			} else {
				out = append(out, rlp.EmptyString)
			}
		}
		return out
	}
	send := func(id uint64, k string, items []rlp.RawValue) {
		built, err := rlp.EncodeToRawList(items)
		if err != nil {
			panic(err)
		}
		// Hand over what the wire decoder would hand over: EncodeToRawList trusts that every
		// element is exactly one RLP value, which a hostile "garbage" element (a flipped header
		// can turn one value into two) need not be; a RawList built that way has an item count
		// that disagrees with its content and makes RawList.Items panic — a state the message
		// decoder (RawList.DecodeRLP counts the values itself) can never produce. A response
		// the decoder rejects never reaches the syncer.
		var raw rlp.RawList[rlp.RawValue]
		if err := rlp.DecodeBytes(built.Bytes(), &raw); err != nil {
			// cannot happen with the element check in the "garbage" case; answer with refusals
			// rather than leaving the request open
			c.noteKind("bal", "rejected-by-message-decoder")
			for i := range items {
				items[i] = rlp.EmptyString
			}
			built, _ = rlp.EncodeToRawList(items)
			if err := rlp.DecodeBytes(built.Bytes(), &raw); err != nil {
				panic(err)
			}
		}
		p.deliver("bal", k, syn, func() error { return syn.OnAccessLists(p, id, raw) })
	}
	honest := func(id uint64, k string) { send(id, k, gather()) }
	if p.protoAct(kind, "bal", id, syn, honest) {
		return
	}
	items := gather()
	switch kind {
	case "partial":
		items = items[:1+p.intn(len(items))]
	case "refuse":
		for i := range items {
			items[i] = rlp.EmptyString
		}
	case "forged":
		// a well-formed access list that is not the block's: another block's list
		i := p.intn(len(items))
		var alt []byte
		if p.intn(2) == 0 {
			// the block's own list with one post-balance / post-nonce altered
			var b bal.BlockAccessList
			if err := rlp.DecodeBytes(items[i], &b); err == nil {
				for j := range b {
					if n := len(b[j].BalanceChanges); n > 0 {
						b[j].BalanceChanges[n-1].PostBalance = new(uint256.Int).AddUint64(b[j].BalanceChanges[n-1].PostBalance, 1)
						alt, _ = rlp.EncodeToBytes(b)
						break
					}
					if n := len(b[j].NonceChanges); n > 0 {
						b[j].NonceChanges[n-1].PostNonce++
						alt, _ = rlp.EncodeToBytes(b)
						break
					}
				}
			}
		}
		for _, st := range c.ch.states {
			if alt != nil {
				break
			}
			if st.balRaw != nil && !bytes.Equal(st.balRaw, items[i]) {
				alt = st.balRaw
				if p.intn(3) == 0 {
					break
				}
			}
		}
		if alt == nil {
			alt = []byte{0xc0}
		}
		items[i] = alt
	case "swapped":
		if len(items) > 1 && !bytes.Equal(items[0], items[1]) {
			items[0], items[1] = items[1], items[0]
		} else {
			items[0] = []byte{0xc0}
		}
	case "garbage":
		i := p.intn(len(items))
		items[i] = rlp.RawValue(flip(items[i], p.intn))
		if _, _, rest, err := rlp.Split(items[i]); err != nil || len(rest) != 0 {
			items[i] = rlp.RawValue{0xc1, 0x01} // keep the outer list encodable: exactly one value per element
		}
	case "toomany":
		items = append(items, items[len(items)-1])
	case "emptyreject":
		items = nil
	}
	c.noteKind("bal", kind)
	send(id, kind, items)
}
