package main

// State-history generator for C47: a chain S0..Sn of states (plus a fork branch and decoy
// states), each derived from its parent by a random block-like diff that obeys the
// discipline snap/2 documents (post EIP-6780: storage changes only as per-slot writes,
// accounts disappear only when drained to the empty account), the block access list of
// every transition, headers linked by parent hash and committing to the access-list hash,
// and the ground truth of every state (flat accounts / storage / codes, account trie and
// storage tries) computed with the reference trie refmpt. Nothing here uses go-ethereum's
// trie, state or snapshot code; go-ethereum types are used only for the *inputs* handed to
// the syncer (headers, access lists).

import (
	"bytes"
	"math/big"
	"math/rand"
	"sort"

	"github.com/ethereum/go-ethereum/common"
	"github.com/ethereum/go-ethereum/core/types"
	"github.com/ethereum/go-ethereum/core/types/bal"
	"github.com/ethereum/go-ethereum/rlp"
	"github.com/holiman/uint256"

	"verif/lib/flatstate"
	"verif/lib/refmpt"
)

// acct is an immutable account version; states share pointers for unchanged accounts.
type acct = flatstate.Account

// stateData is one state of the history with all derived ground truth.
type stateData struct {
	idx    int // global index inside the case (bit position in admissibility masks)
	num    uint64
	parent *stateData
	branch string // "main", "fork", "decoy"

	accts    map[string]*acct        // account hash -> account
	stor     map[string]*refmpt.Trie // account hash -> storage trie (non-empty storages only)
	acctTrie *refmpt.Trie            // account hash -> full RLP
	root     common.Hash

	header  *types.Header
	hash    common.Hash // header hash
	balRaw  []byte      // RLP of the access list of the transition parent -> this
	nSlots  int
	nNodes  int // hashed nodes of account trie + storage tries
	nCodes  int // distinct codes referenced
	touched int // accounts touched by the transition
}

func (s *stateData) storageRoot(h string) []byte {
	if t := s.stor[h]; t != nil {
		return t.Root
	}
	return refmpt.EmptyRoot
}

func (s *stateData) slim(h string) []byte {
	a := s.accts[h]
	return a.Slim(s.storageRoot(h))
}

// chain is the whole generated history of one case.
type chain struct {
	rng     *rand.Rand
	states  []*stateData // all states by idx
	main    []*stateData // S0..Sn
	fork    []*stateData // fork branch (child of main[forkAt]), may be empty
	forkAt  int
	decoys  []*stateData
	byRoot  map[common.Hash]*stateData
	byHash  map[common.Hash]*stateData // header hash -> state
	codes   map[string][]byte          // code hash -> code (all states)
	stCache map[*acct]*refmpt.Trie
	pool    [][]byte // code pool
	big     []string // account hashes of the large contracts
	baseNum uint64
	bias    float64
}

type chainOpts struct {
	accounts        int
	bigSlots        []int // slot counts of the large contracts
	steps           int   // number of main-chain transitions
	forkLen         int   // 0 = no fork
	forkAt          int   // main-chain index of the fork point
	decoys          int
	maxOps          int
	minedSlots      bool    // give the first large contract slots whose hashes have many leading zero bits
	newContractBias float64 // extra probability that an operation creates a contract with storage
}

func randBalance(rng *rand.Rand) []byte {
	switch rng.Intn(6) {
	case 0:
		return []byte{byte(1 + rng.Intn(255))}
	case 1:
		b := make([]byte, 32)
		rng.Read(b)
		b[0] |= 1
		return b
	default:
		b := make([]byte, 1+rng.Intn(12))
		rng.Read(b)
		b[0] |= 1
		return b
	}
}

func randSlotValue(rng *rand.Rand) []byte {
	switch rng.Intn(5) {
	case 0:
		return []byte{byte(1 + rng.Intn(255))}
	case 1:
		b := make([]byte, 32)
		rng.Read(b)
		b[0] |= 1
		return b
	default:
		b := make([]byte, 1+rng.Intn(20))
		rng.Read(b)
		b[0] |= 1
		return b
	}
}

func (c *chain) newAddr() ([]byte, string) {
	a := make([]byte, 20)
	c.rng.Read(a)
	return a, string(refmpt.Keccak(a))
}

func (c *chain) newSlotKey() ([]byte, string) {
	raw := make([]byte, 32)
	if c.rng.Intn(2) == 0 {
		raw[31] = byte(c.rng.Intn(256))
		raw[30] = byte(c.rng.Intn(256))
		raw[29] = byte(c.rng.Intn(8))
	} else {
		c.rng.Read(raw)
	}
	return raw, string(refmpt.Keccak(raw))
}

func (c *chain) code() []byte {
	if len(c.pool) > 0 && c.rng.Intn(3) != 0 {
		return c.pool[c.rng.Intn(len(c.pool))]
	}
	n := 1 + c.rng.Intn(120)
	if c.rng.Intn(12) == 0 {
		n = 2000 + c.rng.Intn(6000)
	}
	code := make([]byte, n)
	c.rng.Read(code)
	c.pool = append(c.pool, code)
	return code
}

func (c *chain) genStorage(a *acct, n int) {
	for len(a.Slots) < n {
		raw, h := c.newSlotKey()
		if _, ok := a.Slots[h]; ok {
			continue
		}
		a.Slots[h] = randSlotValue(c.rng)
		a.SlotPre[h] = raw
	}
}

// mineSlots adds k slots whose hashed keys have at least `bits` leading zero bits. A peer
// that truncates the first storage response to these slots makes the syncer estimate a
// huge contract and split it into up to 16 sub-ranges.
func (c *chain) mineSlots(a *acct, k, bits int) {
	raw := make([]byte, 32)
	c.rng.Read(raw)
	for ctr := uint64(0); k > 0; ctr++ {
		for i := 0; i < 8; i++ {
			raw[24+i] = byte(ctr >> (8 * i))
		}
		h := refmpt.Keccak(raw)
		z := 0
		for _, b := range h {
			if b == 0 {
				z += 8
				continue
			}
			for m := byte(0x80); m > 0 && b&m == 0; m >>= 1 {
				z++
			}
			break
		}
		if z >= bits {
			a.Slots[string(h)] = randSlotValue(c.rng)
			a.SlotPre[string(h)] = append([]byte{}, raw...)
			k--
		}
	}
}

func newContract(c *chain, slots int) *acct {
	addr, h := c.newAddr()
	a := &acct{Hash: h, Addr: addr, Nonce: uint64(1 + c.rng.Intn(50)), Code: c.code(), Slots: map[string][]byte{}, SlotPre: map[string][]byte{}}
	if c.rng.Intn(3) == 0 {
		a.Balance = randBalance(c.rng)
	}
	c.genStorage(a, slots)
	return a
}

func newEOA(c *chain) *acct {
	addr, h := c.newAddr()
	a := &acct{Hash: h, Addr: addr, Balance: randBalance(c.rng), Slots: map[string][]byte{}, SlotPre: map[string][]byte{}}
	if c.rng.Intn(3) != 0 {
		a.Nonce = uint64(c.rng.Intn(2000))
	}
	return a
}

func cloneAcct(a *acct) *acct {
	n := &acct{Hash: a.Hash, Addr: a.Addr, Nonce: a.Nonce, Balance: a.Balance, Code: a.Code,
		Slots: make(map[string][]byte, len(a.Slots)), SlotPre: make(map[string][]byte, len(a.SlotPre))}
	for k, v := range a.Slots {
		n.Slots[k] = v
	}
	for k, v := range a.SlotPre {
		n.SlotPre[k] = v
	}
	return n
}

// genesis draws S0.
func (c *chain) genesis(o chainOpts) map[string]*acct {
	m := map[string]*acct{}
	for len(m) < o.accounts {
		var a *acct
		switch r := c.rng.Intn(10); {
		case r < 5:
			a = newEOA(c)
		case r < 7:
			a = newContract(c, 0) // contract without storage
		default:
			n := 1 + c.rng.Intn(12)
			if c.rng.Intn(6) == 0 {
				n = 20 + c.rng.Intn(60)
			}
			a = newContract(c, n)
		}
		m[a.Hash] = a
	}
	for i, n := range o.bigSlots {
		a := newContract(c, 0)
		if i == 0 && o.minedSlots {
			c.mineSlots(a, 2+c.rng.Intn(2), 13+c.rng.Intn(4))
		}
		c.genStorage(a, n)
		m[a.Hash] = a
		c.big = append(c.big, a.Hash)
	}
	return m
}

func sortedSlotKeys(m map[string][]byte) []string {
	out := make([]string, 0, len(m))
	for k := range m {
		out = append(out, k)
	}
	sort.Strings(out)
	return out
}

func sortedKeys(m map[string]*acct) []string {
	out := make([]string, 0, len(m))
	for k := range m {
		out = append(out, k)
	}
	sort.Strings(out)
	return out
}

// mutate derives the account map of a child state and returns the touched account hashes
// plus "ghost" addresses that appear in the access list without any net state change.
func (c *chain) mutate(old map[string]*acct, maxOps int) (map[string]*acct, [][]byte) {
	m := make(map[string]*acct, len(old)+4)
	for k, v := range old {
		m[k] = v
	}
	keys := sortedKeys(old)
	var contracts, plain []string
	for _, k := range keys {
		a := old[k]
		if len(a.Code) > 0 {
			contracts = append(contracts, k)
		} else {
			plain = append(plain, k)
		}
	}
	var ghosts [][]byte
	touched := map[string]bool{}
	pick := func(l []string) string {
		if len(l) == 0 {
			return ""
		}
		return l[c.rng.Intn(len(l))]
	}
	nops := 1 + c.rng.Intn(maxOps)
	for i := 0; i < nops; i++ {
		r := c.rng.Intn(20)
		if c.bias > 0 && c.rng.Float64() < c.bias {
			r = 6
		}
		switch {
		case r < 4: // balance / nonce change
			k := pick(keys)
			if k == "" || touched[k] || m[k] == nil {
				continue
			}
			touched[k] = true
			n := cloneAcct(m[k])
			if c.rng.Intn(2) == 0 {
				n.Balance = randBalance(c.rng)
			}
			if c.rng.Intn(2) == 0 || bytes.Equal(n.Balance, m[k].Balance) {
				n.Nonce += uint64(1 + c.rng.Intn(3))
			}
			m[k] = n
		case r < 6: // new EOA
			a := newEOA(c)
			m[a.Hash] = a
			touched[a.Hash] = true
		case r < 8: // new contract with initial storage
			n := c.rng.Intn(15)
			if c.rng.Intn(8) == 0 {
				n = 40 + c.rng.Intn(80)
			}
			if c.bias > 0 && n == 0 {
				n = 1 + c.rng.Intn(10)
			}
			a := newContract(c, n)
			m[a.Hash] = a
			touched[a.Hash] = true
		case r < 15: // storage writes in an existing contract (large ones preferred)
			k := pick(contracts)
			if len(c.big) > 0 && c.rng.Intn(2) == 0 {
				k = c.big[c.rng.Intn(len(c.big))]
			}
			if k == "" || touched[k] || m[k] == nil {
				continue
			}
			touched[k] = true
			n := cloneAcct(m[k])
			slotKeys := make([]string, 0, len(n.Slots))
			for sk := range n.Slots {
				slotKeys = append(slotKeys, sk)
			}
			sort.Strings(slotKeys)
			w := 1 + c.rng.Intn(8)
			if len(slotKeys) > 200 {
				w += c.rng.Intn(40)
			}
			if len(slotKeys) > 0 && len(slotKeys) <= 6 && c.rng.Intn(6) == 0 {
				// empty the whole storage slot by slot
				for _, sk := range slotKeys {
					delete(n.Slots, sk)
				}
				w = 0
			}
			for j := 0; j < w; j++ {
				switch q := c.rng.Intn(3); {
				case q == 0 || len(slotKeys) == 0: // new slot
					raw, h := c.newSlotKey()
					n.Slots[h] = randSlotValue(c.rng)
					n.SlotPre[h] = raw
				case q == 1: // modify
					sk := slotKeys[c.rng.Intn(len(slotKeys))]
					if _, ok := n.Slots[sk]; ok {
						n.Slots[sk] = randSlotValue(c.rng)
					}
				default: // delete (write zero); the preimage stays known
					sk := slotKeys[c.rng.Intn(len(slotKeys))]
					delete(n.Slots, sk)
				}
			}
			if c.rng.Intn(3) == 0 {
				n.Balance = randBalance(c.rng)
			}
			m[k] = n
		case r < 17: // drain an account that becomes empty -> removed from the state
			k := pick(plain)
			if k == "" || touched[k] || m[k] == nil || m[k].Nonce != 0 || len(m[k].Slots) != 0 {
				continue
			}
			touched[k] = true
			delete(m, k)
		case r < 18: // code change on a code-less account with nonce > 0 (delegation set) or clear
			k := pick(keys)
			if k == "" || touched[k] || m[k] == nil || len(m[k].Slots) != 0 {
				continue
			}
			a := m[k]
			n := cloneAcct(a)
			if len(a.Code) == 0 {
				n.Code = c.code()
				n.Nonce++
			} else if len(a.Code) < 64 && c.rng.Intn(2) == 0 {
				n.Code = nil
				n.Nonce++
			} else {
				continue
			}
			touched[k] = true
			m[k] = n
		case r < 19: // address created and destroyed within the block: access-list entry, no state
			addr, h := c.newAddr()
			if _, ok := m[h]; !ok {
				ghosts = append(ghosts, addr)
			}
		default: // drained and deleted, then (same block) nothing else: account with nonce 0 gets balance 0
			k := pick(plain)
			if k == "" || touched[k] || m[k] == nil || m[k].Nonce == 0 {
				continue
			}
			// nonce > 0: stays in the state with zero balance
			touched[k] = true
			n := cloneAcct(m[k])
			n.Balance = nil
			m[k] = n
		}
	}
	if len(touched) == 0 {
		a := newEOA(c)
		m[a.Hash] = a
	}
	return m, ghosts
}

func (c *chain) storageTrie(a *acct) *refmpt.Trie {
	if len(a.Slots) == 0 {
		return nil
	}
	if t, ok := c.stCache[a]; ok {
		return t
	}
	t := a.StorageTrie()
	c.stCache[a] = t
	return t
}

// build derives the ground truth of a state from its account map.
func (c *chain) build(m map[string]*acct, parent *stateData, branch string, num uint64, ghosts [][]byte) *stateData {
	s := &stateData{idx: len(c.states), num: num, parent: parent, branch: branch, accts: m, stor: map[string]*refmpt.Trie{}}
	full := make([]refmpt.KV, 0, len(m))
	codes := map[string]bool{}
	for _, h := range sortedKeys(m) {
		a := m[h]
		root := refmpt.EmptyRoot
		if t := c.storageTrie(a); t != nil {
			s.stor[h] = t
			root = t.Root
			s.nSlots += len(t.Sorted)
			s.nNodes += len(t.Nodes)
		}
		if len(a.Code) > 0 {
			ch := string(a.CodeHash())
			c.codes[ch] = a.Code
			codes[ch] = true
		}
		full = append(full, refmpt.KV{K: []byte(h), V: a.Full(root)})
	}
	s.nCodes = len(codes)
	s.acctTrie = refmpt.BuildSorted(full)
	s.nNodes += len(s.acctTrie.Nodes)
	s.root = common.BytesToHash(s.acctTrie.Root)

	// header
	emptyHash := common.Hash{}
	zero := uint64(0)
	hd := &types.Header{
		Number: new(big.Int).SetUint64(num), Root: s.root, Difficulty: common.Big0,
		BaseFee: common.Big0, WithdrawalsHash: &emptyHash, BlobGasUsed: &zero, ExcessBlobGas: &zero,
		ParentBeaconRoot: &emptyHash, RequestsHash: &emptyHash,
		Extra: []byte(branch),
	}
	if parent != nil {
		hd.ParentHash = parent.hash
		raw, balHash := c.makeBAL(parent, s, ghosts)
		s.balRaw = raw
		hd.BlockAccessListHash = &balHash
	} else {
		var eb bal.BlockAccessList
		h := eb.Hash()
		hd.BlockAccessListHash = &h
	}
	s.header = hd
	s.hash = hd.Hash()
	c.states = append(c.states, s)
	c.byRoot[s.root] = s
	c.byHash[s.hash] = s
	return s
}

// makeBAL builds the access list of the transition a -> b from the flat diff.
func (c *chain) makeBAL(a, b *stateData, ghosts [][]byte) ([]byte, common.Hash) {
	cb := bal.NewConstructionBlockAccessList()
	u256 := func(v []byte) *uint256.Int { return new(uint256.Int).SetBytes(v) }
	tx := func() uint32 { return uint32(1 + c.rng.Intn(30)) }
	touched := 0
	visit := func(h string) {
		oa, na := a.accts[h], b.accts[h]
		if oa == na {
			return
		}
		touched++
		var addr common.Address
		if na != nil {
			addr = common.BytesToAddress(na.Addr)
		} else {
			addr = common.BytesToAddress(oa.Addr)
		}
		var oBal, nBal []byte
		var oNonce, nNonce uint64
		var oCode, nCode []byte
		oSlots, nSlots := map[string][]byte{}, map[string][]byte{}
		pre := map[string][]byte{}
		if oa != nil {
			oBal, oNonce, oCode, oSlots = oa.Balance, oa.Nonce, oa.Code, oa.Slots
			for k, v := range oa.SlotPre {
				pre[k] = v
			}
		}
		if na != nil {
			nBal, nNonce, nCode, nSlots = na.Balance, na.Nonce, na.Code, na.Slots
			for k, v := range na.SlotPre {
				pre[k] = v
			}
		}
		if !bytes.Equal(oBal, nBal) {
			t := tx()
			if c.rng.Intn(3) == 0 && t > 1 { // an intermediate value earlier in the block
				cb.BalanceChange(t-1, addr, u256(randBalance(c.rng)))
			}
			cb.BalanceChange(t, addr, u256(nBal))
		}
		if oNonce != nNonce {
			t := tx()
			if nNonce > oNonce+1 && t > 1 {
				cb.NonceChange(addr, t-1, oNonce+1)
			}
			cb.NonceChange(addr, t, nNonce)
		}
		if !bytes.Equal(oCode, nCode) {
			cb.CodeChange(addr, tx(), nCode)
		}
		for _, sk := range sortedSlotKeys(nSlots) {
			nv := nSlots[sk]
			if ov, ok := oSlots[sk]; !ok || !bytes.Equal(ov, nv) {
				t := tx()
				if c.rng.Intn(4) == 0 && t > 1 {
					cb.StorageWrite(t-1, addr, common.BytesToHash(pre[sk]), common.BytesToHash(randSlotValue(c.rng)))
				}
				cb.StorageWrite(t, addr, common.BytesToHash(pre[sk]), common.BytesToHash(nv))
			}
		}
		for _, sk := range sortedSlotKeys(oSlots) {
			if _, ok := nSlots[sk]; !ok {
				cb.StorageWrite(tx(), addr, common.BytesToHash(pre[sk]), common.Hash{})
			}
		}
		// noise: reads of untouched slots
		if c.rng.Intn(3) == 0 {
			for _, sk := range sortedSlotKeys(nSlots) {
				if ov, ok := oSlots[sk]; ok && bytes.Equal(ov, nSlots[sk]) {
					cb.StorageRead(addr, common.BytesToHash(pre[sk]))
					break
				}
			}
		}
	}
	union := map[string]*acct{}
	for h, x := range a.accts {
		union[h] = x
	}
	for h, x := range b.accts {
		union[h] = x
	}
	for _, h := range sortedKeys(union) {
		visit(h)
	}
	b.touched = touched
	// account reads without change, and created-and-destroyed addresses (net-empty)
	for _, h := range sortedKeys(b.accts) {
		acc := b.accts[h]
		if a.accts[h] == acc && c.rng.Intn(40) == 0 {
			cb.AccountRead(common.BytesToAddress(acc.Addr))
		}
	}
	for _, g := range ghosts {
		addr := common.BytesToAddress(g)
		t := tx()
		if t > 1 {
			cb.BalanceChange(t-1, addr, uint256.NewInt(uint64(1+c.rng.Intn(1000))))
		}
		cb.BalanceChange(t, addr, new(uint256.Int))
	}
	var buf bytes.Buffer
	if err := cb.EncodeRLP(&buf); err != nil {
		panic(err)
	}
	var dec bal.BlockAccessList
	if err := rlp.DecodeBytes(buf.Bytes(), &dec); err != nil {
		panic(err)
	}
	return buf.Bytes(), dec.Hash()
}

func newChain(rng *rand.Rand, o chainOpts) *chain {
	c := &chain{rng: rng, byRoot: map[common.Hash]*stateData{}, byHash: map[common.Hash]*stateData{},
		codes: map[string][]byte{}, stCache: map[*acct]*refmpt.Trie{}, baseNum: uint64(100 + rng.Intn(1000)), bias: o.newContractBias}
	m := c.genesis(o)
	s := c.build(m, nil, "main", c.baseNum, nil)
	c.main = append(c.main, s)
	for i := 0; i < o.steps; i++ {
		nm, ghosts := c.mutate(s.accts, o.maxOps)
		s = c.build(nm, s, "main", s.num+1, ghosts)
		c.main = append(c.main, s)
	}
	if o.forkLen > 0 && len(c.main) > 1 {
		c.forkAt = o.forkAt
		p := c.main[c.forkAt]
		for i := 0; i < o.forkLen; i++ {
			nm, ghosts := c.mutate(p.accts, o.maxOps)
			p = c.build(nm, p, "fork", p.num+1, ghosts)
			c.fork = append(c.fork, p)
		}
	}
	// decoys: never targeted; what "wrong root" peers serve from
	for i := 0; i < o.decoys; i++ {
		p := c.states[rng.Intn(len(c.states))]
		nm, ghosts := c.mutate(p.accts, o.maxOps+4)
		d := c.build(nm, p, "decoy", p.num+1, ghosts)
		c.decoys = append(c.decoys, d)
	}
	return c
}
