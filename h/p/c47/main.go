// C47: snap sync reconstructs exactly the target state.
//
// Every case generates a history of states with the reference trie as ground truth, runs
// the real snap/1 or snap/2 syncer against in-process peers with random (honest, partial,
// hostile) behaviour on top of a write-monitoring key-value store, moves / reorgs the
// pivot and restarts the syncer according to a random plan, and compares the database
// with the ground truth of the final pivot once Sync reports completion.
package main

import (
	"bytes"
	"errors"
	"fmt"
	"math"
	"math/rand"
	"os"
	"runtime/debug"
	"sort"
	"strconv"
	"strings"
	"sync"
	"sync/atomic"
	"time"

	"github.com/ethereum/go-ethereum/core/rawdb"
	"github.com/ethereum/go-ethereum/eth/protocols/snap"
	"github.com/ethereum/go-ethereum/ethdb"
	"github.com/ethereum/go-ethereum/ethdb/memorydb"
	"github.com/ethereum/go-ethereum/log"
	"github.com/ethereum/go-ethereum/triedb"

	"verif/lib/vrt"
)

func main() { vrt.Main("C47", run) }

type synBox struct{ s snap.Syncer }

type caseCtx struct {
	r        *vrt.Run
	id       int
	version  int
	scheme   string
	path     bool
	hostile  bool
	shortTTL bool
	enabled  map[string]bool
	mined    map[string]bool
	ch       *chain
	g        *genuine
	mon      *monitor
	db       *recDB
	edb      ethdb.Database

	syn       atomic.Value // synBox
	peerSeq   atomic.Int64
	budget    atomic.Int64
	responses atomic.Int64
	puts      atomic.Int64
	cancelAtR atomic.Int64
	cancelAtW atomic.Int64
	crashAtW  atomic.Int64 // take a store snapshot at this put count ("power cut"), then cancel
	bound     atomic.Int64 // honest-only: maximal number of responses (0 = unbounded)
	timedOut  atomic.Bool
	aborted   atomic.Bool

	cmu      sync.Mutex
	cancelCh chan struct{}
	fired    bool
	snapshot *memorydb.Database // store content at the simulated crash point

	mu       sync.Mutex
	peers    []*peer
	kinds    map[string]int
	fams     map[string]bool
	verdicts map[string]int
	counts   map[string]int
	viol     map[string]bool
}

func (c *caseCtx) cur() snap.Syncer { return c.syn.Load().(synBox).s }

func (c *caseCtx) count(k string, n int) {
	c.mu.Lock()
	c.counts[k] += n
	c.mu.Unlock()
}

func (c *caseCtx) noteKind(msg, kind string) {
	c.mu.Lock()
	c.kinds[msg+"/"+kind]++
	if f := family(msg, kind); f != "" {
		c.fams[f] = true
	}
	c.mu.Unlock()
}

func errClass(err error) string {
	s := err.Error()
	// keep the words, drop hex / numbers
	var out []string
	for _, w := range strings.Fields(s) {
		ok := true
		for _, ch := range w {
			if ch >= '0' && ch <= '9' {
				ok = false
				break
			}
		}
		if ok {
			out = append(out, strings.Trim(w, ":,"))
		}
		if len(out) == 4 {
			break
		}
	}
	return strings.Join(out, "_")
}

func (c *caseCtx) noteVerdict(msg, kind string, err error) {
	c.mu.Lock()
	if err == nil {
		c.verdicts["resp_"+msg+"_returned_nil"]++
		if family(msg, kind) != "" {
			c.verdicts["resp_hostile_returned_nil_(stale_or_tolerated)"]++
		}
	} else {
		c.verdicts["resp_"+msg+"_rejected"]++
		c.verdicts["rejected:"+msg+":"+errClass(err)]++
		if msg == "node" {
			c.verdicts["heal_responses_rejected_by_OnTrieNodes"]++
		}
	}
	c.mu.Unlock()
}

func (c *caseCtx) violation(fp, msg string, key, value []byte) {
	c.mu.Lock()
	seen := c.viol[fp]
	c.viol[fp] = true
	c.mu.Unlock()
	if seen {
		return
	}
	w := map[string]any{"case": c.id, "version": c.version, "scheme": c.scheme, "hostile": c.hostile,
		"reproduce": fmt.Sprintf("VERIF_SEED=%d VERIF_TIER=%s VERIF_CASE=%d VERIF_REPS=20 VERIF_DEBUG=1 C47_V1_REORG=%v C47_V1_CRASH_TAIL=%v <harness binary> (same generated history and plan; peer timing varies per repetition; case indices >= 1000000 are the v1reorg scenario class)",
			c.r.Seed, c.r.Tier, c.id, b2i(v1Reorg), b2i(v1CrashTail))}
	if key != nil {
		w["key"] = vrt.Hex(key)
		v := value
		if len(v) > 600 {
			v = v[:600]
		}
		w["value"] = vrt.Hex(v)
	}
	c.r.Violation(fp, fmt.Sprintf("case %d (snap/%d %s): %s", c.id, c.version, c.scheme, msg), w)
}

func b2i(b bool) int {
	if b {
		return 1
	}
	return 0
}

func (c *caseCtx) cancelled() bool {
	c.cmu.Lock()
	defer c.cmu.Unlock()
	return c.fired
}

func (c *caseCtx) fireCancel() {
	c.cmu.Lock()
	if !c.fired && c.cancelCh != nil {
		c.fired = true
		close(c.cancelCh)
	}
	c.cmu.Unlock()
}

func (c *caseCtx) newCancel() chan struct{} {
	c.cmu.Lock()
	defer c.cmu.Unlock()
	c.cancelCh = make(chan struct{})
	c.fired = false
	return c.cancelCh
}

func (c *caseCtx) onResponse() {
	n := c.responses.Add(1)
	if at := c.cancelAtR.Load(); at > 0 && n >= at {
		c.fireCancel()
	}
	if b := c.bound.Load(); b > 0 && n > b && !c.aborted.Swap(true) {
		c.violation("bounded-progress", fmt.Sprintf("with honest (partial) peers only, %d responses were consumed without completing; bound %d", n, b), nil, nil)
		c.fireCancel()
	}
}

// onPut runs inside the store's mutation lock, before the mutation (or the batch it belongs
// to) is applied.
func (c *caseCtx) onPut() {
	n := c.puts.Add(1)
	if at := c.crashAtW.Load(); at > 0 && n >= at && c.crashAtW.CompareAndSwap(at, 0) {
		// the process "dies" here: everything applied so far survives, nothing after
		snap := memorydb.New()
		it := c.db.raw().NewIterator(nil, nil)
		for it.Next() {
			snap.Put(it.Key(), it.Value())
		}
		it.Release()
		c.cmu.Lock()
		c.snapshot = snap
		c.cmu.Unlock()
		c.fireCancel()
		return
	}
	if at := c.cancelAtW.Load(); at > 0 && n >= at {
		c.fireCancel()
	}
}

func (c *caseCtx) addPeer(p *peer) {
	c.mu.Lock()
	c.peers = append(c.peers, p)
	c.mu.Unlock()
}

// otherState picks a state different from st, preferably one that was never a target.
func (c *caseCtx) otherState(st *stateData, p *peer) *stateData {
	if len(c.ch.decoys) > 0 && p.intn(4) != 0 {
		return c.ch.decoys[p.intn(len(c.ch.decoys))]
	}
	for tries := 0; tries < 8; tries++ {
		o := c.ch.states[p.intn(len(c.ch.states))]
		if o.root != st.root {
			return o
		}
	}
	return st
}

// newSyncer creates a syncer on the case's database and registers the live peers.
func (c *caseCtx) newSyncer(ttl time.Duration, window uint64) snap.Syncer {
	var s snap.Syncer
	if c.version == 1 {
		s = snap.NewV1Syncer(c.edb, c.scheme)
	} else {
		s = snap.NewV2Syncer(c.edb, c.scheme)
		if window > 0 {
			snap.VerifSetCatchUpWindow(s, window)
		}
	}
	if ttl > 0 {
		snap.VerifSetRequestTTL(s, ttl)
	}
	c.syn.Store(synBox{s})
	c.mu.Lock()
	// peers dropped by an earlier instance rejoin: keep one identity per base name
	live := map[string]*peer{}
	var order []string
	for _, p := range c.peers {
		base := p.id
		if i := strings.IndexByte(base, '#'); i >= 0 {
			base = base[:i]
		}
		if _, ok := live[base]; !ok {
			order = append(order, base)
		}
		live[base] = p
	}
	c.peers = c.peers[:0]
	for _, b := range order {
		c.peers = append(c.peers, live[b])
	}
	ps := append([]*peer{}, c.peers...)
	c.mu.Unlock()
	for _, p := range ps {
		s.Register(p)
	}
	return s
}

type cycle struct {
	target  *stateData
	cancelR int  // cancel after this many further responses (0 = no)
	cancelW int  // cancel after this many further monitored puts (0 = no)
	crash   bool // with cancelW: kill instead of cancel (resume from the store as of that write, new instance)
	fresh   bool
}

func logUniform(rng *rand.Rand, lo, hi int) int {
	if hi <= lo {
		return lo
	}
	return int(float64(lo) * math.Pow(float64(hi)/float64(lo), rng.Float64()))
}

func runCase(r *vrt.Run, i int) {
	if debugOn {
		t0 := time.Now()
		defer func() { fmt.Printf("  case %d took %.1fs\n", i, time.Since(t0).Seconds()) }()
	}
	rng := r.Rand("case", i)
	c := &caseCtx{r: r, id: i, kinds: map[string]int{}, fams: map[string]bool{}, verdicts: map[string]int{}, counts: map[string]int{},
		viol: map[string]bool{}, enabled: map[string]bool{}, mined: map[string]bool{}}
	// Scenario class "v1reorg" (indices >= reorgBase): snap/1 whose pivot moves onto a fork.
	// It is a class of its own because it can hit a known finding (see known_findings.json);
	// the regular classes move snap/1 along one chain only and are unaffected by it.
	reorgClass := i >= reorgBase
	sel := i
	if reorgClass {
		sel = 2 * (i - reorgBase) // snap/1 only; scheme and peer mode alternate
	}
	c.version = 1 + sel%2
	c.path = (sel/2)%2 == 1
	c.scheme = rawdb.HashScheme
	if c.path {
		c.scheme = rawdb.PathScheme
	}
	mode := (sel / 4) % 3 // 0: honest (partial) peers only -> bounded progress; 1, 2: hostile peers
	c.hostile = mode != 0

	// ---- sizes
	shrink := 1
	if r.Race() {
		shrink = 5
	}
	maxAcc := r.N(900, 3000) / shrink
	accounts := logUniform(rng, 20, maxAcc)
	tiny := rng.Intn(16) == 0
	if tiny {
		accounts = 1 + rng.Intn(8)
	}
	var bigSlots []int
	mined := false
	if !tiny {
		switch rng.Intn(5) {
		case 0, 1:
			bigSlots = []int{logUniform(rng, 150, r.N(2500, 12000)/shrink)}
		case 2:
			bigSlots = []int{logUniform(rng, 100, r.N(1500, 5000)/shrink), logUniform(rng, 100, 600/shrink+100)}
		}
		mined = len(bigSlots) > 0 && rng.Intn(2) == 0
	}

	// ---- pivot plan (indices into the main chain / fork)
	moves := 0
	maxGap := 5
	if c.version == 2 {
		maxGap = r.N(12, 28)
		moves = []int{0, 1, 1, 2, 3, 4}[rng.Intn(6)]
	} else {
		moves = []int{0, 0, 1, 1, 2, 3}[rng.Intn(6)]
		if reorgClass {
			moves = 1 + rng.Intn(3)
		}
	}
	if r.Race() && moves > 2 {
		moves = 2
	}
	idx := []int{rng.Intn(3)}
	for j := 0; j < moves; j++ {
		idx = append(idx, idx[len(idx)-1]+1+rng.Intn(maxGap))
	}
	steps := idx[len(idx)-1] + 1 + rng.Intn(3)
	reorgAt := -1 // move number from which targets live on the fork
	forkLen := 0
	// snap/1 is moved onto a fork only in the v1reorg class (or everywhere with
	// C47_V1_REORG=1): on a fork on which a contract with already completed storage does not
	// exist forwardAccountTask panics ("storage completion flags should be emptied"), a
	// known finding.
	forkAt := 0
	if doReorg := rng.Intn(3) == 0; moves > 0 && (reorgClass || doReorg && (c.version == 2 || v1Reorg)) {
		reorgAt = 1 + rng.Intn(moves)
		forkLen = 1 + rng.Intn(maxGap) + (moves-reorgAt)*maxGap
		// fork below the pivot that is abandoned, so that it really is reorged out
		if idx[reorgAt-1] == 0 {
			for j := range idx {
				idx[j]++
			}
			steps++
		}
		forkAt = rng.Intn(idx[reorgAt-1])
	}
	// keep the ground truth of one case (one account trie per state) within ~150 MB
	if total := steps + forkLen + 4; accounts*total > 80000 {
		accounts = 80000 / total
	}
	// v1reorg class: many contracts that exist on one branch only, and slow account tasks
	reorgExtraOps, reorgBias := 0, 0.0
	if reorgClass {
		reorgExtraOps, reorgBias = 12, 0.5
	}
	c.ch = newChain(r.Rand("chain", i), chainOpts{accounts: accounts, bigSlots: bigSlots, steps: steps, forkLen: forkLen, forkAt: forkAt,
		decoys: 2 + rng.Intn(2), maxOps: 2 + accounts/40 + rng.Intn(10) + reorgExtraOps, minedSlots: mined, newContractBias: reorgBias})
	if len(c.ch.states) > maxStates {
		r.Inconclusive("case %d: too many states for the admissibility mask", i)
		return
	}
	if mined {
		c.mined[c.ch.big[0]] = true
	}
	var targets []*stateData
	for j, ix := range idx {
		if reorgAt >= 0 && j >= reorgAt {
			// position on the fork: any number relation to the previous pivot is allowed
			fj := rng.Intn(len(c.ch.fork))
			if j > reorgAt {
				prev := targets[len(targets)-1]
				fj = int(prev.num-c.ch.fork[0].num) + 1 + rng.Intn(maxGap)
				if fj >= len(c.ch.fork) {
					fj = len(c.ch.fork) - 1
				}
			}
			targets = append(targets, c.ch.fork[fj])
		} else {
			targets = append(targets, c.ch.main[ix])
		}
	}
	// drop non-advancing duplicates on the fork
	for j := len(targets) - 1; j > 0; j-- {
		if targets[j] == targets[j-1] {
			targets = append(targets[:j], targets[j+1:]...)
		}
	}
	final := targets[len(targets)-1]

	// ---- peers and hostility
	npeers := 3 + rng.Intn(6)
	if !c.hostile {
		npeers = 1 + rng.Intn(4)
	}
	all := append(append(append(append(append(append([]string{}, rangeHostile...), storHostile...), codeHostile...), nodeHostile...), balHostile...), protoKinds...)
	if c.hostile {
		c.shortTTL = rng.Intn(2) == 0
		sub := rng.Intn(3) // 0: everything, 1,2: a random half (different signatures)
		for _, k := range all {
			if sub == 0 || rng.Intn(2) == 0 {
				c.enabled[k] = true
			}
		}
		c.budget.Store(int64(20 + rng.Intn(r.N(60, 200))))
	}
	ttl := time.Duration(0)
	if c.shortTTL {
		ttl = 150 * time.Millisecond
		if r.Race() {
			ttl = 600 * time.Millisecond
		}
	}
	window := uint64(0)
	if c.version == 2 && rng.Intn(2) == 0 {
		window = uint64(1 + rng.Intn(6))
	}
	for k := 0; k < npeers; k++ {
		p := &peer{id: fmt.Sprintf("p%d", k), c: c, logger: log.New("peer", k), rng: rand.New(rand.NewSource(rng.Int63()))}
		p.anchor = k == 0
		switch rng.Intn(3) {
		case 0:
			p.partial = 0
		case 1:
			p.partial = 0.3
		default:
			p.partial = 0.9
		}
		if reorgClass {
			p.partial = 0.9
		}
		if c.hostile && !p.anchor {
			p.hostile = []float64{0.05, 0.2, 0.5, 0.9}[rng.Intn(4)]
		}
		c.peers = append(c.peers, p)
	}

	// ---- store, monitor
	c.g = buildGenuine(c.ch)
	c.mon = &monitor{c: c, g: c.g, version: c.version, path: c.path, counts: map[string]int{}, other: map[string]int{}}
	c.mon.admissible.Store(&bits{})
	c.db = newRecDB(c.mon)
	c.edb = rawdb.NewDatabase(c.db)
	for _, s := range c.ch.states {
		rawdb.WriteHeader(c.db.raw(), s.header)
	}

	// ---- cycles
	var plan []cycle
	respScale := 4 + accounts/20
	for j, t := range targets {
		last := j == len(targets)-1
		n := 1
		if rng.Intn(3) == 0 {
			n = 2
		}
		if last {
			n = []int{0, 0, 1, 2}[rng.Intn(4)]
		}
		if r.Race() && n > 1 {
			n = 1
		}
		for k := 0; k < n; k++ {
			cy := cycle{target: t, fresh: rng.Intn(2) == 0}
			if rng.Intn(3) == 0 {
				cy.cancelW = 1 + rng.Intn(3*(accounts+final.nSlots)+50)
				cy.crash = rng.Intn(2) == 0
			} else {
				cy.cancelR = 1 + rng.Intn(respScale)
				if reorgClass {
					cy.cancelR += rng.Intn(3 * respScale)
				}
			}
			plan = append(plan, cy)
		}
		if last {
			plan = append(plan, cycle{target: t, fresh: rng.Intn(2) == 0})
		}
	}
	if reorgClass {
		r.Count("v1reorg_cases", 1)
	}
	r.Case("case %d snap/%d %s hostile=%v accounts=%d big=%v states=%d targets=%d cycles=%d peers=%d ttl=%v", i, c.version, c.scheme, c.hostile,
		accounts, bigSlots, len(c.ch.states), len(targets), len(plan), npeers, ttl)

	if !c.hostile {
		var n int64
		for _, t := range targets {
			if m := int64(len(t.accts) + t.nSlots + t.nCodes + t.nNodes); m > n {
				n = m
			}
		}
		c.bound.Store((n + 200) * int64(len(plan)))
	}

	// ---- run
	watchdog := time.Duration(r.N(240, 900)) * time.Second
	var (
		syn        snap.Syncer
		done       *stateData
		distinct   = map[*stateData]bool{}
		minNum     = targets[0].num
		cycles     int
		restarts   int
		freshCount int
		reorgs     int
		crashes    int
		prev       *stateData
		balRetries int
	)
	for ci := 0; ci < len(plan) && done == nil; ci++ {
		cy := plan[ci]
		if syn == nil || cy.fresh {
			if syn != nil {
				freshCount++
			}
			syn = c.newSyncer(ttl, window)
		}
		target := cy.target
		if fp := syn.FrozenPivot(); fp != nil {
			if t := c.ch.byHash[fp.Hash()]; t != nil {
				if t != target {
					c.count("frozen_pivot_respected", 1)
				}
				target = t
			}
		}
		if prev != nil && target != prev && target.branch != prev.branch && prev.num > c.ch.main[c.ch.forkAt].num {
			reorgs++
		}
		// canonical chain as the downloader would have it
		var maxNum uint64
		for _, s := range c.ch.states {
			if s.num > maxNum {
				maxNum = s.num
			}
		}
		for n := target.num + 1; n <= maxNum; n++ {
			rawdb.DeleteCanonicalHash(c.db.raw(), n)
		}
		for s := target; s != nil; s = s.parent {
			rawdb.WriteCanonicalHash(c.db.raw(), s.hash, s.num)
		}
		// admissible states: the target (snap/2: and the catch-up waypoints)
		mask := c.mon.admissible.Load().or(bit(target.idx))
		if c.version == 2 {
			for s := target; s != nil && s.num >= minNum; s = s.parent {
				mask = mask.or(bit(s.idx))
			}
		}
		c.mon.admissible.Store(&mask)
		// snap/2 generates the trie from the flat state per first-nibble partition; with a
		// single populated partition it writes a transient sub-root that is folded away
		// afterwards, so the per-node check needs at least two populated partitions.
		firstNibbles := map[byte]bool{}
		for h := range target.accts {
			firstNibbles[h[0]>>4] = true
		}
		c.mon.strictV2.Store(c.version == 2 && len(firstNibbles) >= 2)
		if target != prev && prev != nil {
			c.count("pivot_moves", 1)
		}
		if distinct[target] || (prev != nil && target == prev) {
			restarts++
		}
		distinct[target] = true
		prev = target

		if debugOn {
			fmt.Printf("  case %d cycle %d: target idx=%d num=%d branch=%s accts=%d fresh=%v cancelR=%d cancelW=%d\n", i, ci, target.idx, target.num, target.branch, len(target.accts), cy.fresh, cy.cancelR, cy.cancelW)
		}
		cancel := c.newCancel()
		c.cancelAtR.Store(0)
		c.cancelAtW.Store(0)
		if cy.cancelR > 0 {
			c.cancelAtR.Store(c.responses.Load() + int64(cy.cancelR))
		}
		c.crashAtW.Store(0)
		if cy.cancelW > 0 && cy.crash {
			c.crashAtW.Store(c.puts.Load() + int64(cy.cancelW))
		} else if cy.cancelW > 0 {
			c.cancelAtW.Store(c.puts.Load() + int64(cy.cancelW))
		}
		wd := time.AfterFunc(watchdog, func() { c.timedOut.Store(true); c.fireCancel() })
		var err error
		perr, stack := vrt.Recover(func() { err = syn.Sync(target.header, cancel) })
		wd.Stop()
		cycles++
		c.crashAtW.Store(0)
		c.cmu.Lock()
		snapDB := c.snapshot
		c.snapshot = nil
		c.cmu.Unlock()
		if snapDB != nil && perr == nil && c.version == 1 && c.path {
			// snap/1, path scheme: a crash after the healer's final commit but before the
			// progress journal is saved leaves "root present, tasks pending"; the resumed
			// sync then re-runs the snap phase, whose boundary clean-up deletes top-level
			// nodes, while the healer (armed at Sync start, root present) stays idle, and
			// Sync returns nil with trie nodes missing. Reported separately
			// (C47_V1_CRASH_TAIL=1 re-enables these crash points).
			rootBlob, _ := snapDB.Get([]byte("A"))
			if bytes.Equal(rootBlob, target.acctTrie.Nodes[""]) {
				c.count("v1_path_crash_after_final_heal_commit", 1)
				if debugOn {
					fmt.Printf("  case %d: crash point after final heal commit (root present, journal stale)\n", i)
				}
				if !v1CrashTail {
					snapDB = nil // treat as a graceful cancel instead
				}
			}
		}
		if snapDB != nil && perr == nil {
			// simulated kill: whatever the dying instance wrote after the crash point
			// (including its deferred progress save) is lost
			c.db = &recDB{Database: snapDB, mon: c.mon}
			c.edb = rawdb.NewDatabase(c.db)
			syn = nil
			crashes++
			if err == nil {
				err = snap.ErrCancelled // completed in the dying instance's future: not in ours
			}
		}
		if perr != nil {
			// The exact fingerprint of the known finding is emitted only for its root cause:
			// snap/1 of the v1reorg class, pivot on the fork, and the specific panic message.
			fp := "panic:sync-other:" + vrt.PanicSite(stack)
			if reorgClass && c.version == 1 && target.branch == "fork" &&
				strings.Contains(fmt.Sprint(perr), "storage completion flags should be emptied") &&
				vrt.PanicSite(stack) == "eth/protocols/snap.(*syncer).forwardAccountTask" {
				fp = "panic:sync:eth/protocols/snap.(*syncer).forwardAccountTask"
				r.Count("v1reorg_known_panic_fired", 1)
			}
			c.violation(fp, fmt.Sprintf("Sync panicked: %v\n%s", perr, stack), nil, nil)
			return // the syncer instance is dead: stop the case (no cascade)
		}
		if c.timedOut.Load() {
			r.Inconclusive("case %d: watchdog (%v) fired in cycle %d (snap/%d %s)", i, watchdog, ci, c.version, c.scheme)
			return
		}
		if c.aborted.Load() {
			return
		}
		switch {
		case err == nil:
			done = target
		case errors.Is(err, snap.ErrCancelled) || errors.Is(err, triedb.ErrCancelled):
			c.count("cycles_cancelled", 1)
			if ci == len(plan)-1 {
				plan = append(plan, cycle{target: target})
			}
		case strings.Contains(err.Error(), "exhausted for BAL") || strings.Contains(err.Error(), "access lists unavailable"):
			// every peer refused or forged the access lists in this cycle: legitimate failure, retry
			c.count("cycles_bal_unavailable", 1)
			balRetries++
			if balRetries > 60 {
				r.Inconclusive("case %d: access lists stayed unavailable", i)
				return
			}
			plan = append(plan[:ci+1], append([]cycle{{target: target}}, plan[ci+1:]...)...)
		case strings.Contains(err.Error(), "state root mismatch"):
			c.violation("v2:generated-root-mismatch", "trie generation over the synced flat state does not give the pivot root: "+err.Error()+"; "+c.flatDiff(target), nil, nil)
			return
		default:
			c.violation("sync-error:"+errClass(err), "Sync failed with an error no peer behaviour explains: "+err.Error(), nil, nil)
			return
		}
	}
	if done == nil {
		r.Inconclusive("case %d: plan exhausted without completion", i)
		return
	}

	// ---- completion oracle
	exact := c.version == 2 || len(distinct) == 1
	res, compared := checkCompletion(c.db, done, c.ch, c.g, c.mon.admissible.Load(), c.path, oracleOpts{exactFlat: exact, exactNodes: exact})
	for class, d := range res {
		c.violation(fmt.Sprintf("completion:v%d:%s", c.version, class), fmt.Sprintf("after Sync returned nil for pivot %d: %d difference(s), e.g. %s", done.num, d.n, strings.Join(d.msgs, "; ")), nil, nil)
	}
	r.Count("completion_comparisons", compared)
	if exact {
		r.Count("completions_exact", 1)
	} else {
		r.Count("completions_v1_moved_pivot(flat_genuine_only)", 1)
	}
	// a second Sync on a fresh instance must see the work as done and change nothing
	before := c.puts.Load()
	s2 := c.newSyncer(ttl, window)
	cancel := c.newCancel()
	c.cancelAtR.Store(0)
	c.cancelAtW.Store(0)
	wd := time.AfterFunc(watchdog, func() { c.timedOut.Store(true); c.fireCancel() })
	var err2 error
	perr, stack := vrt.Recover(func() { err2 = s2.Sync(done.header, cancel) })
	wd.Stop()
	if perr != nil {
		c.violation("panic:resync:"+vrt.PanicSite(stack), fmt.Sprintf("Sync (repeat) panicked: %v\n%s", perr, stack), nil, nil)
	} else if err2 != nil && !c.timedOut.Load() {
		c.violation("resync-error", "a repeated Sync of the completed pivot failed: "+err2.Error(), nil, nil)
	} else if c.puts.Load() != before {
		res2, n2 := checkCompletion(c.db, done, c.ch, c.g, c.mon.admissible.Load(), c.path, oracleOpts{exactFlat: exact, exactNodes: exact})
		for class, d := range res2 {
			c.violation(fmt.Sprintf("recompletion:v%d:%s", c.version, class), fmt.Sprintf("after a repeated Sync: %d difference(s), e.g. %s", d.n, strings.Join(d.msgs, "; ")), nil, nil)
		}
		r.Count("completion_comparisons", n2)
		r.Count("resync_wrote", 1)
	}
	r.Count("resync_checked", 1)

	// ---- evidence
	if nodes, dups, nops, codes, cdups, cnops, ok := snap.VerifHealCounters(syn); ok {
		r.Count("heal_nodes_delivered_last_instance", int(nodes))
		r.Count("heal_nodes_dups", int(dups))
		r.Count("heal_nodes_not_requested", int(nops))
		r.Count("heal_codes_delivered_last_instance", int(codes))
		r.Count("heal_codes_dups_nops", int(cdups+cnops))
	}
	c.mu.Lock()
	for k, v := range c.kinds {
		r.Count("behaviour:"+k, v)
	}
	for k, v := range c.verdicts {
		r.Count(k, v)
	}
	for k, v := range c.counts {
		r.Count(k, v)
	}
	var fams []string
	for f := range c.fams {
		fams = append(fams, f)
		r.Count("cases_with_"+f+"_misbehaviour", 1)
	}
	c.mu.Unlock()
	sort.Strings(fams)
	c.mon.mu.Lock()
	for k, v := range c.mon.counts {
		r.Count("monitor_"+k, v)
	}
	for k, v := range c.mon.other {
		r.Count("monitor_other_key:"+fmt.Sprintf("%q", k), v)
	}
	c.mon.mu.Unlock()
	resp := c.responses.Load()
	r.Count("responses_delivered", int(resp))
	r.Count("sync_cycles", cycles)
	r.Count("restarts_same_pivot", restarts)
	r.Count("fresh_syncer_instances", freshCount)
	r.Count("reorged_pivots", reorgs)
	r.Count("crash_restarts", crashes)
	r.Count(fmt.Sprintf("completed_v%d_%s", c.version, c.scheme), 1)
	if c.version == 2 && len(distinct) > 1 {
		r.Count("v2_completed_after_pivot_move", 1)
	}
	if !c.hostile {
		r.Count("bounded_progress_cases", 1)
		b := c.bound.Load()
		ratio := int(1000 * resp / b)
		maxRatioMu.Lock()
		if ratio > maxRatio {
			maxRatio = ratio
		}
		maxRatioMu.Unlock()
	}
	bucket := func(n int) string {
		switch {
		case n == 0:
			return "0"
		case n == 1:
			return "1"
		case n <= 3:
			return "2-3"
		}
		return "4+"
	}
	sizeB := "s"
	if accounts > 300 {
		sizeB = "l"
	} else if accounts > 60 {
		sizeB = "m"
	}
	if tiny {
		sizeB = "tiny"
	}
	if reorgClass {
		r.Count("v1reorg_cases_completed", 1)
	}
	sig := fmt.Sprintf("v%d/%s/hostile=%v/fams=%s/moves=%s/restarts=%s/crash=%v/reorg=%v/big=%d/size=%s/ttl=%v", c.version, c.scheme, c.hostile,
		strings.Join(fams, "+"), bucket(len(distinct)-1), bucket(restarts), crashes > 0, reorgs > 0, len(bigSlots), sizeB, c.shortTTL)
	if reorgClass {
		sig += "/class=v1reorg"
	}
	r.Eval(sig)
	if r.WantSample() {
		r.Sample(map[string]any{"case": i, "signature": sig, "accounts": len(done.accts), "slots": done.nSlots, "trie_nodes": done.nNodes,
			"codes": done.nCodes, "states": len(c.ch.states), "targets": len(targets), "cycles": cycles, "responses": resp,
			"final_pivot": done.num, "root": done.root.Hex()})
	}
}

var debugOn = os.Getenv("VERIF_DEBUG") != ""
var v1Reorg = os.Getenv("C47_V1_REORG") == "1"

// reorgBase is the first case index of the v1reorg scenario class.
const reorgBase = 1000000

var v1CrashTail = os.Getenv("C47_V1_CRASH_TAIL") == "1"

var (
	maxRatioMu sync.Mutex
	maxRatio   int
)

// flatDiff summarises how the flat state differs from the target (witness text).
func (c *caseCtx) flatDiff(t *stateData) string {
	res, _ := checkCompletion(c.db, t, c.ch, c.g, c.mon.admissible.Load(), c.path, oracleOpts{exactFlat: true})
	var parts []string
	for class, d := range res {
		if strings.HasPrefix(class, "flat-slot") || class == "flat-account-missing" || class == "flat-account-extra" {
			parts = append(parts, fmt.Sprintf("%s x%d (%s)", class, d.n, strings.Join(d.msgs[:1], "")))
		}
	}
	sort.Strings(parts)
	return "flat state vs target: " + strings.Join(parts, "; ")
}

func run(r *vrt.Run) {
	r.Rule("each case = (snap version, scheme, peer mode) by index x random history (20..3000 accounts log-uniform, 0-2 large contracts, " +
		"shared code, 1..60 states with access lists, optional fork and decoy states) x random pivot plan (moves, cancels after k responses " +
		"or k writes, fresh syncer instances, reorg) x 1-8 peers with per-request random behaviour. non-trivial signature = (version, scheme, " +
		"hostile?, misbehaviour families seen, pivot moves bucket, same-pivot restarts bucket, reorg?, #large contracts, size class, short TTL?)")
	n := r.N(96, 2000)
	if r.Race() {
		n = r.N(32, 320)
	}
	debug.SetGCPercent(50)                           // many cases hold their ground truth at the same time: trade CPU for memory
	if only := os.Getenv("VERIF_CASE"); only != "" { // replay of a single case (same generated inputs)
		i, _ := strconv.Atoi(only)
		reps, _ := strconv.Atoi(os.Getenv("VERIF_REPS"))
		for k := 0; k <= reps; k++ {
			runCase(r, i)
		}
		return
	}
	nReorg := r.N(6, 60)
	if r.Race() {
		nReorg = r.N(2, 8)
	}
	vrt.Par(n+nReorg, 0, func(i int) {
		if i >= n {
			i = reorgBase + i - n
		}
		runCase(r, i)
	})

	r.Extra("bounded_progress_max_ratio_permille", maxRatio)
	r.Logf("bounded progress: max responses/bound = %d permille", maxRatio)
	r.Extra("bounded_progress_bound", "responses <= ((accounts+slots+codes+trie nodes of the largest targeted state) + 200) * planned sync cycles, honest/partial peers only")
	r.Assume("ground truth from the reference trie verif/lib/refmpt and the reference account encodings verif/lib/flatstate; Merkle proofs of honest peers are assembled from the reference trie's node set")
	r.Assume("C12 clause 'a delivered node whose hash does not match is rejected and never written' is decided here: corrupted / substituted / reordered trie-node responses go through the real snap.Syncer.OnTrieNodes and every trie-node write is checked by the write monitor (counters heal_*_delivered, heal_responses_rejected_by_OnTrieNodes, monitor_puts_trienode_*)")
	if !r.Race() {
		for _, k := range []string{"completed_v1_hash", "completed_v1_path", "completed_v2_hash", "completed_v2_path"} {
			r.Require(k, int64(r.N(12, 250)))
		}
		r.Require("pivot_moves", 20)
		r.Require("v2_completed_after_pivot_move", 8)
		r.Require("req_access_lists_blocks", 30)
		r.Require("req_trienodes", 100)
		r.Require("req_storage_subrange", 10)
		r.Require("cycles_cancelled", 20)
		r.Require("fresh_syncer_instances", 10)
		r.Require("bounded_progress_cases", 10)
		r.Require("monitor_puts_flat_account", 1000)
		r.Require("monitor_puts_flat_slot", 1000)
		r.Require("monitor_puts_code", 50)
		r.Require("resp_acct_rejected", 10)
		r.Require("resp_stor_rejected", 10)
		r.Require("resp_code_rejected", 3)
		r.Require("heal_responses_rejected_by_OnTrieNodes", 3)
		r.Require("heal_corrupt_nodes_delivered", 2)
		r.Require("reorged_pivots", 1)
		r.Require("crash_restarts", 5)
		r.Require("mined_truncations", 2)
		r.Require("req_storage_subrange_bounded", 5)
		r.Require("cycles_bal_unavailable", 0)
	} else {
		r.Require("completion_comparisons", 1000)
	}
}
