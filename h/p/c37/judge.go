package main

import (
	"context"
	"crypto/ecdsa"
	"errors"
	"fmt"
	"math/big"

	"github.com/ethereum/go-ethereum/common"
	"github.com/ethereum/go-ethereum/core"
	"github.com/ethereum/go-ethereum/core/types"
	"github.com/ethereum/go-ethereum/core/vm"
	"github.com/ethereum/go-ethereum/eth/gasestimator"
	"github.com/ethereum/go-ethereum/params"
	"github.com/holiman/uint256"

	"verif/lib/execenv"
	"verif/lib/vrt"
)

// allowance is the allowance cap recomputed by the harness from the stated rules: the call's
// gas limit if >= 21000, else the block gas limit; clamped to params.MaxTxGas under Osaka
// (not Amsterdam); clamped to (balance - value)/feeCap if a fee cap is set; clamped to the
// gas cap if non-zero. On ties the earlier rule keeps the name.
type allowance struct {
	allow        uint64
	capBy        string       // block | call | maxtxgas | balance | gascap
	balanceAllow *uint256.Int // nil without a fee cap (or when value >= balance)
	fundsError   bool         // value >= balance with a fee cap set: Estimate must fail
	caps         map[string]uint64
}

func allowanceOf(e *env, call *core.Message, fork execenv.Fork, gasCap uint64) allowance {
	a := allowance{allow: e.header.GasLimit, capBy: "block", caps: map[string]uint64{}}
	if call.GasLimit >= params.TxGas {
		a.allow, a.capBy = call.GasLimit, "call"
		a.caps["call"] = call.GasLimit
	} else {
		a.caps["block"] = e.header.GasLimit
	}
	if fork == execenv.Osaka {
		a.caps["maxtxgas"] = params.MaxTxGas
		if a.allow > params.MaxTxGas {
			a.allow, a.capBy = params.MaxTxGas, "maxtxgas"
		}
	}
	if feeCap := call.GasFeeCap; feeCap.BitLen() != 0 {
		bal := e.st.GetBalance(call.From).Clone()
		if call.Value.Cmp(bal) >= 0 {
			a.fundsError = true
		} else {
			bal.Sub(bal, call.Value)
			a.balanceAllow = new(uint256.Int).Div(bal, feeCap)
			if a.balanceAllow.IsUint64() {
				a.caps["balance"] = a.balanceAllow.Uint64()
				if a.allow > a.balanceAllow.Uint64() {
					a.allow, a.capBy = a.balanceAllow.Uint64(), "balance"
				}
			}
		}
	}
	if gasCap != 0 {
		a.caps["gascap"] = gasCap
		if a.allow > gasCap {
			a.allow, a.capBy = gasCap, "gascap"
		}
	}
	return a
}

type judgeParams struct {
	fork       execenv.Fork
	gasCap     uint64
	errorRatio float64
	monotone   bool
	need       uint64 // smallest sufficient gas found by the harness with a rich sender (messages only)
	// realTx: additionally apply a signed transaction carrying the estimate as its gas limit
	// with the normal transaction checks. Only meaningful when the gas requirement does not
	// depend on the price fields (priced calls, or programs that do not read the environment).
	realTx  bool
	witness map[string]any
}

type verdict struct {
	allowance
	capOK    bool // execution at the allowance cap succeeds
	capErr   error
	g        uint64
	estErr   error
	errClass string
	okAtG    bool
	res      *core.ExecutionResult // of the execution with g
	shortcut bool
}

// judge runs the estimator on a copy of call and checks the clauses S, M, C, E (main.go) and
//
//	T  a signed transaction with gas limit g, applied with the real state transition and
//	   the normal transaction checks (nonce, EIP-7825 cap, EOA sender, fee cap vs base fee,
//	   funds for g*feeCap+value, block gas pool), is accepted and succeeds.
func judge(r *vrt.Run, e *env, call *core.Message, p judgeParams) verdict {
	v := verdict{allowance: allowanceOf(e, call, p.fork, p.gasCap)}
	if !v.fundsError {
		v.capOK, _, v.capErr = e.execAt(call, v.allow)
	}
	msg := *call
	eopts := &gasestimator.Options{Config: e.chain.Cfg, Chain: e.chain, Header: e.header, State: e.st, ErrorRatio: p.errorRatio}
	g, _, estErr := gasestimator.Estimate(context.Background(), &msg, eopts, p.gasCap)
	v.g, v.estErr = g, estErr

	witness := p.witness
	witness["allowance_cap"], witness["cap_by"], witness["succeeds_at_cap"] = v.allow, v.capBy, v.capOK
	witness["estimate"], witness["estimate_error"] = g, fmt.Sprint(estErr)
	allow, capBy := v.allow, v.capBy

	if msg.GasLimit != call.GasLimit {
		r.Violation("call-mutated", fmt.Sprintf("Estimate left call.GasLimit = %d (was %d)", msg.GasLimit, call.GasLimit), witness)
	}
	// The estimator has one documented shortcut: a message without data to an account without
	// code is probed at params.TxGas (21000) and that figure is returned if it succeeds.
	// Refutations that stem from it get their own fingerprints (one root cause).
	v.shortcut = estErr == nil && len(call.Data) == 0 && call.To != nil && e.st.GetCodeSize(*call.To) == 0 && g == params.TxGas
	switch {
	case estErr != nil:
		if v.capOK {
			r.Violation("error-though-cap-succeeds", fmt.Sprintf("execution with the allowance cap %d (%s) succeeds but Estimate failed: %v", allow, capBy, estErr), witness)
		}
		r.Count("expected_errors", 1)
		v.errClass = "other"
		switch {
		case errors.Is(estErr, vm.ErrExecutionReverted):
			v.errClass = "revert"
		case errors.Is(estErr, core.ErrInsufficientFunds), errors.Is(estErr, core.ErrInsufficientFundsForTransfer):
			v.errClass = "funds"
		case v.capErr != nil:
			v.errClass = "core"
		}
		return v
	case !v.capOK:
		// E: the estimator answered although execution at the cap fails. The only documented
		// shortcut is the plain transfer probed at 21000.
		if v.shortcut && allow < params.TxGas {
			r.Violation("transfer-shortcut:exceeds-allowance", fmt.Sprintf("plain transfer: the allowance cap is %d (%s), execution with it fails (%v), but Estimate returned params.TxGas = %d", allow, capBy, v.capErr, g), witness)
		} else {
			r.Violation("estimate-though-cap-fails", fmt.Sprintf("execution with the allowance cap %d (%s) fails (%v) but Estimate returned %d", allow, capBy, v.capErr, g), witness)
		}
	}
	r.Count("estimates_ok", 1)
	// S
	ok, res, err := e.execAt(call, g)
	v.okAtG, v.res = ok, res
	if !ok {
		why := fmt.Sprint(err)
		if res != nil {
			why = fmt.Sprint(res.Err)
		}
		r.Violation("estimate-insufficient", fmt.Sprintf("execution with the estimated gas %d fails: %s", g, why), witness)
	}
	// C
	if p.gasCap != 0 && g > p.gasCap {
		if v.shortcut {
			r.Violation("transfer-shortcut:exceeds-allowance", fmt.Sprintf("plain transfer: estimate %d (params.TxGas) exceeds the gas cap %d", g, p.gasCap), witness)
		} else {
			r.Violation("exceeds-gas-cap", fmt.Sprintf("estimate %d exceeds the gas cap %d", g, p.gasCap), witness)
		}
	}
	if v.balanceAllow != nil && v.balanceAllow.IsUint64() && g > v.balanceAllow.Uint64() {
		r.Violation("exceeds-funds", fmt.Sprintf("estimate %d exceeds what the balance affords at the fee cap: %d", g, v.balanceAllow.Uint64()), witness)
	}
	if p.fork == execenv.Osaka && g > params.MaxTxGas {
		r.Violation("exceeds-max-tx-gas", fmt.Sprintf("estimate %d exceeds params.MaxTxGas", g), witness)
	}
	if lim := map[bool]uint64{true: call.GasLimit, false: e.header.GasLimit}[call.GasLimit >= params.TxGas]; g > lim {
		r.Violation("exceeds-gas-limit", fmt.Sprintf("estimate %d exceeds the call/block gas limit %d", g, lim), witness)
	}
	// M
	if p.errorRatio == 0 && p.monotone && g > 0 {
		if ok, _, _ := e.execAt(call, g-1); ok {
			if v.shortcut {
				r.Violation("transfer-shortcut:not-minimal", fmt.Sprintf("ErrorRatio 0, plain transfer under %s: Estimate returned params.TxGas = %d but execution with %d succeeds as well (smallest sufficient gas found by the harness: %d)", p.fork, g, g-1, p.need), witness)
			} else {
				r.Violation("estimate-not-minimal", fmt.Sprintf("ErrorRatio 0, gas-monotone program: execution with %d (estimate - 1) succeeds as well", g-1), witness)
			}
		}
		r.Count("minimality_checked", 1)
	}
	// T (not after S failed: same root cause)
	if p.realTx && v.okAtG {
		e.applyAsTx(r, call, g, witness)
	}
	return v
}

var keyOf = func() map[common.Address]*ecdsa.PrivateKey {
	m := map[common.Address]*ecdsa.PrivateKey{}
	for i := 0; i < 4; i++ {
		k, a := execenv.Key(i)
		m[a] = k
	}
	return m
}()

// applyAsTx signs an EIP-1559 transaction that carries the call's fields and gas limit g and
// applies it with the real state transition: nothing skipped, real base fee, a block gas
// pool of the header's gas limit. A call without price fields gets the base fee as fee cap
// (a real transaction cannot be cheaper). One deliberate allowance of the estimator is not
// counted against it: a caller-supplied gas limit above the block gas limit replaces the
// block gas limit as upper bound (documented in Estimate: "the highest gas limit can be
// used"), so for such estimates the pool is raised to g and the case is counted.
func (e *env) applyAsTx(r *vrt.Run, call *core.Message, g uint64, witness map[string]any) {
	key := keyOf[call.From]
	if key == nil || e.header.BaseFee == nil {
		return
	}
	feeCap, tip := call.GasFeeCap.ToBig(), call.GasTipCap.ToBig()
	if feeCap.Sign() == 0 {
		feeCap, tip = new(big.Int).Set(e.header.BaseFee), new(big.Int)
	}
	tx, err := types.SignNewTx(key, types.LatestSignerForChainID(e.chain.Cfg.ChainID), &types.DynamicFeeTx{
		ChainID: e.chain.Cfg.ChainID, Nonce: e.st.GetNonce(call.From), GasTipCap: tip, GasFeeCap: feeCap, Gas: g,
		To: call.To, Value: call.Value.ToBig(), Data: call.Data, AccessList: call.AccessList,
	})
	if err != nil {
		r.Inconclusive("sign: %v", err)
		return
	}
	m, err := core.TransactionToMessage(tx, types.LatestSignerForChainID(e.chain.Cfg.ChainID), e.header.BaseFee)
	if err != nil {
		r.Inconclusive("tx to message: %v", err)
		return
	}
	pool := e.header.GasLimit
	if g > pool && call.GasLimit >= params.TxGas {
		pool = g
		r.Count("estimate_above_block_limit_by_caller_allowance", 1)
	}
	st := e.st.Copy()
	evm := vm.NewEVM(core.NewEVMBlockContext(e.header, e.chain, nil), st, e.chain.Cfg, vm.Config{})
	defer evm.Release()
	res, err := core.ApplyMessage(evm, m, core.NewGasPool(pool))
	r.Count("applied_as_transaction", 1)
	cls, why := "", ""
	switch {
	case errors.Is(err, core.ErrGasLimitTooHigh):
		cls = "gas-limit-too-high"
	case errors.Is(err, core.ErrGasLimitReached):
		cls = "block-gas-limit"
	case errors.Is(err, core.ErrInsufficientFunds), errors.Is(err, core.ErrInsufficientFundsForTransfer):
		cls = "insufficient-funds"
	case errors.Is(err, core.ErrIntrinsicGas), errors.Is(err, core.ErrFloorDataGas):
		cls = "intrinsic-gas"
	case err != nil:
		cls = "rejected"
	case res.Failed():
		cls, why = "execution-failed", fmt.Sprint(res.Err)
	}
	if err != nil {
		why = err.Error()
	}
	if cls != "" {
		r.Violation("estimate-unusable-as-transaction:"+cls, fmt.Sprintf("a signed transaction with the estimate %d as gas limit (fee cap %v, block gas pool %d) applied with the normal transaction checks fails: %s", g, feeCap, pool, why), witness)
	}
}
