// Cap-interaction family of C37.
//
// The estimator's upper bound is the minimum of up to five caps: the block gas limit (only
// without a caller-supplied gas limit), the caller-supplied gas limit, the per-transaction
// cap of the rule set (EIP-7825: params.MaxTxGas under Osaka, lifted for the gas limit by
// Amsterdam), the balance-derived allowance (balance - value)/feeCap, and the gasCap
// argument. This family walks a grid
//
//	rule set  x  cap meant to bind  x  where the true requirement lies relative to it
//
// cell by cell, with the cap meant to come next rotating per round and the remaining caps
// absent, tied, one above, a little above or far above the binding one. The binding cap sits
// at 5M, just below / at / just above 2^24, ~18M, 30M (also as block gas limit) or - same cap
// logic, cheap to execute - in 0.2M..2M. The callee is a gas-monotone burner whose
// requirement the harness places to the unit (see burner) and then measures by its own
// search; which cell a case actually lands in is read off the judged state (counters cell/,
// pair/, dim/), not off the plan. The verdict comes from
// judge(): recomputed allowance + re-execution + application as a real transaction.
package main

import (
	"fmt"
	"math/big"
	"sort"

	"github.com/ethereum/go-ethereum/common"
	"github.com/ethereum/go-ethereum/core"
	"github.com/ethereum/go-ethereum/core/tracing"
	"github.com/ethereum/go-ethereum/core/vm"
	"github.com/ethereum/go-ethereum/params"
	"github.com/holiman/uint256"

	"verif/lib/execenv"
	"verif/lib/vrt"
)

const (
	maxTx  = params.MaxTxGas
	bigGas = uint64(1) << 26 // above every cap this family uses: the harness' "unlimited"
	maxPad = 6000
)

var (
	// rule-set slots of the grid: Frontier stands for "one of London, Cancun, Prague" (no
	// per-transaction cap; drawn per case); Osaka, where the cap applies, gets half of the grid
	capForks = []execenv.Fork{execenv.Frontier, execenv.Frontier, execenv.Osaka, execenv.Osaka, execenv.Osaka, execenv.Amsterdam}
	capKinds = []string{"block", "call", "maxtxgas", "balance", "gascap"}
	// (the relations between the binding cap and the next one are cheap - one failing execution
	// in the estimator - and are what tells a cap that is not applied: double weight)
	capRels   = []string{"below-far", "below-near", "at", "above-near", "above-next", "above-next", "at-next", "at-next", "above-all"}
	capCells  = len(capForks) * len(capKinds) * len(capRels)
	burnerAt  = common.HexToAddress("0xb0b0000000000000000000000000000000000001")
	innerAt   = common.HexToAddress("0xb0b0000000000000000000000000000000000002")
	capMiner  = common.HexToAddress("0xc01bba5e00000000000000000000000000000002")
	richFunds = new(uint256.Int).Exp(uint256.NewInt(10), uint256.NewInt(24))
)

func forkClass(f execenv.Fork) string {
	switch {
	case f == execenv.Osaka:
		return "osaka"
	case f >= execenv.Amsterdam:
		return "amsterdam"
	}
	return "pre-osaka"
}

// ---- burner programs -----------------------------------------------------------------------
//
// burner(k, s, n):  k x JUMPDEST (1 gas each); if s > 0 a loop storing 1 into the fresh slots
// s..1 (about 22100 gas per iteration before Amsterdam: a quarter of the countdown loop's CPU
// per gas; sinks that allocate - large LOGs, one big memory expansion - turned out slower
// than the countdown loop on this machine); a countdown loop of n >= 1 iterations (26 gas
// each); STOP. No GAS opcode, no calls: the call succeeds iff the gas limit covers a fixed
// cost.
//
// outer(k): k x JUMPDEST; CALL innerAt with "all" gas (constant 0xffffffff, capped by the
// 63/64 rule) and REVERT if it failed, else STOP. Gas-monotone as well; the requirement
// exceeds the gas used by about 1/63 of the callee's cost.

func burner(k int, s, n uint64) []byte {
	b := make([]byte, 0, k+64)
	for i := 0; i < k; i++ {
		b = append(b, byte(vm.JUMPDEST))
	}
	push4 := func(v uint64) { b = append(b, byte(vm.PUSH4), byte(v>>24), byte(v>>16), byte(v>>8), byte(v)) }
	if s > 0 {
		push4(s)
		l := len(b)
		b = append(b, byte(vm.JUMPDEST), byte(vm.PUSH1), 1, byte(vm.DUP2), byte(vm.SSTORE),
			byte(vm.PUSH1), 1, byte(vm.SWAP1), byte(vm.SUB), byte(vm.DUP1), byte(vm.PUSH2), byte(l>>8), byte(l), byte(vm.JUMPI), byte(vm.POP))
	}
	push4(n)
	l := len(b)
	b = append(b, byte(vm.JUMPDEST), byte(vm.PUSH1), 1, byte(vm.SWAP1), byte(vm.SUB), byte(vm.DUP1), byte(vm.PUSH2), byte(l>>8), byte(l), byte(vm.JUMPI), byte(vm.STOP))
	return b
}

func outer(k int) []byte {
	b := make([]byte, 0, k+48)
	for i := 0; i < k; i++ {
		b = append(b, byte(vm.JUMPDEST))
	}
	for i := 0; i < 5; i++ { // retSize retOffset argsSize argsOffset value
		b = append(b, byte(vm.PUSH1), 0)
	}
	b = append(b, byte(vm.PUSH20))
	b = append(b, innerAt[:]...)
	b = append(b, byte(vm.PUSH4), 0xff, 0xff, 0xff, 0xff, byte(vm.CALL))
	ok := len(b) + 4 + 5
	b = append(b, byte(vm.PUSH2), byte(ok>>8), byte(ok), byte(vm.JUMPI))
	b = append(b, byte(vm.PUSH1), 0, byte(vm.PUSH1), 0, byte(vm.REVERT))
	b = append(b, byte(vm.JUMPDEST), byte(vm.STOP))
	return b
}

// minGas is the harness' own search for the smallest gas limit with which the call succeeds
// in the estimator's environment; ok=false if it fails even with bigGas.
func minGas(e *env, call *core.Message) (need uint64, ok bool) {
	ok0, res, _ := e.execAt(call, bigGas)
	if !ok0 {
		return 0, false
	}
	try := func(g uint64) bool { s, _, _ := e.execAt(call, g); return s }
	u := max(res.UsedGas, res.MaxUsedGas)
	lo, hi := uint64(0), bigGas // lo fails, hi succeeds
	if try(u) {
		hi = u
		if u == 0 || !try(u-1) {
			return u, true
		}
	} else {
		// More than the gas used is needed (63/64 rule, refunds). The probe order is a
		// heuristic only (start where a single all-gas CALL of a ~24k-overhead transaction
		// would put it, then widen step by step); the answer rests on the invariant "lo
		// fails, hi succeeds" and the final bisection.
		lo = u
		g := u + 64
		if u > 24_000 {
			g = u + (u-24_000)/63
		}
		if g < hi && try(g) {
			hi = g
			for step := uint64(1); hi-lo > step; step *= 4 {
				if !try(hi - step) {
					lo = hi - step
					break
				}
				hi -= step
			}
		} else {
			if g < hi {
				lo = g
			}
			for step := uint64(1); lo+step < hi; step *= 4 {
				if try(lo + step) {
					hi = lo + step
					break
				}
				lo += step
			}
		}
	}
	for lo+1 < hi {
		mid := lo + (hi-lo)/2
		if try(mid) {
			hi = mid
		} else {
			lo = mid
		}
	}
	return hi, true
}

// withCode returns an environment on a copy of e's state with the given code installed
// (placement rounds only; the judged state is built from the allocation).
func (e *env) withCode(code map[common.Address][]byte) *env {
	st := e.st.Copy()
	for a, c := range code {
		st.SetCode(a, c, tracing.CodeChangeUnspecified)
	}
	return &env{chain: e.chain, header: e.header, st: st}
}

// burnerParams describe one callee; code() is what goes into the state.
type burnerParams struct {
	nested bool
	k      int
	s, n   uint64
}

func (p burnerParams) code() map[common.Address][]byte {
	if p.nested {
		return map[common.Address][]byte{burnerAt: outer(p.k), innerAt: burner(0, p.s, p.n)}
	}
	return map[common.Address][]byte{burnerAt: burner(p.k, p.s, p.n)}
}

// place chooses the parameters of the given shape such that the requirement is as close to
// target as the harness can get: on target for every shape unless the target is below the
// fixed cost or the rule set makes it unreachable. Placement measures on e (rich sender); the
// judged requirement is measured again on the final state.
//
//	loop    countdown loop only (every execution costs CPU in proportion to the gas)
//	store   SSTORE loop for the bulk, countdown loop and pad for the remainder
//	nested  outer contract calling a store burner with all gas (63/64 rule), pad in the outer
func place(e *env, call *core.Message, fork execenv.Fork, shape string, target uint64) burnerParams {
	p := burnerParams{nested: shape == "nested", n: 1}
	measure := func() (uint64, bool) { return minGas(e.withCode(p.code()), call) }
	// the bulk sink: its cost per iteration under this rule set is measured, not assumed
	var bulk *uint64
	if shape == "store" || shape == "nested" {
		bulk = &p.s
	}
	per, predicted, linear := uint64(0), uint64(0), true
	if bulk != nil {
		*bulk = 1
		a, ok1 := measure()
		*bulk = 2
		b, ok2 := measure()
		*bulk = 3
		c, ok3 := measure()
		linear = ok3 && c > b && c-b == b-a
		*bulk = 0
		if ok1 && ok2 && b > a {
			per = b - a
			if target > a+per {
				*bulk = 1 + (target-a-per)/per
				if p.nested {
					*bulk = 1 + (target-a-per)/64*63/per
				}
				predicted = a + (*bulk-1)*per
			}
		}
	}
	// measured corrections; the countdown loop and the pad are exact units of 26 and 1 gas
	// wherever the requirement equals the gas used
	exact := !p.nested && linear
	for round := 0; round < 6; round++ {
		need, ok := predicted, true
		if round > 0 || !exact || predicted == 0 { // (the bulk loop is linear where exact)
			need, ok = measure()
		}
		if !ok || need == target {
			break
		}
		if need < target {
			d := target - need
			switch {
			case p.nested && d >= 200: // the callee's cost weighs 64/63 in the requirement
				p.n += (d/64*63 - 64) / 26
			case p.nested: // pad in front of the CALL: exact
				p.k += int(d)
				return p
			default:
				p.n += d / 26
				p.k += int(d % 26)
				if exact {
					return p
				}
			}
			continue
		}
		dec := (need-target)/26 + 2
		switch {
		case p.n > dec:
			p.n -= dec
		case bulk != nil && *bulk > 0 && per > 0:
			*bulk--
			p.n += per / 26
		default:
			return p
		}
	}
	return p
}

// ---- one case ------------------------------------------------------------------------------

func capCase(r *vrt.Run, ci int, heavy bool, offset int) {
	stream := "capgrid"
	if heavy {
		stream = "capheavy"
	}
	rng := r.Rand(stream, ci)
	cell := (ci + offset) % capCells
	if heavy {
		cell = (ci*67 + offset) % capCells // 67 is coprime to the cell count: a spread sample
	}
	fork := capForks[cell%len(capForks)]
	if fork == execenv.Frontier {
		fork = []execenv.Fork{execenv.London, execenv.Cancun, execenv.Prague}[rng.Intn(3)]
	}
	want := capKinds[cell/len(capForks)%len(capKinds)]
	rel := capRels[cell/len(capForks)/len(capKinds)]

	// the binding cap's position: around the per-transaction cap of Osaka (also where that
	// cap does not exist: nothing may be clamped there), at 5M, ~18M, 30M, and - cheap to
	// execute, same cap logic - somewhere in 200k..2M
	var anchor uint64
	pick := rng.Intn(8)
	switch {
	case fork != execenv.Osaka && !heavy && pick >= 5:
		pick = 7 // 4 in 8 small where the 2^24 scale has no special meaning
	case fork == execenv.Osaka && want != "maxtxgas" && pick >= 3:
		// above 2^24 another cap cannot bind under Osaka: those positions belong to the
		// "maxtxgas" column, where every other cap is at or above 2^24
		pick = []int{0, 1, 2, 7, 7}[pick-3]
	}
	switch pick {
	case 0:
		anchor = 5_000_000 + uint64(rng.Intn(200_000))
	case 1:
		anchor = maxTx - 1 - uint64(rng.Intn(64))
	case 2:
		anchor = maxTx
	case 3:
		anchor = maxTx + 1 + uint64(rng.Intn(64))
	case 4:
		anchor = 18_000_000 + uint64(rng.Intn(1_000_000))
	case 5:
		anchor = 30_000_000
	default:
		anchor = 200_000 + uint64(rng.Intn(1_800_000))
		if heavy {
			anchor = 5_000_000 + uint64(rng.Intn(200_000))
		}
	}
	if want == "maxtxgas" {
		anchor = maxTx
	}
	// a non-binding cap: tied, one above, a little above, well above, far above
	loose := func() uint64 {
		switch rng.Intn(5) {
		case 0:
			return anchor
		case 1:
			return anchor + 1
		case 2:
			return anchor + 2 + uint64(rng.Intn(2000))
		case 3:
			return min(anchor+uint64(rng.Intn(10_000_000)), 60_000_000)
		}
		return 40_000_000 + uint64(rng.Intn(5))*5_000_000
	}
	// the designated looser cap ("under"): present for sure and strictly above the binding
	// one, so that every pair (cap that binds, cap that would bind next) is reached; the
	// remaining caps are absent or anywhere at/above the binding one
	var cands []string
	for _, c := range capKinds {
		switch {
		case c == want, c == "maxtxgas" && fork != execenv.Osaka, c == "call" && want == "block", c == "block" && want == "call":
		default:
			cands = append(cands, c)
		}
	}
	under := cands[(ci/capCells+cell)%len(cands)] // rotates with the round: every pair in every seed
	nextRel := rel == "above-near" || rel == "above-next" || rel == "at-next"
	aboveAnchor := func() uint64 {
		if fork == execenv.Osaka && want != "maxtxgas" && under != "maxtxgas" && anchor < maxTx {
			// to come next under Osaka a cap must not exceed the per-transaction cap
			switch d := maxTx - anchor; rng.Intn(4) {
			case 0:
				return anchor + 1
			case 1:
				return anchor + 1 + min(d-1, uint64(rng.Intn(2000)))
			case 2:
				return anchor + 1 + uint64(rng.Int63n(int64(d)))
			}
			return maxTx
		}
		for {
			if v := loose(); v > anchor {
				return v
			}
		}
	}
	underVal := aboveAnchor()
	if under == "maxtxgas" {
		underVal = maxTx
	}
	above := func() uint64 { return underVal }
	rest := func() uint64 { // a cap that is neither meant to bind nor to come next
		if v := loose(); v >= underVal || !nextRel && rng.Intn(2) == 0 {
			return v
		}
		return underVal + uint64(rng.Intn(3))*uint64(rng.Intn(1_000_000))
	}
	blockLimit := rest()
	switch {
	case want == "block":
		blockLimit = anchor
	case under == "block":
		blockLimit = above()
	case want == "maxtxgas" || rng.Intn(2) == 0:
		blockLimit = max(blockLimit, 30_000_000+uint64(rng.Intn(4))*10_000_000) // realistic block limits
	}
	var callGas uint64
	switch k := rng.Intn(10); {
	case want == "call":
		callGas = anchor
	case under == "call":
		callGas = above()
	case want == "block" || under == "block" || k < 4:
		// absent (a caller-supplied limit would replace the block gas limit)
		if k == 0 {
			callGas = uint64(rng.Intn(int(params.TxGas))) // below 21000: ignored
		}
	default:
		callGas = rest()
	}
	var gasCap uint64
	switch {
	case want == "gascap":
		gasCap = anchor
	case under == "gascap":
		gasCap = above()
	case rng.Intn(2) == 0:
		gasCap = rest()
	}
	priced := want == "balance" || under == "balance" || rng.Intn(3) > 0
	var balAllow uint64 // 0: rich
	switch {
	case want == "balance":
		balAllow = anchor
	case under == "balance":
		balAllow = above()
	case priced && rng.Intn(2) == 0:
		balAllow = rest()
	}

	_, from := execenv.Key(rng.Intn(4))
	chain := execenv.NewChain(fork)
	hp := execenv.HeaderParams{Coinbase: capMiner, Random: common.Hash{0x37, 0x01}, GasLimit: blockLimit, BaseFee: big.NewInt(int64(7 + rng.Intn(50_000_000_000)))}
	baseFee := uint256.MustFromBig(hp.BaseFee)
	to := burnerAt
	value := new(uint256.Int)
	call := &core.Message{From: from, To: &to, Value: value, GasPrice: new(uint256.Int), GasFeeCap: new(uint256.Int), GasTipCap: new(uint256.Int),
		GasLimit: callGas, SkipNonceChecks: true, SkipTransactionChecks: true}
	if l := rng.Intn(3); l > 0 {
		call.Data = make([]byte, 1+rng.Intn(36))
		rng.Read(call.Data)
	}
	if priced {
		tip := uint256.NewInt(uint64(rng.Intn(3_000_000_000)))
		call.GasTipCap = tip
		call.GasFeeCap = new(uint256.Int).Add(baseFee, tip)
		if rng.Intn(2) == 0 {
			call.GasFeeCap.AddUint64(call.GasFeeCap, uint64(rng.Intn(1_000_000_000)))
		}
		call.GasPrice = new(uint256.Int).Add(baseFee, tip)
	}
	switch rng.Intn(4) {
	case 0:
		value.SetUint64(uint64(1 + rng.Intn(1_000_000)))
	case 1:
		if priced { // worth many gas units at the fee cap
			value.Mul(call.GasFeeCap, uint256.NewInt(uint64(1+rng.Intn(2_000_000))))
		}
	}
	errorRatio := 0.0
	if rng.Intn(2) == 0 {
		errorRatio = 0.015
	}

	// planned allowance and the caps above it (the judged allowance is recomputed from the state)
	caps := []uint64{}
	planned := blockLimit
	if callGas >= params.TxGas {
		planned = callGas
	}
	caps = append(caps, planned)
	if fork == execenv.Osaka {
		caps = append(caps, maxTx)
	}
	if balAllow != 0 {
		caps = append(caps, balAllow)
	}
	if gasCap != 0 {
		caps = append(caps, gasCap)
	}
	sort.Slice(caps, func(i, j int) bool { return caps[i] < caps[j] })
	planned = caps[0]
	next, top := uint64(0), caps[len(caps)-1]
	for _, c := range caps {
		if c > planned {
			next = c
			break
		}
	}
	var target uint64
	switch rel {
	case "below-far":
		target = planned/2 + uint64(rng.Int63n(int64(planned/2-2000)))
	case "below-near":
		target = planned - 1 - uint64(rng.Intn(64))
	case "at":
		target = planned
	case "above-near":
		target = planned + 1 + uint64(rng.Intn(64))
	case "above-next": // above the binding cap, within the next one
		if next == 0 { // no looser cap: any amount above
			target = planned + 1 + uint64(rng.Intn(3_000_000))
		} else {
			target = planned + 1 + uint64(rng.Int63n(int64(next-planned)))
		}
	case "at-next": // exactly what the next cap allows (or one less)
		target = planned + 1 + uint64(rng.Intn(3_000_000))
		if next != 0 {
			target = max(planned+1, next-uint64(rng.Intn(2)))
		}
	default:
		target = max(top, blockLimit) + 1 + uint64(rng.Intn(1_000_000))
	}
	target = min(target, bigGas-2_000_000)

	shape := "loop"
	if !heavy {
		shape = "store"
		if rng.Intn(8) == 0 {
			shape = "nested"
		}
	}
	r.Case("cap-grid %d heavy=%v fork %s bind %s under %s rel %s shape %s anchor %d block %d callgas %d gascap %d balallow %d target %d", ci, heavy, fork, want, under, rel, shape, anchor, blockLimit, callGas, gasCap, balAllow, target)

	alloc := map[common.Address]execenv.Account{
		burnerAt: {Nonce: 1, Code: []byte{byte(vm.STOP)}},
		capMiner: {Balance: uint256.NewInt(1)},
	}
	for i := 0; i < 4; i++ {
		_, a := execenv.Key(i)
		alloc[a] = execenv.Account{Balance: richFunds.Clone(), Nonce: uint64(rng.Intn(3))}
	}
	if shape == "nested" {
		alloc[innerAt] = execenv.Account{Nonce: 1, Code: []byte{byte(vm.STOP)}}
	}
	build := func() *env {
		st, root, err := execenv.NewState(alloc, fork >= execenv.Prague)
		if err != nil {
			r.Inconclusive("state: %v", err)
			return nil
		}
		chain.Parent.Root = root
		return &env{chain: chain, header: chain.Header(fork, hp), st: st}
	}
	e := build()
	if e == nil {
		return
	}
	bp := place(e, call, fork, shape, target)
	for a, c := range bp.code() {
		acc := alloc[a]
		acc.Code = c
		alloc[a] = acc
	}
	if e = build(); e == nil {
		return
	}
	need, feasible := minGas(e, call) // rich sender; the requirement does not depend on balances
	if balAllow != 0 {
		b := new(uint256.Int).Mul(uint256.NewInt(balAllow), call.GasFeeCap)
		b.Add(b, value)
		b.Add(b, uint256.NewInt(uint64(rng.Int63n(int64(min(call.GasFeeCap.Uint64(), 1<<62))))))
		acc := alloc[from]
		acc.Balance = b
		alloc[from] = acc
		if e = build(); e == nil {
			return
		}
	}

	witness := map[string]any{"family": "cap-grid", "index": ci, "heavy": heavy, "fork": fork.String(), "shape": shape, "meant_to_bind": want, "meant_next_cap": under, "meant_relation": rel,
		"from": from.Hex(), "to": to.Hex(), "value": value.String(), "data": vrt.Hex(call.Data), "gas_price": call.GasPrice.String(), "fee_cap": call.GasFeeCap.String(),
		"call_gas_limit": callGas, "gas_cap": gasCap, "block_gas_limit": blockLimit, "balance": e.st.GetBalance(from).String(), "balance_allowance_planned": balAllow,
		"error_ratio": errorRatio, "monotone": true, "target_requirement": target, "burner": fmt.Sprintf("pad %d, sstore iterations %d, loop iterations %d", bp.k, bp.s, bp.n), "harness_min_gas_rich_sender": need, "succeeds_with_unlimited_gas": feasible,
		"target_code": vrt.Hex(trunc(alloc[burnerAt].Code)), "inner_code": vrt.Hex(trunc(alloc[innerAt].Code))}
	v := judge(r, e, call, judgeParams{fork: fork, gasCap: gasCap, errorRatio: errorRatio, monotone: true, need: need, realTx: true, witness: witness})

	// gas-monotone burner: success at the allowance cap <=> requirement <= cap. A mismatch
	// means the harness' premise is broken (not the estimator).
	if !v.fundsError && v.capOK != (feasible && need <= v.allow) {
		r.Inconclusive("cap-grid %d: requirement %d (feasible %v) vs allowance %d but execution at the cap succeeds=%v", ci, need, feasible, v.allow, v.capOK)
		return
	}
	// ---- evidence: the grid cell actually reached ------------------------------------------
	fc := forkClass(fork)
	actual := "above"
	switch {
	case v.fundsError:
		actual = "value-exceeds-balance"
	case !feasible:
		actual = "never-succeeds"
	case need == v.allow:
		actual = "at"
	case need < v.allow:
		actual = "below"
	default:
		// above the binding cap only (every other applicable cap would admit it: were the
		// binding cap not applied, an estimate would come out), or above several caps
		nextName, nextCap := "", uint64(0)
		for n, c := range v.caps {
			if n != v.capBy && (nextName == "" || c < nextCap || c == nextCap && n < nextName) {
				nextName, nextCap = n, c
			}
		}
		switch {
		case nextName == "":
			actual = "above-the-only-cap"
		case need <= nextCap:
			actual = "above-binding-cap-only"
			r.Count(fmt.Sprintf("pair/%s/%s-then-%s", fc, v.capBy, nextName), 1)
		default:
			actual = "above-several-caps"
		}
	}
	r.Count("cap_grid_cases", 1)
	if heavy {
		r.Count("cap_grid_loop_cases", 1)
		if need >= maxTx-100_000 || !feasible {
			r.Count("cap_grid_loop_cases_16M_plus", 1)
		}
	}
	r.Count(fmt.Sprintf("cell/%s/%s/%s", fc, v.capBy, actual), 1)
	rel3 := actual
	switch actual {
	case "above-the-only-cap", "above-binding-cap-only", "above-several-caps", "never-succeeds":
		rel3 = "above"
	}
	r.Count(fmt.Sprintf("grid/%s/%s/%s", fc, v.capBy, rel3), 1)
	r.Count(fmt.Sprintf("grid/%s/any/%s", fc, rel3), 1)
	vs := func(x uint64) string {
		switch {
		case x < maxTx:
			return "below"
		case x == maxTx:
			return "eq"
		}
		return "above"
	}
	cg, gc, bal := "none", "none", "unpriced"
	switch {
	case callGas >= params.TxGas:
		cg = vs(callGas)
	case callGas > 0:
		cg = "ignored"
	}
	if gasCap != 0 {
		gc = vs(gasCap)
	}
	if priced {
		bal = "rich"
		if c, ok := v.caps["balance"]; ok && balAllow != 0 {
			bal = vs(c)
		}
	}
	r.Count(fmt.Sprintf("dim/%s/callgas-%s-pertx", fc, cg), 1)
	r.Count(fmt.Sprintf("dim/%s/gascap-%s-pertx", fc, gc), 1)
	r.Count(fmt.Sprintf("dim/%s/balance-%s-pertx", fc, bal), 1)
	if feasible {
		r.Count(fmt.Sprintf("dim/%s/requirement-%s-pertx", fc, vs(need)), 1)
	}
	outcome := "estimate"
	if v.estErr != nil {
		outcome = "error-" + v.errClass
		r.Count("cap_grid_errors", 1)
	} else {
		r.Count("cap_grid_estimates", 1)
		if v.g == v.allow {
			r.Count("cap_grid_estimate_equals_allowance", 1)
		}
	}
	r.Eval(fmt.Sprintf("cap/%s/%s/by-%s/%s/cg-%s/gc-%s/bal-%s/ratio%v/%s", fork, shape, v.capBy, actual, cg, gc, bal, errorRatio > 0, outcome))
	if ci < 2 && !heavy && r.WantSample() {
		r.Sample(witness)
	}
}

func trunc(b []byte) []byte {
	if len(b) <= 96 {
		return b
	}
	// keep the tail (the pad of JUMPDESTs in front carries no information)
	return b[len(b)-96:]
}

// capRequires states the minimal coverage of the grid: thresholds are per 3 rounds over the
// grid (the quick tier) and scale with the number of rounds.
func capRequires(r *vrt.Run, nc, nh int) {
	q := int64(nc / capCells)
	req := func(name string, per3 int64) { r.Require(name, per3*q/3) }
	for _, fc := range []string{"pre-osaka", "osaka"} {
		for _, by := range capKinds {
			if by == "maxtxgas" && fc != "osaka" {
				continue
			}
			for _, rel := range []string{"below", "at", "above"} {
				req(fmt.Sprintf("grid/%s/%s/%s", fc, by, rel), 2)
			}
		}
	}
	// Amsterdam has one slot of the grid (and requirements above ~2^24 of regular gas cannot
	// be met there at all): coverage per relation and per cap, not per pair
	for _, rel := range []string{"below", "at", "above"} {
		req("grid/amsterdam/any/"+rel, 6)
	}
	// the per-transaction cap against every other way of raising the allowance above it
	for _, x := range capKinds {
		for _, y := range capKinds {
			if x == y || x == "block" && y == "call" || x == "call" && y == "block" {
				continue
			}
			if x != "maxtxgas" && y != "maxtxgas" {
				req(fmt.Sprintf("pair/pre-osaka/%s-then-%s", x, y), 2)
			}
			req(fmt.Sprintf("pair/osaka/%s-then-%s", x, y), 2)
		}
	}
	req("cell/osaka/maxtxgas/above-binding-cap-only", 12)
	for _, d := range []string{"callgas-none", "callgas-ignored", "callgas-below", "callgas-eq", "callgas-above", "gascap-none", "gascap-below", "gascap-eq", "gascap-above",
		"balance-unpriced", "balance-rich", "balance-below", "balance-eq", "balance-above", "requirement-below", "requirement-eq", "requirement-above"} {
		req("dim/osaka/"+d+"-pertx", 4)
	}
	for _, fc := range []string{"pre-osaka", "amsterdam"} {
		for _, d := range []string{"callgas-none", "callgas-above", "gascap-none", "gascap-above", "balance-unpriced", "balance-above", "requirement-below"} {
			req("dim/"+fc+"/"+d+"-pertx", 4)
		}
	}
	req("dim/pre-osaka/requirement-above-pertx", 8) // nothing clamps at 2^24 before Osaka
	req("cap_grid_estimate_equals_allowance", 30)
	r.Require("cap_grid_loop_cases", int64(nh))
	r.Require("cap_grid_loop_cases_16M_plus", int64(nh)/6)
}
