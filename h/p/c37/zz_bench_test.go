package main

import (
	"math/big"
	"testing"
	"time"

	"github.com/ethereum/go-ethereum/common"
	"github.com/ethereum/go-ethereum/core"
	"github.com/ethereum/go-ethereum/core/vm"
	"github.com/holiman/uint256"

	"verif/lib/execenv"
)

func TestSinks(t *testing.T) {
	for _, fork := range []execenv.Fork{execenv.Osaka, execenv.Amsterdam} {
		for _, sh := range []string{"loop", "store", "log", "mem", "nested"} {
			chain := execenv.NewChain(fork)
			hp := execenv.HeaderParams{Coinbase: capMiner, GasLimit: 60_000_000, BaseFee: big.NewInt(1000)}
			alloc := map[common.Address]execenv.Account{burnerAt: {Nonce: 1, Code: []byte{0}}, innerAt: {Nonce: 1, Code: []byte{0}}}
			_, from := execenv.Key(0)
			alloc[from] = execenv.Account{Balance: richFunds.Clone()}
			st, root, _ := execenv.NewState(alloc, true)
			chain.Parent.Root = root
			e := &env{chain: chain, header: chain.Header(fork, hp), st: st}
			to := burnerAt
			call := &core.Message{From: from, To: &to, Value: new(uint256.Int), GasPrice: new(uint256.Int), GasFeeCap: new(uint256.Int), GasTipCap: new(uint256.Int), SkipNonceChecks: true, SkipTransactionChecks: true}
			t0 := time.Now()
			bp := place(e, call, fork, sh, 16_000_000)
			d0 := time.Since(t0)
			e2 := e.withCode(bp.code())
			need, ok := minGas(e2, call)
			t1 := time.Now()
			for i := 0; i < 20; i++ {
				e2.execAt(call, need)
			}
			t.Logf("%s %-6s place %v need %d ok %v exec %v  %+v", fork, sh, d0, need, ok, time.Since(t1)/20, bp)
		}
	}
	_ = vm.STOP
}
