// C37: gas estimates are sufficient (and minimal, and within the caps).
//
// For generated calls on generated states the real eth/gasestimator.Estimate is run and its
// answer is judged by re-executing the same message with core.ApplyMessage on a copy of the
// same state and header (the environment the estimator itself uses: NoBaseFee, base fee
// lowered to zero for zero-price calls):
//
//	S  if execution at the allowance cap succeeds, Estimate returns a value g and execution
//	   with gas limit g succeeds;
//	M  with ErrorRatio = 0 and a gas-monotone program, execution with g-1 fails;
//	C  g <= gas cap (if non-zero), g <= (balance - value - blob fee)/feeCap (if a fee cap is
//	   set), g <= params.MaxTxGas under Osaka (not Amsterdam), g <= the call's gas limit
//	   (if >= 21000, else the block gas limit);
//	E  if execution at the allowance cap fails, Estimate returns an error;
//	T  (priced calls, and the cap-interaction family) a signed EIP-1559 transaction carrying
//	   the call's fields and g as gas limit, applied with the real state transition and the
//	   normal transaction checks against a block gas pool of the header's gas limit, is
//	   accepted and succeeds (judge.go).
//
// Two families of cases: generated contract worlds (estimateCase below) and the
// cap-interaction grid with burner callees (capgrid.go).
//
// The allowance cap is recomputed by the harness from these rules. "Gas-monotone" is a
// property of the generated programs (lib/execenv: no GAS opcode, every call/create whose
// failure could depend on gas is checked and its failure propagated), so that success of
// the transaction is monotone in the gas limit.
package main

import (
	"fmt"
	"math/big"

	"github.com/ethereum/go-ethereum/common"
	"github.com/ethereum/go-ethereum/core"
	"github.com/ethereum/go-ethereum/core/state"
	"github.com/ethereum/go-ethereum/core/types"
	"github.com/ethereum/go-ethereum/core/vm"
	"github.com/ethereum/go-ethereum/params"
	"github.com/holiman/uint256"

	"verif/lib/execenv"
	"verif/lib/vrt"
)

func main() { vrt.Main("C37", run) }

func run(r *vrt.Run) {
	r.Rule("calls, plain transfers (also to absent accounts) and creations against 6 generated contracts (2/3 of the worlds gas-monotone by construction, the rest with GAS reads, unchecked calls and lib/proggen programs), rule sets London/Cancun/Prague/Osaka/Amsterdam, zero-price and priced messages, sender balances rich or within a few gas units of requirement*feeCap+value, gas caps absent / generous / within a few units of the true requirement, call gas limits absent or explicit, calldata up to 3 KB (floor dominated), ErrorRatio 0 or 0.015. non-trivial signature = (rule set, kind, monotone?, outcome class, refund-heavy?, floor-dominated?, which cap binds, error ratio). Cap-interaction family (capgrid.go): a grid rule set {London/Cancun/Prague, Osaka x3, Amsterdam} x cap meant to bind {block gas limit, call gas, EIP-7825 per-tx cap, balance/feeCap, gasCap} x relation of the true requirement to it {far below, just below, at, just above, between it and the next cap, at the next cap, above every cap}, walked cell by cell (3 rounds in quick) with the cap meant to come next rotating per round; binding cap at 5M / 2^24-e / 2^24 / 2^24+e / ~18M / 30M / 0.2-2M, other caps absent, tied, +1, a little or far above; callee = gas-monotone burner (SSTORE loop + countdown loop + JUMPDEST pad, or the same behind an all-gas CALL (63/64 rule), or a pure countdown loop for 24 cases) whose requirement is placed to the unit and measured by the harness' own search; every estimate is also applied as a signed transaction with the normal checks. signature there = (rule set, callee shape, cap that binds, requirement below / at / above only the binding cap / above several caps / never met, class of call gas, gas cap and balance allowance relative to 2^24, error ratio, outcome)")
	n := r.N(3000, 200000)
	if r.Race() {
		n /= 8
	}
	// cap-interaction family (capgrid.go): nc cheap-to-execute cases walking the grid cell by
	// cell, nh cases with a countdown-loop callee (tens of milliseconds per execution at the
	// 2^24 scale: few, first, so that they do not form the tail of the run)
	nc, nh := r.N(3*capCells, 40*capCells), r.N(24, 400)
	if r.Race() {
		nc, nh = nc/8, nh/4
	}
	offset := r.Rand("capgrid-offset", 0).Intn(capCells)
	vrt.Par(nh+nc+n, 0, func(i int) {
		switch {
		case i < nh:
			capCase(r, i, true, offset)
		case i < nh+nc:
			capCase(r, i-nh, false, offset)
		default:
			estimateCase(r, i-nh-nc)
		}
	})
	r.Require("estimates_ok", int64(n)/4)
	r.Require("minimality_checked", int64(n)/10)
	r.Require("expected_errors", int64(n)/20)
	r.Require("cap_limited", int64(n)/30)
	r.Require("refund_heavy", 30)
	r.Require("floor_dominated", 30)
	r.Require("balance_limited", 30)
	r.Require("create_estimates", 50)
	capRequires(r, nc, nh)
	r.Require("applied_as_transaction", int64(n)/6)
	r.Assume("gas-monotonicity of programs flagged Monotone by lib/execenv (argument in prog.go)")
}

var forks = []execenv.Fork{execenv.London, execenv.Cancun, execenv.Prague, execenv.Osaka, execenv.Amsterdam, execenv.Amsterdam}

type env struct {
	chain  *execenv.Chain
	header *types.Header
	st     *state.StateDB
}

// execAt runs the message with the given gas limit exactly like the estimator does and
// reports (succeeded, result, core error).
func (e *env) execAt(call *core.Message, gas uint64) (bool, *core.ExecutionResult, error) {
	m := *call
	m.GasLimit = gas
	ctx := core.NewEVMBlockContext(e.header, e.chain, nil)
	if m.GasPrice.Sign() == 0 {
		ctx.BaseFee = new(big.Int)
	}
	if m.BlobGasFeeCap != nil && m.BlobGasFeeCap.BitLen() == 0 {
		ctx.BlobBaseFee = new(big.Int)
	}
	st := e.st.Copy()
	evm := vm.NewEVM(ctx, st, e.chain.Cfg, vm.Config{NoBaseFee: true})
	defer evm.Release()
	res, err := core.ApplyMessage(evm, &m, nil)
	if err != nil {
		return false, nil, err
	}
	return !res.Failed(), res, nil
}

func estimateCase(r *vrt.Run, idx int) {
	rng := r.Rand("est", idx)
	fork := forks[rng.Intn(len(forks))]
	chain := execenv.NewChain(fork)
	strict := rng.Intn(3) > 0
	opts := execenv.WorldOpts{Strict: strict, Tag: byte(idx)}
	if !strict {
		opts.ProggenShare = 3
	}
	w, alloc, info := execenv.BuildWorld(rng, fork, opts)

	// ---- the call ------------------------------------------------------------------------
	_, from := execenv.Key(rng.Intn(4))
	var (
		to       *common.Address
		data     []byte
		kind     string
		monotone = info.Monotone
	)
	switch k := rng.Intn(20); {
	case k < 12:
		a := w.Contracts[rng.Intn(len(w.Contracts))]
		to, kind = &a, "call"
	case k < 14:
		a := w.EOAs[rng.Intn(len(w.EOAs))]
		to, kind = &a, "transfer"
	case k < 16:
		a := w.Fresh[rng.Intn(len(w.Fresh))]
		to, kind = &a, "newacct"
	default:
		kind = "create"
		p := execenv.GenInitCode(rng, w, execenv.GenOpts{Strict: strict})
		data = p.Code
		monotone = monotone && p.Monotone
	}
	if kind != "create" {
		l := rng.Intn(50)
		if rng.Intn(8) == 0 {
			l = 300 + rng.Intn(3000)
		}
		if (kind == "transfer" || kind == "newacct") && rng.Intn(2) == 0 {
			l = 0
		}
		data = make([]byte, l)
		rng.Read(data)
		if l > 0 {
			data[0] = byte(rng.Intn(4))
		}
		if l > 1 && rng.Intn(3) > 0 {
			data[1] = 0
		}
	}
	value := new(uint256.Int)
	switch rng.Intn(4) {
	case 0:
		value.SetUint64(uint64(1 + rng.Intn(1_000_000)))
	case 1:
		value.SetUint64(1)
	}
	hp := execenv.HeaderParams{Coinbase: w.Coinbase, Random: common.Hash{0x37}, GasLimit: 30_000_000 + uint64(rng.Intn(30_000_000))}
	if rng.Intn(6) == 0 {
		hp.GasLimit = 100_000 + uint64(rng.Intn(2_000_000))
	}
	hp.BaseFee = big.NewInt(int64(7 + rng.Intn(50_000_000_000)))
	header0 := chain.Header(fork, hp) // base fee known; the root does not matter here
	baseFee := uint256.MustFromBig(header0.BaseFee)

	call := &core.Message{From: from, To: to, Value: value, Data: data, GasPrice: new(uint256.Int), GasFeeCap: new(uint256.Int), GasTipCap: new(uint256.Int),
		SkipNonceChecks: true, SkipTransactionChecks: true}
	priced := rng.Intn(2) == 0
	if priced {
		tip := uint256.NewInt(uint64(rng.Intn(3_000_000_000)))
		call.GasTipCap = tip
		call.GasFeeCap = new(uint256.Int).Add(baseFee, tip)
		if rng.Intn(2) == 0 {
			call.GasFeeCap.AddUint64(call.GasFeeCap, uint64(rng.Intn(1_000_000_000)))
		}
		call.GasPrice = new(uint256.Int).Add(baseFee, tip)
		if call.GasPrice.Cmp(call.GasFeeCap) > 0 {
			call.GasPrice.Set(call.GasFeeCap)
		}
	}
	if priced && rng.Intn(3) == 0 {
		// a value worth many gas units at the fee cap (the funds cap must subtract it)
		value.Mul(call.GasFeeCap, uint256.NewInt(uint64(1+rng.Intn(2_000_000))))
	}
	if fork >= execenv.Berlin && rng.Intn(5) == 0 {
		call.AccessList = types.AccessList{{Address: w.Contracts[rng.Intn(len(w.Contracts))], StorageKeys: []common.Hash{{}, common.BigToHash(big.NewInt(2))}}}
	}
	// explicit gas limit of the call
	switch rng.Intn(5) {
	case 0:
		call.GasLimit = 21000 + uint64(rng.Intn(3_000_000))
	case 1:
		call.GasLimit = uint64(rng.Intn(21000)) // below 21000: ignored by the estimator
	}
	errorRatio := 0.0
	if rng.Intn(4) == 0 {
		errorRatio = 0.015
	}

	// ---- state; sender balance possibly tight (needs the true requirement: two passes) ---
	build := func() (*env, error) {
		st, root, err := execenv.NewState(alloc, fork >= execenv.Prague)
		if err != nil {
			return nil, err
		}
		chain.Parent.Root = root
		return &env{chain: chain, header: chain.Header(fork, hp), st: st}, nil
	}
	e, err := build()
	if err != nil {
		r.Inconclusive("state: %v", err)
		return
	}
	r.Case("estimate %d fork %s kind %s to %v value %v price %v data %x", idx, fork, kind, to, value, call.GasPrice, data[:min(len(data), 40)])

	// the true requirement with a rich sender (only used to place tight balances / caps)
	probeCap := e.header.GasLimit
	if call.GasLimit >= params.TxGas {
		probeCap = call.GasLimit
	}
	if fork == execenv.Osaka && probeCap > params.MaxTxGas {
		probeCap = params.MaxTxGas
	}
	var need uint64 // smallest gas found to succeed by the harness' own search (0 = none)
	if ok, _, _ := e.execAt(call, probeCap); ok {
		lo, hi := uint64(0), probeCap
		for lo+1 < hi {
			mid := lo + (hi-lo)/2
			if ok, _, _ := e.execAt(call, mid); ok {
				hi = mid
			} else {
				lo = mid
			}
		}
		need = hi
	}
	balanceTight := false
	if priced && need > 0 && rng.Intn(3) == 0 {
		// balance within a few gas units of need*feeCap + value
		g := need + uint64(rng.Intn(5)) - 2
		b := new(uint256.Int).Mul(uint256.NewInt(g), call.GasFeeCap)
		b.Add(b, value)
		b.AddUint64(b, uint64(rng.Intn(3)))
		alloc[from] = execenv.Account{Balance: b}
		balanceTight = true
		if e, err = build(); err != nil {
			r.Inconclusive("state: %v", err)
			return
		}
	}
	var gasCap uint64
	switch rng.Intn(6) {
	case 0:
		gasCap = 50_000_000
	case 1:
		if need > 0 {
			gasCap = need + uint64(rng.Intn(5)) - 2 // around the true requirement
		}
	case 2:
		if need > 0 {
			gasCap = need + uint64(rng.Intn(100_000))
		}
	}

	toStr := "create"
	if to != nil {
		toStr = to.Hex()
	}
	witness := map[string]any{"index": idx, "fork": fork.String(), "kind": kind, "from": from.Hex(), "to": toStr, "value": value.String(), "data": vrt.Hex(data),
		"gas_price": call.GasPrice.String(), "fee_cap": call.GasFeeCap.String(), "call_gas_limit": call.GasLimit, "gas_cap": gasCap, "block_gas_limit": e.header.GasLimit,
		"balance": e.st.GetBalance(from).String(), "error_ratio": errorRatio, "monotone": monotone, "harness_min_gas_rich_sender": need, "target_code": codeOf(alloc, to)}
	v := judge(r, e, call, judgeParams{fork: fork, gasCap: gasCap, errorRatio: errorRatio, monotone: monotone, need: need, realTx: priced, witness: witness})

	sig := fmt.Sprintf("%s/%s/mono%v/ratio%v/cap-%s", fork, kind, monotone, errorRatio > 0, v.capBy)
	if v.estErr != nil {
		r.Eval(sig + "/error-" + v.errClass)
		return
	}
	if kind == "create" {
		r.Count("create_estimates", 1)
	}
	// evidence
	if v.capBy != "block" {
		r.Count("cap_limited", 1)
	}
	if v.capBy == "balance" || balanceTight {
		r.Count("balance_limited", 1)
	}
	if v.okAtG && v.res != nil {
		if v.res.UsedGas*10 < v.g*9 && v.res.MaxUsedGas > v.res.UsedGas {
			r.Count("refund_heavy", 1)
			sig += "/refund"
		}
		if fork >= execenv.Prague {
			if floor, _ := core.FloorDataGas(chain.Rules(e.header), from, to, value, data, call.AccessList); floor == v.g {
				r.Count("floor_dominated", 1)
				sig += "/floor"
			}
		}
	}
	r.Eval(sig + "/ok")
	if idx < 5 && r.WantSample() {
		r.Sample(witness)
	}
}

func codeOf(alloc map[common.Address]execenv.Account, to *common.Address) string {
	if to == nil {
		return ""
	}
	return vrt.Hex(alloc[*to].Code)
}
