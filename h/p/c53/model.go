package main

// Harness model of the committee chain: three period ranges (fixed roots, committees,
// updates) with the documented consistency constraints of beacon/light.CommitteeChain.
// It is driven only by inputs whose proofs and signatures are valid by construction
// (genuine checkpoints / updates of the two honest worlds); forged inputs never reach it -
// for them the expectation is simply "no observable change".

import (
	"errors"

	"github.com/ethereum/go-ethereum/beacon/light"
	"github.com/ethereum/go-ethereum/common"
)

type prange struct{ s, e uint64 } // [s, e)

func (a prange) empty() bool            { return a.s == a.e }
func (a prange) contains(p uint64) bool { return p >= a.s && p < a.e }
func (a prange) canExpand(p uint64) bool {
	return a.empty() || (p+1 >= a.s && p <= a.e)
}
func (a *prange) expand(p uint64) {
	if a.empty() {
		a.s, a.e = p, p+1
		return
	}
	if a.s == p+1 {
		a.s--
	}
	if a.e == p {
		a.e++
	}
}
func (a *prange) deleteFrom(from uint64) {
	switch {
	case from <= a.s:
		*a = prange{}
	case from < a.e:
		a.e = from
	}
}

type score struct {
	signers   int
	finalized bool // has a finalized header
}

func (u score) final() bool { return u.finalized && u.signers >= 342 }
func (u score) betterThan(w score) bool {
	if u.final() != w.final() {
		return u.final()
	}
	return u.signers > w.signers
}

type mUpdate struct {
	next  common.Hash
	score score
}

type model struct {
	threshold   int
	enforceTime bool
	now         int64 // simulated clock, ns
	genesis     uint64

	fixedR, commR, updR prange
	fixed, comm         map[uint64]common.Hash
	upd                 map[uint64]mUpdate
}

func newModel(threshold int, enforceTime bool, genesis uint64) *model {
	return &model{threshold: threshold, enforceTime: enforceTime, genesis: genesis,
		fixed: map[uint64]common.Hash{}, comm: map[uint64]common.Hash{}, upd: map[uint64]mUpdate{}}
}

var errStore = errors.New("model: store not expandable")

func (m *model) fixedAdd(p uint64, r common.Hash) error {
	if !m.fixedR.canExpand(p) {
		return errStore
	}
	m.fixedR.expand(p)
	m.fixed[p] = r
	return nil
}
func (m *model) commAdd(p uint64, r common.Hash) error {
	if !m.commR.canExpand(p) {
		return errStore
	}
	m.commR.expand(p)
	m.comm[p] = r
	return nil
}
func (m *model) updAdd(p uint64, u mUpdate) error {
	if !m.updR.canExpand(p) {
		return errStore
	}
	m.updR.expand(p)
	m.upd[p] = u
	return nil
}

func (m *model) getRoot(p uint64) common.Hash {
	if m.fixedR.contains(p) {
		return m.fixed[p]
	}
	if p == 0 {
		return common.Hash{}
	}
	if m.updR.contains(p - 1) {
		return m.upd[p-1].next
	}
	return common.Hash{}
}

// rollback removes committees and fixed roots from period on and updates from period-1 on.
func (m *model) rollback(period uint64) {
	max := m.updR.e + 1
	if m.commR.e > max {
		max = m.commR.e
	}
	if m.fixedR.e > max {
		max = m.fixedR.e
	}
	for max > period {
		max--
		m.commR.deleteFrom(max)
		m.fixedR.deleteFrom(max)
		if max > 0 {
			m.updR.deleteFrom(max - 1)
		}
	}
}

func (m *model) reset() { m.rollback(0) }

// timeOK: with enforceTime, headers whose slot lies in the future are rejected.
func (m *model) timeOK(slot uint64) bool {
	if !m.enforceTime {
		return true
	}
	return m.now-int64(1e9)*int64(m.genesis+slot*12) >= 0
}

func (m *model) addFixed(period uint64, root common.Hash) error {
	if root == (common.Hash{}) {
		return light.ErrWrongCommitteeRoot
	}
	old := m.getRoot(period)
	if !m.fixedR.canExpand(period) {
		if root != old {
			return light.ErrInvalidPeriod
		}
		for p := m.fixedR.e; p < period; p++ {
			if err := m.fixedAdd(p, m.getRoot(p)); err != nil {
				return err
			}
		}
	}
	if old != (common.Hash{}) && old != root {
		m.rollback(period)
	}
	return m.fixedAdd(period, root)
}

func (m *model) deleteFixedFrom(period uint64) {
	if period >= m.fixedR.e {
		return
	}
	m.fixedR.deleteFrom(period)
	if m.updR.empty() || period <= m.updR.s {
		m.updR.deleteFrom(period)
		m.commR.deleteFrom(period)
	} else {
		from := m.updR.e + 1
		if period > from {
			from = period
		}
		m.commR.deleteFrom(from)
	}
}

func (m *model) addCommittee(period uint64, root common.Hash) error {
	if !m.commR.canExpand(period) {
		return light.ErrInvalidPeriod
	}
	r := m.getRoot(period)
	if r == (common.Hash{}) {
		return light.ErrInvalidPeriod
	}
	if r != root {
		return light.ErrWrongCommitteeRoot
	}
	if !m.commR.contains(period) {
		return m.commAdd(period, root)
	}
	return nil
}

// checkpointInit: a trusted, valid bootstrap for `period` proving committee root `root` and
// (through the sibling in the state tree) the next committee root `next`.
func (m *model) checkpointInit(period uint64, root, next common.Hash) error {
	m.deleteFixedFrom(period + 2)
	if m.addFixed(period, root) != nil {
		m.reset()
		if err := m.addFixed(period, root); err != nil {
			m.reset()
			return err
		}
	}
	if err := m.addFixed(period+1, next); err != nil {
		m.reset()
		return err
	}
	if err := m.addCommittee(period, root); err != nil {
		m.reset()
		return err
	}
	return nil
}

// insertUpdate: an update with valid proofs for `period`, signed (validly) by the committee
// with root `signer`, proving `next`; delivered with a committee of root `withC` (zero = nil).
func (m *model) insertUpdate(period uint64, slot uint64, signer, next common.Hash, sc score, withC common.Hash) (err error, changed bool) {
	if !m.updR.canExpand(period) || !m.commR.contains(period) {
		return light.ErrInvalidPeriod, false
	}
	if !sc.final() && m.threshold > sc.signers {
		return light.ErrInvalidUpdate, false
	}
	old := m.getRoot(period + 1)
	reorg := old != (common.Hash{}) && old != next
	if m.updR.contains(period) && !sc.betterThan(m.upd[period].score) {
		if reorg {
			return light.ErrCannotReorg, false
		}
		return nil, false
	}
	if m.fixedR.contains(period+1) && reorg {
		return light.ErrCannotReorg, false
	}
	if !m.timeOK(slot) || m.comm[period] != signer {
		return light.ErrInvalidUpdate, false
	}
	addC := !m.commR.contains(period+1) || reorg
	if addC {
		if withC == (common.Hash{}) {
			return light.ErrNeedCommittee, false
		}
		if withC != next {
			return light.ErrWrongCommitteeRoot, false
		}
	}
	if reorg {
		m.rollback(period + 1)
	}
	if addC {
		if err := m.commAdd(period+1, next); err != nil {
			return err, true
		}
	}
	if err := m.updAdd(period, mUpdate{next, sc}); err != nil {
		return err, true
	}
	return nil, true
}

func (m *model) nextSyncPeriod() (uint64, bool) {
	if m.commR.empty() {
		return 0, false
	}
	if !m.updR.empty() {
		return m.updR.e, true
	}
	return m.commR.e - 1, true
}
