// C53: the beacon light client follows only properly signed committees.
//
// A CommitteeChain with the deterministic dummy signature verifier
// (light.NewTestCommitteeChain) over a memory database is driven by random sequences of
// trusted checkpoints, genuine updates of two honest worlds (world 1 forks off world 0 at a
// random period: both are validly signed, the chain must follow the documented score /
// fixed-root rules), forged updates and checkpoints of many kinds, Reset, re-open from the
// database and clock changes. After every operation the chain is observed through exported
// methods only:
//
//   - probe matrix: for every period p of the window and every candidate committee (world 0,
//     world 1, attacker, the neighbouring periods' committees) VerifySignedHeader of a header
//     signed by that candidate. A candidate that is not an honest committee of that period
//     must never verify (independent of the model); the honest ones must verify exactly
//     where the model of the chain's ranges says the committee is present;
//   - NextSyncPeriod, ChangeCounter (reveals whether an update was stored/replaced);
//   - HeadTracker.ValidateOptimistic for signer-threshold semantics on headers.
//
// Forged inputs must leave every observation unchanged. Updates go through the same steps as
// in beacon/light/api (Validate, committee-root comparison) before InsertUpdate, because
// InsertUpdate documents that the update "has been successfully validated previously".
package main

import (
	"crypto/sha256"
	"errors"
	"fmt"
	"math/rand"
	"strings"
	"sync/atomic"
	"time"

	"github.com/ethereum/go-ethereum/beacon/light"
	"github.com/ethereum/go-ethereum/beacon/merkle"
	"github.com/ethereum/go-ethereum/beacon/params"
	"github.com/ethereum/go-ethereum/beacon/types"
	"github.com/ethereum/go-ethereum/common"
	"github.com/ethereum/go-ethereum/common/mclock"
	"github.com/ethereum/go-ethereum/ethdb"
	"github.com/ethereum/go-ethereum/ethdb/memorydb"
	"github.com/protolambda/zrnt/eth2/beacon/deneb"

	"verif/lib/vrt"
)

func main() { vrt.Main("C53", run) }

const periodNs = int64(params.SyncPeriodLength) * 12 * int64(time.Second)

type world struct {
	name string
	c    []*types.SerializedSyncCommittee
	root []common.Hash
}

func genWorld(rng *rand.Rand, name string, n int, base *world, fork int) *world {
	w := &world{name: name}
	for p := 0; p < n; p++ {
		if base != nil && p <= fork {
			w.c = append(w.c, base.c[p])
			w.root = append(w.root, base.root[p])
			continue
		}
		s := new(types.SerializedSyncCommittee)
		rng.Read(s[:32])
		w.c = append(w.c, s)
		w.root = append(w.root, s.Root())
	}
	return w
}

// sparse is a binary Merkle tree (generalized indices) in which only the given leaves are
// fixed; every subtree without a fixed leaf is a random value. It yields mutually consistent
// single-leaf branches for several leaves under one root (an attested state root proves both
// the finalized header and the next sync committee).
type sparse struct {
	rng    *rand.Rand
	leaves map[uint64]merkle.Value
	memo   map[uint64]merkle.Value
}

func newSparse(rng *rand.Rand, leaves map[uint64]merkle.Value) *sparse {
	t := &sparse{rng: rng, leaves: leaves, memo: map[uint64]merkle.Value{}}
	t.node(1)
	return t
}

func (t *sparse) hasLeafBelow(idx uint64) bool {
	for l := range t.leaves {
		for x := l; x >= idx; x >>= 1 {
			if x == idx {
				return true
			}
		}
	}
	return false
}

func (t *sparse) node(idx uint64) merkle.Value {
	if v, ok := t.memo[idx]; ok {
		return v
	}
	var v merkle.Value
	if l, ok := t.leaves[idx]; ok {
		v = l
	} else if t.hasLeafBelow(idx) {
		a, b := t.node(2*idx), t.node(2*idx+1)
		h := sha256.New()
		h.Write(a[:])
		h.Write(b[:])
		h.Sum(v[:0])
	} else {
		t.rng.Read(v[:])
	}
	t.memo[idx] = v
	return v
}

func (t *sparse) root() common.Hash { return common.Hash(t.node(1)) }

func (t *sparse) branch(leaf uint64) merkle.Values {
	var b merkle.Values
	for i := leaf; i > 1; i >>= 1 {
		b = append(b, t.node(i^1))
	}
	return b
}

func bitmask(rng *rand.Rand, n int) (m [params.SyncCommitteeBitmaskSize]byte) {
	for i := 0; i < params.SyncCommitteeSize; i++ {
		if rng.Intn(params.SyncCommitteeSize-i) < n {
			m[i/8] |= 1 << (i & 7)
			n--
		}
	}
	return
}

// sign is the deterministic dummy scheme of beacon/light/test_helpers.go:
// sig[:32] = committee[:32] XOR signingRoot, sig[32:] = signer bitmask.
func sign(cfg *params.ChainConfig, h types.Header, c *types.SerializedSyncCommittee, sigSlot uint64, mask [params.SyncCommitteeBitmaskSize]byte) types.SignedHeader {
	sr, _ := cfg.Forks.SigningRoot(h.Epoch(), h.Hash())
	var sig [params.BLSSignatureSize]byte
	for i := 0; i < 32; i++ {
		sig[i] = c[i] ^ sr[i]
	}
	copy(sig[32:], mask[:])
	return types.SignedHeader{Header: h, Signature: types.SyncAggregate{Signers: mask, Signature: sig}, SignatureSlot: sigSlot}
}

type env struct {
	r         *vrt.Run
	idx       int
	rng       *rand.Rand
	cfg       params.ChainConfig
	other     params.ChainConfig // another network (different genesis validators root)
	P, F      int
	w         [2]*world
	atk       *world
	thr       int
	enforce   bool
	db        ethdb.KeyValueStore
	clock     *mclock.Simulated
	chain     *light.CommitteeChain
	m         *model
	ops       []string
	bad       bool
	probeMask [params.SyncCommitteeBitmaskSize]byte // signer set used by the probe headers (VerifySignedHeader does not look at the count)
	last      obs                                   // observation after the previous operation (nothing mutates the chain in between)
	flags     map[string]bool
}

func (e *env) witness() any {
	return map[string]any{"case": e.idx, "periods": e.P, "fork_period": e.F, "threshold": e.thr, "enforceTime": e.enforce, "genesis_time": e.cfg.GenesisTime, "ops": e.ops}
}
func (e *env) fail(fp, msg string) {
	e.bad = true
	e.r.Violation(fp, fmt.Sprintf("step %d (%s): %s", len(e.ops), e.ops[len(e.ops)-1], msg), e.witness())
}
func (e *env) op(format string, a ...any) {
	s := fmt.Sprintf(format, a...)
	e.ops = append(e.ops, s)
	e.r.Case("seq %d step %d %s", e.idx, len(e.ops), s)
}

// genUpdate builds a fully consistent update for period p: attested header signed by
// `signer`, whose state root proves the next-committee root `next` and (if finalized) a
// finalized header of the same period.
func (e *env) genUpdate(cfg *params.ChainConfig, p uint64, signer *types.SerializedSyncCommittee, next common.Hash, signers int, finalized bool) *types.LightClientUpdate {
	return e.genUpdateEx(cfg, p, signer, next, signers, finalized, 0)
}

// genUpdateEx: finShift moves the finalized header by that many periods (forgery).
func (e *env) genUpdateEx(cfg *params.ChainConfig, p uint64, signer *types.SerializedSyncCommittee, next common.Hash, signers int, finalized bool, finShift int) *types.LightClientUpdate {
	u := new(types.LightClientUpdate)
	u.NextSyncCommitteeRoot = next
	start := types.SyncPeriodStart(p)
	leaves := map[uint64]merkle.Value{params.StateIndexNextSyncCommittee(""): merkle.Value(next)}
	var att types.Header
	if finalized {
		fin := types.Header{Slot: uint64(int64(start) + 64 + int64(e.rng.Intn(1000)) + int64(finShift)*params.SyncPeriodLength), ProposerIndex: uint64(e.rng.Intn(1000))}
		e.rng.Read(fin.StateRoot[:])
		e.rng.Read(fin.ParentRoot[:])
		u.FinalizedHeader = &fin
		att = types.Header{Slot: start + 1100 + uint64(e.rng.Intn(4000))}
		leaves[params.StateIndexFinalBlock("")] = merkle.Value(fin.Hash())
	} else {
		att = types.Header{Slot: start + 1000 + uint64(e.rng.Intn(4000))}
	}
	t := newSparse(e.rng, leaves)
	att.StateRoot = t.root()
	u.NextSyncCommitteeBranch = t.branch(params.StateIndexNextSyncCommittee(""))
	if finalized {
		u.FinalityBranch = t.branch(params.StateIndexFinalBlock(""))
	}
	att.ProposerIndex = uint64(e.rng.Intn(1000))
	e.rng.Read(att.ParentRoot[:])
	e.rng.Read(att.BodyRoot[:])
	u.AttestedHeader = sign(cfg, att, signer, att.Slot+1, bitmask(e.rng, signers))
	return u
}

// genCheckpoint: the state root proves the committee at its index and the next committee as
// its sibling (which CheckpointInit takes from CommitteeBranch[0]).
func (e *env) genCheckpoint(p uint64, c *types.SerializedSyncCommittee, next common.Hash) types.BootstrapData {
	h := types.Header{Slot: types.SyncPeriodStart(p) + uint64(e.rng.Intn(params.SyncPeriodLength))}
	t := newSparse(e.rng, map[uint64]merkle.Value{params.StateIndexSyncCommittee(""): merkle.Value(c.Root()), params.StateIndexSyncCommittee("") ^ 1: merkle.Value(next)})
	h.StateRoot = t.root()
	return types.BootstrapData{Header: h, Committee: c, CommitteeRoot: c.Root(), CommitteeBranch: t.branch(params.StateIndexSyncCommittee(""))}
}

// ---------- observation ----------

type obs struct {
	nsp    uint64
	init   bool
	probes string // one char per probe
}

type cand struct {
	name string
	c    *types.SerializedSyncCommittee
	root common.Hash
	hon  bool // an honest committee of exactly this period
}

func (e *env) cands(p int) []cand {
	cs := []cand{{"w0", e.w[0].c[p], e.w[0].root[p], true}}
	if e.w[1].root[p] != e.w[0].root[p] {
		cs = append(cs, cand{"w1", e.w[1].c[p], e.w[1].root[p], true})
	}
	cs = append(cs, cand{"atk", e.atk.c[p], e.atk.root[p], false})
	if p > 0 {
		cs = append(cs, cand{"w0[p-1]", e.w[0].c[p-1], e.w[0].root[p-1], false})
	}
	cs = append(cs, cand{"w1[p+1]", e.w[1].c[p+1], e.w[1].root[p+1], false})
	return cs
}

// observe probes the chain and judges each probe against the model.
func (e *env) observe() obs {
	var o obs
	o.nsp, o.init = e.chain.NextSyncPeriod()
	var sb strings.Builder
	for p := 0; p <= e.P+3; p++ {
		slot := types.SyncPeriodStart(uint64(p)) + 500
		hdr := types.Header{Slot: slot, ProposerIndex: uint64(p)}
		for _, c := range e.cands(p) {
			sh := sign(&e.cfg, hdr, c.c, slot+1, e.probeMask)
			ok, _, _ := e.chain.VerifySignedHeader(sh)
			exp := e.m.commR.contains(uint64(p)) && e.m.comm[uint64(p)] == c.root && e.m.timeOK(slot)
			if ok {
				sb.WriteByte('1')
			} else {
				sb.WriteByte('0')
			}
			e.r.Count("probes", 1)
			if ok && !c.hon {
				e.fail("probe:foreign-committee-verifies", fmt.Sprintf("a header for period %d signed by %s (not an honest committee of that period) is accepted by VerifySignedHeader", p, c.name))
				return o
			}
			if ok != exp {
				if ok {
					e.r.Count("probe_mismatch", 1)
					e.fail("probe:committee-known-unexpectedly", fmt.Sprintf("period %d committee %s verifies headers but the model's committee range is [%d,%d) root-match=%v timeOK=%v", p, c.name, e.m.commR.s, e.m.commR.e, e.m.comm[uint64(p)] == c.root, e.m.timeOK(slot)))
				} else {
					e.fail("probe:committee-missing", fmt.Sprintf("period %d committee %s does not verify headers although the model's committee range is [%d,%d)", p, c.name, e.m.commR.s, e.m.commR.e))
				}
				return o
			}
			if ok {
				e.r.Count("probes_accepting", 1)
			}
		}
	}
	o.probes = sb.String()
	e.last = o
	if en, ei := e.m.nextSyncPeriod(); en != o.nsp || ei != o.init {
		e.fail("next-sync-period", fmt.Sprintf("NextSyncPeriod()=(%d,%v), model (%d,%v) [fixed %v comm %v upd %v]", o.nsp, o.init, en, ei, e.m.fixedR, e.m.commR, e.m.updR))
	}
	return o
}

var execHeader = types.NewExecutionHeader(new(deneb.ExecutionPayloadHeader))

// headProbe checks the signer threshold on headers through HeadTracker.
func (e *env) headProbe() {
	p := e.rng.Intn(e.P + 3)
	if !e.m.commR.empty() && e.rng.Intn(10) < 7 {
		p = int(e.m.commR.s) + e.rng.Intn(int(e.m.commR.e-e.m.commR.s))
	}
	cs := e.cands(p)
	c := cs[e.rng.Intn(len(cs))]
	if e.rng.Intn(2) == 0 {
		c = cs[0]
	}
	n := []int{e.thr - 1, e.thr, e.thr, e.thr + 1, 512, 1, 0}[e.rng.Intn(7)]
	if n < 0 {
		n = 0
	}
	if n > 512 {
		n = 512
	}
	slot := types.SyncPeriodStart(uint64(p)) + 1 + uint64(e.rng.Intn(params.SyncPeriodLength-2))
	hdr := types.Header{Slot: slot}
	e.rng.Read(hdr.StateRoot[:])
	bt := newSparse(e.rng, map[uint64]merkle.Value{params.BodyIndexExecPayload: execHeader.PayloadRoot()})
	hdr.BodyRoot = bt.root()
	br := bt.branch(params.BodyIndexExecPayload)
	sh := sign(&e.cfg, hdr, c.c, slot+1, bitmask(e.rng, n))
	ou := types.OptimisticUpdate{Attested: types.HeaderWithExecProof{Header: hdr, PayloadHeader: execHeader, PayloadBranch: br}, Signature: sh.Signature, SignatureSlot: sh.SignatureSlot}
	ht := light.NewHeadTracker(e.chain, e.thr, nil)
	ok, err := ht.ValidateOptimistic(ou)
	exp := n >= e.thr && n > 0 && e.m.commR.contains(uint64(p)) && e.m.comm[uint64(p)] == c.root && e.m.timeOK(slot)
	e.r.Count("head_probes", 1)
	if ok {
		e.r.Count("head_probes_accepted", 1)
	}
	if n == e.thr-1 {
		e.r.Count("head_probes_one_below_threshold", 1)
	}
	if n == e.thr && exp {
		e.r.Count("head_probes_at_threshold_accepted", 1)
	}
	desc := fmt.Sprintf("optimistic head for period %d signed by %d members of %s (threshold %d)", p, n, c.name, e.thr)
	switch {
	case ok && n < e.thr:
		e.ops = append(e.ops, "headprobe "+desc)
		e.fail("head:below-threshold-accepted", desc+" accepted")
	case ok && !c.hon:
		e.ops = append(e.ops, "headprobe "+desc)
		e.fail("head:foreign-committee-accepted", desc+" accepted")
	case ok != exp:
		e.ops = append(e.ops, "headprobe "+desc)
		e.fail("head:verdict-mismatch", fmt.Sprintf("%s: accepted=%v err=%v, expected %v", desc, ok, err, exp))
	}
}

// ---------- operations ----------

func sameErr(got, exp error) bool {
	if (got == nil) != (exp == nil) {
		return false
	}
	if exp == nil || errors.Is(exp, errStore) {
		return true
	}
	return errors.Is(got, exp)
}

func (e *env) cc() uint64 { return e.chain.ChangeCounter() }

func (e *env) opCheckpoint() {
	w := 0
	if e.rng.Intn(5) == 0 {
		w = 1
	}
	var q int
	switch k := e.rng.Intn(10); {
	case e.m.commR.empty() || k < 2:
		q = e.rng.Intn(e.P + 1)
	case k < 5:
		q = int(e.m.commR.e) - 1 + e.rng.Intn(3)
	case k < 7:
		q = int(e.m.commR.s) - 1 - e.rng.Intn(2)
	default:
		q = int(e.m.commR.s) + e.rng.Intn(int(e.m.commR.e-e.m.commR.s)+1)
	}
	if q < 0 {
		q = 0
	}
	if q > e.P+1 {
		q = e.P + 1
	}
	e.op("checkpoint world=%d period=%d", w, q)
	bs := e.genCheckpoint(uint64(q), e.w[w].c[q], e.w[w].root[q+1])
	got := e.chain.CheckpointInit(bs)
	exp := e.m.checkpointInit(uint64(q), e.w[w].root[q], e.w[w].root[q+1])
	e.r.Count("op_checkpoint", 1)
	if got == nil {
		e.r.Count("op_checkpoint_ok", 1)
	} else {
		e.r.Count("op_checkpoint_rejected", 1)
		e.flags["checkpoint-rejected"] = true
	}
	if !sameErr(got, exp) {
		e.fail("checkpoint-result", fmt.Sprintf("CheckpointInit returned %v, model %v", got, exp))
		return
	}
	e.observe()
	e.sig("checkpoint/w%d/%s", w, errName(got))
}

func errName(err error) string {
	switch {
	case err == nil:
		return "ok"
	case errors.Is(err, light.ErrInvalidPeriod):
		return "ErrInvalidPeriod"
	case errors.Is(err, light.ErrInvalidUpdate):
		return "ErrInvalidUpdate"
	case errors.Is(err, light.ErrNeedCommittee):
		return "ErrNeedCommittee"
	case errors.Is(err, light.ErrWrongCommitteeRoot):
		return "ErrWrongCommitteeRoot"
	case errors.Is(err, light.ErrCannotReorg):
		return "ErrCannotReorg"
	}
	return "other"
}

func (e *env) sig(format string, a ...any) {
	s := fmt.Sprintf(format, a...)
	e.r.Eval(fmt.Sprintf("%s/thr%d/enf%v", s, e.thr, e.enforce))
}

func (e *env) signerChoice() int {
	n := []int{e.thr - 1, e.thr, e.thr, e.thr + 1, 341, 342, 343, 512, 1 + e.rng.Intn(512), e.thr + e.rng.Intn(513-e.thr)}[e.rng.Intn(10)]
	if n < 0 {
		n = 0
	}
	if n > 512 {
		n = 512
	}
	return n
}

func (e *env) pickPeriod(inOrder bool) int {
	nsp, init := e.m.nextSyncPeriod()
	if init && inOrder {
		return int(nsp)
	}
	lo, hi := 0, e.P+1
	if init {
		lo, hi = int(e.m.commR.s)-2, int(e.m.commR.e)+1
		if !e.m.updR.empty() && int(e.m.updR.e)+1 > hi {
			hi = int(e.m.updR.e) + 1
		}
	}
	if lo < 0 {
		lo = 0
	}
	if hi > e.P+1 {
		hi = e.P + 1
	}
	if hi < lo {
		hi = lo
	}
	return lo + e.rng.Intn(hi-lo+1)
}

func (e *env) opGenuine(inOrder bool) {
	p := e.pickPeriod(inOrder)
	if p > e.P+1 {
		p = e.P + 1
	}
	w := 0
	if p >= e.F && e.rng.Intn(4) == 0 {
		w = 1
	}
	n := e.signerChoice()
	fin := e.rng.Intn(3) == 0
	cKind := "right"
	switch e.rng.Intn(12) {
	case 0:
		cKind = "nil"
	case 1:
		cKind = "wrong"
	}
	e.op("update world=%d period=%d signers=%d finalized=%v committee=%s", w, p, n, fin, cKind)
	u := e.genUpdate(&e.cfg, uint64(p), e.w[w].c[p], e.w[w].root[p+1], n, fin)
	if err := u.Validate(); err != nil {
		e.fail("validate-rejects-genuine", fmt.Sprintf("LightClientUpdate.Validate rejects a consistent update: %v", err))
		return
	}
	var c *types.SerializedSyncCommittee
	var croot common.Hash
	switch cKind {
	case "right":
		c, croot = e.w[w].c[p+1], e.w[w].root[p+1]
	case "wrong":
		c, croot = e.atk.c[p+1], e.atk.root[p+1]
	}
	before := e.cc()
	got := e.chain.InsertUpdate(u, c)
	exp, changed := e.m.insertUpdate(uint64(p), u.AttestedHeader.Header.Slot, e.w[w].root[p], e.w[w].root[p+1], score{n, fin}, croot)
	e.r.Count("op_genuine_update", 1)
	e.r.Count("genuine_"+errName(got), 1)
	if changed {
		e.r.Count("genuine_stored", 1)
	}
	if !sameErr(got, exp) {
		fp := "genuine-update-result"
		if exp == nil && changed {
			fp = "genuine-update-rejected"
		} else if got == nil {
			fp = "invalid-update-accepted"
		}
		e.fail(fp, fmt.Sprintf("InsertUpdate returned %v, model %v (changed=%v) [fixed %v comm %v upd %v]", got, exp, changed, e.m.fixedR, e.m.commR, e.m.updR))
		return
	}
	delta := e.cc() - before
	if changed != (delta > 0) {
		e.fail("score-rule", fmt.Sprintf("InsertUpdate err=%v: ChangeCounter moved by %d but the score rule says stored=%v (existing update at this period: %+v)", got, delta, changed, e.m.upd[uint64(p)]))
		return
	}
	e.observe()
	ctx := "ooo"
	if inOrder {
		ctx = "inorder"
	}
	rel := "eq"
	if n < e.thr {
		rel = "below"
	} else if n > e.thr {
		rel = "above"
	}
	e.sig("genuine/%s/w%d/%s/fin%v/c=%s/%s/stored=%v", ctx, w, rel, fin, cKind, errName(got), changed)
}

var forgedKinds = []string{"signer-attacker", "signer-prev", "signer-next", "low-signers", "zero-signers", "bitmask-added", "bitmask-removed", "sig-copied", "other-network", "attested-next-period", "attested-prev-period",
	"wrong-next-root", "branch-tampered", "branch-truncated", "branch-extended", "sigslot-next-period", "finality-branch-tampered", "finalized-other-period", "committee-mismatch"}

func (e *env) opForged() {
	kind := forgedKinds[e.rng.Intn(len(forgedKinds))]
	p := e.pickPeriod(e.rng.Intn(10) < 7)
	if p < 1 {
		p = 1
	}
	up := uint64(p)
	w := 0
	if p >= e.F && e.rng.Intn(4) == 0 {
		w = 1
	}
	hi := e.thr + e.rng.Intn(513-e.thr) // enough signers
	if e.rng.Intn(2) == 0 {
		hi = 512
	}
	fin := e.rng.Intn(3) == 0
	gen := e.w[w]
	e.op("forged kind=%s period=%d world=%d signers=%d finalized=%v", kind, p, w, hi, fin)
	var u *types.LightClientUpdate
	c := e.atk.c[p+1]
	mustFailValidate := false
	switch kind {
	case "signer-attacker":
		u = e.genUpdate(&e.cfg, up, e.atk.c[p], e.atk.root[p+1], hi, fin)
	case "signer-prev":
		u = e.genUpdate(&e.cfg, up, gen.c[p-1], e.atk.root[p+1], hi, fin)
	case "signer-next":
		u = e.genUpdate(&e.cfg, up, e.w[1-w].c[p+1], e.atk.root[p+1], hi, fin)
		if e.w[1-w].root[p+1] == e.m.comm[up] { // cannot happen (distinct periods), defensive
			return
		}
	case "low-signers":
		if e.thr < 2 {
			return
		}
		u = e.genUpdate(&e.cfg, up, gen.c[p], e.atk.root[p+1], e.thr-1, fin && e.thr-1 < 342)
	case "zero-signers":
		u = e.genUpdate(&e.cfg, up, gen.c[p], e.atk.root[p+1], 0, fin)
	case "bitmask-added", "bitmask-removed":
		n := hi
		if n == 512 {
			n = 511
		}
		u = e.genUpdate(&e.cfg, up, gen.c[p], gen.root[p+1], n, fin)
		c = gen.c[p+1]
		for tries := 0; tries < 10000; tries++ {
			i := e.rng.Intn(512)
			set := u.AttestedHeader.Signature.Signers[i/8]&(1<<(i&7)) != 0
			if (kind == "bitmask-added") != set {
				u.AttestedHeader.Signature.Signers[i/8] ^= 1 << (i & 7)
				break
			}
		}
	case "sig-copied":
		g := e.genUpdate(&e.cfg, up, gen.c[p], gen.root[p+1], hi, fin)
		u = e.genUpdate(&e.cfg, up, e.atk.c[p], e.atk.root[p+1], hi, fin)
		u.AttestedHeader.Signature = g.AttestedHeader.Signature
	case "other-network":
		u = e.genUpdate(&e.other, up, gen.c[p], gen.root[p+1], hi, fin)
		c = gen.c[p+1]
	case "attested-next-period":
		// proofs consistent, attested header one period later, signed by this period's committee
		u = e.genUpdate(&e.cfg, up+1, gen.c[p], e.atk.root[p+2], hi, fin)
		c = e.atk.c[p+2]
	case "attested-prev-period":
		u = e.genUpdate(&e.cfg, up-1, gen.c[p], e.atk.root[p], hi, fin)
		c = e.atk.c[p]
	case "wrong-next-root":
		u = e.genUpdate(&e.cfg, up, gen.c[p], gen.root[p+1], hi, fin)
		u.NextSyncCommitteeRoot = e.atk.root[p+1]
		mustFailValidate = true
	case "branch-tampered":
		u = e.genUpdate(&e.cfg, up, gen.c[p], gen.root[p+1], hi, fin)
		c = gen.c[p+1]
		b := u.NextSyncCommitteeBranch
		b[e.rng.Intn(len(b))][e.rng.Intn(32)] ^= 1 << uint(e.rng.Intn(8))
		mustFailValidate = true
	case "branch-truncated":
		u = e.genUpdate(&e.cfg, up, gen.c[p], gen.root[p+1], hi, fin)
		c = gen.c[p+1]
		u.NextSyncCommitteeBranch = u.NextSyncCommitteeBranch[:len(u.NextSyncCommitteeBranch)-1]
		mustFailValidate = true
	case "branch-extended":
		u = e.genUpdate(&e.cfg, up, gen.c[p], gen.root[p+1], hi, fin)
		c = gen.c[p+1]
		var x merkle.Value
		e.rng.Read(x[:])
		u.NextSyncCommitteeBranch = append(u.NextSyncCommitteeBranch, x)
		mustFailValidate = true
	case "sigslot-next-period":
		u = e.genUpdate(&e.cfg, up, gen.c[p], e.atk.root[p+1], hi, fin)
		att := u.AttestedHeader.Header
		u.AttestedHeader = sign(&e.cfg, att, gen.c[p+1], types.SyncPeriodStart(up+1)+uint64(e.rng.Intn(100)), bitmask(e.rng, hi))
		mustFailValidate = true
	case "finality-branch-tampered":
		u = e.genUpdate(&e.cfg, up, gen.c[p], gen.root[p+1], hi, true)
		c = gen.c[p+1]
		b := u.FinalityBranch
		b[e.rng.Intn(len(b))][e.rng.Intn(32)] ^= 1 << uint(e.rng.Intn(8))
		mustFailValidate = true
	case "finalized-other-period":
		// consistent proofs and signature, but the finalized header lies in the previous period
		u = e.genUpdateEx(&e.cfg, up, gen.c[p], gen.root[p+1], hi, true, -1)
		c = gen.c[p+1]
		mustFailValidate = true
	case "committee-mismatch":
		// genuine update delivered with a committee that does not hash to the proven root:
		// rejected by the delivery step (beacon/light/api) before InsertUpdate
		u = e.genUpdate(&e.cfg, up, gen.c[p], gen.root[p+1], hi, fin)
		if u.Validate() == nil && c.Root() != u.NextSyncCommitteeRoot {
			e.r.Count("forged_stopped_by_root_comparison", 1)
			e.sig("forged/%s/root-comparison", kind)
			return
		}
	}
	e.r.Count("op_forged", 1)
	e.r.Count("forged_"+kind, 1)
	verr := u.Validate()
	if mustFailValidate {
		if verr == nil {
			e.fail("validate-accepts:"+kind, "LightClientUpdate.Validate accepts a forged update of kind "+kind)
			return
		}
		e.r.Count("forged_rejected_by_Validate", 1)
		e.sig("forged/%s/Validate", kind)
		return
	}
	if verr != nil {
		e.r.Inconclusive("harness: forged update of kind %s is inconsistent: %v", kind, verr)
		return
	}
	// the update's own period decides where InsertUpdate looks
	ip := u.AttestedHeader.Header.SyncPeriod()
	before, ob := e.cc(), e.last
	got := e.chain.InsertUpdate(u, c)
	if got == nil {
		sc := score{u.AttestedHeader.Signature.SignerCount(), u.FinalizedHeader != nil}
		old := e.m.getRoot(ip + 1)
		reorg := old != (common.Hash{}) && old != u.NextSyncCommitteeRoot
		masked := e.m.updR.contains(ip) && !sc.betterThan(e.m.upd[ip].score) && !reorg
		if !masked {
			e.fail("forged-update-accepted:"+kind, "InsertUpdate returned nil for a forged update")
			return
		}
		e.r.Count("forged_ignored_existing_better", 1)
	}
	if d := e.cc() - before; d != 0 {
		e.fail("forged-update-changed-chain:"+kind, fmt.Sprintf("ChangeCounter moved by %d on a forged update (err=%v)", d, got))
		return
	}
	oa := e.observe()
	if !e.bad && (oa != ob) {
		e.fail("forged-update-changed-chain:"+kind, fmt.Sprintf("observable state changed on a forged update (err=%v): before %+v after %+v", got, ob, oa))
		return
	}
	e.r.Count("forged_rejected_by_InsertUpdate_"+errName(got), 1)
	e.sig("forged/%s/%s/known=%v", kind, errName(got), e.m.commR.contains(ip))
}

func (e *env) opForgedCheckpoint() {
	kind := []string{"committee-root-mismatch", "branch-tampered", "branch-truncated", "attacker-committee-unproven", "state-root-changed"}[e.rng.Intn(5)]
	q := e.rng.Intn(e.P + 1)
	e.op("forged-checkpoint kind=%s period=%d", kind, q)
	bs := e.genCheckpoint(uint64(q), e.w[0].c[q], e.w[0].root[q+1])
	switch kind {
	case "committee-root-mismatch":
		bs.Committee = e.atk.c[q]
	case "branch-tampered":
		bs.CommitteeBranch[1+e.rng.Intn(len(bs.CommitteeBranch)-1)][e.rng.Intn(32)] ^= 0x40
	case "branch-truncated":
		bs.CommitteeBranch = bs.CommitteeBranch[:len(bs.CommitteeBranch)-1]
	case "attacker-committee-unproven":
		bs.Committee, bs.CommitteeRoot = e.atk.c[q], e.atk.root[q]
	case "state-root-changed":
		bs.Header.StateRoot[e.rng.Intn(32)] ^= 1
	}
	before, ob := e.cc(), e.last
	err := e.chain.CheckpointInit(bs)
	e.r.Count("op_forged_checkpoint", 1)
	if err == nil {
		e.fail("forged-checkpoint-accepted:"+kind, "CheckpointInit accepted a bootstrap whose proof does not verify")
		return
	}
	if e.cc() != before {
		e.fail("forged-checkpoint-changed-chain:"+kind, "ChangeCounter moved on an invalid bootstrap")
		return
	}
	if oa := e.observe(); !e.bad && oa != ob {
		e.fail("forged-checkpoint-changed-chain:"+kind, "observable state changed on an invalid bootstrap")
		return
	}
	e.sig("forged-checkpoint/%s", kind)
}

func (e *env) opReload() {
	e.op("reload")
	ob := e.last
	// The constructor re-validates the stored chain in a loop; a broken rollback makes that
	// loop spin forever. Waiting is bounded only to abandon the case (inconclusive), never
	// to decide a verdict.
	done := make(chan *light.CommitteeChain, 1)
	go func() { done <- light.NewTestCommitteeChain(e.db, &e.cfg, e.thr, e.enforce, e.clock) }()
	select {
	case c := <-done:
		e.chain = c
	case <-time.After(90 * time.Second):
		e.bad = true
		abandon.Store(true)
		e.r.Inconclusive("sequence %d: NewTestCommitteeChain over the existing database did not return within 90 s (ops: %v)", e.idx, e.ops)
		return
	}
	e.r.Count("op_reload", 1)
	oa := e.observe()
	if !e.bad && oa != ob {
		e.fail("reload-differs", fmt.Sprintf("state after re-opening the database differs: before %+v after %+v", ob, oa))
		return
	}
	e.flags["reload"] = true
	e.sig("reload/init=%v/updates=%v", oa.init, !e.m.updR.empty())
}

func (e *env) opReset() {
	e.op("reset")
	e.chain.Reset()
	e.m.reset()
	e.r.Count("op_reset", 1)
	o := e.observe()
	if !e.bad && strings.Contains(o.probes, "1") {
		e.fail("reset-keeps-committees", "headers still verify after Reset")
	}
	e.flags["reset"] = true
	e.sig("reset")
}

func (e *env) opClock() {
	d := time.Duration(float64(periodNs) * (0.2 + 1.5*e.rng.Float64()))
	e.op("clock +%.2f periods", float64(d)/float64(periodNs))
	e.clock.Run(d)
	e.m.now = int64(e.clock.Now())
	e.r.Count("op_clock", 1)
	e.observe()
	e.sig("clock")
}

// abandon is set when a case had to be given up (hang in the code under test): no new
// sequences are started, the run ends inconclusive unless violations were recorded.
var abandon atomic.Bool

func one(r *vrt.Run, i int) {
	if abandon.Load() {
		return
	}
	rng := r.Rand("seq", i)
	e := &env{r: r, idx: i, rng: rng, flags: map[string]bool{}}
	e.P = 3 + rng.Intn(8)
	if rng.Intn(5) == 0 {
		e.P = 3 + rng.Intn(38)
	}
	e.F = 1 + rng.Intn(e.P)
	e.thr = []int{1, 2, 171, 256, 342, 343, 400, 512}[rng.Intn(8)]
	e.enforce = rng.Intn(3) == 0
	rng.Read(e.cfg.GenesisValidatorsRoot[:])
	if rng.Intn(2) == 0 {
		e.cfg.GenesisTime = uint64(rng.Intn(100000))
	}
	e.cfg.AddFork("GENESIS", 0, []byte{0, 0, 0, 0})
	if rng.Intn(2) == 0 { // a fork boundary somewhere inside the window
		e.cfg.AddFork("ALTAIR", uint64(rng.Intn((e.P+2)*params.SyncPeriodLength/params.EpochLength)), []byte{1, 0, 0, 0})
	}
	e.other = params.ChainConfig{GenesisTime: e.cfg.GenesisTime}
	rng.Read(e.other.GenesisValidatorsRoot[:])
	e.other.AddFork("GENESIS", 0, []byte{0, 0, 0, 0})
	n := e.P + 6
	e.w[0] = genWorld(rng, "w0", n, nil, 0)
	e.w[1] = genWorld(rng, "w1", n, e.w[0], e.F)
	e.atk = genWorld(rng, "atk", n, nil, 0)
	e.db = memorydb.New()
	e.clock = new(mclock.Simulated)
	e.m = newModel(e.thr, e.enforce, e.cfg.GenesisTime)
	if e.enforce {
		e.clock.Run(time.Duration(int64(e.cfg.GenesisTime)*int64(time.Second)) + time.Duration(float64(periodNs)*(float64(rng.Intn(e.P+1))+rng.Float64())))
		e.m.now = int64(e.clock.Now())
	}
	e.chain = light.NewTestCommitteeChain(e.db, &e.cfg, e.thr, e.enforce, e.clock)
	steps := 10 + rng.Intn(50)
	e.probeMask = bitmask(rng, 1+rng.Intn(512))
	e.ops = append(e.ops, "new chain")
	e.observe()
	for s := 0; s < steps && !e.bad && !abandon.Load(); s++ {
		k := rng.Intn(100)
		_, init := e.m.nextSyncPeriod()
		switch {
		case !init && k < 70:
			e.opCheckpoint()
		case k < 40:
			e.opGenuine(true)
		case k < 52:
			e.opGenuine(false)
		case k < 77:
			e.opForged()
		case k < 85:
			e.opCheckpoint()
		case k < 89:
			e.opForgedCheckpoint()
		case k < 94:
			e.opReload()
		case k < 96:
			e.opReset()
		default:
			if e.enforce {
				e.opClock()
			} else {
				e.opGenuine(true)
			}
		}
		if !e.bad && rng.Intn(2) == 0 {
			e.headProbe()
		}
	}
	if e.bad {
		return
	}
	if !e.m.updR.empty() {
		r.Count("sequences_with_update_chain", 1)
	}
	if r.WantSample() && len(e.ops) < 30 && !e.m.updR.empty() {
		r.Sample(e.witness())
	}
}

func run(r *vrt.Run) {
	r.Rule("each case is one operation of a random sequence (10-60 ops) on a CommitteeChain with the dummy verifier: trusted checkpoint (near/inside/far from the known range, either honest world), genuine update (in order at NextSyncPeriod or out of order; signer counts threshold-1/threshold/threshold+1/341/342/343/512/random; finalized or not; delivered with the right / no / a wrong committee; world 1 = validly signed fork competing with world 0), forged update (19 kinds), forged checkpoint (5 kinds), re-open from the database, Reset, clock change (enforceTime); after every op the full probe matrix (period x candidate committee), NextSyncPeriod and ChangeCounter are judged. signature = (op kind, sub-kind, outcome class, context flags, threshold, enforceTime)")
	n := r.N(1500, 100000)
	if r.Race() {
		n /= 8
	}
	vrt.Par(n, 0, func(i int) { one(r, i) })
	r.Require("genuine_stored", int64(n))
	r.Require("genuine_ErrCannotReorg", 5)
	r.Require("genuine_ErrNeedCommittee", 5)
	r.Require("forged_rejected_by_Validate", int64(n/4))
	r.Require("forged_rejected_by_InsertUpdate_ErrInvalidUpdate", int64(n/4))
	r.Require("head_probes_at_threshold_accepted", 20)
	r.Require("head_probes_one_below_threshold", 20)
	r.Require("op_reload", int64(n/4))
	r.Assume("the deterministic dummy signature scheme of beacon/light/test_helpers.go (re-implemented in the harness): the attacker cannot produce signatures of honest committees; both honest worlds are validly signed")
	r.Assume("harness model of the three period ranges (fixed roots, committees, updates); the rule 'a committee that is not an honest committee of the period never verifies a header' is judged independently of that model")
}
