// C35: header fee and gas arithmetic equals the specification's formulas.
//
// Oracle: spec.go (big-integer transcriptions of the EIP formulas, no go-ethereum imports).
// Judged functions: eip1559.CalcBaseFee / VerifyEIP1559Header, misc.VerifyGaslimit,
// eip4844.CalcExcessBlobGas / VerifyEIP4844Header / CalcBlobFee (fakeExponential),
// core.IntrinsicGas, core.FloorDataGas.
package main

import (
	"fmt"
	"math/big"
	"math/rand"

	"github.com/ethereum/go-ethereum/common"
	"github.com/ethereum/go-ethereum/consensus/misc"
	"github.com/ethereum/go-ethereum/consensus/misc/eip1559"
	"github.com/ethereum/go-ethereum/consensus/misc/eip4844"
	"github.com/ethereum/go-ethereum/core"
	"github.com/ethereum/go-ethereum/core/types"
	"github.com/ethereum/go-ethereum/params"
	"github.com/holiman/uint256"

	"verif/lib/vrt"
)

func main() { vrt.Main("C35", run) }

// ---- generators -----------------------------------------------------------------------

// around returns a value near one of the anchors or a random value of random bit length,
// clamped to [lo, hi].
func around(rng *rand.Rand, lo, hi uint64, anchors ...uint64) uint64 {
	var v uint64
	switch rng.Intn(3) {
	case 0, 1:
		if len(anchors) > 0 {
			a := anchors[rng.Intn(len(anchors))]
			d := uint64(rng.Intn(5))
			if rng.Intn(2) == 0 {
				v = a + d
				if v < a {
					v = ^uint64(0)
				}
			} else {
				v = a - d
				if v > a {
					v = 0
				}
			}
			break
		}
		fallthrough
	default:
		bits := 1 + rng.Intn(64)
		v = rng.Uint64() >> (64 - bits)
	}
	if v < lo {
		v = lo
	}
	if v > hi {
		v = hi
	}
	return v
}

func bigAround(rng *rand.Rand, anchors ...*big.Int) *big.Int {
	if rng.Intn(3) != 0 && len(anchors) > 0 {
		a := new(big.Int).Set(anchors[rng.Intn(len(anchors))])
		a.Add(a, big.NewInt(int64(rng.Intn(7)-3)))
		if a.Sign() < 0 {
			a.SetInt64(0)
		}
		return a
	}
	bits := rng.Intn(261)
	b := make([]byte, (bits+7)/8)
	rng.Read(b)
	v := new(big.Int).SetBytes(b)
	if bits%8 != 0 && len(b) > 0 {
		v.Rsh(v, uint(8-bits%8))
	}
	return v
}

func pow2(n uint) *big.Int { return new(big.Int).Lsh(big.NewInt(1), n) }

func magBucket(v *big.Int) string {
	n := v.BitLen()
	switch {
	case n == 0:
		return "0"
	case n <= 3:
		return "<8"
	case n <= 32:
		return "<2^32"
	case n <= 64:
		return "<2^64"
	case n <= 128:
		return "<2^128"
	default:
		return ">=2^128"
	}
}

func u64p(v uint64) *uint64 { return &v }

// ---- chain configs --------------------------------------------------------------------

func newU64(v uint64) *uint64 { return &v }

// londonCfg: London from block `london`.
func londonCfg(london int64) *params.ChainConfig {
	c := *params.AllEthashProtocolChanges
	c.LondonBlock = big.NewInt(london)
	c.BerlinBlock = big.NewInt(0)
	c.ArrowGlacierBlock, c.GrayGlacierBlock = nil, nil
	return &c
}

type blobFork struct {
	name  string
	time  uint64
	b     specBlob
	osaka bool // EIP-7918 active at/after this fork
}

// blobChain is a generated blob fork schedule plus the matching go-ethereum config.
type blobChain struct {
	cfg   *params.ChainConfig
	forks []blobFork // ascending by time; forks[0] = Cancun at time 0
}

// activeAt: the reference's reading of "blob parameters in force at timestamp t".
func (bc *blobChain) activeAt(t uint64) blobFork {
	cur := bc.forks[0]
	osaka := false
	for _, f := range bc.forks {
		if t >= f.time {
			if f.osaka {
				osaka = true
			}
			if f.b.Fraction != 0 { // Osaka itself carries no blob parameters
				cur = f
			}
		}
	}
	cur.osaka = osaka
	return cur
}

func toParamsBlob(b specBlob) *params.BlobConfig {
	return &params.BlobConfig{Target: int(b.Target), Max: int(b.Max), UpdateFraction: b.Fraction}
}

func baseMergedCfg() params.ChainConfig {
	c := *params.AllEthashProtocolChanges
	c.ArrowGlacierBlock, c.GrayGlacierBlock = nil, nil
	c.TerminalTotalDifficulty = big.NewInt(0)
	c.Ethash = nil
	c.ShanghaiTime = newU64(0)
	c.CancunTime = newU64(0)
	return c
}

func randomBlobChain(rng *rand.Rand) *blobChain {
	rb := func() specBlob {
		t := uint64(1 + rng.Intn(40))
		m := t + uint64(rng.Intn(int(t)+6))
		fr := []uint64{1, 2, 3, 1000, 3338477, 5007716, 8346193, 1 << 32}[rng.Intn(8)]
		if rng.Intn(3) == 0 {
			fr = 1 + uint64(rng.Int63n(1<<40))
		}
		if rng.Intn(3) == 0 {
			// EIP-style: fraction ~ target*GAS_PER_BLOB / ln(1.125)-ish scale
			fr = t * 1112825
		}
		return specBlob{t, m, fr}
	}
	c := baseMergedCfg()
	bc := &blobChain{}
	tm := uint64(0)
	next := func() uint64 { tm += 1 + uint64(rng.Intn(1000)); return tm }
	cancun := rb()
	if rng.Intn(2) == 0 {
		cancun = specCancun
	}
	bc.forks = append(bc.forks, blobFork{"cancun", 0, cancun, false})
	sched := &params.BlobScheduleConfig{Cancun: toParamsBlob(cancun)}
	nforks := rng.Intn(8) // how many later forks are scheduled
	if nforks >= 1 {
		b := rb()
		if rng.Intn(2) == 0 {
			b = specPrague
		}
		t := next()
		c.PragueTime = newU64(t)
		sched.Prague = toParamsBlob(b)
		bc.forks = append(bc.forks, blobFork{"prague", t, b, false})
	}
	if nforks >= 2 {
		t := next()
		c.OsakaTime = newU64(t)
		bc.forks = append(bc.forks, blobFork{"osaka", t, specBlob{}, true})
	}
	bpoT := []**uint64{&c.BPO1Time, &c.BPO2Time, &c.BPO3Time, &c.BPO4Time, &c.BPO5Time}
	bpoS := []**params.BlobConfig{&sched.BPO1, &sched.BPO2, &sched.BPO3, &sched.BPO4, &sched.BPO5}
	for k := 0; k < 5 && nforks >= 3+k; k++ {
		t := next()
		b := rb()
		*bpoT[k] = newU64(t)
		*bpoS[k] = toParamsBlob(b)
		bc.forks = append(bc.forks, blobFork{fmt.Sprintf("bpo%d", k+1), t, b, true})
	}
	c.BlobScheduleConfig = sched
	bc.cfg = &c
	return bc
}

// mainnetBlobChain: mainnet fork times and parameters typed from the fork meta EIPs
// (EIP-7569 Dencun, EIP-7600 Pectra, EIP-7607 Fusaka incl. BPO1/BPO2), judged against
// params.MainnetChainConfig.
func mainnetBlobChain() *blobChain {
	return &blobChain{cfg: params.MainnetChainConfig, forks: []blobFork{
		{"cancun", 1710338135, specCancun, false},
		{"prague", 1746612311, specPrague, false},
		{"osaka", 1764798551, specBlob{}, true},
		{"bpo1", 1765290071, specBPO1, true},
		{"bpo2", 1767747671, specBPO2, true},
	}}
}

func (bc *blobChain) pickTime(rng *rand.Rand) uint64 {
	f := bc.forks[rng.Intn(len(bc.forks))]
	first := bc.forks[0].time
	switch rng.Intn(4) {
	case 0:
		if f.time > first {
			return f.time - 1
		}
		return f.time
	case 1:
		return f.time
	case 2:
		return f.time + 1 + uint64(rng.Intn(5))
	default:
		last := bc.forks[len(bc.forks)-1].time
		return first + uint64(rng.Int63n(int64(last-first)+2000))
	}
}

// ---- checks ---------------------------------------------------------------------------

type chk struct {
	r    *vrt.Run
	xmax uint64 // bound on excess/fraction where the blob fee is evaluated
}

func hdrW(h *types.Header) map[string]any {
	w := map[string]any{"gasLimit": h.GasLimit, "gasUsed": h.GasUsed, "time": h.Time}
	if h.Number != nil {
		w["number"] = h.Number.String()
	}
	if h.BaseFee != nil {
		w["baseFee"] = h.BaseFee.String()
	}
	if h.ExcessBlobGas != nil {
		w["excessBlobGas"] = *h.ExcessBlobGas
	}
	if h.BlobGasUsed != nil {
		w["blobGasUsed"] = *h.BlobGasUsed
	}
	return w
}

// A: base fee
func (c *chk) baseFee(i int) {
	r := c.r
	rng := r.Rand("basefee", i)
	limit := around(rng, 5000, 1<<63-1, 5000, 5001, 30_000_000, 36_000_000, 1<<32, 1<<62, 1<<63-1)
	target := limit / 2
	var used uint64
	switch rng.Intn(10) {
	case 0:
		used = 0
	case 1, 2, 3:
		used = around(rng, 0, limit, target)
	case 4:
		used = around(rng, 0, limit, limit)
	case 5:
		used = around(rng, 0, ^uint64(0), limit, ^uint64(0)) // over-full parent: formula still defined
	default:
		used = uint64(rng.Int63n(int64(limit/2)+1))*2 + uint64(rng.Intn(2))
		if used > limit {
			used = limit
		}
	}
	base := bigAround(rng, big.NewInt(0), big.NewInt(7), big.NewInt(8), big.NewInt(1_000_000_000), pow2(63), pow2(64), pow2(200), new(big.Int).Sub(pow2(256), big.NewInt(1)))
	if rng.Intn(4) == 0 { // base fee that makes the delta land near 1
		if d := int64(used) - int64(target); d != 0 && target > 0 {
			if d < 0 {
				d = -d
			}
			b := new(big.Int).Div(new(big.Int).Mul(bi(target), big.NewInt(8)), big.NewInt(d))
			base = b.Add(b, big.NewInt(int64(rng.Intn(5)-2)))
			if base.Sign() < 0 {
				base.SetInt64(0)
			}
		}
	}
	cfg := londonCfg(0)
	parent := &types.Header{Number: big.NewInt(int64(1 + rng.Intn(1000))), GasLimit: limit, GasUsed: used, BaseFee: new(big.Int).Set(base)}
	w := map[string]any{"parent": hdrW(parent)}
	r.Case("basefee i=%d limit=%d used=%d base=%s", i, limit, used, base)
	want := specBaseFee(bi(limit), bi(used), base)
	var got *big.Int
	if r.Guard("basefee:CalcBaseFee", w, func() { got = eip1559.CalcBaseFee(cfg, parent) }) {
		return
	}
	if got == nil || got.Cmp(want) != 0 {
		r.Violation("basefee:value", fmt.Sprintf("CalcBaseFee(limit=%d used=%d base=%s)=%v, specification %s", limit, used, base, got, want), w)
	}
	if parent.BaseFee.Cmp(base) != 0 {
		r.Violation("basefee:parent-mutated", fmt.Sprintf("CalcBaseFee modified parent.BaseFee %s -> %s", base, parent.BaseFee), w)
	}
	// bounds stated by the property (checked on the agreed value): a parent that is not
	// over-full (used <= 2*target) moves the fee by at most max(1, base/8); above target by >= 1
	rel := "eq"
	if used > target {
		rel = "above"
		d := new(big.Int).Sub(want, base)
		if d.Sign() <= 0 {
			r.Violation("basefee:bound-min-increase", fmt.Sprintf("used>target but delta=%s", d), w)
		}
		if used <= 2*target {
			lim := new(big.Int).Div(base, big.NewInt(8))
			if lim.Sign() == 0 {
				lim.SetInt64(1)
			}
			if d.Cmp(lim) > 0 {
				r.Violation("basefee:bound-eighth", fmt.Sprintf("increase %s exceeds max(1, base/8)=%s", d, lim), w)
			}
		} else {
			rel = "overfull"
		}
	} else if used < target {
		rel = "below"
		d := new(big.Int).Sub(base, want)
		if d.Sign() < 0 || d.Cmp(new(big.Int).Div(base, big.NewInt(8))) > 0 {
			r.Violation("basefee:bound-eighth", fmt.Sprintf("decrease %s exceeds base/8", d), w)
		}
	}
	outc := "same"
	if d := new(big.Int).Sub(want, base); d.Sign() > 0 {
		outc = "up"
		if d.Cmp(big.NewInt(1)) == 0 {
			outc = "up1"
		}
	} else if d.Sign() < 0 {
		outc = "down"
	}
	r.Eval(fmt.Sprintf("basefee/%s/base%s/%s/odd%v", rel, magBucket(base), outc, limit%2 == 1))
	r.Count("basefee_"+rel, 1)

	// VerifyEIP1559Header: accept <=> gas limit within bound, base fee present and equal
	bound := limit / 1024
	gls := []uint64{limit, limit + bound - 1, limit + bound, limit - bound + 1, limit - bound, 4999, 5000, around(rng, 0, 1<<63-1, limit)}
	for k := 0; k < 3; k++ {
		gl := gls[rng.Intn(len(gls))]
		if gl > 1<<63-1 {
			gl = 1<<63 - 1
		}
		var bf *big.Int
		switch rng.Intn(5) {
		case 0:
			bf = nil
		case 1:
			bf = new(big.Int).Add(want, big.NewInt(1))
		case 2:
			bf = new(big.Int).Sub(want, big.NewInt(1))
			if bf.Sign() < 0 {
				bf = nil
			}
		default:
			bf = new(big.Int).Set(want)
		}
		h := &types.Header{Number: new(big.Int).Add(parent.Number, big.NewInt(1)), GasLimit: gl, BaseFee: bf}
		accept := specGasLimitOK(bi(limit), bi(gl)) && bf != nil && bf.Cmp(want) == 0
		var err error
		hw := map[string]any{"parent": hdrW(parent), "header": hdrW(h)}
		if r.Guard("verify1559", hw, func() { err = eip1559.VerifyEIP1559Header(cfg, parent, h) }) {
			continue
		}
		if (err == nil) != accept {
			r.Violation("verify1559:accept-mismatch", fmt.Sprintf("VerifyEIP1559Header err=%v, specification accept=%v", err, accept), hw)
		}
		r.Eval(fmt.Sprintf("verify1559/accept%v/bfnil%v", accept, bf == nil))
		r.Count(fmt.Sprintf("verify1559_accept_%v", accept), 1)
	}
	if i < 1 {
		r.Sample(map[string]any{"fn": "CalcBaseFee", "parent": hdrW(parent), "result": want.String()})
	}
}

// A': London fork block
func (c *chk) londonTransition(i int) {
	r := c.r
	rng := r.Rand("london", i)
	cfg := londonCfg(100)
	limit := around(rng, 5000, 1<<61, 5000, 15_000_000, 1<<61)
	parent := &types.Header{Number: big.NewInt(99), GasLimit: limit, GasUsed: around(rng, 0, limit, limit/2)}
	w := map[string]any{"parent": hdrW(parent), "londonBlock": 100}
	r.Case("london i=%d limit=%d", i, limit)
	var got *big.Int
	if r.Guard("basefee:CalcBaseFee-forkblock", w, func() { got = eip1559.CalcBaseFee(cfg, parent) }) {
		return
	}
	if got.Cmp(specInitialBaseFee) != 0 {
		r.Violation("basefee:forkblock-initial", fmt.Sprintf("fork block base fee %s, specification INITIAL_BASE_FEE", got), w)
	}
	adj := new(big.Int).Mul(bi(limit), specElasticityMultiplier)
	bound := 2 * limit / 1024
	for _, gl := range []uint64{2 * limit, 2*limit + bound - 1, 2*limit + bound, 2*limit - bound + 1, 2*limit - bound, limit} {
		bf := big.NewInt(1_000_000_000)
		if rng.Intn(4) == 0 {
			bf = big.NewInt(999_999_999)
		}
		h := &types.Header{Number: big.NewInt(100), GasLimit: gl, BaseFee: bf}
		accept := specGasLimitOK(adj, bi(gl)) && bf.Cmp(specInitialBaseFee) == 0
		var err error
		hw := map[string]any{"parent": hdrW(parent), "header": hdrW(h), "londonBlock": 100}
		if r.Guard("verify1559-forkblock", hw, func() { err = eip1559.VerifyEIP1559Header(cfg, parent, h) }) {
			continue
		}
		if (err == nil) != accept {
			r.Violation("verify1559:forkblock-accept-mismatch", fmt.Sprintf("fork block: err=%v, specification accept=%v", err, accept), hw)
		}
		r.Eval(fmt.Sprintf("verify1559-fork/accept%v", accept))
	}
	r.Count("london_forkblock", 1)
}

// B: gas limit bound
func (c *chk) gasLimit(i int) {
	r := c.r
	rng := r.Rand("gaslimit", i)
	p := around(rng, 0, 1<<63-1, 0, 1023, 1024, 5000, 5120, 30_000_000, 1<<32, 1<<62, 1<<63-1)
	bound := p / 1024
	cands := []uint64{p, p + bound, p + bound - 1, p + bound + 1, p - bound, p - bound + 1, p - bound - 1, 4999, 5000, 5001, around(rng, 0, 1<<63-1, p)}
	h := cands[rng.Intn(len(cands))]
	if h > 1<<63-1 { // wrapped or beyond MaxGasLimit (2^63-1): outside the consensus domain
		h = 1<<63 - 1
	}
	w := map[string]any{"parentGasLimit": p, "headerGasLimit": h}
	r.Case("gaslimit i=%d p=%d h=%d", i, p, h)
	accept := specGasLimitOK(bi(p), bi(h))
	var err error
	if r.Guard("gaslimit", w, func() { err = misc.VerifyGaslimit(p, h) }) {
		return
	}
	if (err == nil) != accept {
		r.Violation("gaslimit:accept-mismatch", fmt.Sprintf("VerifyGaslimit(%d,%d) err=%v, specification accept=%v", p, h, err, accept), w)
	}
	rel := "eq"
	if h > p {
		rel = "up"
	} else if h < p {
		rel = "down"
	}
	r.Eval(fmt.Sprintf("gaslimit/%s/accept%v/min%v/p%s", rel, accept, h < 5000, magBucket(bi(p))))
	r.Count(fmt.Sprintf("gaslimit_accept_%v", accept), 1)
}

// C + D: blob gas
func (c *chk) blob(i int, bc *blobChain, tag string) {
	r := c.r
	rng := r.Rand("blob-"+tag, i)
	t := bc.pickTime(rng)
	act := bc.activeAt(t)
	b := act.b
	gpb := uint64(1 << 17)
	targetGas := b.Target * gpb
	// fee evaluation is only feasible for bounded exponent
	feeOK := func(ex uint64) bool { return ex/b.Fraction <= c.xmax }

	// parent excess
	var excess uint64
	hiFee := c.xmax * b.Fraction
	if hiFee/b.Fraction != c.xmax {
		hiFee = ^uint64(0)
	}
	switch rng.Intn(6) {
	case 0:
		excess = 0
	case 1:
		excess = around(rng, 0, ^uint64(0), targetGas, 2*targetGas, b.Max*gpb)
	case 2:
		excess = around(rng, 0, ^uint64(0), b.Fraction, 10*b.Fraction, b.Fraction*uint64(1+rng.Intn(60)))
	case 3:
		excess = uint64(rng.Int63n(int64(min(hiFee, 1<<62)) + 1))
	case 4:
		excess = around(rng, 0, ^uint64(0), 1<<32, 1<<63, ^uint64(0)-targetGas, ^uint64(0))
	default:
		excess = gpb * uint64(rng.Intn(400))
	}
	if act.osaka && !feeOK(excess) && hiFee != ^uint64(0) {
		excess %= hiFee + 1
	}
	// parent blob gas used
	var used uint64
	switch rng.Intn(8) {
	case 0:
		used = 0
	case 1:
		used = b.Max * gpb
	case 2:
		used = around(rng, 0, 1<<40, targetGas, b.Max*gpb) // not necessarily a multiple
	case 3:
		used = uint64(rng.Int63n(1 << 40))
	default:
		used = gpb * uint64(rng.Intn(int(b.Max)+1))
	}
	// parent base fee (only read under Osaka)
	var pbf *big.Int
	if act.osaka && feeOK(excess) {
		fee := specBlobBaseFee(bi(excess), b)
		edge := new(big.Int).Mul(fee, big.NewInt(16)) // 8192*bf > 131072*fee  <=>  bf > 16*fee
		pbf = bigAround(rng, edge, edge, big.NewInt(0), big.NewInt(7), big.NewInt(1_000_000_000), pow2(100))
	} else {
		pbf = bigAround(rng, big.NewInt(7), big.NewInt(1_000_000_000))
	}
	parent := &types.Header{Number: big.NewInt(1000), Time: t - min(t, 12), BaseFee: pbf, ExcessBlobGas: u64p(excess), BlobGasUsed: u64p(used)}
	preFork := rng.Intn(25) == 0
	if preFork { // parent without blob fields (fork block): counts as 0/0
		parent.ExcessBlobGas, parent.BlobGasUsed = nil, nil
		excess, used = 0, 0
	}
	w := map[string]any{"parent": hdrW(parent), "headTime": t, "active": act.name, "osaka": act.osaka, "blob": map[string]uint64{"target": b.Target, "max": b.Max, "updateFraction": b.Fraction}, "chain": tag}
	r.Case("blob %s i=%d t=%d active=%s osaka=%v excess=%d used=%d bf=%s cfg=%+v", tag, i, t, act.name, act.osaka, excess, used, pbf, b)

	// schedule lookups
	if got := eip4844.TargetBlobsPerBlock(bc.cfg, t); uint64(got) != b.Target {
		r.Violation("blob:schedule-target", fmt.Sprintf("TargetBlobsPerBlock(t=%d)=%d, schedule says %d (%s)", t, got, b.Target, act.name), w)
	}
	if got := eip4844.MaxBlobsPerBlock(bc.cfg, t); uint64(got) != b.Max {
		r.Violation("blob:schedule-max", fmt.Sprintf("MaxBlobsPerBlock(t=%d)=%d, schedule says %d (%s)", t, got, b.Max, act.name), w)
	}
	if got := eip4844.MaxBlobGasPerBlock(bc.cfg, t); got != b.Max*gpb {
		r.Violation("blob:schedule-maxgas", fmt.Sprintf("MaxBlobGasPerBlock(t=%d)=%d want %d", t, got, b.Max*gpb), w)
	}

	want := specExcessBlobGas(act.osaka, b, bi(excess), bi(used), pbf)
	var got uint64
	if r.Guard("excess:CalcExcessBlobGas", w, func() { got = eip4844.CalcExcessBlobGas(bc.cfg, parent, t) }) {
		return
	}
	branch := "zero"
	if want.Sign() > 0 {
		branch = "4844"
		if act.osaka {
			plain := specExcessBlobGas(false, b, bi(excess), bi(used), pbf)
			if plain.Cmp(want) != 0 {
				branch = "7918-reserve"
			} else {
				branch = "osaka-4844"
			}
		}
	}
	if want.Cmp(uint64Max) > 0 || new(big.Int).Add(bi(excess), bi(used)).Cmp(uint64Max) > 0 {
		// Result (or the intermediate sum excess+used, a U64 addition in the executable
		// specification, which raises on overflow) not representable: the specification
		// defines no valid child header; only no-panic is required here. Triage note: geth
		// wraps silently in that case (e.g. excess=2^64-1, used=262144 -> 0); unreachable on a
		// real chain, because excess grows by at most max*GAS_PER_BLOB per block.
		r.Count("excess_out_of_domain", 1)
		r.Eval("")
	} else {
		if got != want.Uint64() {
			r.Violation("excess:value:"+branch, fmt.Sprintf("CalcExcessBlobGas=%d, specification %s (%s, t=%d, excess=%d used=%d basefee=%s, %+v)", got, want, act.name, t, excess, used, pbf, b), w)
		}
		r.Eval(fmt.Sprintf("excess/%s/%s/%s/prefork%v", tag, act.name, branch, preFork))
		r.Count("excess_"+branch, 1)

		// VerifyEIP4844Header accept/reject
		exp := want.Uint64()
		for k := 0; k < 2; k++ {
			var he, hu *uint64
			switch rng.Intn(6) {
			case 0:
				he = nil
			case 1:
				he = u64p(exp + 1)
			case 2:
				he = u64p(exp - 1)
			default:
				he = u64p(exp)
			}
			switch rng.Intn(7) {
			case 0:
				hu = nil
			case 1:
				hu = u64p((b.Max + 1) * gpb)
			case 2:
				hu = u64p(b.Max * gpb)
			case 3:
				hu = u64p(gpb*uint64(rng.Intn(int(b.Max)+1)) + 1 + uint64(rng.Intn(1000)))
			default:
				hu = u64p(gpb * uint64(rng.Intn(int(b.Max)+1)))
			}
			h := &types.Header{Number: big.NewInt(1001), Time: t, ExcessBlobGas: he, BlobGasUsed: hu}
			accept := he != nil && hu != nil && *hu <= b.Max*gpb && *hu%gpb == 0 && *he == exp
			hw := map[string]any{"parent": hdrW(parent), "header": hdrW(h), "active": act.name, "chain": tag}
			var err error
			if r.Guard("verify4844", hw, func() { err = eip4844.VerifyEIP4844Header(bc.cfg, parent, h) }) {
				continue
			}
			if (err == nil) != accept {
				r.Violation("verify4844:accept-mismatch", fmt.Sprintf("VerifyEIP4844Header err=%v, specification accept=%v", err, accept), hw)
			}
			r.Eval(fmt.Sprintf("verify4844/accept%v/enil%v/unil%v", accept, he == nil, hu == nil))
			r.Count(fmt.Sprintf("verify4844_accept_%v", accept), 1)
		}
	}

	// D: blob base fee of a header with this excess
	fe := excess
	if !feeOK(fe) && hiFee != ^uint64(0) {
		fe %= hiFee + 1
	}
	if rng.Intn(3) == 0 {
		fe = around(rng, 0, hiFee, b.Fraction, 2*b.Fraction, b.Fraction*uint64(rng.Intn(int(c.xmax)+1)))
	}
	h := &types.Header{Number: big.NewInt(1001), Time: t, ExcessBlobGas: u64p(fe)}
	fw := map[string]any{"excessBlobGas": fe, "headTime": t, "updateFraction": b.Fraction, "active": act.name, "chain": tag}
	wantFee, iters := specFakeExponential(specMinBaseFeePerBlobGas, bi(fe), bi(b.Fraction))
	var gotFee *big.Int
	if r.Guard("blobfee:CalcBlobFee", fw, func() { gotFee = eip4844.CalcBlobFee(bc.cfg, h) }) {
		return
	}
	if gotFee == nil || gotFee.Cmp(wantFee) != 0 {
		r.Violation("blobfee:value", fmt.Sprintf("CalcBlobFee(excess=%d, fraction=%d)=%v, specification %s", fe, b.Fraction, gotFee, wantFee), fw)
	}
	ib := 0
	for n := iters; n > 0; n >>= 1 {
		ib++
	}
	r.Eval(fmt.Sprintf("blobfee/%s/iters2^%d/fee%s", tag, ib, magBucket(wantFee)))
	r.Count("blobfee", 1)
	if i < 1 {
		r.Sample(map[string]any{"fn": "CalcExcessBlobGas+CalcBlobFee", "case": w, "excess_result": want.String(), "fee_excess": fe, "fee": wantFee.String()})
	}
}

// fakeExpSelfCheck validates the transcription of fake_exponential against the vectors of
// EIP-4844's reference tests and against the mathematical meaning (a lower approximation of
// factor*e^(n/d) with a provable error bound), so that "geth and transcription agree and
// are both wrong" is not silent.
func (c *chk) fakeExpSelfCheck() {
	r := c.r
	vec := [][4]int64{{1, 0, 1, 1}, {38493, 0, 1000, 38493}, {0, 1234, 2345, 0}, {1, 2, 1, 6}, {1, 4, 2, 6}, {1, 3, 1, 16}, {1, 6, 2, 18}, {1, 4, 1, 49}, {1, 8, 2, 50}, {10, 8, 2, 542}, {11, 8, 2, 596}, {1, 5, 1, 136}, {1, 5, 2, 11}, {2, 5, 2, 23}, {1, 50000000, 2225652, 5709098764}}
	for _, v := range vec {
		got, _ := specFakeExponential(big.NewInt(v[0]), big.NewInt(v[1]), big.NewInt(v[2]))
		if got.Cmp(big.NewInt(v[3])) != 0 {
			r.Inconclusive("transcription of fake_exponential disagrees with EIP-4844 vector %v: %s", v, got)
		}
	}
	// upper bound: every floored term is <= the exact Taylor term, so
	// fake <= factor * sum_{i<N} x^i/i!  <= factor*e^x ; lower bound: the accumulated
	// flooring error is < N*E (E >= e^x) in units of 1/d, plus one for the final floor and the
	// dropped tail (< 2 units once N > 2x). Checked for moderate x with exact rationals.
	for k := 0; k < 60; k++ {
		rng := r.Rand("fakeexp-math", k)
		d := int64(1 + rng.Intn(5_000_000))
		n := rng.Int63n(d*12 + 1)
		got, N := specFakeExponential(big.NewInt(1), big.NewInt(n), big.NewInt(d))
		x := big.NewRat(n, d)
		sum := new(big.Rat)
		term := big.NewRat(1, 1)
		M := max(N+40, 80)
		for m := 0; m < M; m++ {
			sum.Add(sum, term)
			term.Mul(term, x)
			term.Mul(term, big.NewRat(1, int64(m+1)))
		}
		// sum <= e^x <= sum + 2*term (ratio < 1/2 since M > 2x+..)
		eup := new(big.Rat).Add(sum, new(big.Rat).Add(term, term))
		up := new(big.Rat).SetInt(got)
		if up.Cmp(eup) > 0 {
			r.Inconclusive("fake_exponential transcription above e^x: n=%d d=%d got=%s", n, d, got)
		}
		slack := new(big.Rat).Mul(eup, big.NewRat(int64(N)+3, d))
		slack.Add(slack, big.NewRat(2, 1))
		lo := new(big.Rat).Sub(sum, slack)
		if up.Cmp(lo) < 0 {
			r.Inconclusive("fake_exponential transcription too far below e^x: n=%d d=%d got=%s", n, d, got)
		}
		r.Count("fakeexp_math_selfchecks", 1)
	}
}

// E: intrinsic gas and floor
type era struct {
	name  string
	spec  specEra
	rules params.Rules
}

func eras() []era {
	mc := params.MainnetChainConfig
	at := func(num int64, merge bool, t uint64) params.Rules { return mc.Rules(big.NewInt(num), merge, t) }
	return []era{
		{"frontier", specEra{}, at(1, false, 0)},
		{"homestead", specEra{Homestead: true}, at(1_150_000, false, 0)},
		{"byzantium", specEra{Homestead: true}, at(4_370_000, false, 0)},
		{"istanbul", specEra{Homestead: true, Istanbul: true}, at(9_069_000, false, 0)},
		{"berlin", specEra{Homestead: true, Istanbul: true, Berlin: true}, at(12_244_000, false, 0)},
		{"london", specEra{Homestead: true, Istanbul: true, Berlin: true}, at(12_965_000, false, 0)},
		{"paris", specEra{Homestead: true, Istanbul: true, Berlin: true}, at(15_537_394, true, 1663224179)},
		{"shanghai", specEra{Homestead: true, Istanbul: true, Berlin: true, Shanghai: true}, at(17_034_870, true, 1681338455)},
		{"cancun", specEra{Homestead: true, Istanbul: true, Berlin: true, Shanghai: true}, at(19_426_587, true, 1710338135)},
		{"prague", specEra{Homestead: true, Istanbul: true, Berlin: true, Shanghai: true, Prague: true}, at(22_431_084, true, 1746612311)},
		{"osaka", specEra{Homestead: true, Istanbul: true, Berlin: true, Shanghai: true, Prague: true}, at(23_935_694, true, 1764798551)},
	}
}

func genData(rng *rand.Rand, big_ bool) []byte {
	var l int
	switch rng.Intn(10) {
	case 0:
		l = 0
	case 1, 2:
		l = rng.Intn(70) // around word boundaries 31/32/33/63/64/65
	case 3:
		l = 32*rng.Intn(40) + rng.Intn(3) - 1
		if l < 0 {
			l = 0
		}
	default:
		l = rng.Intn(2500)
	}
	if big_ {
		l = rng.Intn(130_001)
		if rng.Intn(4) == 0 {
			l = []int{24576, 49152, 49153, 131072 - 1, 130_000}[rng.Intn(5)]
		}
	}
	d := make([]byte, l)
	switch rng.Intn(5) {
	case 0: // all zero
	case 1:
		for i := range d {
			d[i] = 0xff
		}
	default:
		zr := rng.Intn(101)
		for i := range d {
			if rng.Intn(100) >= zr {
				d[i] = byte(1 + rng.Intn(255))
			}
		}
	}
	return d
}

func genAccessList(rng *rand.Rand, huge bool) (types.AccessList, uint64, uint64) {
	if rng.Intn(3) == 0 {
		return nil, 0, 0
	}
	na := rng.Intn(6)
	maxKeys := 5
	if huge {
		na = 1 + rng.Intn(60)
		maxKeys = 180
	}
	al := make(types.AccessList, na)
	keys := uint64(0)
	for i := range al {
		al[i].Address = common.Address{byte(i), byte(rng.Intn(256))}
		nk := rng.Intn(maxKeys + 1)
		if nk > 0 {
			al[i].StorageKeys = make([]common.Hash, nk)
			for j := range al[i].StorageKeys {
				al[i].StorageKeys[j][31] = byte(j)
			}
		}
		keys += uint64(nk)
	}
	return al, uint64(na), keys
}

func genAuths(rng *rand.Rand, huge bool) []types.SetCodeAuthorization {
	if rng.Intn(2) == 0 {
		return nil
	}
	n := rng.Intn(5)
	if huge {
		n = rng.Intn(1001)
	}
	return make([]types.SetCodeAuthorization, n)
}

func (c *chk) intrinsic(i int, es []era) {
	r := c.r
	rng := r.Rand("intrinsic", i)
	e := es[rng.Intn(len(es))]
	huge := i%40 == 0
	data := genData(rng, huge)
	create := rng.Intn(3) == 0
	var al types.AccessList
	var na, nk uint64
	if e.spec.Berlin {
		al, na, nk = genAccessList(rng, huge && rng.Intn(2) == 0)
	}
	var auths []types.SetCodeAuthorization
	if e.spec.Prague {
		auths = genAuths(rng, huge && rng.Intn(4) == 0)
	}
	from := common.Address{0xf0}
	var to *common.Address
	if !create {
		a := common.Address{0x70, byte(rng.Intn(3))}
		if rng.Intn(10) == 0 {
			a = from
		}
		to = &a
	}
	value := uint256.NewInt(uint64(rng.Intn(3)))
	z, nz := specCounts(data)
	w := map[string]any{"era": e.name, "data_len": len(data), "zero_bytes": z, "nonzero_bytes": nz, "create": create, "al_addresses": na, "al_keys": nk, "auths": len(auths)}
	if len(data) <= 256 {
		w["data"] = vrt.Hex(data)
	}
	r.Case("intrinsic i=%d %v", i, w)
	want := specIntrinsicGas(e.spec, data, create, na, nk, uint64(len(auths)))
	var got uint64
	var err error
	if r.Guard("intrinsic:IntrinsicGas", w, func() { got, err = core.IntrinsicGas(data, al, auths, from, to, value, e.rules) }) {
		return
	}
	if err != nil || !want.IsUint64() || got != want.Uint64() {
		r.Violation("intrinsic:value:"+e.name, fmt.Sprintf("IntrinsicGas=%d err=%v, specification %s (%v)", got, err, want, w), w)
	}
	lw := (len(data) + 31) / 32
	wb := "w0"
	switch {
	case len(data) == 0:
	case len(data)%32 == 0:
		wb = "aligned"
	case len(data)%32 == 1:
		wb = "plus1"
	case len(data)%32 == 31:
		wb = "minus1"
	default:
		wb = "mid"
	}
	_ = lw
	r.Eval(fmt.Sprintf("intrinsic/%s/create%v/%s/z%v/nz%v/al%v/keys%v/auth%v", e.name, create, wb, z > 0, nz > 0, na > 0, nk > 0, len(auths) > 0))
	r.Count("intrinsic_"+e.name, 1)
	if e.spec.Prague {
		wantF := specFloor(data)
		var gotF uint64
		if r.Guard("floor:FloorDataGas", w, func() { gotF, err = core.FloorDataGas(e.rules, from, to, value, data, al) }) {
			return
		}
		if err != nil || gotF != wantF.Uint64() {
			r.Violation("floor:value", fmt.Sprintf("FloorDataGas=%d err=%v, specification %s (%v)", gotF, err, wantF, w), w)
		}
		dom := "floor-binds"
		if wantF.Cmp(want) <= 0 {
			dom = "intrinsic-binds"
		}
		r.Eval(fmt.Sprintf("floor/%s/%s/z%v/nz%v/create%v", e.name, dom, z > 0, nz > 0, create))
		r.Count("floor_"+dom, 1)
	}
	if i < 1 {
		r.Sample(map[string]any{"fn": "IntrinsicGas", "case": w, "result": want.String()})
	}
}

// F: Amsterdam-only pricing: no external definition available; no panic, no error on
// ordinary sizes, monotone in every size parameter, floor >= its own base.
func (c *chk) amsterdam(i int) {
	r := c.r
	rng := r.Rand("amsterdam", i)
	cfg := baseMergedCfg()
	cfg.PragueTime, cfg.OsakaTime, cfg.AmsterdamTime = newU64(0), newU64(0), newU64(0)
	rules := cfg.Rules(big.NewInt(1), true, 1)
	if !rules.IsAmsterdam {
		r.Inconclusive("cannot construct Amsterdam rules")
		return
	}
	data := genData(rng, i%50 == 0)
	al, na, nk := genAccessList(rng, false)
	auths := genAuths(rng, false)
	from := common.Address{0xf0}
	var to *common.Address
	if rng.Intn(3) != 0 {
		a := common.Address{0x70}
		if rng.Intn(5) == 0 {
			a = from
		}
		to = &a
	}
	value := uint256.NewInt(uint64(rng.Intn(2)))
	w := map[string]any{"data_len": len(data), "al_addresses": na, "al_keys": nk, "auths": len(auths), "create": to == nil}
	r.Case("amsterdam i=%d %v", i, w)
	var g0, g1, g2, g3, f0, f1 uint64
	var e0, e1, e2, e3, ef0, ef1 error
	if r.Guard("amsterdam:IntrinsicGas", w, func() {
		g0, e0 = core.IntrinsicGas(data, al, auths, from, to, value, rules)
		g1, e1 = core.IntrinsicGas(append(append([]byte{}, data...), byte(rng.Intn(2))), al, auths, from, to, value, rules)
		al2 := append(append(types.AccessList{}, al...), types.AccessTuple{Address: common.Address{9}, StorageKeys: []common.Hash{{1}}})
		g2, e2 = core.IntrinsicGas(data, al2, auths, from, to, value, rules)
		g3, e3 = core.IntrinsicGas(data, al, append(append([]types.SetCodeAuthorization{}, auths...), types.SetCodeAuthorization{}), from, to, value, rules)
		f0, ef0 = core.FloorDataGas(rules, from, to, value, data, al)
		f1, ef1 = core.FloorDataGas(rules, from, to, value, append(append([]byte{}, data...), 1), al)
	}) {
		return
	}
	for _, e := range []error{e0, e1, e2, e3, ef0, ef1} {
		if e != nil {
			r.Violation("amsterdam:unexpected-error", fmt.Sprintf("error %v on ordinary-sized input %v", e, w), w)
		}
	}
	if g1 < g0 || g2 <= g0 || g3 <= g0 || f1 <= f0 {
		r.Violation("amsterdam:monotonic", fmt.Sprintf("not monotone: base=%d +byte=%d +accesslist=%d +auth=%d floor=%d floor+byte=%d", g0, g1, g2, g3, f0, f1), w)
	}
	r.Eval(fmt.Sprintf("amsterdam/create%v/self%v/value%v/data%v/al%v/auth%v", to == nil, to != nil && *to == from, !value.IsZero(), len(data) > 0, na > 0, len(auths) > 0))
	r.Count("amsterdam_cases", 1)
}

func run(r *vrt.Run) {
	r.Rule("boundary-biased random parameters: gas limits 5000..2^63-1, gas used around target/limit (and over-full), base fees 0..2^256 with values that put the delta near 1; gas-limit pairs around parent +/- parent/1024 and 5000; blob schedules = mainnet (real fork times, +/-1 s) and generated chains (Cancun, Prague, Osaka, BPO1..5 with random target/max/update fraction), parent excess around multiples of target/fraction up to 2^64-1, blob gas used in/out of range, parent base fee around the EIP-7918 reserve threshold 16*blob fee; calldata 0..130000 bytes with chosen zero ratios and word-boundary lengths, access lists to ~5000 keys, 0..1000 authorizations, eleven rule sets Frontier..Osaka. signature = (function, fork/era, branch taken, operand magnitude class, accept/reject class)")
	c := &chk{r: r, xmax: 300}
	if !r.Quick() {
		c.xmax = 1500
	}
	c.fakeExpSelfCheck()

	scale := 1
	if !r.Quick() {
		scale = 40
	}
	vrt.Par(60000*scale, 0, func(i int) { c.baseFee(i) })
	vrt.Par(2000*scale, 0, func(i int) { c.londonTransition(i) })
	vrt.Par(60000*scale, 0, func(i int) { c.gasLimit(i) })

	main := mainnetBlobChain()
	vrt.Par(12000*scale, 0, func(i int) { c.blob(i, main, "mainnet") })
	nchains := 300 * scale
	per := 60
	vrt.Par(nchains, 0, func(k int) {
		bc := randomBlobChain(r.Rand("chain", k))
		for j := 0; j < per; j++ {
			c.blob(k*per+j, bc, "generated")
		}
	})
	r.Count("generated_blob_chains", nchains)

	es := eras()
	vrt.Par(40000*scale, 0, func(i int) { c.intrinsic(i, es) })
	vrt.Par(6000*scale, 0, func(i int) { c.amsterdam(i) })

	for _, k := range []string{"basefee_above", "basefee_below", "basefee_eq", "verify1559_accept_true", "verify1559_accept_false", "gaslimit_accept_true", "gaslimit_accept_false", "excess_4844", "excess_7918-reserve", "excess_osaka-4844", "excess_zero", "verify4844_accept_true", "verify4844_accept_false", "blobfee", "floor_floor-binds", "floor_intrinsic-binds", "intrinsic_frontier", "intrinsic_osaka", "amsterdam_cases"} {
		r.Require(k, 50)
	}
	r.Assume("oracle = harness-side math/big transcriptions of the EIP formulas (spec.go): EIP-1559, EIP-4844, EIP-7691, EIP-7918, EIP-7892 parameter values, EIP-2/2028/2930/3860/7702 intrinsic gas, EIP-7623 floor; fake_exponential transcription self-checked against the EIP-4844 vectors and against e^x with exact rationals")
	r.Assume("domain restrictions (outside them only no-panic is required): gas limits in [5000, 2^63-1] (params.MaxGasLimit is enforced by the header verifiers before these functions); blob schedules with 1 <= target <= max and update fraction > 0; parent blob gas used < 2^40; excess/updateFraction <= xmax wherever the blob fee is evaluated (the loop needs ~e*x iterations); a specification result, or the U64 sum parent excess + blob gas used, above 2^64-1 has no representable header (go-ethereum wraps silently there; unreachable on a real chain)")
	r.Assume("Amsterdam-only pricing (EIP-2780/7976/7981/8037 as implemented) has no external definition here: only no panic / no error / monotonicity are checked")
	r.Extra("xmax", c.xmax)
}
