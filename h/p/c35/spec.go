package main

// Transcriptions of the specification formulas with unbounded integers (math/big). Nothing
// here imports go-ethereum; every constant is typed from the EIP text.
//
//	EIP-1559  base fee update, gas limit bound, fork-block rule
//	EIP-4844  calc_excess_blob_gas, fake_exponential, get_base_fee_per_blob_gas, header checks
//	EIP-7691  Prague blob target/max/update fraction
//	EIP-7918  Osaka reserve-price branch of calc_excess_blob_gas
//	EIP-7892  blob-parameter-only forks (BPO1/BPO2 values)
//	EIP-2 / EIP-2028 / EIP-2930 / EIP-3860 / EIP-7702  intrinsic gas
//	EIP-7623  calldata floor

import "math/big"

func bi(v uint64) *big.Int { return new(big.Int).SetUint64(v) }

var (
	// EIP-1559
	specInitialBaseFee       = bi(1_000_000_000)
	specBaseFeeMaxChangeDen  = bi(8)
	specElasticityMultiplier = bi(2)
	specGasLimitBoundDivisor = bi(1024) // "parent_gas_limit // 1024"
	specMinGasLimit          = bi(5000)

	// EIP-4844
	specGasPerBlob           = bi(1 << 17)
	specMinBaseFeePerBlobGas = bi(1)
	specBlobBaseCost         = bi(1 << 13) // EIP-7918 BLOB_BASE_COST
	uint64Max                = new(big.Int).SetUint64(^uint64(0))
)

// blob schedule entries from the EIPs
type specBlob struct {
	Target, Max uint64
	Fraction    uint64
}

var (
	specCancun = specBlob{3, 6, 3338477}   // EIP-4844: TARGET 393216, MAX 786432, BLOB_BASE_FEE_UPDATE_FRACTION 3338477
	specPrague = specBlob{6, 9, 5007716}   // EIP-7691
	specBPO1   = specBlob{10, 15, 8346193} // EIP-7892 schedule (Fusaka BPO1)
	specBPO2   = specBlob{14, 21, 11684671}
)

// ---- EIP-1559 -------------------------------------------------------------------------

// specBaseFee: expected base fee of the child of a London parent.
func specBaseFee(parentGasLimit, parentGasUsed, parentBaseFee *big.Int) *big.Int {
	target := new(big.Int).Div(parentGasLimit, specElasticityMultiplier)
	switch parentGasUsed.Cmp(target) {
	case 0:
		return new(big.Int).Set(parentBaseFee)
	case 1:
		delta := new(big.Int).Sub(parentGasUsed, target)
		x := new(big.Int).Mul(parentBaseFee, delta)
		x.Div(x, target)
		x.Div(x, specBaseFeeMaxChangeDen)
		if x.Sign() == 0 { // max(..., 1)
			x.SetInt64(1)
		}
		return x.Add(parentBaseFee, x)
	default:
		delta := new(big.Int).Sub(target, parentGasUsed)
		x := new(big.Int).Mul(parentBaseFee, delta)
		x.Div(x, target)
		x.Div(x, specBaseFeeMaxChangeDen)
		return x.Sub(parentBaseFee, x)
	}
}

// specGasLimitOK: EIP-1559 gas limit validity of a child against the (possibly
// elasticity-adjusted) parent gas limit.
func specGasLimitOK(parentGasLimit, gasLimit *big.Int) bool {
	bound := new(big.Int).Div(parentGasLimit, specGasLimitBoundDivisor)
	hi := new(big.Int).Add(parentGasLimit, bound)
	lo := new(big.Int).Sub(parentGasLimit, bound)
	// assert block.gas_limit < parent_gas_limit + parent_gas_limit // 1024
	// assert block.gas_limit > parent_gas_limit - parent_gas_limit // 1024
	// assert block.gas_limit >= 5000
	return gasLimit.Cmp(hi) < 0 && gasLimit.Cmp(lo) > 0 && gasLimit.Cmp(specMinGasLimit) >= 0
}

// ---- EIP-4844 / 7691 / 7918 -----------------------------------------------------------

func specFakeExponential(factor, numerator, denominator *big.Int) (*big.Int, int) {
	i := int64(1)
	output := new(big.Int)
	accum := new(big.Int).Mul(factor, denominator)
	n := 0
	for accum.Sign() > 0 {
		output.Add(output, accum)
		// numerator_accum = (numerator_accum * numerator) // (denominator * i)
		accum.Mul(accum, numerator)
		accum.Div(accum, new(big.Int).Mul(denominator, big.NewInt(i)))
		i++
		n++
	}
	return output.Div(output, denominator), n
}

func specBlobBaseFee(excess *big.Int, b specBlob) *big.Int {
	v, _ := specFakeExponential(specMinBaseFeePerBlobGas, excess, bi(b.Fraction))
	return v
}

// specExcessBlobGas: calc_excess_blob_gas(parent) under the child's blob parameters; osaka
// selects the EIP-7918 variant. Result may exceed 2^64-1 (then no header can carry it).
func specExcessBlobGas(osaka bool, b specBlob, parentExcess, parentUsed, parentBaseFee *big.Int) *big.Int {
	target := new(big.Int).Mul(bi(b.Target), specGasPerBlob)
	sum := new(big.Int).Add(parentExcess, parentUsed)
	if sum.Cmp(target) < 0 {
		return new(big.Int)
	}
	if osaka {
		// if BLOB_BASE_COST * parent.base_fee_per_gas > GAS_PER_BLOB * get_base_fee_per_blob_gas(parent)
		lhs := new(big.Int).Mul(specBlobBaseCost, parentBaseFee)
		rhs := new(big.Int).Mul(specGasPerBlob, specBlobBaseFee(parentExcess, b))
		if lhs.Cmp(rhs) > 0 {
			// parent.excess_blob_gas + parent.blob_gas_used * (MAX - TARGET) // MAX
			x := new(big.Int).Mul(parentUsed, bi(b.Max-b.Target))
			x.Div(x, bi(b.Max))
			return x.Add(parentExcess, x)
		}
	}
	return sum.Sub(sum, target)
}

// ---- intrinsic gas and floor ----------------------------------------------------------

type specEra struct {
	Homestead bool // EIP-2: creation costs 53000
	Istanbul  bool // EIP-2028: non-zero byte 16 (68 before)
	Berlin    bool // EIP-2930 access lists
	Shanghai  bool // EIP-3860 init code words
	Prague    bool // EIP-7702 authorizations, EIP-7623 floor
}

func specCounts(data []byte) (zero, nonzero uint64) {
	for _, b := range data {
		if b == 0 {
			zero++
		} else {
			nonzero++
		}
	}
	return
}

func specIntrinsicGas(era specEra, data []byte, create bool, alAddrs, alKeys, auths uint64) *big.Int {
	z, nz := specCounts(data)
	gas := bi(21000)
	if create && era.Homestead {
		gas.Add(gas, bi(32000))
	}
	nzCost := uint64(68)
	if era.Istanbul {
		nzCost = 16
	}
	gas.Add(gas, new(big.Int).Mul(bi(z), bi(4)))
	gas.Add(gas, new(big.Int).Mul(bi(nz), bi(nzCost)))
	if create && era.Shanghai {
		words := (uint64(len(data)) + 31) / 32
		gas.Add(gas, new(big.Int).Mul(bi(words), bi(2)))
	}
	gas.Add(gas, new(big.Int).Mul(bi(alAddrs), bi(2400)))
	gas.Add(gas, new(big.Int).Mul(bi(alKeys), bi(1900)))
	gas.Add(gas, new(big.Int).Mul(bi(auths), bi(25000))) // PER_EMPTY_ACCOUNT_COST
	return gas
}

// specFloor: EIP-7623: 21000 + TOTAL_COST_FLOOR_PER_TOKEN(10) * (zero + 4*nonzero)
func specFloor(data []byte) *big.Int {
	z, nz := specCounts(data)
	tokens := new(big.Int).Add(bi(z), new(big.Int).Mul(bi(nz), bi(4)))
	return tokens.Mul(tokens, bi(10)).Add(tokens, bi(21000))
}
