// C14: state commit and reopen preserve the state; Copy() is independent in both directions.
//
// Multi-block histories from the C13 generator (with emphasis on destruction / re-creation) are
// executed in lock-step on a StateDB and the reference account model. At every block end
// Commit's root is compared with the preceding IntermediateRoot and with the model root, and
// the committed state is read back through (a) a fresh state.New(root, db), (b) the tries only
// (trie.NewStateTrie + GetAccount/GetStorage), (c) the flat state only (pathdb state reader
// resp. snapshot tree) and (d) the code store. Copies are taken between and in the middle of
// transactions; original and copy then continue with different suffixes, each compared with
// its own model, and both are committed.
package main

import (
	"bytes"
	"fmt"
	"math/big"
	"math/rand"
	"runtime/debug"
	"strings"

	"github.com/ethereum/go-ethereum/common"
	"github.com/ethereum/go-ethereum/core/rawdb"
	"github.com/ethereum/go-ethereum/core/state"
	"github.com/ethereum/go-ethereum/core/stateless"
	"github.com/ethereum/go-ethereum/core/types"
	"github.com/ethereum/go-ethereum/trie"

	am "verif/lib/acctmodel"
	"verif/lib/refmpt"
	"verif/lib/refrlp"
	sd "verif/lib/sdbdrive"
	"verif/lib/vrt"
)

func main() { vrt.Main("C14", run) }

type hist struct {
	r        *vrt.Run
	idx      int
	env      *sd.Env
	fork     sd.Fork
	prefetch bool
	witness  bool // collect a stateless witness while executing (must not change any result)
	genesis  []sd.GenesisAccount
	ops      []sd.Op // ops of the main line (witness)
	copyOps  []sd.Op
	desc     []string
	fail     *sd.Failure
	counts   map[string]int
	copyKind string
	flatOK   bool
}

func (h *hist) failf(fp, format string, a ...any) {
	if h.fail == nil {
		h.fail = &sd.Failure{FP: fp, Msg: fmt.Sprintf(format, a...), At: len(h.ops)}
	}
}

func keccakH(b []byte) common.Hash { return common.BytesToHash(refmpt.Keccak(b)) }

// verifyReopen reads the committed state at root through every reader separately.
func (h *hist) verifyReopen(tag string, root common.Hash, m *am.State) {
	env := h.env
	// (a) composed reader
	s, err := state.New(root, env.DB)
	if err != nil {
		h.failf("reopen:"+tag+":state.New", "state.New(%x): %v", root, err)
		return
	}
	p := sd.NewPair(h.fork, s, m)
	p.CheckState() // logs and refunds are not part of the committed state
	h.counts["reopen.composed.reads"] += p.Stats["reads"]
	if p.Err != nil {
		h.failf("reopen:"+tag+":composed:"+p.Err.FP, "state.New(%x) %s", root, p.Err.Msg)
		return
	}
	if err := s.Error(); err != nil {
		h.failf("reopen:"+tag+":composed:dberr", "state.New(%x).Error() = %v", root, err)
		return
	}
	// (b) trie only
	tr, err := trie.NewStateTrie(trie.StateTrieID(root), env.TDB)
	if err != nil {
		h.failf("reopen:"+tag+":trie:open", "NewStateTrie(%x): %v", root, err)
		return
	}
	for _, a := range sd.Addrs {
		acc, err := tr.GetAccount(a)
		if err != nil {
			h.failf("reopen:"+tag+":trie:GetAccount", "GetAccount(%x): %v", a, err)
			return
		}
		macc := m.Accounts[sd.MA(a)]
		h.counts["reopen.trie.reads"]++
		if (acc == nil) != (macc == nil) {
			h.failf("reopen:"+tag+":trie:exist", "trie account %x present=%v, model present=%v", a, acc != nil, macc != nil)
			return
		}
		if acc == nil {
			continue
		}
		wantRoot := common.Hash(am.StorageRoot(macc.Storage))
		if acc.Nonce != macc.Nonce || acc.Balance.ToBig().Cmp(macc.Balance) != 0 || !bytes.Equal(acc.CodeHash, refmpt.Keccak(macc.Code)) || acc.Root != wantRoot {
			h.failf("reopen:"+tag+":trie:account", "trie account %x = {%d %v %x %x}, model {%d %v %x %x}", a, acc.Nonce, acc.Balance, acc.Root, acc.CodeHash, macc.Nonce, macc.Balance, wantRoot, refmpt.Keccak(macc.Code))
			return
		}
		st, err := trie.NewStateTrie(trie.StorageTrieID(root, keccakH(a[:]), acc.Root), env.TDB)
		if err != nil {
			h.failf("reopen:"+tag+":trie:openStorage", "storage trie of %x: %v", a, err)
			return
		}
		for _, k := range sd.Slots {
			v, err := st.GetStorage(a, k[:])
			if err != nil {
				h.failf("reopen:"+tag+":trie:GetStorage", "GetStorage(%x,%x): %v", a, k, err)
				return
			}
			h.counts["reopen.trie.reads"]++
			if want := macc.Storage[sd.MH(k)]; common.BytesToHash(v) != common.Hash(want) || (len(v) > 0 && v[0] == 0) {
				h.failf("reopen:"+tag+":trie:slot", "trie slot %x/%x = %x, model %x", a, k, v, want)
				return
			}
		}
		// (d) code
		if len(macc.Code) > 0 {
			h.counts["reopen.code.reads"]++
			if code := rawdb.ReadCode(env.Disk, common.BytesToHash(acc.CodeHash)); !bytes.Equal(code, macc.Code) {
				h.failf("reopen:"+tag+":code", "code of %x (hash %x) in store = %x, model %x", a, acc.CodeHash, code, macc.Code)
				return
			}
		}
	}
	// (c) flat state only
	type flat interface {
		Account(hash common.Hash) (*types.SlimAccount, error)
		Storage(accountHash, storageHash common.Hash) ([]byte, error)
	}
	var fr flat
	switch env.Kind {
	case sd.DBHashSnap:
		if sn := env.Snaps.Snapshot(root); sn != nil {
			fr = sn
		}
	case sd.DBPath, sd.DBPathSmall:
		if rd, err := env.TDB.StateReader(root); err == nil {
			fr = rd
		}
	default:
		return
	}
	if fr == nil {
		h.counts["reopen.flat.unavailable"]++
		return
	}
	for _, a := range sd.Addrs {
		acc, err := fr.Account(keccakH(a[:]))
		if err != nil {
			// not covered yet / stale layer: allowed, the composed reader falls back to the trie
			h.counts["reopen.flat.readerr"]++
			h.counts["reopen.flat.readerr["+tag+": "+err.Error()+"]"]++
			return
		}
		macc := m.Accounts[sd.MA(a)]
		h.counts["reopen.flat.reads"]++
		if (acc == nil) != (macc == nil) {
			h.failf("reopen:"+tag+":flat:exist", "flat account %x present=%v, model present=%v", a, acc != nil, macc != nil)
			return
		}
		if acc == nil {
			// slots of a non-existent account must be gone from the flat state too
			for _, k := range sd.Slots {
				if v, err := fr.Storage(keccakH(a[:]), keccakH(k[:])); err == nil && len(v) != 0 {
					h.failf("reopen:"+tag+":flat:orphan-slot", "flat slot %x/%x = %x although the account does not exist", a, k, v)
					return
				}
			}
			continue
		}
		wantRoot := am.StorageRoot(macc.Storage)
		gotRoot, gotCH := common.BytesToHash(acc.Root), acc.CodeHash
		if len(acc.Root) == 0 {
			gotRoot = types.EmptyRootHash
		}
		if len(gotCH) == 0 {
			gotCH = types.EmptyCodeHash[:]
		}
		if acc.Nonce != macc.Nonce || acc.Balance.ToBig().Cmp(macc.Balance) != 0 || !bytes.Equal(gotCH, refmpt.Keccak(macc.Code)) || gotRoot != common.Hash(wantRoot) {
			h.failf("reopen:"+tag+":flat:account", "flat account %x = {%d %v %x %x}, model {%d %v %x %x}", a, acc.Nonce, acc.Balance, gotRoot, gotCH, macc.Nonce, macc.Balance, wantRoot, refmpt.Keccak(macc.Code))
			return
		}
		for _, k := range sd.Slots {
			v, err := fr.Storage(keccakH(a[:]), keccakH(k[:]))
			if err != nil {
				h.counts["reopen.flat.readerr"]++
				h.counts["reopen.flat.readerr["+tag+": "+err.Error()+"]"]++
				return
			}
			h.counts["reopen.flat.reads"]++
			want := macc.Storage[sd.MH(k)]
			var got common.Hash
			if len(v) > 0 {
				it, err := refrlp.Decode(v)
				if err != nil || it.IsList || (len(it.Str) > 0 && it.Str[0] == 0) {
					h.failf("reopen:"+tag+":flat:slot-encoding", "flat slot %x/%x = %x is not a canonical RLP string of a trimmed value", a, k, v)
					return
				}
				got = common.BytesToHash(it.Str)
			}
			if got != common.Hash(want) {
				h.failf("reopen:"+tag+":flat:slot", "flat slot %x/%x = %x, model %x", a, k, got, want)
				return
			}
		}
	}
	h.flatOK = true
}

// checkUpdate compares the StateUpdate handed to the database layer with the model's states
// before and after the block: every changed account / slot must be present with the right
// post value and the right original value; whatever else is present must be consistent too.
func (h *hist) checkUpdate(tag string, u *state.StateUpdate, pre, post *am.State, rawKeys bool) {
	same := func(a, b *am.Account) bool {
		if a == nil || b == nil {
			return a == b
		}
		return a.Nonce == b.Nonce && a.Balance.Cmp(b.Balance) == 0 && bytes.Equal(a.Code, b.Code) && am.StorageRoot(a.Storage) == am.StorageRoot(b.Storage)
	}
	matches := func(sa *types.StateAccount, m *am.Account) bool {
		if sa == nil || m == nil {
			return (sa == nil) == (m == nil)
		}
		return sa.Nonce == m.Nonce && sa.Balance.ToBig().Cmp(m.Balance) == 0 && bytes.Equal(sa.CodeHash, refmpt.Keccak(m.Code)) && sa.Root == common.Hash(am.StorageRoot(m.Storage))
	}
	addrs := append(append([]common.Address{}, sd.Addrs...), sd.Coinbase)
	for _, a := range addrs {
		ah := keccakH(a[:])
		pa, qa := pre.Accounts[sd.MA(a)], post.Accounts[sd.MA(a)]
		data, inAcc := u.Accounts[ah]
		orig, inOrig := u.AccountsOrigin[a]
		h.counts["stateupdate.accounts"]++
		if !same(pa, qa) && (!inAcc || !inOrig) {
			h.failf(tag+":stateupdate:account-missing", "account %x changed in the block but StateUpdate has data=%v origin=%v", a, inAcc, inOrig)
			return
		}
		if inAcc != inOrig {
			h.failf(tag+":stateupdate:account-unpaired", "account %x: data present=%v, origin present=%v", a, inAcc, inOrig)
			return
		}
		if inAcc && !matches(data, qa) {
			h.failf(tag+":stateupdate:account-data", "account %x: StateUpdate data %+v does not match the post-block model account %+v", a, data, qa)
			return
		}
		if inOrig && !matches(orig, pa) {
			h.failf(tag+":stateupdate:account-origin", "account %x: StateUpdate origin %+v does not match the pre-block model account %+v", a, orig, pa)
			return
		}
		for _, k := range sd.Slots {
			var pv, qv am.Hash
			if pa != nil {
				pv = pa.Storage[sd.MH(k)]
			}
			if qa != nil {
				qv = qa.Storage[sd.MH(k)]
			}
			sh := keccakH(k[:])
			v, inS := u.Storages[ah][sh]
			ok := sh
			if rawKeys {
				ok = k
			}
			o, inO := u.StoragesOrigin[a][ok]
			h.counts["stateupdate.slots"]++
			if pv != qv && (!inS || !inO) {
				h.failf(tag+":stateupdate:slot-missing", "slot %x/%x changed %x -> %x but StateUpdate has value=%v origin=%v", a, k, pv, qv, inS, inO)
				return
			}
			if inS && v != common.Hash(qv) {
				h.failf(tag+":stateupdate:slot-data", "slot %x/%x: StateUpdate value %x, post-block model %x", a, k, v, qv)
				return
			}
			if inO && o != common.Hash(pv) {
				h.failf(tag+":stateupdate:slot-origin", "slot %x/%x: StateUpdate origin %x, pre-block model %x", a, k, o, pv)
				return
			}
		}
	}
}

// commit ends a block on pair p: optional explicit IntermediateRoot, Commit, comparison of the
// three roots, reader checks.
func (h *hist) commit(tag string, p *sd.Pair, pre *am.State, rng *rand.Rand, reward int64) (common.Hash, bool) {
	if p.InTx() {
		p.Exec(sd.Op{K: "end"})
	}
	p.Reward(reward)
	var ir common.Hash
	explicit := rng.Intn(2) == 0
	if explicit {
		ir = p.CheckRoot()
	}
	if p.Err != nil {
		h.fail = p.Err
		h.fail.FP = tag + ":" + h.fail.FP
		return common.Hash{}, false
	}
	var root common.Hash
	var upd *state.StateUpdate
	var err error
	if rng.Intn(3) == 0 {
		root, err = p.S.Commit(p.F.R, p.Block)
	} else {
		root, upd, err = p.S.CommitWithUpdate(p.F.R, p.Block)
	}
	h.counts["commits"]++
	if err != nil {
		h.failf(tag+":commit:error", "Commit(block %d) failed: %v", p.Block, err)
		return common.Hash{}, false
	}
	want := common.Hash(p.M.Root())
	if root != want {
		h.failf(tag+":root:Commit", "Commit root %x != model root %x", root, want)
		return root, false
	}
	if explicit && ir != root {
		h.failf(tag+":root:Commit-vs-IntermediateRoot", "Commit root %x != preceding IntermediateRoot %x", root, ir)
		return root, false
	}
	p.S.StopPrefetcher()
	if upd != nil {
		h.checkUpdate(tag, upd, pre, p.M, p.F.R.IsCancun)
	}
	h.verifyReopen(tag, root, p.M)
	return root, h.fail == nil
}

func (h *hist) run(rng *rand.Rand) {
	r := h.r
	p, fail := h.env.Start(h.fork, h.genesis)
	if fail != nil {
		h.fail = fail
		return
	}
	nblocks := 2 + rng.Intn(r.N(5, 12))
	type blk struct {
		root common.Hash
		m    *am.State
	}
	var blocks []blk
	var flushedRoot common.Hash

	for b := 0; b < nblocks && h.fail == nil; b++ {
		blockStart := p.M.Copy()
		if h.prefetch {
			var w *stateless.Witness
			if h.witness {
				w, _ = stateless.NewWitness(&types.Header{Number: new(big.Int).SetUint64(p.Block)}, nil, false)
			}
			p.S.StartPrefetcher("verif", w)
		}
		ntx := 1 + rng.Intn(4)
		// copy point for this block: 0 none, 1 between transactions, 2 mid-transaction
		copyMode, copyTx, copyOp := 0, 0, 0
		if rng.Intn(3) == 0 {
			copyMode, copyTx, copyOp = 1+rng.Intn(2), rng.Intn(ntx), rng.Intn(6)
		}
		var cp *sd.Pair
		var crng *rand.Rand
		takeCopy := func() {
			cp = p.CopyPair()
			crng = rand.New(rand.NewSource(rng.Int63()))
			h.counts["copies"]++
		}
		for t := 0; t < ntx && p.Err == nil; t++ {
			if copyMode == 1 && t == copyTx && cp == nil {
				takeCopy()
				h.copyKind = "between-tx"
			}
			cfg := sd.GenCfg{ReadLevel: rng.Intn(2), EndIRootPct: 20, Churn: true}
			midTaken := false
			if copyMode == 2 && t == copyTx && cp == nil {
				cfg.Hook = func(i int) {
					if i == copyOp && cp == nil {
						takeCopy()
						midTaken = true
						h.copyKind = "mid-tx"
						if p.Depth() > 0 {
							h.copyKind = "mid-tx-open-frames"
							h.counts["copies.open_frames"]++
							// Half of the time the original immediately unwinds the frames that were
							// open at the copy point (journal entries the copy still holds).
							if rng.Intn(2) == 0 {
								op := sd.Op{K: "retto", V: 0}
								if p.Exec(op) {
									h.ops = append(h.ops, op)
									h.counts["copies.original_unwinds"]++
								}
							}
						}
					}
				}
			}
			h.ops = sd.GenTx(p, rng, 3+rng.Intn(14), cfg, h.ops)
			if cp != nil && (midTaken || (copyMode == 1 && t == copyTx)) && cp.Err == nil {
				// The original has moved on; now the copy continues with its own suffix. Any
				// influence of the original's later mutations shows up against the copy's model.
				if rng.Intn(3) == 0 {
					cp.Exec(sd.Op{K: "rdall"})
				}
				h.copyOps = sd.GenTx(cp, crng, 3+crng.Intn(10), sd.GenCfg{ReadLevel: 1, EndIRootPct: 20, Churn: true}, h.copyOps)
				// ... and the original is compared again afterwards (influence of the copy).
				if !p.InTx() && rng.Intn(2) == 0 {
					p.Exec(sd.Op{K: "rdall"})
				}
			}
		}
		if p.Err != nil {
			h.fail = p.Err
			return
		}
		if cp != nil && cp.Err != nil {
			h.fail = cp.Err
			h.fail.FP = "copy:" + h.fail.FP
			return
		}
		// Commit original and copy in random order on the same database.
		var root common.Hash
		var ok bool
		first := rng.Intn(2) == 0
		if cp != nil && first {
			if _, ok = h.commit("copy", cp, blockStart, crng, 2); !ok {
				return
			}
		}
		if root, ok = h.commit("block", p, blockStart, rng, 1); !ok {
			return
		}
		if cp != nil && !first {
			if _, ok = h.commit("copy", cp, blockStart, crng, 2); !ok {
				return
			}
			// the copy's commit must not disturb the original's committed state
			h.verifyReopen("block-after-copy-commit", root, p.M)
		}
		blocks = append(blocks, blk{root, p.M.Copy()})
		// Occasionally push everything to disk (hash: nodes of this root; path: flatten all layers).
		if rng.Intn(5) == 0 {
			if err := h.env.TDB.Commit(root, false); err != nil {
				h.failf("triedb:commit", "triedb.Commit(%x): %v", root, err)
				return
			}
			h.counts["triedb.commit"]++
			flushedRoot = root

			h.verifyReopen("after-triedb-commit", root, p.M)
			if h.env.Kind == sd.DBPath || h.env.Kind == sd.DBPathSmall {
				blocks = blocks[len(blocks)-1:] // older layers are gone in the path scheme
			}
		}
		if h.fail != nil {
			return
		}
		s, err := state.New(root, h.env.DB)
		if err != nil {
			h.failf("reopen:next-block", "state.New(%x): %v", root, err)
			return
		}
		p.NextBlock(s)
	}
	// An older state must still read back correctly (hash scheme keeps all; path scheme keeps the layers).
	if h.fail == nil && len(blocks) > 1 {
		o := blocks[rng.Intn(len(blocks)-1)]
		h.verifyReopen("older-root", o.root, o.m)
		h.counts["reopen.older"]++
	}
	// Finally: persist the head state, drop the trie database and snapshot tree, open new ones
	// over the same key-value store and read the state back (what a restarted node sees).
	if h.fail == nil && len(blocks) > 0 && rng.Intn(2) == 0 {
		last := blocks[len(blocks)-1]
		if err := h.env.Reopen(last.root, last.root == flushedRoot); err != nil {
			h.failf("reopen:fresh-triedb:open", "persist + reopen of %x failed: %v", last.root, err)
		} else {
			h.verifyReopen("fresh-triedb", last.root, last.m)
			h.counts["reopen.fresh_triedb"]++
		}
	}
	for k, v := range p.Stats {
		h.counts[k] += v
	}
	h.desc = nil
	for k := range p.Resurrected {
		h.desc = append(h.desc, k)
	}
}

func run(r *vrt.Run) {
	r.Rule("history i: rule set Forks[i mod 10], database kind (hash / hash+snapshot tree / path / path with 4 KiB write buffer) = (i/10) mod 4, prefetcher on/off (a third of those with witness collection), start state empty or random committed state; 2-6 (thorough 2-13) blocks of 1-4 transactions of 3-16 ops from the C13 call-pattern generator with 20% destruction/re-creation bias, a coinbase credit per block, optional explicit IntermediateRoot before Commit, a fresh state.New per block; in 1/3 of the blocks a Copy() is taken between or in the middle of a transaction (possibly with open frames), the copy runs its own suffix and is committed as a sibling block before or after the original; occasional triedb.Commit; in half of the histories the head state is finally persisted and re-read through a newly opened trie database (and regenerated snapshot tree) over the same key-value store. non-trivial signature = (rule set, db kind, prefetcher, resurrection kinds seen, copy point kind)")
	n := r.N(600, 40000)
	if r.Race() {
		n = r.N(120, 4000)
	}
	vrt.Par(n, 0, func(i int) {
		rng := r.Rand("hist", i)
		h := &hist{r: r, idx: i, fork: sd.Forks[i%len(sd.Forks)], prefetch: rng.Intn(2) == 0, counts: map[string]int{}, copyKind: "none"}
		h.witness = h.prefetch && rng.Intn(3) == 0
		kind := (i / len(sd.Forks)) % sd.NDBKinds
		if rng.Intn(4) != 0 {
			h.genesis = sd.GenGenesis(h.fork, rng)
		}
		r.Case("hist %d fork=%s db=%s prefetch=%v witness=%v", i, h.fork.Name, sd.DBKindNames[kind], h.prefetch, h.witness)
		func() {
			h.env = sd.NewEnv(kind)
			defer h.env.Close()
			defer func() {
				if e := recover(); e != nil {
					st := string(debug.Stack())
					if len(st) > 2500 {
						st = st[:2500]
					}
					h.fail = &sd.Failure{FP: "panic:" + vrt.PanicSite(st), Msg: fmt.Sprintf("panic: %v\n%s", e, st)}
				}
			}()
			h.run(rng)
		}()
		if h.fail != nil {
			tail := h.ops
			if len(tail) > 400 {
				tail = tail[len(tail)-400:]
			}
			r.Violation(h.fail.FP, h.fail.Msg, map[string]any{"replay": fmt.Sprintf("VERIF_SEED=%d, history index %d", r.Seed, i), "fork": h.fork.Name, "db": sd.DBKindNames[kind], "prefetch": h.prefetch, "witness": h.witness,
				"genesis": h.genesis, "failure": h.fail, "main_line_ops_tail": tail, "copy_ops": h.copyOps, "copy_kind": h.copyKind})
			r.Eval("fail/" + h.fork.Name)
			return
		}
		for k, v := range h.counts {
			r.Count(k, v)
		}
		r.Count("hist.db."+sd.DBKindNames[kind], 1)
		if h.prefetch {
			r.Count("hist.prefetcher", 1)
		}
		if h.witness {
			r.Count("hist.witness", 1)
		}
		if h.copyKind != "none" {
			r.Count("hist.copy."+h.copyKind, 1)
		}
		for _, d := range h.desc {
			r.Count("hist.resurrect."+d, 1)
		}
		r.Eval(fmt.Sprintf("%s/%s/pf%v%v/res[%s]/copy-%s", h.fork.Name, sd.DBKindNames[kind], h.prefetch, h.witness, strings.Join(sorted(h.desc), ","), h.copyKind))
		if r.WantSample() && i%11 == 0 {
			ops := h.ops
			if len(ops) > 30 {
				ops = ops[:30]
			}
			r.Sample(map[string]any{"hist": i, "fork": h.fork.Name, "db": sd.DBKindNames[kind], "prefetch": h.prefetch, "copy": h.copyKind, "resurrections": h.desc, "commits": h.counts["commits"], "first_ops": ops})
		}
	})
	div := int64(1)
	if r.Race() {
		div = 6
	}
	r.Require("commits", 1500/div)
	r.Require("reopen.composed.reads", 100000/div)
	r.Require("reopen.trie.reads", 20000/div)
	r.Require("reopen.flat.reads", 10000/div)
	r.Require("reopen.code.reads", 1000/div)
	r.Require("copies", 300/div)
	r.Require("copies.open_frames", 20/div)
	r.Require("hist.prefetcher", 100/div)
	r.Require("hist.witness", 30/div)
	r.Require("resurrect.same_block", 30/div)
	r.Require("resurrect.same_block.had_storage", 10/div)
	r.Require("resurrect.later_block", 30/div)
	r.Require("triedb.commit", 50/div)
	r.Require("reopen.fresh_triedb", 100/div)
	for _, k := range sd.DBKindNames {
		r.Require("hist.db."+k, 20/div)
	}
	r.Assume("reference account model lib/acctmodel and reference trie lib/refmpt/refrlp; histories restricted to interpreter-issued call patterns (lib/sdbdrive)")
	r.Assume("witness collection is switched on in a third of the prefetcher histories only to show that it changes no root and no read (the witness content itself is not judged); UBT database type not covered; persistence across process restart is covered by the crash/reopen checks of the database layers, here the same triedb instance is re-read")
}

func sorted(s []string) []string {
	out := append([]string{}, s...)
	for i := range out {
		for j := i + 1; j < len(out); j++ {
			if out[j] < out[i] {
				out[i], out[j] = out[j], out[i]
			}
		}
	}
	return out
}
