package main

import (
	"fmt"
	"math/big"

	"github.com/ethereum/go-ethereum/common"
	"github.com/ethereum/go-ethereum/core/tracing"
	"github.com/ethereum/go-ethereum/core/types"
	"github.com/ethereum/go-ethereum/core/vm"
	"github.com/ethereum/go-ethereum/crypto"
	"github.com/ethereum/go-ethereum/params"
)

// ledger is an independent account-balance ledger driven by the tracing hooks.
//
//   - Every balance-change event (addr, prev, new, reason) must start from the ledger's current
//     balance of addr (otherwise some balance change happened without an event) and moves the
//     ledger to `new`.
//   - Events raised inside a call/create frame that exits with an error are undone (the state
//     transition reverts the frame's snapshot; the hooks do not report that).
//   - The end-of-transaction destruction of self-destructed accounts is NOT taken from the
//     events: at OnTxEnd the ledger applies the rule set itself —
//     before Cancun: every account that executed SELFDESTRUCT in a surviving frame loses its
//     whole end-of-transaction balance (this includes ether it received after the
//     self-destruct); Cancun..Osaka (EIP-6780): only if it was created in the same
//     transaction; Amsterdam (EIP-8246): nothing is burnt.
//     SELFDESTRUCT naming the account itself as beneficiary burns the balance at once before
//     Cancun, and for same-transaction contracts until Osaka; never in Amsterdam.
//     The burn events the implementation does emit are compared with these amounts.
type ledger struct {
	rules params.Rules
	pre   map[common.Hash]*big.Int
	cur   map[common.Address]*big.Int

	stack []*lframe // stack[0] is the transaction-level (or block-level) base frame
	inTx  bool
	tx    *ltx
	txs   []*ltx

	destroyed *big.Int // ether destroyed by self-destruction, by rule
	withdrawn *big.Int
	rewarded  *big.Int

	otherTouch     map[common.Address]bool // touched by anything else than gas purchase/return/fee/top-level value
	sender         map[common.Address]bool
	creditFinalize map[common.Address]*big.Int

	implBurns map[common.Address]*big.Int // burn events of the current transaction

	violations []lviol

	nDestructs, nBurnEnd, nBurnSelf, nReverted, nRevertedValue, nCreates, nEvents int
}

type lviol struct{ fp, msg string }

type undo struct {
	addr common.Address
	prev *big.Int
}

type destruct struct {
	who, beneficiary common.Address
	value            *big.Int
}

type lev struct {
	addr   common.Address
	delta  *big.Int
	reason tracing.BalanceChangeReason
}

type lframe struct {
	typ       byte
	undo      []undo
	events    []lev
	created   []common.Address
	destructs []destruct
	moved     bool // a non-zero balance event happened inside
}

type ltx struct {
	from                   common.Address
	value                  *big.Int
	gasBuy, gasReturn, fee *big.Int
	topDebitSeen           bool
	topReverted            bool // the top-level frame was reported as reverted
}

func newLedger(rules params.Rules, pre map[common.Hash]*big.Int) *ledger {
	return &ledger{rules: rules, pre: pre, cur: map[common.Address]*big.Int{}, stack: []*lframe{{}},
		destroyed: new(big.Int), withdrawn: new(big.Int), rewarded: new(big.Int),
		otherTouch: map[common.Address]bool{}, sender: map[common.Address]bool{}, creditFinalize: map[common.Address]*big.Int{}, implBurns: map[common.Address]*big.Int{}}
}

func (l *ledger) fail(fp, format string, a ...any) {
	if len(l.violations) < 5 {
		l.violations = append(l.violations, lviol{fp, fmt.Sprintf(format, a...)})
	}
}

func (l *ledger) balance(a common.Address) *big.Int {
	if b, ok := l.cur[a]; ok {
		return b
	}
	if b := l.pre[crypto.Keccak256Hash(a[:])]; b != nil {
		return b
	}
	return new(big.Int)
}

func (l *ledger) top() *lframe { return l.stack[len(l.stack)-1] }

func (l *ledger) hooks() *tracing.Hooks {
	return &tracing.Hooks{
		OnTxStart:       l.onTxStart,
		OnTxEnd:         l.onTxEnd,
		OnEnter:         l.onEnter,
		OnExit:          l.onExit,
		OnBalanceChange: l.onBalance,
	}
}

func (l *ledger) onTxStart(_ *tracing.VMContext, tx *types.Transaction, from common.Address) {
	if len(l.stack) != 1 {
		l.fail("frames-unbalanced", "transaction starts with %d open frames", len(l.stack)-1)
		l.stack = l.stack[:1]
	}
	*l.stack[0] = lframe{}
	l.inTx = true
	l.tx = &ltx{from: from, value: new(big.Int).Set(tx.Value()), gasBuy: new(big.Int), gasReturn: new(big.Int), fee: new(big.Int)}
	l.sender[from] = true
	l.implBurns = map[common.Address]*big.Int{}
}

func (l *ledger) onEnter(depth int, typ byte, from, to common.Address, _ []byte, _ uint64, value *big.Int) {
	f := &lframe{typ: typ}
	switch vm.OpCode(typ) {
	case vm.CREATE, vm.CREATE2:
		f.created = append(f.created, to)
	case vm.SELFDESTRUCT:
		v := new(big.Int)
		if value != nil {
			v.Set(value)
		}
		f.destructs = append(f.destructs, destruct{from, to, v})
	}
	l.stack = append(l.stack, f)
}

func (l *ledger) onExit(depth int, _ []byte, _ uint64, err error, reverted bool) {
	if len(l.stack) < 2 {
		l.fail("frames-unbalanced", "OnExit without OnEnter")
		return
	}
	f := l.top()
	l.stack = l.stack[:len(l.stack)-1]
	p := l.top()
	if len(l.stack) == 1 && l.inTx && l.tx != nil {
		l.tx.topReverted = reverted
	}
	if reverted {
		for i := len(f.undo) - 1; i >= 0; i-- {
			l.cur[f.undo[i].addr] = f.undo[i].prev
		}
		l.nReverted++
		if f.moved {
			l.nRevertedValue++
		}
		return
	}
	p.undo = append(p.undo, f.undo...)
	p.events = append(p.events, f.events...)
	p.created = append(p.created, f.created...)
	p.destructs = append(p.destructs, f.destructs...)
	p.moved = p.moved || f.moved
}

func (l *ledger) onBalance(a common.Address, prev, next *big.Int, reason tracing.BalanceChangeReason) {
	l.nEvents++
	if reason == tracing.BalanceDecreaseSelfdestructBurn {
		// reported by the implementation at the end of the transaction; the ledger decides
		// burns itself (onTxEnd) and only compares
		amt := new(big.Int).Sub(prev, next)
		if l.implBurns[a] == nil {
			l.implBurns[a] = new(big.Int)
		}
		l.implBurns[a].Add(l.implBurns[a], amt)
		return
	}
	have := l.balance(a)
	if have.Cmp(prev) != 0 {
		l.fail("event-prev-mismatch", "balance event for %v (reason %v): previous balance %v, but the ledger has %v: a balance change happened without an event (or a reverted frame was not rolled back)", a, reason, prev, have)
	}
	f := l.top()
	f.undo = append(f.undo, undo{a, have})
	nb := new(big.Int).Set(next)
	l.cur[a] = nb
	delta := new(big.Int).Sub(next, prev)
	if delta.Sign() != 0 {
		f.moved = true
	}
	f.events = append(f.events, lev{a, delta, reason})
}

// onTxEnd applies the rule-based burns and evaluates the per-transaction identities.
func (l *ledger) onTxEnd(receipt *types.Receipt, err error) {
	if err != nil {
		l.inTx = false
		return
	}
	if len(l.stack) != 1 {
		l.fail("frames-unbalanced", "transaction ends with %d open frames", len(l.stack)-1)
		l.stack = l.stack[:1]
	}
	base := l.stack[0]
	t := l.tx
	transfers := new(big.Int)
	sdSum := new(big.Int)
	for _, e := range base.events {
		switch e.reason {
		case tracing.BalanceDecreaseGasBuy:
			if e.addr == t.from {
				t.gasBuy.Sub(t.gasBuy, e.delta)
			} else {
				l.fail("gas-buy-wrong-account", "gas purchase debited %v, sender is %v", e.addr, t.from)
			}
		case tracing.BalanceIncreaseGasReturn:
			if e.addr == t.from {
				t.gasReturn.Add(t.gasReturn, e.delta)
			} else {
				l.fail("gas-return-wrong-account", "gas return credited %v, sender is %v", e.addr, t.from)
			}
		case tracing.BalanceIncreaseRewardTransactionFee:
			t.fee.Add(t.fee, e.delta)
		case tracing.BalanceChangeTransfer:
			transfers.Add(transfers, e.delta)
			if e.addr == t.from && !t.topDebitSeen && e.delta.Sign() <= 0 && new(big.Int).Neg(e.delta).Cmp(t.value) == 0 {
				t.topDebitSeen = true // the top-level value leaving the sender
			} else if e.delta.Sign() != 0 {
				l.otherTouch[e.addr] = true
			}
		case tracing.BalanceIncreaseSelfdestruct, tracing.BalanceDecreaseSelfdestruct:
			sdSum.Add(sdSum, e.delta)
			if e.delta.Sign() != 0 {
				l.otherTouch[e.addr] = true
			}
		case tracing.BalanceChangeTouchAccount:
			if e.delta.Sign() != 0 {
				l.fail("touch-moves-value", "touch event moved %v wei at %v", e.delta, e.addr)
			}
		default:
			if e.delta.Sign() != 0 {
				l.otherTouch[e.addr] = true
			}
		}
	}
	if transfers.Sign() != 0 {
		l.fail("transfers-not-zero-sum", "value-transfer events of a transaction sum to %v", transfers)
	}
	// ---- self-destruction by rule set ----------------------------------------------------
	created := map[common.Address]bool{}
	for _, a := range base.created {
		created[a] = true
	}
	l.nCreates += len(base.created)
	immediate := new(big.Int)
	destructed := map[common.Address]bool{}
	var order []common.Address
	for _, d := range base.destructs {
		l.nDestructs++
		// a self-destructed account may lose ether at the end of the transaction (e.g. the fee
		// paid to a self-destructed fee recipient): not "otherwise untouched" for E2/E3
		l.otherTouch[d.who] = true
		dies := !l.rules.IsCancun || created[d.who] // the account is really removed at the end
		if d.who == d.beneficiary && dies && !l.rules.IsAmsterdam {
			immediate.Add(immediate, d.value)
			if d.value.Sign() > 0 {
				l.nBurnSelf++
			}
		}
		if dies && !destructed[d.who] {
			destructed[d.who] = true
			order = append(order, d.who)
		}
	}
	// the self-destruct events must net to minus what was burnt at once
	if new(big.Int).Neg(sdSum).Cmp(immediate) != 0 {
		l.fail("selfdestruct-transfer", "self-destruct balance events net to %v, rule set says %v wei are burnt at once (beneficiary = self)", sdSum, new(big.Int).Neg(immediate))
	}
	l.destroyed.Add(l.destroyed, immediate)
	ruleBurns := map[common.Address]*big.Int{}
	if !l.rules.IsAmsterdam {
		for _, a := range order {
			b := l.balance(a)
			if b.Sign() > 0 {
				ruleBurns[a] = new(big.Int).Set(b)
				l.destroyed.Add(l.destroyed, b)
				l.cur[a] = new(big.Int)
				l.nBurnEnd++
			}
		}
	}
	// compare with the burn events of the implementation (Byzantium+: before that the
	// processor finalises through IntermediateRoot on the raw state and raises none)
	if l.rules.IsByzantium {
		for a, b := range ruleBurns {
			if ib := l.implBurns[a]; ib == nil || ib.Cmp(b) != 0 {
				l.fail("burn-event-mismatch", "account %v: rule set burns %v wei at the end of the transaction, burn event says %v", a, b, ib)
			}
		}
		for a, ib := range l.implBurns {
			if ruleBurns[a] == nil && ib.Sign() != 0 {
				l.fail("burn-event-unexpected", "burn event of %v wei for %v, which the rule set does not destroy", ib, a)
			}
		}
	}
	l.txs = append(l.txs, t)
	l.inTx = false
	*l.stack[0] = lframe{}
}

// finishBlock accounts the events raised after the last transaction (engine Finalize).
func (l *ledger) finishBlock() {
	for _, e := range l.stack[0].events {
		switch e.reason {
		case tracing.BalanceIncreaseWithdrawal:
			l.withdrawn.Add(l.withdrawn, e.delta)
		case tracing.BalanceIncreaseRewardMineBlock, tracing.BalanceIncreaseRewardMineUncle:
			l.rewarded.Add(l.rewarded, e.delta)
		default:
			if e.delta.Sign() != 0 {
				l.fail("unexpected-block-level-event", "balance event of %v wei at %v with reason %v outside any transaction", e.delta, e.addr, e.reason)
			}
			continue
		}
		if l.creditFinalize[e.addr] == nil {
			l.creditFinalize[e.addr] = new(big.Int)
		}
		l.creditFinalize[e.addr].Add(l.creditFinalize[e.addr], e.delta)
	}
}
