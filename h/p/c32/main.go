// C32: ether is conserved by block execution.
//
// Generated blocks (rule sets Frontier .. Amsterdam) are executed by the real
// core.StateProcessor.Process on generated pre-states. The harness takes full state dumps
// before and after (sum of all balances, balance per account) and runs an independent
// balance ledger fed by the tracing hooks (frame enter/exit, balance changes); see ledger.go.
//
// Judged per block:
//
//	E1  sum(post) - sum(pre) = withdrawals*1e9 + rewards - sum_tx baseFee*gasUsed
//	    - sum_tx blobGas*blobBaseFee - destroyed, where `destroyed` is computed by the harness
//	    from the rule set (ledger.go) and gasUsed comes from the receipts;
//	E2  every single-transaction sender that is otherwise untouched pays exactly
//	    gasUsed*effectivePrice + value (if the transaction succeeded) + blob fee;
//	E3  the fee recipient, if otherwise untouched, gains exactly sum gasUsed*effectiveTip
//	    (+ block reward before the merge);
//	E4  the ledger (effective balance-change events + rule-based burns) equals the post
//	    dump for every account, every event's `prev` equals the ledger balance (no balance
//	    changes without an event), value transfers sum to zero;
//	E5  per transaction: gas purchase - gas return = gasUsed*effectivePrice + blob fee and the
//	    fee payment = gasUsed*effectiveTip;
//	E6  withdrawals are credited with amount*1e9 wei, block/uncle rewards per the rule set.
package main

import (
	"context"
	"fmt"
	"math/big"
	"math/rand"

	"github.com/ethereum/go-ethereum/common"
	"github.com/ethereum/go-ethereum/core"
	"github.com/ethereum/go-ethereum/core/state"
	"github.com/ethereum/go-ethereum/core/types"
	"github.com/ethereum/go-ethereum/core/vm"
	"github.com/ethereum/go-ethereum/crypto"
	"github.com/ethereum/go-ethereum/params"
	"github.com/ethereum/go-ethereum/trie"
	"github.com/holiman/uint256"

	"verif/lib/execenv"
	"verif/lib/vrt"
)

func main() { vrt.Main("C32", run) }

func run(r *vrt.Run) {
	r.Rule("blocks of 1..10 valid transactions (legacy/access-list/dynamic-fee/blob/set-code; calls into 6 generated contracts that move value, create with endowment, self-destruct to self/fee recipient/fresh/existing accounts, revert and fail; plain transfers, transfers creating accounts, creations) on generated pre-states, rule sets Frontier..Amsterdam, with withdrawals (Shanghai+), uncles (pre-merge), fee recipient being fresh / EOA / sender / contract; executed by StateProcessor.Process. non-trivial signature = (rule set, self-destruct pattern seen, failing tx present, blob tx present, withdrawals/uncles present, fee recipient kind)")
	n := r.N(1500, 100000)
	if r.Race() {
		n /= 8
	}
	vrt.Par(n, 0, func(i int) { block(r, i) })
	r.Require("blocks_judged", int64(n)*8/10)
	r.Require("tx_total", int64(n)*3)
	r.Require("selfdestructs_effective", 100)
	r.Require("burn_end_of_tx", 20)
	r.Require("burn_self_beneficiary", 10)
	r.Require("tx_failed", 100)
	r.Require("tx_blob", 20)
	r.Require("withdrawals", 100)
	r.Require("single_sender_equations", 500)
	r.Require("coinbase_equations", 300)
	r.Require("frames_reverted_with_value", 50)
	r.Require("blocks_parallel", int64(n)/10)
	r.Assume("full state dumps (state.DumpToCollector over the committed tries) list every account")
	r.Assume("frame enter/exit and balance-change hooks are used to learn which frames reverted and which accounts self-destructed; amounts burnt are decided by the harness from the rule set")
}

var allForks = []execenv.Fork{execenv.Frontier, execenv.Homestead, execenv.Tangerine, execenv.Spurious, execenv.Byzantium, execenv.Petersburg,
	execenv.Istanbul, execenv.Berlin, execenv.London, execenv.Paris, execenv.Shanghai, execenv.Cancun, execenv.Prague, execenv.Osaka, execenv.Amsterdam}

func pickFork(rng *rand.Rand) execenv.Fork {
	// newer rule sets get more weight
	switch k := rng.Intn(20); {
	case k < 5:
		return execenv.Amsterdam
	case k < 7:
		return execenv.Osaka
	case k < 9:
		return execenv.Prague
	case k < 11:
		return execenv.Cancun
	}
	return allForks[rng.Intn(len(allForks))]
}

var ether = new(big.Int).Exp(big.NewInt(10), big.NewInt(18), nil)

type txInfo struct {
	Type    uint8  `json:"type"`
	From    string `json:"from"`
	To      string `json:"to"`
	Gas     uint64 `json:"gas"`
	Value   string `json:"value"`
	FeeCap  string `json:"fee_cap"`
	Tip     string `json:"tip"`
	Data    string `json:"data"`
	Blobs   int    `json:"blobs,omitempty"`
	GasUsed uint64 `json:"gas_used,omitempty"`
	Status  uint64 `json:"status"`
}

func block(r *vrt.Run, idx int) {
	rng := r.Rand("block", idx)
	fork := pickFork(rng)
	chain := execenv.NewChain(fork)
	const nSenders = 12
	w, alloc, _ := execenv.BuildWorld(rng, fork, execenv.WorldOpts{Senders: nSenders, Tag: byte(idx), ProggenShare: 5})

	// fee recipient
	cbKind := "fresh"
	switch k := rng.Intn(20); {
	case k < 10:
	case k < 13:
		_, w.Coinbase = execenv.Key(101)
		cbKind = "eoa"
	case k < 16:
		_, w.Coinbase = execenv.Key(rng.Intn(nSenders))
		cbKind = "sender"
	case k < 19:
		w.Coinbase = w.Contracts[rng.Intn(len(w.Contracts))]
		cbKind = "contract"
	default:
		w.Coinbase = w.Fresh[0]
		cbKind = "fresh-shared"
	}
	// the programs were generated with the default coinbase constant; regenerate a few so
	// that the actual fee recipient is a call / self-destruct target as well
	for i := range w.Contracts {
		if rng.Intn(3) == 0 {
			p := execenv.GenProgram(rng, w, execenv.GenOpts{MaxStmts: 4 + rng.Intn(8)})
			acc := alloc[w.Contracts[i]]
			acc.Code = p.Code
			alloc[w.Contracts[i]] = acc
		}
	}
	// scenario contracts: ether arriving at an account after it self-destructed
	if rng.Intn(5) < 2 {
		var ben common.Address
		switch rng.Intn(4) {
		case 0:
			ben = w.Contracts[5] // itself
		case 1:
			ben = w.Coinbase
		case 2:
			ben = w.Fresh[rng.Intn(len(w.Fresh))]
		default:
			ben = w.EOAs[rng.Intn(len(w.EOAs))]
		}
		set := func(i int, code []byte) {
			acc := alloc[w.Contracts[i]]
			acc.Code = code
			if acc.Balance.IsZero() {
				acc.Balance = uint256.NewInt(1_000_000_000_000_000_000)
			}
			alloc[w.Contracts[i]] = acc
		}
		set(5, execenv.Kamikaze(ben))
		set(4, execenv.DoubleTap(w.Contracts[5], uint64(1+rng.Intn(1_000_000))))
		if fork >= execenv.Petersburg || rng.Intn(2) == 0 {
			fb := ben
			if rng.Intn(3) == 0 {
				fb = w.Contracts[3]
			}
			set(3, execenv.FactoryDoubleTap(fb, uint64(1+rng.Intn(1_000_000)), fork >= execenv.Petersburg && rng.Intn(2) == 0))
		}
	}
	// ---- transactions (plan first: sender balances depend on it) -------------------------
	hp := execenv.HeaderParams{Coinbase: w.Coinbase, Random: common.Hash{0x52, byte(idx)}, GasLimit: 30_000_000 + uint64(rng.Intn(30_000_000))}
	hp.BaseFee = big.NewInt(int64(7 + rng.Intn(50_000_000_000)))
	if rng.Intn(4) == 0 {
		hp.BaseFee = big.NewInt(7)
	}
	hp.ExcessBlobGas = uint64(rng.Intn(4)) * 4_000_000

	cfg := chain.Cfg
	// rules do not depend on the parent root
	tmpHeader := chain.Header(fork, hp)
	rules := chain.Rules(tmpHeader)
	signer := types.MakeSigner(cfg, tmpHeader.Number, tmpHeader.Time)
	blobBaseFee := new(big.Int)
	if rules.IsCancun {
		blobBaseFee = core.NewEVMBlockContext(tmpHeader, chain, nil).BlobBaseFee
	}
	baseFee := new(big.Int)
	if rules.IsLondon {
		baseFee.Set(hp.BaseFee)
	}

	type plan struct {
		tx     *types.Transaction
		sender int
		info   txInfo
	}
	var (
		plans    []plan
		nonces   = map[int]uint64{}
		gasSum   uint64
		ntx      = 1 + rng.Intn(10)
		txCount  = map[int]int{}
		needs    = map[int]*big.Int{} // worst-case spend per sender
		hasBlob  bool
		sawFresh = map[common.Address]bool{}
	)
	for j := 0; j < ntx; j++ {
		si := rng.Intn(nSenders)
		_, from := execenv.Key(si)
		var (
			to     *common.Address
			data   []byte
			create bool
		)
		switch k := rng.Intn(20); {
		case k < 11:
			a := w.Contracts[rng.Intn(len(w.Contracts))]
			to = &a
		case k < 13:
			a := w.EOAs[rng.Intn(len(w.EOAs))]
			to = &a
		case k < 15:
			a := w.Fresh[rng.Intn(len(w.Fresh))]
			to = &a
			sawFresh[a] = true
		case k < 16:
			a := w.Coinbase
			to = &a
		default:
			create = true
		}
		if create {
			data = execenv.GenInitCode(rng, w, execenv.GenOpts{}).Code
		} else {
			data = make([]byte, rng.Intn(50))
			rng.Read(data)
			if len(data) > 0 {
				data[0] = byte(rng.Intn(4))
			}
			if len(data) > 1 && rng.Intn(2) == 0 {
				data[1] = 0
			}
		}
		value := new(big.Int)
		switch rng.Intn(4) {
		case 0:
			value.SetInt64(int64(1 + rng.Intn(1_000_000)))
		case 1:
			value.Mul(big.NewInt(int64(1+rng.Intn(100))), big.NewInt(1_000_000_000_000_000))
		}
		tip := big.NewInt(int64(rng.Intn(3_000_000_000)))
		if rng.Intn(4) == 0 {
			tip.SetInt64(0)
		}
		feeCap := new(big.Int).Add(baseFee, tip)
		switch rng.Intn(3) {
		case 0:
			feeCap.Add(feeCap, big.NewInt(int64(1+rng.Intn(1_000_000_000)))) // cap above the effective price
		case 1:
			if tip.Sign() > 0 {
				feeCap.Sub(feeCap, big.NewInt(int64(rng.Intn(int(min(tip.Int64(), 1_000_000)))))) // cap binds
			}
		}
		if !rules.IsLondon && feeCap.Sign() == 0 && rng.Intn(2) == 0 {
			feeCap.SetInt64(int64(1 + rng.Intn(1000)))
		}
		var al types.AccessList
		txType := uint8(types.LegacyTxType)
		switch {
		case rules.IsPrague && !create && rng.Intn(8) == 0:
			txType = types.SetCodeTxType
		case rules.IsCancun && !create && rng.Intn(6) == 0:
			txType = types.BlobTxType
		case rules.IsLondon && rng.Intn(3) > 0:
			txType = types.DynamicFeeTxType
		case rules.IsBerlin && rng.Intn(3) == 0:
			txType = types.AccessListTxType
		}
		if txType != types.LegacyTxType && rng.Intn(3) == 0 {
			al = types.AccessList{{Address: w.Contracts[rng.Intn(len(w.Contracts))], StorageKeys: []common.Hash{{}, common.BigToHash(big.NewInt(1))}}}
		}
		var auths []types.SetCodeAuthorization
		if txType == types.SetCodeTxType {
			for q := 0; q < 1+rng.Intn(2); q++ {
				ak := 200 + rng.Intn(4)
				if rng.Intn(3) == 0 {
					ak = 100 + rng.Intn(3)
				}
				key, _ := execenv.Key(ak)
				target := w.Contracts[rng.Intn(len(w.Contracts))]
				auth, err := types.SignSetCode(key, types.SetCodeAuthorization{ChainID: *uint256.MustFromBig(cfg.ChainID), Address: target, Nonce: uint64(rng.Intn(2))})
				if err == nil {
					auths = append(auths, auth)
				}
			}
		}
		var blobHashes []common.Hash
		if txType == types.BlobTxType {
			for q := 0; q < 1+rng.Intn(3); q++ {
				blobHashes = append(blobHashes, common.Hash{0x01, byte(q), byte(idx)})
			}
		}
		v256 := uint256.MustFromBig(value)
		intrinsic, err := core.IntrinsicGas(data, al, auths, from, to, v256, rules)
		if err != nil {
			continue
		}
		var floor uint64
		if rules.IsPrague {
			floor, _ = core.FloorDataGas(rules, from, to, v256, data, al)
		}
		minGas := max(intrinsic, floor)
		var gas uint64
		switch k := rng.Intn(10); {
		case k < 6:
			gas = minGas + 100_000 + uint64(rng.Intn(2_000_000))
		case k < 8:
			gas = minGas + uint64(rng.Intn(50_000))
		case k < 9:
			gas = minGas
		default:
			gas = minGas + 20_000 + uint64(rng.Intn(200_000))
		}
		if rules.IsOsaka && gas > params.MaxTxGas {
			gas = params.MaxTxGas
		}
		if gasSum+gas > hp.GasLimit {
			break
		}
		price := new(big.Int).Set(feeCap)
		var txdata types.TxData
		switch txType {
		case types.LegacyTxType:
			txdata = &types.LegacyTx{Nonce: nonces[si], GasPrice: price, Gas: gas, To: to, Value: value, Data: data}
		case types.AccessListTxType:
			txdata = &types.AccessListTx{ChainID: cfg.ChainID, Nonce: nonces[si], GasPrice: price, Gas: gas, To: to, Value: value, Data: data, AccessList: al}
		case types.DynamicFeeTxType:
			txdata = &types.DynamicFeeTx{ChainID: cfg.ChainID, Nonce: nonces[si], GasTipCap: tip, GasFeeCap: feeCap, Gas: gas, To: to, Value: value, Data: data, AccessList: al}
		case types.BlobTxType:
			txdata = &types.BlobTx{ChainID: uint256.MustFromBig(cfg.ChainID), Nonce: nonces[si], GasTipCap: uint256.MustFromBig(tip), GasFeeCap: uint256.MustFromBig(feeCap), Gas: gas, To: *to, Value: v256, Data: data, AccessList: al,
				BlobFeeCap: uint256.MustFromBig(new(big.Int).Add(blobBaseFee, big.NewInt(int64(rng.Intn(1000))))), BlobHashes: blobHashes}
			hasBlob = true
		case types.SetCodeTxType:
			txdata = &types.SetCodeTx{ChainID: uint256.MustFromBig(cfg.ChainID), Nonce: nonces[si], GasTipCap: uint256.MustFromBig(tip), GasFeeCap: uint256.MustFromBig(feeCap), Gas: gas, To: *to, Value: v256, Data: data, AccessList: al, AuthList: auths}
		}
		if txType == types.LegacyTxType || txType == types.AccessListTxType {
			// gas price must cover the base fee
			if price.Cmp(baseFee) < 0 {
				continue
			}
		}
		if feeCap.Cmp(tip) < 0 || feeCap.Cmp(baseFee) < 0 {
			continue
		}
		key, _ := execenv.Key(si)
		tx, err := types.SignNewTx(key, signer, txdata)
		if err != nil {
			r.Inconclusive("signing: %v", err)
			return
		}
		need := new(big.Int).Mul(new(big.Int).SetUint64(gas), feeCap)
		need.Add(need, value)
		if len(blobHashes) > 0 {
			bf := new(big.Int).Mul(big.NewInt(int64(len(blobHashes)*params.BlobTxBlobGasPerBlob)), tx.BlobGasFeeCap())
			need.Add(need, bf)
		}
		if needs[si] == nil {
			needs[si] = new(big.Int)
		}
		needs[si].Add(needs[si], need)
		toStr := "create"
		if to != nil {
			toStr = to.Hex()
		}
		plans = append(plans, plan{tx: tx, sender: si, info: txInfo{Type: txType, From: from.Hex(), To: toStr, Gas: gas, Value: value.String(), FeeCap: feeCap.String(), Tip: tip.String(), Data: vrt.Hex(data), Blobs: len(blobHashes)}})
		nonces[si]++
		txCount[si]++
		gasSum += gas
	}
	// sender balances: a third of the senders get exactly what they need at worst plus a
	// small surplus, the others are rich
	for si, need := range needs {
		_, a := execenv.Key(si)
		if rng.Intn(3) == 0 {
			b := new(big.Int).Add(need, big.NewInt(int64(rng.Intn(3))))
			alloc[a] = execenv.Account{Balance: uint256.MustFromBig(b)}
		}
	}
	if cbKind == "fresh" && rng.Intn(3) == 0 {
		alloc[w.Coinbase] = execenv.Account{Balance: uint256.NewInt(12345)}
	}
	statedb, preRoot, err := execenv.NewState(alloc, fork >= execenv.Prague)
	if err != nil {
		r.Inconclusive("state: %v", err)
		return
	}
	db := statedb.Database()
	chain.Parent.Root = preRoot
	header := chain.Header(fork, hp)

	// ---- body ---------------------------------------------------------------------------
	body := &types.Body{}
	for _, p := range plans {
		body.Transactions = append(body.Transactions, p.tx)
	}
	var wdTotal = new(big.Int)
	if rules.IsShanghai {
		body.Withdrawals = []*types.Withdrawal{}
		for q := 0; q < rng.Intn(5); q++ {
			var a common.Address
			switch rng.Intn(5) {
			case 0:
				a = w.Fresh[rng.Intn(len(w.Fresh))]
			case 1:
				a = w.Contracts[rng.Intn(len(w.Contracts))]
			case 2:
				a = w.Coinbase
			case 3:
				_, a = execenv.Key(rng.Intn(nSenders))
			default:
				a = w.EOAs[rng.Intn(len(w.EOAs))]
			}
			var amt uint64
			switch rng.Intn(5) {
			case 0:
				amt = 0
			case 1:
				amt = 1
			case 2:
				amt = ^uint64(0)
			default:
				amt = uint64(rng.Int63n(1 << 40))
			}
			body.Withdrawals = append(body.Withdrawals, &types.Withdrawal{Index: uint64(q), Validator: uint64(q), Address: a, Amount: amt})
			wdTotal.Add(wdTotal, new(big.Int).Mul(new(big.Int).SetUint64(amt), big.NewInt(params.GWei)))
		}
	}
	if fork < execenv.Paris {
		for q := 0; q < rng.Intn(3); q++ {
			u := &types.Header{Number: big.NewInt(0), Difficulty: big.NewInt(131072), Extra: []byte{byte(q)}}
			switch rng.Intn(3) {
			case 0:
				u.Coinbase = w.Coinbase
			case 1:
				u.Coinbase = w.Fresh[rng.Intn(len(w.Fresh))]
			default:
				u.Coinbase = w.EOAs[rng.Intn(len(w.EOAs))]
			}
			body.Uncles = append(body.Uncles, u)
		}
	}
	blk := types.NewBlock(header, body, nil, trie.NewStackTrie(nil))
	r.Case("block %d fork %s txs %d", idx, fork, len(plans))

	// ---- pre dump -----------------------------------------------------------------------
	preSum, prePer, err := execenv.BalanceSum(db, preRoot)
	if err != nil {
		r.Inconclusive("pre dump: %v", err)
		return
	}
	led := newLedger(rules, prePer)
	witness := func() map[string]any {
		var txs []txInfo
		for _, p := range plans {
			txs = append(txs, p.info)
		}
		return map[string]any{"block_index": idx, "fork": fork.String(), "coinbase": w.Coinbase.Hex(), "coinbase_kind": cbKind, "base_fee": baseFee.String(), "blob_base_fee": blobBaseFee.String(), "txs": txs, "withdrawals": len(body.Withdrawals), "uncles": len(body.Uncles)}
	}
	// ---- execute --------------------------------------------------------------------------
	proc := core.NewStateProcessor(chain)
	res, err := proc.Process(context.Background(), blk, statedb, nil, nil, vm.Config{Tracer: led.hooks()}, nil)
	if err != nil {
		r.Count("blocks_invalid", 1)
		r.Logf("block %d (%s) invalid: %v", idx, fork, err)
		r.Eval("")
		return
	}
	if len(res.Receipts) != len(plans) {
		r.Violation("receipts-count", fmt.Sprintf("%d receipts for %d transactions", len(res.Receipts), len(plans)), witness())
		return
	}
	postRoot, err := statedb.Commit(rules, header.Number.Uint64())
	if err != nil {
		r.Inconclusive("commit: %v", err)
		return
	}
	postSum, postPer, err := execenv.BalanceSum(db, postRoot)
	if err != nil {
		r.Inconclusive("post dump: %v", err)
		return
	}
	for i := range plans {
		plans[i].info.GasUsed = res.Receipts[i].GasUsed
		plans[i].info.Status = res.Receipts[i].Status
	}
	led.finishBlock()
	r.Count("blocks_judged", 1)
	r.Count("tx_total", len(plans))

	// ---- E5/E6 and the tx-level part of E1 ---------------------------------------------------
	burnedFees := new(big.Int)
	tipTotal := new(big.Int)
	failed := false
	for i, p := range plans {
		rc := res.Receipts[i]
		tx := p.tx
		effPrice := new(big.Int).Set(tx.GasPrice())
		if rules.IsLondon {
			effPrice = new(big.Int).Add(baseFee, tx.GasTipCap())
			if effPrice.Cmp(tx.GasFeeCap()) > 0 {
				effPrice.Set(tx.GasFeeCap())
			}
		}
		effTip := new(big.Int).Sub(effPrice, baseFee)
		gasUsed := new(big.Int).SetUint64(rc.GasUsed)
		blobFee := new(big.Int)
		if n := len(tx.BlobHashes()); n > 0 {
			blobFee.Mul(big.NewInt(int64(n*params.BlobTxBlobGasPerBlob)), blobBaseFee)
			r.Count("tx_blob", 1)
		}
		burnedFees.Add(burnedFees, new(big.Int).Mul(gasUsed, baseFee))
		burnedFees.Add(burnedFees, blobFee)
		tipTotal.Add(tipTotal, new(big.Int).Mul(gasUsed, effTip))
		if rc.Status == types.ReceiptStatusFailed {
			failed = true
			r.Count("tx_failed", 1)
		}
		if i < len(led.txs) {
			t := led.txs[i]
			wantPaid := new(big.Int).Mul(gasUsed, effPrice)
			wantPaid.Add(wantPaid, blobFee)
			if paid := new(big.Int).Sub(t.gasBuy, t.gasReturn); paid.Cmp(wantPaid) != 0 {
				r.Violation("tx-gas-payment", fmt.Sprintf("tx %d: sender paid %v for gas (bought %v, returned %v), want gasUsed %d * effective price %v + blob fee %v = %v", i, paid, t.gasBuy, t.gasReturn, rc.GasUsed, effPrice, blobFee, wantPaid), witness())
			}
			if wantFee := new(big.Int).Mul(gasUsed, effTip); t.fee.Cmp(wantFee) != 0 {
				r.Violation("tx-fee-payment", fmt.Sprintf("tx %d: fee recipient got %v, want gasUsed %d * effective tip %v = %v", i, t.fee, rc.GasUsed, effTip, wantFee), witness())
			}
		}
	}
	if len(led.txs) != len(plans) {
		r.Violation("tx-hooks", fmt.Sprintf("%d OnTxStart/OnTxEnd pairs for %d transactions", len(led.txs), len(plans)), witness())
	}
	// rewards by rule set
	rewards := new(big.Int)
	if fork < execenv.Paris {
		R := new(big.Int).Mul(big.NewInt(5), ether)
		if fork >= execenv.Byzantium {
			R.Mul(big.NewInt(3), ether)
		}
		if fork >= execenv.Petersburg {
			R.Mul(big.NewInt(2), ether)
		}
		rewards.Add(rewards, R)
		for range body.Uncles {
			// uncle number 0 in block 1: (0+8-1)/8 of the reward; the miner gets 1/32 more
			rewards.Add(rewards, new(big.Int).Div(new(big.Int).Mul(R, big.NewInt(7)), big.NewInt(8)))
			rewards.Add(rewards, new(big.Int).Div(R, big.NewInt(32)))
		}
	}
	if led.withdrawn.Cmp(wdTotal) != 0 {
		r.Violation("withdrawal-amount", fmt.Sprintf("withdrawals credited %v wei, body says %v wei", led.withdrawn, wdTotal), witness())
	}
	if led.rewarded.Cmp(rewards) != 0 {
		r.Violation("reward-amount", fmt.Sprintf("rewards credited %v wei, rule set says %v wei", led.rewarded, rewards), witness())
	}
	r.Count("withdrawals", len(body.Withdrawals))

	// ---- E1 ------------------------------------------------------------------------------------
	want := new(big.Int).Add(wdTotal, rewards)
	want.Sub(want, burnedFees)
	want.Sub(want, led.destroyed)
	got := new(big.Int).Sub(postSum, preSum)
	if got.Cmp(want) != 0 {
		r.Violation("conservation", fmt.Sprintf("sum(post)-sum(pre) = %v, want withdrawals %v + rewards %v - burnt fees %v - destroyed %v = %v (difference %v)", got, wdTotal, rewards, burnedFees, led.destroyed, want, new(big.Int).Sub(got, want)), witness())
	}
	// ---- E4 ------------------------------------------------------------------------------------
	for _, v := range led.violations {
		r.Violation(v.fp, v.msg, witness())
	}
	seen := map[common.Hash]bool{}
	for a, b := range led.cur {
		h := crypto.Keccak256Hash(a[:])
		seen[h] = true
		post := postPer[h]
		if post == nil {
			post = new(big.Int)
		}
		if post.Cmp(b) != 0 {
			r.Violation("ledger-vs-state", fmt.Sprintf("account %v: state balance %v, ledger (events + rule-based burns) %v", a, post, b), witness())
			break
		}
	}
	for h, b := range postPer {
		if seen[h] {
			continue
		}
		p := prePer[h]
		if p == nil {
			p = new(big.Int)
		}
		if p.Cmp(b) != 0 {
			r.Violation("silent-balance-change", fmt.Sprintf("account with address hash %v changed from %v to %v without any balance-change event", h, p, b), witness())
			break
		}
	}
	for h, p := range prePer {
		if !seen[h] && postPer[h] == nil && p.Sign() != 0 {
			r.Violation("silent-balance-change", fmt.Sprintf("account with address hash %v (balance %v) vanished without any balance-change event", h, p), witness())
			break
		}
	}
	// ---- E2 ------------------------------------------------------------------------------------
	bal := func(m map[common.Hash]*big.Int, a common.Address) *big.Int {
		if b := m[crypto.Keccak256Hash(a[:])]; b != nil {
			return b
		}
		return new(big.Int)
	}
	for i, p := range plans {
		_, from := execenv.Key(p.sender)
		if txCount[p.sender] != 1 || from == w.Coinbase || led.otherTouch[from] || led.creditFinalize[from] != nil {
			continue
		}
		rc := res.Receipts[i]
		tx := p.tx
		effPrice := new(big.Int).Set(tx.GasPrice())
		if rules.IsLondon {
			effPrice = new(big.Int).Add(baseFee, tx.GasTipCap())
			if effPrice.Cmp(tx.GasFeeCap()) > 0 {
				effPrice.Set(tx.GasFeeCap())
			}
		}
		wantPay := new(big.Int).Mul(new(big.Int).SetUint64(rc.GasUsed), effPrice)
		if n := len(tx.BlobHashes()); n > 0 {
			wantPay.Add(wantPay, new(big.Int).Mul(big.NewInt(int64(n*params.BlobTxBlobGasPerBlob)), blobBaseFee))
		}
		// the value moves iff the top-level frame survives; before Homestead a creation whose
		// code deposit runs out of gas is reported as failed but is not rolled back
		moved := rc.Status == types.ReceiptStatusSuccessful || (fork < execenv.Homestead && i < len(led.txs) && !led.txs[i].topReverted)
		if moved && (tx.To() == nil || *tx.To() != from) {
			wantPay.Add(wantPay, tx.Value())
		}
		paid := new(big.Int).Sub(bal(prePer, from), bal(postPer, from))
		if paid.Cmp(wantPay) != 0 {
			r.Violation("sender-payment", fmt.Sprintf("sender %v of tx %d paid %v, want gasUsed*price + value + blob fee = %v", from, i, paid, wantPay), witness())
		}
		r.Count("single_sender_equations", 1)
	}
	// ---- E3 ------------------------------------------------------------------------------------
	if !led.otherTouch[w.Coinbase] && !led.sender[w.Coinbase] {
		wantGain := new(big.Int).Set(tipTotal)
		cf := led.creditFinalize[w.Coinbase]
		if cf == nil {
			cf = new(big.Int)
		}
		wantGain.Add(wantGain, cf)
		gain := new(big.Int).Sub(bal(postPer, w.Coinbase), bal(prePer, w.Coinbase))
		if gain.Cmp(wantGain) != 0 {
			r.Violation("coinbase-gain", fmt.Sprintf("fee recipient gained %v, want sum gasUsed*tip %v + rewards/withdrawals to it %v", gain, tipTotal, cf), witness())
		}
		r.Count("coinbase_equations", 1)
	}
	// ---- Amsterdam: the same block through the parallel processor ---------------------------------
	// (no tracer; the block carries the access list produced by the sequential run). The post
	// state must hold the same balances, hence satisfy the same conservation equation.
	if rules.IsAmsterdam && res.Bal != nil {
		st2, err := state.New(preRoot, db)
		if err != nil {
			r.Inconclusive("reopen pre-state: %v", err)
			return
		}
		blk2 := blk.WithAccessList(res.Bal.ToEncodingObj())
		res2, err := proc.Process(context.Background(), blk2, st2, nil, nil, vm.Config{}, nil)
		if err != nil {
			r.Violation("parallel-rejects", fmt.Sprintf("parallel processor rejects the block the sequential processor executed: %v", err), witness())
		} else {
			root2, err := st2.Commit(rules, header.Number.Uint64())
			if err != nil {
				r.Inconclusive("commit (parallel): %v", err)
				return
			}
			sum2, per2, err := execenv.BalanceSum(db, root2)
			if err != nil {
				r.Inconclusive("dump (parallel): %v", err)
				return
			}
			if got2 := new(big.Int).Sub(sum2, preSum); got2.Cmp(want) != 0 {
				r.Violation("conservation-parallel", fmt.Sprintf("parallel processor: sum(post)-sum(pre) = %v, want %v", got2, want), witness())
			}
			for h, b := range postPer {
				if c := per2[h]; c == nil || c.Cmp(b) != 0 {
					r.Violation("parallel-balance", fmt.Sprintf("account hash %v: sequential balance %v, parallel %v", h, b, c), witness())
					break
				}
			}
			if len(per2) != len(postPer) {
				r.Violation("parallel-balance", fmt.Sprintf("parallel post-state has %d accounts, sequential %d", len(per2), len(postPer)), witness())
			}
			for i := range res2.Receipts {
				if i < len(res.Receipts) && res2.Receipts[i].GasUsed != res.Receipts[i].GasUsed {
					r.Violation("parallel-gas", fmt.Sprintf("tx %d: gas used %d sequential, %d parallel", i, res.Receipts[i].GasUsed, res2.Receipts[i].GasUsed), witness())
					break
				}
			}
			if res2.Bal != nil {
				if h1, h2 := blk2.AccessList().Hash(), res2.Bal.ToEncodingObj().Hash(); h1 != h2 {
					r.Violation("parallel-access-list", fmt.Sprintf("access list rebuilt by the parallel execution (%v) differs from the sequential one (%v): the executions disagree on some post-transaction balance/nonce/code/storage", h2, h1), witness())
				}
			}
			r.Count("blocks_parallel", 1)
		}
	}
	// ---- evidence --------------------------------------------------------------------------------
	r.Count("selfdestructs_effective", led.nDestructs)
	r.Count("burn_end_of_tx", led.nBurnEnd)
	r.Count("burn_self_beneficiary", led.nBurnSelf)
	r.Count("frames_reverted", led.nReverted)
	r.Count("frames_reverted_with_value", led.nRevertedValue)
	r.Count("creates_effective", led.nCreates)
	r.Count("balance_events", led.nEvents)
	r.Count("wei_destroyed_nonzero_blocks", b2i(led.destroyed.Sign() > 0))
	r.Count("blocks_"+fork.String(), 1)
	sd := "none"
	switch {
	case led.nBurnEnd > 0 && led.nBurnSelf > 0:
		sd = "burn-both"
	case led.nBurnEnd > 0:
		sd = "burn-end"
	case led.nBurnSelf > 0:
		sd = "burn-self"
	case led.nDestructs > 0:
		sd = "noburn"
	}
	r.Eval(fmt.Sprintf("%s/sd-%s/failed%v/blob%v/wd%v/uncles%v/cb-%s", fork, sd, failed, hasBlob, len(body.Withdrawals) > 0, len(body.Uncles) > 0, cbKind))
	if idx < 5 && r.WantSample() {
		s := witness()
		s["sum_pre"], s["sum_post"], s["destroyed"], s["burnt_fees"] = preSum.String(), postSum.String(), led.destroyed.String(), burnedFees.String()
		r.Sample(s)
	}
}

func b2i(b bool) int {
	if b {
		return 1
	}
	return 0
}
