// C06: trie root and contents depend only on the key-value set.
//
// Runtime differential monitor: random operation histories (Update, Update with empty value,
// Delete, UpdateBatch below/above the parallel threshold, Hash, Copy, Commit+reopen) are
// applied to go-ethereum's trie and to a shadow map; at random points and at the end of each
// history the trie is judged against the reference trie (lib/refmpt) built directly from the
// map: root hash, Get over the whole key pool, leaf iteration order, StackTrie root.
package main

import (
	"bytes"
	"fmt"
	"math/rand"
	"runtime"
	"sort"
	"sync/atomic"

	"github.com/ethereum/go-ethereum/common"
	"github.com/ethereum/go-ethereum/trie"
	"github.com/ethereum/go-ethereum/triedb/database"

	"verif/lib/refmpt"
	"verif/lib/sched"
	"verif/lib/trieh"
	"verif/lib/vrt"
)

func main() { vrt.Main("C06", run) }

var (
	workerStarts    atomic.Int64 // passages of the yield point at the start of an UpdateBatch worker
	predictedGroups atomic.Int64 // sum over predicted-parallel batches of the number of first-nibble groups
)

type opRec struct {
	op   string
	keys [][]byte
	vals [][]byte
}

// hist is one history: the trie under test, the shadow map and bookkeeping.
type hist struct {
	r      *vrt.Run
	idx    int
	phase  string
	rng    *rand.Rand
	sp     *trieh.Space
	backed bool
	store  *trieh.Store
	tr     *trie.Trie
	m      map[string][]byte
	log    []opRec
	lastOp string

	unhashed int // mirror of Trie.unhashed

	// optional fork produced by Copy()
	side    *trie.Trie
	sideM   map[string][]byte
	sideLog int // log length at fork time

	// shape facts for the signature
	sawParallel, sawFallbackSurv, sawFallbackRoot, sawCollapse, sawResolveInWorker, sawParHash bool
	sawCopy, sawReopen, sawDelAll                                                              bool
	failed                                                                                     bool
	cnt                                                                                        map[string]int
}

func (h *hist) witness(extra map[string]any) map[string]any {
	ops := make([]any, 0, len(h.log))
	budget := 400000
	for _, o := range h.log {
		ks := make([]string, len(o.keys))
		vs := make([]string, len(o.vals))
		for i := range o.keys {
			ks[i] = vrt.Hex(o.keys[i])
			budget -= len(ks[i])
		}
		for i := range o.vals {
			vs[i] = vrt.Hex(o.vals[i])
			budget -= len(vs[i])
		}
		ops = append(ops, map[string]any{"op": o.op, "keys": ks, "vals": vs})
		if budget < 0 {
			ops = append(ops, "…truncated (replay with the seed)")
			break
		}
	}
	w := map[string]any{"history": h.idx, "phase": h.phase, "space": h.sp.Name, "valclass": h.sp.ValClass, "backed": h.backed,
		"fork_at_op": h.sideLog, "ops": ops, "replay": fmt.Sprintf("VERIF_SEED=%d, stream %q index %d", h.r.Seed, h.phase, h.idx)}
	for k, v := range extra {
		w[k] = v
	}
	return w
}

func (h *hist) violation(fp, msg string, extra map[string]any) {
	h.failed = true
	h.r.Violation(fp, fmt.Sprintf("history %s/%d space=%s backed=%v after %d ops (last %s): %s", h.phase, h.idx, h.sp.Name, h.backed, len(h.log), h.lastOp, msg), h.witness(extra))
}

// count accumulates counters locally (flushed once per history: the shared counter map is
// behind one mutex).
func (h *hist) count(name string, n int) { h.cnt[name] += n }

func (h *hist) flush() {
	for k, v := range h.cnt {
		h.r.Count(k, v)
	}
	h.cnt = map[string]int{}
}

func (h *hist) rec(op string, keys, vals [][]byte) {
	h.log = append(h.log, opRec{op, keys, vals})
	h.lastOp = op
}

func (h *hist) db() database.NodeDatabase { return h.store }

// applyShadow applies one write to a shadow map (empty value = deletion).
func applyShadow(m map[string][]byte, k, v []byte) {
	if len(v) == 0 {
		delete(m, string(k))
	} else {
		m[string(k)] = v
	}
}

func (h *hist) update(k, v []byte) {
	h.rec("update", [][]byte{k}, [][]byte{v})
	if err := h.tr.Update(k, v); err != nil {
		h.violation("op-error/update", err.Error(), nil)
	}
	applyShadow(h.m, k, v)
	h.unhashed++
	h.count("op_update", 1)
	if len(v) == 0 {
		h.count("op_update_empty_value", 1)
	}
}

func (h *hist) delete(k []byte) {
	h.rec("delete", [][]byte{k}, nil)
	if err := h.tr.Delete(k); err != nil {
		h.violation("op-error/delete", err.Error(), nil)
	}
	delete(h.m, string(k))
	h.unhashed++
	h.count("op_delete", 1)
}

// predictBatch tells from the shadow map (i.e. from the specification of UpdateBatch's
// preconditions, not from the trie) whether a batch takes the concurrent path.
func predictBatch(m map[string][]byte, keys, vals [][]byte) (path string, groups int) {
	shape, children := trieh.RootShape(m)
	if shape != "full" {
		return "seq-root-" + shape, 0
	}
	if len(keys) < 4 {
		return "seq-small", 0
	}
	var deleted, touched [17]bool
	for i, k := range keys {
		nb := 16
		if len(k) > 0 {
			nb = int(k[0] >> 4)
		}
		touched[nb] = true
		if len(vals[i]) == 0 {
			deleted[nb] = true
		}
	}
	surv := 0
	for i := range children {
		if children[i] && !deleted[i] {
			surv++
		}
	}
	if surv < 2 {
		return fmt.Sprintf("seq-survivors%d", surv), 0
	}
	for _, t := range touched {
		if t {
			groups++
		}
	}
	return "parallel", groups
}

func (h *hist) batch(keys, vals [][]byte, tag string) {
	h.rec("batch:"+tag, keys, vals)
	path, groups := predictBatch(h.m, keys, vals)
	// one-by-one twin on a copy (differential: UpdateBatch == sequential application)
	var twin *trie.Trie
	if h.rng.Intn(3) == 0 {
		twin = h.tr.Copy()
	}
	before := h.store.Reads.Load()
	shapeBefore, childrenBefore := trieh.RootShape(h.m)
	if err := h.tr.UpdateBatch(keys, vals); err != nil {
		h.violation("op-error/batch-"+path, err.Error(), nil)
	}
	resolved := h.store.Reads.Load() - before
	for i := range keys {
		applyShadow(h.m, keys[i], vals[i])
	}
	h.unhashed += len(keys)
	h.count("batch_"+path, 1)
	h.count(fmt.Sprintf("batch_size_%s", sizeClass(len(keys))), 1)
	switch {
	case path == "parallel":
		h.sawParallel = true
		predictedGroups.Add(int64(groups))
		h.count("batch_parallel_groups", groups)
		if resolved > 0 {
			h.sawResolveInWorker = true
			h.count("hashnode_resolutions_in_parallel_batches", int(resolved))
			h.count("batches_parallel_resolving", 1)
		}
		// did a whole root child disappear while the root stayed a branch?
		_, childrenAfter := trieh.RootShape(h.m)
		for i := range childrenBefore {
			if childrenBefore[i] && !childrenAfter[i] {
				h.count("parallel_root_child_emptied", 1)
				break
			}
		}
	case len(path) > 13 && path[:13] == "seq-survivors":
		h.sawFallbackSurv = true
	default:
		h.sawFallbackRoot = true
	}
	if shapeAfter, _ := trieh.RootShape(h.m); shapeBefore == "full" && shapeAfter != "full" {
		h.sawCollapse = true
		h.count("batch_root_collapses", 1)
	}
	if twin != nil {
		for i := range keys {
			if err := twin.Update(keys[i], vals[i]); err != nil {
				h.violation("op-error/twin-update", err.Error(), nil)
			}
		}
		hb, ht := h.tr.Hash(), twin.Hash()
		h.unhashed = 0
		h.count("batch_vs_sequential_twins", 1)
		if hb != ht {
			h.violation("batch-vs-sequential/"+path, fmt.Sprintf("UpdateBatch root %x, one-by-one root %x", hb, ht), nil)
		}
	}
}

func sizeClass(n int) string {
	switch {
	case n < 4:
		return "lt4"
	case n == 4:
		return "4"
	case n <= 8:
		return "5to8"
	case n <= 99:
		return "9to99"
	default:
		return "ge100"
	}
}

// checkHash compares the trie root with the reference root of the shadow map.
func (h *hist) checkHash(tr *trie.Trie, m map[string][]byte, who string) *refmpt.Trie {
	ref := refmpt.Build(m)
	var got common.Hash
	if who == "main" {
		if h.unhashed >= 100 {
			h.count("hash_with_unhashed_ge100", 1)
			h.sawParHash = true
		}
		h.unhashed = 0
	}
	got = tr.Hash()
	h.count("hash_checks", 1)
	if !bytes.Equal(got[:], ref.Root) {
		h.violation("root-vs-reference/"+who, fmt.Sprintf("%s trie root %x, reference root of the %d-entry map %x", who, got, len(ref.Sorted), ref.Root),
			map[string]any{"map": trieh.HexMap(m, 300)})
	}
	return ref
}

// fullCheck judges root, lookups, iteration and the StackTrie root.
func (h *hist) fullCheck(tr *trie.Trie, m map[string][]byte, who string) {
	ref := h.checkHash(tr, m, who)
	// lookups: every pool key (present or absent) plus a few foreign keys
	probe := func(k []byte) {
		v, err := tr.Get(k)
		if err != nil {
			h.violation("op-error/get", err.Error(), map[string]any{"key": vrt.Hex(k)})
			return
		}
		want := m[string(k)]
		if !bytes.Equal(v, want) {
			h.violation("get-vs-map/"+who, fmt.Sprintf("Get(%x)=%x, map has %x", k, v, want), map[string]any{"key": vrt.Hex(k)})
		}
	}
	keys := h.sp.Keys
	if len(keys) > 300 {
		// all present keys + a sample of the pool
		for _, kv := range ref.Sorted {
			probe(kv.K)
		}
		h.count("get_checks", len(ref.Sorted))
		keys = keys[:0:0]
		for i := 0; i < 100; i++ {
			keys = append(keys, h.sp.Key(h.rng))
		}
	}
	for _, k := range keys {
		probe(k)
		if h.rng.Intn(8) == 0 && len(k) > 0 {
			// neighbours outside the pool: extension, truncation, last byte +1
			probe(append(common.CopyBytes(k), byte(h.rng.Intn(256))))
			probe(k[:len(k)-1])
			k2 := common.CopyBytes(k)
			k2[len(k2)-1]++
			probe(k2)
		}
	}
	h.count("get_checks", len(keys))

	// leaf iteration
	pf, fixed := trieh.Classify(trieh.MapKeys(m))
	nit, err := tr.NodeIterator(nil)
	if err != nil {
		h.violation("op-error/iterator", err.Error(), nil)
		return
	}
	it := trie.NewIterator(nit)
	var got []refmpt.KV
	for it.Next() {
		got = append(got, refmpt.KV{K: common.CopyBytes(it.Key), V: common.CopyBytes(it.Value)})
	}
	if it.Err != nil {
		h.violation("op-error/iterator", it.Err.Error(), nil)
	}
	if who == "main" {
		h.unhashed = 0 // the iterator hashes the trie
	}
	h.count("iterations", 1)
	h.count("iterated_leaves", len(got))
	if !pf {
		// Key sets in which one key is a prefix of another (legal for the raw trie, never
		// produced by the secure trie): the traversal order is the order of nibble paths
		// with terminator, which differs from byte order exactly for such pairs. Only the
		// leaf set is judged there.
		h.count("iterations_prefix_keys_set_only", 1)
		sort.SliceStable(got, func(i, j int) bool { return bytes.Compare(got[i].K, got[j].K) < 0 })
	}
	if msg := cmpKVs(got, ref.Sorted); msg != "" {
		h.violation("iteration-vs-map/"+who, msg, map[string]any{"map": trieh.HexMap(m, 300)})
	}
	// iteration from a start key (prefix-free sets): entries > start, optionally preceded
	// by the entry == start (the doc comment says "after", the implementation is inclusive)
	if pf && len(ref.Sorted) > 0 && h.rng.Intn(2) == 0 {
		start := h.sp.Key(h.rng)
		if fixed == 0 || h.rng.Intn(4) == 0 {
			start = common.CopyBytes(start)
			if len(start) > 0 {
				start[len(start)-1] += byte(h.rng.Intn(3))
			}
		}
		nit, err := tr.NodeIterator(start)
		if err == nil {
			it := trie.NewIterator(nit)
			var got []refmpt.KV
			for it.Next() {
				got = append(got, refmpt.KV{K: common.CopyBytes(it.Key), V: common.CopyBytes(it.Value)})
			}
			if len(got) > 0 && bytes.Equal(got[0].K, start) {
				got = got[1:]
			}
			var want []refmpt.KV
			for _, kv := range ref.Sorted {
				if bytes.Compare(kv.K, start) > 0 {
					want = append(want, kv)
				}
			}
			h.count("seek_iterations", 1)
			if msg := cmpKVs(got, want); msg != "" {
				h.violation("seek-iteration-vs-map/"+who, fmt.Sprintf("start %x: %s", start, msg), map[string]any{"start": vrt.Hex(start), "map": trieh.HexMap(m, 300)})
			}
		}
	}
	// StackTrie on its documented domain: strictly ascending fixed-length keys, non-empty values
	if fixed > 0 || len(ref.Sorted) == 0 {
		st := trie.NewStackTrie(nil)
		refused := 0
		for i, kv := range ref.Sorted {
			if err := st.Update(kv.K, kv.V); err != nil {
				h.violation("stacktrie-error", fmt.Sprintf("ascending insert %d refused: %v", i, err), nil)
			}
			// out-of-order / duplicate / empty-value inserts must be refused and leave no trace
			if h.rng.Intn(6) == 0 {
				j := h.rng.Intn(i + 1)
				err := st.Update(ref.Sorted[j].K, []byte{1, 2, 3})
				if err == nil {
					h.violation("stacktrie-accepts-out-of-order", fmt.Sprintf("key %x accepted after %x", ref.Sorted[j].K, kv.K), nil)
				}
				if err := st.Update(kv.K, nil); err == nil {
					h.violation("stacktrie-accepts-empty-value", "empty value accepted", nil)
				}
				refused++
			}
		}
		got := st.Hash()
		h.count("stacktrie_checks", 1)
		h.count("stacktrie_refused_inserts", refused)
		if !bytes.Equal(got[:], ref.Root) {
			h.violation("stacktrie-root-vs-reference", fmt.Sprintf("StackTrie root %x, reference %x (%d entries, %d refused inserts interleaved)", got, ref.Root, len(ref.Sorted), refused), map[string]any{"map": trieh.HexMap(m, 300)})
		}
	}
}

func cmpKVs(got, want []refmpt.KV) string {
	for i := 0; i < len(got) && i < len(want); i++ {
		if !bytes.Equal(got[i].K, want[i].K) {
			return fmt.Sprintf("leaf %d: key %x, expected %x (got %d leaves, expected %d)", i, got[i].K, want[i].K, len(got), len(want))
		}
		if !bytes.Equal(got[i].V, want[i].V) {
			return fmt.Sprintf("leaf %d key %x: value %x, expected %x", i, got[i].K, got[i].V, want[i].V)
		}
	}
	if len(got) != len(want) {
		return fmt.Sprintf("%d leaves, expected %d", len(got), len(want))
	}
	return ""
}

// reopen commits the trie into the path store and reopens it at the new root, so that
// the following operations (and parallel workers) resolve hash nodes.
func (h *hist) reopen() {
	h.finishSide()
	h.rec("commit+reopen", nil, nil)
	root, set := h.tr.Commit(h.rng.Intn(2) == 0)
	h.store.Apply(set)
	h.unhashed = 0
	ref := refmpt.Build(h.m)
	if !bytes.Equal(root[:], ref.Root) {
		h.violation("root-vs-reference/commit", fmt.Sprintf("Commit root %x, reference %x", root, ref.Root), map[string]any{"map": trieh.HexMap(h.m, 300)})
	}
	tr, err := trie.New(trie.TrieID(root), h.db())
	if err != nil {
		h.violation("reopen-error", err.Error(), nil)
		// continue on a fresh store so that the history stays meaningful
		h.store = trieh.NewStore()
		tr = trie.NewEmpty(h.db())
		for k, v := range h.m {
			tr.MustUpdate([]byte(k), v)
		}
	}
	h.tr = tr
	h.sawReopen = true
	h.count("reopens", 1)
}

// finishSide evolves the fork a little and judges it.
func (h *hist) finishSide() {
	if h.side == nil {
		return
	}
	n := h.rng.Intn(6)
	for i := 0; i < n; i++ {
		k := h.sp.Key(h.rng)
		var v []byte
		if h.rng.Intn(2) == 0 {
			v = h.sp.Val(h.rng)
		}
		h.rec("side-update", [][]byte{k}, [][]byte{v})
		if err := h.side.Update(k, v); err != nil {
			h.violation("op-error/side-update", err.Error(), nil)
		}
		applyShadow(h.sideM, k, v)
	}
	h.rec("side-check", nil, nil)
	h.fullCheck(h.side, h.sideM, "copy")
	h.count("copy_checks", 1)
	h.side, h.sideM = nil, nil
}

// genBatch builds a batch of the requested size.
func (h *hist) genBatch(size int, mode string) (keys, vals [][]byte) {
	switch mode {
	case "empty-root-children":
		// delete everything below all but s root children (s in 0..2); pad with writes into
		// surviving children / absent keys so that the size threshold is passed
		_, children := trieh.RootShape(h.m)
		var present []int
		for i, c := range children {
			if c {
				present = append(present, i)
			}
		}
		h.rng.Shuffle(len(present), func(i, j int) { present[i], present[j] = present[j], present[i] })
		s := h.rng.Intn(3)
		if s > len(present) {
			s = len(present)
		}
		keep := map[int]bool{}
		for _, p := range present[:s] {
			keep[p] = true
		}
		nib := func(k []byte) int {
			if len(k) == 0 {
				return 16
			}
			return int(k[0] >> 4)
		}
		for k := range h.m {
			if !keep[nib([]byte(k))] {
				keys = append(keys, []byte(k))
				vals = append(vals, nil)
			}
		}
		// deterministic order, then shuffle with the case rng
		sort.Slice(keys, func(i, j int) bool { return bytes.Compare(keys[i], keys[j]) < 0 })
		h.rng.Shuffle(len(keys), func(i, j int) { keys[i], keys[j] = keys[j], keys[i] })
		for tries := 0; len(keys) < size && tries < 8*size; tries++ {
			k := h.sp.Key(h.rng)
			if keep[nib(k)] {
				keys = append(keys, k)
				vals = append(vals, h.sp.Val(h.rng))
			}
		}
		h.rng.Shuffle(len(keys), func(i, j int) { keys[i], keys[j] = keys[j], keys[i]; vals[i], vals[j] = vals[j], vals[i] })
	default:
		delPct := 30 + h.rng.Intn(40)
		if mode == "inserts" {
			delPct = 0
		}
		for i := 0; i < size; i++ {
			k := h.sp.Key(h.rng)
			if i > 0 && h.rng.Intn(10) == 0 {
				k = keys[h.rng.Intn(i)] // duplicate key inside the batch
			}
			var v []byte
			if h.rng.Intn(100) >= delPct {
				v = h.sp.Val(h.rng)
			} else if h.rng.Intn(2) == 0 {
				v = []byte{}
			}
			keys = append(keys, k)
			vals = append(vals, v)
		}
	}
	return
}

var batchSizes = []int{1, 3, 4, 5, 64, 500}

func runHistory(r *vrt.Run, phase string, idx int) {
	rng := r.Rand(phase, idx)
	kind := trieh.SpaceKinds[idx%len(trieh.SpaceKinds)]
	pool := []int{6, 40, 200, 1200}[rng.Intn(4)]
	if r.Race() && pool > 400 {
		pool = 400
	}
	h := &hist{r: r, idx: idx, phase: phase, rng: rng, sp: trieh.NewSpace(rng, kind, pool), m: map[string][]byte{}, store: trieh.NewStore(), cnt: map[string]int{}}
	h.backed = rng.Intn(2) == 0
	r.Case("C06 %s history %d space=%s pool=%d backed=%v", phase, idx, kind, len(h.sp.Keys), h.backed)
	h.tr = trie.NewEmpty(h.db())

	panicked := r.Guard("C06", map[string]any{"history": idx, "phase": phase, "space": kind}, func() {
		// initial fill
		fill := []int{0, 30, 80, 100}[rng.Intn(4)]
		if fill > 0 {
			var ks, vs [][]byte
			for _, k := range h.sp.Keys {
				if rng.Intn(100) < fill {
					ks = append(ks, k)
					vs = append(vs, h.sp.Val(rng))
				}
			}
			if len(ks) > 0 {
				h.batch(ks, vs, "fill")
			}
		}
		if h.backed {
			h.reopen()
		}
		nops := 1 + rng.Intn(40)
		switch rng.Intn(10) {
		case 0:
			nops = 1 + rng.Intn(400)
		case 1, 2:
			nops = 1 + rng.Intn(120)
		}
		if r.Race() && nops > 60 {
			nops = 60
		}
		for o := 0; o < nops && !h.failed; o++ {
			switch x := rng.Intn(100); {
			case x < 22:
				h.update(h.sp.Key(rng), h.sp.Val(rng))
			case x < 30:
				// overwrite an existing key with the very same value
				if k, v, ok := pickEntry(rng, h.m); ok {
					h.update(k, v)
					h.count("op_overwrite_same_value", 1)
				}
			case x < 40:
				v := []byte(nil)
				if rng.Intn(2) == 0 {
					v = []byte{}
				}
				if k, _, ok := pickEntry(rng, h.m); ok && rng.Intn(3) != 0 {
					h.update(k, v)
				} else {
					h.update(h.sp.Key(rng), v)
				}
			case x < 55:
				if k, _, ok := pickEntry(rng, h.m); ok && rng.Intn(4) != 0 {
					h.delete(k)
				} else {
					h.delete(h.sp.Key(rng))
				}
			case x < 78:
				size := batchSizes[rng.Intn(len(batchSizes))]
				if r.Race() && size == 500 {
					size = 120
				}
				mode := []string{"mixed", "mixed", "inserts", "empty-root-children"}[rng.Intn(4)]
				ks, vs := h.genBatch(size, mode)
				if len(ks) > 0 {
					h.batch(ks, vs, mode)
				}
			case x < 84:
				h.rec("hash", nil, nil)
				h.checkHash(h.tr, h.m, "main")
			case x < 88:
				if k := h.sp.Key(rng); true {
					v, err := h.tr.Get(k)
					if err != nil {
						h.violation("op-error/get", err.Error(), nil)
					} else if !bytes.Equal(v, h.m[string(k)]) {
						h.violation("get-vs-map/main", fmt.Sprintf("Get(%x)=%x, map has %x", k, v, h.m[string(k)]), nil)
					}
					h.count("get_checks", 1)
				}
			case x < 91:
				// Copy: one of the two continues as the main line, the other is judged later
				h.finishSide()
				h.rec("copy", nil, nil)
				c := h.tr.Copy()
				h.sideM = trieh.CloneMap(h.m)
				h.sideLog = len(h.log)
				if rng.Intn(2) == 0 {
					h.side = c
				} else {
					h.side, h.tr = h.tr, c
				}
				h.sawCopy = true
				h.count("copies", 1)
			case x < 95:
				if h.backed {
					h.reopen()
				}
			case x < 98:
				// delete everything, then re-insert
				h.sawDelAll = true
				h.count("delete_all", 1)
				var ks [][]byte
				for k := range h.m {
					ks = append(ks, []byte(k))
				}
				sort.Slice(ks, func(i, j int) bool { return bytes.Compare(ks[i], ks[j]) < 0 })
				rng.Shuffle(len(ks), func(i, j int) { ks[i], ks[j] = ks[j], ks[i] })
				if rng.Intn(2) == 0 && len(ks) > 0 {
					h.batch(ks, make([][]byte, len(ks)), "delete-all")
				} else {
					for _, k := range ks {
						h.delete(k)
					}
				}
				h.rec("hash", nil, nil)
				h.checkHash(h.tr, h.m, "main")
				if h.backed && rng.Intn(2) == 0 {
					h.reopen()
				}
				for _, k := range ks {
					if rng.Intn(4) != 0 {
						h.update(k, h.sp.Val(rng))
					}
				}
			default:
				// length mismatch must be refused without touching the trie
				err := h.tr.UpdateBatch([][]byte{h.sp.Key(rng)}, nil)
				if err == nil {
					h.violation("batch-length-mismatch-accepted", "UpdateBatch(1 key, 0 values) returned nil", nil)
				}
			}
		}
		if !h.failed {
			h.finishSide()
		}
		if !h.failed {
			h.rec("final-check", nil, nil)
			h.fullCheck(h.tr, h.m, "main")
		}
	})
	h.flush()
	if panicked {
		return
	}
	// signature: the shape of the history
	pf, fixed := trieh.Classify(trieh.MapKeys(h.m))
	sig := fmt.Sprintf("%s/%s/backed%v/par%v/fbS%v/fbR%v/collapse%v/resolve%v/parhash%v/copy%v/reopen%v/delall%v/final%s/pf%v/fixed%v",
		kind, h.sp.ValClass, h.backed, h.sawParallel, h.sawFallbackSurv, h.sawFallbackRoot, h.sawCollapse, h.sawResolveInWorker, h.sawParHash,
		h.sawCopy, h.sawReopen, h.sawDelAll, sizeClass(len(h.m)), pf, fixed > 0)
	r.Eval(sig)
	h.count("histories", 1)
	h.count("ops", len(h.log))
	h.flush()
	if r.WantSample() && len(h.log) > 3 && len(h.log) < 30 {
		w := h.witness(nil)
		w["final_root"] = vrt.Hex(refmpt.Build(h.m).Root)
		w["signature"] = sig
		r.Sample(w)
	}
}

func pickEntry(rng *rand.Rand, m map[string][]byte) (k, v []byte, ok bool) {
	if len(m) == 0 {
		return nil, nil, false
	}
	// deterministic choice: smallest key >= a random probe (map order is random)
	ks := make([]string, 0, len(m))
	for k := range m {
		ks = append(ks, k)
	}
	sort.Strings(ks)
	s := ks[rng.Intn(len(ks))]
	return []byte(s), m[s], true
}

func run(r *vrt.Run) {
	r.Rule("a case is one random operation history over a key pool (families: 1-3-byte keys over 4 symbols incl. prefix keys, dense fixed 2/3/4-byte keys, random and prefix-sharing 32-byte keys, mixed-length keys incl. the empty key; value classes tiny/edge/long/mixed), memory-only or backed by a committed node store; non-trivial signature = (key family, value class, backed, parallel batch path taken, survivors<2 fallback, non-branch-root fallback, root collapse in a batch, hash nodes resolved inside workers, Hash with >=100 unhashed updates, Copy, commit+reopen, delete-all+reinsert, final size class, prefix-free, fixed-length)")
	ctrl := sched.New(uint64(r.Seed)*7919 + 13)
	if !r.Race() {
		ctrl.Intensity = 25
	}
	trie.VerifYieldHook = func(p string) {
		workerStarts.Add(1)
		ctrl.Hook(p)
	}
	n := r.N(5000, 100000)
	if r.Race() {
		n = r.N(800, 15000)
	}
	vrt.Par(n, 0, func(i int) { runHistory(r, "main", i) })

	// other degrees of real parallelism
	procs := runtime.GOMAXPROCS(0)
	for _, p := range []int{2, 1} {
		runtime.GOMAXPROCS(p)
		k := n / 20
		vrt.Par(k, p, func(i int) { runHistory(r, fmt.Sprintf("gomaxprocs%d", p), i) })
		r.Count(fmt.Sprintf("histories_gomaxprocs%d", p), k)
	}
	runtime.GOMAXPROCS(procs)

	r.Count("updatebatch_worker_starts", int(workerStarts.Load()))
	r.Extra("sched_points", ctrl.Hits())
	r.Extra("sched_interleaving_signature", fmt.Sprintf("%016x", ctrl.Signature()))
	r.Extra("gomaxprocs_main", procs)
	if !r.Violated() && workerStarts.Load() != predictedGroups.Load() {
		// the harness's prediction of the concurrent path (from UpdateBatch's documented
		// preconditions) disagrees with the observed worker starts: the coverage counters
		// cannot be trusted
		r.Inconclusive("observed %d UpdateBatch worker starts, predicted %d from the batch preconditions", workerStarts.Load(), predictedGroups.Load())
	}
	min := int64(10)
	if r.Race() {
		min = 3
	}
	r.Require("batch_parallel", 20*min)
	r.Require("batches_parallel_resolving", 5*min)
	r.Require("batch_seq-survivors0", min)
	r.Require("batch_seq-survivors1", min)
	r.Require("parallel_root_child_emptied", min)
	r.Require("batch_root_collapses", min)
	r.Require("hash_with_unhashed_ge100", min)
	r.Require("copy_checks", min)
	r.Require("stacktrie_checks", min)
	r.Require("iterations_prefix_keys_set_only", 1)
	r.Require("reopens", min)
	r.Assume("reference trie lib/refmpt (recursive construction from the sorted key set, yellow-paper node encoding, x/crypto Keccak), cross-checked against go-ethereum on freshly built tries by lib/refmpt/refmpt_test.go")
	r.Assume("leaf iteration order is judged only for prefix-free key sets; for sets where one key is a prefix of another only the leaf set is judged")
}
