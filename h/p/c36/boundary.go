package main

// "Fork boundary" family: chains whose rule set / blob schedule changes INSIDE the generated
// chain (not at genesis). A plan picks a ladder of stages (Cancun, Prague, Osaka, BPO1, BPO2,
// Amsterdam [+BPO3 at the same time]), a start stage that is active at genesis, 1-3 further
// stages that activate at a timestamp between two payload timestamps (or exactly at a payload
// timestamp), optionally later stages that are scheduled far in the future, per-stage blob
// schedules (the defaults or random target/max/update-fraction), and blob pressure (genesis
// excessBlobGas / blobGasUsed around, above or far above the targets; the pool of these cases
// carries ~1/3 blob transactions). Payload timestamps are fixed by the plan so that for every
// boundary there is a last block before, a first block at/after and a block after it. The oracle
// is the one of every other case (main.go judge).

import (
	"fmt"
	"math/rand"
	"sort"
	"strings"

	"github.com/ethereum/go-ethereum/common"
	"github.com/ethereum/go-ethereum/params"
	pforks "github.com/ethereum/go-ethereum/params/forks"
)

type bstage struct {
	name   string             // Cancun, Prague, Osaka, BPO1, BPO2, Amsterdam
	time   uint64             // activation time (0 = at genesis)
	blob   *params.BlobConfig // schedule introduced by the stage (nil: none - Osaka, Amsterdam without BPO3)
	gap    int                // in-chain stages: index of the first payload at/after the activation; -1 otherwise
	future bool               // scheduled after the last payload
}

type boundaryPlan struct {
	desc           string
	stages         []bstage
	ts             []uint64 // payload timestamps
	genesisExcess  uint64
	genesisUsed    uint64
	genesisBaseFee uint64
}

// blobAt returns the blob schedule in force at time ts and whether the Osaka excess rule
// (EIP-7918) applies, derived from the plan (not from geth's lookup functions).
func (b *boundaryPlan) blobAt(ts uint64) (cfg params.BlobConfig, osaka bool) {
	for _, s := range b.stages {
		if s.future || s.time > ts {
			continue
		}
		if s.blob != nil {
			cfg = *s.blob
		}
		if s.name == "Osaka" {
			osaka = true
		}
	}
	return
}

func u64p(v uint64) *uint64 { return &v }

var defaultBlob = map[string]*params.BlobConfig{
	"Cancun": params.DefaultCancunBlobConfig, "Prague": params.DefaultPragueBlobConfig,
	"BPO1": params.DefaultBPO1BlobConfig, "BPO2": params.DefaultBPO2BlobConfig, "Amsterdam": params.DefaultBPO3BlobConfig,
}

func randBlobConfig(rng *rand.Rand, stage string, prev *params.BlobConfig) *params.BlobConfig {
	for {
		var c params.BlobConfig
		if rng.Intn(2) == 0 {
			c = *defaultBlob[stage]
		} else {
			t := 1 + rng.Intn(12)
			c = params.BlobConfig{Target: t, Max: t + 1 + rng.Intn(t+3), UpdateFraction: 1112825 * uint64(t) * uint64(50+rng.Intn(101)) / 100}
		}
		if prev == nil || prev.Target != c.Target {
			return &c
		}
	}
}

// planBoundary derives the chain configuration and the payload schedule of boundary case j.
func planBoundary(rng *rand.Rand, j int) (*params.ChainConfig, *boundaryPlan, string) {
	// ---- ladder and start stage; j%6 fixes the first transition so that few cases cover all of them
	ladder := []string{"Cancun", "Prague", "Osaka"}
	nBPO := rng.Intn(3)
	ams := rng.Intn(2) == 0
	start := 0
	switch j % 6 {
	case 0: // Cancun -> Prague
	case 1: // Prague -> Osaka
		start = 1
	case 2: // Osaka -> BPO1
		start, nBPO = 2, 1+rng.Intn(2)
	case 3: // BPO1 -> BPO2
		start, nBPO = 3, 2
	case 4: // (Osaka | BPO1 | BPO2) -> Amsterdam
		start, ams = 2+nBPO, true
	default:
		start = -1
	}
	for i := 1; i <= nBPO; i++ {
		ladder = append(ladder, fmt.Sprintf("BPO%d", i))
	}
	if ams {
		ladder = append(ladder, "Amsterdam")
	}
	if start < 0 {
		start = rng.Intn(len(ladder) - 1)
	}
	k := 1 + rng.Intn(3)
	if k > len(ladder)-1-start {
		k = len(ladder) - 1 - start
	}
	amsBPO3 := rng.Intn(2) == 0 // Amsterdam brings a blob schedule (BPO3 at the same time)
	futureRest := rng.Intn(3) == 0

	// ---- payload timestamps and the gaps in which the stages activate
	n := k + 2 + rng.Intn(2)
	if n > 5 {
		n = 5
	}
	b := &boundaryPlan{}
	t := uint64(genesisTime)
	for i := 0; i < n; i++ {
		t += 1 + uint64(rng.Intn(24))
		b.ts = append(b.ts, t)
	}
	gaps := make([]int, 0, k)
	if n-2 >= k && rng.Intn(4) != 0 {
		gaps = append(gaps, rng.Perm(n - 2)[:k]...) // distinct gaps 1..n-2: a built block before and after every boundary
		for i := range gaps {
			gaps[i]++
		}
	} else {
		for i := 0; i < k; i++ {
			gaps = append(gaps, rng.Intn(n-1)) // may coincide (a block that crosses two boundaries), may be 0 (the parent is the genesis block)
		}
	}
	sort.Ints(gaps)
	times := make([]uint64, k)
	for i, g := range gaps {
		lo := uint64(genesisTime) + 1
		if g > 0 {
			lo = b.ts[g-1] + 1
		}
		hi := b.ts[g]
		times[i] = hi // activation exactly at the payload timestamp
		if rng.Intn(2) == 0 {
			times[i] = lo + uint64(rng.Intn(int(hi-lo+1)))
		}
	}
	sort.Slice(times, func(x, y int) bool { return times[x] < times[y] })

	// ---- stages
	var prev *params.BlobConfig
	for i, name := range ladder {
		s := bstage{name: name, gap: -1}
		switch {
		case i <= start:
		case i <= start+k:
			s.time, s.gap = times[i-start-1], gaps[i-start-1]
		case futureRest:
			s.future, s.time = true, b.ts[n-1]+1000+uint64(i)
		default:
			continue
		}
		if name != "Osaka" && (name != "Amsterdam" || amsBPO3) {
			s.blob = randBlobConfig(rng, name, prev)
			prev = s.blob
		}
		b.stages = append(b.stages, s)
	}

	// ---- chain configuration
	cfg := *params.MergedTestChainConfig
	cfg.PragueTime, cfg.OsakaTime, cfg.BPO1Time, cfg.BPO2Time, cfg.BPO3Time, cfg.BPO4Time, cfg.BPO5Time, cfg.AmsterdamTime = nil, nil, nil, nil, nil, nil, nil, nil
	bsc := &params.BlobScheduleConfig{}
	var parts []string
	for _, s := range b.stages {
		switch s.name {
		case "Cancun":
			cfg.CancunTime, bsc.Cancun = u64p(s.time), s.blob
		case "Prague":
			cfg.PragueTime, bsc.Prague = u64p(s.time), s.blob
		case "Osaka":
			cfg.OsakaTime = u64p(s.time)
		case "BPO1":
			cfg.BPO1Time, bsc.BPO1 = u64p(s.time), s.blob
		case "BPO2":
			cfg.BPO2Time, bsc.BPO2 = u64p(s.time), s.blob
		case "Amsterdam":
			cfg.AmsterdamTime = u64p(s.time)
			if s.blob != nil {
				cfg.BPO3Time, bsc.BPO3 = u64p(s.time), s.blob
			}
		}
		p := s.name
		if s.name == "Amsterdam" && s.blob != nil {
			p += "+BPO3"
		}
		switch {
		case s.future:
			p += "@future"
		case s.gap >= 0:
			p += fmt.Sprintf("@%d(payload %d", s.time, s.gap)
			if s.time == b.ts[s.gap] {
				p += ",=ts"
			}
			p += ")"
		default:
			p += "@genesis"
		}
		if s.blob != nil {
			p += fmt.Sprintf("[blob %d/%d/%d]", s.blob.Target, s.blob.Max, s.blob.UpdateFraction)
		}
		parts = append(parts, p)
	}
	cfg.BlobScheduleConfig = bsc
	cfg.DepositContractAddress = common.HexToAddress("0x00000000000000000000000000000000000d3905")

	// ---- blob pressure: genesis excess relative to the targets before / after the first boundary
	first := b.stages[start+1]
	old, _ := b.blobAt(genesisTime)
	nw, _ := b.blobAt(first.time)
	lo, hi := old.Target, nw.Target
	if lo > hi {
		lo, hi = hi, lo
	}
	mx := old.Max
	if nw.Max > mx {
		mx = nw.Max
	}
	var blobsExcess uint64
	pressure := ""
	switch m := rng.Intn(8); {
	case m == 0:
		pressure = "none"
	case m <= 3:
		pressure = "around-targets"
		blobsExcess = uint64(first.gap*old.Target + lo + rng.Intn(hi-lo+3))
	case m <= 5:
		pressure = "above-max"
		blobsExcess = uint64(first.gap*old.Target + mx + rng.Intn(30))
	default:
		pressure = "blob-fee-above-reserve" // blob base fee of 1e7..1e10 wei
		blobsExcess = old.UpdateFraction * uint64(17+rng.Intn(7)) / params.BlobTxBlobGasPerBlob
		// Domain restriction: the blob base fee e^(excess/updateFraction) must stay far below 2^256
		// under every schedule of the chain. (With excess/updateFraction > ~177 - only reachable from
		// a hostile genesis followed by a much smaller update fraction - miner.fillTransactions
		// panics in uint256.MustFromBig(CalcBlobFee); that is not the subject of this property.)
		for _, s := range b.stages {
			if lim := s.blob; lim != nil && !s.future {
				if m := lim.UpdateFraction * 80 / params.BlobTxBlobGasPerBlob; blobsExcess > m {
					blobsExcess = m
				}
			}
		}
	}
	b.genesisExcess = blobsExcess * params.BlobTxBlobGasPerBlob
	if rng.Intn(2) == 0 {
		b.genesisUsed = uint64(rng.Intn(old.Max+1)) * params.BlobTxBlobGasPerBlob
	}
	b.genesisBaseFee = []uint64{params.InitialBaseFee, params.InitialBaseFee, params.InitialBaseFee, 7, 40_000}[rng.Intn(5)]
	b.desc = fmt.Sprintf("boundary %s; payload ts %v; genesis excessBlobGas=%d (%d blobs, %s) blobGasUsed=%d baseFee=%d", strings.Join(parts, " "), b.ts, b.genesisExcess, blobsExcess, pressure, b.genesisUsed, b.genesisBaseFee)

	// generated code targets the last rule set reached inside the chain
	last := "Cancun"
	for _, s := range b.stages {
		if !s.future && !strings.HasPrefix(s.name, "BPO") {
			last = s.name
		}
	}
	return &cfg, b, last
}

// apiGen maps the rule set of a payload timestamp to the engine API generation that serves it
// (eth/catalyst: fcuV3+getPayloadV3+newPayloadV3 for Cancun, getPayloadV4/newPayloadV4 for Prague,
// getPayloadV5/newPayloadV4 for Osaka/BPO1/BPO2, fcuV4+getPayloadV6+newPayloadV5 from Amsterdam).
func apiGen(cfg *params.ChainConfig, ts uint64) int {
	switch f := cfg.LatestFork(ts); {
	case f >= pforks.BPO3: // BPO3..5, Amsterdam, Bogota
		return 6
	case f >= pforks.Osaka:
		return 5
	case f >= pforks.Prague:
		return 4
	default:
		return 3
	}
}
