package main

import (
	"math/big"
	"math/rand"

	"github.com/ethereum/go-ethereum/common"
	"github.com/ethereum/go-ethereum/core/types"
	"github.com/ethereum/go-ethereum/crypto/kzg4844"
	"github.com/ethereum/go-ethereum/params"
	"github.com/holiman/uint256"

	"verif/lib/logemit"
	"verif/lib/proggen"
)

var raceBuild bool

type genTx struct {
	tx     *types.Transaction
	kind   string
	sender int
	gapped bool // uses a nonce above the sender's next one
}

// txSource generates the pool content of one node; it tracks the next nonce it has handed out
// per sender (re-synchronised with the chain state after every block).
type txSource struct {
	w       *world
	rng     *rand.Rand
	nonce   []uint64
	authN   []uint64
	baseFee *big.Int
	taken   []map[uint64]bool // nonces occupied by accepted nonce-gapped transactions
	prague  bool              // rule set of the pool's head (decides what the pools admit)
	osaka   bool
}

func (s *txSource) fee(under bool) (tip, cap *big.Int) {
	if under {
		// fee cap below the current base fee: the pool may hold it, the builder must not include it
		c := new(big.Int).Div(s.baseFee, big.NewInt(2))
		if c.Sign() == 0 {
			c = big.NewInt(1)
		}
		return big.NewInt(1), c
	}
	tip = big.NewInt(int64(1+s.rng.Intn(30)) * params.GWei / 10)
	cap = new(big.Int).Add(new(big.Int).Mul(s.baseFee, big.NewInt(2)), tip)
	return
}

func (s *txSource) sign(i int, inner types.TxData) *types.Transaction {
	return types.MustSignNewTx(s.w.keys[i], s.w.signer, inner)
}

// envelope wraps (to, data, gas, value) into a random transaction type.
func (s *txSource) envelope(i int, nonce uint64, to *common.Address, data []byte, gas uint64, value *big.Int, under bool) *types.Transaction {
	tip, cap := s.fee(under)
	w := s.w
	switch s.rng.Intn(3) {
	case 0:
		return s.sign(i, &types.LegacyTx{Nonce: nonce, To: to, Data: data, Gas: gas, Value: value, GasPrice: cap})
	case 1:
		var al types.AccessList
		for k := s.rng.Intn(3); k > 0; k-- {
			al = append(al, types.AccessTuple{Address: w.allConts[s.rng.Intn(len(w.allConts))], StorageKeys: []common.Hash{common.BigToHash(big.NewInt(int64(s.rng.Intn(4))))}})
		}
		return s.sign(i, &types.AccessListTx{ChainID: w.config.ChainID, Nonce: nonce, To: to, Data: data, Gas: gas + 2400*uint64(len(al)) + 1900*uint64(len(al)), Value: value, GasPrice: cap, AccessList: al})
	default:
		return s.sign(i, &types.DynamicFeeTx{ChainID: w.config.ChainID, Nonce: nonce, To: to, Data: data, Gas: gas, Value: value, GasFeeCap: cap, GasTipCap: tip})
	}
}

func (s *txSource) blobFeeCap() uint64 {
	if s.w.bnd != nil {
		// the genesis excess of these chains puts the blob base fee anywhere between 1 and ~1e10 wei
		c := uint64(1 + s.rng.Intn(9))
		for e := s.rng.Intn(14); e > 0; e-- {
			c *= 10
		}
		return c
	}
	return uint64(1 + s.rng.Intn(1_000_000_000))
}

func randBytes(rng *rand.Rand, n int) []byte {
	b := make([]byte, n)
	rng.Read(b)
	return b
}

// next generates one transaction of a random kind for a random sender.
func (s *txSource) next() genTx {
	w, rng := s.w, s.rng
	k := rng.Intn(100)
	if raceBuild && k >= 76 && k < 83 {
		k = rng.Intn(73) // blob admission verifies 128 cell proofs per blob: very slow under the race detector
	}
	if w.bnd != nil {
		// fork-boundary family: blob pressure (~1/3 of the pool are blob transactions) and, while
		// the head is before Osaka, transactions above the EIP-7825 gas cap (admissible now, not
		// includable in the first Osaka block)
		switch x := rng.Intn(20); {
		case x < 5:
			k = 73
		case x == 5 && !s.osaka:
			k = 200
		}
	}
	isBlob := k >= 73 && k < 83
	i := rng.Intn(10)
	if isBlob {
		i = 10 + rng.Intn(3)
	}
	for s.taken[i][s.nonce[i]] { // a nonce-gapped transaction accepted earlier sits at this nonce
		s.nonce[i]++
	}
	nonce := s.nonce[i]
	g := genTx{sender: i}
	if rng.Intn(14) == 0 && !isBlob {
		nonce += uint64(1 + rng.Intn(3))
		for s.taken[i][nonce] {
			nonce++
		}
		g.gapped = true
	}
	under := rng.Intn(16) == 0
	prague := s.prague
	val := func() *big.Int {
		if rng.Intn(3) == 0 {
			return big.NewInt(int64(rng.Intn(1000)))
		}
		return new(big.Int)
	}
	switch {
	case k == 200:
		g.kind = "burn-gas-above-tx-cap"
		g.tx = s.envelope(i, nonce, &w.burner, nil, params.MaxTxGas+1+uint64(rng.Intn(3_000_000)), new(big.Int), under)
	case k < 10:
		g.kind = "transfer"
		to := w.addrs[rng.Intn(len(w.addrs))]
		if rng.Intn(3) == 0 {
			to = common.BytesToAddress(randBytes(rng, 20)) // new account
		}
		g.tx = s.envelope(i, nonce, &to, nil, 21000, big.NewInt(int64(1+rng.Intn(1e6))), under)
	case k < 35:
		g.kind = "call-generated"
		to := w.gen[rng.Intn(len(w.gen))]
		gas := []uint64{25_000, 60_000, 200_000, 1_000_000, blockGasLimit / 10}[rng.Intn(5)]
		g.tx = s.envelope(i, nonce, &to, randBytes(rng, rng.Intn(100)), gas, val(), under)
	case k < 47:
		g.kind = "probe"
		to := w.probe
		if rng.Intn(2) == 0 {
			to = w.tstorer
			g.kind = "tstore+probe"
		}
		g.tx = s.envelope(i, nonce, &to, randBytes(rng, 32), 600_000, new(big.Int), under)
	case k < 57:
		g.kind = "logs"
		var recs []logemit.Record
		for n := rng.Intn(5); n >= 0; n-- {
			rec := logemit.Record{Data: randBytes(rng, rng.Intn(50))}
			for t := rng.Intn(5); t > 0; t-- {
				rec.Topics = append(rec.Topics, common.BytesToHash(randBytes(rng, 2)))
			}
			recs = append(recs, rec)
		}
		revert := rng.Intn(5) == 0
		if revert {
			g.kind = "logs-reverted"
		}
		g.tx = s.envelope(i, nonce, &w.emitter, logemit.Encode(recs, revert), logemit.Gas(recs, revert)+10_000, new(big.Int), under)
	case k < 65:
		g.kind = "create"
		p := proggen.Gen(rng, proggen.Opts{Fork: w.fork, Addrs: w.allConts, MaxLen: 150, NoUnbounded: true})
		init := proggen.InitCodeReturning(p.Code)
		if rng.Intn(4) == 0 {
			init = proggen.Gen(rng, proggen.Opts{Fork: w.fork, Addrs: w.allConts, MaxLen: 120, NoUnbounded: true}).Code // arbitrary init code
			g.kind = "create-random-init"
		}
		g.tx = s.envelope(i, nonce, nil, init, 400_000+uint64(len(init))*300, val(), under)
	case k < 73:
		g.kind = "burn-gas"
		gas := blockGasLimit/15 + uint64(rng.Intn(int(blockGasLimit/5)))
		g.tx = s.envelope(i, nonce, &w.burner, nil, gas, new(big.Int), under)
	case k < 83:
		g.kind = "blob"
		bs := blobs()
		n := 1 + rng.Intn(3)
		var (
			bl []kzg4844.Blob
			cm []kzg4844.Commitment
			pr []kzg4844.Proof
			hs []common.Hash
		)
		// this tree's blob pool accepts cell-proof sidecars (version 1) only, for every rule set
		version := types.BlobSidecarVersion1
		for j := 0; j < n; j++ {
			x := rng.Intn(len(bs.blobs))
			bl, cm, hs = append(bl, bs.blobs[x]), append(cm, bs.commits[x]), append(hs, bs.hashes[x])
			if version == types.BlobSidecarVersion0 {
				pr = append(pr, bs.proofs[x])
			} else {
				pr = append(pr, bs.cellProofs[x]...)
			}
		}
		tip, cap := s.fee(under)
		to := w.gen[rng.Intn(len(w.gen))] // blob transactions may execute code too (BLOBHASH)
		if rng.Intn(2) == 0 {
			to = w.addrs[rng.Intn(len(w.addrs))]
		}
		inner := &types.BlobTx{ChainID: uint256.MustFromBig(w.config.ChainID), Nonce: nonce, GasTipCap: uint256.MustFromBig(tip), GasFeeCap: uint256.MustFromBig(cap), Gas: 200_000, To: to, Value: uint256.NewInt(uint64(rng.Intn(100))), Data: randBytes(rng, rng.Intn(40)),
			BlobFeeCap: uint256.NewInt(s.blobFeeCap()), BlobHashes: hs, Sidecar: types.NewBlobTxSidecar(version, bl, cm, pr)}
		g.tx = s.sign(i, inner)
	case k < 92 && prague:
		// EIP-7702: the sender installs delegations for 1-2 authorities (valid, stale nonce, wrong chain id)
		g.kind = "setcode"
		var auths []types.SetCodeAuthorization
		for n := 1 + rng.Intn(2); n > 0; n-- {
			a := rng.Intn(len(w.auths))
			target := w.allConts[rng.Intn(len(w.allConts))]
			if rng.Intn(6) == 0 {
				target = common.Address{} // clears the delegation
			}
			auth := types.SetCodeAuthorization{ChainID: *uint256.MustFromBig(w.config.ChainID), Address: target, Nonce: s.authN[a]}
			switch rng.Intn(8) {
			case 0:
				auth.Nonce += 5 // stale / future nonce: skipped by the state transition
			case 1:
				auth.ChainID = *uint256.NewInt(999) // wrong chain
			default:
				s.authN[a]++
			}
			signed, err := types.SignSetCode(w.auths[a], auth)
			if err != nil {
				panic(err)
			}
			auths = append(auths, signed)
		}
		tip, cap := s.fee(under)
		to := w.authA[rng.Intn(len(w.authA))] // call a (possibly just delegated) authority
		g.tx = s.sign(i, &types.SetCodeTx{ChainID: uint256.MustFromBig(w.config.ChainID), Nonce: nonce, GasTipCap: uint256.MustFromBig(tip), GasFeeCap: uint256.MustFromBig(cap), Gas: 500_000, To: to, Data: randBytes(rng, rng.Intn(40)), AuthList: auths})
	case k < 100 && (prague || w.bnd != nil):
		// (fork-boundary family: also before Prague - the queue contracts then collect requests
		// that the first Prague block has to dequeue)
		// EIP-6110 / 7002 / 7251 requests, including deposit logs emitted by reverted frames
		switch rng.Intn(5) {
		case 0:
			g.kind = "deposit"
			g.tx = s.envelope(i, nonce, &w.deposit, nil, 500_000, new(big.Int), under)
		case 1:
			g.kind = "deposit-reverted-tx"
			g.tx = s.envelope(i, nonce, &w.depRev, nil, 600_000, new(big.Int), under)
		case 2:
			g.kind = "deposit-reverted-subcall"
			g.tx = s.envelope(i, nonce, &w.depFail, nil, 700_000, new(big.Int), under)
		case 3:
			g.kind = "withdrawal-request"
			to := params.WithdrawalQueueAddress
			g.tx = s.envelope(i, nonce, &to, randBytes(rng, 56), 300_000, big.NewInt(params.GWei), under)
		default:
			g.kind = "consolidation-request"
			to := params.ConsolidationQueueAddress
			g.tx = s.envelope(i, nonce, &to, randBytes(rng, 96), 300_000, big.NewInt(params.GWei), under)
		}
	default:
		g.kind = "call-authority"
		to := w.authA[rng.Intn(len(w.authA))]
		g.tx = s.envelope(i, nonce, &to, randBytes(rng, rng.Intn(40)), 300_000, val(), under)
	}
	if under {
		g.kind += "/underpriced"
	}
	if g.gapped {
		g.kind += "/gapped"
	}
	return g
}
