package main

import (
	"crypto/ecdsa"
	"crypto/sha256"
	"math/big"
	"math/rand"
	"sync"

	"github.com/ethereum/go-ethereum/common"
	"github.com/ethereum/go-ethereum/core"
	"github.com/ethereum/go-ethereum/core/types"
	"github.com/ethereum/go-ethereum/crypto"
	"github.com/ethereum/go-ethereum/crypto/kzg4844"
	"github.com/ethereum/go-ethereum/params"

	"verif/lib/logemit"
	"verif/lib/proggen"
)

// ---------------------------------------------------------------- blobs (computed once)

type blobSet struct {
	blobs      []kzg4844.Blob
	commits    []kzg4844.Commitment
	proofs     []kzg4844.Proof   // blob proofs (sidecar version 0)
	cellProofs [][]kzg4844.Proof // cell proofs (sidecar version 1)
	hashes     []common.Hash
}

// nBlobs distinct blobs are prepared (KZG commitments, blob and cell proofs); the race variant
// uses fewer because the proof computation is ~20x slower under the race detector.
var nBlobs = 6

// blockGasLimit is lowered in the race variant (EVM execution is ~30x slower there).
var blockGasLimit uint64 = 30_000_000

const genesisTime = 1_000_000

var (
	blobsOnce sync.Once
	blobsVal  *blobSet
)

func blobs() *blobSet {
	blobsOnce.Do(func() {
		bs := &blobSet{}
		for i := 0; i < nBlobs; i++ {
			var b kzg4844.Blob
			b[1], b[33], b[65] = byte(i+1), byte(2*i+1), 7
			c, err := kzg4844.BlobToCommitment(&b)
			if err != nil {
				panic(err)
			}
			p, err := kzg4844.ComputeBlobProof(&b, c)
			if err != nil {
				panic(err)
			}
			cp, err := kzg4844.ComputeCellProofs(&b)
			if err != nil {
				panic(err)
			}
			bs.blobs = append(bs.blobs, b)
			bs.commits = append(bs.commits, c)
			bs.proofs = append(bs.proofs, p)
			bs.cellProofs = append(bs.cellProofs, cp)
			bs.hashes = append(bs.hashes, kzg4844.CalcBlobHashV1(sha256.New(), &c))
		}
		blobsVal = bs
	})
	return blobsVal
}

// ---------------------------------------------------------------- world

type world struct {
	fork   string        // rule set name for generated code (the latest rule set reached inside the chain)
	bnd    *boundaryPlan // non-nil: "fork boundary" family (boundary.go)
	pfork  proggen.Fork
	config *params.ChainConfig
	gspec  *core.Genesis
	signer types.Signer

	keys  []*ecdsa.PrivateKey // ordinary senders
	addrs []common.Address
	auths []*ecdsa.PrivateKey // authorities for set-code transactions (do not send themselves)
	authA []common.Address

	gen      []common.Address // proggen-generated contracts
	genFeat  []map[string]bool
	probe    common.Address // records access-list warmth and transient storage it finds
	emitter  common.Address // lib/logemit
	burner   common.Address // burns all gas it is given
	deposit  common.Address // deposit contract (requests, Prague+)
	depRev   common.Address // calls the deposit contract, then reverts
	depFail  common.Address // calls the deposit contract in a sub-call that reverts, then succeeds
	tstorer  common.Address // leaves transient storage and warm slots behind
	allConts []common.Address
}

func forkConfig(fork string) *params.ChainConfig {
	cfg := *params.MergedTestChainConfig
	switch fork {
	case "Cancun":
		cfg.PragueTime, cfg.OsakaTime = nil, nil
	case "Prague":
		cfg.OsakaTime = nil
	case "Osaka":
	case "Amsterdam":
		cfg.AmsterdamTime = new(uint64)
	}
	cfg.DepositContractAddress = common.HexToAddress("0x00000000000000000000000000000000000d3905")
	return &cfg
}

func newWorld(rng *rand.Rand, fork string) *world {
	return buildWorld(rng, fork, forkConfig(fork), nil)
}

// buildWorld creates the genesis (accounts, contracts) for a chain configuration; bnd (optional)
// carries the genesis blob fields / base fee of the fork-boundary family.
func buildWorld(rng *rand.Rand, fork string, cfg *params.ChainConfig, bnd *boundaryPlan) *world {
	w := &world{fork: fork, config: cfg, bnd: bnd}
	w.pfork, _ = proggen.ParseFork(fork)
	w.signer = types.LatestSigner(w.config)
	alloc := types.GenesisAlloc{
		params.BeaconRootsAddress:        {Nonce: 1, Code: params.BeaconRootsCode, Balance: common.Big0},
		params.HistoryStorageAddress:     {Nonce: 1, Code: params.HistoryStorageCode, Balance: common.Big0},
		params.WithdrawalQueueAddress:    {Nonce: 1, Code: params.WithdrawalQueueCode, Balance: common.Big0},
		params.ConsolidationQueueAddress: {Nonce: 1, Code: params.ConsolidationQueueCode, Balance: common.Big0},
		params.BuilderDepositAddress:     {Nonce: 1, Code: params.BuilderDepositCode, Balance: common.Big0},
		params.BuilderExitAddress:        {Nonce: 1, Code: params.BuilderExitCode, Balance: common.Big0},
	}
	// senders 0-9 use the legacy pool, senders 10-12 only send blob transactions (an account may
	// not have transactions in both pools)
	for i := 0; i < 13; i++ {
		k, _ := crypto.ToECDSA(crypto.Keccak256([]byte{byte(i), 'c', '3', '6'}))
		w.keys = append(w.keys, k)
		a := crypto.PubkeyToAddress(k.PublicKey)
		w.addrs = append(w.addrs, a)
		alloc[a] = types.Account{Balance: new(big.Int).Lsh(big.NewInt(1), 100)}
	}
	for i := 0; i < 4; i++ {
		k, _ := crypto.ToECDSA(crypto.Keccak256([]byte{byte(i), 'a', 'u', 't', 'h'}))
		w.auths = append(w.auths, k)
		a := crypto.PubkeyToAddress(k.PublicKey)
		w.authA = append(w.authA, a)
		alloc[a] = types.Account{Balance: new(big.Int).Lsh(big.NewInt(1), 90)}
	}
	at := func(i int) common.Address { return common.BytesToAddress([]byte{0xc3, 0x60, byte(i)}) }
	for i := 0; i < 6; i++ {
		w.gen = append(w.gen, at(i))
	}
	w.probe, w.emitter, w.burner, w.depRev, w.depFail, w.tstorer = at(0x10), at(0x11), at(0x12), at(0x13), at(0x14), at(0x15)
	w.deposit = w.config.DepositContractAddress
	others := append(append([]common.Address{}, w.gen...), w.probe, w.emitter, w.tstorer, w.addrs[0], w.authA[0])
	for i, a := range w.gen {
		p := proggen.Gen(rng, proggen.Opts{Fork: fork, Addrs: others, MaxLen: 200 + rng.Intn(400), AllowGasDependent: true, NoUnbounded: rng.Intn(4) != 0})
		alloc[a] = types.Account{Code: p.Code, Balance: big.NewInt(int64(1000 * (i + 1))), Nonce: 1}
		w.genFeat = append(w.genFeat, p.Features)
	}
	// probe: measures the cost of touching accounts / its own slots (cold vs warm) and reads the
	// transient slots the tstorer writes, stores everything, then bumps a call counter. If the
	// builder leaked the access list or transient storage from one transaction into the next,
	// the stored numbers differ from the importer's and the state root cannot match.
	probeCode := proggen.NewAsm()
	probeCode.Raw(proggen.ProbeSuffix(w.pfork, proggen.Probe{Addrs: []common.Address{w.tstorer, w.gen[0], w.addrs[1]}, Slots: []uint64{1, 2}, TSlots: []uint64{0, 1}, Base: 0x100}))
	probeCode.Push(uint64(1)).Op(proggen.TLOAD).Push(uint64(1)).Op(proggen.ADD).Push(uint64(1)).Op(proggen.TSTORE)
	probeCode.Push(uint64(1)).Op(proggen.SLOAD).Push(uint64(1)).Op(proggen.ADD).Push(uint64(1)).Op(proggen.SSTORE).Op(proggen.STOP)
	alloc[w.probe] = types.Account{Code: probeCode.Bytes(), Balance: big.NewInt(1), Nonce: 1}
	// tstorer: TSTORE(0, caller), TSTORE(1, calldata word), touches slots and accounts (warms them), calls the probe
	ts := proggen.NewAsm()
	ts.Op(proggen.CALLER).Push(uint64(0)).Op(proggen.TSTORE)
	ts.Push(uint64(0)).Op(proggen.CALLDATALOAD).Push(uint64(1)).Op(proggen.TSTORE)
	ts.Push(uint64(5)).Op(proggen.SLOAD).Push(uint64(1)).Op(proggen.ADD).Push(uint64(5)).Op(proggen.SSTORE)
	ts.Push(uint64(0)).Push(uint64(0)).Push(uint64(0)).Push(uint64(0)).Push(uint64(0)).Push(w.probe).Op(proggen.GAS, proggen.CALL)
	ts.Push(uint64(6)).Op(proggen.SSTORE).Op(proggen.STOP)
	alloc[w.tstorer] = types.Account{Code: ts.Bytes(), Balance: big.NewInt(1), Nonce: 1}
	alloc[w.emitter] = types.Account{Code: logemit.Code(), Balance: big.NewInt(1), Nonce: 1}
	burn := proggen.NewAsm()
	l := burn.NewLabel()
	burn.Bind(l)
	burn.Push(uint64(1)).Op(proggen.POP).JumpTo(l)
	alloc[w.burner] = types.Account{Code: burn.Bytes(), Balance: big.NewInt(1), Nonce: 1}
	alloc[w.deposit] = types.Account{Code: common.FromHex(depositCode), Balance: common.Big0, Nonce: 1}
	// depRev: CALL deposit (emits the deposit log), then REVERT: the log must not produce a request
	rev := proggen.NewAsm()
	rev.Push(uint64(0)).Push(uint64(0)).Op(proggen.REVERT)
	alloc[w.depRev] = types.Account{Code: proggen.Wrapper(proggen.CALL, w.deposit, proggen.WrapOpts{Suffix: rev.Bytes()}), Balance: big.NewInt(1), Nonce: 1}
	// depFail: CALL depRev (inner revert), store the flag, succeed: still no request
	alloc[w.depFail] = types.Account{Code: proggen.Wrapper(proggen.CALL, w.depRev, proggen.WrapOpts{StoreFlag: true, FlagSlot: 0}), Balance: big.NewInt(1), Nonce: 1}
	w.allConts = append(append([]common.Address{}, w.gen...), w.probe, w.emitter, w.tstorer, w.depRev, w.depFail)
	w.gspec = &core.Genesis{Config: w.config, Alloc: alloc, GasLimit: blockGasLimit, BaseFee: big.NewInt(params.InitialBaseFee), Difficulty: common.Big0, Timestamp: genesisTime}
	if bnd != nil {
		excess, used := bnd.genesisExcess, bnd.genesisUsed
		w.gspec.ExcessBlobGas, w.gspec.BlobGasUsed = &excess, &used
		w.gspec.BaseFee = new(big.Int).SetUint64(bnd.genesisBaseFee)
	}
	return w
}
