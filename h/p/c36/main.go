// C36: blocks built locally are valid blocks.
//
// An in-process node (node.New + eth.New, dev-like genesis with the system contracts; Cancun,
// Prague, Osaka and Amsterdam rule sets) gets its transaction pools filled with varied
// transactions (generated programs, reverting / out-of-gas calls, log emitters, contract
// creations, probes of access-list warmth and transient storage, gas burners beyond the block gas
// limit, blob transactions with valid KZG sidecars beyond the blob limit, set-code transactions,
// deposit / withdrawal / consolidation requests incl. deposit logs of reverted frames,
// nonce-gapped and underpriced transactions). Payloads are built through the engine API
// (ForkchoiceUpdated -> GetPayload) or miner.BuildPayload -> ResolveFull with random payload
// attributes. Every payload must convert to a block whose hash matches, must import on a second,
// independent BlockChain with the same genesis, and NewPayload on the building node must answer
// VALID. A second family of nodes (boundary.go) has rule sets / blob schedules that activate
// inside the generated chain, with payloads straddling every activation and blob pressure.
package main

import (
	"context"
	"fmt"
	"math/big"
	"math/rand"
	"os"
	"regexp"
	"sort"
	"strconv"
	"strings"
	"time"

	"github.com/ethereum/go-ethereum/beacon/engine"
	"github.com/ethereum/go-ethereum/common"
	"github.com/ethereum/go-ethereum/common/hexutil"
	"github.com/ethereum/go-ethereum/consensus/beacon"
	"github.com/ethereum/go-ethereum/consensus/ethash"
	"github.com/ethereum/go-ethereum/consensus/misc/eip1559"
	"github.com/ethereum/go-ethereum/consensus/misc/eip4844"
	"github.com/ethereum/go-ethereum/core"
	"github.com/ethereum/go-ethereum/core/rawdb"
	"github.com/ethereum/go-ethereum/core/txpool/legacypool"
	"github.com/ethereum/go-ethereum/core/types"
	"github.com/ethereum/go-ethereum/eth"
	"github.com/ethereum/go-ethereum/eth/catalyst"
	"github.com/ethereum/go-ethereum/eth/ethconfig"
	"github.com/ethereum/go-ethereum/miner"
	"github.com/ethereum/go-ethereum/node"
	"github.com/ethereum/go-ethereum/p2p"
	"github.com/ethereum/go-ethereum/params"

	"verif/lib/vrt"
)

func main() { vrt.Main("C36", run) }

var forks = []string{"Cancun", "Prague", "Osaka", "Amsterdam"}

var nRegular, nBoundary int // case indices below nRegular: one rule set per node; above: fork-boundary family

func run(r *vrt.Run) {
	r.Rule("case = node of one rule set (Cancun/Prague/Osaka/Amsterdam) with 6 generated contracts + probe/transient-storage/log/burner/deposit contracts, 1-5 consecutive payloads; before each payload the pools receive 15-90 random transactions of 20 kinds (see package comment) and random payload attributes (timestamp delta, prevrandao, fee recipient, 0-16 withdrawals, beacon root, slot number); built via engine API or miner.BuildPayload; one evaluation per payload; signature = (fork, build path, empty/full, transaction kinds included, skipped classes, which limit stopped filling, withdrawals bucket). Fork-boundary family (boundary.go): node whose configuration activates 1-3 of Prague / Osaka / BPO1 / BPO2 / Amsterdam(+BPO3) with default or random blob schedules at timestamps inside the chain, 3-5 payloads with timestamps fixed just before, at/after and after every activation, genesis excessBlobGas / blobGasUsed / base fee varied around the blob targets, ~1/3 blob transactions; there the fork part of the signature is (rule set or transition parent>child, last-before / second-after position, and for the first block of a new blob schedule whether parent excess+used reaches the old target and whether excess / blob fee differ between the two schedules)")
	nCases := r.N(24, 1200)
	nBoundary = r.N(12, 400) // fork-boundary family (boundary.go): cases nCases .. nCases+nBoundary-1
	if r.Race() {
		nCases = r.N(3, 60)
		nBoundary = 0 // value-level family; the race variant samples the regular workload only
		nBlobs = 2
		raceBuild = true
		blockGasLimit = 6_000_000
	}
	nRegular = nCases
	if os.Getenv("C36_DEBUG") == "plans" { // development aid: print the fork-boundary plans only
		for j := 0; j < nBoundary; j++ {
			_, plan, _ := planBoundary(r.Rand("boundary", j), j)
			fmt.Printf("case %d: %s\n", nRegular+j, plan.desc)
		}
		return
	}
	blobs() // KZG material once
	if v := os.Getenv("VERIF_ONLY"); v != "" {
		i, _ := strconv.Atoi(v)
		runCase(r, i)
	} else {
		workers := 0
		if r.Race() {
			workers = 3
		}
		onlyBoundary := os.Getenv("C36_FAMILY") == "boundary" // development aid: skip the regular cases (coverage obligations then fail)
		vrt.Par(nCases+nBoundary, workers, func(i int) {
			if i >= nRegular || !onlyBoundary {
				runCase(r, i)
			}
		})
		if r.Race() {
			// the race variant is a small sample of the same workload (coverage obligations are
			// carried by the default variant; under the race detector the engine API often
			// returns the empty payload)
			r.Require("payloads_checked", 4)
			r.Require("payloads_nonempty", 2)
		} else {
			r.Require("payloads_checked", 48)
			r.Require("payloads_nonempty", 30)
			r.Require("payloads_via_engine_api", 12)
			r.Require("payloads_via_miner", 12)
			r.Require("included:blob", 10)
			r.Require("included:setcode", 5)
			r.Require("included:probe", 20)
			r.Require("blocks_gas_limit_reached", 5)
			r.Require("blocks_with_requests", 3)
			// fork-boundary family
			r.Require("boundary_cases", 10)
			r.Require("blocks_built_last_before_fork", 8)
			r.Require("blocks_built_first_under_new_fork", 10)
			r.Require("blocks_built_first_under_new_schedule", 8)
			r.Require("blocks_built_first_under_new_schedule_with_parent_excess_plus_used_above_old_target", 4)
			r.Require("blocks_built_first_under_new_schedule_where_schedules_give_different_excess", 3)
			r.Require("blocks_built_second_under_new_fork", 6)
		}
	}
	r.Assume("oracle = block import (validator + state processor of the same tree) on a second BlockChain instance with its own database, and the engine API status of NewPayload on the building node")
}

type ncase struct {
	r    *vrt.Run
	idx  int
	w    *world
	desc string
	node *node.Node
	es   *eth.Ethereum
	api  *catalyst.ConsensusAPI
	imp  *core.BlockChain
	src  *txSource
	log  []string
	kind map[common.Hash]string // tx hash -> kind

	prevFirst bool // fork-boundary family: the previous block was the first one of a new rule set
}

func (c *ncase) witness(extra map[string]any) map[string]any {
	w := map[string]any{"case": c.idx, "config": c.desc, "history": append([]string{}, c.log...), "rerun": fmt.Sprintf("VERIF_SEED=%d VERIF_TIER=%s VERIF_ONLY=%d", c.r.Seed, c.r.Tier, c.idx)}
	for k, v := range extra {
		w[k] = v
	}
	return w
}

var reNum = regexp.MustCompile(`0x[0-9a-fA-F]+|[0-9a-f]{16,}|[0-9]+`)

// errClass turns an error text into a stable class (numbers and hashes removed).
func errClass(s string) string {
	s = reNum.ReplaceAllString(s, "N")
	if len(s) > 70 {
		s = s[:70]
	}
	return strings.TrimSpace(s)
}

func runCase(r *vrt.Run, idx int) {
	rng := r.Rand("case", idx)
	var w *world
	c := &ncase{r: r, idx: idx, kind: map[common.Hash]string{}}
	if idx < nRegular {
		fork := forks[idx%len(forks)]
		w = newWorld(rng, fork)
		c.desc = fmt.Sprintf("fork=%s", fork)
	} else {
		rng = r.Rand("boundary", idx-nRegular)
		cfg, plan, last := planBoundary(rng, idx-nRegular)
		if err := cfg.CheckConfigForkOrder(); err != nil {
			r.Inconclusive("case %d: generated chain configuration is not admissible: %v (%s)", idx, err, plan.desc)
			return
		}
		w = buildWorld(rng, last, cfg, plan)
		c.desc = plan.desc
		r.Count("boundary_cases", 1)
	}
	c.w = w
	r.Case("case %d %s start node [VERIF_ONLY=%d]", idx, c.desc, idx)

	n, err := node.New(&node.Config{P2P: p2p.Config{NoDiscovery: true, NoDial: true, MaxPeers: 0}})
	if err != nil {
		r.Inconclusive("case %d: node.New: %v", idx, err)
		return
	}
	defer n.Close()
	pool := legacypool.DefaultConfig
	pool.Journal = ""
	pool.NoLocals = true
	pool.AccountSlots, pool.GlobalSlots, pool.AccountQueue, pool.GlobalQueue = 64, 2048, 64, 1024
	ethcfg := &ethconfig.Config{Genesis: w.gspec, SyncMode: ethconfig.FullSync, TrieTimeout: time.Minute, TrieDirtyCache: 16, TrieCleanCache: 8, SnapshotCache: 8,
		TxPool: pool, BlobPool: ethconfig.Defaults.BlobPool,
		Miner: miner.Config{GasCeil: blockGasLimit, GasPrice: big.NewInt(1), Recommit: 300 * time.Millisecond}}
	ethcfg.BlobPool.Datadir = ""
	es, err := eth.New(n, ethcfg)
	if err != nil {
		r.Inconclusive("case %d: eth.New: %v", idx, err)
		return
	}
	if err := n.Start(); err != nil {
		r.Inconclusive("case %d: node start: %v", idx, err)
		return
	}
	es.SetSynced()
	c.node, c.es = n, es
	c.api = catalyst.VerifNewConsensusAPI(es)
	impCfg := core.DefaultConfig()
	impCfg.TrieCleanLimit, impCfg.SnapshotLimit = 8, 0
	if rng.Intn(2) == 0 {
		impCfg.StateScheme = rawdb.PathScheme
	}
	c.imp, err = core.NewBlockChain(rawdb.NewMemoryDatabase(), w.gspec, beacon.New(ethash.NewFaker()), impCfg)
	if err != nil {
		r.Inconclusive("case %d: importer: %v", idx, err)
		return
	}
	defer c.imp.Stop()
	c.src = &txSource{w: w, rng: rng, nonce: make([]uint64, len(w.keys)), authN: make([]uint64, len(w.auths)), baseFee: new(big.Int).Set(w.gspec.BaseFee)}
	for range w.keys {
		c.src.taken = append(c.src.taken, map[uint64]bool{})
	}

	nPayloads := 1 + rng.Intn(5)
	if w.bnd != nil {
		nPayloads = len(w.bnd.ts)
	}
	for p := 0; p < nPayloads; p++ {
		if !c.round(rng, p) {
			return
		}
	}
	if r.WantSample() {
		r.Sample(map[string]any{"case": idx, "config": c.desc, "history": c.log})
	}
}

// round fills the pools, builds one payload, judges it and makes it the new head.
func (c *ncase) round(rng *rand.Rand, p int) bool {
	r, w, es := c.r, c.w, c.es
	head := es.BlockChain().CurrentBlock()
	c.src.baseFee = eip1559.CalcBaseFee(w.config, head)
	c.src.prague, c.src.osaka = w.config.IsPrague(head.Number, head.Time), w.config.IsOsaka(head.Number, head.Time)
	// ---- pool content
	nTx := 15 + rng.Intn(76)
	if r.Race() {
		nTx = 10 + rng.Intn(25)
	} else if w.bnd != nil {
		nTx = 10 + rng.Intn(51) // a third of them blob transactions: enough to fill the blob space
	}
	offered := map[string]int{}
	rejected := 0
	for i := 0; i < nTx; i++ {
		g := c.src.next()
		errs := es.TxPool().Add([]*types.Transaction{g.tx}, true)
		if os.Getenv("C36_DEBUG") == "2" && g.sender == 3 {
			pe, qu := es.TxPool().ContentFrom(w.addrs[g.sender])
			fmt.Printf("OFFER case %d sender %d nonce %d (tracked %d, pool %d pending %d queued %d) %s -> %v\n", c.idx, g.sender, g.tx.Nonce(), c.src.nonce[g.sender], es.TxPool().Nonce(w.addrs[g.sender]), len(pe), len(qu), g.kind, errs[0])
		}
		if errs[0] != nil {
			rejected++
			r.Count("pool_rejected:"+errClass(errs[0].Error()), 1)
			if os.Getenv("C36_DEBUG") != "" {
				fmt.Printf("REJECT %s %s: %v\n", w.fork, g.kind, errs[0])
			}
			if g.kind == "setcode" {
				// authorisations were not consumed
				for a := range c.src.authN {
					c.src.authN[a] = c.stateNonce(w.authA[a])
				}
			}
			continue
		}
		if !g.gapped {
			c.src.nonce[g.sender]++
		} else {
			c.src.taken[g.sender][g.tx.Nonce()] = true
		}
		c.kind[g.tx.Hash()] = g.kind
		offered[strings.Split(g.kind, "/")[0]]++
	}
	es.TxPool().Sync()
	pending, queued := es.TxPool().Stats()
	// ---- payload attributes
	root := common.BytesToHash(randBytes(rng, 32))
	slot := uint64(100 + p)
	attrs := &engine.PayloadAttributes{
		Timestamp:             head.Time + 1 + uint64(rng.Intn(24)),
		Random:                common.BytesToHash(randBytes(rng, 32)),
		SuggestedFeeRecipient: []common.Address{w.addrs[0], w.gen[0], w.probe, common.BytesToAddress(randBytes(rng, 20)), {}}[rng.Intn(5)],
		Withdrawals:           []*types.Withdrawal{},
		BeaconRoot:            &root,
	}
	for i, n := 0, []int{0, 0, 1, 3, 16}[rng.Intn(5)]; i < n; i++ {
		to := []common.Address{w.addrs[rng.Intn(len(w.addrs))], w.gen[rng.Intn(len(w.gen))], common.BytesToAddress(randBytes(rng, 20)), w.authA[0]}[rng.Intn(4)]
		attrs.Withdrawals = append(attrs.Withdrawals, &types.Withdrawal{Index: uint64(p*16 + i), Validator: uint64(rng.Intn(1000)), Address: to, Amount: uint64(rng.Intn(3)) * uint64(rng.Intn(1_000_000))})
	}
	if w.bnd != nil {
		attrs.Timestamp = w.bnd.ts[p]
	}
	gen := apiGen(w.config, attrs.Timestamp) // engine API generation serving this timestamp
	if gen == 6 {
		attrs.SlotNumber = &slot
	}
	viaEngine := rng.Intn(2) == 0
	if r.Race() && rng.Intn(3) != 0 {
		viaEngine = false // ResolveFull waits for the full payload
	}
	c.log = append(c.log, fmt.Sprintf("payload %d on #%d: %d txs offered (%d rejected by the pool), pool pending=%d queued=%d, withdrawals=%d, ts+%d, via %s", p, head.Number, nTx, rejected, pending, queued, len(attrs.Withdrawals), attrs.Timestamp-head.Time, map[bool]string{true: "engine API", false: "miner.BuildPayload"}[viaEngine]))
	r.Case("case %d %s %s [VERIF_ONLY=%d]", c.idx, c.desc, c.log[len(c.log)-1], c.idx)

	ctx := context.Background()
	var env *engine.ExecutionPayloadEnvelope
	var err error
	if viaEngine {
		fcs := engine.ForkchoiceStateV1{HeadBlockHash: head.Hash(), SafeBlockHash: common.Hash{}, FinalizedBlockHash: common.Hash{}}
		var resp engine.ForkChoiceResponse
		if gen == 6 {
			resp, err = c.api.ForkchoiceUpdatedV4(ctx, fcs, attrs, nil)
		} else {
			resp, err = c.api.ForkchoiceUpdatedV3(ctx, fcs, attrs)
		}
		if err != nil || resp.PayloadID == nil {
			r.Violation("fcu-with-attributes-failed:"+errClass(fmt.Sprint(err, resp.PayloadStatus.Status)), fmt.Sprintf("case %d (%s): ForkchoiceUpdated with valid attributes: err=%v status=%+v", c.idx, c.desc, err, resp.PayloadStatus), c.witness(nil))
			return false
		}
		// retrieved at a random moment: empty and full payloads are both legal, both must be valid
		switch rng.Intn(4) {
		case 0:
		case 1:
			time.Sleep(time.Duration(rng.Intn(20)) * time.Millisecond)
		default:
			time.Sleep(time.Duration(50+rng.Intn(400)) * time.Millisecond)
		}
		switch gen {
		case 3:
			env, err = c.api.GetPayloadV3(*resp.PayloadID)
		case 4:
			env, err = c.api.GetPayloadV4(*resp.PayloadID)
		case 5:
			env, err = c.api.GetPayloadV5(*resp.PayloadID)
		default:
			env, err = c.api.GetPayloadV6(*resp.PayloadID)
		}
		if err != nil {
			r.Violation("getpayload-failed:"+errClass(err.Error()), fmt.Sprintf("case %d (%s): GetPayload: %v", c.idx, c.desc, err), c.witness(nil))
			return false
		}
		r.Count("payloads_via_engine_api", 1)
	} else {
		args := &miner.BuildPayloadArgs{Parent: head.Hash(), Timestamp: attrs.Timestamp, FeeRecipient: attrs.SuggestedFeeRecipient, Random: attrs.Random, Withdrawals: attrs.Withdrawals, BeaconRoot: attrs.BeaconRoot, SlotNum: attrs.SlotNumber, Version: engine.PayloadV3}
		if gen == 6 {
			args.Version = engine.PayloadV4
		}
		payload, err := es.Miner().BuildPayload(ctx, args, false)
		if err != nil {
			r.Violation("buildpayload-failed:"+errClass(err.Error()), fmt.Sprintf("case %d (%s): BuildPayload: %v", c.idx, c.desc, err), c.witness(nil))
			return false
		}
		done := make(chan *engine.ExecutionPayloadEnvelope, 1)
		go func() { done <- payload.ResolveFull() }()
		select {
		case env = <-done:
		case <-time.After(90 * time.Second):
			r.Inconclusive("case %d (%s): ResolveFull did not return within 90s (full payload never built); history: %v", c.idx, c.desc, c.log)
			return false
		}
		if env == nil {
			r.Inconclusive("case %d (%s): ResolveFull returned nil", c.idx, c.desc)
			return false
		}
		r.Count("payloads_via_miner", 1)
	}
	return c.judge(env, attrs, viaEngine, offered, head)
}

func (c *ncase) stateNonce(a common.Address) uint64 {
	st, err := c.es.BlockChain().State()
	if err != nil {
		return 0
	}
	return st.GetNonce(a)
}

func (c *ncase) judge(env *engine.ExecutionPayloadEnvelope, attrs *engine.PayloadAttributes, viaEngine bool, offered map[string]int, parent *types.Header) bool {
	r, w, es := c.r, c.w, c.es
	ctx := context.Background()
	pl := env.ExecutionPayload
	wit := func(extra map[string]any) map[string]any {
		m := map[string]any{"block_number": pl.Number, "txs": len(pl.Transactions), "gas_used": pl.GasUsed, "state_root": pl.StateRoot.Hex(), "block_hash": pl.BlockHash.Hex(),
			"timestamp": pl.Timestamp, "rule_set": w.config.LatestFork(pl.Timestamp).String(), "excess_blob_gas": pl.ExcessBlobGas, "blob_gas_used": pl.BlobGasUsed,
			"parent_timestamp": parent.Time, "parent_rule_set": w.config.LatestFork(parent.Time).String(), "parent_excess_blob_gas": parent.ExcessBlobGas, "parent_blob_gas_used": parent.BlobGasUsed, "parent_base_fee": parent.BaseFee}
		for k, v := range extra {
			m[k] = v
		}
		return c.witness(m)
	}
	txs, err := engine.DecodeTransactions(pl.Transactions)
	if err != nil {
		r.Violation("payload-transactions-undecodable", fmt.Sprintf("case %d (%s): %v", c.idx, c.desc, err), wit(nil))
		return false
	}
	vhashes := []common.Hash{}
	included := map[string]int{}
	blobCount := 0
	for _, tx := range txs {
		vhashes = append(vhashes, tx.BlobHashes()...)
		blobCount += len(tx.BlobHashes())
		k := c.kind[tx.Hash()]
		if k == "" {
			k = "unknown"
		}
		included[strings.Split(k, "/")[0]]++
		if strings.Contains(k, "/underpriced") {
			r.Count("included_underpriced", 1)
		}
	}
	if pl.FeeRecipient != attrs.SuggestedFeeRecipient || pl.Random != attrs.Random || pl.Timestamp != attrs.Timestamp || len(pl.Withdrawals) != len(attrs.Withdrawals) {
		r.Violation("payload-ignores-attributes", fmt.Sprintf("case %d (%s): payload does not carry the requested attributes", c.idx, c.desc), wit(nil))
	}
	block, err := engine.ExecutableDataToBlock(*pl, vhashes, attrs.BeaconRoot, env.Requests)
	if err != nil {
		r.Violation("payload-not-self-consistent:"+errClass(err.Error()), fmt.Sprintf("case %d (%s): the payload returned by the builder does not convert to a block: %v", c.idx, c.desc, err), wit(nil))
		return false
	}
	era := w.fork
	if w.bnd != nil {
		era = c.boundaryEvidence(parent, block.Header(), blobCount) // counts what was built, whatever the verdict below
	}
	// (1) import on the independent chain
	if _, err := c.imp.InsertChain(types.Blocks{block}); err != nil {
		r.Violation("import-rejected:"+errClass(err.Error()), fmt.Sprintf("case %d (%s): block #%d built by the node (%d txs, kinds %v) is rejected by import on an independent chain: %v", c.idx, c.desc, pl.Number, len(txs), included, err), wit(map[string]any{"import_error": err.Error(), "included": included}))
		return false
	}
	if got := c.imp.CurrentBlock(); got.Hash() != block.Hash() || got.Root != pl.StateRoot {
		r.Violation("import-head-mismatch", fmt.Sprintf("case %d (%s): importer head %x root %x after importing %x root %x", c.idx, c.desc, got.Hash(), got.Root, block.Hash(), pl.StateRoot), wit(nil))
		return false
	}
	// (2) NewPayload on the building node
	var st engine.PayloadStatusV1
	reqs := make([]hexutil.Bytes, len(env.Requests))
	for i, rq := range env.Requests {
		reqs[i] = rq
	}
	gen := apiGen(w.config, pl.Timestamp)
	switch gen {
	case 3:
		st, err = c.api.NewPayloadV3(ctx, *pl, vhashes, attrs.BeaconRoot)
	case 4, 5:
		st, err = c.api.NewPayloadV4(ctx, *pl, vhashes, attrs.BeaconRoot, reqs)
	default:
		st, err = c.api.NewPayloadV5(ctx, *pl, vhashes, attrs.BeaconRoot, reqs)
	}
	if err != nil || st.Status != engine.VALID {
		ve := ""
		if st.ValidationError != nil {
			ve = *st.ValidationError
		}
		r.Violation("newpayload-not-valid:"+st.Status+":"+errClass(fmt.Sprint(err, ve)), fmt.Sprintf("case %d (%s): NewPayload for the node's own payload #%d: status=%s err=%v validationError=%s", c.idx, c.desc, pl.Number, st.Status, err, ve), wit(nil))
		return false
	}
	// make it the head
	fcs := engine.ForkchoiceStateV1{HeadBlockHash: pl.BlockHash}
	var resp engine.ForkChoiceResponse
	if gen == 6 {
		resp, err = c.api.ForkchoiceUpdatedV4(ctx, fcs, nil, nil)
	} else {
		resp, err = c.api.ForkchoiceUpdatedV3(ctx, fcs, nil)
	}
	if err != nil || resp.PayloadStatus.Status != engine.VALID || es.BlockChain().CurrentBlock().Hash() != pl.BlockHash {
		r.Violation("fcu-to-own-payload-failed", fmt.Sprintf("case %d (%s): ForkchoiceUpdated to the node's own valid payload: err=%v status=%+v head=#%d", c.idx, c.desc, err, resp.PayloadStatus, es.BlockChain().CurrentBlock().Number), wit(nil))
		return false
	}
	es.TxPool().Sync()
	for i, a := range w.addrs {
		c.src.nonce[i] = es.TxPool().PoolNonce(a)
	}
	for i, a := range w.authA {
		c.src.authN[i] = c.stateNonce(a)
	}
	// ---- evidence
	r.Count("payloads_checked", 1)
	full := "empty"
	if len(txs) > 0 {
		full = "nonempty"
		r.Count("payloads_nonempty", 1)
	}
	var kinds []string
	for k, n := range included {
		kinds = append(kinds, k)
		r.Count("included:"+k, n)
	}
	sort.Strings(kinds)
	var skipped []string
	for k := range offered {
		if included[k] == 0 {
			skipped = append(skipped, k)
		}
	}
	sort.Strings(skipped)
	limit := "none"
	pending, _ := es.TxPool().Stats()
	if pl.GasUsed*100 >= pl.GasLimit*85 || (pending > 0 && pl.GasLimit-pl.GasUsed < 2_000_000) {
		limit = "gas"
		r.Count("blocks_gas_limit_reached", 1)
	}
	if blobCount > 0 && (blobCount >= 6) {
		if limit == "none" {
			limit = "blobs"
		} else {
			limit += "+blobs"
		}
		r.Count("blocks_with_6_or_more_blobs", 1)
	}
	if len(env.Requests) > 0 {
		r.Count("blocks_with_requests", 1)
	}
	r.Count("txs_included", len(txs))
	r.Count("blobs_included", blobCount)
	c.log = append(c.log, fmt.Sprintf("  -> #%d %s txs=%d gas=%d/%d blobs=%d requests=%d kinds=%v", pl.Number, full, len(txs), pl.GasUsed, pl.GasLimit, blobCount, len(env.Requests), kinds))
	wd := "0"
	if n := len(attrs.Withdrawals); n > 3 {
		wd = "many"
	} else if n > 0 {
		wd = "few"
	}
	path := "miner"
	if viaEngine {
		path = "engine"
	}
	sig := fmt.Sprintf("%s/%s/%s/in[%s]/skip%d/limit:%s/wd:%s/req%v", era, path, full, strings.Join(kinds, ","), len(skipped), limit, wd, len(env.Requests) > 0)
	r.Eval(sig)
	return true
}

// boundaryEvidence records where a built block of the fork-boundary family lies relative to the
// rule-set / blob-schedule changes of its chain and whether the schedule-dependent header fields
// are sensitive to the choice of schedule there (excess / blob fee computed from the same parent
// under the parent's and under the block's schedule). Evidence only: the verdict is made by judge. Returns the rule-set part of the evaluation signature.
func (c *ncase) boundaryEvidence(parent, h *types.Header, blobCount int) string {
	r, cfg, b := c.r, c.w.config, c.w.bnd
	pf, hf := cfg.LatestFork(parent.Time), cfg.LatestFork(h.Time)
	era := "B:" + hf.String()
	if p := int(h.Number.Uint64()); p < len(b.ts) && cfg.LatestFork(b.ts[p]) != hf {
		r.Count("blocks_built_last_before_fork", 1)
		era += "/last-before"
	}
	switch {
	case pf != hf:
		era = "B:" + pf.String() + ">" + hf.String()
		r.Count("blocks_built_first_under_new_fork", 1)
		r.Count("transition:"+pf.String()+"->"+hf.String(), 1)
		if parent.Number.Sign() == 0 {
			r.Count("blocks_built_first_under_new_fork_on_genesis", 1)
		}
		for _, s := range b.stages {
			if s.gap >= 0 && s.time == h.Time {
				r.Count("blocks_built_first_under_new_fork_at_exact_fork_time", 1)
				break
			}
		}
		if parent.RequestsHash == nil && h.RequestsHash != nil {
			r.Count("blocks_built_first_with_requests_hash", 1)
		}
		if parent.BlockAccessListHash == nil && h.BlockAccessListHash != nil {
			r.Count("blocks_built_first_with_access_list_hash", 1)
		}
	case c.prevFirst:
		r.Count("blocks_built_second_under_new_fork", 1)
		era += "/second"
	}
	c.prevFirst = pf != hf

	old, oldOsaka := b.blobAt(parent.Time)
	nw, nwOsaka := b.blobAt(h.Time)
	if old != nw || oldOsaka != nwOsaka {
		const name = "blocks_built_first_under_new_schedule"
		r.Count(name, 1)
		sum := *parent.ExcessBlobGas + *parent.BlobGasUsed
		cls := "below-old-target"
		if sum >= uint64(old.Target)*params.BlobTxBlobGasPerBlob {
			r.Count(name+"_with_parent_excess_plus_used_above_old_target", 1)
			cls = "above-old-target"
		}
		if sum >= uint64(nw.Target)*params.BlobTxBlobGasPerBlob {
			r.Count(name+"_with_parent_excess_plus_used_above_new_target", 1)
		}
		if *parent.BlobGasUsed > 0 {
			r.Count(name+"_with_parent_blob_gas_used", 1)
		}
		if eip4844.CalcExcessBlobGas(cfg, parent, parent.Time) != eip4844.CalcExcessBlobGas(cfg, parent, h.Time) {
			r.Count(name+"_where_schedules_give_different_excess", 1)
			cls += "/excess-sensitive"
		}
		asOld := types.CopyHeader(h)
		asOld.Time = parent.Time
		if h.ExcessBlobGas != nil && eip4844.CalcBlobFee(cfg, asOld).Cmp(eip4844.CalcBlobFee(cfg, h)) != 0 {
			r.Count(name+"_where_schedules_give_different_blob_fee", 1)
			cls += "/fee-sensitive"
		}
		if blobCount > 0 {
			r.Count(name+"_with_blobs", 1)
			if blobCount > old.Max {
				r.Count(name+"_with_more_blobs_than_old_max", 1)
			}
		}
		era += "/sched:" + cls
	}
	return era
}
