// C02: transaction envelopes are canonical and hashes are stable.
//
// Monitors (DESIGN.md section 5, C02): for constructed transactions of all five types and for
// mutated / random byte strings:
//
//	binary:   UnmarshalBinary(b) ok  =>  MarshalBinary() == b, Size() == len(b),
//	          Hash() == Keccak256(b) (blob tx with sidecar: Keccak256 of the envelope without
//	          sidecar, extracted with refrlp), b is canonical RLP per refrlp
//	element:  the same through rlp.DecodeBytes / rlp.EncodeToBytes of the list-element form
//	fresh:    NewTx(...).Size() == len(MarshalBinary())
//	sidecar:  WithoutBlobTxSidecar keeps Hash, its Size() is the length of its own encoding;
//	          WithBlobTxSidecar restores the original bytes
//	json:     MarshalJSON -> UnmarshalJSON reproduces hash and canonical binary encoding
//	shared:   copies of one transaction used from 8 goroutines (hash/size/from caches)
package main

import (
	"bytes"
	"encoding/json"
	"fmt"
	"math/big"
	"math/rand"
	"os"
	"runtime/pprof"
	"strings"
	"sync"

	"github.com/ethereum/go-ethereum/common"
	"github.com/ethereum/go-ethereum/core/types"
	"github.com/ethereum/go-ethereum/rlp"
	"golang.org/x/crypto/sha3"

	"verif/lib/agg"
	"verif/lib/refrlp"
	"verif/lib/rlpmut"
	"verif/lib/vrt"
)

func main() { vrt.Main("C02", run) }

// profile starts a CPU profile when VERIF_CPUPROFILE names a file (harness tuning only).
func profile() func() {
	path := os.Getenv("VERIF_CPUPROFILE")
	if path == "" {
		return func() {}
	}
	f, err := os.Create(path)
	if err != nil {
		return func() {}
	}
	pprof.StartCPUProfile(f)
	return func() { pprof.StopCPUProfile(); f.Close() }
}

var ag *agg.Agg

func keccak(b ...[]byte) common.Hash {
	h := sha3.NewLegacyKeccak256()
	for _, x := range b {
		h.Write(x)
	}
	var out common.Hash
	h.Sum(out[:0])
	return out
}

var typeNames = map[byte]string{0: "legacy", 1: "accesslist", 2: "dynfee", 3: "blob", 4: "setcode"}

func tname(t byte) string {
	if n, ok := typeNames[t]; ok {
		return n
	}
	return "unknown"
}

func short(b []byte) string {
	if len(b) <= 600 {
		return vrt.Hex(b)
	}
	return fmt.Sprintf("%s…(%d bytes)…%s", vrt.Hex(b[:300]), len(b), vrt.Hex(b[len(b)-100:]))
}

// witness keeps envelopes small enough to read: full hex up to 4 KiB, else head/tail.
func witnessBytes(b []byte) string {
	if len(b) <= 4096 {
		return vrt.Hex(b)
	}
	return short(b)
}

// envelopeInfo is the independent (refrlp) reading of an accepted binary envelope.
type envelopeInfo struct {
	typ       byte
	canonical []byte // envelope without sidecar = the bytes the hash is defined over
	sidecar   bool
	rlpErr    error // payload is not canonical RLP according to refrlp
	// for blob transactions with sidecar: size classes, to recognise the header-size defect
	txListLen, sidecarLen int
}

func readEnvelope(b []byte) envelopeInfo {
	var info envelopeInfo
	if len(b) == 0 {
		info.rlpErr = refrlp.ErrEmpty
		return info
	}
	if b[0] > 0x7f {
		_, info.rlpErr = refrlp.Decode(b)
		info.canonical = b
		return info
	}
	info.typ = b[0]
	it, err := refrlp.Decode(b[1:])
	info.rlpErr = err
	info.canonical = b
	if err == nil && info.typ == types.BlobTxType && it.IsList && len(it.List) > 0 && it.List[0].IsList {
		info.sidecar = true
		inner := refrlp.Encode(it.List[0])
		info.canonical = append([]byte{types.BlobTxType}, inner...)
		info.txListLen = len(inner)
		for _, c := range it.List[1:] {
			info.sidecarLen += len(refrlp.Encode(c))
		}
	}
	return info
}

func headLen(n int) int {
	if n < 56 {
		return 1
	}
	l := 1
	for ; n > 0; n >>= 8 {
		l++
	}
	return l
}

// degenerateSidecar: the sidecar content and tx+sidecar content fall into different RLP
// header-length classes (only used to choose the fingerprint of a size violation).
func (e envelopeInfo) degenerateSidecar() bool {
	return e.sidecar && headLen(e.sidecarLen) != headLen(e.txListLen+e.sidecarLen)
}

func sizeFingerprint(kind string, e envelopeInfo) string {
	if e.degenerateSidecar() {
		return "size:blob-sidecar-headsize"
	}
	return "size:" + kind + ":" + tname(e.typ)
}

// ---------------------------------------------------------------------------------------
// JSON representability (what transaction_marshalling.go documents by its explicit checks)

func fits256(xs ...*big.Int) bool {
	for _, x := range xs {
		if x != nil && x.BitLen() > 256 {
			return false
		}
	}
	return true
}

// jsonRepresentable: UnmarshalJSON validates what the binary codec does not: signature values
// (unless all zero), yParity in {0,1}, >= 1 blob hash, a present authorization list; hexutil.Big
// is limited to 256 bits; AccessTuple.storageKeys is a required field (nil marshals as null).
func jsonRepresentable(tx *types.Transaction) (bool, string) {
	v, r, s := tx.RawSignatureValues()
	if !fits256(v, r, s, tx.GasPrice(), tx.GasTipCap(), tx.GasFeeCap(), tx.Value(), tx.ChainId()) {
		return false, "wider-than-256-bits"
	}
	if v.Sign() != 0 || r.Sign() != 0 || s.Sign() != 0 {
		if r.Sign() <= 0 || s.Sign() <= 0 || r.Cmp(secpN) >= 0 || s.Cmp(secpN) >= 0 {
			return false, "signature-out-of-range"
		}
		if tx.Type() == types.LegacyTxType {
			if !(v.Cmp(big.NewInt(27)) == 0 || v.Cmp(big.NewInt(28)) == 0 || v.Cmp(big.NewInt(35)) >= 0) {
				return false, "legacy-v"
			}
		} else if !(v.Sign() == 0 || v.Cmp(big.NewInt(1)) == 0) {
			return false, "yparity"
		}
	}
	for _, t := range tx.AccessList() {
		if t.StorageKeys == nil {
			return false, "nil-storagekeys"
		}
	}
	switch tx.Type() {
	case types.BlobTxType:
		if len(tx.BlobHashes()) == 0 {
			return false, "no-blob-hashes"
		}
	case types.SetCodeTxType:
		if len(tx.SetCodeAuthorizations()) == 0 {
			return false, "no-authorizations"
		}
	}
	return true, ""
}

// ---------------------------------------------------------------------------------------

type judge struct {
	r  *vrt.Run
	ci int
	w  map[string]any
}

func (j *judge) viol(fp, format string, a ...any) {
	j.r.Violation(fp, fmt.Sprintf(format, a...), j.w)
}

// checkDecoded judges a transaction that was just decoded from envelope b (binary form).
// via is "binary" or "element".
func (j *judge) checkDecoded(tx *types.Transaction, b []byte, e envelopeInfo, via string) {
	tn := tname(tx.Type())
	out, err := tx.MarshalBinary()
	if err != nil || !bytes.Equal(out, b) {
		fp := via + ":accepted-but-remarshals-differently:" + tn
		if e.rlpErr != nil {
			fp = via + ":accepts-noncanonical-rlp:" + tn
		}
		j.w["remarshalled"] = witnessBytes(out)
		j.viol(fp, "%s decode of %s accepted, MarshalBinary gives %s (%v)", via, short(b), short(out), err)
	} else if e.rlpErr != nil {
		j.viol(via+":accepts-noncanonical-rlp:"+tn, "%s decode of %s accepted and re-marshals identically, but the reference says: %v", via, short(b), e.rlpErr)
	}
	if got := tx.Size(); got != uint64(len(b)) {
		j.viol(sizeFingerprint("decoded-"+via, e), "Size() = %d after %s decode of a %d-byte envelope", got, via, len(b))
	}
	want := keccak(e.canonical)
	if got := tx.Hash(); got != want {
		fp := "hash:" + via + ":" + tn
		if e.sidecar {
			fp = "hash:" + via + ":blob-with-sidecar"
		}
		j.viol(fp, "Hash() = %x, Keccak256(canonical envelope) = %x", got, want)
	}
	ag.Count(j.ci, "accepted_"+via+"_"+tn, 1)
}

// checkSidecarOps: strip / attach.
func (j *judge) checkSidecarOps(tx *types.Transaction, b []byte, e envelopeInfo, origin string) {
	sc := tx.BlobTxSidecar()
	if sc == nil {
		return
	}
	want := keccak(e.canonical)
	stripped := tx.WithoutBlobTxSidecar()
	if stripped.BlobTxSidecar() != nil {
		j.viol("sidecar:strip-keeps-sidecar", "WithoutBlobTxSidecar() still has a sidecar")
	}
	if got := stripped.Hash(); got != want {
		j.viol("sidecar:strip-changes-hash", "WithoutBlobTxSidecar().Hash() = %x, want %x", got, want)
	}
	sb, err := stripped.MarshalBinary()
	if err != nil || !bytes.Equal(sb, e.canonical) {
		j.viol("sidecar:strip-encoding", "WithoutBlobTxSidecar().MarshalBinary() = %s (%v), want %s", short(sb), err, short(e.canonical))
	}
	if got := stripped.Size(); got != uint64(len(sb)) {
		j.w["stripped_size"] = got
		j.w["stripped_len"] = len(sb)
		j.viol(sizeFingerprint("stripped-"+origin, e), "WithoutBlobTxSidecar().Size() = %d but its MarshalBinary() has %d bytes (tx with sidecar: %d bytes, Size() %d; tx list %d bytes, sidecar content %d bytes)", got, len(sb), len(b), tx.Size(), e.txListLen, e.sidecarLen)
	}
	ag.Count(j.ci, "sidecar_strip_checks", 1)
	// attach again
	re := stripped.WithBlobTxSidecar(sc)
	rb, err := re.MarshalBinary()
	if err != nil || !bytes.Equal(rb, b) {
		j.viol("sidecar:reattach-encoding", "WithBlobTxSidecar(WithoutBlobTxSidecar()) encodes to %s (%v), want %s", short(rb), err, short(b))
	}
	if got := re.Hash(); got != want {
		j.viol("sidecar:reattach-changes-hash", "hash after re-attaching the sidecar = %x, want %x", got, want)
	}
	if got := re.Size(); got != uint64(len(rb)) {
		j.w["reattached_size"] = got
		j.w["reattached_len"] = len(rb)
		j.viol(sizeFingerprint("reattached", e), "Size() after re-attaching the sidecar = %d but MarshalBinary() has %d bytes (tx list %d bytes, sidecar content %d bytes)", got, len(rb), e.txListLen, e.sidecarLen)
	}
	ag.Count(j.ci, "sidecar_attach_checks", 1)
}

// checkJSON: marshal -> unmarshal reproduces hash and canonical encoding.
func (j *judge) checkJSON(tx *types.Transaction, e envelopeInfo, origin string) {
	tn := tname(tx.Type())
	ok, why := jsonRepresentable(tx)
	if !ok {
		ag.Count(j.ci, "json_not_representable_"+why, 1)
		// still must not panic
		if js, err := tx.MarshalJSON(); err == nil {
			var back types.Transaction
			back.UnmarshalJSON(js)
		}
		return
	}
	js, err := tx.MarshalJSON()
	if err != nil {
		j.viol("json:marshal-error:"+tn, "MarshalJSON: %v", err)
		return
	}
	want := keccak(e.canonical)
	var generic map[string]json.RawMessage
	if err := json.Unmarshal(js, &generic); err != nil {
		j.viol("json:not-an-object:"+tn, "MarshalJSON output does not parse: %v", err)
		return
	}
	if h := strings.Trim(string(generic["hash"]), `"`); h != want.Hex() {
		j.viol("json:hash-field:"+tn, "JSON hash field %s, want %s", h, want.Hex())
	}
	var back types.Transaction
	if err := back.UnmarshalJSON(js); err != nil {
		if len(js) < 6000 {
			j.w["json"] = string(js)
		}
		j.viol("json:unmarshal-rejects-own-output:"+tn, "UnmarshalJSON(MarshalJSON(tx)): %v", err)
		return
	}
	bb, err := back.MarshalBinary()
	if err != nil || !bytes.Equal(bb, e.canonical) {
		if len(js) < 6000 {
			j.w["json"] = string(js)
		}
		j.w["after_json"] = witnessBytes(bb)
		j.viol("json:roundtrip-changes-encoding:"+tn, "after the JSON round trip the canonical encoding is %s (%v), want %s", short(bb), err, short(e.canonical))
	}
	if got := back.Hash(); got != want {
		j.viol("json:roundtrip-changes-hash:"+tn, "after the JSON round trip Hash() = %x, want %x", got, want)
	}
	if got := back.Size(); got != uint64(len(bb)) {
		j.viol("size:after-json:"+tn, "after the JSON round trip Size() = %d, encoding has %d bytes", got, len(bb))
	}
	if e.sidecar {
		ag.Count(j.ci, "json_roundtrips_sidecar_dropped", 1)
	}
	ag.Count(j.ci, "json_roundtrips_"+origin, 1)
}

func elementForm(b []byte) []byte {
	if len(b) > 0 && b[0] > 0x7f {
		return b
	}
	return refrlp.EncodeString(b)
}

// checkElement decodes elem as an RLP list element and judges it like the binary form.
func (j *judge) checkElement(elem []byte, mk string) (accepted bool) {
	var tx types.Transaction
	err := rlp.DecodeBytes(elem, &tx)
	if err != nil {
		ag.Count(j.ci, "rejected_element", 1)
		return false
	}
	// the envelope inside the element, read by the reference
	var env []byte
	it, rerr := refrlp.Decode(elem)
	switch {
	case rerr != nil:
		j.viol("element:accepts-noncanonical-rlp:"+tname(tx.Type()), "rlp.DecodeBytes(%s) into Transaction accepted; reference: %v", short(elem), rerr)
		return true
	case it.IsList:
		env = elem
	default:
		env = it.Str
	}
	e := readEnvelope(env)
	j.checkDecoded(&tx, env, e, "element")
	re, err := rlp.EncodeToBytes(&tx)
	if err != nil || !bytes.Equal(re, elem) {
		j.viol("element:reencode-differs:"+tname(tx.Type()), "Transaction decoded from element %s re-encodes to %s (%v)", short(elem), short(re), err)
	}
	return true
}

// checkConstructed judges one generated transaction.
func checkConstructed(r *vrt.Run, i int, rng *rand.Rand) {
	var m meta
	g := &gen{rng: rng, m: &m}
	typ := byte(rng.Intn(5))
	inner := g.tx(typ)
	tx := types.NewTx(inner)
	w := map[string]any{"case": i, "type": tname(typ), "sidecar": m.sidecar, "blobs": m.nblobs, "sig": m.sig}
	j := &judge{r: r, ci: i, w: w}
	big := m.nblobs > 0
	r.Guard("constructed", w, func() {
		b, err := tx.MarshalBinary()
		if err != nil {
			j.viol("marshal-error:"+tname(typ), "MarshalBinary of a constructed %s transaction: %v", tname(typ), err)
			return
		}
		w["envelope"] = witnessBytes(b)
		e := readEnvelope(b)
		if e.rlpErr != nil {
			j.viol("marshal:noncanonical-rlp:"+tname(typ), "MarshalBinary produced %s; reference: %v", short(b), e.rlpErr)
			return
		}
		if e.sidecar != (m.sidecar != "none") {
			j.viol("marshal:sidecar-form", "sidecar=%s but envelope %s", m.sidecar, short(b))
		}
		if r.WantSample() && len(b) < 400 {
			r.Sample(map[string]any{"type": tname(typ), "sidecar": m.sidecar, "sig": m.sig, "envelope": vrt.Hex(b)})
		}
		// fresh size (before anything else can populate the cache)
		fresh := types.NewTx(inner)
		if got := fresh.Size(); got != uint64(len(b)) {
			w["fresh_size"] = got
			w["encoded_len"] = len(b)
			j.viol(sizeFingerprint("fresh", e), "freshly constructed %s tx: Size() = %d, len(MarshalBinary()) = %d (tx list %d bytes, sidecar content %d bytes)", tname(typ), got, len(b), e.txListLen, e.sidecarLen)
		}
		ag.Count(i, "fresh_size_checks", 1)
		want := keccak(e.canonical)
		if got := tx.Hash(); got != want {
			j.viol("hash:constructed:"+tname(typ), "Hash() = %x, Keccak256(canonical envelope) = %x", got, want)
		}
		// binary decode
		var dec types.Transaction
		if err := dec.UnmarshalBinary(b); err != nil {
			j.viol("binary:rejects-own-encoding:"+tname(typ), "UnmarshalBinary(MarshalBinary(tx)): %v", err)
			return
		}
		j.checkDecoded(&dec, b, e, "binary")
		// list element form
		elem, err := rlp.EncodeToBytes(tx)
		if err != nil || !bytes.Equal(elem, elementForm(b)) {
			j.viol("element:encode-differs:"+tname(typ), "rlp.EncodeToBytes(tx) = %s (%v), want %s", short(elem), err, short(elementForm(b)))
		} else if !j.checkElement(elem, "none") {
			j.viol("element:rejects-own-encoding:"+tname(typ), "rlp.DecodeBytes(rlp.EncodeToBytes(tx)) failed")
		}
		// sidecar
		if e.sidecar {
			j.checkSidecarOps(&dec, b, e, "decoded")
			j.checkSidecarOps(tx, b, e, "constructed") // tx.Size() not yet cached -> strip computes afresh
			j.checkSidecarOps(fresh, b, e, "constructed-sized")
		}
		// JSON (large sidecars only now and then: hex of 128 KiB blobs)
		if !big || rng.Intn(4) == 0 {
			j.checkJSON(tx, e, "constructed")
			j.checkJSON(&dec, e, "decoded")
		}
		// batch form
		if i%16 == 0 && !big {
			other := types.NewTx(g.tx(byte(rng.Intn(5))))
			if ob, err := other.MarshalBinary(); err == nil && len(ob) < 1<<17 {
				list := types.Transactions{tx, other, tx}
				lb, err := rlp.EncodeToBytes(list)
				wantList := refrlp.EncodeListRaw(elementForm(b), elementForm(ob), elementForm(b))
				if err != nil || !bytes.Equal(lb, wantList) {
					j.viol("list:encode-differs", "Transactions list encodes to %s (%v), want %s", short(lb), err, short(wantList))
				} else {
					var back types.Transactions
					if err := rlp.DecodeBytes(lb, &back); err != nil || len(back) != 3 {
						j.viol("list:rejects-own-encoding", "decoding a Transactions list: %v", err)
					} else {
						for k, t := range back {
							wb := [][]byte{b, ob, b}[k]
							if got, _ := t.MarshalBinary(); !bytes.Equal(got, wb) || t.Size() != uint64(len(wb)) {
								j.viol("list:element-differs", "element %d of a decoded Transactions list: encoding/size differ", k)
							}
						}
						ag.Count(i, "list_roundtrips", 1)
					}
				}
			}
		}
	})
	al := m.alShape
	if typ == types.LegacyTxType {
		al = "-"
	}
	ag.Eval(i, fmt.Sprintf("new/%s/sc=%s/blobs%d/sig=%s/wide=%v/data%s/al=%s/auth%d/hashes%d/create=%v", tname(typ), m.sidecar, m.nblobs, m.sig, m.wide, lenClass(m.dataLen), al, m.nAuth, min(m.nHashes, 2), m.creation))
}

func lenClass(n int) string {
	switch {
	case n == 0:
		return "0"
	case n < 56:
		return "<56"
	case n < 256:
		return "<256"
	case n < 65536:
		return "<64k"
	}
	return ">=64k"
}

// ---------------------------------------------------------------------------------------
// mutated envelopes

// treeMutate applies a transaction-specific structural edit to the payload tree and re-encodes
// canonically (so acceptance is decided by the typed decoder, not by RLP canonicality).
func treeMutate(rng *rand.Rand, b []byte) ([]byte, string) {
	typed := len(b) > 0 && b[0] <= 0x7f
	payload := b
	if typed {
		payload = b[1:]
	}
	it, err := refrlp.Decode(payload)
	if err != nil || !it.IsList {
		return nil, ""
	}
	// descend into the tx list of a sidecar envelope half of the time
	target := it
	if len(it.List) > 0 && it.List[0].IsList && typed && b[0] == types.BlobTxType && rng.Intn(2) == 0 {
		target = it.List[0]
	}
	kind := ""
	switch rng.Intn(8) {
	case 0:
		kind = "extra-item"
		extra := refrlp.Str([]byte{byte(rng.Intn(256))})
		if rng.Intn(2) == 0 {
			extra = refrlp.List()
		}
		target.List = append(target.List, extra)
	case 1:
		kind = "drop-last"
		if len(target.List) == 0 {
			return nil, ""
		}
		target.List = target.List[:len(target.List)-1]
	case 2:
		kind = "swap-fields"
		if len(target.List) < 2 {
			return nil, ""
		}
		k := rng.Intn(len(target.List) - 1)
		target.List[k], target.List[k+1] = target.List[k+1], target.List[k]
	case 3:
		kind = "field-kind"
		if len(target.List) == 0 {
			return nil, ""
		}
		k := rng.Intn(len(target.List))
		if target.List[k].IsList {
			target.List[k] = refrlp.Str(nil)
		} else {
			target.List[k] = refrlp.List()
		}
	case 4:
		kind = "field-leading-zero"
		var strs []*refrlp.Item
		for _, c := range target.List {
			if !c.IsList {
				strs = append(strs, c)
			}
		}
		if len(strs) == 0 {
			return nil, ""
		}
		c := strs[rng.Intn(len(strs))]
		c.Str = append([]byte{0}, c.Str...)
	case 5:
		kind = "field-resize"
		if len(target.List) == 0 {
			return nil, ""
		}
		c := target.List[rng.Intn(len(target.List))]
		if c.IsList {
			return nil, ""
		}
		switch rng.Intn(3) {
		case 0:
			c.Str = append(c.Str, byte(rng.Intn(256)))
		case 1:
			if len(c.Str) > 0 {
				c.Str = c.Str[1:]
			}
		default:
			c.Str = make([]byte, []int{8, 9, 19, 20, 21, 31, 32, 33}[rng.Intn(8)])
			rng.Read(c.Str)
		}
	case 6:
		kind = "type-byte"
		out := append([]byte{}, b...)
		if typed {
			out[0] = []byte{0, 1, 2, 3, 4, 5, 0x7f}[rng.Intn(7)]
			return out, kind
		}
		return append([]byte{byte(1 + rng.Intn(4))}, b...), kind
	default:
		kind = "sidecar-version"
		if !(typed && b[0] == types.BlobTxType && len(it.List) > 1 && it.List[0].IsList) {
			// turn a plain blob tx into a sidecar envelope with an empty sidecar
			if typed && b[0] == types.BlobTxType {
				wrapped := refrlp.List(it, refrlp.List(), refrlp.List(), refrlp.List())
				if rng.Intn(2) == 0 {
					wrapped = refrlp.List(it, refrlp.Str([]byte{byte(rng.Intn(3))}), refrlp.List(), refrlp.List(), refrlp.List())
				}
				return append([]byte{b[0]}, refrlp.Encode(wrapped)...), "wrap-empty-sidecar"
			}
			return nil, ""
		}
		if !it.List[1].IsList {
			it.List[1] = refrlp.Str([]byte{[]byte{0, 2, 0x7f, 0x80, 1}[rng.Intn(5)]})
			if rng.Intn(4) == 0 {
				it.List = append(it.List[:1], it.List[2:]...) // v1 -> v0 layout
			}
		} else {
			it.List = append([]*refrlp.Item{it.List[0], refrlp.Str([]byte{byte(rng.Intn(3))})}, it.List[1:]...)
		}
	}
	out := refrlp.Encode(it)
	if typed {
		out = append([]byte{b[0]}, out...)
	}
	return out, kind
}

func checkBytes(r *vrt.Run, i int, b []byte, mk string, originType string) {
	w := map[string]any{"case": i, "mutation": mk, "origin": originType, "envelope": witnessBytes(b)}
	j := &judge{r: r, ci: i, w: w}
	r.Guard("bytes", w, func() {
		var tx types.Transaction
		err := tx.UnmarshalBinary(append([]byte{}, b...))
		outcome := "rejected"
		tn := "-"
		if err == nil {
			outcome = "accepted"
			tn = tname(tx.Type())
			e := readEnvelope(b)
			j.checkDecoded(&tx, b, e, "binary")
			if e.sidecar {
				j.checkSidecarOps(&tx, b, e, "decoded")
				outcome = "accepted-sidecar"
			}
			if i%4 == 0 {
				j.checkJSON(&tx, e, "mutated")
			}
		} else {
			ag.Count(i, "rejected_binary", 1)
		}
		// list-element form of the same bytes
		elemAccepted := j.checkElement(elementForm(b), mk)
		if elemAccepted != (err == nil) {
			ag.Count(i, "binary_vs_element_acceptance_differs", 1)
		}
		ag.Eval(i, fmt.Sprintf("bytes/%s/%s/%s/%s", originType, mk, outcome, tn))
	})
}

// checkElementMutant: defects in the string header that wraps a typed envelope.
func checkElementMutant(r *vrt.Run, i int, rng *rand.Rand, b []byte) {
	it := refrlp.Str(b)
	if len(b) > 0 && b[0] > 0x7f {
		var err error
		if it, err = refrlp.Decode(b); err != nil {
			return
		}
	}
	elem, mk := rlpmut.Mutate(rng, elementForm(b), it)
	w := map[string]any{"case": i, "mutation": "element-" + mk.String(), "element": witnessBytes(elem)}
	j := &judge{r: r, ci: i, w: w}
	r.Guard("element", w, func() {
		acc := j.checkElement(elem, mk.String())
		ag.Eval(i, fmt.Sprintf("elem/%s/accepted=%v", mk, acc))
	})
}

// ---------------------------------------------------------------------------------------

func run(r *vrt.Run) {
	r.Rule("constructed: all five types with boundary-biased fields (nil/0/max ints, >256-bit ints where the format allows, data 0..70000 bytes, nil/empty/nested access lists, 0..3 authorizations, To nil), signatures zero/valid/arbitrary, blob sidecars none/v0/v1 with 0,1,2,6 blobs and mismatching counts. byte strings: encodings of such transactions with one RLP-level defect (lib/rlpmut), one structural edit (extra/dropped/swapped field, field kind, leading zero, resize, type byte, sidecar version/wrapping), or random. non-trivial signature = (type, sidecar form, #blobs, signature class, data length class, access-list shape, #auth, #hashes) for constructed cases; (origin type, mutation, accepted?, decoded type) for byte strings")
	defer profile()()
	ag = agg.New(r)
	shrink := 1
	if r.Race() {
		// the race variant (thorough tier only) is about the shared hash/size/from caches;
		// ~12x slowdown once large allocations are avoided (lightBlobs)
		shrink = 12
		lightBlobs = true
	}
	nNew := r.N(20000, 500000) / shrink
	nMut := r.N(200000, 10000000) / shrink
	nShared := r.N(300, 3000) / min(shrink, 4)

	// seeds for mutation: small envelopes of every type (sidecars only with 0 blobs)
	type seed struct {
		b  []byte
		tn string
	}
	perCase := make([][]seed, nNew)
	vrt.Par(nNew, 0, func(i int) {
		rng := r.Rand("new", i)
		r.Case("constructed #%d", i)
		checkConstructed(r, i, rng)
		if i%4 == 0 {
			var m meta
			g := &gen{rng: r.Rand("seedtx", i), m: &m}
			tx := types.NewTx(g.tx(byte(i / 4 % 5)))
			if b, err := tx.MarshalBinary(); err == nil && len(b) < 2500 {
				tn := tname(m.typ)
				if m.sidecar != "none" {
					tn += "+" + m.sidecar
				}
				perCase[i] = append(perCase[i], seed{b, tn})
			}
		}
	})
	var seeds []seed
	for _, s := range perCase {
		seeds = append(seeds, s...)
	}
	r.Extra("mutation_seeds", len(seeds))
	if len(seeds) < 100 {
		r.Inconclusive("only %d mutation seeds", len(seeds))
		return
	}

	vrt.Par(nMut, 0, func(i int) {
		rng := r.Rand("mut", i)
		s := seeds[rng.Intn(len(seeds))]
		var (
			b  []byte
			mk string
		)
		switch c := rng.Intn(20); {
		case c < 8:
			payload := s.b
			typed := s.b[0] <= 0x7f
			if typed {
				payload = s.b[1:]
			}
			it, err := refrlp.Decode(payload)
			if err != nil {
				return
			}
			out, k := rlpmut.Mutate(rng, payload, it)
			if typed {
				out = append([]byte{s.b[0]}, out...)
			}
			b, mk = out, "rlp-"+k.String()
		case c < 17:
			b, mk = treeMutate(rng, s.b)
			if b == nil {
				b, mk = s.b, "none"
			}
		case c < 18:
			b, mk = s.b, "none"
		default:
			b, mk = rlpmut.RandomString(rng), "random"
			if rng.Intn(2) == 0 && len(b) > 0 {
				b[0] = byte(rng.Intn(5))
			}
			s.tn = "-"
		}
		r.Case("bytes #%d %s %s", i, mk, short(b))
		ag.Count(i, "mutation_"+mk, 1)
		checkBytes(r, i, b, mk, s.tn)
		if i%8 == 0 {
			checkElementMutant(r, i, rng, s.b)
		}
		if i < 3 {
			r.Sample(map[string]any{"mutation": mk, "origin": s.tn, "bytes": short(b)})
		}
	})

	// ---- shared caches: one transaction object used by 8 goroutines at once
	for i := 0; i < nShared; i++ {
		var m meta
		rng := r.Rand("shared", i)
		g := &gen{rng: rng, m: &m}
		typ := byte(i % 5)
		inner := g.tx(typ)
		if m.nblobs > 1 {
			continue
		}
		ref := types.NewTx(inner)
		b, err := ref.MarshalBinary()
		if err != nil {
			continue
		}
		e := readEnvelope(b)
		want := keccak(e.canonical)
		tx := types.NewTx(inner)
		if i%2 == 1 {
			tx = new(types.Transaction)
			if err := tx.UnmarshalBinary(b); err != nil {
				continue
			}
		}
		r.Case("shared #%d %s", i, tname(typ))
		w := map[string]any{"case": i, "type": tname(typ), "envelope": witnessBytes(b)}
		j := &judge{r: r, ci: i, w: w}
		start := make(chan struct{})
		var wg sync.WaitGroup
		var vmu sync.Mutex
		for k := 0; k < 8; k++ {
			wg.Add(1)
			go func(k int) {
				defer wg.Done()
				<-start
				r.Guard("shared", w, func() {
					h := tx.Hash()
					sz := tx.Size()
					st := tx.WithoutBlobTxSidecar()
					sh := st.Hash()
					mb, _ := tx.MarshalBinary()
					vmu.Lock()
					defer vmu.Unlock()
					if h != want || sh != want {
						j.viol("shared:hash", "concurrent Hash() = %x / stripped %x, want %x", h, sh, want)
					}
					if sz != uint64(len(b)) {
						j.viol(sizeFingerprint("shared", e), "concurrent Size() = %d, want %d", sz, len(b))
					}
					if !bytes.Equal(mb, b) {
						j.viol("shared:encoding", "concurrent MarshalBinary differs")
					}
				})
			}(k)
		}
		close(start)
		wg.Wait()
		ag.Count(i, "shared_tx_objects", 1)
		ag.Eval(i, "")
	}

	ag.Flush()
	require := func(name string, n int64) {
		if r.Race() && r.Quick() { // not a configured variant; sizes are 1/12 there
			n /= 20
		}
		if lightBlobs && strings.HasPrefix(name, "sidecar_") {
			n /= 4
		}
		r.Require(name, n)
	}
	for _, t := range []string{"legacy", "accesslist", "dynfee", "blob", "setcode"} {
		require("accepted_binary_"+t, 100)
		require("accepted_element_"+t, 100)
	}
	require("rejected_binary", 1000)
	require("sidecar_strip_checks", 100)
	require("sidecar_attach_checks", 100)
	require("json_roundtrips_constructed", 500)
	require("json_roundtrips_decoded", 500)
	require("fresh_size_checks", 1000)
	r.Assume("golang.org/x/crypto/sha3 legacy Keccak-256 as hash reference; refrlp as definition of canonical RLP and to extract the sidecar-free envelope")
	r.Assume("JSON round trip is judged only for transactions UnmarshalJSON is documented (by its explicit checks) to admit: signature all-zero or in range with yParity/27/28/EIP-155 v, integers <= 256 bits, >= 1 blob hash, >= 1 authorization, non-nil storageKeys; for blob transactions with sidecar JSON reproduces the canonical (sidecar-free) transaction")
}
