package main

import (
	"fmt"
	"os"

	"github.com/ethereum/go-ethereum/core/types"
	"github.com/holiman/uint256"
)

// VERIF_C02_WITNESS=1 prints the minimal hand-made witness of the finding
// "size:blob-sidecar-headsize" (for the finding record; not part of the check).
func init() {
	if os.Getenv("VERIF_C02_WITNESS") == "" {
		return
	}
	big := new(uint256.Int).Lsh(uint256.NewInt(1), 255)
	for _, version := range []byte{0, 1} {
		inner := &types.BlobTx{ChainID: uint256.NewInt(1), R: big, S: big, Sidecar: &types.BlobTxSidecar{Version: version}}
		tx := types.NewTx(inner)
		b, _ := tx.MarshalBinary()
		fmt.Printf("sidecar v%d, zero blobs: NewTx(BlobTx{ChainID:1, R:2^255, S:2^255, Sidecar:&BlobTxSidecar{Version:%d}})\n", version, version)
		fmt.Printf("  MarshalBinary (%d bytes) = %x\n  fresh Size() = %d\n", len(b), b, types.NewTx(inner).Size())
		var dec types.Transaction
		if err := dec.UnmarshalBinary(b); err != nil {
			fmt.Println("  UnmarshalBinary:", err)
			continue
		}
		st := dec.WithoutBlobTxSidecar()
		sb, _ := st.MarshalBinary()
		fmt.Printf("  UnmarshalBinary ok, Size() = %d; WithoutBlobTxSidecar(): MarshalBinary %d bytes, Size() = %d\n", dec.Size(), len(sb), st.Size())
	}
	os.Exit(0)
}
