package main

// Generator of transactions of all five types with boundary-biased field values.

import (
	"math/big"
	"math/rand"

	"github.com/ethereum/go-ethereum/common"
	"github.com/ethereum/go-ethereum/core/types"
	"github.com/ethereum/go-ethereum/crypto/kzg4844"
	"github.com/holiman/uint256"
)

var (
	secpN, _ = new(big.Int).SetString("fffffffffffffffffffffffffffffffebaaedce6af48a03bbfd25e8cd0364141", 16)
	two256   = new(big.Int).Lsh(big.NewInt(1), 256)
)

// meta describes how a case was built (evidence signature, and what may be judged).
type meta struct {
	typ      byte
	sidecar  string // "none", "v0", "v1"
	nblobs   int
	sig      string // "zero", "valid", "arbitrary"
	wide     bool   // some big.Int field exceeds 256 bits (not representable in JSON)
	nilKeys  bool   // an access tuple with nil (not empty) StorageKeys
	dataLen  int
	alShape  string
	nAuth    int
	nHashes  int
	creation bool
}

// lightBlobs (race build): allocations of 64 KiB and more (blobs, huge calldata) cost ~70x under the
// race detector (shadow memory of large allocations); the race variant is about the shared caches, not about blob sizes.
var lightBlobs bool

type gen struct {
	rng *rand.Rand
	m   *meta
}

func (g *gen) bytes(n int) []byte {
	b := make([]byte, n)
	g.rng.Read(b)
	return b
}

func (g *gen) u64() uint64 {
	switch g.rng.Intn(6) {
	case 0:
		return 0
	case 1:
		return []uint64{1, 0x7f, 0x80, 0xff, 0x100, 21000}[g.rng.Intn(6)]
	case 2:
		return ^uint64(0) - uint64(g.rng.Intn(2))
	case 3:
		return g.rng.Uint64() >> uint(g.rng.Intn(64))
	}
	return g.rng.Uint64()
}

// big returns a non-negative integer; allowWide permits > 256 bits (legacy/2930/1559 fields
// are arbitrary-precision in the binary format).
func (g *gen) big(allowWide, allowNil bool) *big.Int {
	switch g.rng.Intn(10) {
	case 0:
		if allowNil {
			return nil
		}
		return new(big.Int)
	case 1:
		return new(big.Int)
	case 2:
		return new(big.Int).SetUint64(g.u64())
	case 3:
		return new(big.Int).Sub(two256, big.NewInt(1+int64(g.rng.Intn(2))))
	case 4:
		k := uint(g.rng.Intn(32)+1) * 8
		x := new(big.Int).Lsh(big.NewInt(1), k)
		x.Add(x, big.NewInt(int64(g.rng.Intn(3))-1))
		if x.Cmp(two256) >= 0 {
			x.Sub(two256, big.NewInt(1))
		}
		return x
	case 5:
		if allowWide && g.rng.Intn(4) == 0 {
			g.m.wide = true
			return new(big.Int).SetBytes(g.bytes(33 + g.rng.Intn(8)))
		}
		fallthrough
	default:
		b := g.bytes(1 + g.rng.Intn(32))
		return new(big.Int).SetBytes(b)
	}
}

func (g *gen) u256(allowNil bool) *uint256.Int {
	b := g.big(false, allowNil)
	if b == nil {
		return nil
	}
	x, _ := uint256.FromBig(b)
	return x
}

func (g *gen) data() []byte {
	var n int
	switch x := g.rng.Intn(20); {
	case x < 4:
		n = 0
	case x < 10:
		n = []int{1, 4, 32, 36, 54, 55, 56, 57, 68, 255, 256}[g.rng.Intn(11)]
	case x < 19:
		n = g.rng.Intn(400)
	default:
		n = []int{65535, 65536, 70000}[g.rng.Intn(3)]
		if lightBlobs {
			n = 300
		}
	}
	g.m.dataLen = n
	if n == 0 && g.rng.Intn(2) == 0 {
		return nil
	}
	b := g.bytes(n)
	if n == 1 && g.rng.Intn(2) == 0 {
		b[0] &= 0x7f
	}
	return b
}

func (g *gen) addr() common.Address {
	var a common.Address
	if g.rng.Intn(8) > 0 {
		g.rng.Read(a[:])
	}
	return a
}

func (g *gen) to() *common.Address {
	if g.rng.Intn(4) == 0 {
		g.m.creation = true
		return nil
	}
	a := g.addr()
	return &a
}

func (g *gen) hash() common.Hash {
	var h common.Hash
	if g.rng.Intn(8) > 0 {
		g.rng.Read(h[:])
	}
	return h
}

func (g *gen) accessList() types.AccessList {
	switch g.rng.Intn(6) {
	case 0:
		g.m.alShape = "nil"
		return nil
	case 1:
		g.m.alShape = "empty"
		return types.AccessList{}
	}
	n := 1 + g.rng.Intn(3)
	al := make(types.AccessList, n)
	keys := 0
	for i := range al {
		al[i].Address = g.addr()
		k := g.rng.Intn(4)
		if g.rng.Intn(10) == 0 {
			k = 20 + g.rng.Intn(10)
		}
		if k == 0 && g.rng.Intn(3) == 0 {
			g.m.nilKeys = true // StorageKeys stays nil
			continue
		}
		al[i].StorageKeys = make([]common.Hash, k)
		for j := range al[i].StorageKeys {
			al[i].StorageKeys[j] = g.hash()
		}
		keys += k
	}
	g.m.alShape = "tuples"
	if keys == 0 {
		g.m.alShape = "tuples-nokeys"
	} else if keys >= 20 {
		g.m.alShape = "tuples-manykeys"
	}
	return al
}

func (g *gen) authList() []types.SetCodeAuthorization {
	n := g.rng.Intn(4)
	g.m.nAuth = n
	if n == 0 {
		if g.rng.Intn(2) == 0 {
			return nil
		}
		return []types.SetCodeAuthorization{}
	}
	out := make([]types.SetCodeAuthorization, n)
	for i := range out {
		out[i] = types.SetCodeAuthorization{
			ChainID: *g.u256(false),
			Address: g.addr(),
			Nonce:   g.u64(),
			V:       uint8(g.rng.Intn(256)),
			R:       *g.u256(false),
			S:       *g.u256(false),
		}
		if g.rng.Intn(2) == 0 {
			out[i].V = uint8(g.rng.Intn(2))
		}
	}
	return out
}

// sig produces V, R, S. legacy selects the legacy V conventions.
func (g *gen) sig(legacy bool) (v, r, s *big.Int) {
	switch g.rng.Intn(5) {
	case 0:
		g.m.sig = "zero"
		if g.rng.Intn(2) == 0 {
			return nil, nil, nil
		}
		return new(big.Int), new(big.Int), new(big.Int)
	case 1, 2, 3:
		g.m.sig = "valid"
		inRange := func() *big.Int {
			switch g.rng.Intn(6) {
			case 0:
				return big.NewInt(1)
			case 1:
				return new(big.Int).Sub(secpN, big.NewInt(1))
			case 2:
				return new(big.Int).Rsh(secpN, 1)
			}
			x := new(big.Int).SetBytes(g.bytes(32))
			x.Mod(x, new(big.Int).Sub(secpN, big.NewInt(1)))
			return x.Add(x, big.NewInt(1))
		}
		r, s = inRange(), inRange()
		par := int64(g.rng.Intn(2))
		if !legacy {
			return big.NewInt(par), r, s
		}
		if g.rng.Intn(2) == 0 {
			return big.NewInt(27 + par), r, s
		}
		// EIP-155: 35 + 2*chainid + parity
		var c *big.Int
		switch g.rng.Intn(5) {
		case 0:
			c = big.NewInt(0)
		case 1:
			c = big.NewInt(1)
		case 2:
			c = new(big.Int).SetUint64(g.rng.Uint64())
		case 3:
			c = new(big.Int).Lsh(big.NewInt(1), 200)
		default:
			c = big.NewInt(int64(g.rng.Intn(100000)))
		}
		v = new(big.Int).Lsh(c, 1)
		v.Add(v, big.NewInt(35+par))
		return v, r, s
	default:
		g.m.sig = "arbitrary"
		return g.big(legacy, true), g.big(legacy, true), g.big(legacy, true)
	}
}

func toU256(x *big.Int) *uint256.Int {
	if x == nil {
		return nil
	}
	x = new(big.Int).Mod(x, two256)
	y, _ := uint256.FromBig(x)
	return y
}

// sidecar builds a sidecar with nblobs blobs; degenerate forms (no blobs, mismatching counts)
// are included because the codec accepts them.
func (g *gen) sidecar() *types.BlobTxSidecar {
	version := byte(g.rng.Intn(2))
	var nb int
	switch x := g.rng.Intn(100); {
	case x < 55:
		nb = 0
	case x < 86:
		nb = 1
	case x < 96:
		nb = 2
	default:
		nb = 6
	}
	if lightBlobs {
		nb = 0
	}
	g.m.nblobs = nb
	g.m.sidecar = "v0"
	if version == 1 {
		g.m.sidecar = "v1"
	}
	sc := &types.BlobTxSidecar{Version: version}
	sc.Blobs = make([]kzg4844.Blob, nb)
	for i := range sc.Blobs {
		// random bytes; KZG validity is irrelevant to the codec
		g.rng.Read(sc.Blobs[i][:4096])
		copy(sc.Blobs[i][131072-64:], g.bytes(64))
	}
	nc, np := nb, nb
	if version == 1 {
		np = nb * kzg4844.CellProofsPerBlob
	}
	if g.rng.Intn(4) == 0 { // mismatching counts
		nc = g.rng.Intn(4)
		np = g.rng.Intn(300)
	}
	sc.Commitments = make([]kzg4844.Commitment, nc)
	for i := range sc.Commitments {
		g.rng.Read(sc.Commitments[i][:])
	}
	sc.Proofs = make([]kzg4844.Proof, np)
	for i := range sc.Proofs {
		g.rng.Read(sc.Proofs[i][:])
	}
	if nb == 0 && g.rng.Intn(3) == 0 {
		sc.Blobs, sc.Commitments, sc.Proofs = nil, nil, nil
	}
	return sc
}

// tx generates the inner data of one transaction of type typ.
func (g *gen) tx(typ byte) types.TxData {
	g.m.typ = typ
	g.m.sidecar = "none"
	switch typ {
	case types.LegacyTxType:
		v, r, s := g.sig(true)
		return &types.LegacyTx{Nonce: g.u64(), GasPrice: g.big(true, true), Gas: g.u64(), To: g.to(), Value: g.big(true, true), Data: g.data(), V: v, R: r, S: s}
	case types.AccessListTxType:
		v, r, s := g.sig(false)
		return &types.AccessListTx{ChainID: g.big(true, true), Nonce: g.u64(), GasPrice: g.big(true, true), Gas: g.u64(), To: g.to(), Value: g.big(true, true), Data: g.data(), AccessList: g.accessList(), V: v, R: r, S: s}
	case types.DynamicFeeTxType:
		v, r, s := g.sig(false)
		return &types.DynamicFeeTx{ChainID: g.big(true, true), Nonce: g.u64(), GasTipCap: g.big(true, true), GasFeeCap: g.big(true, true), Gas: g.u64(), To: g.to(), Value: g.big(true, true), Data: g.data(), AccessList: g.accessList(), V: v, R: r, S: s}
	case types.BlobTxType:
		v, r, s := g.sig(false)
		nh := g.rng.Intn(4)
		if g.rng.Intn(10) == 0 {
			nh = 6
		}
		g.m.nHashes = nh
		var hashes []common.Hash
		if nh > 0 || g.rng.Intn(2) == 0 {
			hashes = make([]common.Hash, nh)
			for i := range hashes {
				hashes[i] = g.hash()
				hashes[i][0] = 1
			}
		}
		tx := &types.BlobTx{ChainID: g.u256(true), Nonce: g.u64(), GasTipCap: g.u256(true), GasFeeCap: g.u256(true), Gas: g.u64(), To: g.addr(), Value: g.u256(true), Data: g.data(), AccessList: g.accessList(), BlobFeeCap: g.u256(true), BlobHashes: hashes, V: toU256(v), R: toU256(r), S: toU256(s)}
		if g.rng.Intn(10) < 3 {
			tx.Sidecar = g.sidecar()
		}
		return tx
	default:
		v, r, s := g.sig(false)
		return &types.SetCodeTx{ChainID: g.u256(true), Nonce: g.u64(), GasTipCap: g.u256(true), GasFeeCap: g.u256(true), Gas: g.u64(), To: g.addr(), Value: g.u256(true), Data: g.data(), AccessList: g.accessList(), AuthList: g.authList(), V: toU256(v), R: toU256(r), S: toU256(s)}
	}
}
