package main

import (
	"encoding/binary"
	"fmt"
	"hash/fnv"
	"sort"
	"strings"
	"time"

	"github.com/anishathalye/porcupine"

	"verif/lib/vrt"
)

type checkResult struct {
	sig       string
	orderHash uint64
}

// epoch is the active interval of one subscription as far as the stamps justify it.
//
//	certainly active   : (subRet, unsubCall)  -- Subscribe returned, no Unsubscribe called yet
//	possibly active    : [subCall, unsubRet]  -- from the Subscribe call to the first Unsubscribe return
//
// With several (possibly concurrent) Unsubscribe calls on the same subscription, unsubCall
// is the earliest call stamp and unsubRet the earliest return stamp: feedSub.Unsubscribe
// runs remove inside a sync.Once, so no call returns before removal has completed.
type epoch struct {
	subRec
	unsubCall, unsubRet int64
	hows                map[string]bool
}

const inf = int64(1) << 62

// checkHistory is the offline oracle for one session.
func checkHistory(r *vrt.Run, h *history) checkResult {
	viol := func(fp, msg string) {
		r.Violation(fp, msg, h)
	}
	eps := make([]*epoch, len(h.Subs))
	for i, s := range h.Subs {
		if s.ID != i {
			panic("harness: subscriber ids not dense")
		}
		eps[i] = &epoch{subRec: s, unsubCall: inf, unsubRet: inf, hows: map[string]bool{}}
	}
	for _, u := range h.Unsubs {
		e := eps[u.Sub]
		if u.Call < e.unsubCall {
			e.unsubCall = u.Call
		}
		if u.Ret < e.unsubRet {
			e.unsubRet = u.Ret
		}
		e.hows[u.How] = true
	}
	sendOf := map[int64]*sendRec{}
	for i := range h.Sends {
		s := &h.Sends[i]
		if _, dup := sendOf[s.Val]; dup {
			panic("harness: duplicate send value")
		}
		sendOf[s.Val] = s
	}
	// receive counts and per-subscriber sequences
	cnt := map[[2]int64]int{} // (sub, val) -> number of receives
	total := map[int64]int{}  // val -> number of channels*receives
	seqs := make([][]recvRec, len(eps))
	for _, rc := range h.Recvs {
		if _, ok := sendOf[rc.Val]; !ok {
			viol("unknown-value", fmt.Sprintf("subscriber %d received %#x which no Send carried", rc.Sub, rc.Val))
			continue
		}
		cnt[[2]int64{int64(rc.Sub), rc.Val}]++
		total[rc.Val]++
		seqs[rc.Sub] = append(seqs[rc.Sub], rc)
	}

	var nMust, nMayDel, nMayNot, nAfter, nOvUnsub, nOvSub int
	for i := range h.Sends {
		s := &h.Sends[i]
		ovU, ovS := false, false
		for _, e := range eps {
			c := cnt[[2]int64{int64(e.ID), s.Val}]
			must := e.SubRet < s.Call && s.Ret < e.unsubCall
			after := s.Call > e.unsubRet // send began after an Unsubscribe had returned
			before := s.Ret < e.SubCall  // send returned before Subscribe was called
			switch {
			case must:
				nMust++
				if c == 0 {
					viol("missed-delivery", fmt.Sprintf("send %#x [%d,%d] lies inside the active interval of subscription %d (subscribe returned %d, first unsubscribe call %d) but was never received on its channel", s.Val, s.Call, s.Ret, e.ID, e.SubRet, e.unsubCall))
				}
			case after:
				nAfter++
				if c > 0 {
					viol("delivery-after-unsubscribe", fmt.Sprintf("send %#x was called at %d, after Unsubscribe of subscription %d had returned at %d, and was still delivered to its channel", s.Val, s.Call, e.ID, e.unsubRet))
				}
			case before:
				nAfter++
				if c > 0 {
					viol("delivery-before-subscribe", fmt.Sprintf("send %#x returned at %d before Subscribe of %d was called at %d and was still delivered", s.Val, s.Ret, e.ID, e.SubCall))
				}
			default:
				if c > 0 {
					nMayDel++
				} else {
					nMayNot++
				}
				if s.Ret > e.unsubCall && s.Call < e.unsubRet {
					ovU = true
				}
				if s.Ret > e.SubCall && s.Call < e.SubRet {
					ovS = true
				}
			}
			if c > 1 {
				viol("duplicate-delivery", fmt.Sprintf("send %#x was received %d times on the channel of subscription %d", s.Val, c, e.ID))
			}
		}
		if ovU {
			nOvUnsub++
		}
		if ovS {
			nOvSub++
		}
		if s.N != total[s.Val] {
			viol("send-count", fmt.Sprintf("Send(%#x) returned %d but the value was received on %d channels", s.Val, s.N, total[s.Val]))
		}
	}
	// per-subscriber order: a received before b although b's Send returned before a's was called
	type pair struct{ a, b int64 }
	ordered := map[pair]int{} // a seen before b on subscriber id+1
	for id, seq := range seqs {
		for i := 0; i < len(seq); i++ {
			si := sendOf[seq[i].Val]
			for j := i + 1; j < len(seq); j++ {
				sj := sendOf[seq[j].Val]
				if sj.Ret < si.Call {
					viol("order", fmt.Sprintf("subscription %d received %#x before %#x although Send(%#x) returned (%d) before Send(%#x) was called (%d)", id, si.Val, sj.Val, sj.Val, sj.Ret, si.Val, si.Call))
				}
				if seq[i].Val == seq[j].Val {
					continue
				}
				if other, ok := ordered[pair{seq[j].Val, seq[i].Val}]; ok && other != id+1 {
					// "send order" is one order: two subscribers may not disagree on it.
					viol("order-across-subscribers", fmt.Sprintf("subscription %d received %#x before %#x but subscription %d received them in the opposite order", id, seq[i].Val, seq[j].Val, other-1))
				}
				ordered[pair{seq[i].Val, seq[j].Val}] = id + 1
			}
		}
	}
	r.Count("pairs_must_deliver", nMust)
	r.Count("pairs_may_delivered", nMayDel)
	r.Count("pairs_may_not_delivered", nMayNot)
	r.Count("pairs_after_unsub_checked", nAfter)
	r.Count("sends_overlapping_unsubscribe", nOvUnsub)
	r.Count("sends_overlapping_subscribe", nOvSub)
	r.Count("sends", len(h.Sends))
	r.Count("deliveries", len(h.Recvs))
	r.Count("subscriptions", len(eps))
	r.Count("sessions", 1)

	// porcupine: per-subscriber FIFO queue, single-sender sessions
	senders := h.Params["senders"].(int)
	if senders == 1 {
		for id := range eps {
			porcupineSub(r, h, eps[id], seqs[id], viol)
		}
	}

	// signature + evidence
	modes := map[string]bool{}
	buffered, unbuffered, drained := false, false, false
	for _, e := range eps {
		modes[e.Mode] = true
		for k := range e.hows {
			r.Count("unsub_"+strings.ReplaceAll(k, "-", "_"), 1)
			if k == "ext2" || k == "scope-close" || k == "join" || k == "self" {
				modes[k] = true
			}
		}
		if e.Cap == 0 {
			unbuffered = true
		} else {
			buffered = true
		}
	}
	for _, rc := range h.Recvs {
		if rc.Drained {
			drained = true
			r.Count("deliveries_drained_from_buffer", 1)
		}
	}
	// did any send reach only part of the subscriptions that were possibly active?
	var ms []string
	for k := range modes {
		ms = append(ms, k)
	}
	sort.Strings(ms)
	sig := ""
	if len(h.Recvs) > 0 {
		delete(modes, "static")
		delete(modes, "ext")
		ms = ms[:0]
		for k := range modes {
			ms = append(ms, k)
		}
		sort.Strings(ms)
		sig = fmt.Sprintf("gen=%v/S=%d/U=%d/buf=%v,%v/modes=%s/gmp=%v/ovU=%v/ovS=%v",
			h.Params["generic"], min(senders, 2), bucket(len(eps)), buffered, unbuffered, strings.Join(ms, ","), h.Params["gomaxprocs"],
			nOvUnsub > 0, nOvSub > 0)
		_ = drained
	}
	return checkResult{sig: sig, orderHash: orderHash(h)}
}

func bucket(n int) int {
	switch {
	case n <= 2:
		return 2
	case n <= 6:
		return 6
	case n <= 12:
		return 12
	}
	return 99
}

// orderHash identifies the client-boundary interleaving: the sequence of (role, event kind)
// in stamp order.
func orderHash(h *history) uint64 {
	type ev struct {
		t    int64
		kind uint32
	}
	var evs []ev
	for _, s := range h.Subs {
		evs = append(evs, ev{s.SubCall, 1<<16 | uint32(s.ID)}, ev{s.SubRet, 2<<16 | uint32(s.ID)})
	}
	for _, u := range h.Unsubs {
		evs = append(evs, ev{u.Call, 3<<16 | uint32(u.Sub)}, ev{u.Ret, 4<<16 | uint32(u.Sub)})
	}
	for _, s := range h.Sends {
		evs = append(evs, ev{s.Call, 5<<16 | uint32(s.Sender)}, ev{s.Ret, 6<<16 | uint32(s.Sender)})
	}
	for _, rc := range h.Recvs {
		evs = append(evs, ev{rc.C1, 7<<16 | uint32(rc.Sub)})
	}
	sort.Slice(evs, func(i, j int) bool { return evs[i].t < evs[j].t })
	hh := fnv.New64a()
	var b [4]byte
	for _, e := range evs {
		binary.LittleEndian.PutUint32(b[:], e.kind)
		hh.Write(b[:])
	}
	return hh.Sum64()
}

// ---- porcupine FIFO model ----

type qIn struct {
	enq       bool
	val       int64
	must      bool // enqueue certainly happens (send inside the certainly-active interval)
	delivered bool // observed afterwards: the value was received on this subscriber's channel
}

// The model is deterministic: whether a Send that overlaps the subscribe/unsubscribe boundary
// enqueued is taken from the observation (it is the Send's per-subscriber output), a Send
// inside the certainly-active interval must enqueue.
var fifoModel = porcupine.Model{
	Init: func() interface{} { return "" },
	Step: func(state, input, output interface{}) (bool, interface{}) {
		q := state.(string)
		in := input.(qIn)
		if in.enq {
			if !in.delivered {
				return !in.must, q
			}
			var b [8]byte
			binary.LittleEndian.PutUint64(b[:], uint64(in.val))
			return true, q + string(b[:])
		}
		if len(q) < 8 || int64(binary.LittleEndian.Uint64([]byte(q[:8]))) != output.(int64) {
			return false, q
		}
		return true, q[8:]
	},
	Equal: func(a, b interface{}) bool { return a.(string) == b.(string) },
}

// porcupineSub checks that the receives of one subscriber are a linearizable history of a
// FIFO queue into which every Send that could reach the subscriber enqueues (certainly, or
// possibly when it overlaps the subscribe/unsubscribe boundary) within its own interval and
// from which each receive dequeues the head within its interval.
func porcupineSub(r *vrt.Run, h *history, e *epoch, seq []recvRec, viol func(fp, msg string)) {
	var ops []porcupine.Operation
	delivered := map[int64]bool{}
	for _, rc := range seq {
		delivered[rc.Val] = true
	}
	for i := range h.Sends {
		s := &h.Sends[i]
		if s.Call > e.unsubRet || s.Ret < e.SubCall {
			continue // cannot reach e (judged by the interval checker)
		}
		must := e.SubRet < s.Call && s.Ret < e.unsubCall
		ops = append(ops, porcupine.Operation{ClientId: 0, Input: qIn{enq: true, val: s.Val, must: must, delivered: delivered[s.Val]}, Call: s.Call, Output: nil, Return: s.Ret})
	}
	if len(ops) == 0 && len(seq) == 0 {
		return
	}
	for _, rc := range seq {
		ops = append(ops, porcupine.Operation{ClientId: 1, Input: qIn{}, Call: rc.C0, Output: rc.Val, Return: rc.C1})
	}
	res := porcupine.CheckOperationsTimeout(fifoModel, ops, 60*time.Second)
	switch res {
	case porcupine.Ok:
		r.Count("porcupine_checked", 1)
		r.Count("porcupine_ops", len(ops))
	case porcupine.Illegal:
		viol("fifo-linearizability", fmt.Sprintf("receives of subscription %d are not a linearizable FIFO-queue history of the sends that could reach it", e.ID))
	default:
		r.Count("porcupine_unknown", 1)
	}
}
