// C50: event feeds deliver every value exactly once to active subscribers.
//
// Sessions of concurrent Subscribe / Unsubscribe / Send on event.Feed and event.FeedOf[T]
// (raw subscriptions, SubscriptionScope-tracked ones and JoinSubscriptions groups) are
// recorded at the client boundary with stamps drawn from ONE atomic counter; an offline
// interval-order checker (check.go) decides the property, a per-subscriber porcupine check
// against a FIFO queue model is added for single-sender sessions.
//
// Stamp discipline: every operation is bracketed "stamp; op; stamp", so the real operation
// lies inside its stamp interval. Only conclusions that follow from that are drawn:
// ret(a) < call(b) means a really finished before b really started; a receive stamped
// [c0,c1] really completed somewhere inside [c0,c1].
package main

import (
	"fmt"
	"math/rand"
	"runtime"
	"sort"
	"strings"
	"sync"
	"sync/atomic"
	"time"

	"github.com/ethereum/go-ethereum/event"

	"verif/lib/sched"
	"verif/lib/vrt"
)

func main() { vrt.Main("C50", run) }

// feedI abstracts over event.Feed (reflect based) and event.FeedOf[int64].
type feedI interface {
	Subscribe(ch chan int64) event.Subscription
	Send(v int64) int
}

type reflFeed struct{ f event.Feed }

func (f *reflFeed) Subscribe(ch chan int64) event.Subscription { return f.f.Subscribe(ch) }
func (f *reflFeed) Send(v int64) int                           { return f.f.Send(v) }

type genFeed struct{ f event.FeedOf[int64] }

func (f *genFeed) Subscribe(ch chan int64) event.Subscription { return f.f.Subscribe(ch) }
func (f *genFeed) Send(v int64) int                           { return f.f.Send(v) }

// ---- recorded history ----

type sendRec struct {
	Val    int64 `json:"val"`
	Sender int   `json:"sender"`
	Call   int64 `json:"call"`
	Ret    int64 `json:"ret"` // 0 = never returned (only in abandoned sessions)
	N      int   `json:"n"`
}

type recvRec struct {
	Sub     int   `json:"sub"`
	Val     int64 `json:"val"`
	C0      int64 `json:"c0"`
	C1      int64 `json:"c1"`
	Drained bool  `json:"drained,omitempty"` // taken from the channel buffer after the consumer stopped
}

type unsubRec struct {
	Sub  int    `json:"sub"`
	Call int64  `json:"call"`
	Ret  int64  `json:"ret"`
	How  string `json:"how"`
}

type subRec struct {
	ID      int    `json:"id"`
	Cap     int    `json:"cap"`
	SubCall int64  `json:"subCall"`
	SubRet  int64  `json:"subRet"`
	Mode    string `json:"mode"` // static | ext | self | storm
	Wrap    string `json:"wrap"` // raw | scope | join
	Late    bool   `json:"late"`
}

type history struct {
	Params map[string]any `json:"params"`
	Subs   []subRec       `json:"subs"`
	Unsubs []unsubRec     `json:"unsubs"`
	Sends  []sendRec      `json:"sends"`
	Recvs  []recvRec      `json:"recvs"` // per subscriber in consumer order (concatenated)
}

// ---- session machinery ----

type subEnt struct {
	rec      subRec
	ch       chan int64
	sub      event.Subscription // raw feed subscription or the scope wrapper
	join     event.Subscription // joined subscription this one is a member of (or nil)
	joinWith []*subEnt
	done     chan struct{}
	recvs    []recvRec // owned by the consumer goroutine, then (after done) by the session
	selfAt   int       // self-unsubscribe after this many receives (-1: never)
	pause    int       // consumer pause profile
}

type session struct {
	r     *vrt.Run
	clk   atomic.Int64
	feed  feedI
	scope event.SubscriptionScope

	progress    atomic.Int64 // number of sends started
	sendersDone atomic.Bool

	end chan struct{} // closed at the very end of the session: consumers stop draining

	mu     sync.Mutex // protects the logs below; only taken outside stamped intervals
	ents   []*subEnt
	unsubs []unsubRec
	sends  []sendRec
	wg     sync.WaitGroup // consumers + controllers + stormers
}

func (s *session) stamp() int64 { return s.clk.Add(1) }

func pause(rng *rand.Rand, profile int) {
	switch profile {
	case 0: // fast
	case 1:
		if rng.Intn(2) == 0 {
			runtime.Gosched()
		}
	case 2:
		for i, n := 0, rng.Intn(4); i < n; i++ {
			runtime.Gosched()
		}
	case 3: // spin a few microseconds
		d := time.Duration(rng.Intn(30)) * time.Microsecond
		for t0 := time.Now(); time.Since(t0) < d; {
		}
	case 4: // occasionally sleep
		if rng.Intn(6) == 0 {
			time.Sleep(time.Duration(20+rng.Intn(100)) * time.Microsecond)
		} else {
			runtime.Gosched()
		}
	}
}

// newSub subscribes a fresh channel and starts its consumer.
func (s *session) newSub(rng *rand.Rand, mode string, late bool, wrapScope bool) *subEnt {
	caps := []int{0, 0, 0, 1, 2, 8}
	e := &subEnt{done: make(chan struct{}), selfAt: -1}
	e.rec.Cap = caps[rng.Intn(len(caps))]
	e.rec.Mode = mode
	e.rec.Late = late
	e.rec.Wrap = "raw"
	e.pause = rng.Intn(5)
	e.ch = make(chan int64, e.rec.Cap)
	if mode == "self" {
		e.selfAt = rng.Intn(6)
	}
	seed := rng.Int63()
	s.mu.Lock()
	e.rec.ID = len(s.ents)
	s.ents = append(s.ents, e)
	s.mu.Unlock()

	e.rec.SubCall = s.stamp()
	raw := s.feed.Subscribe(e.ch)
	e.rec.SubRet = s.stamp()
	e.sub = raw
	if wrapScope {
		// Track returns nil once the scope is closed: the subscription then stays a raw one.
		if t := s.scope.Track(raw); t != nil {
			e.sub = t
			e.rec.Wrap = "scope"
		}
	}
	s.wg.Add(1)
	go s.consume(e, rand.New(rand.NewSource(seed)))
	return e
}

func (s *session) logUnsub(e *subEnt, c0, c1 int64, how string) {
	s.mu.Lock()
	s.unsubs = append(s.unsubs, unsubRec{e.rec.ID, c0, c1, how})
	s.mu.Unlock()
}

// unsub cancels e directly (through its own Subscription value). Safe to call from several
// goroutines; every call is logged with its own interval (sync.Once inside the feed makes
// every return imply that removal has completed).
func (s *session) unsub(e *subEnt, how string) {
	c0 := s.stamp()
	e.sub.Unsubscribe()
	c1 := s.stamp()
	s.logUnsub(e, c0, c1, how)
}

// unsubJoin cancels a JoinSubscriptions group: its Unsubscribe returns after the producer
// has unsubscribed every member.
func (s *session) unsubJoin(e *subEnt) {
	c0 := s.stamp()
	e.join.Unsubscribe()
	c1 := s.stamp()
	for _, m := range e.joinWith {
		s.logUnsub(m, c0, c1, "join")
	}
}

// consume drains e.ch until the end of the session, i.e. also after the subscription was
// cancelled: it never abandons a Send that may legitimately be blocked on it, and a delivery
// made after Unsubscribe returned is observed as a receive instead of a Send blocked forever
// on a channel nobody reads. (The only time a consumer does not receive is while it is
// itself inside Unsubscribe.)
func (s *session) consume(e *subEnt, rng *rand.Rand) {
	defer s.wg.Done()
	defer close(e.done)
	n := 0
	for {
		if e.selfAt >= 0 && n >= e.selfAt {
			// unsubscribe from inside the receive loop
			s.unsub(e, "self")
			e.selfAt = -1
		}
		c0 := s.stamp()
		select {
		case v := <-e.ch:
			c1 := s.stamp()
			e.recvs = append(e.recvs, recvRec{Sub: e.rec.ID, Val: v, C0: c0, C1: c1})
			n++
		case <-s.end:
			return
		}
		pause(rng, e.pause)
	}
}

// waitProgress spins (yielding) until at least n sends were started or the senders are done.
func (s *session) waitProgress(n int64) {
	for s.progress.Load() < n && !s.sendersDone.Load() {
		runtime.Gosched()
	}
}

type params struct {
	Generic  bool
	Senders  int
	Subs     int
	PerSend  []int
	Storms   int
	UseScope bool
	UseJoin  bool
	Gmp      int
}

func genParams(rng *rand.Rand, gmp int) params {
	p := params{Generic: rng.Intn(2) == 0, Gmp: gmp}
	p.Senders = 1 + rng.Intn(4)
	if rng.Intn(3) == 0 {
		p.Senders = 1
	}
	p.Subs = 1 + rng.Intn(6)
	for i := 0; i < p.Senders; i++ {
		p.PerSend = append(p.PerSend, 4+rng.Intn(40/p.Senders+1))
	}
	p.Storms = []int{0, 0, 1, 2, 3}[rng.Intn(5)]
	p.UseScope = rng.Intn(3) == 0
	p.UseJoin = rng.Intn(3) == 0
	return p
}

// runSession executes one session and returns its history (nil when abandoned).
func runSession(r *vrt.Run, rng *rand.Rand, p params, idx int) (*history, bool) {
	s := &session{r: r, end: make(chan struct{})}
	if p.Generic {
		s.feed = &genFeed{}
	} else {
		s.feed = &reflFeed{}
	}
	total := 0
	for _, n := range p.PerSend {
		total += n
	}

	finished := make(chan struct{})
	go func() {
		defer close(finished)
		// initial subscribers
		var initial []*subEnt
		for i := 0; i < p.Subs; i++ {
			mode := []string{"static", "static", "ext", "ext", "self"}[rng.Intn(5)]
			initial = append(initial, s.newSub(rng, mode, false, p.UseScope && rng.Intn(2) == 0))
		}
		// join groups over raw initial subscriptions
		if p.UseJoin {
			var raws []*subEnt
			for _, e := range initial {
				if e.rec.Wrap == "raw" && e.rec.Mode != "self" {
					raws = append(raws, e)
				}
			}
			for len(raws) >= 1 {
				k := 1 + rng.Intn(2)
				if k > len(raws) {
					k = len(raws)
				}
				grp := raws[:k]
				raws = raws[k:]
				subs := make([]event.Subscription, len(grp))
				for i, e := range grp {
					subs[i] = e.sub
				}
				j := event.JoinSubscriptions(subs...)
				for _, e := range grp {
					e.join = j
					e.joinWith = grp
					e.rec.Wrap = "join"
				}
				if rng.Intn(2) == 0 {
					break
				}
			}
		}

		var ctl sync.WaitGroup // controllers and stormers (they create consumers: must finish before s.wg.Wait)
		// external unsubscribers
		seen := map[event.Subscription]bool{}
		for _, e := range initial {
			if e.rec.Mode != "ext" {
				continue
			}
			if e.join != nil && seen[e.join] {
				continue
			}
			if e.join != nil {
				seen[e.join] = true
			}
			e := e
			at := int64(rng.Intn(total + 1))
			double := rng.Intn(4) == 0
			seed := rng.Int63()
			ctl.Add(1)
			go func() {
				defer ctl.Done()
				lr := rand.New(rand.NewSource(seed))
				s.waitProgress(at)
				pause(lr, lr.Intn(4))
				if e.join != nil {
					s.unsubJoin(e)
					return
				}
				if double {
					ctl.Add(1)
					go func() { defer ctl.Done(); s.unsub(e, "ext2") }()
				}
				s.unsub(e, "ext")
			}()
		}
		// scope closer
		var scopeClose [2]int64
		if p.UseScope {
			at := int64(rng.Intn(total + 1))
			ctl.Add(1)
			go func() {
				defer ctl.Done()
				s.waitProgress(at)
				c0 := s.stamp()
				s.scope.Close()
				c1 := s.stamp()
				scopeClose = [2]int64{c0, c1}
			}()
		}
		// stormers: subscribe fresh channels while sends are running, unsubscribe shortly after
		for k := 0; k < p.Storms; k++ {
			seed := rng.Int63()
			iters := 2 + rng.Intn(8)
			ctl.Add(1)
			go func() {
				defer ctl.Done()
				lr := rand.New(rand.NewSource(seed))
				for i := 0; i < iters && !s.sendersDone.Load(); i++ {
					mode := "storm"
					if lr.Intn(4) == 0 {
						mode = "self"
					}
					e := s.newSub(lr, mode, true, p.UseScope && lr.Intn(2) == 0)
					if mode == "storm" {
						s.waitProgress(s.progress.Load() + int64(lr.Intn(4)))
						pause(lr, lr.Intn(5))
						s.unsub(e, "storm")
					}
					pause(lr, lr.Intn(3))
				}
			}()
		}
		// senders
		var snd sync.WaitGroup
		for i := 0; i < p.Senders; i++ {
			i := i
			seed := rng.Int63()
			snd.Add(1)
			go func() {
				defer snd.Done()
				lr := rand.New(rand.NewSource(seed))
				prof := lr.Intn(4)
				log := make([]sendRec, 0, p.PerSend[i])
				for q := 0; q < p.PerSend[i]; q++ {
					v := int64(i+1)<<32 | int64(q+1)
					s.progress.Add(1)
					c0 := s.stamp()
					n := s.feed.Send(v)
					c1 := s.stamp()
					log = append(log, sendRec{Val: v, Sender: i, Call: c0, Ret: c1, N: n})
					pause(lr, prof)
				}
				s.mu.Lock()
				s.sends = append(s.sends, log...)
				s.mu.Unlock()
			}()
		}
		snd.Wait()
		s.sendersDone.Store(true)
		ctl.Wait()
		// Unsubscribe whatever is still subscribed (idempotent for the rest), release consumers.
		s.mu.Lock()
		ents := append([]*subEnt{}, s.ents...)
		s.mu.Unlock()
		for _, e := range ents {
			if e.join != nil && e.joinWith[0] == e {
				s.unsubJoin(e) // also ends the JoinSubscriptions producer goroutine
			}
		}
		for _, e := range ents {
			s.unsub(e, "final")
		}
		// A final send after everything was unsubscribed must reach nobody.
		c0 := s.stamp()
		n := s.feed.Send(int64(99) << 32)
		c1 := s.stamp()
		close(s.end)
		s.wg.Wait()
		s.sends = append(s.sends, sendRec{Val: int64(99) << 32, Sender: 99, Call: c0, Ret: c1, N: n})
		if p.UseScope {
			// every subscription for which Track returned non-nil is unsubscribed by Close:
			// not before Close was called, and at the latest when it returned.
			for _, e := range ents {
				if e.rec.Wrap == "scope" {
					s.unsubs = append(s.unsubs, unsubRec{e.rec.ID, scopeClose[0], scopeClose[1], "scope-close"})
				}
			}
		}
		// Drain buffered values left in the channels.
		for _, e := range ents {
			for {
				c0 := s.stamp()
				select {
				case v := <-e.ch:
					e.recvs = append(e.recvs, recvRec{Sub: e.rec.ID, Val: v, C0: c0, C1: s.stamp(), Drained: true})
					continue
				default:
				}
				break
			}
		}
	}()

	select {
	case <-finished:
	case <-time.After(60 * time.Second):
		// Watchdog: never a verdict. The session's goroutines are abandoned.
		buf := make([]byte, 1<<16)
		buf = buf[:runtime.Stack(buf, true)]
		r.Inconclusive("session %d did not finish within the watchdog (params %+v); goroutine dump (head): %s", idx, p, firstN(string(buf), 3000))
		r.Count("sessions_abandoned", 1)
		return nil, false
	}

	h := &history{Params: map[string]any{
		"generic": p.Generic, "senders": p.Senders, "subs": p.Subs, "perSender": p.PerSend,
		"storms": p.Storms, "scope": p.UseScope, "join": p.UseJoin, "gomaxprocs": p.Gmp, "session": idx,
	}}
	for _, e := range s.ents {
		h.Subs = append(h.Subs, e.rec)
		h.Recvs = append(h.Recvs, e.recvs...)
	}
	h.Unsubs = s.unsubs
	h.Sends = s.sends
	sort.Slice(h.Sends, func(i, j int) bool { return h.Sends[i].Call < h.Sends[j].Call })
	return h, true
}

func firstN(s string, n int) string {
	if len(s) > n {
		return s[:n]
	}
	return s
}

func run(r *vrt.Run) {
	r.Rule("each case is one generated concurrent session on a fresh event.Feed or event.FeedOf[int64]: 1-4 senders (4-44 unique values each), 1-6 initial subscribers with channel capacity in {0,1,2,8} and a pause profile, lifecycles static / externally unsubscribed at a random send-progress point (optionally twice concurrently) / unsubscribing from inside the receive loop after k receives / storm goroutines subscribing and unsubscribing fresh channels while sends run; optional SubscriptionScope.Track+Close and JoinSubscriptions wrappers; GOMAXPROCS in {1,2,16}; sched perturbation at feed-send-round / feed-remove. Non-trivial signature = (feed kind, senders, subscriber-count bucket, buffered/unbuffered mix, lifecycle modes present, wrappers used, GOMAXPROCS, whether a send overlapped an unsubscribe / a subscribe, whether the blocking select path of Send was needed i.e. Send return differs across overlapping subscriptions); a session without any delivery is trivial")
	ctl := sched.New(uint64(r.Seed)*0x9e3779b97f4a7c15 + 12345)
	ctl.Intensity = 50
	event.VerifYieldHook = ctl.Hook

	n := r.N(2400, 200000)
	if r.Race() {
		n = r.N(600, 30000)
	}
	orig := runtime.GOMAXPROCS(0)
	// phases {1, 2, 16}; the top phase follows the environment when that is throttled
	gmps := []int{1, 2, min(16, max(orig, 4))}
	interleavings := map[uint64]struct{}{}
	var ilMu sync.Mutex
	per := n / len(gmps)
	for gi, gmp := range gmps {
		runtime.GOMAXPROCS(gmp)
		workers := 8
		vrt.Par(per, workers, func(k int) {
			i := gi*per + k
			if r.Counter("violations_seen") >= 20 || r.Counter("sessions_abandoned") >= 3 {
				r.Count("sessions_skipped_after_failures", 1)
				return
			}
			rng := r.Rand("session", i)
			p := genParams(rng, gmp)
			r.Case("session %d gomaxprocs=%d params=%+v", i, gmp, p)
			h, ok := runSession(r, rng, p, i)
			if !ok {
				return
			}
			res := checkHistory(r, h)
			ilMu.Lock()
			interleavings[res.orderHash] = struct{}{}
			ilMu.Unlock()
			r.Eval(res.sig)
			if i < 2 && r.WantSample() {
				r.Sample(map[string]any{"params": h.Params, "subs": len(h.Subs), "sends": len(h.Sends), "recvs": len(h.Recvs), "unsubs": len(h.Unsubs), "first_sends": h.Sends[:min(3, len(h.Sends))]})
			}
		})
	}
	runtime.GOMAXPROCS(orig)

	for k, v := range ctl.Hits() {
		r.Count("yield_"+strings.ReplaceAll(k, "-", "_"), int(v))
	}
	r.Extra("distinct_client_boundary_interleavings", len(interleavings))
	r.Extra("sched_signature", fmt.Sprintf("%016x", ctl.Signature()))
	r.Extra("gomaxprocs_phases", gmps)

	r.Require("yield_feed_send_round", 50)
	r.Require("yield_feed_remove", 50)
	r.Require("pairs_must_deliver", 1000)
	r.Require("pairs_may_delivered", 10)
	r.Require("pairs_may_not_delivered", 10)
	r.Require("sends_overlapping_unsubscribe", 50)
	r.Require("sends_overlapping_subscribe", 20)
	r.Require("unsub_self", 20)
	r.Require("unsub_scope_close", 5)
	r.Require("unsub_join", 5)
	r.Require("porcupine_checked", 20)
	r.Require("pairs_after_unsub_checked", 500)
	r.Assume("stamps come from one sequentially consistent atomic counter; each recorded operation really executes inside its stamp interval")
	r.Assume("porcupine v1.3.0 linearizability checker (per-subscriber FIFO model, single-sender sessions)")
}
