package main

import (
	"crypto/ecdsa"
	"fmt"
	"math/big"
	"math/rand"
	"sort"
	"strings"

	"github.com/ethereum/go-ethereum/common"
	"github.com/ethereum/go-ethereum/core"
	"github.com/ethereum/go-ethereum/core/rawdb"
	"github.com/ethereum/go-ethereum/core/types"
	"github.com/ethereum/go-ethereum/core/vm"
	"github.com/ethereum/go-ethereum/crypto"
	"github.com/ethereum/go-ethereum/params"
	"github.com/holiman/uint256"

	"verif/lib/opvm"
	"verif/lib/proggen"
)

// Scenario: one Amsterdam chain config + genesis + a plan of transactions per block. The
// plan is data only (intents); nonces are assigned when the block is generated.

const (
	nSenders   = 6
	nContracts = 8
	nSlots     = 4
	blockGas   = 1_000_000_000
	bigTxGas   = 8_000_000
)

var (
	ether     = new(big.Int).Exp(big.NewInt(10), big.NewInt(18), nil)
	gwei      = big.NewInt(1_000_000_000)
	opCode    = opvm.Code()
	cloneInit = opvm.CloneInit(false)
)

type intent struct {
	Kind  string // call | transfer | create | setcode | sysreq
	From  int    // sender index; nSenders = the poor sender
	To    *common.Address
	Value *big.Int
	Cmds  []opvm.Cmd
	Data  []byte
	Gas   uint64
	Tip   int64 // gwei
	// setcode
	Authority int            // sender index signing the authorization
	Delegate  common.Address // delegation target (zero = clear)
	Pat       string
	Note      string // lifecycle family: what the transaction does to the target (witness only)
	TipEqCap  bool   // tip = fee cap: the effective gas price does not depend on the base fee
}

type blockPlan struct {
	Txs         []intent
	Coinbase    common.Address
	BeaconRoot  common.Hash
	Withdrawals []*types.Withdrawal
}

type scenario struct {
	cfg       *params.ChainConfig
	gspec     *core.Genesis
	keys      []*ecdsa.PrivateKey // nSenders rich + 1 poor
	addrs     []common.Address
	contracts []common.Address
	delegated common.Address   // EOA with a 7702 delegation in genesis
	progs     []common.Address // proggen programs (random structured bytecode)
	pool      []common.Address
	origSlot  map[common.Address]map[uint64]uint64
	plans     []blockPlan
	patterns  []string // distinct pattern names used
	// account-lifecycle family (lifecycle.go)
	lcTargets     []*lcTarget
	lcNonce       map[int]uint64 // planned nonce of the dedicated creation senders
	lcCreatorUsed map[int]bool   // creators used in the block being planned (one creation each)
	lcStats       map[string]int
	lcSerial      int
}

func amsterdamConfig() *params.ChainConfig {
	cfg := *params.MergedTestChainConfig
	cfg.AmsterdamTime = new(uint64)
	return &cfg
}

func mkKey(tag string) *ecdsa.PrivateKey {
	k, err := crypto.ToECDSA(crypto.Keccak256([]byte("verif-c33-" + tag)))
	if err != nil {
		panic(err)
	}
	return k
}

func pick[T any](rng *rand.Rand, xs []T) T { return xs[rng.Intn(len(xs))] }

func newScenario(rng *rand.Rand, nBlocks, maxTx int) *scenario {
	s := &scenario{cfg: amsterdamConfig(), origSlot: map[common.Address]map[uint64]uint64{}, lcNonce: map[int]uint64{}, lcStats: map[string]int{}}
	alloc := types.GenesisAlloc{
		params.BeaconRootsAddress:        {Nonce: 1, Code: params.BeaconRootsCode, Balance: common.Big0},
		params.HistoryStorageAddress:     {Nonce: 1, Code: params.HistoryStorageCode, Balance: common.Big0},
		params.WithdrawalQueueAddress:    {Nonce: 1, Code: params.WithdrawalQueueCode, Balance: common.Big0},
		params.ConsolidationQueueAddress: {Nonce: 1, Code: params.ConsolidationQueueCode, Balance: common.Big0},
		params.BuilderDepositAddress:     {Nonce: 1, Code: params.BuilderDepositCode, Balance: common.Big0},
		params.BuilderExitAddress:        {Nonce: 1, Code: params.BuilderExitCode, Balance: common.Big0},
	}
	for i := 0; i <= nSenders; i++ {
		k := mkKey(fmt.Sprintf("key-%d", i))
		s.keys = append(s.keys, k)
		a := crypto.PubkeyToAddress(k.PublicKey)
		s.addrs = append(s.addrs, a)
		if i < nSenders {
			alloc[a] = types.Account{Balance: new(big.Int).Mul(big.NewInt(1_000_000), ether)}
		}
	}
	// senders nSenders+1 .. nSenders+nLcCreators only send lifecycle creation transactions, so
	// the addresses of the contracts they create are known when the block is planned
	for i := 0; i < nLcCreators; i++ {
		k := mkKey(fmt.Sprintf("lc-creator-%d", i))
		s.keys = append(s.keys, k)
		a := crypto.PubkeyToAddress(k.PublicKey)
		s.addrs = append(s.addrs, a)
		alloc[a] = types.Account{Balance: new(big.Int).Mul(big.NewInt(1_000_000), ether)}
	}
	alloc[lcFactoryAddr] = types.Account{Nonce: 1, Code: lcFactory, Balance: common.Big0}
	for i := 0; i < nContracts; i++ {
		a := common.BytesToAddress([]byte{0xc0, 0xde, byte(i + 1)})
		s.contracts = append(s.contracts, a)
		st := map[common.Hash]common.Hash{}
		s.origSlot[a] = map[uint64]uint64{}
		for k := uint64(0); k < nSlots; k++ {
			if rng.Intn(2) == 0 {
				v := uint64(1 + rng.Intn(5))
				st[common.BigToHash(new(big.Int).SetUint64(k))] = common.BigToHash(new(big.Int).SetUint64(v))
				s.origSlot[a][k] = v
			}
		}
		bal := new(big.Int)
		if rng.Intn(3) > 0 {
			bal = big.NewInt(int64(1 + rng.Intn(1000)))
		}
		alloc[a] = types.Account{Nonce: 1, Code: opCode, Balance: bal, Storage: st}
	}
	s.delegated = common.HexToAddress("0xde1e9a7ed0000000000000000000000000000001")
	alloc[s.delegated] = types.Account{Code: types.AddressToDelegation(s.contracts[0]), Balance: big.NewInt(777), Nonce: 1}
	s.gspec = &core.Genesis{Config: s.cfg, Alloc: alloc, GasLimit: blockGas, BaseFee: big.NewInt(params.InitialBaseFee)}

	// address pool for operands
	s.pool = append(s.pool, s.contracts...)
	s.pool = append(s.pool, s.addrs...)
	s.pool = append(s.pool, s.delegated,
		common.HexToAddress("0xf4e5000000000000000000000000000000000001"), // never existing
		common.HexToAddress("0xf4e5000000000000000000000000000000000002"),
		common.BytesToAddress([]byte{4}), // identity precompile
		params.WithdrawalQueueAddress, params.HistoryStorageAddress, params.SystemAddress)
	// random structured programs as further call targets (they reference the pool so far)
	for i := 0; i < 3; i++ {
		a := common.BytesToAddress([]byte{0x9e, 0x47, byte(i + 1)})
		p := proggen.Gen(rng, proggen.Opts{Fork: "Amsterdam", Addrs: append([]common.Address{}, s.pool...), MaxLen: 220, NoUnbounded: true, Hostile: -1})
		alloc[a] = types.Account{Nonce: 1, Code: p.Code, Balance: big.NewInt(5000), Storage: map[common.Hash]common.Hash{common.BigToHash(big.NewInt(1)): common.BigToHash(big.NewInt(2))}}
		s.progs = append(s.progs, a)
	}
	s.pool = append(s.pool, s.progs...)
	salt0 := common.Hash{}
	for _, c := range s.contracts[:4] {
		for n := uint64(1); n <= 2; n++ {
			s.pool = append(s.pool, crypto.CreateAddress(c, n))
		}
		s.pool = append(s.pool, crypto.CreateAddress2(c, salt0, crypto.Keccak256(cloneInit)))
	}
	pats := map[string]bool{}
	for b := 0; b < nBlocks; b++ {
		p := s.planBlock(rng, b, maxTx, pats)
		s.plans = append(s.plans, p)
	}
	for p := range pats {
		s.patterns = append(s.patterns, p)
	}
	sort.Strings(s.patterns)
	return s
}

func (s *scenario) randAddr(rng *rand.Rand) common.Address { return pick(rng, s.pool) }

func (s *scenario) randCmd(rng *rand.Rand, depth int) []opvm.Cmd {
	slot := uint64(rng.Intn(nSlots))
	val := uint64(rng.Intn(4)) // 0 included: deletions
	a := s.randAddr(rng)
	small := big.NewInt(int64(rng.Intn(3)))
	switch k := rng.Intn(100); {
	case k < 14:
		return []opvm.Cmd{opvm.C(opvm.OpSstore, slot, val)}
	case k < 24:
		return []opvm.Cmd{opvm.C(opvm.OpLogSload, slot, 0)}
	case k < 34:
		return []opvm.Cmd{opvm.C(opvm.OpIncr, slot, 1)}
	case k < 42:
		return []opvm.Cmd{opvm.CA(opvm.OpCallValue, a, small)}
	case k < 50:
		return []opvm.Cmd{opvm.CA(opvm.OpLogBalance, a, nil)}
	case k < 53:
		return []opvm.Cmd{opvm.CA(opvm.OpSelfdestruct, a, nil)}
	case k < 56:
		return []opvm.Cmd{opvm.C(opvm.OpRevert, 0, 0)}
	case k < 58:
		return []opvm.Cmd{opvm.C(opvm.OpInvalid, 0, 0)}
	case k < 64:
		return []opvm.Cmd{opvm.CA(opvm.OpLogExtcode, a, nil)}
	case k < 68:
		return []opvm.Cmd{opvm.C(opvm.OpCreate, 0, uint64(rng.Intn(3)))}
	case k < 71:
		return []opvm.Cmd{opvm.C(opvm.OpCreate2, 0, uint64(rng.Intn(2)))}
	case k < 73:
		return []opvm.Cmd{opvm.C(opvm.OpCreateRevert, 0, 0)}
	case k < 75:
		return []opvm.Cmd{opvm.C(opvm.OpCreateSuicide, 0, uint64(rng.Intn(3)))}
	case k < 77:
		return []opvm.Cmd{opvm.C(opvm.OpCreateInitSst, 0, 0)}
	case k < 80:
		return []opvm.Cmd{opvm.C(opvm.OpSload, slot, 0)}
	case k < 83:
		return []opvm.Cmd{opvm.CA(opvm.OpLogExtcopy, a, nil)}
	case k < 85:
		return []opvm.Cmd{opvm.C(opvm.OpLogGas, 0, 0)}
	case k < 87:
		return []opvm.Cmd{opvm.C(opvm.OpLogBlockhash, uint64(rng.Intn(2)), 0)}
	case k < 89:
		return []opvm.Cmd{opvm.C(opvm.OpLogKeccak, uint64(rng.Intn(1000)), 0)}
	case k < 92:
		return []opvm.Cmd{opvm.C(opvm.OpLogCoinbase, 0, 0)}
	case k < 94:
		return []opvm.Cmd{opvm.C(opvm.OpTstore, slot, val), opvm.C(opvm.OpLogTload, slot, 0)}
	default:
		if depth >= 2 {
			return []opvm.Cmd{opvm.C(opvm.OpLogSload, slot, 0)}
		}
		// forwarding op: the rest of the record list runs in the callee
		target := pick(rng, s.contracts)
		op := pick(rng, []uint64{opvm.OpCallRest, opvm.OpDelegateRest, opvm.OpStaticRest, opvm.OpCallcodeRest, opvm.OpCallLast})
		out := []opvm.Cmd{opvm.CA(op, target, small)}
		for i, n := 0, 1+rng.Intn(3); i < n; i++ {
			out = append(out, s.randCmd(rng, depth+1)...)
		}
		return out
	}
}

func (s *scenario) randCall(rng *rand.Rand) intent {
	var cmds []opvm.Cmd
	for i, n := 0, 1+rng.Intn(4); i < n; i++ {
		c := s.randCmd(rng, 0)
		cmds = append(cmds, c...)
		if op := c[0].Op; op >= opvm.OpCallLast && op <= opvm.OpStaticRest || op == opvm.OpCallcodeRest {
			break // forwarding consumes the rest
		}
	}
	to := pick(rng, s.contracts)
	if rng.Intn(12) == 0 {
		to = s.delegated
	}
	if rng.Intn(7) == 0 { // a generated program, with arbitrary calldata
		to = pick(rng, s.progs)
		data := make([]byte, rng.Intn(68))
		rng.Read(data)
		return intent{Kind: "prog", From: rng.Intn(nSenders), To: &to, Value: big.NewInt(int64(rng.Intn(3))), Data: data, Gas: bigTxGas, Tip: int64(rng.Intn(3)), Pat: "proggen"}
	}
	it := intent{Kind: "call", From: rng.Intn(nSenders), To: &to, Value: big.NewInt(int64(rng.Intn(3))), Cmds: cmds, Gas: bigTxGas, Tip: int64(rng.Intn(3))}
	if rng.Intn(10) == 0 { // tight gas: may run out mid-way
		it.Gas = 30_000 + uint64(100*96*len(cmds)) + uint64(rng.Intn(250_000))
	}
	return it
}

func call(from int, to common.Address, value int64, pat string, cmds ...opvm.Cmd) intent {
	return intent{Kind: "call", From: from, To: &to, Value: big.NewInt(value), Cmds: cmds, Gas: bigTxGas, Tip: 1, Pat: pat}
}

func transfer(from int, to common.Address, value *big.Int, pat string) intent {
	return intent{Kind: "transfer", From: from, To: &to, Value: value, Gas: 400_000, Tip: 1, Pat: pat}
}

// pattern returns a directed sequence of transactions with a cross-transaction dependency.
func (s *scenario) pattern(rng *rand.Rand, coinbase common.Address) (string, []intent) {
	snd := func() int { return rng.Intn(nSenders) }
	c := func() common.Address { return pick(rng, s.contracts) }
	slot := uint64(rng.Intn(nSlots))
	switch rng.Intn(15) {
	case 0: // read-after-write chain on one slot, results logged
		a, n := c(), 2+rng.Intn(4)
		var out []intent
		for i := 0; i < n; i++ {
			out = append(out, call(snd(), a, 0, "raw", opvm.C(opvm.OpIncr, slot, 1), opvm.C(opvm.OpLogSload, slot, 0)))
		}
		return "raw", out
	case 1: // write-after-write returning to the original value (net-zero over the block)
		a := c()
		orig := s.origSlot[a][slot]
		return "waw-netzero", []intent{
			call(snd(), a, 0, "waw-netzero", opvm.C(opvm.OpSstore, slot, orig+9)),
			call(snd(), a, 0, "waw-netzero", opvm.C(opvm.OpLogSload, slot, 0)),
			call(snd(), a, 0, "waw-netzero", opvm.C(opvm.OpSstore, slot, orig)),
			call(snd(), a, 0, "waw-netzero", opvm.C(opvm.OpLogSload, slot, 0)),
		}
	case 2: // balance chain EOA -> A -> B -> C, then observed
		a, b, d := s.contracts[0+rng.Intn(2)], s.contracts[2+rng.Intn(2)], s.contracts[4+rng.Intn(2)]
		v := int64(1000 + rng.Intn(1000))
		return "balchain", []intent{
			transfer(snd(), a, big.NewInt(v), "balchain"),
			call(snd(), a, 0, "balchain", opvm.CA(opvm.OpCallValue, b, big.NewInt(v))),
			call(snd(), b, 0, "balchain", opvm.CA(opvm.OpCallValue, d, big.NewInt(v))),
			call(snd(), d, 0, "balchain", opvm.CA(opvm.OpLogBalance, d, nil), opvm.CA(opvm.OpLogBalance, a, nil)),
		}
	case 3: // contract created in tx i (by a sender), called in tx j, inspected in tx k
		from := snd()
		return "create-call", []intent{
			{Kind: "create", From: from, Value: big.NewInt(int64(rng.Intn(5))), Data: cloneInit, Gas: bigTxGas, Tip: 1, Pat: "create-call"},
			// the created address is resolved at build time (placeholder To=nil + Pat marker)
			{Kind: "call-created", From: snd(), Authority: from, Value: big.NewInt(1), Cmds: []opvm.Cmd{opvm.C(opvm.OpSstore, slot, 5), opvm.C(opvm.OpLogSload, slot, 0)}, Gas: bigTxGas, Tip: 1, Pat: "create-call"},
			{Kind: "probe-created", From: snd(), Authority: from, To: &s.contracts[7], Value: new(big.Int), Gas: bigTxGas, Tip: 1, Pat: "create-call"},
		}
	case 4: // in-EVM create by a contract, child used later; second create depends on the bumped nonce
		a := s.contracts[rng.Intn(4)]
		child1 := crypto.CreateAddress(a, 1)
		return "evm-create", []intent{
			call(snd(), a, 5, "evm-create", opvm.C(opvm.OpCreate, 0, 2)),
			call(snd(), child1, 0, "evm-create", opvm.C(opvm.OpIncr, slot, 3), opvm.C(opvm.OpLogSload, slot, 0)),
			call(snd(), a, 0, "evm-create", opvm.C(opvm.OpCreate, 0, 0), opvm.CA(opvm.OpLogExtcode, child1, nil)),
			call(snd(), s.contracts[6], 0, "evm-create", opvm.CA(opvm.OpLogExtcode, child1, nil), opvm.CA(opvm.OpLogExtcopy, crypto.CreateAddress(a, 2), nil)),
		}
	case 5: // create + self-destruct in the same transaction, probed afterwards
		a := s.contracts[rng.Intn(4)]
		ben := s.randAddr(rng)
		return "create-suicide", []intent{
			call(snd(), a, 9, "create-suicide", opvm.C(opvm.OpCreate, 0, 4), opvm.C(opvm.OpCallLast, 0, 0), opvm.C(opvm.OpSstore, slot, 3), opvm.CA(opvm.OpSelfdestruct, ben, nil)),
			call(snd(), s.contracts[5], 0, "create-suicide", opvm.CA(opvm.OpLogExtcode, crypto.CreateAddress(a, 1), nil), opvm.CA(opvm.OpLogBalance, ben, nil)),
			call(snd(), a, 0, "create-suicide", opvm.C(opvm.OpCreateSuicide, 0, 1)),
		}
	case 6: // withdrawal / consolidation requests to the system contracts
		pk := make([]byte, 56)
		rng.Read(pk)
		out := []intent{{Kind: "sysreq", From: snd(), To: &params.WithdrawalQueueAddress, Value: big.NewInt(1000), Data: pk, Gas: bigTxGas, Tip: 1, Pat: "sysreq"}}
		if rng.Intn(2) == 0 {
			cd := make([]byte, 96)
			rng.Read(cd)
			out = append(out, intent{Kind: "sysreq", From: snd(), To: &params.ConsolidationQueueAddress, Value: big.NewInt(1000), Data: cd, Gas: bigTxGas, Tip: 1, Pat: "sysreq"})
		}
		out = append(out, call(snd(), c(), 0, "sysreq", opvm.CA(opvm.OpLogBalance, params.WithdrawalQueueAddress, nil)))
		return "sysreq", out
	case 7: // reverted / halted writes between committed ones
		a := c()
		return "revert-halt", []intent{
			call(snd(), a, 0, "revert-halt", opvm.C(opvm.OpSstore, slot, 11)),
			call(snd(), a, 3, "revert-halt", opvm.C(opvm.OpSstore, slot, 12), opvm.C(opvm.OpRevert, 0, 0)),
			call(snd(), a, 3, "revert-halt", opvm.C(opvm.OpSstore, slot, 13), opvm.C(opvm.OpInvalid, 0, 0)),
			call(snd(), a, 0, "revert-halt", opvm.C(opvm.OpLogSload, slot, 0)),
		}
	case 8: // coinbase touched: paid, observed (its balance depends on all earlier fees)
		return "coinbase", []intent{
			call(snd(), c(), 0, "coinbase", opvm.C(opvm.OpLogCoinbase, 0, 0)),
			call(snd(), c(), 7, "coinbase", opvm.CA(opvm.OpCallValue, coinbase, big.NewInt(5))),
			call(snd(), c(), 0, "coinbase", opvm.C(opvm.OpLogCoinbase, 0, 0), opvm.CA(opvm.OpLogBalance, coinbase, nil)),
		}
	case 9: // sender funded inside the block, then spends
		poor := s.addrs[nSenders]
		return "funded-sender", []intent{
			transfer(snd(), poor, new(big.Int).Mul(big.NewInt(1000), ether), "funded-sender"),
			call(nSenders, c(), 1, "funded-sender", opvm.C(opvm.OpIncr, slot, 1), opvm.C(opvm.OpLogSload, slot, 0)),
			transfer(nSenders, s.randAddr(rng), big.NewInt(12345), "funded-sender"),
		}
	case 10: // EIP-7702: delegation installed in tx i, used in tx j, cleared in tx k
		auth := snd()
		impl := c()
		return "setcode", []intent{
			{Kind: "setcode", From: snd(), To: &s.addrs[auth], Value: new(big.Int), Authority: auth, Delegate: impl, Gas: bigTxGas, Tip: 1, Pat: "setcode",
				Cmds: []opvm.Cmd{opvm.C(opvm.OpSstore, slot, 21), opvm.C(opvm.OpLogSload, slot, 0)}},
			call(snd(), s.addrs[auth], 0, "setcode", opvm.C(opvm.OpIncr, slot, 1), opvm.C(opvm.OpLogSload, slot, 0), opvm.CA(opvm.OpLogExtcode, s.addrs[auth], nil)),
			{Kind: "setcode", From: snd(), To: &s.addrs[auth], Value: new(big.Int), Authority: auth, Delegate: common.Address{}, Gas: bigTxGas, Tip: 1, Pat: "setcode"},
			call(snd(), c(), 0, "setcode", opvm.CA(opvm.OpLogExtcode, s.addrs[auth], nil), opvm.CA(opvm.OpCallValue, s.addrs[auth], big.NewInt(0))),
		}
	case 11: // self-destruct of a pre-existing contract (balance moves), then value sent back to it
		a, ben := c(), s.randAddr(rng)
		return "selfdestruct", []intent{
			call(snd(), a, 50, "selfdestruct", opvm.CA(opvm.OpSelfdestruct, ben, nil)),
			transfer(snd(), a, big.NewInt(33), "selfdestruct"),
			call(snd(), c(), 0, "selfdestruct", opvm.CA(opvm.OpLogBalance, a, nil), opvm.CA(opvm.OpLogBalance, ben, nil)),
		}
	case 12: // nested frames: inner revert, delegatecall and static-call writes
		a, b := c(), c()
		return "nested", []intent{
			call(snd(), a, 0, "nested", opvm.C(opvm.OpSstore, slot, 31), opvm.CA(opvm.OpCallRest, b, nil), opvm.C(opvm.OpSstore, slot, 32), opvm.C(opvm.OpRevert, 0, 0)),
			call(snd(), a, 0, "nested", opvm.CA(opvm.OpDelegateRest, b, nil), opvm.C(opvm.OpIncr, slot, 5), opvm.C(opvm.OpLogSload, slot, 0)),
			call(snd(), a, 0, "nested", opvm.CA(opvm.OpStaticRest, b, nil), opvm.C(opvm.OpLogSload, slot, 0), opvm.C(opvm.OpSstore, slot, 33)),
			call(snd(), b, 0, "nested", opvm.C(opvm.OpLogSload, slot, 0)),
		}
	case 13: // state written by the pre-execution system calls (index 0) read by transactions
		return "sysread", []intent{
			// (not the EIP-4788 contract: core.GenerateChain applies the beacon-root call after
			// the transactions, so a transaction reading this block's root would make the
			// generated block differ from what any processor computes)
			call(snd(), c(), 0, "sysread", opvm.CA(opvm.OpLogExtcode, params.HistoryStorageAddress, nil)),
			{Kind: "sysread-history", From: snd(), To: &s.contracts[rng.Intn(nContracts)], Value: new(big.Int), Gas: bigTxGas, Tip: 1, Pat: "sysread"},
		}
	default: // same sender nonce chain with value to one recipient
		from, to := snd(), s.randAddr(rng)
		var out []intent
		for i, n := 0, 2+rng.Intn(4); i < n; i++ {
			out = append(out, transfer(from, to, big.NewInt(int64(1+i)), "nonce-chain"))
		}
		return "nonce-chain", out
	}
}

func (s *scenario) planBlock(rng *rand.Rand, block, maxTx int, pats map[string]bool) blockPlan {
	var p blockPlan
	var seqs [][]intent
	total := 0
	s.lcCreatorUsed = map[int]bool{}
	switch rng.Intn(4) {
	case 0:
		p.Coinbase = pick(rng, s.contracts)
	case 1:
		p.Coinbase = s.addrs[rng.Intn(nSenders)]
	default:
		p.Coinbase = common.HexToAddress("0xc01bba5e00000000000000000000000000000001")
	}
	if rng.Intn(10) == 0 {
		// the fee recipient is itself a lifecycle target (credited after each transaction, also
		// after the one that destroys it)
		t := s.newLcTarget(rng, block, "c2", false)
		p.Coinbase = t.Addr
		s.lcCount("lc_target_is_coinbase")
		seq := s.lifecycle(rng, block, t)
		pats["lifecycle"] = true
		seqs = append(seqs, seq)
		total += len(seq)
	}
	rng.Read(p.BeaconRoot[:])
	target := 2 + rng.Intn(maxTx-1)
	usedPoor := false
	for total < target {
		if k := rng.Intn(100); k < 27 {
			seq := s.lifecycle(rng, block, nil)
			pats["lifecycle"] = true
			seqs = append(seqs, seq)
			total += len(seq)
		} else if k < 67 {
			name, seq := s.pattern(rng, p.Coinbase)
			if name == "funded-sender" {
				if usedPoor {
					continue
				}
				usedPoor = true
			}
			pats[name] = true
			seqs = append(seqs, seq)
			total += len(seq)
		} else {
			var seq []intent
			for i, n := 0, 1+rng.Intn(3); i < n; i++ {
				if rng.Intn(8) == 0 {
					seq = append(seq, transfer(rng.Intn(nSenders), s.randAddr(rng), big.NewInt(int64(rng.Intn(3))), ""))
				} else {
					it := s.randCall(rng)
					if it.Kind == "prog" {
						pats["proggen"] = true
					}
					seq = append(seq, it)
				}
			}
			seqs = append(seqs, seq)
			total += len(seq)
		}
	}
	// random interleaving preserving the order inside each sequence
	for len(seqs) > 0 {
		i := rng.Intn(len(seqs))
		p.Txs = append(p.Txs, seqs[i][0])
		seqs[i] = seqs[i][1:]
		if len(seqs[i]) == 0 {
			seqs = append(seqs[:i], seqs[i+1:]...)
		}
	}
	// every fourth block starts with a transaction observing the index-0 (pre-execution) writes
	if rng.Intn(4) == 0 {
		pats["sysread"] = true
		first := intent{Kind: "sysread-history", From: rng.Intn(nSenders), To: &s.contracts[rng.Intn(nContracts)], Value: new(big.Int), Gas: bigTxGas, Tip: 1, Pat: "sysread"}
		p.Txs = append([]intent{first}, p.Txs...)
	}
	for i, n := 0, rng.Intn(3); i < n; i++ {
		p.Withdrawals = append(p.Withdrawals, &types.Withdrawal{Validator: uint64(i), Address: s.randAddr(rng), Amount: uint64(rng.Intn(3))})
	}
	return p
}

// build turns the plans into signed transactions through core.GenerateChain (sequential
// execution: the embedded access list is the one sequential execution produces).
type built struct {
	blocks   []*types.Block
	receipts []types.Receipts
	txDesc   [][]string
}

func (s *scenario) build() (out *built, err error) {
	defer func() {
		if e := recover(); e != nil {
			err = fmt.Errorf("chain generation panicked: %v", e)
		}
	}()
	signer := types.LatestSigner(s.cfg)
	nonces := map[common.Address]uint64{}
	created := map[int]common.Address{} // creator sender -> last created address
	poorFunded := false
	out = &built{txDesc: make([][]string, len(s.plans))}
	wIndex := uint64(0)
	feeCap := new(big.Int).Mul(big.NewInt(lcFeeCapGwei), gwei)
	// Blocks are generated one at a time against a real (sequentially importing) chain so
	// that BLOCKHASH of any ancestor resolves during generation.
	engine := newEngine()
	gcfg := core.DefaultConfig()
	gcfg.VmConfig = vm.Config{DisableParallelExecution: true}
	bcGen, gerr := core.NewBlockChain(rawdb.NewMemoryDatabase(), s.gspec, engine, gcfg)
	if gerr != nil {
		return nil, gerr
	}
	defer bcGen.Stop()
	genDb, _, _ := core.GenerateChainWithGenesis(s.gspec, engine, 0, nil)
	parent := bcGen.GetBlockByNumber(0)
	var blocks []*types.Block
	var receipts []types.Receipts
	for bi := range s.plans {
		bs, rs := core.GenerateChain(s.cfg, parent, engine, genDb, 1, func(_ int, g *core.BlockGen) {
			p := s.plans[bi]
			g.SetCoinbase(p.Coinbase)
			g.SetParentBeaconRoot(p.BeaconRoot)
			for _, it := range p.Txs {
				from := s.addrs[it.From]
				if it.From == nSenders && !poorFunded {
					continue
				}
				to := it.To
				data := it.Data
				if len(it.Cmds) > 0 {
					data = append(opvm.Encode(it.Cmds...), it.Data...) // Data after commands: raw input of a forwarding command
				}
				switch it.Kind {
				case "call-created":
					a, ok := created[it.Authority]
					if !ok {
						continue
					}
					to = &a
				case "sysread-history": // EIP-2935 get(parent number): succeeds only if the index-0 write is visible
					// the returned parent hash is logged by the calling contract
					data = append(opvm.Encode(opvm.CA(opvm.OpStaticRetRest, params.HistoryStorageAddress, nil)), common.BigToHash(new(big.Int).Sub(g.Number(), common.Big1)).Bytes()...)
				case "probe-created":
					a, ok := created[it.Authority]
					if !ok {
						continue
					}
					data = opvm.Encode(opvm.CA(opvm.OpLogExtcode, a, nil), opvm.CA(opvm.OpLogExtcopy, a, nil), opvm.CA(opvm.OpLogBalance, a, nil))
				}
				tip := new(big.Int).Mul(big.NewInt(it.Tip), gwei)
				if it.TipEqCap {
					tip = feeCap
				}
				var tx *types.Transaction
				if it.Kind == "setcode" {
					akey, aaddr := s.keys[it.Authority], s.addrs[it.Authority]
					an := nonces[aaddr]
					if aaddr == from {
						an++
					}
					auth, e := types.SignSetCode(akey, types.SetCodeAuthorization{ChainID: *uint256.MustFromBig(s.cfg.ChainID), Address: it.Delegate, Nonce: an})
					if e != nil {
						panic(e)
					}
					tx = types.MustSignNewTx(s.keys[it.From], signer, &types.SetCodeTx{
						ChainID: uint256.MustFromBig(s.cfg.ChainID), Nonce: nonces[from], GasTipCap: uint256.MustFromBig(tip), GasFeeCap: uint256.MustFromBig(feeCap),
						Gas: it.Gas, To: *to, Value: uint256.MustFromBig(it.Value), Data: data, AuthList: []types.SetCodeAuthorization{auth},
					})
					nonces[aaddr]++ // the authorization is valid by construction
				} else {
					tx = types.MustSignNewTx(s.keys[it.From], signer, &types.DynamicFeeTx{
						ChainID: s.cfg.ChainID, Nonce: nonces[from], To: to, Value: it.Value, Gas: it.Gas, GasFeeCap: feeCap, GasTipCap: tip, Data: data,
					})
				}
				if it.Kind == "create" {
					created[it.From] = crypto.CreateAddress(from, nonces[from])
				}
				nonces[from]++
				g.AddTxWithChain(bcGen, tx)
				if it.Kind == "transfer" && to != nil && *to == s.addrs[nSenders] && it.Value.Cmp(ether) >= 0 {
					poorFunded = true
				}
				d := it.Kind
				if it.Pat != "" {
					d += "[" + it.Pat + "]"
				}
				if it.Note != "" {
					d += " {" + it.Note
					if to != nil {
						d += " to " + to.Hex()
					}
					d += "}"
				}
				if len(it.Cmds) > 0 {
					d += " " + opvm.String(it.Cmds)
				}
				out.txDesc[bi] = append(out.txDesc[bi], d)
			}
			for _, w := range p.Withdrawals {
				ww := *w
				ww.Index = wIndex
				wIndex++
				g.AddWithdrawal(&ww)
			}
		})
		blocks, receipts = append(blocks, bs[0]), append(receipts, rs[0])
		parent = bs[0]
		if bi+1 < len(s.plans) {
			if _, err := bcGen.InsertChain(bs); err != nil {
				return nil, fmt.Errorf("sequential import of generated block %d: %w", bi+1, err)
			}
		}
	}
	out.blocks, out.receipts = blocks, receipts
	return out, nil
}

func patMask(pats []string) string { return strings.Join(pats, "+") }
