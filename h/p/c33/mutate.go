package main

import (
	"bytes"
	"fmt"
	"math/rand"
	"sort"

	"github.com/ethereum/go-ethereum/common"
	"github.com/ethereum/go-ethereum/core/types/bal"
	"github.com/ethereum/go-ethereum/rlp"
	"github.com/holiman/uint256"
)

// Mirror of the EIP-7928 encoding (bal.AccountAccess has unexported element types, so the
// mutations are applied to this mirror and converted through RLP, which is also how a peer
// would deliver a forged list).
type mWrite struct {
	Idx uint32
	Val *uint256.Int
}
type mSlot struct {
	Slot   *uint256.Int
	Writes []mWrite
}
type mBal struct {
	Idx uint32
	Bal *uint256.Int
}
type mNonce struct {
	Idx   uint32
	Nonce uint64
}
type mCode struct {
	Idx  uint32
	Code []byte
}
type mAcct struct {
	Addr    common.Address
	Changes []mSlot
	Reads   []*uint256.Int
	Bals    []mBal
	Nonces  []mNonce
	Codes   []mCode
}

func toMirror(l *bal.BlockAccessList) ([]mAcct, []byte, error) {
	var buf bytes.Buffer
	if err := l.EncodeRLP(&buf); err != nil {
		return nil, nil, err
	}
	var m []mAcct
	if err := rlp.DecodeBytes(buf.Bytes(), &m); err != nil {
		return nil, nil, err
	}
	re, err := rlp.EncodeToBytes(m)
	if err != nil {
		return nil, nil, err
	}
	if !bytes.Equal(re, buf.Bytes()) {
		return nil, nil, fmt.Errorf("mirror encoding differs from the access list encoding")
	}
	return m, buf.Bytes(), nil
}

func fromMirror(m []mAcct) (*bal.BlockAccessList, []byte, error) {
	enc, err := rlp.EncodeToBytes(m)
	if err != nil {
		return nil, nil, err
	}
	var l bal.BlockAccessList
	if err := rlp.DecodeBytes(enc, &l); err != nil {
		return nil, enc, err
	}
	return &l, enc, nil
}

var mutationKinds = []string{
	"missing-account", "extra-account", "extra-read-slot", "missing-read", "missing-write-slot",
	"missing-write-entry", "wrong-post-value", "wrong-balance", "wrong-nonce", "wrong-code",
	"wrong-index", "swapped-accounts", "swapped-writes", "duplicate-account", "duplicate-write",
	"duplicate-read", "write-to-read", "read-to-write", "noop-balance-entry", "noop-write-entry",
	"index-beyond-block", "missing-balance-entry", "first-last-swap",
}

func u(v uint64) *uint256.Int { return uint256.NewInt(v) }

// mutate applies one mutation of the given kind at a random applicable position. ok=false if
// the list offers no position for that kind.
func mutate(rng *rand.Rand, m []mAcct, kind string, nTx int) (out []mAcct, where string, ok bool) {
	// deep copy through RLP
	enc, _ := rlp.EncodeToBytes(m)
	rlp.DecodeBytes(enc, &out)
	if len(out) == 0 {
		return nil, "", false
	}
	accIdx := func(pred func(a *mAcct) bool) int {
		var c []int
		for i := range out {
			if pred(&out[i]) {
				c = append(c, i)
			}
		}
		if len(c) == 0 {
			return -1
		}
		return c[rng.Intn(len(c))]
	}
	hasSlot := func(a *mAcct, s *uint256.Int) bool {
		for _, r := range a.Reads {
			if r.Eq(s) {
				return true
			}
		}
		for _, c := range a.Changes {
			if c.Slot.Eq(s) {
				return true
			}
		}
		return false
	}
	sortReads := func(a *mAcct) { sort.Slice(a.Reads, func(i, j int) bool { return a.Reads[i].Lt(a.Reads[j]) }) }
	sortChanges := func(a *mAcct) {
		sort.Slice(a.Changes, func(i, j int) bool { return a.Changes[i].Slot.Lt(a.Changes[j].Slot) })
	}
	switch kind {
	case "missing-account":
		i := rng.Intn(len(out))
		where = out[i].Addr.Hex()
		out = append(out[:i], out[i+1:]...)
	case "extra-account":
		var a common.Address
		rng.Read(a[:])
		out = append(out, mAcct{Addr: a})
		sort.Slice(out, func(i, j int) bool { return bytes.Compare(out[i].Addr[:], out[j].Addr[:]) < 0 })
		where = a.Hex()
	case "extra-read-slot":
		i := rng.Intn(len(out))
		s := u(uint64(rng.Intn(8)))
		for hasSlot(&out[i], s) {
			s = u(s.Uint64() + 1)
		}
		out[i].Reads = append(out[i].Reads, s)
		sortReads(&out[i])
		where = fmt.Sprintf("%s slot %s", out[i].Addr.Hex(), s)
	case "missing-read":
		i := accIdx(func(a *mAcct) bool { return len(a.Reads) > 0 })
		if i < 0 {
			return nil, "", false
		}
		j := rng.Intn(len(out[i].Reads))
		where = fmt.Sprintf("%s slot %s", out[i].Addr.Hex(), out[i].Reads[j])
		out[i].Reads = append(out[i].Reads[:j], out[i].Reads[j+1:]...)
	case "missing-write-slot":
		i := accIdx(func(a *mAcct) bool { return len(a.Changes) > 0 })
		if i < 0 {
			return nil, "", false
		}
		j := rng.Intn(len(out[i].Changes))
		where = fmt.Sprintf("%s slot %s", out[i].Addr.Hex(), out[i].Changes[j].Slot)
		out[i].Changes = append(out[i].Changes[:j], out[i].Changes[j+1:]...)
	case "missing-write-entry", "wrong-post-value", "wrong-index", "swapped-writes", "duplicate-write", "noop-write-entry", "index-beyond-block", "first-last-swap":
		need := 1
		if kind == "swapped-writes" || kind == "first-last-swap" {
			need = 2
		}
		i := accIdx(func(a *mAcct) bool {
			for _, c := range a.Changes {
				if len(c.Writes) >= need {
					return true
				}
			}
			return false
		})
		if i < 0 {
			return nil, "", false
		}
		var cs []int
		for j, c := range out[i].Changes {
			if len(c.Writes) >= need {
				cs = append(cs, j)
			}
		}
		c := &out[i].Changes[cs[rng.Intn(len(cs))]]
		k := rng.Intn(len(c.Writes))
		where = fmt.Sprintf("%s slot %s entry %d/%d", out[i].Addr.Hex(), c.Slot, k, len(c.Writes))
		switch kind {
		case "missing-write-entry":
			if len(c.Writes) == 1 {
				return nil, "", false // covered by missing-write-slot (an empty entry list is a different mutation)
			}
			c.Writes = append(c.Writes[:k], c.Writes[k+1:]...)
		case "wrong-post-value":
			c.Writes[k].Val = u(c.Writes[k].Val.Uint64() + 1 + uint64(rng.Intn(3)))
		case "wrong-index":
			// move the entry to a neighbouring free index, keeping the list sorted when possible
			old := c.Writes[k].Idx
			ni := old + 1
			if rng.Intn(2) == 0 && old > 0 {
				ni = old - 1
			}
			c.Writes[k].Idx = ni
			sort.SliceStable(c.Writes, func(a, b int) bool { return c.Writes[a].Idx < c.Writes[b].Idx })
		case "swapped-writes":
			if k == len(c.Writes)-1 {
				k--
			}
			c.Writes[k], c.Writes[k+1] = c.Writes[k+1], c.Writes[k]
		case "first-last-swap":
			// keep indices, exchange the values of the first and the last write of the slot
			// (what a "first instead of last entry wins" confusion would produce)
			f, l := 0, len(c.Writes)-1
			if c.Writes[f].Val.Eq(c.Writes[l].Val) {
				return nil, "", false
			}
			c.Writes[f].Val, c.Writes[l].Val = c.Writes[l].Val, c.Writes[f].Val
		case "duplicate-write":
			c.Writes = append(c.Writes[:k+1], c.Writes[k:]...)
		case "noop-write-entry":
			// repeat the value at the next free index: no state effect, not produced by execution
			ni := c.Writes[k].Idx + 1
			if k+1 < len(c.Writes) && c.Writes[k+1].Idx == ni {
				return nil, "", false
			}
			if int(ni) > nTx+1 {
				return nil, "", false
			}
			w := mWrite{ni, c.Writes[k].Val.Clone()}
			c.Writes = append(c.Writes[:k+1], append([]mWrite{w}, c.Writes[k+1:]...)...)
		case "index-beyond-block":
			c.Writes[len(c.Writes)-1].Idx = uint32(nTx + 2 + rng.Intn(3))
		}
	case "wrong-balance", "noop-balance-entry", "missing-balance-entry":
		i := accIdx(func(a *mAcct) bool { return len(a.Bals) > 0 })
		if i < 0 {
			return nil, "", false
		}
		k := rng.Intn(len(out[i].Bals))
		where = fmt.Sprintf("%s balance entry %d/%d", out[i].Addr.Hex(), k, len(out[i].Bals))
		b := out[i].Bals
		switch kind {
		case "wrong-balance":
			b[k].Bal = new(uint256.Int).AddUint64(b[k].Bal, 1)
		case "missing-balance-entry":
			out[i].Bals = append(b[:k], b[k+1:]...)
		default:
			ni := b[k].Idx + 1
			if k+1 < len(b) && b[k+1].Idx == ni || int(ni) > nTx+1 {
				return nil, "", false
			}
			e := mBal{ni, b[k].Bal.Clone()}
			out[i].Bals = append(b[:k+1], append([]mBal{e}, b[k+1:]...)...)
		}
	case "wrong-nonce":
		i := accIdx(func(a *mAcct) bool { return len(a.Nonces) > 0 })
		if i < 0 {
			return nil, "", false
		}
		k := rng.Intn(len(out[i].Nonces))
		out[i].Nonces[k].Nonce++
		where = fmt.Sprintf("%s nonce entry %d", out[i].Addr.Hex(), k)
	case "wrong-code":
		i := accIdx(func(a *mAcct) bool { return len(a.Codes) > 0 })
		if i < 0 {
			return nil, "", false
		}
		k := rng.Intn(len(out[i].Codes))
		c := append([]byte{}, out[i].Codes[k].Code...)
		if len(c) == 0 {
			c = []byte{0}
		} else {
			c[rng.Intn(len(c))] ^= 1
		}
		out[i].Codes[k].Code = c
		where = fmt.Sprintf("%s code entry %d", out[i].Addr.Hex(), k)
	case "swapped-accounts":
		if len(out) < 2 {
			return nil, "", false
		}
		i := rng.Intn(len(out) - 1)
		out[i], out[i+1] = out[i+1], out[i]
		where = out[i].Addr.Hex()
	case "duplicate-account":
		i := rng.Intn(len(out))
		out = append(out[:i+1], out[i:]...)
		where = out[i].Addr.Hex()
	case "duplicate-read":
		i := accIdx(func(a *mAcct) bool { return len(a.Reads) > 0 })
		if i < 0 {
			return nil, "", false
		}
		j := rng.Intn(len(out[i].Reads))
		out[i].Reads = append(out[i].Reads[:j+1], out[i].Reads[j:]...)
		where = fmt.Sprintf("%s slot %s", out[i].Addr.Hex(), out[i].Reads[j])
	case "write-to-read":
		i := accIdx(func(a *mAcct) bool { return len(a.Changes) > 0 })
		if i < 0 {
			return nil, "", false
		}
		j := rng.Intn(len(out[i].Changes))
		s := out[i].Changes[j].Slot
		out[i].Changes = append(out[i].Changes[:j], out[i].Changes[j+1:]...)
		out[i].Reads = append(out[i].Reads, s)
		sortReads(&out[i])
		where = fmt.Sprintf("%s slot %s", out[i].Addr.Hex(), s)
	case "read-to-write":
		i := accIdx(func(a *mAcct) bool { return len(a.Reads) > 0 })
		if i < 0 {
			return nil, "", false
		}
		j := rng.Intn(len(out[i].Reads))
		s := out[i].Reads[j]
		out[i].Reads = append(out[i].Reads[:j], out[i].Reads[j+1:]...)
		out[i].Changes = append(out[i].Changes, mSlot{s, []mWrite{{uint32(1 + rng.Intn(nTx+1)), u(uint64(rng.Intn(3)))}}})
		sortChanges(&out[i])
		where = fmt.Sprintf("%s slot %s", out[i].Addr.Hex(), s)
	default:
		panic("unknown mutation " + kind)
	}
	return out, where, true
}

// balShape summarises the conflicts recorded in an access list.
type balShape struct {
	accounts, multiWriteSlots, multiBalAccts, codeChanges, nonceAccts, reads, writes int
}

func shapeOf(m []mAcct) (s balShape) {
	s.accounts = len(m)
	for _, a := range m {
		s.reads += len(a.Reads)
		s.writes += len(a.Changes)
		for _, c := range a.Changes {
			if len(c.Writes) > 1 {
				s.multiWriteSlots++
			}
		}
		if len(a.Bals) > 1 {
			s.multiBalAccts++
		}
		s.codeChanges += len(a.Codes)
		if len(a.Nonces) > 0 {
			s.nonceAccts++
		}
	}
	return
}
