// C33: parallel (access-list driven) block execution agrees with sequential execution, for
// every worker schedule; every access list different from the true one is rejected.
package main

import (
	"bytes"
	"context"
	"encoding/json"
	"fmt"
	"math/rand"
	"reflect"
	"runtime"
	"sort"
	"strings"
	"sync"

	"github.com/ethereum/go-ethereum/common"
	"github.com/ethereum/go-ethereum/consensus"
	"github.com/ethereum/go-ethereum/consensus/beacon"
	"github.com/ethereum/go-ethereum/consensus/ethash"
	"github.com/ethereum/go-ethereum/core"
	"github.com/ethereum/go-ethereum/core/rawdb"
	"github.com/ethereum/go-ethereum/core/state"
	"github.com/ethereum/go-ethereum/core/types"
	"github.com/ethereum/go-ethereum/core/types/bal"
	"github.com/ethereum/go-ethereum/core/vm"
	"github.com/ethereum/go-ethereum/trie"

	"verif/lib/sched"
	"verif/lib/vrt"
)

func main() { vrt.Main("C33", run) }

func newEngine() consensus.Engine { return beacon.New(ethash.NewFaker()) }

// outcome is everything the property compares between two executions of one block.
type outcome struct {
	Receipts  string // JSON of receipts (consensus + derived fields, logs with indices, bloom)
	Logs      string // JSON of ProcessResult.Logs
	GasUsed   uint64
	Requests  string
	BalHash   common.Hash
	BalRLP    []byte
	Root      common.Hash
	RcptRoot  common.Hash
	Preimages string
	ValErr    string // ValidateState error ("" = accepted)
}

func outcomeOf(bc *core.BlockChain, block *types.Block, st *state.StateDB, res *core.ProcessResult) outcome {
	var o outcome
	b, _ := json.Marshal(res.Receipts)
	o.Receipts = string(b)
	b, _ = json.Marshal(res.Logs)
	o.Logs = string(b)
	o.GasUsed = res.GasUsed
	if res.Requests == nil {
		o.Requests = "nil"
	} else {
		o.Requests = fmt.Sprintf("%x", res.Requests)
	}
	if res.Bal != nil {
		enc := res.Bal.ToEncodingObj()
		o.BalHash = enc.Hash()
		var buf bytes.Buffer
		enc.EncodeRLP(&buf)
		o.BalRLP = buf.Bytes()
	}
	o.RcptRoot = types.DeriveSha(res.Receipts, trie.NewStackTrie(nil))
	if err := bc.Validator().ValidateState(block, st, res, false); err != nil {
		o.ValErr = err.Error()
	}
	o.Root = st.IntermediateRoot(bc.Config().Rules(block.Number(), block.Difficulty().Sign() == 0, block.Time()))
	pre := st.Preimages()
	keys := make([]string, 0, len(pre))
	for k, v := range pre {
		keys = append(keys, fmt.Sprintf("%x=%x", k, v))
	}
	sort.Strings(keys)
	o.Preimages = strings.Join(keys, ",")
	return o
}

// diff names the first field in which two outcomes differ.
func (o outcome) diff(p outcome) (field, detail string) {
	vo, vp := reflect.ValueOf(o), reflect.ValueOf(p)
	for i := 0; i < vo.NumField(); i++ {
		if !reflect.DeepEqual(vo.Field(i).Interface(), vp.Field(i).Interface()) {
			a, b := fmt.Sprintf("%v", vo.Field(i).Interface()), fmt.Sprintf("%v", vp.Field(i).Interface())
			if len(a) > 1500 {
				a = a[:1500] + "…"
			}
			if len(b) > 1500 {
				b = b[:1500] + "…"
			}
			return vo.Type().Field(i).Name, fmt.Sprintf("sequential: %s\nparallel:   %s", a, b)
		}
	}
	return "", ""
}

// workerMonitor wraps the sched controller: counts, per worker goroutine, the transactions
// it picked (evidence for worker->tx assignments).
type workerMonitor struct {
	ctrl *sched.Controller
	mu   sync.Mutex
	took map[uint64]int
}

func goid() uint64 {
	var buf [40]byte
	n := runtime.Stack(buf[:], false)
	var id uint64
	for _, c := range buf[10:n] {
		if c < '0' || c > '9' {
			break
		}
		id = id*10 + uint64(c-'0')
	}
	return id
}

func (w *workerMonitor) hook(p string) {
	if p == "par-worker-before-tx" {
		g := goid()
		w.mu.Lock()
		w.took[g]++
		w.mu.Unlock()
	}
	w.ctrl.Hook(p)
}

// assignment returns the sorted multiset of per-worker transaction counts, e.g. "5,3,1".
func (w *workerMonitor) assignment() (string, int) {
	w.mu.Lock()
	defer w.mu.Unlock()
	var c []int
	for _, n := range w.took {
		c = append(c, n)
	}
	sort.Sort(sort.Reverse(sort.IntSlice(c)))
	s := make([]string, len(c))
	for i, n := range c {
		s[i] = fmt.Sprint(n)
	}
	return strings.Join(s, ","), len(c)
}

type harness struct {
	r        *vrt.Run
	sigs     map[uint64]bool
	assigns  map[string]bool
	procsSeq []int
	// GOMAXPROCS outside the judged executions (the environment's value); the worker counts
	// 1..16 are set only around each parallel execution, whose pool is sized by GOMAXPROCS.
	baseProcs int
}

func prefetchHint(list *bal.BlockAccessList) map[common.Address][]common.Hash {
	hint := make(map[common.Address][]common.Hash, len(*list))
	for i := range *list {
		acc := &(*list)[i]
		slots := make([]common.Hash, 0, len(acc.StorageReads)+len(acc.StorageChanges))
		for _, s := range acc.StorageReads {
			slots = append(slots, s.Bytes32())
		}
		for j := range acc.StorageChanges {
			slots = append(slots, acc.StorageChanges[j].Slot.Bytes32())
		}
		hint[acc.Address] = slots
	}
	return hint
}

// openState opens the parent state. stacked=true assembles the reader stack the way
// BlockChain.setupExecutionState does for access-list driven execution (shared cache +
// hint prefetcher + trie prefetcher); otherwise a plain state at the parent root.
func openState(bc *core.BlockChain, parent *types.Header, block *types.Block, stacked bool) (*state.StateDB, func(), error) {
	if !stacked {
		st, err := bc.StateAt(parent)
		return st, func() {}, err
	}
	sdb := state.NewMPTDatabase(bc.TrieDB(), bc.CodeDB()).WithSnapshot(bc.Snapshots())
	base, err := sdb.Reader(parent.Root)
	if err != nil {
		return nil, nil, err
	}
	reader, stop := state.NewBlockExecutionReader(base, prefetchHint(block.AccessList()), runtime.GOMAXPROCS(0))
	st, err := state.NewWithReader(parent.Root, sdb, reader)
	if err != nil {
		stop()
		return nil, nil, err
	}
	st.StartPrefetcher("verif", nil)
	return st, func() { st.StopPrefetcher(); stop() }, nil
}

func newChain(s *scenario, scheme string, disablePar bool, snapshots bool) (*core.BlockChain, error) {
	cfg := core.DefaultConfig()
	cfg.StateScheme = scheme
	cfg.VmConfig = vm.Config{DisableParallelExecution: disablePar, EnablePreimageRecording: true}
	if !snapshots {
		cfg.SnapshotLimit = 0
	}
	return core.NewBlockChain(rawdb.NewMemoryDatabase(), s.gspec, newEngine(), cfg)
}

func errStage(err error) string {
	m := err.Error()
	switch {
	case strings.Contains(m, "access list hash mismatch, computed"):
		return "body-hash"
	case strings.Contains(m, "invalid block access list"):
		return "list-validate"
	case strings.Contains(m, "access list hash mismatch, local"):
		return "rebuilt-list"
	case strings.Contains(m, "invalid merkle root"):
		return "state-root"
	case strings.Contains(m, "invalid gas used"), strings.Contains(m, "invalid bloom"), strings.Contains(m, "invalid receipt root"), strings.Contains(m, "invalid requests hash"):
		return "result-fields"
	case strings.Contains(m, "could not apply tx"):
		return "tx-apply"
	}
	return "other"
}

func bucket(n int) string {
	switch {
	case n <= 3:
		return "2-3"
	case n <= 8:
		return "4-8"
	case n <= 16:
		return "9-16"
	case n <= 28:
		return "17-28"
	}
	return "29+"
}

func (h *harness) runCase(ci int) {
	r := h.r
	rng := r.Rand("case", ci)
	nBlocks := 1
	if rng.Intn(3) == 0 {
		nBlocks = 2
	}
	maxTx := pick(rng, []int{4, 8, 8, 16, 16, 28, 40})
	s := newScenario(rng, nBlocks, maxTx)
	r.Case("case %d: generate chain (%d blocks)", ci, nBlocks)
	bt, err := s.build()
	if err != nil {
		// the generator only emits transactions that are valid by construction
		panic(fmt.Sprintf("case %d: %v", ci, err))
	}
	for k, v := range s.lcStats {
		r.Count(k, v)
	}
	scheme := pick(rng, []string{rawdb.HashScheme, rawdb.PathScheme})
	snaps := rng.Intn(2) == 0
	bcPar, err := newChain(s, scheme, false, snaps)
	if err != nil {
		panic(err)
	}
	defer bcPar.Stop()
	bcSeq, err := newChain(s, scheme, true, snaps)
	if err != nil {
		panic(err)
	}
	defer bcSeq.Stop()
	ctx := context.Background()
	nSched := r.N(5, 8)
	nMut := r.N(3, 12)
	if r.Race() {
		nSched, nMut = 3, 3
	}

	for bi, block := range bt.blocks {
		parent := bcPar.GetHeader(block.ParentHash(), block.NumberU64()-1)
		nTx := len(block.Transactions())
		witness := func(extra map[string]any) map[string]any {
			w := map[string]any{"case": ci, "block": bi, "scheme": scheme, "snapshots": snaps, "txs": bt.txDesc[bi], "coinbase": s.plans[bi].Coinbase, "access_list": block.AccessList().PrettyPrint()}
			for k, v := range extra {
				w[k] = v
			}
			return w
		}
		if block.AccessList() == nil {
			panic("generated Amsterdam block without access list")
		}
		mirror, trueEnc, err := toMirror(block.AccessList())
		if err != nil {
			panic(fmt.Sprintf("mirror: %v", err))
		}
		shape := shapeOf(mirror)
		r.Count("blocks", 1)
		r.Count("txs", nTx)
		r.Count("bal_accounts", shape.accounts)
		r.Count("bal_slots_written_by_several_txs", shape.multiWriteSlots)
		r.Count("bal_accounts_balance_changed_by_several_txs", shape.multiBalAccts)
		r.Count("bal_code_changes", shape.codeChanges)
		r.Count("bal_storage_reads", shape.reads)
		failed, logs := 0, 0
		for _, rc := range bt.receipts[bi] {
			if rc.Status == types.ReceiptStatusFailed {
				failed++
			}
			logs += len(rc.Logs)
		}
		r.Count("txs_failed_status", failed)
		r.Count("logs", logs)
		if shape.multiWriteSlots > 0 || shape.multiBalAccts > 1 {
			r.Count("blocks_with_cross_tx_conflicts", 1)
		}

		// ---- oracle: sequential execution on a fresh state at the parent root
		r.Case("case %d block %d: sequential oracle", ci, bi)
		runtime.GOMAXPROCS(h.baseProcs)
		stSeq, cleanup, err := openState(bcSeq, parent, block, false)
		if err != nil {
			panic(err)
		}
		resSeq, err := bcSeq.Processor().Process(ctx, block, stSeq, nil, nil, vm.Config{DisableParallelExecution: true, EnablePreimageRecording: true}, nil)
		if err != nil {
			r.Violation("sequential-rejects-generated-block", fmt.Sprintf("sequential Process fails on the block produced by sequential generation: %v", err), witness(nil))
			cleanup()
			return
		}
		seq := outcomeOf(bcSeq, block, stSeq, resSeq)
		// observed end-of-block class of every access-list account (parent state vs sequential post-state)
		stPre, err := bcSeq.StateAt(parent)
		if err != nil {
			panic(err)
		}
		classes := classifyAccounts(r, stPre, stSeq, mirror)
		if classes.mask != "" {
			r.Count("blocks_with_account_lifecycle_classes_"+classes.mask, 1)
		}
		cleanup()
		if seq.ValErr != "" {
			r.Violation("sequential-validate-rejects-true-block", "ValidateState (sequential) rejects the true block: "+seq.ValErr, witness(nil))
			return
		}
		if seq.Root != block.Root() || seq.BalHash != *block.Header().BlockAccessListHash || !bytes.Equal(seq.BalRLP, trueEnc) {
			r.Violation("sequential-differs-from-generation", "sequential re-execution differs from block generation (root / access list)", witness(nil))
			return
		}

		// ---- parallel execution under several worker schedules
		for si := 0; si < nSched; si++ {
			procs := h.procsSeq[(ci+bi+si)%len(h.procsSeq)]
			if si == 0 {
				procs = 1 + rng.Intn(16)
			}
			stacked := (si+ci)%2 == 0
			r.Case("case %d block %d: parallel schedule %d (GOMAXPROCS=%d stacked=%v)", ci, bi, si, procs, stacked)
			runtime.GOMAXPROCS(procs)
			mon := &workerMonitor{ctrl: sched.New(uint64(rng.Int63())), took: map[uint64]int{}}
			mon.ctrl.Intensity = pick(rng, []int{0, 30, 60, 90})
			core.VerifYieldHook = mon.hook
			stPar, cleanup, err := openState(bcPar, parent, block, stacked)
			if err != nil {
				panic(err)
			}
			resPar, err := bcPar.Processor().Process(ctx, block, stPar, nil, nil, vm.Config{EnablePreimageRecording: true}, nil)
			core.VerifYieldHook = nil
			runtime.GOMAXPROCS(h.baseProcs)
			hits := mon.ctrl.Hits()
			assign, nWorkers := mon.assignment()
			sig := fmt.Sprintf("par/pat=%s/lc=%s/ntx=%s/procs=%d/stacked=%v/workers=%d", patMask(s.patterns), classes.mask, bucket(nTx), procs, stacked, nWorkers)
			if err != nil {
				cleanup()
				r.Violation("parallel-process-error", fmt.Sprintf("parallel Process fails on the true block (GOMAXPROCS=%d): %v", procs, err), witness(map[string]any{"procs": procs, "stacked": stacked}))
				r.Eval(sig)
				continue
			}
			if hits["par-worker-before-tx"] != int64(nTx) || hits["par-worker-before-publish"] != int64(nTx) {
				r.Inconclusive("yield points not hit once per transaction: %v for %d txs (parallel path not taken?)", hits, nTx)
			}
			par := outcomeOf(bcPar, block, stPar, resPar)
			cleanup()
			r.Count("parallel_runs", 1)
			r.Count(fmt.Sprintf("parallel_runs_procs_%02d", procs), 1)
			r.Count("yield_hits", int(hits["par-worker-before-tx"]+hits["par-worker-before-publish"]))
			if nWorkers > 1 {
				r.Count("parallel_runs_with_several_workers", 1)
			}
			h.sigs[mon.ctrl.Signature()] = true
			h.assigns[assign] = true
			if par.ValErr != "" {
				r.Violation("validate-rejects-true-block", fmt.Sprintf("ValidateState rejects the true block after parallel execution (GOMAXPROCS=%d): %s", procs, par.ValErr), witness(map[string]any{"procs": procs, "stacked": stacked}))
			}
			if f, d := seq.diff(par); f != "" {
				r.Violation("parallel-differs:"+f, fmt.Sprintf("parallel execution (GOMAXPROCS=%d, stacked reader=%v, workers=%s) differs from sequential in %s\n%s", procs, stacked, assign, f, d),
					witness(map[string]any{"procs": procs, "stacked": stacked, "field": f}))
			}
			r.Eval(sig)
			if r.WantSample() && nTx >= 6 {
				r.Sample(map[string]any{"case": ci, "block": bi, "txs": bt.txDesc[bi], "procs": procs, "worker_tx_counts": assign, "gas_used": par.GasUsed, "bal_accounts": shape.accounts, "slots_written_by_several_txs": shape.multiWriteSlots})
			}
		}

		// ---- mutated access lists must be rejected (before the true block is imported:
		// a body-only forgery has the hash of the true block)
		kinds := append([]string{}, mutationKinds...)
		rng.Shuffle(len(kinds), func(i, j int) { kinds[i], kinds[j] = kinds[j], kinds[i] })
		done := 0
		for _, kind := range kinds {
			if done >= nMut {
				break
			}
			mm, where, ok := mutate(rng, mirror, kind, nTx)
			if !ok {
				continue
			}
			forged, enc, err := fromMirror(mm)
			if err != nil {
				r.Count("mutations_undecodable", 1) // rejected by the decoder already
				continue
			}
			if bytes.Equal(enc, trueEnc) {
				continue
			}
			done++
			for _, withHeader := range []bool{false, true} {
				mb := block.WithAccessListUnsafe(forged)
				if withHeader {
					hd := block.Header()
					hh := forged.Hash()
					hd.BlockAccessListHash = &hh
					mb = types.NewBlockWithHeader(hd).WithBody(*block.Body()).WithAccessListUnsafe(forged)
				}
				// alternate the importing chain: the parallel one always for header forgeries
				targets := []*core.BlockChain{bcPar}
				if withHeader && rng.Intn(3) == 0 {
					targets = append(targets, bcSeq)
				}
				for _, bc := range targets {
					mode := map[bool]string{false: "body", true: "body+header"}[withHeader]
					procs := pick(rng, h.procsSeq)
					r.Case("case %d block %d: forged list %s (%s) at %s, GOMAXPROCS=%d", ci, bi, kind, mode, where, procs)
					runtime.GOMAXPROCS(procs)
					mon := &workerMonitor{ctrl: sched.New(uint64(rng.Int63())), took: map[uint64]int{}}
					core.VerifYieldHook = mon.hook
					_, ierr := bc.InsertChain(types.Blocks{mb})
					core.VerifYieldHook = nil
					runtime.GOMAXPROCS(h.baseProcs)
					w := witness(map[string]any{"mutation": kind, "where": where, "mode": mode, "forged_list": forged.PrettyPrint(), "parallel_chain": bc == bcPar})
					head := bc.CurrentBlock()
					if ierr == nil || head.Hash() != parent.Hash() {
						r.Violation("forged-list-accepted:"+kind+":"+mode, fmt.Sprintf("InsertChain accepted a block whose access list differs from the true one (%s at %s, %s, parallel chain=%v); head now %d", kind, where, mode, bc == bcPar, head.Number), w)
						r.Eval("mut=" + kind + "/" + mode + "/accepted")
						return // the chain state is no longer the one the rest of the case assumes
					}
					stage := errStage(ierr)
					r.Count("forged_rejected", 1)
					r.Count("forged_rejected_at_"+stage, 1)
					r.Eval(fmt.Sprintf("mut=%s/%s/stage=%s/par=%v", kind, mode, stage, bc == bcPar))
				}
			}
		}

		// ---- the true block through the real import path of both chains
		procs := pick(rng, h.procsSeq)
		r.Case("case %d block %d: InsertChain true block, GOMAXPROCS=%d", ci, bi, procs)
		runtime.GOMAXPROCS(procs)
		mon := &workerMonitor{ctrl: sched.New(uint64(rng.Int63())), took: map[uint64]int{}}
		core.VerifYieldHook = mon.hook
		_, ierr := bcPar.InsertChain(types.Blocks{block})
		core.VerifYieldHook = nil
		runtime.GOMAXPROCS(h.baseProcs)
		if ierr != nil {
			r.Violation("import-rejects-true-block", fmt.Sprintf("InsertChain (parallel path, GOMAXPROCS=%d) rejects the true block: %v", procs, ierr), witness(map[string]any{"procs": procs}))
			return
		}
		if mon.ctrl.Hits()["par-worker-before-tx"] != int64(nTx) {
			r.Inconclusive("InsertChain did not take the parallel path (%v hits for %d txs)", mon.ctrl.Hits(), nTx)
		}
		h.sigs[mon.ctrl.Signature()] = true
		r.Count("imports_parallel", 1)
		if _, err := bcSeq.InsertChain(types.Blocks{block}); err != nil {
			r.Violation("sequential-import-rejects-true-block", fmt.Sprintf("InsertChain (sequential) rejects the true block: %v", err), witness(nil))
			return
		}
		// stored receipts of the two chains must agree (derived fields included)
		a, _ := json.Marshal(bcPar.GetReceiptsByHash(block.Hash()))
		b, _ := json.Marshal(bcSeq.GetReceiptsByHash(block.Hash()))
		if !bytes.Equal(a, b) {
			r.Violation("stored-receipts-differ", "receipts stored by the parallel import differ from the sequential import", witness(map[string]any{"parallel": string(a), "sequential": string(b)}))
		}
		if bcPar.CurrentBlock().Root != block.Root() || !bcPar.HasState(block.Root()) {
			r.Violation("imported-state-missing", "state of the imported block not available after the parallel import", witness(nil))
		}
		r.Eval(fmt.Sprintf("import/pat=%s/ntx=%s/procs=%d", patMask(s.patterns), bucket(nTx), procs))
	}
}

func run(r *vrt.Run) {
	r.Rule("each case: an Amsterdam chain (1-2 blocks, 2-40 txs) from core.GenerateChain over 6+1 senders, 8 calldata-driven contracts, a 7702-delegated EOA and the system contracts; blocks are random interleavings of directed conflict sequences (read-after-write, write-after-write/net-zero, balance chains, create-then-call, create+selfdestruct, nonce chains, funded sender, 7702, requests, coinbase, reverts, nested frames), account-lifecycle sequences (an address absent from the parent state, or present with a balance only, is zero-value touched / funded / made a self-destruct beneficiary / hit by a CREATE2 or creation transaction whose init code self-destructs to another account, to itself, to the caller, after storage writes, after paying out, deploys code, deploys nothing, reverts / used / drained / re-created by several transactions; fresh EOAs funded with exactly the cost of their only transaction) and random command lists. Judged: parallel Process vs sequential Process under (GOMAXPROCS, yield seed, reader stack) schedules; InsertChain of forged lists (23 mutation kinds x {body, body+header}) and of the true block. signature = (pattern set, end-of-block account classes reached [a: absent before, absent after, with balance/nonce/code entries in the list; b: present before, removed; c: absent before, non-empty after], #tx bucket, GOMAXPROCS, reader stack, workers used) resp. (mutation kind, mode, rejecting stage, chain)")
	h := &harness{r: r, sigs: map[uint64]bool{}, assigns: map[string]bool{}, procsSeq: []int{1, 2, 3, 8, 16, 4, 5, 12}, baseProcs: runtime.GOMAXPROCS(0)}
	// quick: 120 (race: 30) cases since the account-lifecycle family was added (150 / 40 before):
	// the check ran ~150 CPU-s for both variants together, above the quick budget
	n := r.N(120, 3000)
	if r.Race() {
		n = r.N(30, 300)
	}
	defer runtime.GOMAXPROCS(runtime.GOMAXPROCS(0))
	for ci := 0; ci < n; ci++ {
		h.runCase(ci)
		if r.NumViolations() >= 12 {
			break
		}
	}
	r.Extra("distinct_interleaving_signatures", len(h.sigs))
	r.Extra("distinct_worker_tx_assignments", len(h.assigns))
	r.Count("distinct_interleaving_signatures", len(h.sigs))
	r.Count("distinct_worker_tx_assignments", len(h.assigns))
	if !r.Violated() {
		r.Require("parallel_runs", int64(n))
		r.Require("parallel_runs_with_several_workers", int64(n/2))
		r.Require("blocks_with_cross_tx_conflicts", int64(n/3))
		r.Require("forged_rejected", int64(n))
		r.Require("imports_parallel", int64(n))
		r.Require("distinct_worker_tx_assignments", 5)
		// account-lifecycle classes observed at the end of the blocks (see classifyAccounts)
		atLeast := func(v, min int) int64 {
			if v < min {
				v = min
			}
			return int64(v)
		}
		r.Require("lc_sequences", int64(n/2))
		r.Require("bal_accounts_absent_pre_and_empty_post_with_balance_nonce_code_entries", atLeast(n/15, 2))
		r.Require("bal_accounts_absent_pre_and_empty_post_read_or_touched_only", int64(n/2))
		if !r.Race() { // (too few cases in the race variant for the rarer classes)
			r.Require("bal_accounts_present_pre_and_empty_post", atLeast(n/40, 1))
			r.Require("bal_accounts_absent_pre_funded_then_drained_to_zero_nonempty_post", atLeast(n/40, 1))
		}
		r.Require("bal_accounts_absent_pre_and_nonempty_post", int64(n))
		r.Require("bal_accounts_absent_pre_and_nonempty_post_contract", int64(n/6))
		r.Require("bal_accounts_absent_pre_and_nonempty_post_nonce_without_code", int64(n/12))
	}
	r.Assume("oracle = sequential execution (core.StateProcessor with DisableParallelExecution) of the same block on a fresh state at the parent root; the block and its access list come from core.GenerateChain (sequential)")
	r.Assume("the Op contract (h/lib/opvm) and the transaction generator only shape the workload; no expectation about EVM semantics enters the verdict")
	_ = rand.Int
}
