package main

// Account-lifecycle family: directed transaction sequences around ONE address ("target") that
// is (mostly) absent from the parent state and is touched / funded / created / destroyed /
// drained / re-created by several transactions of one block. The sequences are interleaved
// with the other (storage/balance conflict) families by planBlock, so the target's history is
// spread over several workers of the parallel processor, while the post-state of the account
// (absent, deleted, empty-code nonce-1 account, contract, drained contract, ...) is what
// ApplyBlockAccessList has to derive from the access list alone.
//
// Nothing here enters the verdict: the oracle is still sequential execution. The end-of-block
// class of every access-list account is *observed* (parent state vs sequential post-state)
// and reported as counters / coverage obligations (classifyAccounts).
//
// Domain exclusion: the genesis never contains an *empty* account (nonce 0, balance 0, no
// code). EIP-161 removed them and EIP-7523 forbids them from the Merge on; EIP-7928 lists no
// entry for a zero-value touch, so "pre-existing empty account touched" is not a situation the
// access list is specified for.

import (
	"fmt"
	"math/big"
	"math/rand"

	"github.com/ethereum/go-ethereum/common"
	"github.com/ethereum/go-ethereum/core"
	"github.com/ethereum/go-ethereum/core/state"
	"github.com/ethereum/go-ethereum/core/types"
	"github.com/ethereum/go-ethereum/crypto"
	"github.com/holiman/uint256"

	"verif/lib/opvm"
)

const nLcCreators = 3 // rich senders that only send lifecycle creation transactions

var (
	lcFactoryAddr = common.HexToAddress("0xfac7000000000000000000000000000000000001")
	lcFactory     = lcFactoryCode()
)

// lcFactoryCode: calldata = flag(32) | salt(32) | init code. CREATE2(value=CALLVALUE, init,
// salt); LOG0(created address or 0); REVERT if flag != 0 (the whole creation is undone), else
// STOP.
func lcFactoryCode() []byte {
	a := opvm.NewAsm()
	a.Push(64).Op(0x36, 0x03)                    // CALLDATASIZE - 64            [size]
	a.Op(0x80).Push(64).Push(0).Op(0x37)         // CALLDATACOPY(0, 64, size)    [size]
	a.Push(32).Op(0x35)                          // salt                         [size, salt]
	a.Op(0x90).Push(0).Op(0x34)                  // SWAP1; offset 0; CALLVALUE   [salt, size, 0, value]
	a.Op(0xf5)                                   // CREATE2                      [addr]
	a.Push(0).Op(0x52)                           // MSTORE(0, addr)
	a.Push(32).Push(0).Op(0xa0)                  // LOG0(0, 32)
	a.Push(0).Op(0x35).PushLabel("rev").Op(0x57) // flag != 0 -> revert
	a.Op(0x00)
	a.Label("rev").Push(0).Push(0).Op(0xfd)
	return a.Bytes()
}

func push20(a common.Address) []byte { return append([]byte{0x73}, a.Bytes()...) }

var lcInitKinds = []string{"sd-other", "sd-other", "sd-self", "sd-caller", "sst-sd", "pay-sd", "deploy", "deploy-sst", "empty-code", "revert", "cond"}

// lcInit returns init code of the given kind. destroys = the created account self-destructs
// inside the creating transaction (EIP-6780: really removed).
func lcInit(kind string, ben, ben2 common.Address) (code []byte, destroys bool) {
	sd := func(to common.Address) []byte { return append(push20(to), 0xff) }
	switch kind {
	case "sd-other":
		return sd(ben), true
	case "sd-self":
		return []byte{0x30, 0xff}, true // ADDRESS SELFDESTRUCT: the balance is burnt
	case "sd-caller":
		return []byte{0x33, 0xff}, true
	case "sst-sd": // storage writes, then destroyed
		return append([]byte{0x60, 7, 0x60, 1, 0x55, 0x60, 9, 0x60, 2, 0x55, 0x60, 2, 0x54, 0x60, 3, 0x55}, sd(ben)...), true
	case "pay-sd": // pays its whole balance to ben by CALL, then self-destructs with zero balance
		c := []byte{0x5f, 0x5f, 0x5f, 0x5f, 0x47}
		c = append(c, push20(ben)...)
		c = append(c, 0x5a, 0xf1, 0x50)
		return append(c, sd(ben2)...), true
	case "deploy":
		return opvm.CloneInit(false), false
	case "deploy-sst":
		return opvm.CloneInit(true), false
	case "empty-code": // account with nonce 1 and no code
		return []byte{0x00}, false
	case "revert":
		return []byte{0x5f, 0x5f, 0xfd}, false
	case "cond": // value 0: self-destruct to ben; value > 0: deploy "PUSH20 ben2 SELFDESTRUCT"
		rt := sd(ben2)
		tail := append([]byte{0x5b}, sd(ben)...) // JUMPDEST ...
		// head: CALLVALUE ISZERO PUSH1 <tail> JUMPI PUSH1 rtlen PUSH1 rtoff PUSH0 CODECOPY PUSH1 rtlen PUSH0 RETURN
		const headLen = 16
		head := []byte{0x34, 0x15, 0x60, headLen, 0x57, 0x60, byte(len(rt)), 0x60, byte(headLen + len(tail)), 0x5f, 0x39, 0x60, byte(len(rt)), 0x5f, 0xf3, 0xfe}
		if len(head) != headLen {
			panic("lcInit: head length")
		}
		return append(append(head, tail...), rt...), false // destroys only when created with value 0
	}
	panic("lcInit: unknown kind " + kind)
}

// lcTarget is one address whose lifecycle a sequence drives.
type lcTarget struct {
	Addr     common.Address
	Via      string // c2 (factory CREATE2) | sc (creation tx of a dedicated sender) | key (fresh EOA with a key) | plain
	InitKind string
	Init     []byte
	Salt     common.Hash
	Ben      common.Address
	KeyIdx   int // index into s.keys: the creator (sc) or the account itself (key)
	Block    int // block of first use
	PreFund  bool
}

func (s *scenario) lcCount(name string) { s.lcStats[name]++ }

// lcBeneficiary: another fresh address, a never-existing address, a contract, a sender, or
// the target itself.
func (s *scenario) lcBeneficiary(rng *rand.Rand, self common.Address) common.Address {
	switch rng.Intn(6) {
	case 0:
		return pick(rng, s.contracts)
	case 1:
		return s.addrs[rng.Intn(nSenders)]
	case 2:
		return self
	case 3:
		if len(s.lcTargets) > 0 {
			return pick(rng, s.lcTargets).Addr
		}
		fallthrough
	default:
		s.lcSerial++
		return common.BytesToAddress(crypto.Keccak256([]byte(fmt.Sprintf("verif-c33-lc-ben-%d", s.lcSerial)))[12:])
	}
}

var lcDestroyingKinds = []string{"sd-other", "sd-other", "sd-self", "sd-caller", "sst-sd", "pay-sd"}

// newLcTarget: wantDestroy restricts the init code to the kinds that self-destruct inside the
// creating transaction.
func (s *scenario) newLcTarget(rng *rand.Rand, block int, via string, wantDestroy bool) *lcTarget {
	s.lcSerial++
	creator := -1
	if via == "sc" {
		// one creation per creator and block: transactions of different sequences are interleaved,
		// so a second creation of the same sender could take the nonce planned for the first
		for i, o := 0, rng.Intn(nLcCreators); i < nLcCreators; i++ {
			if k := nSenders + 1 + (o+i)%nLcCreators; !s.lcCreatorUsed[k] {
				creator = k
				break
			}
		}
		if creator < 0 {
			via = "c2"
		} else {
			s.lcCreatorUsed[creator] = true
		}
	}
	t := &lcTarget{Via: via, Block: block}
	tag := fmt.Sprintf("verif-c33-lc-%d", s.lcSerial)
	switch via {
	case "c2", "sc":
		t.InitKind = pick(rng, lcInitKinds)
		if wantDestroy {
			t.InitKind = pick(rng, lcDestroyingKinds)
		}
	}
	switch via {
	case "c2":
		t.Salt = crypto.Keccak256Hash([]byte(tag))
	case "sc":
		t.KeyIdx = creator
	case "key":
		k := mkKey(tag)
		s.keys = append(s.keys, k)
		s.addrs = append(s.addrs, crypto.PubkeyToAddress(k.PublicKey))
		t.KeyIdx = len(s.keys) - 1
		t.Addr = s.addrs[t.KeyIdx]
	case "plain":
		t.Addr = common.BytesToAddress(crypto.Keccak256([]byte(tag))[12:])
	}
	// the init code may name the target itself as beneficiary only where its address does not
	// depend on the init code
	self := t.Addr
	if via == "sc" {
		self = crypto.CreateAddress(s.addrs[t.KeyIdx], s.lcNonce[t.KeyIdx])
		t.Addr = self
	}
	t.Ben = s.lcBeneficiary(rng, self)
	if t.InitKind != "" {
		t.Init, _ = lcInit(t.InitKind, t.Ben, s.lcBeneficiary(rng, self))
	}
	if via == "c2" {
		t.Addr = crypto.CreateAddress2(lcFactoryAddr, t.Salt, crypto.Keccak256(t.Init))
	}
	// some targets exist in the genesis already with a balance only (never an empty account)
	// (more often where the creation is going to destroy it: "present before, removed")
	if via != "key" && rng.Intn(6) < map[bool]int{false: 1, true: 3}[wantDestroy] {
		if _, ok := s.gspec.Alloc[t.Addr]; !ok {
			s.gspec.Alloc[t.Addr] = types.Account{Balance: big.NewInt(int64(1 + rng.Intn(1000)))}
			t.PreFund = true
			s.lcCount("lc_targets_prefunded_in_genesis")
		}
	}
	s.lcTargets = append(s.lcTargets, t)
	s.pool = append(s.pool, t.Addr) // random commands of other transactions may hit it too
	s.lcCount("lc_targets_via_" + via)
	return t
}

func lcNote(it intent, note string) intent { it.Note = note; it.Pat = "lifecycle"; return it }

// lcAmount: zero-value touches are as likely as real funding.
func lcAmount(rng *rand.Rand) int64 {
	return pick(rng, []int64{0, 0, 1, 1, 5, int64(1000 + rng.Intn(1000))})
}

const (
	lcAny      = iota
	lcPositive // the target certainly receives value
	lcZero     // the target's balance does not change (zero-value touches, probes, reverted funding)
)

// lcTouch: one transaction that touches / funds / probes the target from outside.
func (s *scenario) lcTouch(rng *rand.Rand, t *lcTarget, policy int) intent {
	snd := rng.Intn(nSenders)
	v := lcAmount(rng)
	k := rng.Intn(100)
	switch policy {
	case lcPositive:
		v = pick(rng, []int64{1, 5, int64(1000 + rng.Intn(1000))})
		k = pick(rng, []int{0, 0, 50}) // transfer or contract call (the contract is paid what it forwards)
	case lcZero:
		v = 0
		k = pick(rng, []int{0, 50, 80, 90})
	}
	switch {
	case k < 40: // plain transfer (value 0: zero-value touch)
		s.lcCount(map[bool]string{true: "lc_tx_zero_value_transfer", false: "lc_tx_fund_transfer"}[v == 0])
		return lcNote(transfer(snd, t.Addr, big.NewInt(v), ""), fmt.Sprintf("transfer %d", v))
	case k < 62: // CALL with value from a contract (value 0: zero-value CALL)
		s.lcCount(map[bool]string{true: "lc_tx_zero_value_call", false: "lc_tx_fund_by_contract_call"}[v == 0])
		return lcNote(call(snd, pick(rng, s.contracts), v, "", opvm.CA(opvm.OpCallValue, t.Addr, big.NewInt(v)), opvm.CA(opvm.OpLogBalance, t.Addr, nil)), fmt.Sprintf("contract-call %d", v))
	case k < 74: // beneficiary of the self-destruct of a pre-existing contract
		s.lcCount("lc_tx_selfdestruct_beneficiary")
		return lcNote(call(snd, pick(rng, s.contracts), v, "", opvm.CA(opvm.OpSelfdestruct, t.Addr, nil)), "beneficiary")
	case k < 82: // funded inside a frame that reverts
		s.lcCount("lc_tx_fund_reverted")
		return lcNote(call(snd, pick(rng, s.contracts), 9, "", opvm.CA(opvm.OpCallValue, t.Addr, big.NewInt(9)), opvm.C(opvm.OpRevert, 0, 0)), "fund-reverted")
	default: // observed
		s.lcCount("lc_tx_probe")
		return lcNote(call(snd, pick(rng, s.contracts), 0, "", opvm.CA(opvm.OpLogExtcode, t.Addr, nil), opvm.CA(opvm.OpLogBalance, t.Addr, nil), opvm.CA(opvm.OpLogExtcopy, t.Addr, nil)), "probe")
	}
}

// lcCreate: the transaction that lands a contract creation on the target.
func (s *scenario) lcCreate(rng *rand.Rand, t *lcTarget) intent {
	v := pick(rng, []int64{0, 0, 0, 3, 11})
	s.lcCount("lc_tx_create_" + t.Via + "_" + t.InitKind)
	if t.Via == "sc" {
		// the address was computed from the creator's planned nonce
		if crypto.CreateAddress(s.addrs[t.KeyIdx], s.lcNonce[t.KeyIdx]) != t.Addr {
			// the creator was used since; this creation lands elsewhere (still a valid transaction)
			s.lcCount("lc_tx_create_sc_other_address")
		}
		s.lcNonce[t.KeyIdx]++
		return lcNote(intent{Kind: "create", From: t.KeyIdx, Value: big.NewInt(v), Data: t.Init, Gas: bigTxGas, Tip: 1}, fmt.Sprintf("create(%s) value %d -> %s", t.InitKind, v, t.Addr.Hex()))
	}
	flag := common.Hash{}
	mode := "direct"
	if rng.Intn(10) == 0 {
		flag[31] = 1
		mode = "reverted"
		s.lcCount("lc_tx_create_reverted_by_factory")
	}
	raw := append(append(flag.Bytes(), t.Salt.Bytes()...), t.Init...)
	snd := rng.Intn(nSenders)
	if mode == "direct" && rng.Intn(4) == 0 { // through a contract frame: the value comes from that contract
		s.lcCount("lc_tx_create_nested")
		it := call(snd, pick(rng, s.contracts), v, "", opvm.CA(opvm.OpCallRest, lcFactoryAddr, big.NewInt(v)))
		it.Data = raw
		return lcNote(it, fmt.Sprintf("create2(%s) nested value %d -> %s", t.InitKind, v, t.Addr.Hex()))
	}
	return lcNote(intent{Kind: "factory", From: snd, To: &lcFactoryAddr, Value: big.NewInt(v), Data: raw, Gas: bigTxGas, Tip: 1}, fmt.Sprintf("create2(%s) %s value %d -> %s", t.InitKind, mode, v, t.Addr.Hex()))
}

// lcUse: a transaction to the target itself (meaningful when it hosts the Op contract or
// the "cond" runtime; otherwise a transfer with data to a code-less / absent account).
func (s *scenario) lcUse(rng *rand.Rand, t *lcTarget, policy int) intent {
	snd := rng.Intn(nSenders)
	slot := uint64(rng.Intn(nSlots))
	var cmds []opvm.Cmd
	note := ""
	switch rng.Intn(5) {
	case 0: // later-transaction self-destruct: the balance leaves, the code stays
		cmds, note = []opvm.Cmd{opvm.CA(opvm.OpSelfdestruct, t.Ben, nil)}, "use:selfdestruct"
	case 1: // pays out what the earlier transactions most likely left
		cmds, note = []opvm.Cmd{opvm.CA(opvm.OpCallValue, t.Ben, big.NewInt(pick(rng, []int64{1, 3, 5, 11}))), opvm.CA(opvm.OpLogBalance, t.Addr, nil)}, "use:pay-out"
	case 2:
		cmds, note = []opvm.Cmd{opvm.C(opvm.OpIncr, slot, 2), opvm.C(opvm.OpLogSload, slot, 0)}, "use:storage"
	case 3: // the target creates a child (nonce bump) that self-destructs
		cmds, note = []opvm.Cmd{opvm.C(opvm.OpCreateSuicide, 0, 1), opvm.C(opvm.OpSstore, slot, 4)}, "use:create-child"
	default:
		cmds, note = []opvm.Cmd{opvm.C(opvm.OpSstore, 1, 0), opvm.C(opvm.OpLogSload, 1, 0)}, "use:clear-slot"
	}
	s.lcCount("lc_tx_use_target")
	v := lcAmount(rng)
	if policy == lcZero {
		v = 0
	}
	return lcNote(call(snd, t.Addr, v, "", cmds...), note)
}

// lifecycle returns one directed sequence around one target.
func (s *scenario) lifecycle(rng *rand.Rand, block int, forced *lcTarget) []intent {
	t := forced
	// a third of the creation sequences is directed at "ends the block absent although the list
	// carries balance entries": funded first, destroyed by its own init code, then at most
	// observed / zero-value touched
	directed := rng.Intn(3) == 0
	if t == nil {
		var old []*lcTarget
		for _, o := range s.lcTargets {
			if o.Block < block {
				old = append(old, o)
			}
		}
		switch k := rng.Intn(100); {
		case k < 30 && len(old) > 0: // a target of an earlier block: now (possibly) present in the parent state
			t = pick(rng, old)
			s.lcCount("lc_sequences_on_earlier_target")
		case k < 55:
			t = s.newLcTarget(rng, block, "c2", directed)
		case k < 75:
			t = s.newLcTarget(rng, block, "sc", directed)
		case k < 88:
			t = s.newLcTarget(rng, block, "key", false)
		default:
			t = s.newLcTarget(rng, block, "plain", false)
		}
	}
	s.lcCount("lc_sequences")
	var out []intent
	switch t.Via {
	case "c2", "sc":
		if directed && t.Block == block && forced == nil {
			s.lcCount("lc_sequences_directed_fund_destroy")
			if !t.PreFund || rng.Intn(2) == 0 {
				out = append(out, s.lcTouch(rng, t, lcPositive))
			}
			if rng.Intn(2) == 0 {
				out = append(out, s.lcTouch(rng, t, lcAny))
			}
			out = append(out, s.lcCreate(rng, t))
			for i, n := 0, rng.Intn(3); i < n; i++ {
				if rng.Intn(3) == 0 {
					out = append(out, s.lcUse(rng, t, lcZero))
				} else {
					out = append(out, s.lcTouch(rng, t, lcZero))
				}
			}
			break
		}
		for i, n := 0, rng.Intn(3); i < n; i++ {
			out = append(out, s.lcTouch(rng, t, lcAny))
		}
		if t.Via == "c2" || t.Block == block { // an sc address is bound to one creator nonce
			out = append(out, s.lcCreate(rng, t))
		}
		for i, n := 0, rng.Intn(4); i < n; i++ {
			switch k := rng.Intn(10); {
			case k < 5:
				out = append(out, s.lcTouch(rng, t, lcAny))
			case k < 8:
				out = append(out, s.lcUse(rng, t, lcAny))
			case t.Via == "c2": // same salt and init code again: collision, or re-creation after a destruction
				s.lcCount("lc_tx_recreate_same_address")
				out = append(out, s.lcCreate(rng, t))
			}
		}
	case "key":
		// funded with exactly what one plain transfer of v costs at gas price = fee cap, so the
		// account pays itself empty (balance 0, nonce 1); sometimes a little more
		to := s.addrs[nSenders+1] // a lifecycle creator: never delegated, always existing
		v := big.NewInt(int64(rng.Intn(3)))
		rules := s.cfg.Rules(common.Big1, true, 0)
		vv, _ := uint256.FromBig(v)
		gas, err := core.IntrinsicGas(nil, nil, nil, t.Addr, &to, vv, rules)
		if err != nil {
			panic(err)
		}
		if fl, err := core.FloorDataGas(rules, t.Addr, &to, vv, nil, nil); err == nil && fl > gas {
			gas = fl
		}
		need := new(big.Int).Mul(new(big.Int).SetUint64(gas), new(big.Int).Mul(big.NewInt(lcFeeCapGwei), gwei))
		need.Add(need, v)
		if rng.Intn(4) == 0 {
			need.Add(need, big.NewInt(int64(1+rng.Intn(50))))
		}
		if rng.Intn(3) == 0 {
			out = append(out, s.lcTouch(rng, t, lcAny))
		}
		s.lcCount("lc_tx_fund_exact")
		out = append(out, lcNote(transfer(rng.Intn(nSenders), t.Addr, need, ""), "fund-exact"))
		if rng.Intn(3) == 0 {
			out = append(out, s.lcTouch(rng, t, lcAny)) // may leave a remainder, or revert
		}
		s.lcCount("lc_tx_key_pays_out")
		out = append(out, lcNote(intent{Kind: "transfer", From: t.KeyIdx, To: &to, Value: v, Gas: gas, TipEqCap: true}, "key-pays-all"))
		if rng.Intn(3) == 0 {
			out = append(out, s.lcTouch(rng, t, lcAny))
		}
	default:
		for i, n := 0, 1+rng.Intn(4); i < n; i++ {
			out = append(out, s.lcTouch(rng, t, lcAny))
		}
	}
	if len(out) == 0 { // (an earlier creation-sender target without any touch drawn)
		out = append(out, s.lcTouch(rng, t, lcAny))
	}
	return out
}

const lcFeeCapGwei = 100

// ---- observation of the end-of-block classes

type lcClasses struct {
	mask string // which of the classes a (absent -> absent), b (present -> removed), c (absent -> non-empty) occurred
}

func classifyAccounts(r interface{ Count(string, int) }, pre, post *state.StateDB, m []mAcct) lcClasses {
	var a, b, c bool
	for i := range m {
		acc := &m[i]
		meta := len(acc.Bals)+len(acc.Nonces)+len(acc.Codes) > 0
		stor := len(acc.Changes) > 0
		preExist := pre.Exist(acc.Addr)
		postGone := !post.Exist(acc.Addr) || post.Empty(acc.Addr)
		backToZero := len(acc.Bals) > 0 && acc.Bals[len(acc.Bals)-1].Bal.IsZero()
		switch {
		case !preExist && postGone:
			r.Count("bal_accounts_absent_pre_and_empty_post", 1)
			if meta {
				a = true
				r.Count("bal_accounts_absent_pre_and_empty_post_with_balance_nonce_code_entries", 1)
			} else if !stor {
				r.Count("bal_accounts_absent_pre_and_empty_post_read_or_touched_only", 1)
			}
			if stor {
				r.Count("bal_accounts_absent_pre_and_empty_post_with_storage_writes", 1)
			}
			if len(acc.Nonces) > 0 || len(acc.Codes) > 0 {
				r.Count("bal_accounts_absent_pre_and_empty_post_with_nonce_or_code_entries", 1)
			}
		case preExist && postGone:
			b = true
			r.Count("bal_accounts_present_pre_and_empty_post", 1)
		case !preExist:
			c = true
			r.Count("bal_accounts_absent_pre_and_nonempty_post", 1)
			switch {
			case len(post.GetCode(acc.Addr)) > 0:
				r.Count("bal_accounts_absent_pre_and_nonempty_post_contract", 1)
			case post.GetNonce(acc.Addr) > 0:
				r.Count("bal_accounts_absent_pre_and_nonempty_post_nonce_without_code", 1)
			default:
				r.Count("bal_accounts_absent_pre_and_nonempty_post_balance_only", 1)
			}
			if backToZero {
				r.Count("bal_accounts_absent_pre_funded_then_drained_to_zero_nonempty_post", 1)
			}
			if len(acc.Bals) > 1 {
				r.Count("bal_accounts_absent_pre_balance_changed_by_several_txs", 1)
			}
		default:
			if backToZero {
				r.Count("bal_accounts_present_pre_drained_to_zero_nonempty_post", 1)
			}
			if len(acc.Codes) > 0 {
				r.Count("bal_accounts_present_pre_code_changed", 1)
			}
		}
	}
	mask := ""
	for i, f := range []bool{a, b, c} {
		if f {
			mask += string(rune('a' + i))
		}
	}
	return lcClasses{mask: mask}
}
