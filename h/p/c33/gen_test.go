package main

import (
	"math/rand"
	"testing"
)

// TestGenerator: the block generator never panics and never emits an invalid transaction
// (core.GenerateChain panics on those), over many scenarios; cheap self-test of the workload
// code (no parallel execution involved). go test -tags verif ./p/c33
func TestGenerator(t *testing.T) {
	n := 1500
	if testing.Short() {
		n = 200
	}
	classes := map[string]int{}
	for i := 0; i < n; i++ {
		rng := rand.New(rand.NewSource(int64(1000 + i)))
		nBlocks := 1 + rng.Intn(2)
		s := newScenario(rng, nBlocks, pick(rng, []int{4, 8, 16, 28, 40}))
		bt, err := s.build()
		if err != nil {
			t.Fatalf("scenario %d: %v", i, err)
		}
		if len(bt.blocks) != nBlocks {
			t.Fatalf("scenario %d: %d blocks", i, len(bt.blocks))
		}
		for k, v := range s.lcStats {
			classes[k] += v
		}
	}
	t.Logf("lifecycle statistics over %d scenarios: %v", n, classes)
}
