// C48: snap protocol responses are valid for any request.
//
// A world is a real core.BlockChain (hash scheme with snapshot tree, or path scheme) whose
// genesis allocation is a generated flat state (lib/flatstate, addresses and slot keys with
// Keccak preimages) followed by 0..3 empty ethash blocks whose only effect is the block reward
// to a chosen coinbase (so that the served states live in diff layers, too). The reference
// model of every served state is checked against the block roots before any request is
// judged (a mismatch makes the world inconclusive, not a violation).
//
// Random GetAccountRange / GetStorageRanges / GetByteCodes / GetTrieNodes requests are then
// answered by the real snap.ServiceGet*Query functions and judged against the ground truth
// and with the client's verifier trie.VerifyRangeProof, following the rules the protocol
// states (see the comment of each check for the exact rule and its source).
package main

import (
	"bytes"
	"fmt"
	"math/big"
	"math/rand"
	"sort"
	"time"

	"github.com/ethereum/go-ethereum/common"
	"github.com/ethereum/go-ethereum/consensus/ethash"
	"github.com/ethereum/go-ethereum/core"
	"github.com/ethereum/go-ethereum/core/rawdb"
	"github.com/ethereum/go-ethereum/core/types"
	"github.com/ethereum/go-ethereum/eth/protocols/snap"
	"github.com/ethereum/go-ethereum/ethdb"
	"github.com/ethereum/go-ethereum/ethdb/memorydb"
	"github.com/ethereum/go-ethereum/params"
	"github.com/ethereum/go-ethereum/rlp"
	"github.com/ethereum/go-ethereum/trie"

	"verif/lib/flatstate"
	"verif/lib/refmpt"
	"verif/lib/vrt"
)

func main() { vrt.Main("C48", run) }

const softLimit = 2 * 1024 * 1024 // snap.softResponseLimit (handler.go): requests above it are capped

var (
	zeroHash = string(make([]byte, 32))
	maxHash  = string(bytes.Repeat([]byte{0xff}, 32))
)

// view is the ground truth of one served state root.
type view struct {
	root   common.Hash
	b      *flatstate.Built
	accts  []string            // sorted account hashes
	slots  map[string][]string // account hash -> sorted slot hashes
	withSt []string            // accounts with non-empty storage (sorted)
}

type world struct {
	idx    int
	scheme string
	bc     *core.BlockChain
	views  []*view
	codes  map[string][]byte // code hash -> code, all states
	nodes  map[string]bool   // every hashed node blob of every view (for "is a real node" checks)
}

func newView(root common.Hash, st *flatstate.State) *view {
	v := &view{root: root, b: st.Build(), slots: map[string][]string{}}
	v.accts = st.SortedHashes()
	for _, h := range v.accts {
		if a := st.Accounts[h]; len(a.Slots) > 0 {
			v.slots[h] = a.SortedSlots()
			v.withSt = append(v.withSt, h)
		}
	}
	return v
}

func addBalance(b []byte, wei *big.Int) []byte {
	x := new(big.Int).SetBytes(b)
	return x.Add(x, wei).Bytes()
}

// buildWorld creates the chain. ok=false means the world could not be set up (inconclusive).
func buildWorld(r *vrt.Run, idx int) (*world, bool) {
	rng := r.Rand("world", idx)
	w := &world{idx: idx, scheme: rawdb.HashScheme, codes: map[string][]byte{}, nodes: map[string]bool{}}
	if idx%2 == 1 {
		w.scheme = rawdb.PathScheme
	}
	var nAcc, maxSlots int
	switch x := rng.Intn(100); {
	case x < 10:
		nAcc = 1 + rng.Intn(3)
	case x < 45:
		nAcc = 4 + rng.Intn(40)
	case x < 85:
		nAcc = 50 + rng.Intn(250)
	default:
		nAcc = 600 + rng.Intn(1400)
	}
	maxSlots = []int{0, 4, 30, 120, 600}[rng.Intn(5)]
	if nAcc > 500 && maxSlots > 30 {
		maxSlots = 30
	}
	if r.Race() && nAcc > 300 {
		nAcc = 100 + nAcc%200
	}
	if idx < 2 { // always one storage-heavy world per scheme
		nAcc, maxSlots = 20+rng.Intn(30), 600
	}
	st := flatstate.Gen(rng, flatstate.GenOpts{Accounts: nAcc, MaxSlots: maxSlots, StorageP: 0.5, CodeP: 0.4, ShareCodeP: 0.3, ShareStorP: 0.1,
		Preimages: true, MaxCode: 300})
	alloc := types.GenesisAlloc{}
	for _, a := range st.Accounts {
		if a.Nonce == 0 && len(a.Balance) == 0 && len(a.Code) == 0 {
			a.Nonce = 1 // keep every account non-empty (no dependence on empty-account handling at genesis)
		}
		ga := types.Account{Nonce: a.Nonce, Balance: new(big.Int).SetBytes(a.Balance), Code: a.Code}
		if len(a.Slots) > 0 {
			ga.Storage = map[common.Hash]common.Hash{}
			for sh, v := range a.Slots {
				ga.Storage[common.BytesToHash(a.SlotPre[sh])] = common.BytesToHash(v)
			}
		}
		alloc[common.BytesToAddress(a.Addr)] = ga
	}
	gspec := &core.Genesis{Config: params.TestChainConfig, Alloc: alloc, BaseFee: big.NewInt(params.InitialBaseFee)}
	nBlocks := rng.Intn(4)
	// coinbases: existing accounts or fresh addresses
	var coinbases []common.Address
	hashes := st.SortedHashes()
	for i := 0; i < nBlocks; i++ {
		if rng.Intn(2) == 0 {
			coinbases = append(coinbases, common.BytesToAddress(st.Accounts[hashes[rng.Intn(len(hashes))]].Addr))
		} else {
			var a common.Address
			rng.Read(a[:])
			coinbases = append(coinbases, a)
		}
	}
	var blocks []*types.Block
	if nBlocks > 0 {
		_, blocks, _ = core.GenerateChainWithGenesis(gspec, ethash.NewFaker(), nBlocks, func(i int, gen *core.BlockGen) { gen.SetCoinbase(coinbases[i]) })
	}
	cfg := core.DefaultConfig().WithStateScheme(w.scheme)
	cfg.SnapshotLimit = 16
	cfg.TrieCleanLimit = 16
	cfg.TrieDirtyLimit = 16
	cfg.SnapshotWait = true
	cfg.NoPrefetch = true
	bc, err := core.NewBlockChain(rawdb.NewMemoryDatabase(), gspec, ethash.NewFaker(), cfg)
	if err != nil {
		r.Inconclusive("world %d: NewBlockChain: %v", idx, err)
		return nil, false
	}
	w.bc = bc
	if len(blocks) > 0 {
		if _, err := bc.InsertChain(blocks); err != nil {
			r.Inconclusive("world %d: InsertChain: %v", idx, err)
			bc.Stop()
			return nil, false
		}
	}
	// reference model of every state: genesis, then block rewards (2 ETH from Constantinople on)
	reward := new(big.Int).Mul(big.NewInt(2), big.NewInt(params.Ether))
	cur := st
	w.views = append(w.views, newView(bc.Genesis().Root(), cur))
	for i, blk := range blocks {
		next := &flatstate.State{Accounts: map[string]*flatstate.Account{}}
		for h, a := range cur.Accounts {
			next.Accounts[h] = a
		}
		ch := string(refmpt.Keccak(coinbases[i][:]))
		if old, ok := next.Accounts[ch]; ok {
			cp := *old
			cp.Balance = addBalance(old.Balance, reward)
			next.Accounts[ch] = &cp
		} else {
			next.Accounts[ch] = &flatstate.Account{Hash: ch, Addr: coinbases[i][:], Balance: reward.Bytes(), Slots: map[string][]byte{}}
		}
		cur = next
		w.views = append(w.views, newView(blk.Root(), cur))
	}
	for i, v := range w.views {
		if !bytes.Equal(v.b.Root, v.root[:]) {
			r.Inconclusive("world %d: reference model of state %d has root %x, chain has %x (harness model error)", idx, i, v.b.Root, v.root)
			bc.Stop()
			return nil, false
		}
		for h, c := range v.b.Codes {
			w.codes[h] = c
		}
		for _, set := range v.b.NodeSets() {
			for _, blob := range set {
				w.nodes[string(blob)] = true
			}
		}
	}
	if w.scheme == rawdb.PathScheme {
		// flat-state generation of the path database is asynchronous; the iterators refuse to
		// serve before it is complete (legitimately empty answers). Wait for it; a timeout only
		// makes the world inconclusive.
		deadline := time.Now().Add(3 * time.Minute)
		for !bc.TrieDB().SnapshotCompleted() {
			if time.Now().After(deadline) {
				r.Inconclusive("world %d: path database snapshot generation did not complete", idx)
				bc.Stop()
				return nil, false
			}
			time.Sleep(5 * time.Millisecond)
		}
	}
	r.Count("worlds_"+w.scheme, 1)
	r.Count("served_states", len(w.views))
	r.Count("world_accounts", len(w.views[len(w.views)-1].accts))
	return w, true
}

// ---- helpers ----

func hashAdd(h string, d int) string {
	b := []byte(h)
	for i := 31; i >= 0; i-- {
		if d > 0 {
			b[i]++
			if b[i] != 0 {
				break
			}
		} else {
			b[i]--
			if b[i] != 0xff {
				break
			}
		}
	}
	return string(b)
}

// pickHash draws a boundary-ish 32-byte hash relative to the sorted list.
func pickHash(rng *rand.Rand, sorted []string) string {
	switch k := rng.Intn(10); {
	case k == 0:
		return zeroHash
	case k == 1:
		return maxHash
	case k < 5 && len(sorted) > 0:
		return sorted[rng.Intn(len(sorted))]
	case k < 7 && len(sorted) > 0:
		return hashAdd(sorted[rng.Intn(len(sorted))], []int{-1, 1}[rng.Intn(2)])
	default:
		b := make([]byte, 32)
		rng.Read(b)
		return string(b)
	}
}

func pickBytes(rng *rand.Rand, item int) uint64 {
	switch rng.Intn(9) {
	case 0:
		return 0
	case 1:
		return 1
	case 2:
		return uint64(item - 1 + rng.Intn(3))
	case 3:
		return uint64(item*(1+rng.Intn(6)) - 1 + rng.Intn(3))
	case 4:
		return uint64(rng.Intn(400))
	case 5:
		return uint64(rng.Intn(20000))
	case 6:
		return softLimit + uint64(rng.Intn(3)) - 1
	case 7:
		return ^uint64(0) - uint64(rng.Intn(2))
	default:
		return 500000
	}
}

func capBytes(b uint64) uint64 {
	if b > softLimit {
		return softLimit
	}
	return b
}

func verifyRange(root []byte, origin []byte, keys, vals [][]byte, proof [][]byte) (more bool, err error, panicked any) {
	var db ethdb.KeyValueReader
	if len(proof) > 0 {
		m := memorydb.New()
		for _, n := range proof {
			m.Put(refmpt.Keccak(n), n)
		}
		db = m
	}
	p, _ := vrt.Recover(func() { more, err = trie.VerifyRangeProof(common.BytesToHash(root), origin, keys, vals, db) })
	return more, err, p
}

func hexes(l [][]byte) []string {
	out := make([]string, len(l))
	for i, b := range l {
		out[i] = vrt.Hex(b)
	}
	return out
}

// lowerBound returns the index of the first element >= h.
func lowerBound(sorted []string, h string) int {
	return sort.Search(len(sorted), func(i int) bool { return sorted[i] >= h })
}

// pickView selects a served state (or nil for an unknown root).
func (w *world) pickView(rng *rand.Rand) (*view, common.Hash) {
	if rng.Intn(15) == 0 {
		var h common.Hash
		rng.Read(h[:])
		return nil, h
	}
	v := w.views[rng.Intn(len(w.views))]
	return v, v.root
}

// ---- GetAccountRange ----

// Rules (devp2p snap/1 GetAccountRange/AccountRange; protocol.go field comments):
//   - unknown root: empty reply.
//   - the accounts are consecutive entries of the state starting at the first hash >= origin;
//     bodies are the slim encodings; at least one account is returned if one exists at or
//     after origin; serving stops at the first account with hash >= limit (that account is
//     included), so every account but the last is < limit;
//   - Bytes is a soft limit: everything but the last account fits into it (the account that
//     crosses the limit may be included);
//   - the proof must make trie.VerifyRangeProof(root, origin, keys, fullAccounts, proof)
//     succeed (left edge proved for origin, right edge for the last account); with zero
//     accounts it must be a valid proof that nothing exists at or after origin.
func (w *world) accountRange(r *vrt.Run, rng *rand.Rand) string {
	v, root := w.pickView(rng)
	var accts []string
	if v != nil {
		accts = v.accts
	}
	origin, limit := pickHash(rng, accts), maxHash
	switch rng.Intn(6) {
	case 0:
		limit = pickHash(rng, accts)
	case 1:
		limit = origin
	case 2:
		limit = hashAdd(origin, -1) // inverted
	case 3:
		if len(accts) > 0 { // a few accounts after origin
			i := min(len(accts)-1, lowerBound(accts, origin)+rng.Intn(6))
			limit = accts[i]
			if rng.Intn(2) == 0 {
				limit = hashAdd(limit, []int{-1, 1}[rng.Intn(2)])
			}
		}
	}
	budget := pickBytes(rng, 32+70)
	req := &snap.GetAccountRangePacket{ID: rng.Uint64(), Root: root, Origin: common.BytesToHash([]byte(origin)), Limit: common.BytesToHash([]byte(limit)), Bytes: budget}
	wit := map[string]any{"world": w.idx, "scheme": w.scheme, "kind": "GetAccountRange", "root": root.Hex(), "known_root": v != nil, "origin": vrt.Hex([]byte(origin)), "limit": vrt.Hex([]byte(limit)), "bytes": budget}
	var (
		accounts []*snap.AccountData
		proof    [][]byte
	)
	if r.Guard("account-range", wit, func() { accounts, proof = snap.ServiceGetAccountRangeQuery(w.bc, req) }) {
		return ""
	}
	r.Count("req_account_range", 1)
	wit["resp_accounts"], wit["resp_proof_nodes"] = len(accounts), len(proof)
	if v == nil {
		if len(accounts) != 0 || len(proof) != 0 {
			r.Violation("account-range:unknown-root-served", fmt.Sprintf("unknown root %x answered with %d accounts, %d proof nodes", root, len(accounts), len(proof)), wit)
		}
		return "arange|unknown-root"
	}
	i0 := lowerBound(accts, origin)
	k := len(accounts)
	if k == 0 && i0 < len(accts) {
		r.Violation("account-range:empty", fmt.Sprintf("%d accounts exist at or after origin %x but none was returned", len(accts)-i0, origin), wit)
		return ""
	}
	var keys, vals [][]byte
	size := uint64(0)
	for j, a := range accounts {
		if i0+j >= len(accts) || string(a.Hash[:]) != accts[i0+j] {
			want := "none"
			if i0+j < len(accts) {
				want = vrt.Hex([]byte(accts[i0+j]))
			}
			r.Violation("account-range:not-contiguous", fmt.Sprintf("%s: account #%d is %x, the state's next account is %s", w.scheme, j, a.Hash, want), wit)
			return ""
		}
		h := accts[i0+j]
		if !bytes.Equal(a.Body, v.b.Slim[h]) {
			r.Violation("account-range:body", fmt.Sprintf("%s: account %x body %x, want slim %x", w.scheme, h, []byte(a.Body), v.b.Slim[h]), wit)
			return ""
		}
		if j < k-1 {
			if h >= limit {
				r.Violation("account-range:beyond-limit", fmt.Sprintf("%s: account #%d %x >= limit %x is followed by further accounts", w.scheme, j, h, limit), wit)
				return ""
			}
			size += uint64(32 + len(a.Body))
		}
		keys = append(keys, []byte(h))
		vals = append(vals, v.b.Full[h])
	}
	if size > capBytes(budget) {
		r.Violation("account-range:budget", fmt.Sprintf("%s: the accounts before the last one take %d bytes, budget %d", w.scheme, size, capBytes(budget)), wit)
	}
	more, err, p := verifyRange(v.b.Root, []byte(origin), keys, vals, proof)
	if p != nil {
		r.Violation("account-range:verifier-panic", fmt.Sprintf("VerifyRangeProof panicked: %v", p), wit)
		return ""
	}
	if err != nil {
		r.Violation("account-range:proof", fmt.Sprintf("%s: VerifyRangeProof rejects the answer (%d accounts, %d proof nodes): %v", w.scheme, k, len(proof), err), wit)
		return ""
	}
	if truth := i0+k < len(accts); more != truth {
		r.Violation("account-range:more-flag", fmt.Sprintf("%s: verifier reports more=%v, truth %v", w.scheme, more, truth), wit)
	}
	r.Count("range_proofs_verified", 1)
	if k == 0 {
		r.Count("zero_element_proofs", 1)
	}
	cut := "all"
	switch {
	case k == 0:
		cut = "none"
	case i0+k < len(accts) && accts[i0+k-1] >= limit:
		cut = "limit"
	case i0+k < len(accts):
		cut = "bytes"
	}
	return fmt.Sprintf("arange|o%s|cut-%s|k%d|diff%v", classify(origin, accts), cut, min(k, 3), v != w.views[0])
}

func classify(h string, sorted []string) string {
	switch {
	case h == zeroHash:
		return "zero"
	case h == maxHash:
		return "max"
	}
	i := lowerBound(sorted, h)
	switch {
	case i < len(sorted) && sorted[i] == h:
		return "exact"
	case i == 0:
		return "before"
	case i == len(sorted):
		return "after"
	}
	return "between"
}

// ---- GetStorageRanges ----

// Rules (devp2p snap/1 GetStorageRanges/StorageRanges; protocol.go: "Proof: Merkle proofs for
// the *last* slot range, if it's incomplete"; handler.go: stateLookupSlack):
//   - unknown root: empty reply;
//   - slot list i belongs to requested account i; origin/limit apply to the first account only;
//     each list is a run of consecutive slots of its account, the first list starting at the
//     first slot >= origin, later lists at the account's first slot; within the first list all
//     slots but the last are < limit;
//   - only the last list may be incomplete; every earlier list is the account's entire storage
//     and must verify against the storage root without proof (what the client does);
//   - the last list: if it is not the entire storage, a proof must be attached such that
//     VerifyRangeProof(storageRoot, origin, keys, values, proof) succeeds; a complete last list
//     may come with or without proof;
//   - Bytes is soft: no further account is opened once the budget is reached, and the reply
//     minus its last slot stays below Bytes*(1+stateLookupSlack);
//   - at least one slot is returned if one exists (Bytes==0 excepted: the server opens no account).
//
// "odd" requests (unknown / storage-less / repeated accounts) are judged only for panics,
// budget and for every returned list being a run of consecutive slots of a requested account.
func (w *world) storageRanges(r *vrt.Run, rng *rand.Rand) string {
	v, root := w.pickView(rng)
	if v != nil && len(v.withSt) == 0 && rng.Intn(4) != 0 {
		return w.accountRange(r, rng)
	}
	var (
		accs []string
		odd  bool
	)
	n := 1 + rng.Intn(5)
	if rng.Intn(3) == 0 {
		n = 1
	}
	for i := 0; i < n; i++ {
		switch {
		case v == nil || len(v.withSt) == 0:
			b := make([]byte, 32)
			rng.Read(b)
			accs = append(accs, string(b))
			odd = true
		case rng.Intn(12) == 0: // odd: storage-less or unknown account
			odd = true
			if rng.Intn(2) == 0 {
				accs = append(accs, v.accts[rng.Intn(len(v.accts))])
			} else {
				accs = append(accs, pickHash(rng, v.accts))
			}
		default:
			accs = append(accs, v.withSt[rng.Intn(len(v.withSt))])
		}
	}
	seen := map[string]bool{}
	for _, a := range accs {
		if seen[a] {
			odd = true
		}
		seen[a] = true
		if v != nil && len(v.slots[a]) == 0 {
			odd = true
		}
	}
	var first []string
	if v != nil {
		first = v.slots[accs[0]]
	}
	var originB, limitB []byte
	origin, limit := zeroHash, maxHash
	if rng.Intn(2) == 0 {
		origin = pickHash(rng, first)
		originB = []byte(origin)
	}
	switch rng.Intn(5) {
	case 0:
		limit = pickHash(rng, first)
		limitB = []byte(limit)
	case 1:
		if len(first) > 0 {
			i := min(len(first)-1, lowerBound(first, origin)+rng.Intn(5))
			limit = first[i]
			if rng.Intn(2) == 0 {
				limit = hashAdd(limit, []int{-1, 1}[rng.Intn(2)])
			}
			limitB = []byte(limit)
		}
	case 2:
		limitB = []byte(maxHash)
	}
	budget := pickBytes(rng, 32+20)
	req := &snap.GetStorageRangesPacket{ID: rng.Uint64(), Root: root, Origin: originB, Limit: limitB, Bytes: budget}
	for _, a := range accs {
		req.Accounts = append(req.Accounts, common.BytesToHash([]byte(a)))
	}
	var acchex []string
	for _, a := range accs {
		acchex = append(acchex, vrt.Hex([]byte(a)))
	}
	wit := map[string]any{"world": w.idx, "scheme": w.scheme, "kind": "GetStorageRanges", "root": root.Hex(), "known_root": v != nil, "accounts": acchex,
		"origin": vrt.Hex(originB), "limit": vrt.Hex(limitB), "bytes": budget, "odd": odd}
	var (
		slots [][]*snap.StorageData
		proof [][]byte
	)
	if r.Guard("storage-ranges", wit, func() { slots, proof = snap.ServiceGetStorageRangesQuery(w.bc, req) }) {
		return ""
	}
	r.Count("req_storage_ranges", 1)
	var lens []int
	for _, l := range slots {
		lens = append(lens, len(l))
	}
	wit["resp_lists"], wit["resp_proof_nodes"] = lens, len(proof)
	if v == nil {
		if len(slots) != 0 || len(proof) != 0 {
			r.Violation("storage-ranges:unknown-root-served", fmt.Sprintf("unknown root %x answered with %d lists", root, len(slots)), wit)
		}
		return "srange|unknown-root"
	}
	eff := capBytes(budget)
	hard := uint64(float64(eff) * 1.1)
	// budget (all requests)
	var total, lastSize, before uint64
	for i, l := range slots {
		if i > 0 && total >= eff {
			r.Violation("storage-ranges:budget-new-account", fmt.Sprintf("%s: list #%d was opened although %d bytes >= budget %d were already used", w.scheme, i, total, eff), wit)
			break
		}
		for _, s := range l {
			lastSize = uint64(32 + len(s.Body))
			total += lastSize
		}
	}
	if before = total - lastSize; total > 0 && before >= hard && before > 0 {
		r.Violation("storage-ranges:budget-hard", fmt.Sprintf("%s: reply minus its last slot is %d bytes, hard limit %d (budget %d)", w.scheme, before, hard, eff), wit)
	}
	if odd {
		// every non-empty list is a run of consecutive slots of a requested account, in request order
		ai := 0
		for li, l := range slots {
			if len(l) == 0 {
				continue
			}
			found := false
			for ; ai < len(accs) && !found; ai++ {
				all := v.slots[accs[ai]]
				j := lowerBound(all, string(l[0].Hash[:]))
				if j+len(l) > len(all) || len(all) == 0 {
					continue
				}
				ok := true
				for x, s := range l {
					if all[j+x] != string(s.Hash[:]) || !bytes.Equal(s.Body, flatstate.SlotRLP(v.b.State.Accounts[accs[ai]].Slots[all[j+x]])) {
						ok = false
						break
					}
				}
				found = ok
			}
			if !found {
				r.Violation("storage-ranges:odd:not-a-run", fmt.Sprintf("%s: list #%d is not a run of consecutive slots of any (remaining) requested account", w.scheme, li), wit)
				return ""
			}
		}
		r.Count("storage_odd_requests", 1)
		return fmt.Sprintf("srange|odd|lists%d|proof%v", min(len(slots), 3), len(proof) > 0)
	}
	// well-formed request
	m := len(slots)
	if m > len(accs) {
		r.Violation("storage-ranges:too-many-lists", fmt.Sprintf("%d lists for %d accounts", m, len(accs)), wit)
		return ""
	}
	i0 := lowerBound(first, origin)
	if m == 0 {
		if eff > 0 && i0 < len(first) {
			r.Violation("storage-ranges:empty", fmt.Sprintf("%s: %d slots exist at or after origin in the first account but nothing was returned", w.scheme, len(first)-i0), wit)
			return ""
		}
		if len(proof) > 0 {
			if i0 < len(first) {
				return "srange|empty-bytes0" // Bytes == 0 with a proof would be odd but is not judged
			}
			_, err, p := verifyRange(v.b.Roots[accs[0]], []byte(origin), nil, nil, proof)
			if p != nil || err != nil {
				r.Violation("storage-ranges:zero-proof", fmt.Sprintf("%s: zero-slot answer with a proof that does not verify: %v %v", w.scheme, err, p), wit)
			} else {
				r.Count("zero_element_proofs", 1)
			}
		}
		return "srange|empty"
	}
	sig := ""
	for li, l := range slots {
		acc := accs[li]
		all := v.slots[acc]
		st := v.b.State.Accounts[acc]
		start := 0
		if li == 0 {
			start = i0
		}
		if len(l) == 0 {
			r.Violation("storage-ranges:empty-list", fmt.Sprintf("%s: list #%d is empty", w.scheme, li), wit)
			return ""
		}
		var keys, vals [][]byte
		for x, s := range l {
			if start+x >= len(all) || all[start+x] != string(s.Hash[:]) {
				r.Violation("storage-ranges:not-contiguous", fmt.Sprintf("%s: list #%d slot #%d is %x, not the account's next slot (start index %d of %d)", w.scheme, li, x, s.Hash, start, len(all)), wit)
				return ""
			}
			if want := flatstate.SlotRLP(st.Slots[all[start+x]]); !bytes.Equal(s.Body, want) {
				r.Violation("storage-ranges:body", fmt.Sprintf("%s: slot %x of %x is %x, want %x", w.scheme, s.Hash, acc, s.Body, want), wit)
				return ""
			}
			if li == 0 && x < len(l)-1 && all[start+x] >= limit {
				r.Violation("storage-ranges:beyond-limit", fmt.Sprintf("%s: slot #%d %x >= limit %x is followed by further slots", w.scheme, x, s.Hash, limit), wit)
				return ""
			}
			keys = append(keys, s.Hash[:])
			vals = append(vals, s.Body)
		}
		complete := start == 0 && len(l) == len(all)
		last := li == m-1
		switch {
		case !last && !complete:
			fp := "storage-ranges:incomplete-not-last"
			if li == 0 && origin == zeroHash && limit != maxHash {
				fp = "storage-ranges:incomplete-not-last:zero-origin-with-limit"
			}
			r.Violation(fp, fmt.Sprintf("%s: list #%d of %d covers slots [%d,%d) of %d but is not the last list (the client verifies it as an entire storage trie, without proof)", w.scheme, li, m, start, start+len(l), len(all)), wit)
			return ""
		case !last:
			if _, err, p := verifyRange(v.b.Roots[acc], nil, keys, vals, nil); err != nil || p != nil {
				r.Violation("storage-ranges:full-list-verify", fmt.Sprintf("%s: complete list #%d does not verify against the storage root: %v %v", w.scheme, li, err, p), wit)
				return ""
			}
		case !complete && len(proof) == 0:
			fp := "storage-ranges:incomplete-without-proof"
			if origin == zeroHash && limit != maxHash {
				fp = "storage-ranges:incomplete-without-proof:zero-origin-with-limit"
			}
			r.Violation(fp, fmt.Sprintf("%s: last list #%d covers slots [%d,%d) of %d and no proof is attached", w.scheme, li, start, start+len(l), len(all)), wit)
			return ""
		default:
			o := []byte(nil)
			if len(proof) > 0 {
				o = make([]byte, 32)
				if li == 0 {
					o = []byte(origin)
				}
			}
			more, err, p := verifyRange(v.b.Roots[acc], o, keys, vals, proof)
			if err != nil || p != nil {
				r.Violation("storage-ranges:proof", fmt.Sprintf("%s: VerifyRangeProof rejects last list #%d (%d slots from index %d of %d, %d proof nodes): %v %v", w.scheme, li, len(l), start, len(all), len(proof), err, p), wit)
				return ""
			}
			if truth := start+len(l) < len(all); len(proof) > 0 && more != truth {
				r.Violation("storage-ranges:more-flag", fmt.Sprintf("%s: verifier reports more=%v, truth %v", w.scheme, more, truth), wit)
			}
			r.Count("range_proofs_verified", 1)
			cut := "complete"
			if !complete {
				cut = "bytes"
				if li == 0 && all[start+len(l)-1] >= limit {
					cut = "limit"
				}
			}
			sig = fmt.Sprintf("srange|lists%d|o%s|cut-%s|proof%v|diff%v", min(m, 3), classify(origin, first), cut, len(proof) > 0, v != w.views[0])
		}
	}
	if m < len(accs) && len(proof) == 0 && total < eff {
		// fewer lists than accounts without any size reason is allowed by the protocol (QoS); counted only
		r.Count("storage_short_without_reason", 1)
	}
	return sig
}

// ---- GetByteCodes ----

// Rules (devp2p snap/1 ByteCodes): the codes are returned in request order, codes the server
// does not have are skipped, nothing else is returned; Bytes is soft (everything but the last
// code fits); at least one code is returned if the server has any of the requested ones (here:
// among the first maxCodeLookups=1024 hashes). The empty-code hash is answered with an empty
// blob ("at least sent them back a correct response", handlers.go).
func (w *world) byteCodes(r *vrt.Run, rng *rand.Rand) string {
	var known []string
	for h := range w.codes {
		known = append(known, h)
	}
	sort.Strings(known)
	n := rng.Intn(12)
	if rng.Intn(40) == 0 {
		n = 1020 + rng.Intn(10)
	}
	var hashes []common.Hash
	var expect [][]byte
	nUnknown := 0
	for i := 0; i < n; i++ {
		var h common.Hash
		switch k := rng.Intn(10); {
		case k < 6 && len(known) > 0:
			h = common.BytesToHash([]byte(known[rng.Intn(len(known))]))
		case k == 6:
			h = common.BytesToHash(flatstate.EmptyCodeHash)
		default:
			rng.Read(h[:])
			nUnknown++
		}
		hashes = append(hashes, h)
		if i < 1024 {
			if c, ok := w.codes[string(h[:])]; ok {
				expect = append(expect, c)
			} else if bytes.Equal(h[:], flatstate.EmptyCodeHash) {
				expect = append(expect, []byte{})
			}
		}
	}
	budget := pickBytes(rng, 150)
	req := &snap.GetByteCodesPacket{ID: rng.Uint64(), Hashes: append([]common.Hash{}, hashes...), Bytes: budget}
	var hx []string
	for _, h := range hashes {
		hx = append(hx, h.Hex())
	}
	if len(hx) > 40 {
		hx = hx[:40]
	}
	wit := map[string]any{"world": w.idx, "scheme": w.scheme, "kind": "GetByteCodes", "hashes": hx, "n": len(hashes), "bytes": budget}
	var codes [][]byte
	if r.Guard("byte-codes", wit, func() { codes = snap.ServiceGetByteCodesQuery(w.bc, req) }) {
		return ""
	}
	r.Count("req_byte_codes", 1)
	wit["resp_codes"] = len(codes)
	if len(codes) > len(expect) {
		r.Violation("byte-codes:too-many", fmt.Sprintf("%d codes returned, only %d of the requested hashes are known", len(codes), len(expect)), wit)
		return ""
	}
	size := uint64(0)
	for i, c := range codes {
		if !bytes.Equal(c, expect[i]) {
			r.Violation("byte-codes:content", fmt.Sprintf("code #%d (keccak %x) is not the next available requested code (keccak %x)", i, refmpt.Keccak(c), refmpt.Keccak(expect[i])), wit)
			return ""
		}
		if i < len(codes)-1 {
			size += uint64(len(c))
		}
	}
	if size > capBytes(budget) {
		r.Violation("byte-codes:budget", fmt.Sprintf("the codes before the last one take %d bytes, budget %d", size, capBytes(budget)), wit)
	}
	if len(codes) == 0 && len(expect) > 0 {
		r.Violation("byte-codes:empty", fmt.Sprintf("%d of the requested codes are available but none was returned", len(expect)), wit)
	}
	return fmt.Sprintf("codes|n%d|unknown%v|short%v|ret%d", min(n, 3), nUnknown > 0, len(codes) < len(expect), min(len(codes), 3))
}

// ---- GetTrieNodes ----

type wantNode struct {
	blob []byte // nil: no node is available at that path
	desc string
}

// Rules (devp2p snap/1 TrieNodes; client side in snap/sync.go matches answers to requests by
// hash and tolerates gaps): the nodes come in request order; a path where the state has no
// (hashed) node is answered by an empty item or left out together with its whole path set when
// the account does not exist; a non-empty item is always the true node of the next requested
// path that has one; Bytes is soft (everything but the last node fits); the first requested
// node is returned if it exists. Malformed requests (zero-item path set, non-string items) may
// be refused with an error; malformed compact paths are only judged for panics and for every
// returned non-empty item being a real node of the state.
func (w *world) trieNodes(r *vrt.Run, rng *rand.Rand) string {
	v, root := w.pickView(rng)
	type set struct {
		items [][]byte
	}
	var (
		sets      []snap.TrieNodePathSet
		want      []wantNode
		malformed bool
		zeroSet   bool
		loads     int
	)
	randPathOf := func(nodes map[string][]byte) []byte {
		// a nibble path: of an existing node, a prefix/extension of one, or random
		var paths []string
		for p := range nodes {
			paths = append(paths, p)
		}
		sort.Strings(paths)
		var p []byte
		if len(paths) > 0 && rng.Intn(5) != 0 {
			p = []byte(paths[rng.Intn(len(paths))])
			switch rng.Intn(6) {
			case 0:
				p = append(append([]byte{}, p...), byte(rng.Intn(16)))
			case 1:
				if len(p) > 0 {
					p = p[:len(p)-1]
				}
			}
		} else {
			p = make([]byte, rng.Intn(5))
			for i := range p {
				p[i] = byte(rng.Intn(16))
			}
		}
		if len(p) > 64 {
			p = p[:64]
		}
		return p
	}
	nSets := 1 + rng.Intn(6)
	if rng.Intn(20) == 0 {
		nSets = 0
	}
	for i := 0; i < nSets; i++ {
		k := rng.Intn(20)
		switch {
		case k == 0: // malformed: zero-item path set
			sets = append(sets, snap.TrieNodePathSet{})
			zeroSet, malformed = true, true
		case k == 1: // malformed compact path
			b := make([]byte, 1+rng.Intn(4))
			rng.Read(b)
			sets = append(sets, snap.TrieNodePathSet{b})
			malformed = true
		case k < 10 || v == nil: // account trie node
			var nodes map[string][]byte
			if v != nil {
				nodes = v.b.Accounts.Nodes
			}
			p := randPathOf(nodes)
			sets = append(sets, snap.TrieNodePathSet{refmpt.HP(p, false)})
			want = append(want, wantNode{nodes[string(p)], fmt.Sprintf("account path %x", p)})
			loads += len(p) + 1
		default: // storage trie nodes
			var acc string
			switch x := rng.Intn(8); {
			case x == 0:
				acc = pickHash(rng, v.accts) // mostly non-existent
			case x == 1 || len(v.withSt) == 0:
				acc = v.accts[rng.Intn(len(v.accts))]
			default:
				acc = v.withSt[rng.Intn(len(v.withSt))]
			}
			ps := snap.TrieNodePathSet{[]byte(acc)}
			var nodes map[string][]byte
			if t := v.b.Storage[acc]; t != nil {
				nodes = t.Nodes
			}
			loads += 10
			for j := 1 + rng.Intn(4); j > 0; j-- {
				p := randPathOf(nodes)
				ps = append(ps, refmpt.HP(p, false))
				want = append(want, wantNode{nodes[string(p)], fmt.Sprintf("storage %x path %x", acc, p)})
				loads += len(p) + 1
			}
			sets = append(sets, ps)
		}
	}
	budget := pickBytes(rng, 200)
	raw, err := rlp.EncodeToRawList(sets)
	if err != nil {
		r.Inconclusive("EncodeToRawList: %v", err)
		return ""
	}
	req := &snap.GetTrieNodesPacket{ID: rng.Uint64(), Root: root, Paths: raw, Bytes: budget}
	var sx [][]string
	for _, s := range sets {
		sx = append(sx, hexes(s))
	}
	wit := map[string]any{"world": w.idx, "scheme": w.scheme, "kind": "GetTrieNodes", "root": root.Hex(), "known_root": v != nil, "pathsets": sx, "bytes": budget}
	judge := func() (string, bool) {
		var (
			nodes [][]byte
			serr  error
		)
		if r.Guard("trie-nodes", wit, func() { nodes, serr = snap.ServiceGetTrieNodesQuery(w.bc, req) }) {
			return "", false
		}
		wit["resp_nodes"], wit["resp_err"] = len(nodes), fmt.Sprint(serr)
		if serr != nil {
			if !malformed {
				r.Violation("trie-nodes:error-on-wellformed", fmt.Sprintf("well-formed request refused: %v", serr), wit)
			}
			return "tnodes|refused", false
		}
		if zeroSet {
			// answering instead of refusing is allowed; content judged as malformed below
			r.Count("trie_nodes_zero_set_answered", 1)
		}
		if v == nil {
			if len(nodes) != 0 {
				r.Violation("trie-nodes:unknown-root-served", fmt.Sprintf("unknown root %x answered with %d nodes", root, len(nodes)), wit)
			}
			return "tnodes|unknown-root", false
		}
		size := uint64(0)
		for i, n := range nodes {
			if i < len(nodes)-1 {
				size += uint64(len(n))
			}
		}
		if size > capBytes(budget) {
			r.Violation("trie-nodes:budget", fmt.Sprintf("the nodes before the last one take %d bytes, budget %d", size, capBytes(budget)), wit)
		}
		if malformed {
			for i, n := range nodes {
				if len(n) > 0 && !w.nodes[string(n)] {
					r.Violation("trie-nodes:not-a-node", fmt.Sprintf("item #%d (%x) is no node of any served state", i, n), wit)
					return "", false
				}
			}
			return "tnodes|malformed", false
		}
		i := 0
		for j, n := range nodes {
			if len(n) > 0 {
				for i < len(want) && want[i].blob == nil {
					i++
				}
			}
			if i >= len(want) {
				r.Violation("trie-nodes:too-many", fmt.Sprintf("item #%d has no corresponding requested path", j), wit)
				return "", false
			}
			if len(n) == 0 && want[i].blob != nil {
				r.Violation("trie-nodes:empty-for-existing", fmt.Sprintf("item #%d is empty but the state has a node at %s", j, want[i].desc), wit)
				return "", false
			}
			if len(n) > 0 && !bytes.Equal(n, want[i].blob) {
				r.Violation("trie-nodes:content", fmt.Sprintf("item #%d is %x, the node at %s is %x", j, n, want[i].desc, want[i].blob), wit)
				return "", false
			}
			i++
		}
		if len(nodes) == 0 && len(want) > 0 && want[0].blob != nil {
			r.Violation("trie-nodes:empty", fmt.Sprintf("the first requested node (%s) exists but nothing was returned", want[0].desc), wit)
			return "", false
		}
		// a short answer must be explained by the byte budget or the lookup cap (1024 node
		// loads; this request stays far below); the 5 s serving time cap is wall-clock
		// dependent, so an unexplained short answer is re-tried before it is reported.
		avail := 0
		for _, x := range want[i:] {
			if x.blob != nil {
				avail++
			}
		}
		var tot uint64
		for _, n := range nodes {
			tot += uint64(len(n))
		}
		short := avail > 0 && tot <= capBytes(budget) && loads < 900
		return fmt.Sprintf("tnodes|sets%d|ret%d|gaps%v|cut%v|diff%v", min(len(sets), 3), min(len(nodes), 3), i > len(nodes), avail > 0, v != w.views[0]), short
	}
	sig, short := judge()
	r.Count("req_trie_nodes", 1)
	for try := 0; short && try < 2; try++ {
		req = &snap.GetTrieNodesPacket{ID: req.ID, Root: root, Paths: raw, Bytes: budget}
		sig, short = judge()
	}
	if short {
		r.Violation("trie-nodes:short-without-reason", "requested nodes that exist were left out although neither the byte budget nor the lookup cap was reached (3 attempts)", wit)
	}
	return sig
}

func run(r *vrt.Run) {
	r.Rule("world = real BlockChain (hash scheme + snapshots / path scheme) over a generated genesis state (1..2000 accounts, storage 0..600 slots, shared code) plus 0..3 reward-only blocks (diff layers); case = one random snap request against a served or unknown root: account ranges (origin/limit zero, max, existing, +-1, between, inverted, equal; budgets 0,1,item+-1,k items,huge,>2MiB), storage ranges (1..5 accounts, origin/limit on the first, odd account lists), byte codes (known/unknown/empty hash, >1024), trie nodes (account and storage path sets, missing paths, non-existent accounts, malformed sets). Signature = (kind, origin class, what cut the answer, list/proof shape, diff-layer state)")
	nWorlds := r.N(24, 600)
	perWorld := r.N(850, 3400)
	if r.Race() {
		nWorlds, perWorld = 6, 400
	}
	// worlds are built and served a few at a time (each is a full BlockChain)
	vrt.Par(nWorlds, 4, func(wi int) {
		r.Case("building world %d", wi)
		w, ok := buildWorld(r, wi)
		if !ok {
			return
		}
		defer w.bc.Stop()
		vrt.Par(perWorld, 4, func(j int) {
			rng := r.Rand(fmt.Sprintf("req-%d", wi), j)
			kind := rng.Intn(20)
			r.Case("world %d (%s) request %d kind %d", wi, w.scheme, j, kind)
			var sig string
			switch {
			case kind < 7:
				sig = w.accountRange(r, rng)
			case kind < 14:
				sig = w.storageRanges(r, rng)
			case kind < 16:
				sig = w.byteCodes(r, rng)
			default:
				sig = w.trieNodes(r, rng)
			}
			if sig != "" {
				sig = w.scheme + "|" + sig
			}
			r.Eval(sig)
			if r.WantSample() && j == 17 {
				r.Sample(map[string]any{"world": wi, "scheme": w.scheme, "states": len(w.views), "accounts": len(w.views[0].accts), "signature": sig})
			}
		})
	})
	need := func(name string, min int64) { // coverage obligations, scaled down for the (smaller) race workload
		if r.Race() {
			min = max(1, min/3)
		}
		r.Require(name, min)
	}
	need("worlds_hash", 2)
	need("worlds_path", 2)
	need("req_account_range", 500)
	need("req_storage_ranges", 500)
	need("req_byte_codes", 100)
	need("req_trie_nodes", 300)
	need("range_proofs_verified", 800)
	need("zero_element_proofs", 5)
	r.Assume("ground truth from lib/flatstate + lib/refmpt, validated per world against the chain's block roots; block reward model (2 ETH to the coinbase, TestChainConfig/ethash) validated the same way")
	r.Assume("the client-side verifier trie.VerifyRangeProof is used as an oracle component (its own reliability is property C09)")
}
