package main

import (
	"crypto/ecdsa"
	"math/big"
	"math/rand"

	"github.com/ethereum/go-ethereum/common"
	"github.com/ethereum/go-ethereum/consensus"
	"github.com/ethereum/go-ethereum/consensus/ethash"
	"github.com/ethereum/go-ethereum/core"
	"github.com/ethereum/go-ethereum/core/rawdb"
	"github.com/ethereum/go-ethereum/core/types"
	"github.com/ethereum/go-ethereum/crypto"
	"github.com/ethereum/go-ethereum/ethdb"
	"github.com/ethereum/go-ethereum/params"
	"github.com/ethereum/go-ethereum/triedb"

	"verif/lib/logemit"
)

// mblock is a generated block with its logs as produced by the chain maker (the reference for
// "direct scan of canonical receipts").
type mblock struct {
	block  *types.Block
	parent *mblock
	num    uint64
	logs   []*types.Log
}

func (b *mblock) hash() common.Hash { return b.block.Hash() }

type model struct {
	config  *params.ChainConfig
	engine  consensus.Engine
	gspec   *core.Genesis
	gendb   ethdb.Database
	genesis *mblock
	byHash  map[common.Hash]*mblock
	keys    []*ecdsa.PrivateKey
	addrs   []common.Address
	emit    []common.Address // 4 emitting contracts
	topics  []common.Hash    // 6 topic values
	signer  types.Signer
	maxLogs int
}

func newModel(maxLogs int) *model {
	m := &model{byHash: map[common.Hash]*mblock{}, maxLogs: maxLogs}
	cfg := *params.TestChainConfig
	m.config = &cfg
	m.engine = ethash.NewFaker()
	m.signer = types.LatestSigner(m.config)
	alloc := types.GenesisAlloc{}
	for i := 0; i < 4; i++ {
		k, _ := crypto.ToECDSA(crypto.Keccak256([]byte{byte(i), 'c', '4', '0'}))
		m.keys = append(m.keys, k)
		a := crypto.PubkeyToAddress(k.PublicKey)
		m.addrs = append(m.addrs, a)
		alloc[a] = types.Account{Balance: new(big.Int).Lsh(big.NewInt(1), 100)}
	}
	for i := 0; i < 4; i++ {
		a := common.BytesToAddress([]byte{0xe4, 0x00, byte(i + 1)})
		m.emit = append(m.emit, a)
		alloc[a] = types.Account{Code: logemit.Code(), Balance: big.NewInt(1)}
	}
	for i := 0; i < 6; i++ {
		m.topics = append(m.topics, crypto.Keccak256Hash([]byte{byte(i), 't', 'o', 'p'}))
	}
	m.gspec = &core.Genesis{Config: m.config, GasLimit: 60_000_000, BaseFee: big.NewInt(params.InitialBaseFee), Alloc: alloc}
	m.gendb = rawdb.NewMemoryDatabase()
	tdb := triedb.NewDatabase(m.gendb, triedb.HashDefaults)
	gb, err := m.gspec.Commit(m.gendb, tdb, nil)
	if err != nil {
		panic(err)
	}
	tdb.Close()
	m.genesis = &mblock{block: gb}
	m.byHash[gb.Hash()] = m.genesis
	return m
}

// extend generates n blocks on top of parent: 0..maxLogs logs per block, emitted by 4 contracts
// with 0-4 topics drawn from 6 values (dense matches), a few reverting calls whose logs must not
// appear, and empty blocks.
func (m *model) extend(rng *rand.Rand, parent *mblock, n int) []*mblock {
	blocks, receipts := core.GenerateChain(m.config, parent.block, m.engine, m.gendb, n, func(i int, b *core.BlockGen) {
		var extra [6]byte
		rng.Read(extra[:])
		b.SetExtra(extra[:])
		want := 0
		switch rng.Intn(6) {
		case 0: // empty block
		case 1:
			want = m.maxLogs
		default:
			want = rng.Intn(m.maxLogs + 1)
		}
		for want > 0 {
			var recs []logemit.Record
			k := 1 + rng.Intn(8)
			if k > want {
				k = want
			}
			for j := 0; j < k; j++ {
				rec := logemit.Record{}
				for t := rng.Intn(5); t > 0; t-- {
					rec.Topics = append(rec.Topics, m.topics[rng.Intn(len(m.topics))])
				}
				rec.Data = make([]byte, rng.Intn(12))
				rng.Read(rec.Data)
				recs = append(recs, rec)
			}
			revert := rng.Intn(12) == 0
			s := rng.Intn(len(m.keys))
			to := m.emit[rng.Intn(len(m.emit))]
			tx := types.MustSignNewTx(m.keys[s], m.signer, &types.LegacyTx{Nonce: b.TxNonce(m.addrs[s]), To: &to, Gas: logemit.Gas(recs, revert), GasPrice: big.NewInt(300 * params.GWei), Data: logemit.Encode(recs, revert)})
			b.AddTx(tx)
			if !revert {
				want -= k
			}
		}
	})
	var out []*mblock
	p := parent
	for i, b := range blocks {
		mb := &mblock{block: b, parent: p, num: b.NumberU64()}
		for _, r := range receipts[i] {
			mb.logs = append(mb.logs, r.Logs...)
		}
		m.byHash[b.Hash()] = mb
		out = append(out, mb)
		p = mb
	}
	return out
}

// chainTo returns the chain genesis..b indexed by number.
func chainTo(b *mblock) []*mblock {
	out := make([]*mblock, b.num+1)
	for x := b; x != nil; x = x.parent {
		out[x.num] = x
	}
	return out
}
