// C40: log queries return exactly the matching canonical logs.
//
// eth/filters range filters are run over a harness backend made of a real core.BlockChain and a
// real core/filtermaps.FilterMaps (test-sized Params so that many maps, row overflows and several
// epochs are crossed) while the chain grows, reorganises (depth 1-50), switches back to abandoned
// branches, the index target lags behind or is restarted with other history limits. Every result is
// compared with a direct scan of the model's canonical logs through a small reference matcher:
// exactly (quiescent sessions) or against every chain view that was canonical during the query
// (sessions concurrent with imports and indexing).
package main

import (
	"context"
	"fmt"
	"os"
	"strconv"
	"sync"
	"sync/atomic"

	"github.com/ethereum/go-ethereum/common"
	"github.com/ethereum/go-ethereum/core"
	"github.com/ethereum/go-ethereum/core/filtermaps"
	"github.com/ethereum/go-ethereum/core/rawdb"
	"github.com/ethereum/go-ethereum/core/types"
	"github.com/ethereum/go-ethereum/eth/filters"
	"github.com/ethereum/go-ethereum/ethdb"
	"github.com/ethereum/go-ethereum/event"
	"github.com/ethereum/go-ethereum/params"
	"github.com/ethereum/go-ethereum/rpc"

	"verif/lib/vrt"
)

func main() { vrt.Main("C40", run) }

// ---------------------------------------------------------------- backend

type backend struct {
	db ethdb.Database
	bc *core.BlockChain
	fm atomic.Pointer[filtermaps.FilterMaps]

	txFeed event.Feed

	rowFetches  atomic.Int64 // GetFilterMapRows calls (indexed path taken)
	potential   atomic.Int64 // GetLogByLvIndex calls (potential matches resolved)
	matcherSync atomic.Int64
}

func (b *backend) ChainDb() ethdb.Database { return b.db }
func (b *backend) HeaderByNumber(ctx context.Context, n rpc.BlockNumber) (*types.Header, error) {
	switch n {
	case rpc.LatestBlockNumber:
		return b.bc.CurrentBlock(), nil
	case rpc.FinalizedBlockNumber:
		return b.bc.CurrentFinalBlock(), nil
	case rpc.SafeBlockNumber:
		return b.bc.CurrentSafeBlock(), nil
	case rpc.EarliestBlockNumber:
		return b.bc.GetHeaderByNumber(0), nil
	}
	if n < 0 {
		return nil, fmt.Errorf("unsupported special block number %d", n)
	}
	return b.bc.GetHeaderByNumber(uint64(n)), nil
}
func (b *backend) HeaderByHash(ctx context.Context, h common.Hash) (*types.Header, error) {
	return b.bc.GetHeaderByHash(h), nil
}
func (b *backend) GetBody(ctx context.Context, hash common.Hash, number rpc.BlockNumber) (*types.Body, error) {
	if body := b.bc.GetBody(hash); body != nil {
		return body, nil
	}
	return nil, fmt.Errorf("block body not found")
}
func (b *backend) GetReceipts(ctx context.Context, h common.Hash) (types.Receipts, error) {
	return b.bc.GetReceiptsByHash(h), nil
}
func (b *backend) GetLogs(ctx context.Context, h common.Hash, number uint64) ([][]*types.Log, error) {
	return rawdb.ReadLogs(b.db, h, number), nil
}
func (b *backend) CurrentHeader() *types.Header     { return b.bc.CurrentHeader() }
func (b *backend) ChainConfig() *params.ChainConfig { return b.bc.Config() }
func (b *backend) HistoryPruningCutoff() uint64     { c, _ := b.bc.HistoryPruningCutoff(); return c }
func (b *backend) SubscribeNewTxsEvent(ch chan<- core.NewTxsEvent) event.Subscription {
	return b.txFeed.Subscribe(ch)
}
func (b *backend) SubscribeChainEvent(ch chan<- core.ChainEvent) event.Subscription {
	return b.bc.SubscribeChainEvent(ch)
}
func (b *backend) SubscribeRemovedLogsEvent(ch chan<- core.RemovedLogsEvent) event.Subscription {
	return b.bc.SubscribeRemovedLogsEvent(ch)
}
func (b *backend) SubscribeLogsEvent(ch chan<- []*types.Log) event.Subscription {
	return b.bc.SubscribeLogsEvent(ch)
}
func (b *backend) CurrentView() *filtermaps.ChainView {
	head := b.bc.CurrentBlock()
	if head == nil {
		return nil
	}
	return filtermaps.NewChainView(b.bc, head.Number.Uint64(), head.Hash())
}
func (b *backend) NewMatcherBackend() filtermaps.MatcherBackend {
	return &countingMB{MatcherBackend: b.fm.Load().NewMatcherBackend(), b: b}
}

// countingMB only counts calls (evidence that the indexed path is exercised).
type countingMB struct {
	filtermaps.MatcherBackend
	b *backend
}

func (c *countingMB) GetFilterMapRows(ctx context.Context, mapIndices []uint32, rowIndex uint32, baseLayerOnly bool) ([]filtermaps.FilterRow, error) {
	c.b.rowFetches.Add(1)
	return c.MatcherBackend.GetFilterMapRows(ctx, mapIndices, rowIndex, baseLayerOnly)
}
func (c *countingMB) GetLogByLvIndex(ctx context.Context, lvIndex uint64) (*types.Log, error) {
	c.b.potential.Add(1)
	return c.MatcherBackend.GetLogByLvIndex(ctx, lvIndex)
}
func (c *countingMB) SyncLogIndex(ctx context.Context) (filtermaps.SyncRange, error) {
	c.b.matcherSync.Add(1)
	return c.MatcherBackend.SyncLogIndex(ctx)
}

// ---------------------------------------------------------------- run

func run(r *vrt.Run) {
	r.Rule("case = random chain (50-300 blocks quick, to 600 thorough; 0-40 logs per block from 4 emitters with 0-4 topics out of 6 values, reverting calls, empty blocks) x filtermaps.Params (3 test-sized sets) x history limit x state scheme, mutated by extensions, reorgs of depth 1-50, switches back to abandoned branches, lagging index targets and index restarts; queries = random range filters (address sets, topic positions with wildcards/alternatives, unused values, match-all; numeric / latest / earliest bounds, single block, reversed, beyond head) in quiescent sessions (after WaitIdle, exact) and in sessions concurrent with imports+indexing (any canonical view during the query); one evaluation per query; signature = (session kind, filter shape, index coverage of the range at query time, outcome class, reorg overlap)")
	nCases := r.N(9, 240)
	if r.Race() {
		nCases = r.N(3, 30)
	}
	if v := os.Getenv("VERIF_ONLY"); v != "" {
		i, _ := strconv.Atoi(v)
		runCase(r, i)
	} else {
		vrt.Par(nCases, 0, func(i int) { runCase(r, i) })
		q := int64(1)
		if r.Race() {
			q = 4
		}
		r.Require("queries_quiescent", 400/q)
		r.Require("queries_concurrent", 100/q)
		if !r.Race() {
			r.Require("queries_concurrent_overlapping_reorg", 10) // schedule dependent: only required of the larger default variant
		}
		r.Require("queries_indexed_path", 200/q)
		r.Require("queries_mixed_or_unindexed_path", 20/q)
		r.Require("matches_compared", 2000/q)
		r.Require("ops_reorg", 8/q)
		r.Require("index_restarts", 2/q)
	}
	r.Assume("reference = scan of the model's per-block logs (core.GenerateChain receipts, import re-validates receipt roots) along the parent links of a canonical view, filtered by a 12-line matcher")
	r.Assume("concurrent sessions accept the result for any chain view that was canonical between the start and the end of the query, including the intermediate heads of an import in progress; errors accepted: 'invalid block range params' / 'block range extends beyond current head block' when some such view makes the range invalid")
}

type spec struct {
	begin, end int64
	addrs      []common.Address
	topics     [][]common.Hash
}

func (s spec) String() string {
	return fmt.Sprintf("[%d,%d] addrs=%d topics=%v", s.begin, s.end, len(s.addrs), topicShape(s.topics))
}

func topicShape(t [][]common.Hash) string {
	out := ""
	for _, alts := range t {
		out += strconv.Itoa(len(alts))
	}
	if out == "" {
		return "-"
	}
	return out
}

type qrec struct {
	sp         spec
	s, e       int64 // ops completed at start, ops started at end
	logs       []*types.Log
	err        error
	coverage   string
	concurrent bool
}

type opViews struct {
	tips []*mblock // canonical heads during the operation, in order (excluding the pre-state)
}

type tcase struct {
	r    *vrt.Run
	idx  int
	m    *model
	be   *backend
	sys  *filters.FilterSystem
	desc string

	fparams filtermaps.Params
	history uint64
	hashSch bool

	mu      sync.Mutex
	ops     []opViews
	chains  []*mblock // chains[k] = head after k operations
	started atomic.Int64
	done    atomic.Int64

	branches        []*mblock // tips of abandoned branches
	oplog           []string
	failed          atomic.Bool
	dumped          bool
	sequential      bool
	extendOnly      bool
	valuesPerMap    int
	pendingMismatch []func()
}

func (c *tcase) head() *mblock { c.mu.Lock(); defer c.mu.Unlock(); return c.chains[len(c.chains)-1] }

func (c *tcase) logop(format string, a ...any) {
	s := fmt.Sprintf(format, a...)
	c.mu.Lock()
	c.oplog = append(c.oplog, s)
	c.mu.Unlock()
	c.r.Case("case %d (%s) %s [VERIF_ONLY=%d]", c.idx, c.desc, s, c.idx)
}

func (c *tcase) witness(extra map[string]any) map[string]any {
	c.mu.Lock()
	defer c.mu.Unlock()
	w := map[string]any{"case": c.idx, "config": c.desc, "ops": append([]string{}, c.oplog...), "rerun": fmt.Sprintf("VERIF_SEED=%d VERIF_TIER=%s VERIF_ONLY=%d", c.r.Seed, c.r.Tier, c.idx)}
	for k, v := range extra {
		w[k] = v
	}
	return w
}

func (c *tcase) startFM() error {
	view := c.be.CurrentView()
	fm, err := filtermaps.NewFilterMaps(c.be.db, view, 0, 0, c.fparams, filtermaps.Config{History: c.history, HashScheme: c.hashSch})
	if err != nil {
		return err
	}
	c.be.fm.Store(fm)
	fm.Start()
	return nil
}

func (c *tcase) setTarget(lag uint64) {
	head := c.be.bc.CurrentBlock()
	n := head.Number.Uint64()
	var view *filtermaps.ChainView
	if lag > 0 && lag < n {
		h := c.be.bc.GetHeaderByNumber(n - lag)
		view = filtermaps.NewChainView(c.be.bc, h.Number.Uint64(), h.Hash())
	} else {
		view = filtermaps.NewChainView(c.be.bc, n, head.Hash())
	}
	if view != nil {
		c.be.fm.Load().SetTarget(view, 0, 0)
	}
}
