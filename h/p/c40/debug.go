package main

import (
	"os"

	"github.com/ethereum/go-ethereum/log"
)

func init() {
	switch os.Getenv("C40_GETHLOG") {
	case "warn":
		log.SetDefault(log.NewLogger(log.NewTerminalHandlerWithLevel(os.Stderr, log.LevelWarn, false)))
	case "debug":
		log.SetDefault(log.NewLogger(log.NewTerminalHandlerWithLevel(os.Stderr, log.LevelDebug, false)))
	}
}
