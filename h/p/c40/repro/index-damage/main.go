// Stress reproducer for the C40 finding "log index holds another branch at rest". go-ethereum
// public API only, plus filtermaps.VerifParams (build tag verif) for test-sized Params.
//
// Per iteration: 12 common blocks, branch A (24 blocks, head #36) and branch B (26 blocks, head
// #38), every block carries 0..12 logs with 0..4 topics. Import common+A and wait for the indexer.
// Then, back to back and each followed by FilterMaps.SetTarget(current view) exactly like
// eth/backend.go does on a chain head event: InsertChain(B) (reorg), SetCanonical(A tip),
// SetCanonical(B tip), while three goroutines issue range queries. Finally WaitIdle and compare
// Filter.Logs(one emitter, [0, latest]) with a direct scan of the canonical receipts; on a
// difference the stored log value pointers are compared with the canonical blocks.
package main

import (
	"context"
	"fmt"
	"math/big"
	"math/rand"
	"os"
	"strconv"
	"sync"

	"github.com/ethereum/go-ethereum/common"
	"github.com/ethereum/go-ethereum/consensus/ethash"
	"github.com/ethereum/go-ethereum/core"
	"github.com/ethereum/go-ethereum/core/filtermaps"
	"github.com/ethereum/go-ethereum/core/rawdb"
	"github.com/ethereum/go-ethereum/core/types"
	"github.com/ethereum/go-ethereum/crypto"
	"github.com/ethereum/go-ethereum/eth/filters"
	"github.com/ethereum/go-ethereum/ethdb"
	"github.com/ethereum/go-ethereum/event"
	"github.com/ethereum/go-ethereum/params"
	"github.com/ethereum/go-ethereum/rpc"
)

type backend struct {
	db ethdb.Database
	bc *core.BlockChain
	fm *filtermaps.FilterMaps
	f  event.Feed
}

func (b *backend) ChainDb() ethdb.Database { return b.db }
func (b *backend) HeaderByNumber(ctx context.Context, n rpc.BlockNumber) (*types.Header, error) {
	if n == rpc.LatestBlockNumber {
		return b.bc.CurrentBlock(), nil
	}
	if n < 0 {
		return b.bc.GetHeaderByNumber(0), nil
	}
	return b.bc.GetHeaderByNumber(uint64(n)), nil
}
func (b *backend) HeaderByHash(ctx context.Context, h common.Hash) (*types.Header, error) {
	return b.bc.GetHeaderByHash(h), nil
}
func (b *backend) GetBody(ctx context.Context, h common.Hash, n rpc.BlockNumber) (*types.Body, error) {
	return b.bc.GetBody(h), nil
}
func (b *backend) GetReceipts(ctx context.Context, h common.Hash) (types.Receipts, error) {
	return b.bc.GetReceiptsByHash(h), nil
}
func (b *backend) GetLogs(ctx context.Context, h common.Hash, n uint64) ([][]*types.Log, error) {
	return rawdb.ReadLogs(b.db, h, n), nil
}
func (b *backend) CurrentHeader() *types.Header     { return b.bc.CurrentHeader() }
func (b *backend) ChainConfig() *params.ChainConfig { return b.bc.Config() }
func (b *backend) HistoryPruningCutoff() uint64     { return 0 }
func (b *backend) SubscribeNewTxsEvent(ch chan<- core.NewTxsEvent) event.Subscription {
	return b.f.Subscribe(ch)
}
func (b *backend) SubscribeChainEvent(ch chan<- core.ChainEvent) event.Subscription {
	return b.bc.SubscribeChainEvent(ch)
}
func (b *backend) SubscribeRemovedLogsEvent(ch chan<- core.RemovedLogsEvent) event.Subscription {
	return b.bc.SubscribeRemovedLogsEvent(ch)
}
func (b *backend) SubscribeLogsEvent(ch chan<- []*types.Log) event.Subscription {
	return b.bc.SubscribeLogsEvent(ch)
}
func (b *backend) CurrentView() *filtermaps.ChainView {
	h := b.bc.CurrentBlock()
	return filtermaps.NewChainView(b.bc, h.Number.Uint64(), h.Hash())
}
func (b *backend) NewMatcherBackend() filtermaps.MatcherBackend { return b.fm.NewMatcherBackend() }

func main() {
	iters := 300
	if len(os.Args) > 1 {
		iters, _ = strconv.Atoi(os.Args[1])
	}
	key, _ := crypto.HexToECDSA("b71c71a67e1177ad4e901695e1b4b9ee17ae16c6668d313eac2f96dbcda3f291")
	addr := crypto.PubkeyToAddress(key.PublicKey)
	config := *params.TestChainConfig
	signer := types.LatestSigner(&config)
	engine := ethash.NewFaker()
	// LOGn emitters: code i emits LOGi with topics calldata[0:32], calldata[32:64], ...
	codes := []string{"60006000a000", "60003560006000a100", "60203560003560006000a200", "604035602035600035" + "60006000a300", "6060356040356020356000356000" + "6000a400"}
	var emitters []common.Address
	alloc := types.GenesisAlloc{addr: {Balance: new(big.Int).Lsh(big.NewInt(1), 90)}}
	for i, c := range codes {
		a := common.BytesToAddress([]byte{0xee, byte(i)})
		emitters = append(emitters, a)
		alloc[a] = types.Account{Code: common.FromHex(c), Balance: big.NewInt(1)}
	}
	gspec := &core.Genesis{Config: &config, GasLimit: 30_000_000, BaseFee: big.NewInt(params.InitialBaseFee), Alloc: alloc}
	rng := rand.New(rand.NewSource(7))
	gen := func(i int, b *core.BlockGen) {
		var extra [4]byte
		rng.Read(extra[:])
		b.SetExtra(extra[:])
		for j := rng.Intn(13); j > 0; j-- {
			data := make([]byte, 128)
			for k := 0; k < 4; k++ {
				data[k*32+31] = byte(1 + rng.Intn(5))
			}
			b.AddTx(types.MustSignNewTx(key, signer, &types.LegacyTx{Nonce: b.TxNonce(addr), To: &emitters[rng.Intn(5)], Gas: 80000, GasPrice: big.NewInt(100 * params.GWei), Data: data}))
		}
	}
	gendb, common12, _ := core.GenerateChainWithGenesis(gspec, engine, 12, gen)
	chainA, _ := core.GenerateChain(&config, common12[11], engine, gendb, 24, gen)
	chainB, _ := core.GenerateChain(&config, common12[11], engine, gendb, 26, gen)
	fparams := filtermaps.VerifParams(3, 24, 2, 6, 4, 2, 2) // 64 log values per map, 8 rows, 4 maps per epoch

	failures := 0
	for it := 0; it < iters; it++ {
		db := rawdb.NewMemoryDatabase()
		cfg := core.DefaultConfig()
		cfg.ArchiveMode, cfg.SnapshotLimit, cfg.TrieCleanLimit = true, 0, 4
		bc, err := core.NewBlockChain(db, gspec, engine, cfg)
		if err != nil {
			panic(err)
		}
		be := &backend{db: db, bc: bc}
		be.fm, err = filtermaps.NewFilterMaps(db, be.CurrentView(), 0, 0, fparams, filtermaps.Config{History: 25, HashScheme: true})
		if err != nil {
			panic(err)
		}
		be.fm.Start()
		sys := filters.NewFilterSystem(be, filters.Config{})
		setTarget := func() { be.fm.SetTarget(be.CurrentView(), 0, 0) }
		must := func(_ any, err error) {
			if err != nil {
				panic(err)
			}
		}
		must(bc.InsertChain(common12))
		must(bc.InsertChain(chainA))
		setTarget()
		be.fm.WaitIdle()
		stop := make(chan struct{})
		var wg sync.WaitGroup
		for g := 0; g < 3; g++ {
			wg.Add(1)
			qr := rand.New(rand.NewSource(int64(it*3 + g)))
			go func() {
				defer wg.Done()
				for {
					select {
					case <-stop:
						return
					default:
					}
					a := int64(qr.Intn(36))
					sys.NewRangeFilter(a, a+int64(qr.Intn(10)), []common.Address{emitters[qr.Intn(5)]}, nil, 0).Logs(context.Background())
				}
			}()
		}
		must(bc.InsertChain(chainB)) // reorg depth 24
		setTarget()
		must(bc.SetCanonical(bc.GetBlockByHash(chainA[23].Hash())))
		setTarget()
		must(bc.SetCanonical(bc.GetBlockByHash(chainB[25].Hash())))
		setTarget()
		close(stop)
		wg.Wait()
		be.fm.WaitIdle()

		head := bc.CurrentBlock().Number.Uint64()
		bad := false
		for _, em := range emitters[1:] {
			got, err := sys.NewRangeFilter(0, rpc.LatestBlockNumber.Int64(), []common.Address{em}, nil, 0).Logs(context.Background())
			want := 0
			for n := uint64(0); n <= head; n++ {
				for _, r := range bc.GetReceiptsByHash(bc.GetCanonicalHash(n)) {
					for _, l := range r.Logs {
						if l.Address == em {
							want++
						}
					}
				}
			}
			if err != nil || len(got) != want {
				bad = true
				if failures < 3 {
					fmt.Printf("iteration %d: chain at rest on branch B (head #%d), indexer idle: Filter.Logs(address %x) err=%v returned %d logs, canonical receipts hold %d\n", it, head, em.Bytes()[18:], err, len(got), want)
				}
			}
		}
		if bad {
			if failures < 3 {
				for n := uint64(12); n < head; n++ {
					p, _ := rawdb.ReadBlockLvPointer(db, n)
					p2, _ := rawdb.ReadBlockLvPointer(db, n+1)
					vals := 1
					for _, r := range bc.GetReceiptsByHash(bc.GetCanonicalHash(n)) {
						for _, l := range r.Logs {
							vals += 1 + len(l.Topics)
						}
					}
					if int(p2-p) < vals {
						fmt.Printf("   block %d: canonical block has %d log values, the index allots %d\n", n, vals, p2-p)
					}
				}
			}
			failures++
		}
		be.fm.Stop()
		bc.Stop()
	}
	fmt.Printf("%d of %d iterations: results at rest differ from the canonical receipts\n", failures, iters)
}
