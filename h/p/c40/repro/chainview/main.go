// Deterministic reproducer of the root cause behind the C40 finding "log index holds another
// branch": a time-of-check/time-of-use race in core/filtermaps.ChainView.blockHash.
//
//	func (cv *ChainView) blockHash(number uint64) common.Hash {
//		if number+uint64(len(cv.hashes)) <= cv.headNumber {
//			hash := cv.chain.GetCanonicalHash(number)     // (1) read from the live canonical index
//			if !cv.extendNonCanonical() { ... }           // (2) walk back from the view's head until canonical
//			if number+uint64(len(cv.hashes)) <= cv.headNumber {
//				return hash                                 // (3) returned although (2) may have observed another chain
//			}
//		}
//
// A view of branch B is asked for block 32 while branch A is canonical: (1) reads A32. If the chain
// switches back to B while (2) walks down from B's head, the walk stops immediately ("my head is
// canonical") and (3) returns A32 as "block 32 of the view of B". The indexer uses exactly this
// (targetView.BlockId(lastBlockOfMap)) to decide which rendered maps can be kept after a reorg, so
// it keeps maps of branch A under an indexed view of branch B.
//
// The chain below is synthetic (the constructor takes an interface); the flip is injected at the
// first canonical-hash read of step (2), which is where a concurrent SetCanonical can land.
package main

import (
	"fmt"
	"math/big"

	"github.com/ethereum/go-ethereum/common"
	"github.com/ethereum/go-ethereum/core/filtermaps"
	"github.com/ethereum/go-ethereum/core/types"
)

type fakeChain struct {
	headers   map[common.Hash]*types.Header
	canonical map[uint64]common.Hash
	onRead    func(number uint64)
}

func (c *fakeChain) GetHeader(hash common.Hash, number uint64) *types.Header { return c.headers[hash] }
func (c *fakeChain) GetCanonicalHash(number uint64) common.Hash {
	if c.onRead != nil {
		c.onRead(number)
	}
	return c.canonical[number]
}
func (c *fakeChain) GetReceiptsByHash(hash common.Hash) types.Receipts             { return nil }
func (c *fakeChain) GetRawReceipts(hash common.Hash, number uint64) types.Receipts { return nil }

func main() {
	c := &fakeChain{headers: map[common.Hash]*types.Header{}, canonical: map[uint64]common.Hash{}}
	build := func(parent *types.Header, n int, tag byte) []*types.Header {
		var out []*types.Header
		for i := 0; i < n; i++ {
			h := &types.Header{Number: new(big.Int).Add(parent.Number, big.NewInt(1)), ParentHash: parent.Hash(), Extra: []byte{tag}, Difficulty: big.NewInt(1)}
			c.headers[h.Hash()] = h
			out = append(out, h)
			parent = h
		}
		return out
	}
	genesis := &types.Header{Number: big.NewInt(0), Difficulty: big.NewInt(1)}
	c.headers[genesis.Hash()] = genesis
	common12 := build(genesis, 12, 'C')
	branchA := build(common12[11], 24, 'A') // 13..36
	branchB := build(common12[11], 26, 'B') // 13..38
	setCanonical := func(branch []*types.Header) {
		c.canonical = map[uint64]common.Hash{0: genesis.Hash()}
		for _, h := range common12 {
			c.canonical[h.Number.Uint64()] = h.Hash()
		}
		for _, h := range branch {
			c.canonical[h.Number.Uint64()] = h.Hash()
		}
	}
	a32, b32 := branchA[32-13].Hash(), branchB[32-13].Hash()

	setCanonical(branchB)
	viewB := filtermaps.NewChainView(c, 38, branchB[25].Hash()) // view of branch B, created while B is canonical
	fmt.Printf("view of B created; BlockHash(32) = %x (B32 = %x, A32 = %x)\n", viewB.BlockHash(32).Bytes()[:4], b32.Bytes()[:4], a32.Bytes()[:4])

	setCanonical(branchA) // the chain switches to A ...
	reads := 0
	c.onRead = func(number uint64) {
		reads++
		if reads == 2 { // ... and back to B right after blockHash() has read canonical[32]
			c.onRead = nil
			setCanonical(branchB)
		}
	}
	got := viewB.BlockHash(32)
	fmt.Printf("A canonical, switch back to B during the call: view-of-B.BlockHash(32) = %x", got.Bytes()[:4])
	switch got {
	case b32:
		fmt.Println("  -> B32 (correct)")
	case a32:
		fmt.Println("  -> A32: a block of the other branch is reported as member of the view of B")
	default:
		fmt.Println("  -> unexpected")
	}
	fmt.Printf("same call again at rest: %x (correct again, the damage is done by the decisions taken in between)\n", viewB.BlockHash(32).Bytes()[:4])
}
