// Reproducer for the C40 finding "indexed block range starts inside an unindexed block"
// (fingerprint index-range-starts-inside-unindexed-block). go-ethereum public API only, plus
// filtermaps.VerifParams / VerifIndexedRange / VerifTailPartialEpoch (build tag verif).
// Strictly sequential, no concurrency involved.
//
// Blocks carry ~150 log values while a filter map holds 16 (a block spans ~10 maps); log history
// = 25 blocks. The chain is indexed at head #60 (indexer idle); then 40 more blocks are imported
// (more than the history) before the indexer is told about the new head (a node that was offline
// longer than its log history). While the head renderer works its way up it calls tryUnindexTail
// between maps; the tail target (head-25) lies above everything indexed so far, so all tail epochs
// are removed until the remaining indexed maps lie inside one block b: the indexed block range is
// then empty, [b+1,b+1). The next mapRenderer.getUpdatedRange() does
// newRange.blocks.SetAfterLast(b) with b < first, and common.Range.SetAfterLast clamps first down
// to b. From then on the range claims block b although the maps holding the beginning of b were
// unindexed: indexed searches miss the first logs of block b.
package main

import (
	"context"
	"fmt"
	"math/big"
	"math/rand"

	"github.com/ethereum/go-ethereum/common"
	"github.com/ethereum/go-ethereum/consensus/ethash"
	"github.com/ethereum/go-ethereum/core"
	"github.com/ethereum/go-ethereum/core/filtermaps"
	"github.com/ethereum/go-ethereum/core/rawdb"
	"github.com/ethereum/go-ethereum/core/types"
	"github.com/ethereum/go-ethereum/crypto"
	"github.com/ethereum/go-ethereum/eth/filters"
	"github.com/ethereum/go-ethereum/ethdb"
	"github.com/ethereum/go-ethereum/event"
	"github.com/ethereum/go-ethereum/params"
	"github.com/ethereum/go-ethereum/rpc"
)

type backend struct {
	db ethdb.Database
	bc *core.BlockChain
	fm *filtermaps.FilterMaps
	f  event.Feed
}

func (b *backend) ChainDb() ethdb.Database { return b.db }
func (b *backend) HeaderByNumber(ctx context.Context, n rpc.BlockNumber) (*types.Header, error) {
	if n == rpc.LatestBlockNumber {
		return b.bc.CurrentBlock(), nil
	}
	if n < 0 {
		return b.bc.GetHeaderByNumber(0), nil
	}
	return b.bc.GetHeaderByNumber(uint64(n)), nil
}
func (b *backend) HeaderByHash(ctx context.Context, h common.Hash) (*types.Header, error) {
	return b.bc.GetHeaderByHash(h), nil
}
func (b *backend) GetBody(ctx context.Context, h common.Hash, n rpc.BlockNumber) (*types.Body, error) {
	return b.bc.GetBody(h), nil
}
func (b *backend) GetReceipts(ctx context.Context, h common.Hash) (types.Receipts, error) {
	return b.bc.GetReceiptsByHash(h), nil
}
func (b *backend) GetLogs(ctx context.Context, h common.Hash, n uint64) ([][]*types.Log, error) {
	return rawdb.ReadLogs(b.db, h, n), nil
}
func (b *backend) CurrentHeader() *types.Header     { return b.bc.CurrentHeader() }
func (b *backend) ChainConfig() *params.ChainConfig { return b.bc.Config() }
func (b *backend) HistoryPruningCutoff() uint64     { return 0 }
func (b *backend) SubscribeNewTxsEvent(ch chan<- core.NewTxsEvent) event.Subscription {
	return b.f.Subscribe(ch)
}
func (b *backend) SubscribeChainEvent(ch chan<- core.ChainEvent) event.Subscription {
	return b.bc.SubscribeChainEvent(ch)
}
func (b *backend) SubscribeRemovedLogsEvent(ch chan<- core.RemovedLogsEvent) event.Subscription {
	return b.bc.SubscribeRemovedLogsEvent(ch)
}
func (b *backend) SubscribeLogsEvent(ch chan<- []*types.Log) event.Subscription {
	return b.bc.SubscribeLogsEvent(ch)
}
func (b *backend) CurrentView() *filtermaps.ChainView {
	h := b.bc.CurrentBlock()
	return filtermaps.NewChainView(b.bc, h.Number.Uint64(), h.Hash())
}
func (b *backend) NewMatcherBackend() filtermaps.MatcherBackend { return b.fm.NewMatcherBackend() }

func main() {
	key, _ := crypto.HexToECDSA("b71c71a67e1177ad4e901695e1b4b9ee17ae16c6668d313eac2f96dbcda3f291")
	addr := crypto.PubkeyToAddress(key.PublicKey)
	config := *params.TestChainConfig
	signer := types.LatestSigner(&config)
	engine := ethash.NewFaker()
	emitter := common.HexToAddress("0xee04")
	gspec := &core.Genesis{Config: &config, GasLimit: 30_000_000, BaseFee: big.NewInt(params.InitialBaseFee), Alloc: types.GenesisAlloc{
		addr:    {Balance: new(big.Int).Lsh(big.NewInt(1), 90)},
		emitter: {Code: common.FromHex("6060356040356020356000356000" + "6000a400"), Balance: big.NewInt(1)}, // LOG4(topics = calldata words)
	}}
	fparams := filtermaps.VerifParams(2, 24, 4, 4, 4, 2, 2) // 16 log values per map, 16 maps per epoch
	const valuesPerMap = 16
	for seed := int64(1); seed <= 20; seed++ {
		rng := rand.New(rand.NewSource(seed))
		gen := func(i int, b *core.BlockGen) {
			var extra [4]byte
			rng.Read(extra[:])
			b.SetExtra(extra[:])
			for j := 20 + rng.Intn(20); j > 0; j-- {
				data := make([]byte, 128)
				for k := 0; k < 4; k++ {
					data[k*32+31] = byte(1 + rng.Intn(5))
				}
				b.AddTx(types.MustSignNewTx(key, signer, &types.LegacyTx{Nonce: b.TxNonce(addr), To: &emitter, Gas: 80000, GasPrice: big.NewInt(100 * params.GWei), Data: data}))
			}
		}
		gendb, blocks, _ := core.GenerateChainWithGenesis(gspec, engine, 60, gen)
		more, _ := core.GenerateChain(&config, blocks[59], engine, gendb, 40, gen)
		db := rawdb.NewMemoryDatabase()
		cfg := core.DefaultConfig()
		cfg.ArchiveMode, cfg.SnapshotLimit, cfg.TrieCleanLimit = true, 0, 4
		bc, err := core.NewBlockChain(db, gspec, engine, cfg)
		if err != nil {
			panic(err)
		}
		be := &backend{db: db, bc: bc}
		be.fm, err = filtermaps.NewFilterMaps(db, be.CurrentView(), 0, 0, fparams, filtermaps.Config{History: 25, HashScheme: true})
		if err != nil {
			panic(err)
		}
		be.fm.Start()
		sys := filters.NewFilterSystem(be, filters.Config{})
		settle := func() { be.fm.SetTarget(be.CurrentView(), 0, 0); be.fm.WaitIdle() }
		if _, err := bc.InsertChain(blocks); err != nil {
			panic(err)
		}
		settle()                                        // index at head #60, history 25 blocks
		if _, err := bc.InsertChain(more); err != nil { // the node catches up 40 blocks (more than the history) ...
			panic(err)
		}
		settle() // ... and only then the indexer learns about the new head
		init, _, first, after, mapsFirst, _ := be.fm.VerifIndexedRange()
		hit := false
		if init && first > 0 && be.fm.VerifTailPartialEpoch() == 0 {
			p, _ := rawdb.ReadBlockLvPointer(db, first)
			if p < uint64(mapsFirst)*valuesPerMap {
				hit = true
				fmt.Printf("seed %d: indexer idle, head #%d, indexed blocks [%d,%d), first indexed map %d starts at log value %d, but block %d starts at log value %d\n", seed, bc.CurrentBlock().Number, first, after, mapsFirst, uint64(mapsFirst)*valuesPerMap, first, p)
				got, err := sys.NewRangeFilter(int64(first), int64(first), []common.Address{emitter}, nil, 0).Logs(context.Background())
				want := 0
				for _, r := range bc.GetReceiptsByHash(bc.GetCanonicalHash(first)) {
					want += len(r.Logs)
				}
				fmt.Printf("   Filter.Logs(address=emitter, [%d,%d]) err=%v returned %d logs; the block's receipts hold %d\n", first, first, err, len(got), want)
			}
		}
		be.fm.Stop()
		bc.Stop()
		if hit {
			return
		}
	}
	fmt.Println("not reproduced in 20 seeds")
}
