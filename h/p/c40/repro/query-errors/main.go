// Stress reproducer for the C40 finding "indexed log search misses canonical logs after fast
// branch switching". go-ethereum public API only, plus filtermaps.VerifParams (build tag verif)
// to get the small Params the package's own tests use.
//
// Per iteration: a chain grows by random extensions, reorgs (depth 1..40, new branch) and switches
// back to abandoned branches (SetCanonical); every block carries 0..8 two-topic logs from two
// emitters. After each chain operation FilterMaps.SetTarget is called like eth/backend.go does on a
// chain head event, without waiting, while three goroutines issue range queries (errors other than
// "beyond current head" are collected). After every few operations: WaitIdle, then
// Filter.Logs(address / topic filters, [0, latest]) is compared with a direct scan of the canonical
// receipts (bc.GetReceiptsByHash along the canonical hashes).
package main

import (
	"context"
	"fmt"
	"math/big"
	"math/rand"
	"os"
	"strconv"
	"strings"
	"sync"

	"github.com/ethereum/go-ethereum/common"
	"github.com/ethereum/go-ethereum/consensus/ethash"
	"github.com/ethereum/go-ethereum/core"
	"github.com/ethereum/go-ethereum/core/filtermaps"
	"github.com/ethereum/go-ethereum/core/rawdb"
	"github.com/ethereum/go-ethereum/core/types"
	"github.com/ethereum/go-ethereum/crypto"
	"github.com/ethereum/go-ethereum/eth/filters"
	"github.com/ethereum/go-ethereum/ethdb"
	"github.com/ethereum/go-ethereum/event"
	"github.com/ethereum/go-ethereum/params"
	"github.com/ethereum/go-ethereum/rpc"
)

type backend struct {
	db ethdb.Database
	bc *core.BlockChain
	fm *filtermaps.FilterMaps
	f  event.Feed
}

func (b *backend) ChainDb() ethdb.Database { return b.db }
func (b *backend) HeaderByNumber(ctx context.Context, n rpc.BlockNumber) (*types.Header, error) {
	if n == rpc.LatestBlockNumber {
		return b.bc.CurrentBlock(), nil
	}
	if n < 0 {
		return b.bc.GetHeaderByNumber(0), nil
	}
	return b.bc.GetHeaderByNumber(uint64(n)), nil
}
func (b *backend) HeaderByHash(ctx context.Context, h common.Hash) (*types.Header, error) {
	return b.bc.GetHeaderByHash(h), nil
}
func (b *backend) GetBody(ctx context.Context, h common.Hash, n rpc.BlockNumber) (*types.Body, error) {
	return b.bc.GetBody(h), nil
}
func (b *backend) GetReceipts(ctx context.Context, h common.Hash) (types.Receipts, error) {
	return b.bc.GetReceiptsByHash(h), nil
}
func (b *backend) GetLogs(ctx context.Context, h common.Hash, n uint64) ([][]*types.Log, error) {
	return rawdb.ReadLogs(b.db, h, n), nil
}
func (b *backend) CurrentHeader() *types.Header     { return b.bc.CurrentHeader() }
func (b *backend) ChainConfig() *params.ChainConfig { return b.bc.Config() }
func (b *backend) HistoryPruningCutoff() uint64     { return 0 }
func (b *backend) SubscribeNewTxsEvent(ch chan<- core.NewTxsEvent) event.Subscription {
	return b.f.Subscribe(ch)
}
func (b *backend) SubscribeChainEvent(ch chan<- core.ChainEvent) event.Subscription {
	return b.bc.SubscribeChainEvent(ch)
}
func (b *backend) SubscribeRemovedLogsEvent(ch chan<- core.RemovedLogsEvent) event.Subscription {
	return b.bc.SubscribeRemovedLogsEvent(ch)
}
func (b *backend) SubscribeLogsEvent(ch chan<- []*types.Log) event.Subscription {
	return b.bc.SubscribeLogsEvent(ch)
}
func (b *backend) CurrentView() *filtermaps.ChainView {
	h := b.bc.CurrentBlock()
	return filtermaps.NewChainView(b.bc, h.Number.Uint64(), h.Hash())
}
func (b *backend) NewMatcherBackend() filtermaps.MatcherBackend { return b.fm.NewMatcherBackend() }

func main() {
	iters := 40
	if len(os.Args) > 1 {
		iters, _ = strconv.Atoi(os.Args[1])
	}
	key, _ := crypto.HexToECDSA("b71c71a67e1177ad4e901695e1b4b9ee17ae16c6668d313eac2f96dbcda3f291")
	addr := crypto.PubkeyToAddress(key.PublicKey)
	emitters := []common.Address{common.HexToAddress("0xee01"), common.HexToAddress("0xee02")}
	topics := []common.Hash{common.HexToHash("0x01"), common.HexToHash("0x02"), common.HexToHash("0x03")}
	config := *params.TestChainConfig
	signer := types.LatestSigner(&config)
	engine := ethash.NewFaker()
	code := common.FromHex("60203560003560006000a200") // LOG2(topic1 = calldata[0:32], topic2 = calldata[32:64]); STOP
	gspec := &core.Genesis{Config: &config, GasLimit: 30_000_000, BaseFee: big.NewInt(params.InitialBaseFee), Alloc: types.GenesisAlloc{
		addr:        {Balance: new(big.Int).Lsh(big.NewInt(1), 90)},
		emitters[0]: {Code: code, Balance: big.NewInt(1)},
		emitters[1]: {Code: code, Balance: big.NewInt(1)},
	}}
	fparams := filtermaps.VerifParams(3, 24, 2, 6, 4, 2, 2) // 64 log values per map, 8 rows, 4 maps per epoch
	var errMu sync.Mutex
	queryErrors := map[string]int{}
	failures, checks := 0, 0

	for it := 0; it < iters; it++ {
		rng := rand.New(rand.NewSource(int64(it)))
		gen := func(i int, b *core.BlockGen) {
			var extra [4]byte
			rng.Read(extra[:])
			b.SetExtra(extra[:])
			for j := rng.Intn(9); j > 0; j-- {
				data := append(append([]byte{}, topics[rng.Intn(3)][:]...), topics[rng.Intn(3)][:]...)
				b.AddTx(types.MustSignNewTx(key, signer, &types.LegacyTx{Nonce: b.TxNonce(addr), To: &emitters[rng.Intn(2)], Gas: 60000, GasPrice: big.NewInt(100 * params.GWei), Data: data}))
			}
		}
		gendb, blocks, _ := core.GenerateChainWithGenesis(gspec, engine, 30, gen)
		db := rawdb.NewMemoryDatabase()
		cfg := core.DefaultConfig()
		cfg.ArchiveMode, cfg.SnapshotLimit, cfg.TrieCleanLimit = true, 0, 4
		bc, err := core.NewBlockChain(db, gspec, engine, cfg)
		if err != nil {
			panic(err)
		}
		be := &backend{db: db, bc: bc}
		be.fm, err = filtermaps.NewFilterMaps(db, be.CurrentView(), 0, 0, fparams, filtermaps.Config{History: 25, HashScheme: true})
		if err != nil {
			panic(err)
		}
		be.fm.Start()
		sys := filters.NewFilterSystem(be, filters.Config{})
		setTarget := func() { be.fm.SetTarget(be.CurrentView(), 0, 0) }
		must := func(_ any, err error) {
			if err != nil {
				panic(err)
			}
		}
		must(bc.InsertChain(blocks))
		setTarget()
		be.fm.WaitIdle()
		var abandoned []*types.Block
		for round := 0; round < 12; round++ {
			stop := make(chan struct{})
			var wg sync.WaitGroup
			for g := 0; g < 3; g++ {
				wg.Add(1)
				qr := rand.New(rand.NewSource(rng.Int63()))
				go func() {
					defer wg.Done()
					for {
						select {
						case <-stop:
							return
						default:
						}
						h := int64(bc.CurrentBlock().Number.Uint64())
						a := qr.Int63n(h + 1)
						_, err := sys.NewRangeFilter(a, a+qr.Int63n(h-a+1), []common.Address{emitters[qr.Intn(2)]}, nil, 0).Logs(context.Background())
						if err != nil && !strings.Contains(err.Error(), "block range extends beyond current head block") {
							errMu.Lock()
							msg := err.Error()
							if i := strings.IndexAny(msg, "0123456789"); i > 0 {
								msg = msg[:i] + "N..."
							}
							queryErrors[msg]++
							errMu.Unlock()
						}
					}
				}()
			}
			for k := 2 + rng.Intn(3); k > 0; k-- {
				head := bc.GetBlockByHash(bc.CurrentBlock().Hash())
				switch op := rng.Intn(10); {
				case op < 3:
					nb, _ := core.GenerateChain(&config, head, engine, gendb, 1+rng.Intn(20), gen)
					must(bc.InsertChain(nb))
				case op < 8 || len(abandoned) == 0:
					d := uint64(1 + rng.Intn(40))
					if d >= head.NumberU64() {
						d = head.NumberU64() - 1
					}
					fp := bc.GetBlockByNumber(head.NumberU64() - d)
					nb, _ := core.GenerateChain(&config, fp, engine, gendb, int(d)-2+rng.Intn(8)+2, gen)
					abandoned = append(abandoned, head)
					must(bc.InsertChain(nb)) // reorg of depth d
				default:
					t := abandoned[rng.Intn(len(abandoned))]
					if t.NumberU64()+45 > head.NumberU64() && bc.GetCanonicalHash(t.NumberU64()) != t.Hash() {
						abandoned = append(abandoned, head)
						must(bc.SetCanonical(t)) // switch back
					}
				}
				setTarget()
			}
			close(stop)
			wg.Wait()
			be.fm.WaitIdle()
			// chain at rest, indexer idle: compare
			head := bc.CurrentBlock().Number.Uint64()
			for f := 0; f < 4; f++ {
				var addrs []common.Address
				var tps [][]common.Hash
				switch f {
				case 0:
					addrs = []common.Address{emitters[0]}
				case 1:
					addrs = []common.Address{emitters[1]}
					tps = [][]common.Hash{{topics[0]}}
				case 2:
					tps = [][]common.Hash{nil, {topics[1], topics[2]}}
				case 3:
					addrs = emitters
				}
				got, err := sys.NewRangeFilter(0, rpc.LatestBlockNumber.Int64(), addrs, tps, 0).Logs(context.Background())
				var want []*types.Log
				for n := uint64(0); n <= head; n++ {
					for _, r := range bc.GetReceiptsByHash(bc.GetCanonicalHash(n)) {
						for _, l := range r.Logs {
							ok := len(addrs) == 0
							for _, a := range addrs {
								ok = ok || a == l.Address
							}
							for i, alts := range tps {
								m := len(alts) == 0
								for _, t := range alts {
									m = m || t == l.Topics[i]
								}
								ok = ok && m
							}
							if ok {
								want = append(want, l)
							}
						}
					}
				}
				checks++
				bad := err != nil || len(got) != len(want)
				for i := 0; !bad && i < len(got); i++ {
					bad = got[i].BlockHash != want[i].BlockHash || got[i].Index != want[i].Index
				}
				if bad {
					failures++
					missing := map[uint64]int{}
					gotPer := map[common.Hash]int{}
					for _, l := range got {
						gotPer[l.BlockHash]++
					}
					wantPer := map[uint64]int{}
					for _, l := range want {
						wantPer[l.BlockNumber]++
					}
					for n, w := range wantPer {
						if g := gotPer[bc.GetCanonicalHash(n)]; g != w {
							missing[n] = w - g
						}
					}
					if failures <= 6 {
						_, _, first, after, _, _ := be.fm.VerifIndexedRange()
						fmt.Printf("iteration %d round %d filter %d: head #%d, indexed blocks [%d,%d): Filter.Logs err=%v returned %d logs, canonical receipts hold %d matching; missing(+)/extra(-) per canonical block: %v\n", it, round, f, head, first, after, err, len(got), len(want), missing)
					}
				}
			}
		}
		be.fm.Stop()
		bc.Stop()
	}
	fmt.Printf("errors returned by Filter.Logs for in-range queries racing with chain operations: %v\n", queryErrors)
	fmt.Printf("%d of %d quiescent comparisons (indexer idle, chain at rest) differ from the canonical receipts\n", failures, checks)
}
