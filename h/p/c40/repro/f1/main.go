// Stress reproducer for the C40 finding "indexed log search misses canonical logs after fast
// branch switching". go-ethereum public API only, plus filtermaps.VerifParams (build tag verif)
// to get the small Params the package's own tests use.
//
// Per iteration: chain of 12 common blocks, branch A (24 blocks) and branch B (26 blocks), every
// block carries 6 one-log transactions. Import common+A, wait for the indexer; then import B
// (reorg), SetCanonical(A tip), SetCanonical(B tip), each followed by FilterMaps.SetTarget like
// eth/backend.go does on a chain head event, without waiting. Finally WaitIdle and compare
// Filter.Logs(address = emitter, [0, latest]) with a direct scan of the canonical receipts.
package main

import (
	"context"
	"fmt"
	"math/big"
	"math/rand"
	"os"
	"runtime"
	"strconv"
	"sync"
	"time"

	"github.com/ethereum/go-ethereum/common"
	"github.com/ethereum/go-ethereum/consensus/ethash"
	"github.com/ethereum/go-ethereum/core"
	"github.com/ethereum/go-ethereum/core/filtermaps"
	"github.com/ethereum/go-ethereum/core/rawdb"
	"github.com/ethereum/go-ethereum/core/types"
	"github.com/ethereum/go-ethereum/crypto"
	"github.com/ethereum/go-ethereum/eth/filters"
	"github.com/ethereum/go-ethereum/ethdb"
	"github.com/ethereum/go-ethereum/event"
	"github.com/ethereum/go-ethereum/params"
	"github.com/ethereum/go-ethereum/rpc"
)

type backend struct {
	db ethdb.Database
	bc *core.BlockChain
	fm *filtermaps.FilterMaps
	f  event.Feed
}

func (b *backend) ChainDb() ethdb.Database { return b.db }
func (b *backend) HeaderByNumber(ctx context.Context, n rpc.BlockNumber) (*types.Header, error) {
	if n == rpc.LatestBlockNumber {
		return b.bc.CurrentBlock(), nil
	}
	if n < 0 {
		return b.bc.GetHeaderByNumber(0), nil
	}
	return b.bc.GetHeaderByNumber(uint64(n)), nil
}
func (b *backend) HeaderByHash(ctx context.Context, h common.Hash) (*types.Header, error) {
	return b.bc.GetHeaderByHash(h), nil
}
func (b *backend) GetBody(ctx context.Context, h common.Hash, n rpc.BlockNumber) (*types.Body, error) {
	return b.bc.GetBody(h), nil
}
func (b *backend) GetReceipts(ctx context.Context, h common.Hash) (types.Receipts, error) {
	return b.bc.GetReceiptsByHash(h), nil
}
func (b *backend) GetLogs(ctx context.Context, h common.Hash, n uint64) ([][]*types.Log, error) {
	return rawdb.ReadLogs(b.db, h, n), nil
}
func (b *backend) CurrentHeader() *types.Header     { return b.bc.CurrentHeader() }
func (b *backend) ChainConfig() *params.ChainConfig { return b.bc.Config() }
func (b *backend) HistoryPruningCutoff() uint64     { return 0 }
func (b *backend) SubscribeNewTxsEvent(ch chan<- core.NewTxsEvent) event.Subscription {
	return b.f.Subscribe(ch)
}
func (b *backend) SubscribeChainEvent(ch chan<- core.ChainEvent) event.Subscription {
	return b.bc.SubscribeChainEvent(ch)
}
func (b *backend) SubscribeRemovedLogsEvent(ch chan<- core.RemovedLogsEvent) event.Subscription {
	return b.bc.SubscribeRemovedLogsEvent(ch)
}
func (b *backend) SubscribeLogsEvent(ch chan<- []*types.Log) event.Subscription {
	return b.bc.SubscribeLogsEvent(ch)
}
func (b *backend) CurrentView() *filtermaps.ChainView {
	h := b.bc.CurrentBlock()
	return filtermaps.NewChainView(b.bc, h.Number.Uint64(), h.Hash())
}
func (b *backend) NewMatcherBackend() filtermaps.MatcherBackend { return b.fm.NewMatcherBackend() }

func main() {
	iters := 300
	if len(os.Args) > 1 {
		iters, _ = strconv.Atoi(os.Args[1])
	}
	key, _ := crypto.HexToECDSA("b71c71a67e1177ad4e901695e1b4b9ee17ae16c6668d313eac2f96dbcda3f291")
	addr := crypto.PubkeyToAddress(key.PublicKey)
	emitter := common.HexToAddress("0xee01")
	config := *params.TestChainConfig
	signer := types.LatestSigner(&config)
	engine := ethash.NewFaker()
	gspec := &core.Genesis{Config: &config, GasLimit: 30_000_000, BaseFee: big.NewInt(params.InitialBaseFee), Alloc: types.GenesisAlloc{
		addr:    {Balance: new(big.Int).Lsh(big.NewInt(1), 90)},
		emitter: {Code: common.FromHex("60003560006000a100"), Balance: big.NewInt(1)}, // LOG1(topic = calldata[0:32]); STOP
	}}
	gen := func(tag byte) func(int, *core.BlockGen) {
		return func(i int, b *core.BlockGen) {
			b.SetExtra([]byte{tag})
			for j := 0; j < 6; j++ {
				data := common.BytesToHash([]byte{tag, byte(i), byte(j)})
				b.AddTx(types.MustSignNewTx(key, signer, &types.LegacyTx{Nonce: b.TxNonce(addr), To: &emitter, Gas: 60000, GasPrice: big.NewInt(100 * params.GWei), Data: data[:]}))
			}
		}
	}
	gendb, common12, _ := core.GenerateChainWithGenesis(gspec, engine, 12, gen('C'))
	chainA, _ := core.GenerateChain(&config, common12[11], engine, gendb, 24, gen('A'))
	chainB, _ := core.GenerateChain(&config, common12[11], engine, gendb, 26, gen('B'))
	fparams := filtermaps.VerifParams(3, 24, 2, 6, 4, 2, 2) // 64 log values per map, 8 rows, 4 maps per epoch

	rng := rand.New(rand.NewSource(1))
	failures := 0
	for it := 0; it < iters; it++ {
		db := rawdb.NewMemoryDatabase()
		cfg := core.DefaultConfig()
		cfg.ArchiveMode, cfg.SnapshotLimit, cfg.TrieCleanLimit = true, 0, 4
		bc, err := core.NewBlockChain(db, gspec, engine, cfg)
		if err != nil {
			panic(err)
		}
		be := &backend{db: db, bc: bc}
		be.fm, err = filtermaps.NewFilterMaps(db, be.CurrentView(), 0, 0, fparams, filtermaps.Config{History: 25, HashScheme: true})
		if err != nil {
			panic(err)
		}
		be.fm.Start()
		sys := filters.NewFilterSystem(be, filters.Config{})
		setTarget := func() { be.fm.SetTarget(be.CurrentView(), 0, 0) }
		pause := func() {
			switch rng.Intn(4) {
			case 0:
			case 1:
				runtime.Gosched()
			case 2:
				time.Sleep(time.Duration(rng.Intn(300)) * time.Microsecond)
			case 3:
				time.Sleep(time.Duration(rng.Intn(3000)) * time.Microsecond)
			}
		}
		must := func(_ any, err error) {
			if err != nil {
				panic(err)
			}
		}
		must(bc.InsertChain(common12))
		must(bc.InsertChain(chainA))
		setTarget()
		be.fm.WaitIdle()
		// queries racing with the branch switches (like RPC clients)
		stop := make(chan struct{})
		var wg sync.WaitGroup
		for g := 0; g < 3; g++ {
			wg.Add(1)
			qr := rand.New(rand.NewSource(rng.Int63()))
			go func() {
				defer wg.Done()
				for {
					select {
					case <-stop:
						return
					default:
					}
					a := int64(qr.Intn(30))
					sys.NewRangeFilter(a, a+int64(qr.Intn(8)), []common.Address{emitter}, nil, 0).Logs(context.Background())
				}
			}()
		}
		must(bc.InsertChain(chainB)) // reorg depth 24
		setTarget()
		pause()
		must(bc.SetCanonical(bc.GetBlockByHash(chainA[23].Hash())))
		setTarget()
		pause()
		must(bc.SetCanonical(bc.GetBlockByHash(chainB[25].Hash())))
		setTarget()
		close(stop)
		wg.Wait()
		be.fm.WaitIdle()

		got, err := sys.NewRangeFilter(0, rpc.LatestBlockNumber.Int64(), []common.Address{emitter}, nil, 0).Logs(context.Background())
		var want []*types.Log
		head := bc.CurrentBlock().Number.Uint64()
		for n := uint64(0); n <= head; n++ {
			for _, r := range bc.GetReceiptsByHash(bc.GetCanonicalHash(n)) {
				want = append(want, r.Logs...)
			}
		}
		bad := err != nil || len(got) != len(want)
		first := -1
		for i := 0; !bad && i < len(got); i++ {
			if got[i].BlockHash != want[i].BlockHash || got[i].Index != want[i].Index {
				bad, first = true, i
			}
		}
		if bad {
			failures++
			missing := map[uint64]int{}
			have := map[common.Hash]int{}
			for _, l := range got {
				have[l.BlockHash]++
			}
			for n := uint64(0); n <= head; n++ {
				if d := 6 - have[bc.GetCanonicalHash(n)]; d != 0 && n > 0 {
					missing[n] = d
				}
			}
			fmt.Printf("iteration %d: head #%d (branch B tip: %v) Filter.Logs err=%v returned %d logs, canonical receipts hold %d (first differing position %d); canonical blocks with missing logs: %v\n",
				it, head, bc.CurrentBlock().Hash() == chainB[25].Hash(), err, len(got), len(want), first, missing)
		}
		be.fm.Stop()
		bc.Stop()
	}
	fmt.Printf("%d of %d iterations returned a result different from the canonical receipts (indexer idle, chain at rest)\n", failures, iters)
}
