package main

import (
	"bytes"
	"context"
	"fmt"
	"math/rand"
	"os"
	"strconv"
	"strings"
	"sync"
	"time"

	"github.com/ethereum/go-ethereum/common"
	"github.com/ethereum/go-ethereum/core"
	"github.com/ethereum/go-ethereum/core/filtermaps"
	"github.com/ethereum/go-ethereum/core/rawdb"
	"github.com/ethereum/go-ethereum/core/types"
	"github.com/ethereum/go-ethereum/eth/filters"
	"github.com/ethereum/go-ethereum/rpc"

	"verif/lib/vrt"
)

func runCase(r *vrt.Run, idx int) {
	rng := r.Rand("case", idx)
	maxLogs := []int{40, 40, 12, 4}[rng.Intn(4)]
	m := newModel(maxLogs)
	c := &tcase{r: r, idx: idx, m: m}
	pi := rng.Intn(3)
	switch pi {
	case 0: // the package's own test parameters: 16 values per map, 4 rows, 16 maps per epoch
		c.fparams = filtermaps.VerifParams(2, 24, 4, 4, 4, 2, 2)
	case 1: // 64 values per map, 8 rows, 4 maps per epoch
		c.fparams = filtermaps.VerifParams(3, 24, 2, 6, 4, 2, 2)
	case 2: // 256 values per map, 16 rows, 8 maps per epoch, longer base rows
		c.fparams = filtermaps.VerifParams(4, 24, 3, 8, 8, 4, 1)
	}
	c.history = []uint64{0, 0, 25, 60, 150}[rng.Intn(5)]
	cfg := core.DefaultConfig()
	cfg.TrieCleanLimit, cfg.SnapshotLimit = 4, 0
	if rng.Intn(2) == 0 {
		cfg.StateScheme = rawdb.HashScheme
		cfg.ArchiveMode = true
		c.hashSch = true
	} else {
		cfg.StateScheme = rawdb.PathScheme
	}
	target := 50 + rng.Intn(r.N(250, 550))
	if r.Race() {
		target = 40 + rng.Intn(80)
	}
	// Half of the cases are sequential: every chain operation and index restart is followed by
	// WaitIdle before anything else happens (the indexer never runs while the chain changes),
	// queries run at rest only. The other half lets imports, indexing and queries race.
	// A third of the racing cases use only extensions (plus lagging targets, index restarts and
	// history limits): the canonical number->hash index then only grows, which excludes the
	// known ChainView/reorg race; their verdicts stay on the strict generic fingerprints.
	c.sequential = idx%3 == 1
	c.extendOnly = idx%3 == 2
	c.valuesPerMap = []int{16, 64, 256}[pi]
	c.desc = fmt.Sprintf("params=%d history=%d scheme=%s maxlogs=%d target=%d mode=%s", pi, c.history, cfg.StateScheme, maxLogs, target, c.mode())
	r.Case("case %d (%s) open", idx, c.desc)

	db := rawdb.NewMemoryDatabase()
	bc, err := core.NewBlockChain(db, m.gspec, m.engine, cfg)
	if err != nil {
		r.Inconclusive("case %d: NewBlockChain: %v", idx, err)
		return
	}
	defer bc.Stop()
	c.be = &backend{db: db, bc: bc}
	c.sys = filters.NewFilterSystem(c.be, filters.Config{})
	c.chains = []*mblock{m.genesis}
	if err := c.startFM(); err != nil {
		r.Inconclusive("case %d: NewFilterMaps: %v", idx, err)
		return
	}
	defer func() { c.be.fm.Load().Stop() }()

	// initial growth
	c.mutate(rng, "extend", 20+rng.Intn(30), 0)
	if c.sequential {
		c.be.fm.Load().WaitIdle()
	}
	nQ := r.N(25, 40)
	maxSteps := 400
	if v := os.Getenv("C40_STEPS"); v != "" {
		maxSteps, _ = strconv.Atoi(v)
	}
	for step := 0; step < maxSteps && !c.failed.Load() && (c.head().num < uint64(target) || step < 6) && step < 400; step++ {
		k := rng.Intn(10)
		if c.sequential && k >= 4 && k < 8 {
			k = 0
		}
		switch {
		case k < 4: // quiescent session
			c.mutateRandom(rng)
			c.be.fm.Load().WaitIdle()
			if !c.scanIndex() {
				break
			}
			c.session(rng, nQ, false)
		case k < 8: // session concurrent with imports and indexing
			c.session(rng, nQ, true)
			c.be.fm.Load().WaitIdle()
			c.scanIndex()
		case k < 9: // restart the index with another history limit
			c.logop("restart filtermaps")
			c.be.fm.Load().Stop()
			c.history = []uint64{0, 0, 25, 60, 150}[rng.Intn(5)]
			if err := c.startFM(); err != nil {
				r.Inconclusive("case %d: NewFilterMaps: %v", idx, err)
				return
			}
			r.Count("index_restarts", 1)
			if c.sequential || rng.Intn(2) == 0 {
				c.be.fm.Load().WaitIdle()
				if c.scanIndex() {
					c.session(rng, nQ/2, false)
				}
			}
		default: // plain growth
			c.mutate(rng, "extend", 10+rng.Intn(40), 0)
			if c.sequential {
				c.be.fm.Load().WaitIdle()
			}
		}
	}
	r.Count("matcher_row_fetches", int(c.be.rowFetches.Load()))
	r.Count("matcher_potential_matches_resolved", int(c.be.potential.Load()))
	r.Count("matcher_syncs", int(c.be.matcherSync.Load()))
	if r.WantSample() {
		c.mu.Lock()
		ops := append([]string{}, c.oplog...)
		if len(ops) > 30 {
			ops = append(ops[:30], "...")
		}
		c.mu.Unlock()
		r.Sample(map[string]any{"case": idx, "config": c.desc, "ops": ops, "final_head": c.head().num})
	}
}

func (c *tcase) mode() string {
	switch {
	case c.sequential:
		return "sequential"
	case c.extendOnly:
		return "extend-race"
	}
	return "reorg-race"
}

func (c *tcase) mutateRandom(rng *rand.Rand) {
	k := rng.Intn(10)
	if c.extendOnly {
		k = 0
	}
	switch {
	case k < 4:
		c.mutate(rng, "extend", 1+rng.Intn(25), lagOf(rng))
	case k < 8:
		c.mutate(rng, "reorg", 0, lagOf(rng))
	default:
		c.mutate(rng, "switch", 0, lagOf(rng))
	}
}

func lagOf(rng *rand.Rand) uint64 {
	if rng.Intn(5) == 0 {
		return uint64(1 + rng.Intn(30))
	}
	return 0
}

// mutate performs one chain operation and moves the index target (lag > 0: to an ancestor of
// the head, like an indexer that has not yet seen the newest head event).
func (c *tcase) mutate(rng *rand.Rand, kind string, n int, lag uint64) {
	head := c.head()
	var seg []*mblock
	var viaSetCanonical *mblock
	switch kind {
	case "extend":
		seg = c.m.extend(rng, head, n)
		c.logop("extend %d -> #%d", n, seg[len(seg)-1].num)
	case "reorg":
		d := 1 + rng.Intn(50)
		if rng.Intn(2) == 0 {
			d = 1 + rng.Intn(4)
		}
		if uint64(d) > head.num {
			d = int(head.num)
		}
		if d == 0 {
			return
		}
		fp := head
		for i := 0; i < d; i++ {
			fp = fp.parent
		}
		nl := d - 2 + rng.Intn(8)
		if nl < 1 {
			nl = 1
		}
		seg = c.m.extend(rng, fp, nl)
		c.branches = append(c.branches, head)
		c.logop("reorg depth %d from #%d to new branch of %d -> #%d", d, fp.num, nl, seg[len(seg)-1].num)
		c.r.Count("ops_reorg_depth_"+bucket(d), 1)
	case "switch":
		// back to an abandoned branch whose fork point is at most 50 below the head
		var cand []*mblock
		for _, b := range c.branches {
			f := forkPoint(b, head)
			if b != head && b != f && head.num-f.num <= 50 && b.num-f.num <= 60 && head.num-f.num > 0 {
				cand = append(cand, b)
			}
		}
		if len(cand) == 0 {
			c.mutate(rng, "reorg", 0, lag)
			return
		}
		viaSetCanonical = cand[rng.Intn(len(cand))]
		f := forkPoint(viaSetCanonical, head)
		for x := viaSetCanonical; x != f; x = x.parent {
			seg = append([]*mblock{x}, seg...)
		}
		c.branches = append(c.branches, head)
		c.logop("switch back to abandoned branch #%d (fork point #%d) via SetCanonical", viaSetCanonical.num, f.num)
		c.r.Count("ops_switch", 1)
	}
	// register the views of this operation before it starts
	ov := opViews{}
	for _, b := range seg {
		ov.tips = append(ov.tips, b)
	}
	c.mu.Lock()
	c.ops = append(c.ops, ov)
	c.mu.Unlock()
	c.started.Add(1)
	var err error
	if viaSetCanonical != nil {
		blk := c.be.bc.GetBlockByHash(viaSetCanonical.hash())
		if blk == nil {
			err = fmt.Errorf("abandoned branch tip unknown to the chain")
		} else {
			_, err = c.be.bc.SetCanonical(blk)
		}
	} else {
		blocks := make(types.Blocks, len(seg))
		for i, b := range seg {
			blocks[i] = b.block
		}
		_, err = c.be.bc.InsertChain(blocks)
	}
	newHead := seg[len(seg)-1]
	if got := c.be.bc.CurrentBlock(); err != nil || got.Hash() != newHead.hash() {
		// not this property's business (C38); the model of the canonical chain is lost
		c.r.Inconclusive("case %d: chain operation %q did not produce the expected head: err=%v head=#%d", c.idx, kind, err, got.Number)
		c.failed.Store(true)
		newHead = c.m.byHash[got.Hash()]
	}
	c.mu.Lock()
	c.chains = append(c.chains, newHead)
	c.mu.Unlock()
	c.done.Add(1)
	if lag > 0 {
		c.logop("  (index target set %d blocks behind the head)", lag)
	}
	c.setTarget(lag)
	c.r.Count("ops_"+kind, 1)
}

func forkPoint(a, b *mblock) *mblock {
	for a.num > b.num {
		a = a.parent
	}
	for b.num > a.num {
		b = b.parent
	}
	for a != b {
		a, b = a.parent, b.parent
	}
	return a
}

func bucket(n int) string {
	switch {
	case n <= 1:
		return "1"
	case n <= 4:
		return "2-4"
	case n <= 16:
		return "5-16"
	default:
		return "17+"
	}
}

// ---------------------------------------------------------------- queries

func (c *tcase) randSpec(rng *rand.Rand, head uint64) spec {
	var sp spec
	m := c.m
	// addresses
	switch rng.Intn(6) {
	case 0, 1: // wildcard
	case 2:
		sp.addrs = []common.Address{m.emit[rng.Intn(4)]}
	case 3:
		sp.addrs = []common.Address{m.emit[rng.Intn(4)], m.emit[rng.Intn(4)]}
	case 4:
		sp.addrs = []common.Address{m.emit[rng.Intn(4)], common.BytesToAddress([]byte{0xde, 0xad})}
	case 5:
		sp.addrs = []common.Address{m.emit[0], m.emit[1], m.emit[2], m.emit[3]}
	}
	// topics
	np := rng.Intn(5)
	if rng.Intn(3) == 0 {
		np = 0
	}
	for i := 0; i < np; i++ {
		var alts []common.Hash
		switch rng.Intn(5) {
		case 0, 1: // wildcard position
		case 2:
			alts = []common.Hash{m.topics[rng.Intn(6)]}
		case 3:
			alts = []common.Hash{m.topics[rng.Intn(6)], m.topics[rng.Intn(6)], m.topics[rng.Intn(6)]}
		case 4:
			alts = []common.Hash{m.topics[rng.Intn(6)], common.HexToHash("0xdead")}
		}
		sp.topics = append(sp.topics, alts)
	}
	// range
	h := int64(head)
	switch rng.Intn(12) {
	case 0: // full
		sp.begin, sp.end = 0, rpc.LatestBlockNumber.Int64()
	case 1:
		sp.begin, sp.end = rpc.EarliestBlockNumber.Int64(), rpc.LatestBlockNumber.Int64()
	case 2: // single block
		b := rng.Int63n(h + 1)
		sp.begin, sp.end = b, b
	case 3: // latest only
		sp.begin, sp.end = rpc.LatestBlockNumber.Int64(), rpc.LatestBlockNumber.Int64()
	case 4: // recent blocks up to latest
		sp.begin, sp.end = max64(0, h-rng.Int63n(40)), rpc.LatestBlockNumber.Int64()
	case 5: // reversed
		a := rng.Int63n(h + 1)
		sp.begin, sp.end = a+1+rng.Int63n(5), a
	case 6: // beyond head
		sp.begin, sp.end = rng.Int63n(h+1), h+1+rng.Int63n(5)
	case 7: // up to the head, numeric
		sp.begin, sp.end = rng.Int63n(h+1), h
	default:
		a, b := rng.Int63n(h+1), rng.Int63n(h+1)
		if a > b {
			a, b = b, a
		}
		sp.begin, sp.end = a, b
	}
	return sp
}

func max64(a, b int64) int64 {
	if a > b {
		return a
	}
	return b
}

// match is the reference matcher.
func match(l *types.Log, addrs []common.Address, topics [][]common.Hash) bool {
	if len(addrs) > 0 {
		ok := false
		for _, a := range addrs {
			ok = ok || a == l.Address
		}
		if !ok {
			return false
		}
	}
	if len(topics) > len(l.Topics) {
		return false
	}
	for i, alts := range topics {
		ok := len(alts) == 0
		for _, t := range alts {
			ok = ok || t == l.Topics[i]
		}
		if !ok {
			return false
		}
	}
	return true
}

// reference computes the expected outcome of sp on the canonical view ending at tip:
// errKind "" (logs valid), "invalid" or "future".
func reference(tip *mblock, sp spec) (logs []*types.Log, errKind string) {
	resolve := func(n int64) uint64 {
		switch n {
		case rpc.LatestBlockNumber.Int64():
			return tip.num
		case rpc.EarliestBlockNumber.Int64():
			return 0
		}
		return uint64(n)
	}
	a, b := resolve(sp.begin), resolve(sp.end)
	if a > b {
		return nil, "invalid"
	}
	if b > tip.num {
		return nil, "future"
	}
	x := tip
	for x.num > b {
		x = x.parent
	}
	var blocks []*mblock
	for ; x != nil && x.num >= a; x = x.parent {
		blocks = append(blocks, x)
		if x.num == 0 {
			break
		}
	}
	for i := len(blocks) - 1; i >= 0; i-- {
		for _, l := range blocks[i].logs {
			if match(l, sp.addrs, sp.topics) {
				logs = append(logs, l)
			}
		}
	}
	return logs, ""
}

func errKindOf(err error) string {
	switch {
	case err == nil:
		return ""
	case strings.Contains(err.Error(), "invalid block range params"):
		return "invalid"
	case strings.Contains(err.Error(), "block range extends beyond current head block"):
		return "future"
	}
	if msg := err.Error(); strings.HasSuffix(msg, ": not found") && (strings.Contains(msg, "failed to retrieve log value pointer") || strings.Contains(msg, "failed to retrieve base row group") || strings.Contains(msg, "failed to retrieve filter map")) {
		// an index entry vanished under the running query (reverted / unindexed concurrently)
		return "other:index-entry-not-found"
	}
	return "other:" + err.Error()
}

func diffLogs(got, want []*types.Log) string {
	for i := 0; i < len(got) && i < len(want); i++ {
		g, w := got[i], want[i]
		switch {
		case g.BlockNumber != w.BlockNumber || g.BlockHash != w.BlockHash:
			return fmt.Sprintf("log %d: block #%d %x, expected #%d %x (log index %d vs %d)", i, g.BlockNumber, g.BlockHash.Bytes()[:4], w.BlockNumber, w.BlockHash.Bytes()[:4], g.Index, w.Index)
		case g.Index != w.Index:
			return fmt.Sprintf("log %d: block #%d log index %d, expected %d", i, g.BlockNumber, g.Index, w.Index)
		case g.TxHash != w.TxHash || g.TxIndex != w.TxIndex:
			return fmt.Sprintf("log %d: block #%d log %d tx %x/%d, expected %x/%d", i, g.BlockNumber, g.Index, g.TxHash.Bytes()[:4], g.TxIndex, w.TxHash.Bytes()[:4], w.TxIndex)
		case g.Address != w.Address || !bytes.Equal(g.Data, w.Data) || len(g.Topics) != len(w.Topics):
			return fmt.Sprintf("log %d: block #%d log %d content differs", i, g.BlockNumber, g.Index)
		case g.Removed:
			return fmt.Sprintf("log %d: Removed flag set", i)
		}
		for j := range g.Topics {
			if g.Topics[j] != w.Topics[j] {
				return fmt.Sprintf("log %d: block #%d log %d topic %d differs", i, g.BlockNumber, g.Index, j)
			}
		}
	}
	if len(got) != len(want) {
		k := len(got)
		if len(want) < k {
			k = len(want)
		}
		where := "end"
		if k < len(want) {
			where = fmt.Sprintf("expected next #%d log %d", want[k].BlockNumber, want[k].Index)
		} else if k < len(got) {
			where = fmt.Sprintf("extra #%d log %d", got[k].BlockNumber, got[k].Index)
		}
		return fmt.Sprintf("%d logs returned, %d expected (%s)", len(got), len(want), where)
	}
	return ""
}

// coverage describes how much of the requested numeric range is covered by the index at the
// time of the query (evidence only).
func (c *tcase) coverage(sp spec, head uint64) string {
	init, _, first, after, _, _ := c.be.fm.Load().VerifIndexedRange()
	if !init || after <= first {
		return "unindexed"
	}
	a, b := uint64(0), head
	if sp.begin >= 0 {
		a = uint64(sp.begin)
	} else if sp.begin == rpc.LatestBlockNumber.Int64() {
		a = head
	}
	if sp.end >= 0 {
		b = uint64(sp.end)
	}
	switch {
	case a > b:
		return "n/a"
	case a >= first && b < after:
		return "indexed"
	case b < first || a >= after:
		return "unindexed"
	}
	return "mixed"
}

func (c *tcase) query(sp spec, concurrent bool) *qrec {
	q := &qrec{sp: sp, concurrent: concurrent}
	q.s = c.done.Load()
	q.coverage = c.coverage(sp, c.be.bc.CurrentBlock().Number.Uint64())
	f := c.sys.NewRangeFilter(sp.begin, sp.end, sp.addrs, sp.topics, 0)
	q.logs, q.err = f.Logs(context.Background())
	q.e = c.started.Load()
	return q
}

func (c *tcase) session(rng *rand.Rand, nQ int, concurrent bool) {
	var (
		mu   sync.Mutex
		recs []*qrec
		wg   sync.WaitGroup
	)
	workers := 3
	head := c.head().num
	if !concurrent {
		c.logop("quiescent session: %d queries at head #%d", nQ, head)
		specs := make([]spec, nQ)
		for i := range specs {
			specs[i] = c.randSpec(rng, head)
		}
		for w := 0; w < workers; w++ {
			wg.Add(1)
			go func(w int) {
				defer wg.Done()
				for i := w; i < len(specs); i += workers {
					q := c.query(specs[i], false)
					mu.Lock()
					recs = append(recs, q)
					mu.Unlock()
				}
			}(w)
		}
		wg.Wait()
	} else {
		nMut := 2 + rng.Intn(4)
		c.logop("concurrent session: queries racing with %d chain operations from head #%d", nMut, head)
		stop := make(chan struct{})
		inQuery := make(chan struct{}, 1)
		for w := 0; w < workers; w++ {
			wg.Add(1)
			qrng := rand.New(rand.NewSource(rng.Int63()))
			go func() {
				defer wg.Done()
				for i := 0; i < nQ; i++ {
					select {
					case <-stop:
						if i >= 3 {
							return
						}
					default:
					}
					h := c.head().num
					if qrng.Intn(3) == 0 && h > 10 {
						h -= uint64(qrng.Intn(10)) // ranges that stay valid across shallow reorgs
					}
					select {
					case inQuery <- struct{}{}:
					default:
					}
					q := c.query(c.randSpec(qrng, h), true)
					mu.Lock()
					recs = append(recs, q)
					mu.Unlock()
				}
			}()
		}
		for i := 0; i < nMut && !c.failed.Load(); i++ {
			// start the operation while queries are in flight
			for w := 0; w < 2; w++ {
				select {
				case <-inQuery:
				case <-time.After(20 * time.Millisecond):
				}
			}
			c.mutateRandom(rng)
		}
		close(stop)
		wg.Wait()
	}
	for _, q := range recs {
		c.judge(q)
	}
}

func (c *tcase) judge(q *qrec) {
	r := c.r
	got := errKindOf(q.err)
	// candidate views
	c.mu.Lock()
	tips := []*mblock{c.chains[q.s]}
	for k := q.s; k < q.e && int(k) < len(c.ops); k++ {
		tips = append(tips, c.ops[k].tips...)
	}
	overlap := q.e > q.s
	c.mu.Unlock()
	var firstDiff string
	matched := false
	var want []*types.Log
	for i, tip := range tips {
		logs, ek := reference(tip, q.sp)
		if i == 0 {
			want = logs
		}
		if ek != got {
			if i == 0 {
				firstDiff = fmt.Sprintf("outcome %q, expected %q", got, ek)
			}
			continue
		}
		if ek != "" {
			matched = true
			break
		}
		d := diffLogs(q.logs, logs)
		if d == "" {
			matched = true
			want = logs
			break
		}
		if firstDiff == "" {
			firstDiff = d
		}
	}
	kind := "quiescent"
	if q.concurrent {
		kind = "concurrent"
		if !c.extendOnly {
			// imports that rewrite the canonical index race with the indexer and the query
			kind = "reorg-race"
		}
		r.Count("queries_concurrent", 1)
		if overlap {
			r.Count("queries_concurrent_overlapping_reorg", 1)
		}
	} else {
		r.Count("queries_quiescent", 1)
	}
	switch q.coverage {
	case "indexed":
		r.Count("queries_indexed_path", 1)
	case "mixed", "unindexed":
		r.Count("queries_mixed_or_unindexed_path", 1)
	}
	outcome := got
	if got == "" {
		outcome = "empty"
		if len(q.logs) > 0 {
			outcome = "matches"
		}
		r.Count("matches_compared", len(q.logs))
	}
	if strings.HasPrefix(got, "other:") {
		outcome = "other-error"
	}
	if !matched {
		fp := "mismatch:" + kind
		switch {
		case strings.HasPrefix(got, "other:"):
			ek := kind
			if ek == "reorg-race" {
				ek = "concurrent"
			}
			fp = "unexpected-error:" + ek + ":" + trunc(stripDigits(strings.TrimPrefix(got, "other:")), 48)
		case got != "" || strings.HasPrefix(firstDiff, "outcome"):
			fp = "wrong-outcome:" + kind
		case len(q.logs) < len(want):
			fp = "missing-logs:" + kind
		case len(q.logs) > len(want):
			fp = "extra-logs:" + kind
		default:
			fp = "wrong-logs:" + kind
		}
		if kind == "reorg-race" {
			switch {
			case strings.HasPrefix(got, "other:"):
				// errors keep their own class (see errKindOf)
			case got == "" && c.mixedViews(q, tips):
				// every returned block is exact for a block that was canonical during the query
				fp = "mixed-chain-views:concurrent"
				r.Count("reorg_race_results_mixing_chain_views", 1)
			default:
				// answered from a log index that transiently held another branch (same root
				// cause as index-inconsistent-at-rest; the damage was repaired by a later re-render)
				fp = "query-mismatch:reorg-race"
				r.Count("reorg_race_results_other_mismatch", 1)
			}
		}
		if os.Getenv("C40_DEBUG") != "" && !q.concurrent {
			c.debugMismatch(q, want)
		}
		if c.failed.Load() {
			return // a root cause was already reported for this case (index scan)
		}
		if q.concurrent && !c.sequential {
			// decide after the session whether the index itself is damaged
			transient := fp == "mixed-chain-views:concurrent" || fp == "query-mismatch:reorg-race" || fp == "unexpected-error:concurrent:index-entry-not-found"
			c.pendingMismatch = append(c.pendingMismatch, func() {
				if !transient {
					c.failed.Store(true)
				}
				r.Violation(fp, fmt.Sprintf("case %d (%s): filter %s coverage=%s views=%d: %s", c.idx, c.desc, q.sp, q.coverage, len(tips), firstDiff),
					c.witness(map[string]any{"filter": q.sp.String(), "addresses": q.sp.addrs, "topics": q.sp.topics, "returned": len(q.logs), "expected_first_view": len(want), "err": fmt.Sprint(q.err), "ops_completed_at_start": q.s, "ops_started_at_end": q.e}))
			})
			return
		}
		c.failed.Store(true)
		r.Violation(fp, fmt.Sprintf("case %d (%s): filter %s coverage=%s views=%d: %s", c.idx, c.desc, q.sp, q.coverage, len(tips), firstDiff),
			c.witness(map[string]any{"filter": q.sp.String(), "addresses": q.sp.addrs, "topics": q.sp.topics, "returned": len(q.logs), "expected_first_view": len(want), "err": fmt.Sprint(q.err), "ops_completed_at_start": q.s, "ops_started_at_end": q.e}))
	}
	shape := fmt.Sprintf("a%d/t%s", min(len(q.sp.addrs), 3), topicShape(q.sp.topics))
	r.Eval(fmt.Sprintf("%s/%s/%s/%s/overlap%v", kind, shape, q.coverage, outcome, overlap))
}

func trunc(s string, n int) string {
	if len(s) > n {
		return s[:n]
	}
	return s
}

var _ = filtermaps.DefaultParams

func (c *tcase) debugMismatch(q *qrec, want []*types.Log) {
	init, headIdx, first, after, mf, ma := c.be.fm.Load().VerifIndexedRange()
	fmt.Printf("DEBUG mismatch %s: indexed init=%v headIndexed=%v blocks [%d,%d) maps [%d,%d) head #%d\n", q.sp, init, headIdx, first, after, mf, ma, c.be.bc.CurrentBlock().Number)
	gotPer, wantPer := map[uint64]int{}, map[uint64]int{}
	for _, l := range q.logs {
		gotPer[l.BlockNumber]++
	}
	for _, l := range want {
		wantPer[l.BlockNumber]++
	}
	for n := uint64(0); n <= c.be.bc.CurrentBlock().Number.Uint64(); n++ {
		if gotPer[n] != wantPer[n] {
			p, err := rawdb.ReadBlockLvPointer(c.be.db, n)
			p2, _ := rawdb.ReadBlockLvPointer(c.be.db, n+1)
			fmt.Printf("   block %d: got %d want %d  lvPointer=%d next=%d err=%v canonical=%x\n", n, gotPer[n], wantPer[n], p, p2, err, c.be.bc.GetCanonicalHash(n).Bytes()[:4])
		}
	}
	if !c.dumped {
		c.dumped = true
		vals := func(b *mblock) int {
			v := 1
			for _, l := range b.logs {
				v += 1 + len(l.Topics)
			}
			return v
		}
		cur := chainTo(c.chains[len(c.chains)-1])
		var prev []*mblock
		if len(c.chains) > 1 {
			prev = chainTo(c.chains[len(c.chains)-2])
		}
		for n := uint64(1); n < uint64(len(cur)); n++ {
			p, _ := rawdb.ReadBlockLvPointer(c.be.db, n)
			p2, _ := rawdb.ReadBlockLvPointer(c.be.db, n+1)
			pv := -1
			if n < uint64(len(prev)) {
				pv = vals(prev[n])
			}
			fmt.Printf("   PTR block %d: db delta=%d  current-branch values=%d  previous-branch values=%d\n", n, int64(p2)-int64(p), vals(cur[n]), pv)
		}
	}
	for i := 0; i < 2; i++ {
		f := c.sys.NewRangeFilter(q.sp.begin, q.sp.end, q.sp.addrs, q.sp.topics, 0)
		logs, err := f.Logs(context.Background())
		fmt.Printf("   re-query %d: %d logs err=%v (want %d)\n", i, len(logs), err, len(want))
	}
}

// scanIndex is called with the indexer idle and the chain at rest: the log value pointers of the
// indexed blocks must describe the canonical blocks (number of log values of block n <= pointer
// distance <= values + padding at map boundaries). Returns false if the index is inconsistent.
func (c *tcase) scanIndex() bool {
	if c.failed.Load() {
		return false
	}
	fm := c.be.fm.Load()
	init, _, first, after, _, _ := fm.VerifIndexedRange()
	ok := true
	if init && after > first && first > 0 && fm.VerifTailPartialEpoch() == 0 {
		// the first indexed block must start inside the indexed maps, otherwise its first log
		// values lie in an unindexed map while the range claims the whole block
		_, _, _, _, mapsFirst, _ := fm.VerifIndexedRange()
		if p, err := rawdb.ReadBlockLvPointer(c.be.db, first); err == nil && p < uint64(mapsFirst)*uint64(c.valuesPerMap) {
			c.failed.Store(true)
			c.r.Violation("index-range-starts-inside-unindexed-block", fmt.Sprintf("case %d (%s): indexer idle: indexed blocks [%d,%d) but block %d starts at log value %d, before the first indexed map %d (log value %d): the beginning of the block is not indexed", c.idx, c.desc, first, after, first, p, mapsFirst, uint64(mapsFirst)*uint64(c.valuesPerMap)), c.witness(nil))
			return false
		}
	}
	if init && after > first {
		canon := chainTo(c.head())
		var bad []string
		for n := first; n+1 < after && n+1 < uint64(len(canon)); n++ {
			p, err1 := rawdb.ReadBlockLvPointer(c.be.db, n)
			p2, err2 := rawdb.ReadBlockLvPointer(c.be.db, n+1)
			if err1 != nil || err2 != nil {
				bad = append(bad, fmt.Sprintf("#%d: pointer missing", n))
				continue
			}
			vals := 1
			for _, l := range canon[n].logs {
				vals += 1 + len(l.Topics)
			}
			if n == 0 {
				vals = 0
			}
			delta := int(p2) - int(p)
			if delta < vals || delta > vals+4*(vals/c.valuesPerMap+2) {
				bad = append(bad, fmt.Sprintf("#%d: %d log values indexed, canonical block has %d", n, delta, vals))
			}
			c.r.Count("index_blocks_scanned", 1)
		}
		if len(bad) > 0 {
			ok = false
			fp := "index-inconsistent-at-rest"
			switch {
			case c.extendOnly:
				fp += ":after-extensions-racing-with-indexer"
			case !c.sequential:
				fp += ":after-operations-racing-with-indexer"
			}
			c.failed.Store(true)
			if len(bad) > 12 {
				bad = append(bad[:12], fmt.Sprintf("... %d more", len(bad)-12))
			}
			c.r.Violation(fp, fmt.Sprintf("case %d (%s): indexer idle, indexed blocks [%d,%d), head #%d: the index does not describe the canonical chain: %v", c.idx, c.desc, first, after, c.head().num, bad), c.witness(map[string]any{"inconsistent_blocks": bad}))
		}
	}
	// mismatches observed during the racing session that are not explained by a damaged index
	if ok {
		for _, f := range c.pendingMismatch {
			f()
		}
	} else {
		c.r.Count("concurrent_mismatches_explained_by_damaged_index", len(c.pendingMismatch))
	}
	c.pendingMismatch = nil
	return ok
}

// mixedViews reports whether a result that no single canonical view explains is at least a
// concatenation of per-block results that are each exact for a block that was canonical at some
// time during the query, in ascending block order (the signature of ChainView confusing two
// branches while the number->hash index is being rewritten).
func (c *tcase) mixedViews(q *qrec, tips []*mblock) bool {
	if len(q.logs) == 0 {
		return false
	}
	i := 0
	last := int64(-1)
	for i < len(q.logs) {
		b := c.m.byHash[q.logs[i].BlockHash]
		if b == nil || int64(b.num) <= last {
			return false
		}
		canonical := false
		for _, t := range tips {
			x := t
			for x != nil && x.num > b.num {
				x = x.parent
			}
			if x == b {
				canonical = true
				break
			}
		}
		if !canonical {
			return false
		}
		var want []*types.Log
		for _, l := range b.logs {
			if match(l, q.sp.addrs, q.sp.topics) {
				want = append(want, l)
			}
		}
		if i+len(want) > len(q.logs) || len(want) == 0 || diffLogs(q.logs[i:i+len(want)], want) != "" {
			return false
		}
		i += len(want)
		last = int64(b.num)
	}
	return true
}

func stripDigits(s string) string {
	out := make([]rune, 0, len(s))
	for _, r := range s {
		if r < '0' || r > '9' {
			out = append(out, r)
		}
	}
	return string(out)
}
