package main

// Reference ABI codec written from the Solidity "Contract ABI Specification" (formal
// specification of the encoding): a generic type tree T, a generic value tree V, enc(T, V)
// with head/tail layout, and a decoder that follows offsets relative to the start of the
// enclosing tuple/array and checks every read against the bounds of the input.
//
// Nothing here uses accounts/abi.

import (
	"bytes"
	"errors"
	"fmt"
	"math/big"
	"strings"
)

type kind int

const (
	kUint kind = iota
	kInt
	kBool
	kAddress
	kFixedBytes
	kBytes
	kString
	kFunction
	kArray // T[k]
	kSlice // T[]
	kTuple
)

type T struct {
	k      kind
	n      int // bits (uint/int), bytes (bytesN), length (array)
	elem   *T
	fields []*T
}

// V is a value: ints in i, bool in b, byte-like things (address, bytesN, bytes, string,
// function) in raw, composite things in elems.
type V struct {
	i     *big.Int
	b     bool
	raw   []byte
	elems []*V
}

func (t *T) String() string {
	switch t.k {
	case kUint:
		return fmt.Sprintf("uint%d", t.n)
	case kInt:
		return fmt.Sprintf("int%d", t.n)
	case kBool:
		return "bool"
	case kAddress:
		return "address"
	case kFixedBytes:
		return fmt.Sprintf("bytes%d", t.n)
	case kBytes:
		return "bytes"
	case kString:
		return "string"
	case kFunction:
		return "function"
	case kArray:
		return fmt.Sprintf("%s[%d]", t.elem, t.n)
	case kSlice:
		return t.elem.String() + "[]"
	default:
		var s []string
		for _, f := range t.fields {
			s = append(s, f.String())
		}
		return "(" + strings.Join(s, ",") + ")"
	}
}

// skeleton is the type with all sizes removed (shape signature).
func (t *T) skeleton() string {
	switch t.k {
	case kUint:
		if t.n == 8 || t.n == 16 || t.n == 32 || t.n == 64 {
			return "un"
		}
		return "uB"
	case kInt:
		if t.n == 8 || t.n == 16 || t.n == 32 || t.n == 64 {
			return "in"
		}
		return "iB"
	case kBool:
		return "b"
	case kAddress:
		return "a"
	case kFixedBytes:
		return "fb"
	case kBytes:
		return "by"
	case kString:
		return "s"
	case kFunction:
		return "fn"
	case kArray:
		return t.elem.skeleton() + "[k]"
	case kSlice:
		return t.elem.skeleton() + "[]"
	default:
		var s []string
		for _, f := range t.fields {
			s = append(s, f.skeleton())
		}
		return "(" + strings.Join(s, ",") + ")"
	}
}

func (t *T) depth() int {
	switch t.k {
	case kArray, kSlice:
		return 1 + t.elem.depth()
	case kTuple:
		d := 0
		for _, f := range t.fields {
			if x := f.depth(); x > d {
				d = x
			}
		}
		return 1 + d
	}
	return 0
}

// dynamic: bytes, string, T[], T[k] for dynamic T, tuples with a dynamic component.
func (t *T) dynamic() bool {
	switch t.k {
	case kBytes, kString, kSlice:
		return true
	case kArray:
		return t.elem.dynamic()
	case kTuple:
		for _, f := range t.fields {
			if f.dynamic() {
				return true
			}
		}
	}
	return false
}

// headSize: bytes the type occupies in the head of its enclosing tuple.
func (t *T) headSize() int {
	if t.dynamic() {
		return 32
	}
	switch t.k {
	case kArray:
		return t.n * t.elem.headSize()
	case kTuple:
		s := 0
		for _, f := range t.fields {
			s += f.headSize()
		}
		return s
	}
	return 32
}

// ---------- encoder ----------

type mark struct {
	pos  int
	what string // "offset", "length", "leaf:<kind>"
	t    *T
}

func shift(ms []mark, by int) []mark {
	out := make([]mark, len(ms))
	for i, m := range ms {
		m.pos += by
		out[i] = m
	}
	return out
}

var two256 = new(big.Int).Lsh(big.NewInt(1), 256)

func word(x *big.Int) []byte {
	y := new(big.Int).Set(x)
	if y.Sign() < 0 {
		y.Add(y, two256) // two's complement
	}
	return y.FillBytes(make([]byte, 32))
}

func padRight(b []byte) []byte {
	n := (len(b) + 31) / 32 * 32
	out := make([]byte, n)
	copy(out, b)
	return out
}

// encTuple: enc(X) = head(X1)...head(Xk) tail(X1)...tail(Xk).
func encTuple(ts []*T, vs []*V) ([]byte, []mark) {
	headLen := 0
	for _, t := range ts {
		headLen += t.headSize()
	}
	var head, tail []byte
	var marks []mark
	for i, t := range ts {
		e, ms := enc(t, vs[i])
		if t.dynamic() {
			marks = append(marks, mark{len(head), "offset", t})
			head = append(head, word(big.NewInt(int64(headLen+len(tail))))...)
			marks = append(marks, shift(ms, headLen+len(tail))...)
			tail = append(tail, e...)
		} else {
			marks = append(marks, shift(ms, len(head))...)
			head = append(head, e...)
		}
	}
	return append(head, tail...), marks
}

func repeat(t *T, n int) []*T {
	ts := make([]*T, n)
	for i := range ts {
		ts[i] = t
	}
	return ts
}

func enc(t *T, v *V) ([]byte, []mark) {
	switch t.k {
	case kUint, kInt:
		return word(v.i), []mark{{0, "leaf:int", t}}
	case kBool:
		w := make([]byte, 32)
		if v.b {
			w[31] = 1
		}
		return w, []mark{{0, "leaf:bool", t}}
	case kAddress:
		w := make([]byte, 32)
		copy(w[12:], v.raw)
		return w, []mark{{0, "leaf:address", t}}
	case kFixedBytes, kFunction:
		w := make([]byte, 32)
		copy(w, v.raw)
		return w, []mark{{0, "leaf:fixedbytes", t}}
	case kBytes, kString:
		return append(word(big.NewInt(int64(len(v.raw)))), padRight(v.raw)...), []mark{{0, "length", t}}
	case kArray:
		return encTuple(repeat(t.elem, t.n), v.elems)
	case kSlice:
		e, ms := encTuple(repeat(t.elem, len(v.elems)), v.elems)
		return append(word(big.NewInt(int64(len(v.elems)))), e...), append([]mark{{0, "length", t}}, shift(ms, 32)...)
	default:
		return encTuple(t.fields, v.elems)
	}
}

// ---------- decoder ----------

var errOOB = errors.New("read outside the input")

// dirty records a leaf whose padding is not canonical.
type dirty struct {
	kind string
	path string
}

type decoder struct {
	dirty []dirty
	reads int
	// trunc64Array makes the pointer of a dynamic fixed-size array T[k] be read modulo 2^64
	// (used only to classify a disagreement, never to accept)
	trunc64Array bool
	truncated    int
}

func (d *decoder) wordAt(base []byte, pos int) ([]byte, error) {
	if pos < 0 || pos+32 > len(base) || pos+32 < pos {
		return nil, errOOB
	}
	d.reads++
	return base[pos : pos+32], nil
}

// offsetAt reads a word as an unbounded unsigned integer that must address base.
func (d *decoder) offsetAt(base []byte, pos int) (int, error) {
	w, err := d.wordAt(base, pos)
	if err != nil {
		return 0, err
	}
	x := new(big.Int).SetBytes(w)
	if !x.IsInt64() || x.Int64() > int64(len(base)) {
		return 0, errOOB
	}
	return int(x.Int64()), nil
}

func (d *decoder) decTuple(ts []*T, base []byte, pos int, path string) ([]*V, error) {
	vs := make([]*V, len(ts))
	for i, t := range ts {
		v, err := d.dec(t, base, pos, fmt.Sprintf("%s.%d", path, i))
		if err != nil {
			return nil, err
		}
		vs[i] = v
		pos += t.headSize()
	}
	return vs, nil
}

// dec decodes the component of type t whose head slot is at base[pos:].
func (d *decoder) dec(t *T, base []byte, pos int, path string) (*V, error) {
	if t.dynamic() {
		off, err := d.offsetAt(base, pos)
		if err != nil && d.trunc64Array && t.k == kArray && pos+32 <= len(base) {
			if x := new(big.Int).SetBytes(base[pos+24 : pos+32]); x.IsInt64() && x.Int64() <= int64(len(base)) {
				off, err = int(x.Int64()), nil
				d.truncated++
			}
		}
		if err != nil {
			return nil, err
		}
		switch t.k {
		case kBytes, kString:
			n, err := d.offsetAt(base[off:], 0) // length must fit as well
			if err != nil {
				return nil, err
			}
			if off+32+n > len(base) || off+32+n < 0 {
				return nil, errOOB
			}
			return &V{raw: append([]byte{}, base[off+32:off+32+n]...)}, nil
		case kSlice:
			n, err := d.offsetAt(base[off:], 0)
			if err != nil {
				return nil, err
			}
			inner := base[off+32:]
			if hs := t.elem.headSize(); hs > 0 && n > len(inner)/hs {
				return nil, errOOB
			}
			es, err := d.decTuple(repeat(t.elem, n), inner, 0, path)
			if err != nil {
				return nil, err
			}
			return &V{elems: es}, nil
		case kArray:
			es, err := d.decTuple(repeat(t.elem, t.n), base[off:], 0, path)
			if err != nil {
				return nil, err
			}
			return &V{elems: es}, nil
		default:
			es, err := d.decTuple(t.fields, base[off:], 0, path)
			if err != nil {
				return nil, err
			}
			return &V{elems: es}, nil
		}
	}
	switch t.k {
	case kArray:
		es, err := d.decTuple(repeat(t.elem, t.n), base, pos, path)
		if err != nil {
			return nil, err
		}
		return &V{elems: es}, nil
	case kTuple:
		es, err := d.decTuple(t.fields, base, pos, path)
		if err != nil {
			return nil, err
		}
		return &V{elems: es}, nil
	}
	w, err := d.wordAt(base, pos)
	if err != nil {
		return nil, err
	}
	zero := func(b []byte) bool { return len(bytes.Trim(b, "\x00")) == 0 }
	switch t.k {
	case kUint:
		x := new(big.Int).SetBytes(w)
		if x.BitLen() > t.n {
			d.dirty = append(d.dirty, dirty{"uint", path})
		}
		return &V{i: x}, nil // lenient reading: the whole word
	case kInt:
		x := new(big.Int).SetBytes(w)
		if x.Bit(255) == 1 {
			x.Sub(x, two256)
		}
		lim := new(big.Int).Lsh(big.NewInt(1), uint(t.n-1))
		if x.Cmp(lim) >= 0 || x.Cmp(new(big.Int).Neg(lim)) < 0 {
			d.dirty = append(d.dirty, dirty{"int", path})
		}
		return &V{i: x}, nil
	case kBool:
		if !zero(w[:31]) || w[31] > 1 {
			d.dirty = append(d.dirty, dirty{"bool", path})
		}
		return &V{b: !zero(w)}, nil
	case kAddress:
		if !zero(w[:12]) {
			d.dirty = append(d.dirty, dirty{"address", path})
		}
		return &V{raw: append([]byte{}, w[12:]...)}, nil
	case kFixedBytes:
		if !zero(w[t.n:]) {
			d.dirty = append(d.dirty, dirty{"fixedbytes", path})
		}
		return &V{raw: append([]byte{}, w[:t.n]...)}, nil
	case kFunction:
		if !zero(w[24:]) {
			d.dirty = append(d.dirty, dirty{"function", path})
		}
		return &V{raw: append([]byte{}, w[:24]...)}, nil
	}
	return nil, fmt.Errorf("bad type")
}

// ---------- value comparison ----------

// equalV compares two values of type t; returns "" or the path of the first difference.
func equalV(t *T, a, b *V, path string) string {
	switch t.k {
	case kUint, kInt:
		if a.i == nil || b.i == nil || a.i.Cmp(b.i) != 0 {
			return fmt.Sprintf("%s (%s): %v != %v", path, t, a.i, b.i)
		}
	case kBool:
		if a.b != b.b {
			return fmt.Sprintf("%s (bool): %v != %v", path, a.b, b.b)
		}
	case kAddress, kFixedBytes, kBytes, kString, kFunction:
		if !bytes.Equal(a.raw, b.raw) {
			return fmt.Sprintf("%s (%s): %x != %x", path, t, a.raw, b.raw)
		}
	case kArray, kSlice:
		if len(a.elems) != len(b.elems) {
			return fmt.Sprintf("%s (%s): length %d != %d", path, t, len(a.elems), len(b.elems))
		}
		for i := range a.elems {
			if d := equalV(t.elem, a.elems[i], b.elems[i], fmt.Sprintf("%s.%d", path, i)); d != "" {
				return d
			}
		}
	default:
		if len(a.elems) != len(b.elems) {
			return path + ": tuple arity"
		}
		for i := range a.elems {
			if d := equalV(t.fields[i], a.elems[i], b.elems[i], fmt.Sprintf("%s.%d", path, i)); d != "" {
				return d
			}
		}
	}
	return ""
}

// equalLenient is equalV except that integer leaves may also agree after truncation to the
// type's width (the alternative lenient reading of dirty high bits).
func equalLenient(t *T, ref, got *V, path string) string {
	switch t.k {
	case kUint, kInt:
		if ref.i.Cmp(got.i) == 0 {
			return ""
		}
		mask := new(big.Int).Sub(new(big.Int).Lsh(big.NewInt(1), uint(t.n)), big.NewInt(1))
		r := new(big.Int).And(new(big.Int).Add(ref.i, two256), mask)
		g := new(big.Int).And(new(big.Int).Add(got.i, two256), mask)
		if r.Cmp(g) == 0 && (got.i.BitLen() <= t.n) {
			return ""
		}
		return fmt.Sprintf("%s (%s): %v != %v", path, t, ref.i, got.i)
	case kArray, kSlice:
		if len(ref.elems) != len(got.elems) {
			return fmt.Sprintf("%s (%s): length %d != %d", path, t, len(ref.elems), len(got.elems))
		}
		for i := range ref.elems {
			if d := equalLenient(t.elem, ref.elems[i], got.elems[i], fmt.Sprintf("%s.%d", path, i)); d != "" {
				return d
			}
		}
		return ""
	case kTuple:
		for i := range ref.elems {
			if d := equalLenient(t.fields[i], ref.elems[i], got.elems[i], fmt.Sprintf("%s.%d", path, i)); d != "" {
				return d
			}
		}
		return ""
	}
	return equalV(t, ref, got, path)
}
