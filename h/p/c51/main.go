// C51: accounts/abi Pack/Unpack against an independent reference ABI codec.
//
// Phase "values": random argument lists (1-5 arguments; uint/int 8..256, bool, address,
// bytes1..32, bytes, string, function, T[k] (k<=3), T[], tuples; nesting depth <= 3) with
// boundary-biased values. Go values are built by reflection over the types accounts/abi
// itself declares (tuples are reflect.StructOf structs). Judged:
//
//	Pack(v) == reference enc(v);  Unpack(Pack(v)) == v;  reference dec(Pack(v)) == v.
//
// Phase "bytes": valid encodings with mutated offset/length words, dirty padding, truncation,
// extension, byte flips, and random strings. Judged (DESIGN C51, section 7):
//   - Unpack never panics;
//   - Unpack may fail on anything that is not a canonical encoding (never a refutation);
//   - if Unpack succeeds, the reference decoder (every read bounds-checked, offsets relative
//     to the enclosing tuple) must accept as well - otherwise offsets/lengths outside the
//     input were accepted - and the values must agree; leaves with dirty padding are
//     classified per kind (lenient reading: whole word or truncated), not failed;
//   - the decoded values re-Pack and re-Unpack to the same values.
package main

import (
	"bytes"
	"fmt"
	"math/big"
	"math/rand"
	"reflect"
	"sort"
	"strings"

	"github.com/ethereum/go-ethereum/accounts/abi"
	"github.com/ethereum/go-ethereum/common"

	"verif/lib/vrt"
)

func main() { vrt.Main("C51", run) }

// ---------- type and value generation ----------

func genLeaf(rng *rand.Rand) *T {
	switch rng.Intn(12) {
	case 0, 1:
		return &T{k: kUint, n: 8 * (1 + rng.Intn(32))}
	case 2:
		return &T{k: kUint, n: []int{8, 16, 32, 64, 256}[rng.Intn(5)]}
	case 3, 4:
		return &T{k: kInt, n: 8 * (1 + rng.Intn(32))}
	case 5:
		return &T{k: kInt, n: []int{8, 16, 32, 64, 256}[rng.Intn(5)]}
	case 6:
		return &T{k: kBool}
	case 7:
		return &T{k: kAddress}
	case 8:
		return &T{k: kFixedBytes, n: 1 + rng.Intn(32)}
	case 9:
		return &T{k: kBytes}
	case 10:
		return &T{k: kString}
	default:
		if rng.Intn(3) == 0 {
			return &T{k: kFunction}
		}
		return &T{k: kBytes}
	}
}

func genType(rng *rand.Rand, depth int) *T {
	if depth == 0 || rng.Intn(3) == 0 {
		return genLeaf(rng)
	}
	switch rng.Intn(3) {
	case 0:
		return &T{k: kArray, n: 1 + rng.Intn(3), elem: genType(rng, depth-1)}
	case 1:
		return &T{k: kSlice, elem: genType(rng, depth-1)}
	default:
		t := &T{k: kTuple}
		for i := 0; i < 1+rng.Intn(4); i++ {
			t.fields = append(t.fields, genType(rng, depth-1))
		}
		return t
	}
}

func genBytes(rng *rand.Rand, n int) []byte {
	b := make([]byte, n)
	switch rng.Intn(4) {
	case 0: // zeros
	case 1:
		for i := range b {
			b[i] = 0xff
		}
	default:
		rng.Read(b)
	}
	return b
}

func genValue(rng *rand.Rand, t *T) *V {
	switch t.k {
	case kUint:
		max := new(big.Int).Sub(new(big.Int).Lsh(big.NewInt(1), uint(t.n)), big.NewInt(1))
		switch rng.Intn(6) {
		case 0:
			return &V{i: new(big.Int)}
		case 1:
			return &V{i: max}
		case 2:
			return &V{i: big.NewInt(1)}
		case 3:
			return &V{i: new(big.Int).Rsh(max, 1)} // 2^(n-1)-1
		}
		return &V{i: new(big.Int).Rand(rng, new(big.Int).Add(max, big.NewInt(1)))}
	case kInt:
		lim := new(big.Int).Lsh(big.NewInt(1), uint(t.n-1)) // 2^(n-1)
		switch rng.Intn(7) {
		case 0:
			return &V{i: new(big.Int)}
		case 1:
			return &V{i: new(big.Int).Neg(lim)} // min
		case 2:
			return &V{i: new(big.Int).Sub(lim, big.NewInt(1))} // max
		case 3:
			return &V{i: big.NewInt(-1)}
		case 4:
			return &V{i: big.NewInt(1)}
		}
		x := new(big.Int).Rand(rng, new(big.Int).Lsh(lim, 1))
		return &V{i: x.Sub(x, lim)}
	case kBool:
		return &V{b: rng.Intn(2) == 0}
	case kAddress:
		return &V{raw: genBytes(rng, 20)}
	case kFixedBytes:
		return &V{raw: genBytes(rng, t.n)}
	case kFunction:
		return &V{raw: genBytes(rng, 24)}
	case kBytes, kString:
		n := []int{0, 0, 1, 31, 32, 33, 64, 65}[rng.Intn(8)]
		if rng.Intn(4) == 0 {
			n = rng.Intn(100)
		}
		b := genBytes(rng, n)
		if t.k == kString && rng.Intn(2) == 0 {
			for i := range b {
				b[i] = byte('a' + rng.Intn(26))
			}
		}
		return &V{raw: b}
	case kArray:
		v := &V{elems: make([]*V, t.n)}
		for i := range v.elems {
			v.elems[i] = genValue(rng, t.elem)
		}
		return v
	case kSlice:
		n := []int{0, 0, 1, 2, 3}[rng.Intn(5)]
		v := &V{elems: make([]*V, n)}
		for i := range v.elems {
			v.elems[i] = genValue(rng, t.elem)
		}
		return v
	default:
		v := &V{elems: make([]*V, len(t.fields))}
		for i := range v.elems {
			v.elems[i] = genValue(rng, t.fields[i])
		}
		return v
	}
}

// ---------- bridge to accounts/abi ----------

// marshaling returns the JSON-ABI type string and tuple components of t.
func marshaling(t *T) (string, []abi.ArgumentMarshaling) {
	switch t.k {
	case kArray:
		s, c := marshaling(t.elem)
		return fmt.Sprintf("%s[%d]", s, t.n), c
	case kSlice:
		s, c := marshaling(t.elem)
		return s + "[]", c
	case kTuple:
		var comps []abi.ArgumentMarshaling
		for i, f := range t.fields {
			s, c := marshaling(f)
			comps = append(comps, abi.ArgumentMarshaling{Name: fmt.Sprintf("f%d", i), Type: s, Components: c})
		}
		return "tuple", comps
	}
	return t.String(), nil
}

func native(n int) bool { return n == 8 || n == 16 || n == 32 || n == 64 }

// toGo builds the Go value accounts/abi expects for (at, v).
func toGo(at *abi.Type, t *T, v *V) reflect.Value {
	gt := at.GetType()
	switch t.k {
	case kUint:
		if native(t.n) {
			x := reflect.New(gt).Elem()
			x.SetUint(v.i.Uint64())
			return x
		}
		return reflect.ValueOf(new(big.Int).Set(v.i))
	case kInt:
		if native(t.n) {
			x := reflect.New(gt).Elem()
			x.SetInt(v.i.Int64())
			return x
		}
		return reflect.ValueOf(new(big.Int).Set(v.i))
	case kBool:
		return reflect.ValueOf(v.b)
	case kString:
		return reflect.ValueOf(string(v.raw))
	case kBytes:
		return reflect.ValueOf(append([]byte{}, v.raw...))
	case kAddress:
		return reflect.ValueOf(common.BytesToAddress(v.raw))
	case kFixedBytes, kFunction:
		x := reflect.New(gt).Elem()
		reflect.Copy(x, reflect.ValueOf(v.raw))
		return x
	case kArray:
		x := reflect.New(gt).Elem()
		for i, e := range v.elems {
			x.Index(i).Set(toGo(at.Elem, t.elem, e))
		}
		return x
	case kSlice:
		x := reflect.MakeSlice(gt, len(v.elems), len(v.elems))
		for i, e := range v.elems {
			x.Index(i).Set(toGo(at.Elem, t.elem, e))
		}
		return x
	default:
		x := reflect.New(gt).Elem()
		for i, e := range v.elems {
			x.Field(i).Set(toGo(at.TupleElems[i], t.fields[i], e))
		}
		return x
	}
}

// fromGo converts a value returned by Unpack into the value tree; an error means the Go
// value does not have the shape the ABI type promises.
func fromGo(t *T, x reflect.Value) (v *V, err error) {
	defer func() {
		if e := recover(); e != nil {
			err = fmt.Errorf("unexpected Go value %v for %s: %v", x.Type(), t, e)
		}
	}()
	if x.Kind() == reflect.Interface {
		x = x.Elem()
	}
	switch t.k {
	case kUint:
		if native(t.n) {
			if x.Type().Bits() != t.n {
				return nil, fmt.Errorf("%s decoded into %v", t, x.Type())
			}
			return &V{i: new(big.Int).SetUint64(x.Uint())}, nil
		}
		return &V{i: new(big.Int).Set(x.Interface().(*big.Int))}, nil
	case kInt:
		if native(t.n) {
			if x.Type().Bits() != t.n {
				return nil, fmt.Errorf("%s decoded into %v", t, x.Type())
			}
			return &V{i: big.NewInt(x.Int())}, nil
		}
		return &V{i: new(big.Int).Set(x.Interface().(*big.Int))}, nil
	case kBool:
		return &V{b: x.Bool()}, nil
	case kString:
		return &V{raw: []byte(x.String())}, nil
	case kBytes:
		return &V{raw: append([]byte{}, x.Bytes()...)}, nil
	case kAddress:
		a := x.Interface().(common.Address)
		return &V{raw: a[:]}, nil
	case kFixedBytes, kFunction:
		b := make([]byte, x.Len())
		reflect.Copy(reflect.ValueOf(b), x)
		want := t.n
		if t.k == kFunction {
			want = 24
		}
		if len(b) != want {
			return nil, fmt.Errorf("%s decoded into %d bytes", t, len(b))
		}
		return &V{raw: b}, nil
	case kArray, kSlice:
		if t.k == kArray && x.Len() != t.n {
			return nil, fmt.Errorf("%s decoded into %d elements", t, x.Len())
		}
		v := &V{elems: make([]*V, x.Len())}
		for i := range v.elems {
			if v.elems[i], err = fromGo(t.elem, x.Index(i)); err != nil {
				return nil, err
			}
		}
		return v, nil
	default:
		if x.NumField() != len(t.fields) {
			return nil, fmt.Errorf("%s decoded into %d fields", t, x.NumField())
		}
		v := &V{elems: make([]*V, len(t.fields))}
		for i := range v.elems {
			if v.elems[i], err = fromGo(t.fields[i], x.Field(i)); err != nil {
				return nil, err
			}
		}
		return v, nil
	}
}

type sigT struct {
	ts   []*T
	args abi.Arguments
}

func (s *sigT) String() string {
	var p []string
	for _, t := range s.ts {
		p = append(p, t.String())
	}
	return strings.Join(p, ",")
}
func (s *sigT) skeleton() string {
	var p []string
	for _, t := range s.ts {
		p = append(p, t.skeleton())
	}
	return strings.Join(p, ",")
}

func genSig(rng *rand.Rand) (*sigT, error) {
	s := &sigT{}
	n := 1 + rng.Intn(5)
	if rng.Intn(3) == 0 {
		n = 1
	}
	for i := 0; i < n; i++ {
		t := genType(rng, rng.Intn(4))
		ts, comps := marshaling(t)
		at, err := abi.NewType(ts, "", comps)
		if err != nil {
			return nil, fmt.Errorf("NewType(%s): %v", ts, err)
		}
		s.ts = append(s.ts, t)
		s.args = append(s.args, abi.Argument{Name: fmt.Sprintf("a%d", i), Type: at})
	}
	return s, nil
}

func (s *sigT) goArgs(vs []*V) []any {
	out := make([]any, len(vs))
	for i := range vs {
		out[i] = toGo(&s.args[i].Type, s.ts[i], vs[i]).Interface()
	}
	return out
}

func (s *sigT) fromGoArgs(xs []any) ([]*V, error) {
	if len(xs) != len(s.ts) {
		return nil, fmt.Errorf("Unpack returned %d values for %d arguments", len(xs), len(s.ts))
	}
	out := make([]*V, len(xs))
	for i := range xs {
		v, err := fromGo(s.ts[i], reflect.ValueOf(xs[i]))
		if err != nil {
			return nil, err
		}
		out[i] = v
	}
	return out, nil
}

func (s *sigT) equal(a, b []*V, lenient bool) string {
	for i := range s.ts {
		var d string
		if lenient {
			d = equalLenient(s.ts[i], a[i], b[i], fmt.Sprintf("arg%d", i))
		} else {
			d = equalV(s.ts[i], a[i], b[i], fmt.Sprintf("arg%d", i))
		}
		if d != "" {
			return d
		}
	}
	return ""
}

// features of an argument list for fingerprints / signatures
func (s *sigT) features() string {
	f := map[string]bool{}
	var walk func(t *T, inDyn bool)
	walk = func(t *T, under bool) {
		switch t.k {
		case kArray:
			if t.elem.dynamic() {
				f["dynarray"] = true
			} else {
				f["statarray"] = true
			}
			walk(t.elem, true)
		case kSlice:
			f["slice"] = true
			walk(t.elem, true)
		case kTuple:
			if t.dynamic() {
				f["dyntuple"] = true
			} else {
				f["stattuple"] = true
			}
			for _, x := range t.fields {
				walk(x, true)
			}
		case kInt:
			f["int"] = true
		case kBytes, kString:
			f["bytes"] = true
		}
	}
	for _, t := range s.ts {
		walk(t, false)
	}
	var ks []string
	for k := range f {
		ks = append(ks, k)
	}
	sort.Strings(ks)
	return strings.Join(ks, "+")
}

// ---------- phase 1: values ----------

func valuesCase(r *vrt.Run, i int) {
	rng := r.Rand("types", i)
	s, err := genSig(rng)
	if err != nil {
		r.Violation("newtype-rejects", err.Error(), map[string]any{"case": i})
		return
	}
	ts := s.String()
	nv := r.N(5, 10)
	for j := 0; j < nv; j++ {
		vs := make([]*V, len(s.ts))
		for k := range vs {
			vs[k] = genValue(rng, s.ts[k])
		}
		ref, _ := encTuple(s.ts, vs)
		w := map[string]any{"case": i, "value": j, "types": ts, "reference_encoding": vrt.Hex(ref)}
		r.Case("values %d/%d (%s)", i, j, ts)
		var packed []byte
		if r.Guard("pack", w, func() { packed, err = s.args.Pack(s.goArgs(vs)...) }) {
			return
		}
		if err != nil {
			r.Violation("pack-error:"+s.features(), fmt.Sprintf("Pack(%s) failed: %v", ts, err), w)
			return
		}
		w["packed"] = vrt.Hex(packed)
		if !bytes.Equal(packed, ref) {
			r.Violation("pack-vs-spec:"+s.features(), fmt.Sprintf("Pack(%s) differs from the specification encoding at byte %d", ts, firstDiff(packed, ref)), w)
			return
		}
		var out []any
		if r.Guard("unpack", w, func() { out, err = s.args.Unpack(packed) }) {
			return
		}
		if err != nil {
			r.Violation("roundtrip-unpack-error:"+s.features(), fmt.Sprintf("Unpack(Pack(v)) for (%s) failed: %v", ts, err), w)
			return
		}
		got, err := s.fromGoArgs(out)
		if err != nil {
			r.Violation("roundtrip-shape:"+s.features(), err.Error(), w)
			return
		}
		if d := s.equal(vs, got, false); d != "" {
			r.Violation("roundtrip-value:"+s.features(), fmt.Sprintf("Unpack(Pack(v)) != v for (%s): %s", ts, d), w)
			return
		}
		// the reference decoder agrees with itself and with the value (sanity of the oracle)
		var dd decoder
		rv, rerr := dd.decTuple(s.ts, ref, 0, "")
		if rerr != nil || s.equal(vs, rv, false) != "" || len(dd.dirty) != 0 {
			r.Inconclusive("harness: reference decoder does not invert the reference encoder for (%s): %v", ts, rerr)
			return
		}
		r.Count("values_roundtrip", 1)
		r.Eval("v/" + s.skeleton())
		if r.WantSample() && len(ref) <= 320 && len(s.ts) > 1 {
			r.Sample(map[string]any{"types": ts, "encoding": vrt.Hex(ref)})
		}
	}
	r.Count("types", 1)
	for _, f := range strings.Split(s.features(), "+") {
		if f != "" {
			r.Count("types_with_"+f, 1)
		}
	}
}

func firstDiff(a, b []byte) int {
	for i := 0; i < len(a) && i < len(b); i++ {
		if a[i] != b[i] {
			return i
		}
	}
	if len(a) < len(b) {
		return len(a)
	}
	return len(b)
}

// ---------- phase 2: byte strings ----------

var two63 = new(big.Int).Lsh(big.NewInt(1), 63)
var two64 = new(big.Int).Lsh(big.NewInt(1), 64)

// mutate returns a mutated copy of enc and the mutation kind.
func mutate(rng *rand.Rand, enc []byte, marks []mark) ([]byte, string) {
	out := append([]byte{}, enc...)
	var ptr, leaf []mark
	for _, m := range marks {
		if m.what == "offset" || m.what == "length" {
			ptr = append(ptr, m)
		} else {
			leaf = append(leaf, m)
		}
	}
	setWord := func(pos int, x *big.Int) {
		x = new(big.Int).Mod(x, two256)
		copy(out[pos:pos+32], x.FillBytes(make([]byte, 32)))
	}
	k := rng.Intn(16)
	switch {
	case k < 8 && len(ptr) > 0: // pointer / length word arithmetic
		m := ptr[rng.Intn(len(ptr))]
		old := new(big.Int).SetBytes(out[m.pos : m.pos+32])
		type mu struct {
			name string
			v    *big.Int
		}
		other := ptr[rng.Intn(len(ptr))]
		ms := []mu{
			{"+1", new(big.Int).Add(old, big.NewInt(1))}, {"-1", new(big.Int).Sub(old, big.NewInt(1))},
			{"+32", new(big.Int).Add(old, big.NewInt(32))}, {"-32", new(big.Int).Sub(old, big.NewInt(32))},
			{"x32", new(big.Int).Mul(old, big.NewInt(32))}, {"zero", new(big.Int)},
			{"2^63", two63}, {"2^63-1", new(big.Int).Sub(two63, big.NewInt(1))}, {"2^64+old", new(big.Int).Add(two64, old)},
			{"2^256-1", new(big.Int).Sub(two256, big.NewInt(1))}, {"2^255", new(big.Int).Lsh(big.NewInt(1), 255)},
			{"len", big.NewInt(int64(len(out)))}, {"len-32", big.NewInt(int64(len(out) - 32))}, {"len+1", big.NewInt(int64(len(out) + 1))},
			{"self", big.NewInt(int64(m.pos))}, {"other", new(big.Int).SetBytes(out[other.pos : other.pos+32])},
			{"highbyte", new(big.Int).Add(old, new(big.Int).Lsh(big.NewInt(int64(1+rng.Intn(255))), uint(8*(8+rng.Intn(24)))))},
			{"rand-small", big.NewInt(int64(rng.Intn(len(out) + 64)))},
		}
		c := ms[rng.Intn(len(ms))]
		if c.v.Sign() < 0 {
			c.v = new(big.Int).Add(c.v, two256)
		}
		setWord(m.pos, c.v)
		return out, m.what + ":" + c.name
	case k < 11 && len(leaf) > 0: // dirty padding of a leaf
		m := leaf[rng.Intn(len(leaf))]
		w := out[m.pos : m.pos+32]
		switch m.t.k {
		case kBool:
			if rng.Intn(2) == 0 {
				w[31] = byte(2 + rng.Intn(254))
			} else {
				w[rng.Intn(31)] = byte(1 + rng.Intn(255))
			}
			return out, "dirty:bool"
		case kAddress:
			w[rng.Intn(12)] ^= byte(1 + rng.Intn(255))
			return out, "dirty:address"
		case kFixedBytes, kFunction:
			n := m.t.n
			if m.t.k == kFunction {
				n = 24
			}
			if n == 32 {
				w[rng.Intn(32)] ^= 0x5a
				return out, "flip:bytes32"
			}
			w[n+rng.Intn(32-n)] ^= byte(1 + rng.Intn(255))
			if m.t.k == kFunction {
				return out, "dirty:function"
			}
			return out, "dirty:fixedbytes"
		case kUint, kInt:
			if m.t.n == 256 {
				w[rng.Intn(32)] ^= 0x5a
				return out, "flip:word256"
			}
			w[rng.Intn(32-m.t.n/8)] ^= byte(1 + rng.Intn(255))
			if native(m.t.n) {
				return out, "dirty:int-native"
			}
			return out, "dirty:int-big"
		}
		return out, "none"
	case k == 11: // truncate
		if len(out) == 0 {
			return out, "none"
		}
		n := rng.Intn(len(out))
		if rng.Intn(2) == 0 {
			n = n / 32 * 32
		}
		return out[:n], "truncate"
	case k == 12: // extend
		ext := make([]byte, 1+rng.Intn(96))
		if rng.Intn(2) == 0 {
			rng.Read(ext)
		}
		return append(out, ext...), "extend"
	case k == 13: // byte flip anywhere
		if len(out) == 0 {
			return out, "none"
		}
		out[rng.Intn(len(out))] ^= byte(1 << uint(rng.Intn(8)))
		return out, "bitflip"
	case k == 14: // random string of similar length
		b := make([]byte, 32*rng.Intn(len(out)/32+3))
		for i := 0; i+32 <= len(b); i += 32 { // small words so that offsets often land inside
			if rng.Intn(3) > 0 {
				b[i+31] = byte(rng.Intn(8) * 32)
				b[i+30] = byte(rng.Intn(2))
			} else {
				rng.Read(b[i : i+32])
			}
		}
		return b, "random"
	}
	return out, "canonical"
}

func bytesCase(r *vrt.Run, i int) {
	rng := r.Rand("bytes", i)
	s, err := genSig(rng)
	if err != nil {
		r.Violation("newtype-rejects", err.Error(), map[string]any{"case": i})
		return
	}
	ts := s.String()
	vs := make([]*V, len(s.ts))
	for k := range vs {
		vs[k] = genValue(rng, s.ts[k])
	}
	enc0, marks := encTuple(s.ts, vs)
	per := r.N(20, 40)
	for j := 0; j < per; j++ {
		b, mk := mutate(rng, enc0, marks)
		if mk == "none" {
			continue
		}
		w := map[string]any{"case": i, "mutation": mk, "n": j, "types": ts, "input": vrt.Hex(b), "canonical": vrt.Hex(enc0)}
		r.Case("bytes %d/%d %s (%s)", i, j, mk, ts)
		var out []any
		if r.Guard("unpack", w, func() { out, err = s.args.Unpack(append([]byte{}, b...)) }) {
			r.Eval("b/" + mk + "/panic")
			continue
		}
		var dd decoder
		rv, rerr := dd.decTuple(s.ts, b, 0, "")
		mkClass := mk
		if err != nil {
			// failing is always allowed on non-canonical input; a canonical one must decode
			if mk == "canonical" || mk == "extend" {
				r.Violation("canonical-rejected:"+s.features(), fmt.Sprintf("Unpack rejects a canonical encoding (%s) of (%s): %v", mk, ts, err), w)
				continue
			}
			cls := "both-reject"
			if rerr == nil {
				cls = "strict-reject"
				if len(dd.dirty) > 0 {
					cls = "dirty-reject:" + dirtyKinds(dd.dirty)
				}
			}
			r.Count("bytes_rejected", 1)
			r.Eval("b/" + mkClass + "/" + cls)
			continue
		}
		r.Count("bytes_accepted", 1)
		got, gerr := s.fromGoArgs(out)
		if gerr != nil {
			r.Violation("decode-shape:"+s.features(), gerr.Error(), w)
			continue
		}
		if rerr != nil {
			// classify: the one known way to get here is a pointer >= 2^64 of a dynamic
			// fixed-size array whose low 64 bits happen to address the input
			d2 := decoder{trunc64Array: true}
			if rv2, e2 := d2.decTuple(s.ts, b, 0, ""); e2 == nil && d2.truncated > 0 && s.equal(rv2, got, true) == "" {
				r.Count("accepted_array_offset_high_bits_ignored", 1)
				r.Violation("offset-high-bits-ignored:dynamic-fixed-array", fmt.Sprintf("Unpack accepts input (%s) for (%s): the offset word of a dynamic fixed-size array is >= 2^64 (far outside the %d-byte input) but only its low 64 bits are used", mk, ts, len(b)), w)
				r.Eval("b/" + mk + "/offset-high-bits-ignored")
				continue
			}
			r.Violation("accepts-out-of-bounds:"+strings.SplitN(mk, ":", 2)[0]+":"+s.features(), fmt.Sprintf("Unpack accepts input (%s) for (%s) although following the offsets/lengths per the specification reads outside the input", mk, ts), w)
			continue
		}
		cls := "agree"
		if len(dd.dirty) == 0 {
			if d := s.equal(rv, got, false); d != "" {
				r.Violation("decode-value:"+s.features(), fmt.Sprintf("Unpack and the reference decoder disagree on (%s), input %s: %s", ts, mk, d), w)
				continue
			}
		} else {
			cls = "dirty-accepted:" + dirtyKinds(dd.dirty)
			r.Count("dirty_accepted_"+dirtyKinds(dd.dirty), 1)
			if d := s.equal(rv, got, true); d != "" {
				r.Violation("decode-value-dirty:"+dirtyKinds(dd.dirty), fmt.Sprintf("Unpack accepts dirty padding in (%s) with a value that is neither the whole-word nor the truncated reading: %s", ts, d), w)
				continue
			}
		}
		// re-encode what was read and decode it again
		var re []byte
		if r.Guard("repack", w, func() { re, err = s.args.Pack(out...) }) {
			continue
		}
		if err != nil {
			r.Violation("repack-error:"+s.features(), fmt.Sprintf("values returned by Unpack cannot be packed again: %v", err), w)
			continue
		}
		var out2 []any
		if r.Guard("reunpack", w, func() { out2, err = s.args.Unpack(re) }) {
			continue
		}
		if err != nil {
			r.Violation("reunpack-error:"+s.features(), fmt.Sprintf("Pack(Unpack(b)) does not decode: %v", err), w)
			continue
		}
		got2, gerr := s.fromGoArgs(out2)
		if gerr != nil || s.equal(got, got2, false) != "" {
			r.Violation("reencode-unstable:"+s.features(), fmt.Sprintf("Unpack(Pack(Unpack(b))) != Unpack(b) for (%s): %v %s", ts, gerr, s.equal(got, got2, false)), w)
			continue
		}
		if len(dd.dirty) == 0 {
			// canonical re-encoding equals the reference encoding of what was read
			if refre, _ := encTuple(s.ts, rv); !bytes.Equal(refre, re) {
				r.Violation("repack-vs-spec:"+s.features(), "re-Pack of the decoded values differs from the specification encoding", w)
				continue
			}
		}
		if !bytes.Equal(b, enc0) && mk != "extend" {
			r.Count("noncanonical_accepted", 1)
		}
		r.Eval("b/" + mkClass + "/" + cls + "/" + s.features())
	}
}

func dirtyKinds(ds []dirty) string {
	m := map[string]bool{}
	for _, d := range ds {
		m[d.kind] = true
	}
	var ks []string
	for k := range m {
		ks = append(ks, k)
	}
	sort.Strings(ks)
	return strings.Join(ks, "+")
}

func run(r *vrt.Run) {
	r.Rule("values: random argument lists (1-5 args; leaves uint/int 8..256, bool, address, bytes1..32, bytes, string, function; T[k] k<=3, T[], tuples of 1-4; depth <= 3), 5 (thorough 10) boundary-biased values each; signature = type skeleton (sizes erased, native vs big integers kept). bytes: per generated (types, value) 20 (thorough 40) mutated encodings (offset/length word set to +-1, +-32, x32, 0, 2^63, 2^63-1, 2^64+old, 2^256-1, 2^255, len, len-32, len+1, its own position, another pointer, a dirty high byte, small random; dirty padding per leaf kind; truncation; extension; bit flip; random words; unmodified); signature = (mutation kind, outcome class, type features)")
	nT := r.N(10000, 500000)
	nB := r.N(10000, 500000)
	if r.Race() {
		nT, nB = nT/8, nB/8
	}
	vrt.Par(nT, 0, func(i int) { valuesCase(r, i) })
	vrt.Par(nB, 0, func(i int) { bytesCase(r, i) })
	r.Require("values_roundtrip", int64(nT*4))
	r.Require("types_with_dyntuple", int64(nT/50))
	r.Require("types_with_dynarray", int64(nT/50))
	r.Require("bytes_accepted", int64(nB))
	r.Require("bytes_rejected", int64(nB))
	r.Require("noncanonical_accepted", int64(nB/20))
	r.Assume("reference ABI encoder/decoder written from the Solidity ABI specification (p/c51/ref.go); zero-length fixed arrays T[0] and empty tuples are not generated (not expressible in Solidity)")
}
