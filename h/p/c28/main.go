// C28: EVM results are independent of pooling, caching and concurrency.
//
// A session is a committed world (rule set Cancun / Prague / Osaka / Amsterdam) holding 60
// programs. The baseline result of every program comes from a fresh child process (one child per
// session running the programs once in index order, plus single-program children that run
// exactly one program in a brand-new process). The same messages are then executed in this
// process (a) in random orders (shared sync.Pools for stack arenas and memories, polluters
// among the predecessors), (b) nested below a recursive wrapper at depth 2/10/200/1000,
// compared with the depth-1 nesting computed in the child, (c) on EVMs that share one
// process-wide JumpDestCache and PrecompileCache across sessions and rule sets (the same
// addresses carry different code in different sessions; the same precompile inputs recur in
// all rule sets), (d) concurrently from 16 goroutines on the shared caches. Zero-memory probes
// must return zeros everywhere. The race variant runs the same under the race detector.
package main

import (
	"bytes"
	"encoding/hex"
	"fmt"
	"math/big"
	"os"
	"runtime/pprof"
	"strconv"
	"strings"
	"sync"
	"time"
	"unsafe"

	"github.com/ethereum/go-ethereum/common"
	"github.com/ethereum/go-ethereum/core"
	"github.com/ethereum/go-ethereum/core/tracing"
	"github.com/ethereum/go-ethereum/core/vm"
	"github.com/holiman/uint256"

	"verif/lib/evmenv"
	"verif/lib/proggen"
	"verif/lib/vrt"
)

func main() { vrt.Main("C28", run) }

func init() { vrt.RegisterChild("baseline", childBaseline) }

var ruleSets = []string{"Cancun", "Osaka", "Amsterdam", "Prague"}

const (
	leafGas  = 400_000
	numProgs = 60
)

var nestOps = []byte{proggen.CALL, proggen.DELEGATECALL, proggen.STATICCALL}

type prog struct {
	addr  common.Address
	code  []byte
	kind  string // gen | polluter | zeromem | precompile | jump
	input []byte
}

type session struct {
	idx   int
	rs    string
	w     *evmenv.World
	progs []prog
	rec   [3]common.Address
}

func progAddr(k int) common.Address    { return common.BytesToAddress([]byte{0xb0, 0x28, byte(k)}) }
func recAddr(i int) common.Address     { return common.BytesToAddress([]byte{0xec, 0x28, byte(i)}) }
func hexb(s string) []byte             { b, _ := hex.DecodeString(s); return b }
func pad32(b []byte) []byte            { return common.LeftPadBytes(b, 32) }
func cat(bs ...[]byte) []byte          { return bytes.Join(bs, nil) }
func word(v uint64) []byte             { return pad32(new(big.Int).SetUint64(v).Bytes()) }
func addrWord(a common.Address) []byte { return pad32(a[:]) }

var (
	sentinelA   = common.HexToHash("0xa5a5a5a5a5a5a5a5a5a5a5a5a5a5a5a5a5a5a5a5a5a5a5a5a5a5a5a5a5a5a501")
	sentinelB   = common.HexToHash("0x5b5b5b5b5b5b5b5b5b5b5b5b5b5b5b5b5b5b5b5b5b5b5b5b5b5b5b5b5b5b5b02")
	corruptMark = common.HexToHash("0xc0220907c0220907c0220907c0220907c0220907c0220907c0220907c0220907")
)

func leafAddr(i int) common.Address { return common.BytesToAddress([]byte{0x1e, 0xaf, 0x28, byte(i)}) }

// propagate: stack [flag]; return data of the last call is returned (success) or reverted with.
func propagate(a *proggen.Asm, corrupt proggen.Label) {
	fail := a.NewLabel()
	a.Op(proggen.RETURNDATASIZE).Push(0).Push(0).Op(proggen.RETURNDATACOPY)
	a.Op(proggen.ISZERO).JumpIf(fail)
	a.Op(proggen.RETURNDATASIZE).Push(0).Op(proggen.RETURN)
	a.Bind(fail)
	a.Op(proggen.RETURNDATASIZE).Push(0).Op(proggen.REVERT)
	a.Bind(corrupt)
	a.Push(corruptMark).Push(0).Op(proggen.MSTORE).Push(32).Push(0).Op(proggen.REVERT)
}

// recWrapper: calldata = n(32) ‖ target(32) ‖ payload. n > 0: CALL self with n-1; n == 0: CALL
// the leaf wrapper with target ‖ payload. Two sentinel words stay on the stack across the call
// (so every nested frame starts at a non-zero arena offset) and are verified afterwards; return
// data and failure are propagated.
func recWrapper(leaf common.Address) []byte {
	a := proggen.NewAsm()
	lf, ret, corrupt := a.NewLabel(), a.NewLabel(), a.NewLabel()
	a.Op(proggen.CALLDATASIZE).Push(0).Push(0).Op(proggen.CALLDATACOPY)
	a.Push(sentinelA)
	a.Push(0).Op(proggen.MLOAD) // [A, n]
	a.Op(proggen.DUP1, proggen.ISZERO).JumpIf(lf)
	a.Push(1).Op(proggen.SWAP1, proggen.SUB)      // [A, n-1]
	a.Op(proggen.DUP1).Push(0).Op(proggen.MSTORE) // mem[0] = n-1
	a.Push(0).Push(0).Op(proggen.CALLDATASIZE).Push(0).Push(0).Op(proggen.ADDRESS, proggen.GAS, proggen.CALL)
	a.JumpTo(ret)
	a.Bind(lf) // [A, 0], mem[0] = 0
	a.Push(0).Push(0)
	a.Push(32).Op(proggen.CALLDATASIZE, proggen.SUB)
	a.Push(32).Push(0).Push(leaf).Op(proggen.GAS, proggen.CALL)
	a.Bind(ret) // [A, m, flag] with mem[0] == m
	a.Op(proggen.SWAP2).Push(sentinelA).Op(proggen.EQ)
	a.Op(proggen.SWAP1).Push(0).Op(proggen.MLOAD, proggen.EQ)
	a.Op(proggen.AND, proggen.ISZERO).JumpIf(corrupt)
	propagate(a, corrupt)
	return a.Bytes()
}

// leafWrapper: calldata = target(32) ‖ payload: `op` the target with the payload and exactly
// leafGas, one sentinel word on the stack across the call.
func leafWrapper(op byte) []byte {
	a := proggen.NewAsm()
	corrupt := a.NewLabel()
	a.Op(proggen.CALLDATASIZE).Push(0).Push(0).Op(proggen.CALLDATACOPY)
	a.Push(sentinelB)
	a.Push(0).Push(0)
	a.Push(32).Op(proggen.CALLDATASIZE, proggen.SUB)
	a.Push(32)
	if op == proggen.CALL {
		a.Push(0)
	}
	a.Push(0).Op(proggen.MLOAD)
	a.Push(leafGas)
	a.Op(op) // [B, flag]
	a.Op(proggen.SWAP1).Push(sentinelB).Op(proggen.EQ, proggen.ISZERO).JumpIf(corrupt)
	propagate(a, corrupt)
	return a.Bytes()
}

// precompileInputs is one process-wide pool (identical in every session and rule set, so that
// the shared precompile cache sees the same inputs under different rule sets).
func precompileInputs(r *vrt.Run) map[uint16][][]byte {
	rng := r.Rand("pcpool", 0)
	rb := func(n int) []byte { b := make([]byte, n); rng.Read(b); return b }
	g1 := cat(word(1), word(2))
	pool := map[uint16][][]byte{}
	// ecrecover: a valid signature (from the precompile test vectors), the same with trailing
	// garbage / trailing zeros, and garbage
	ec := hexb("18c547e4f7b0f325ad1e56f57e26c745b09a3e503d86e00e5255ff7f715d3d1c000000000000000000000000000000000000000000000000000000000000001c73b1693892219d736caba55bdb67216e485557ea6b6af75f37096c9aa6a5a75feeb940b1d03b21e36b0e47e79769f095fe2ab855bd91e3a38756b7d75a9c4549")
	pool[1] = [][]byte{ec, cat(ec, rb(7)), cat(ec, make([]byte, 9)), ec[:100], rb(128), {}}
	for _, a := range []uint16{2, 3, 4} {
		pool[a] = [][]byte{{}, rb(1), rb(32), rb(55), rb(56), rb(64), rb(200), make([]byte, 40)}
	}
	me := func(bl, el, ml int, b, e, m []byte) []byte {
		return cat(word(uint64(bl)), word(uint64(el)), word(uint64(ml)), b, e, m)
	}
	pool[5] = [][]byte{
		me(1, 1, 1, []byte{3}, []byte{5}, []byte{7}), me(1, 1, 1, []byte{3}, []byte{5}, []byte{7, 0, 0}),
		me(32, 32, 32, rb(32), rb(32), rb(32)), me(2, 1, 2, []byte{1, 0}, []byte{2}, nil), me(0, 0, 0, nil, nil, nil),
		me(1, 1, 1, []byte{3}, []byte{5}, []byte{0}), me(1025, 1, 1, make([]byte, 1025), []byte{1}, []byte{9}), // > 1024: rejected from Osaka on
		me(64, 3, 64, rb(64), rb(3), rb(64)), me(1, 33, 1, []byte{2}, rb(33), []byte{251}), cat(word(1), word(1)), // truncated header
	}
	pool[6] = [][]byte{make([]byte, 128), cat(g1, g1), cat(g1, make([]byte, 64)), cat(g1, g1, rb(5)), rb(128), g1, {}}
	pool[7] = [][]byte{cat(g1, word(2)), cat(g1, word(0)), cat(g1, rb(32)), cat(make([]byte, 64), word(9)), rb(96), cat(g1, word(2), rb(3))}
	pool[8] = [][]byte{{}, make([]byte, 192), rb(192), rb(10)}
	b2 := hexb("0000000c48c9bdf267e6096a3ba7ca8485ae67bb2bf894fe72f36e3cf1361d5f3af54fa5d182e6ad7f520e511f6c3e2b8c68059b6bbd41fbabd9831f79217e1319cde05b61626300000000000000000000000000000000000000000000000000000000000000000000000000000000000000000000000000000000000000000000000000000000000000000000000000000000000000000000000000000000000000000000000000000000000000000000000000000000000000000000000000000000000000000300000000000000000000000000000001")
	b2b := append([]byte{}, b2...)
	b2b[3] = 1
	pool[9] = [][]byte{b2, b2b, b2[:212], rb(213)}
	pool[0x0a] = [][]byte{rb(192), {}}
	pool[0x0b] = [][]byte{rb(256), make([]byte, 256)}
	pool[0x100] = [][]byte{rb(160), make([]byte, 160)}
	return pool
}

func buildSession(r *vrt.Run, idx int, pcpool map[uint16][][]byte) *session {
	rng := r.Rand("session", idx)
	s := &session{idx: idx, rs: ruleSets[idx%len(ruleSets)]}
	f, _ := proggen.ParseFork(s.rs)
	var accts []evmenv.Account
	var genAddrs []common.Address
	add := func(code []byte, kind string) {
		k := len(s.progs)
		in := make([]byte, []int{0, 4, 32, 64}[rng.Intn(4)])
		rng.Read(in)
		s.progs = append(s.progs, prog{addr: progAddr(k), code: code, kind: kind, input: in})
	}
	// 10 polluters and 10 zero-memory probes first, so that generated programs can call them
	for i := 0; i < 10; i++ {
		add(proggen.Polluter(f, 32*(1+rng.Intn(512)), []proggen.End{proggen.EndReturn, proggen.EndRevert, proggen.EndInvalid, proggen.EndStop, proggen.EndStackOverflow}[rng.Intn(5)]), "polluter")
		genAddrs = append(genAddrs, progAddr(i))
	}
	for i := 0; i < 10; i++ {
		pol := progAddr(rng.Intn(10))
		add(proggen.ZeroMemProbe(f, i, 32+rng.Intn(16000), &pol), "zeromem")
	}
	for i := 0; i < 20; i++ {
		p := proggen.Gen(rng, proggen.Opts{Fork: s.rs, Addrs: append([]common.Address{}, genAddrs...), MaxLen: 60 + rng.Intn(300),
			Mode: proggen.ModeStructured, NoUnbounded: true})
		add(p.Code, "gen")
		genAddrs = append(genAddrs, progAddr(len(s.progs)-1))
	}
	pcs := proggen.Precompiles(f)
	for i := 0; i < 10; i++ {
		pa := pcs[rng.Intn(len(pcs))]
		if i < 5 {
			pa = []uint16{1, 5, 6, 7, 2}[i]
		}
		ins := pcpool[pa]
		if ins == nil {
			ins = pcpool[4]
		}
		op := []byte{proggen.CALL, proggen.STATICCALL, proggen.DELEGATECALL}[rng.Intn(3)]
		add(proggen.PrecompileCall(f, op, pa, ins[rng.Intn(len(ins))], -1), "precompile")
	}
	// jump-heavy: shared code (same hash at several addresses) and common prefixes with different tables
	prefix := proggen.RawBytes(rng, 8+rng.Intn(24))
	shared := proggen.JumpHeavy(rng, 4+rng.Intn(30), prefix)
	for i := 0; i < 10; i++ {
		if i%3 == 0 {
			add(shared, "jump")
		} else {
			add(proggen.JumpHeavy(rng, 4+rng.Intn(30), prefix), "jump")
		}
	}
	for _, p := range s.progs {
		accts = append(accts, evmenv.Account{Addr: p.addr, Code: p.code, Balance: uint256.NewInt(1000),
			Storage: map[common.Hash]common.Hash{common.BigToHash(big.NewInt(1)): common.BigToHash(big.NewInt(int64(1 + rng.Intn(5))))}})
	}
	for i, op := range nestOps {
		s.rec[i] = recAddr(i)
		accts = append(accts, evmenv.Account{Addr: s.rec[i], Code: recWrapper(leafAddr(i)), Balance: uint256.NewInt(1000)})
		accts = append(accts, evmenv.Account{Addr: leafAddr(i), Code: leafWrapper(op), Balance: uint256.NewInt(1000)})
	}
	s.w = evmenv.NewWorld(s.rs, accts)
	s.w.BlockGasLimit = 30_000_000 // GASLIMIT must not reveal the (context dependent) message gas
	return s
}

// direct runs program k as a top-level message with leafGas.
func (s *session) direct(k int, tr *tracing.Hooks, setup func(*vm.EVM)) evmenv.Result {
	p := s.progs[k]
	return s.w.CallEVM(s.w.NewState(), p.addr, p.input, leafGas, nil, tr, setup)
}

// nestGas is the gas limit that leaves the leaf its leafGas below n self-calls of the wrapper.
func nestGas(n int) uint64 {
	g := uint64(leafGas+60_000)/63*64 + 10_000 // leaf wrapper
	for i := 0; i < n; i++ {
		g = g/63*64 + 1000
	}
	return g
}

// nested runs program k below wrapper op with n self-calls (the program runs at depth n+1).
func (s *session) nested(k, opIdx, n int, tr *tracing.Hooks, setup func(*vm.EVM)) (evmenv.Result, bool) {
	g := nestGas(n)
	if s.w.Rules().IsAmsterdam && g > 1<<24 {
		return evmenv.Result{}, false // would engage the state-gas reservoir (different accounting)
	}
	p := s.progs[k]
	in := cat(word(uint64(n)), addrWord(p.addr), p.input)
	_ = opIdx
	return s.w.CallEVM(s.w.NewState(), s.rec[opIdx], in, g, nil, tr, setup), true
}

// childBaseline prints the baseline digests of one session.
func childBaseline(r *vrt.Run) {
	idx, _ := strconv.Atoi(os.Getenv("C28_SESSION"))
	only, _ := strconv.Atoi(os.Getenv("C28_ONLY"))
	s := buildSession(r, idx, precompileInputs(r))
	var sb strings.Builder
	for k := range s.progs {
		if only >= 0 && k != only {
			continue
		}
		res := s.direct(k, nil, nil)
		fmt.Fprintf(&sb, "D %d %s\n", k, res.Digest())
		if only >= 0 {
			continue
		}
		for oi := range nestOps {
			nr, _ := s.nested(k, oi, 0, nil, nil)
			fmt.Fprintf(&sb, "N %d %d %s\n", k, oi, nr.DigestNoGas())
		}
	}
	fmt.Print(sb.String())
	fmt.Println("END")
}

type baseline struct {
	direct []string
	nested [][3]string
}

func fetchBaseline(r *vrt.Run, idx, only int) (*baseline, string) {
	cr := r.Child("baseline", []string{fmt.Sprintf("C28_SESSION=%d", idx), fmt.Sprintf("C28_ONLY=%d", only), "GORACE=halt_on_error=0"}, 10*time.Minute)
	out := string(cr.Output)
	if cr.Exit != 0 || cr.TimedOut || !strings.Contains(out, "\nEND") && !strings.HasPrefix(out, "END") {
		return nil, fmt.Sprintf("exit=%d signal=%s timeout=%v output tail: %s", cr.Exit, cr.Signal, cr.TimedOut, tail(out, 1500))
	}
	b := &baseline{direct: make([]string, numProgs), nested: make([][3]string, numProgs)}
	for _, l := range strings.Split(out, "\n") {
		f := strings.SplitN(l, " ", 4)
		switch {
		case len(f) >= 3 && f[0] == "D":
			k, _ := strconv.Atoi(f[1])
			b.direct[k] = strings.Join(f[2:], " ")
		case len(f) == 4 && f[0] == "N":
			k, _ := strconv.Atoi(f[1])
			oi, _ := strconv.Atoi(f[2])
			b.nested[k][oi] = f[3]
		}
	}
	return b, ""
}

func tail(s string, n int) string {
	if len(s) > n {
		return s[len(s)-n:]
	}
	return s
}

// probe tracer: evidence about pool reuse (no verdicts).
type poolProbe struct {
	capAtDepth            map[int]uintptr
	frames, offsetFrames  int
	pooledMem, dirtyArena int
	started               map[int]bool
	maxDepth              int
	dirtyPoolMemory       int
}

func (p *poolProbe) hooks() *tracing.Hooks {
	p.capAtDepth, p.started = map[int]uintptr{}, map[int]bool{}
	return &tracing.Hooks{
		OnEnter: func(depth int, typ byte, from, to common.Address, input []byte, gas uint64, value *big.Int) {
			delete(p.started, depth+1)
		},
		OnOpcode: func(pc uint64, op byte, gas, cost uint64, scope tracing.OpContext, rData []byte, depth int, err error) {
			if p.started[depth] {
				return
			}
			p.started[depth] = true
			p.frames++
			if depth > p.maxDepth {
				p.maxDepth = depth
			}
			st := scope.StackData()
			c := cap(st)
			ptr := uintptr(unsafe.Pointer(&st[:1][0]))
			p.capAtDepth[depth] = ptr
			if pp, ok := p.capAtDepth[depth-1]; ok && ptr > pp && ptr-pp < 1<<26 {
				p.offsetFrames++ // this frame's stack starts above its parent's bottom in the shared arena
			}
			// garbage left in the arena above the current top by earlier frames
			ext := st[:min(c, len(st)+64)]
			for i := len(st); i < len(ext); i++ {
				if !ext[i].IsZero() {
					p.dirtyArena++
					break
				}
			}
			m := scope.MemoryData()
			if len(m) == 0 && cap(m) > 0 {
				p.pooledMem++
				for _, b := range m[:cap(m)] {
					if b != 0 {
						p.dirtyPoolMemory++
						break
					}
				}
			}
		},
	}
}

func run(r *vrt.Run) {
	r.Rule("session = world of 60 programs under Cancun/Osaka/Amsterdam/Prague (10 polluters, 10 zero-memory probes, 20 gas-independent proggen programs that may call the former, 10 precompile callers drawing from one process-wide input pool, 10 jump-heavy programs with shared code hashes / common prefixes). Judged executions: program x context, context in {random order position after predecessor kind, nested depth 2/10/200/1000 x CALL/DELEGATECALL/STATICCALL, shared caches cold/warm, concurrent}. non-trivial signature = (rule set, program kind, context kind, predecessor kind or depth or cache mode, outcome class)")
	if pf := os.Getenv("C28_PROF"); pf != "" {
		f, _ := os.Create(pf)
		pprof.StartCPUProfile(f)
		defer pprof.StopCPUProfile()
	}
	nSessions := r.N(20, 400)
	orders := r.N(12, 60)
	if r.Race() {
		nSessions, orders = r.N(4, 40), r.N(4, 20)
	}
	if v := os.Getenv("C28_SESSIONS"); v != "" {
		nSessions, _ = strconv.Atoi(v)
	}
	pcpool := precompileInputs(r)
	jdCache := core.NewJumpDestCache()
	pcCache := vm.NewPrecompileCache()
	withCaches := func(e *vm.EVM) { e.SetJumpDestCache(jdCache); e.SetPrecompileCache(pcCache) }

	var evMu sync.Mutex
	ev := map[string]int{}
	evAdd := func(k string, n int) { evMu.Lock(); ev[k] += n; evMu.Unlock() }

	sessions := make([]*session, nSessions)
	bases := make([]*baseline, nSessions)
	// Phase 1: sessions in parallel (each: child baseline, orders, nesting, shared caches)
	vrt.Par(nSessions, 0, func(si int) {
		s := buildSession(r, si, pcpool)
		sessions[si] = s
		r.Case("session %d rs=%s: fetching baseline from child process", si, s.rs)
		b, errs := fetchBaseline(r, si, -1)
		if b == nil {
			r.Inconclusive("session %d: baseline child failed: %s", si, errs)
			return
		}
		bases[si] = b
		rng := r.Rand("ctx", si)
		// truly fresh single-program processes agree with the session child
		for i := 0; i < r.N(2, 6); i++ {
			k := rng.Intn(numProgs)
			fb, e2 := fetchBaseline(r, si, k)
			if fb == nil {
				r.Inconclusive("session %d: single child failed: %s", si, e2)
				continue
			}
			r.Count("fresh_single_program_processes", 1)
			if fb.direct[k] != b.direct[k] {
				r.Violation("fresh-process-vs-session-child:"+s.progs[k].kind, fmt.Sprintf("program %d: alone in a new process: %s; after its predecessors in the session child: %s", k, fb.direct[k], b.direct[k]), s.witness(k, "single-child"))
			}
		}
		judge := func(k int, ctx, detail, got, want string, res *evmenv.Result) {
			p := s.progs[k]
			if res != nil && res.Panic != nil {
				r.Violation("panic:"+vrt.PanicSite(res.Stack), fmt.Sprintf("panic: %v\n%s", res.Panic, tail(res.Stack, 2000)), s.witness(k, ctx+"/"+detail))
				return
			}
			r.Eval(fmt.Sprintf("%s/%s/%s/%s/%s", s.rs, p.kind, ctx, detail, strings.SplitN(got, "|", 2)[0]))
			r.Count("ctx:"+ctx, 1)
			if got != want {
				r.Violation(fmt.Sprintf("%s-differs:%s", ctx, p.kind), fmt.Sprintf("program %d (%s) in context %s/%s:\n got  %s\n want %s (fresh-process baseline)", k, p.kind, ctx, detail, trunc(got, 400), trunc(want, 400)), s.witness(k, ctx+"/"+detail))
			}
			if p.kind == "zeromem" && res != nil && res.Err == nil {
				r.Count("zero_memory_probe_returns", 1)
				if len(bytes.Trim(res.Ret, "\x00")) != 0 {
					r.Violation("zero-memory:"+ctx, fmt.Sprintf("probe %d returned non-zero memory in context %s/%s: %s", k, ctx, detail, trunc(hex.EncodeToString(res.Ret), 200)), s.witness(k, ctx+"/"+detail))
				}
			}
		}
		// (a) random orders
		for o := 0; o < orders; o++ {
			perm := rng.Perm(numProgs)
			prev := "none"
			for _, k := range perm {
				r.Case("session %d rs=%s order %d program %d (%s) after %s code=%x input=%x", si, s.rs, o, k, s.progs[k].kind, prev, s.progs[k].code, s.progs[k].input)
				res := s.direct(k, nil, nil)
				judge(k, "order", "after-"+prev, res.Digest(), b.direct[k], &res)
				prev = s.progs[k].kind
			}
		}
		// (b) nesting
		depths := []int{2, 10, 200, 1000}
		for k := range s.progs {
			for _, d := range depths {
				if d == 1000 && (s.progs[k].kind == "gen" || (r.Quick() && (k+si)%3 != 0)) {
					continue // generated programs make calls of their own: would cross the depth limit
				}
				oi := rng.Intn(3)
				r.Case("session %d rs=%s nested program %d (%s) op %#x depth %d code=%x", si, s.rs, k, s.progs[k].kind, nestOps[oi], d, s.progs[k].code)
				var pp *poolProbe
				var tr *tracing.Hooks
				if k%7 == 0 {
					pp = &poolProbe{}
					tr = pp.hooks()
				}
				res, ok := s.nested(k, oi, d-1, tr, nil)
				if !ok {
					r.Count("nested_skipped_amsterdam_gas_cap", 1)
					continue
				}
				judge(k, "nested", fmt.Sprintf("%#x-d%d", nestOps[oi], d), res.DigestNoGas(), b.nested[k][oi], &res)
				if pp != nil {
					evAdd("probe_frames", pp.frames)
					evAdd("frames_at_nonzero_arena_offset", pp.offsetFrames)
					evAdd("frames_with_reused_pooled_memory", pp.pooledMem)
					evAdd("frames_seeing_dirty_arena_slots_above_top", pp.dirtyArena)
					evAdd("frames_seeing_dirty_pooled_memory", pp.dirtyPoolMemory)
					if pp.maxDepth >= 1000 {
						evAdd("probe_runs_reaching_depth_1000", 1)
					}
				}
			}
		}
		// (c) shared caches (cold on first use of a code hash / input, warm afterwards)
		for o := 0; o < max(2, orders/3); o++ {
			for _, k := range rng.Perm(numProgs) {
				r.Case("session %d rs=%s shared-cache pass %d program %d (%s) code=%x", si, s.rs, o, k, s.progs[k].kind, s.progs[k].code)
				res := s.direct(k, nil, withCaches)
				judge(k, "caches", fmt.Sprintf("pass%d", min(o, 2)), res.Digest(), b.direct[k], &res)
			}
		}
	})
	// Phase 2 (d): 16 goroutines on the shared caches, programs of all sessions mixed
	var live []int
	for i, b := range bases {
		if b != nil {
			live = append(live, i)
		}
	}
	if len(live) > 0 {
		per := r.N(150, 4000)
		if r.Race() {
			per = r.N(60, 1500)
		}
		var wg sync.WaitGroup
		for g := 0; g < 16; g++ {
			wg.Add(1)
			go func(g int) {
				defer wg.Done()
				rng := r.Rand("conc", g)
				for i := 0; i < per; i++ {
					si := live[rng.Intn(len(live))]
					s, b := sessions[si], bases[si]
					k := rng.Intn(numProgs)
					var setup func(*vm.EVM)
					mode := "private"
					if rng.Intn(4) != 0 {
						setup, mode = withCaches, "shared"
					}
					res := s.direct(k, nil, setup)
					p := s.progs[k]
					if res.Panic != nil {
						r.Violation("panic:"+vrt.PanicSite(res.Stack), fmt.Sprintf("panic: %v\n%s", res.Panic, tail(res.Stack, 2000)), s.witness(k, "concurrent"))
						continue
					}
					r.Eval(fmt.Sprintf("%s/%s/concurrent/%s/%s", s.rs, p.kind, mode, res.Class()))
					r.Count("ctx:concurrent", 1)
					if got := res.Digest(); got != b.direct[k] {
						r.Violation("concurrent-differs:"+p.kind, fmt.Sprintf("program %d (%s) of session %d, %s caches, 16 goroutines:\n got  %s\n want %s", k, p.kind, si, mode, trunc(got, 400), trunc(b.direct[k], 400)), s.witness(k, "concurrent/"+mode))
					}
					if p.kind == "zeromem" && res.Err == nil && len(bytes.Trim(res.Ret, "\x00")) != 0 {
						r.Violation("zero-memory:concurrent", fmt.Sprintf("probe %d returned non-zero memory", k), s.witness(k, "concurrent"))
					}
				}
			}(g)
		}
		wg.Wait()
	}
	for k, v := range ev {
		r.Count(k, v)
	}
	// one sample
	if len(live) > 0 {
		s := sessions[live[0]]
		for _, k := range []int{0, 10, 20, 40, 50} {
			r.Sample(map[string]any{"session": s.idx, "ruleset": s.rs, "program": k, "kind": s.progs[k].kind, "code": vrt.Hex(s.progs[k].code),
				"input": vrt.Hex(s.progs[k].input), "baseline": bases[live[0]].direct[k]})
		}
	}
	div := int64(1)
	if r.Race() {
		div = 5 // the race variant runs a fraction of the workload
	}
	r.Require("ctx:order", 1000/div)
	r.Require("ctx:nested", 300/div)
	r.Require("ctx:caches", 300/div)
	r.Require("ctx:concurrent", 500/div)
	r.Require("zero_memory_probe_returns", 200/div)
	r.Require("frames_at_nonzero_arena_offset", 50)
	// frames_with_reused_pooled_memory / frames_seeing_dirty_arena_slots_above_top depend on what
	// sync.Pool hands out (GC timing): evidence only, never an obligation.
	r.Require("fresh_single_program_processes", 4)
	r.Assume("baselines come from child processes of the same binary (fresh pools and caches); state equality is judged by go-ethereum's state root plus logs, return data, error class, left-over gas and refund counter")
	r.Assume("nested contexts are compared with the depth-1 nesting under the same wrapper (caller, address and storage context identical), not with the top-level run; left-over gas is not compared there")
	r.Assume("refevm comparison (<= Osaka) not wired in (refevm is built elsewhere)")
}

func (s *session) witness(k int, ctx string) map[string]any {
	p := s.progs[k]
	return map[string]any{"session": s.idx, "ruleset": s.rs, "program": k, "kind": p.kind, "code": vrt.Hex(p.code), "input": vrt.Hex(p.input), "context": ctx,
		"how_to_rebuild": "session worlds are regenerated deterministically from VERIF_SEED and the session index (buildSession)"}
}

func trunc(s string, n int) string {
	if len(s) > n {
		return s[:n] + "…"
	}
	return s
}
