// C52: keystore files decrypt only with the right passphrase.
//
// Monitors:
//   - EncryptKey output is parsed by the harness and checked against the Web3 secret-storage
//     layout with an independent recomputation (x/crypto scrypt/pbkdf2, Keccak-256 MAC over
//     derivedKey[16:32] || ciphertext, AES-128-CTR with derivedKey[:16]): the plaintext must be
//     the 32-byte big-endian scalar.
//   - DecryptKey with the right passphrase returns the same scalar, address and id; with
//     near-miss / unrelated passphrases it must fail.
//   - single-byte corruptions of the file (per field and raw): DecryptKey must fail or return
//     the original key. A *different* key is a refutation unless the only semantic difference
//     between the files is the IV (classified; see below).
//   - harness-made pbkdf2 (v3) and v1 (AES-CBC) files decrypt to the key they were made for.
//   - KeyStore directory round trip (ImportECDSA/NewAccount/Export/Import/Update/Unlock/Lock/
//     Delete and re-opening the directory with a fresh KeyStore).
//
// Contract relaxations (documented format, not bugs):
//   - The V3 MAC authenticates derivedKey[16:32] and the ciphertext only. The IV is not
//     authenticated, so a corrupted IV decrypts, at the DecryptKey level, to a different
//     scalar without error. That is a property of the file format. What the code adds on top
//     is the address comparison in keyStorePassphrase.GetKey; therefore IV corruptions are
//     judged at the KeyStore level: Unlock/Export of the stored corrupted file must fail.
//   - `address` and `id` are not authenticated either: DecryptKey returning the right key
//     (with the address derived from the scalar) is fine.
//   - hex digits are case-insensitive, dklen larger than 32 yields the same first 32 bytes:
//     such "corruptions" legitimately decrypt to the right key.
package main

import (
	"bytes"
	"crypto/aes"
	"crypto/cipher"
	"crypto/ecdsa"
	"crypto/sha256"
	"encoding/hex"
	"encoding/json"
	"errors"
	"fmt"
	"math/big"
	"math/rand"
	"os"
	"path/filepath"
	"runtime"
	"sort"
	"strings"
	"sync/atomic"
	"time"
	"unicode"

	"github.com/ethereum/go-ethereum/accounts"
	"github.com/ethereum/go-ethereum/accounts/keystore"
	"github.com/ethereum/go-ethereum/common"
	"github.com/ethereum/go-ethereum/crypto"
	"github.com/google/uuid"
	"golang.org/x/crypto/pbkdf2"
	"golang.org/x/crypto/scrypt"

	"verif/lib/refmpt"
	"verif/lib/vrt"
)

func main() { vrt.Main("C52", run) }

// ---------- harness view of a key file ----------

type cryptoJ struct {
	Cipher       string `json:"cipher"`
	CipherText   string `json:"ciphertext"`
	CipherParams struct {
		IV string `json:"iv"`
	} `json:"cipherparams"`
	KDF       string         `json:"kdf"`
	KDFParams map[string]any `json:"kdfparams"`
	MAC       string         `json:"mac"`
}
type fileJ struct {
	Address string  `json:"address"`
	Crypto  cryptoJ `json:"crypto"`
	Id      string  `json:"id"`
	Version any     `json:"version"`
}

func num(x any) (int, bool) {
	f, ok := x.(float64)
	if !ok || f != float64(int(f)) {
		return 0, false
	}
	return int(f), true
}

// semantic returns the decoded field values of a key file (for diffing two files).
func semantic(f *fileJ) map[string]string {
	m := map[string]string{}
	hx := func(k, s string) {
		b, err := hex.DecodeString(s)
		if err != nil {
			m[k] = "!" + s
		} else {
			m[k] = hex.EncodeToString(b)
		}
	}
	hx("address", f.Address)
	hx("ciphertext", f.Crypto.CipherText)
	hx("iv", f.Crypto.CipherParams.IV)
	hx("mac", f.Crypto.MAC)
	m["cipher"] = f.Crypto.Cipher
	m["kdf"] = f.Crypto.KDF
	m["version"] = fmt.Sprint(f.Version)
	if u, err := uuid.Parse(f.Id); err == nil {
		m["id"] = u.String()
	} else {
		m["id"] = "!" + f.Id
	}
	for k, v := range f.Crypto.KDFParams {
		if s, ok := v.(string); ok && k == "salt" {
			hx("kdf.salt", s)
		} else {
			m["kdf."+k] = fmt.Sprint(v)
		}
	}
	return m
}

func diffFields(a, b *fileJ) []string {
	ma, mb := semantic(a), semantic(b)
	var d []string
	for k, v := range ma {
		if w, ok := mb[k]; !ok || w != v {
			d = append(d, k)
		}
	}
	for k := range mb {
		if _, ok := ma[k]; !ok {
			d = append(d, k)
		}
	}
	sort.Strings(d)
	return d
}

// refDecryptV3 is the independent reading of a version-3 file.
func refDecryptV3(f *fileJ, pw string) (plain []byte, err error) {
	if v, ok := num(f.Version); !ok || v != 3 {
		return nil, fmt.Errorf("version %v", f.Version)
	}
	if f.Crypto.Cipher != "aes-128-ctr" {
		return nil, fmt.Errorf("cipher %q", f.Crypto.Cipher)
	}
	ct, e1 := hex.DecodeString(f.Crypto.CipherText)
	iv, e2 := hex.DecodeString(f.Crypto.CipherParams.IV)
	mac, e3 := hex.DecodeString(f.Crypto.MAC)
	saltS, _ := f.Crypto.KDFParams["salt"].(string)
	salt, e4 := hex.DecodeString(saltS)
	if e1 != nil || e2 != nil || e3 != nil || e4 != nil {
		return nil, errors.New("hex")
	}
	dklen, ok := num(f.Crypto.KDFParams["dklen"])
	if !ok || dklen != 32 {
		return nil, errors.New("dklen")
	}
	var dk []byte
	switch f.Crypto.KDF {
	case "scrypt":
		n, ok1 := num(f.Crypto.KDFParams["n"])
		rr, ok2 := num(f.Crypto.KDFParams["r"])
		p, ok3 := num(f.Crypto.KDFParams["p"])
		if !ok1 || !ok2 || !ok3 {
			return nil, errors.New("scrypt params")
		}
		dk, err = scrypt.Key([]byte(pw), salt, n, rr, p, dklen)
		if err != nil {
			return nil, err
		}
	case "pbkdf2":
		c, ok1 := num(f.Crypto.KDFParams["c"])
		if prf, _ := f.Crypto.KDFParams["prf"].(string); !ok1 || prf != "hmac-sha256" {
			return nil, errors.New("pbkdf2 params")
		}
		dk = pbkdf2.Key([]byte(pw), salt, c, dklen, sha256.New)
	default:
		return nil, fmt.Errorf("kdf %q", f.Crypto.KDF)
	}
	if !bytes.Equal(refmpt.Keccak(dk[16:32], ct), mac) {
		return nil, errors.New("mac mismatch")
	}
	if len(iv) != 16 {
		return nil, errors.New("iv length")
	}
	blk, err := aes.NewCipher(dk[:16])
	if err != nil {
		return nil, err
	}
	plain = make([]byte, len(ct))
	cipher.NewCTR(blk, iv).XORKeyStream(plain, ct)
	return plain, nil
}

// ---------- generators ----------

var curveN = crypto.S256().Params().N

func genKey(rng *rand.Rand) (*keystore.Key, string) {
	class := []string{"rand", "rand", "lz1", "lz2", "lz3", "small", "max", "lz16"}[rng.Intn(8)]
	for {
		d := make([]byte, 32)
		rng.Read(d)
		switch class {
		case "lz1":
			d[0] = 0
		case "lz2":
			d[0], d[1] = 0, 0
		case "lz3":
			d[0], d[1], d[2] = 0, 0, 0
		case "lz16":
			for k := 0; k < 16; k++ {
				d[k] = 0
			}
		case "small":
			d = make([]byte, 32)
			d[31] = byte(1 + rng.Intn(255))
		case "max":
			x := new(big.Int).Sub(curveN, big.NewInt(int64(1+rng.Intn(1000))))
			d = x.FillBytes(make([]byte, 32))
		}
		priv, err := crypto.ToECDSA(d)
		if err != nil {
			continue
		}
		var idb [16]byte
		rng.Read(idb[:])
		idb[6] = (idb[6] & 0x0f) | 0x40
		idb[8] = (idb[8] & 0x3f) | 0x80
		id, _ := uuid.FromBytes(idb[:])
		return &keystore.Key{Id: id, Address: crypto.PubkeyToAddress(priv.PublicKey), PrivateKey: priv}, class
	}
}

func genPass(rng *rand.Rand) (string, string) {
	class := []string{"empty", "ascii", "ascii", "utf8", "utf8", "nul", "long", "space", "badutf8"}[rng.Intn(9)]
	ascii := func(n int) string {
		const cs = "abcdefghijklmnopqrstuvwxyzABCDEFGHIJKLMNOPQRSTUVWXYZ0123456789!@#$%^&*()-_=+ "
		b := make([]byte, n)
		for i := range b {
			b[i] = cs[rng.Intn(len(cs))]
		}
		return string(b)
	}
	switch class {
	case "empty":
		return "", class
	case "ascii":
		return ascii(1 + rng.Intn(20)), class
	case "utf8":
		parts := []string{"\u00e9", "e\u0301", "\u00fc", "\u6f22\u5b57", "\u043f\u0430\u0440\u043e\u043b\u044c", "\U0001F511", "\u00df", "\u00c5", "A\u030a", "\u00f1", "\ufb01"}
		s := ascii(rng.Intn(4))
		for k := 0; k < 1+rng.Intn(4); k++ {
			s += parts[rng.Intn(len(parts))] + ascii(rng.Intn(3))
		}
		return s, class
	case "nul":
		return ascii(rng.Intn(5)) + "\x00" + ascii(rng.Intn(5)), class
	case "long":
		return ascii(1024), class
	case "space":
		return " " + ascii(1+rng.Intn(8)) + " ", class
	default:
		return ascii(rng.Intn(4)) + "\xff\xfe" + ascii(rng.Intn(4)), class
	}
}

var nfPairs = [][2]string{{"\u00e9", "e\u0301"}, {"\u00c5", "A\u030a"}, {"\u00fc", "u\u0308"}, {"\u00f1", "n\u0303"}}

// nearMiss returns a passphrase different from pw (or "" / false if the kind does not apply).
func nearMiss(rng *rand.Rand, pw, kind string) (string, bool) {
	var out string
	switch kind {
	case "case":
		rs := []rune(pw)
		done := false
		for i, c := range rs {
			if unicode.IsLower(c) && unicode.ToUpper(c) != c {
				rs[i], done = unicode.ToUpper(c), true
				break
			}
			if unicode.IsUpper(c) && unicode.ToLower(c) != c {
				rs[i], done = unicode.ToLower(c), true
				break
			}
		}
		if !done || strings.ContainsRune(pw, unicode.ReplacementChar) || !isValidUTF8(pw) {
			return "", false
		}
		out = string(rs)
	case "trail-space":
		out = pw + " "
	case "lead-space":
		out = " " + pw
	case "drop-last":
		if pw == "" {
			return "", false
		}
		out = pw[:len(pw)-1]
	case "add-nul":
		out = pw + "\x00"
	case "nf":
		for _, p := range nfPairs {
			if strings.Contains(pw, p[0]) {
				out = strings.Replace(pw, p[0], p[1], 1)
				break
			}
			if strings.Contains(pw, p[1]) {
				out = strings.Replace(pw, p[1], p[0], 1)
				break
			}
		}
		if out == "" {
			return "", false
		}
	case "empty":
		out = ""
	case "double":
		out = pw + pw
	case "trim":
		out = strings.TrimSpace(pw)
	case "bitflip":
		if pw == "" {
			return "", false
		}
		b := []byte(pw)
		b[rng.Intn(len(b))] ^= 1 << uint(rng.Intn(8))
		out = string(b)
	case "unrelated":
		out, _ = genPass(rng)
	}
	return out, !equivPW(out, pw)
}

// equivPW: scrypt and PBKDF2 use the passphrase only as an HMAC-SHA256 key. HMAC pads keys
// shorter than its 64-byte block with zero bytes and replaces longer keys by their hash, so
// "abc" and "abc\x00" are the *same* key for every conforming implementation. Passphrases
// that are equal as HMAC keys are therefore not "another passphrase".
func equivPW(a, b string) bool { return hmacKey(a) == hmacKey(b) }

func hmacKey(pw string) [64]byte {
	var k [64]byte
	if len(pw) > 64 {
		h := sha256.Sum256([]byte(pw))
		copy(k[:], h[:])
	} else {
		copy(k[:], pw)
	}
	return k
}

func isValidUTF8(s string) bool {
	for _, r := range s {
		if r == unicode.ReplacementChar {
			return false
		}
	}
	return true
}

var missKinds = []string{"case", "trail-space", "lead-space", "drop-last", "add-nul", "nf", "empty", "double", "trim", "bitflip", "unrelated"}

type sp struct{ n, p int }

var scryptChoices = []sp{{2, 1}, {4, 1}, {16, 2}, {64, 1}, {256, 1}, {512, 3}, {1024, 2}, {4096, 6}}

// ---------- corruption ----------

var corruptKinds = []string{"ciphertext", "iv", "salt", "mac", "n", "r", "p", "dklen", "address", "version", "id", "kdf", "cipher", "keyname", "keyname", "raw", "raw", "raw", "raw"}

var keyNames = []string{"address", "crypto", "cipher", "ciphertext", "cipherparams", "iv", "kdf", "kdfparams", "dklen", "n", "p", "r", "salt", "mac", "id", "version", "c", "prf"}

// corrupt replaces exactly one byte of js.
func corrupt(rng *rand.Rand, js []byte, kind string) ([]byte, string) {
	out := append([]byte{}, js...)
	span := func(prefix string, quoted bool) (int, int) {
		i := bytes.Index(js, []byte(prefix))
		if i < 0 {
			return -1, -1
		}
		s := i + len(prefix)
		e := s
		for e < len(js) {
			c := js[e]
			if quoted && c == '"' {
				break
			}
			if !quoted && (c < '0' || c > '9') {
				break
			}
			e++
		}
		return s, e
	}
	var s, e int
	mode := "hex"
	switch kind {
	case "ciphertext", "mac", "salt", "iv", "address":
		s, e = span(`"`+kind+`":"`, true)
	case "id":
		s, e = span(`"id":"`, true)
		mode = "hexid"
	case "n", "r", "p", "dklen", "version", "c":
		s, e = span(`"`+kind+`":`, false)
		mode = "digit"
	case "kdf", "cipher", "prf":
		s, e = span(`"`+kind+`":"`, true)
		mode = "letter"
	case "keyname": // one letter of a JSON member name
		var present []string
		for _, nm := range keyNames {
			if bytes.Contains(js, []byte(`"`+nm+`":`)) {
				present = append(present, nm)
			}
		}
		name := present[rng.Intn(len(present))]
		i := bytes.Index(js, []byte(`"`+name+`":`))
		s, e = i+1, i+1+len(name)
		mode = "letter"
		kind = "keyname-" + name
	default:
		pos := rng.Intn(len(out))
		for {
			b := byte(rng.Intn(256))
			if rng.Intn(2) == 0 {
				b = byte(0x20 + rng.Intn(0x5f)) // printable
			}
			if b != out[pos] {
				out[pos] = b
				break
			}
		}
		return out, fmt.Sprintf("raw@%d", pos)
	}
	if s < 0 || e <= s {
		return nil, ""
	}
	pos := s + rng.Intn(e-s)
	for tries := 0; tries < 100; tries++ {
		var b byte
		switch mode {
		case "hex":
			b = "0123456789abcdef"[rng.Intn(16)]
		case "hexid":
			if out[pos] == '-' {
				pos = s
			}
			b = "0123456789abcdef"[rng.Intn(16)]
		case "digit":
			b = byte('0' + rng.Intn(10))
		case "letter":
			b = byte('a' + rng.Intn(26))
		}
		if b != out[pos] {
			out[pos] = b
			return out, fmt.Sprintf("%s@%d", kind, pos-s)
		}
	}
	return nil, ""
}

func sameKey(a *keystore.Key, d *big.Int) bool {
	return a != nil && a.PrivateKey != nil && a.PrivateKey.D != nil && a.PrivateKey.D.Cmp(d) == 0
}

// ---------- case: encrypt / decrypt / near-miss / corruption ----------

func oneKey(r *vrt.Run, i int) {
	rng := r.Rand("key", i)
	key, kclass := genKey(rng)
	pw, pclass := genPass(rng)
	par := scryptChoices[rng.Intn(len(scryptChoices))]
	if r.Race() && par.n > 1024 {
		par = sp{256, 1}
	}
	D := new(big.Int).Set(key.PrivateKey.D)
	dbytes := D.FillBytes(make([]byte, 32))
	base := map[string]any{"case": i, "priv": vrt.Hex(dbytes), "passphrase_hex": vrt.Hex([]byte(pw)), "scryptN": par.n, "scryptP": par.p}
	wit := func(extra map[string]any) map[string]any {
		m := map[string]any{}
		for k, v := range base {
			m[k] = v
		}
		for k, v := range extra {
			m[k] = v
		}
		return m
	}
	shape := fmt.Sprintf("key=%s/pw=%s/N=%d", kclass, pclass, par.n)
	r.Case("key %d %s encrypt", i, shape)

	var js []byte
	var err error
	if r.Guard("encrypt", wit(nil), func() { js, err = keystore.EncryptKey(key, pw, par.n, par.p) }) {
		return
	}
	if err != nil {
		r.Violation("encrypt-error", fmt.Sprintf("EncryptKey failed: %v", err), wit(nil))
		return
	}
	base["keyjson"] = string(js)
	if key.PrivateKey.D.Cmp(D) != 0 {
		r.Violation("encrypt-clobbers-key", "EncryptKey modified the private key it was given", wit(nil))
	}
	// -- layout + independent decryption
	var f fileJ
	if err := json.Unmarshal(js, &f); err != nil {
		r.Violation("encrypt-bad-json", err.Error(), wit(nil))
		return
	}
	layoutOK := true
	lay := func(cond bool, what string) {
		if !cond {
			layoutOK = false
			r.Violation("layout:"+what, "EncryptKey output violates the secret-storage layout: "+what, wit(nil))
		}
	}
	lay(strings.EqualFold(f.Address, hex.EncodeToString(key.Address[:])), "address")
	lay(f.Id == key.Id.String(), "id")
	v, _ := num(f.Version)
	lay(v == 3, "version")
	lay(f.Crypto.Cipher == "aes-128-ctr", "cipher")
	lay(f.Crypto.KDF == "scrypt", "kdf")
	n, _ := num(f.Crypto.KDFParams["n"])
	p, _ := num(f.Crypto.KDFParams["p"])
	rr, _ := num(f.Crypto.KDFParams["r"])
	dl, _ := num(f.Crypto.KDFParams["dklen"])
	lay(n == par.n && p == par.p && rr == 8 && dl == 32, "kdfparams")
	lay(len(f.Crypto.CipherText) == 64, "ciphertext-length")
	lay(len(f.Crypto.CipherParams.IV) == 32, "iv-length")
	lay(len(f.Crypto.MAC) == 64, "mac-length")
	if s, _ := f.Crypto.KDFParams["salt"].(string); len(s) != 64 {
		lay(false, "salt-length")
	}
	if layoutOK {
		plain, err := refDecryptV3(&f, pw)
		switch {
		case err != nil:
			r.Violation("ref-decrypt:"+err.Error(), "independent decryption of the EncryptKey output failed: "+err.Error(), wit(nil))
		case !bytes.Equal(plain, dbytes):
			r.Violation("ref-plaintext", fmt.Sprintf("independent decryption yields %x, want the 32-byte scalar %x", plain, dbytes), wit(nil))
		}
		r.Count("mac_recomputed", 1)
	}
	r.Eval("enc/" + shape)

	// -- right passphrase
	r.Case("key %d %s decrypt", i, shape)
	var got *keystore.Key
	if r.Guard("decrypt", wit(nil), func() { got, err = keystore.DecryptKey(js, pw) }) {
		return
	}
	switch {
	case err != nil:
		r.Violation("roundtrip-error", fmt.Sprintf("DecryptKey with the right passphrase failed: %v", err), wit(nil))
	case !sameKey(got, D):
		r.Violation("roundtrip-key", fmt.Sprintf("DecryptKey returned scalar %x want %x", got.PrivateKey.D, D), wit(nil))
	case got.Address != key.Address:
		r.Violation("roundtrip-address", fmt.Sprintf("address %x want %x", got.Address, key.Address), wit(nil))
	case got.Id != key.Id:
		r.Violation("roundtrip-id", fmt.Sprintf("id %s want %s", got.Id, key.Id), wit(nil))
	case got.PrivateKey.PublicKey.X.Cmp(key.PrivateKey.PublicKey.X) != 0 || got.PrivateKey.PublicKey.Y.Cmp(key.PrivateKey.PublicKey.Y) != 0:
		r.Violation("roundtrip-pubkey", "public key differs", wit(nil))
	}
	r.Count("decrypt_right", 1)
	r.Eval("dec/" + shape)

	// -- wrong passphrases
	perm := rng.Perm(len(missKinds))
	tried := 0
	for _, k := range perm {
		if tried >= 3 {
			break
		}
		kind := missKinds[k]
		pw2, ok := nearMiss(rng, pw, kind)
		if !ok {
			continue
		}
		tried++
		r.Case("key %d %s wrong passphrase %s", i, shape, kind)
		w := wit(map[string]any{"wrong_passphrase_hex": vrt.Hex([]byte(pw2)), "kind": kind})
		var g2 *keystore.Key
		if r.Guard("decrypt-wrong", w, func() { g2, err = keystore.DecryptKey(js, pw2) }) {
			continue
		}
		if err == nil {
			r.Violation("wrong-passphrase-accepted:"+kind, fmt.Sprintf("DecryptKey accepted passphrase %q for a file encrypted with %q (returned scalar matches: %v)", pw2, pw, sameKey(g2, D)), w)
		} else if errors.Is(err, keystore.ErrDecrypt) {
			r.Count("wrong_pw_ErrDecrypt", 1)
		} else {
			r.Count("wrong_pw_other_error", 1)
		}
		r.Count("miss_"+kind, 1)
		r.Eval("miss/" + kind + "/pw=" + pclass)
	}

	// -- corruptions
	for j := 0; j < 6; j++ {
		kind := corruptKinds[(i*6+j)%len(corruptKinds)]
		bad, where := corrupt(rng, js, kind)
		if bad == nil {
			r.Count("corruption_not_applicable", 1)
			continue
		}
		if kind == "keyname" {
			kind = strings.SplitN(where, "@", 2)[0]
		}
		judgeCorrupt(r, i, shape, kind, where, js, bad, &f, pw, D, key, wit)
	}
}

// judgeCorrupt decrypts a corrupted file with the right passphrase and classifies the outcome.
func judgeCorrupt(r *vrt.Run, i int, shape, kind, where string, js, bad []byte, orig *fileJ, pw string, D *big.Int, key *keystore.Key, wit func(map[string]any) map[string]any) {
	r.Case("key %d %s corrupt %s", i, shape, where)
	w := wit(map[string]any{"corrupted": string(bad), "where": where})
	var g *keystore.Key
	var err error
	if r.Guard("corrupt", w, func() { g, err = keystore.DecryptKey(bad, pw) }) {
		r.Count("corrupt_panic", 1)
		r.Eval("corrupt/" + kind + "/panic")
		return
	}
	outcome := "error"
	switch {
	case err != nil:
		if errors.Is(err, keystore.ErrDecrypt) {
			outcome = "ErrDecrypt"
		}
	case g == nil || g.PrivateKey == nil:
		r.Violation("corrupt-nil-key", "DecryptKey returned nil key and nil error", w)
		outcome = "nil"
	default:
		if g.Address != crypto.PubkeyToAddress(g.PrivateKey.PublicKey) {
			r.Violation("corrupt-inconsistent-key", fmt.Sprintf("returned key has Address %x but its scalar derives %x", g.Address, crypto.PubkeyToAddress(g.PrivateKey.PublicKey)), w)
		}
		if sameKey(g, D) {
			outcome = "right-key"
			break
		}
		// a different key was produced without error
		var bf fileJ
		d := []string{"unparsable"}
		if json.Unmarshal(bad, &bf) == nil {
			d = diffFields(orig, &bf)
		}
		if len(d) == 1 && d[0] == "iv" {
			outcome = "iv-unauthenticated"
			r.Count("iv_corruption_yields_other_key", 1)
			ivAtKeystoreLevel(r, i, bad, pw, key, w)
		} else {
			outcome = "wrong-key"
			r.Violation("corrupt-wrong-key:"+strings.Join(d, "+"), fmt.Sprintf("corrupted file (%s; differing fields %v) decrypts without error to a different scalar %x", where, d, g.PrivateKey.D), w)
		}
	}
	r.Count("corrupt_"+kind+"_"+outcome, 1)
	r.Eval("corrupt/" + kind + "/" + outcome)
}

// ivAtKeystoreLevel: the stored corrupted file must not unlock / export under the account
// it claims to belong to (GetKey compares the decrypted key's address with the account's).
func ivAtKeystoreLevel(r *vrt.Run, i int, bad []byte, pw string, key *keystore.Key, w map[string]any) {
	dir, err := os.MkdirTemp(r.Scratch, "iv-")
	if err != nil {
		r.Inconclusive("scratch: %v", err)
		return
	}
	defer os.RemoveAll(dir)
	path := filepath.Join(dir, "UTC--2026-01-01T00-00-00.000000000Z--"+hex.EncodeToString(key.Address[:]))
	if err := os.WriteFile(path, bad, 0o600); err != nil {
		r.Inconclusive("scratch: %v", err)
		return
	}
	ks := keystore.NewKeyStore(dir, 2, 1)
	accs := ks.Accounts()
	if len(accs) != 1 || accs[0].Address != key.Address {
		r.Violation("keystore-scan", fmt.Sprintf("fresh KeyStore over a directory with one key file of %x lists %v", key.Address, accs), w)
		return
	}
	if err := ks.Unlock(accs[0], pw); err == nil {
		r.Violation("iv-corruption-unlocks", "KeyStore.Unlock succeeded on a file whose IV was corrupted (decrypts to a different key than the account address)", w)
	}
	if _, err := ks.Export(accs[0], pw, "x"); err == nil {
		r.Violation("iv-corruption-exports", "KeyStore.Export succeeded on a file whose IV was corrupted", w)
	}
	r.Count("iv_corruption_rejected_by_keystore", 1)
}

// ---------- harness-made files (pbkdf2 v3, v1) ----------

func pkcs7(b []byte) []byte {
	n := 16 - len(b)%16
	return append(append([]byte{}, b...), bytes.Repeat([]byte{byte(n)}, n)...)
}

func oneForeign(r *vrt.Run, i int) {
	rng := r.Rand("foreign", i)
	key, kclass := genKey(rng)
	pw, pclass := genPass(rng)
	D := new(big.Int).Set(key.PrivateKey.D)
	dbytes := D.FillBytes(make([]byte, 32))
	salt := make([]byte, []int{8, 16, 32, 64}[rng.Intn(4)])
	rng.Read(salt)
	iv := make([]byte, 16)
	rng.Read(iv)
	kind := []string{"pbkdf2", "pbkdf2", "scrypt-r1", "v1"}[rng.Intn(4)]
	var dk []byte
	kdfparams := map[string]any{"dklen": 32, "salt": hex.EncodeToString(salt)}
	kdf := "pbkdf2"
	switch kind {
	case "pbkdf2":
		c := []int{1, 2, 100, 1000, 4096}[rng.Intn(5)]
		dk = pbkdf2.Key([]byte(pw), salt, c, 32, sha256.New)
		kdfparams["c"], kdfparams["prf"] = c, "hmac-sha256"
	default:
		kdf = "scrypt"
		n, rr, p := []int{2, 8, 64, 512}[rng.Intn(4)], []int{1, 2, 8}[rng.Intn(3)], 1+rng.Intn(3)
		dk, _ = scrypt.Key([]byte(pw), salt, n, rr, p, 32)
		kdfparams["n"], kdfparams["r"], kdfparams["p"] = n, rr, p
	}
	var ct []byte
	version := any(3)
	if kind == "v1" {
		blk, _ := aes.NewCipher(refmpt.Keccak(dk[:16])[:16])
		pt := pkcs7(dbytes)
		ct = make([]byte, len(pt))
		cipher.NewCBCEncrypter(blk, iv).CryptBlocks(ct, pt)
		version = "1"
	} else {
		blk, _ := aes.NewCipher(dk[:16])
		ct = make([]byte, 32)
		cipher.NewCTR(blk, iv).XORKeyStream(ct, dbytes)
	}
	mac := refmpt.Keccak(dk[16:32], ct)
	file := map[string]any{
		"address": hex.EncodeToString(key.Address[:]),
		"id":      key.Id.String(),
		"version": version,
		"crypto": map[string]any{
			"cipher": "aes-128-ctr", "ciphertext": hex.EncodeToString(ct),
			"cipherparams": map[string]any{"iv": hex.EncodeToString(iv)},
			"kdf":          kdf, "kdfparams": kdfparams, "mac": hex.EncodeToString(mac),
		},
	}
	if kind == "v1" {
		file["crypto"].(map[string]any)["cipher"] = "aes-128-cbc"
	}
	js, _ := json.Marshal(file)
	w := map[string]any{"case": i, "kind": kind, "priv": vrt.Hex(dbytes), "passphrase_hex": vrt.Hex([]byte(pw)), "keyjson": string(js)}
	r.Case("foreign %d %s", i, kind)
	var g *keystore.Key
	var err error
	if r.Guard("foreign-decrypt/"+kind, w, func() { g, err = keystore.DecryptKey(js, pw) }) {
		return
	}
	switch {
	case err != nil:
		r.Violation("foreign-rejected:"+kind, fmt.Sprintf("valid %s file made by the harness is rejected: %v", kind, err), w)
	case !sameKey(g, D) || g.Address != key.Address || g.Id != key.Id:
		r.Violation("foreign-wrong-key:"+kind, fmt.Sprintf("valid %s file decrypts to scalar %x address %x id %s", kind, g.PrivateKey.D, g.Address, g.Id), w)
	}
	r.Count("foreign_"+kind, 1)
	r.Eval(fmt.Sprintf("foreign/%s/key=%s/pw=%s/salt%d", kind, kclass, pclass, len(salt)))
	mk := missKinds[rng.Intn(len(missKinds))]
	if pw2, ok := nearMiss(rng, pw, mk); ok {
		w["wrong_passphrase_hex"] = vrt.Hex([]byte(pw2))
		if r.Guard("foreign-decrypt-wrong/"+kind, w, func() { g, err = keystore.DecryptKey(js, pw2) }) {
			return
		}
		if err == nil {
			r.Violation("wrong-passphrase-accepted:"+mk, fmt.Sprintf("%s file: DecryptKey accepted passphrase %q instead of %q", kind, pw2, pw), w)
		}
		r.Eval("foreign-miss/" + kind + "/" + mk)
	}
	// single-byte corruptions of harness-made files (pbkdf2 parameters, the v1/CBC path)
	var ff fileJ
	json.Unmarshal(js, &ff)
	kinds := []string{"keyname", "raw", "iv", "c", "prf", "ciphertext", "keyname", "salt", "mac", "dklen", "raw", "n", "r", "p"}
	for j := 0; j < 3; j++ {
		ck := kinds[(i*3+j)%len(kinds)]
		bad, where := corrupt(rng, js, ck)
		if bad == nil {
			continue
		}
		if ck == "keyname" {
			ck = strings.SplitN(where, "@", 2)[0]
		}
		judgeCorrupt(r, i, "foreign-"+kind, kind+"/"+ck, where, js, bad, &ff, pw, D, key, func(extra map[string]any) map[string]any {
			m := map[string]any{}
			for k, v := range w {
				m[k] = v
			}
			for k, v := range extra {
				m[k] = v
			}
			return m
		})
	}
}

// ---------- KeyStore directory round trip ----------

// retryNoMatch retries an operation while the live account cache reports "no match": the
// cache is rebuilt asynchronously by a file-system watcher (delete + re-add of an updated
// file are two critical sections), so a transient miss right after a write is allowed. A
// persistent miss is decided on a fresh KeyStore by the caller.
var noMatchRetries atomic.Int64

func retryNoMatch(f func() error) error {
	var err error
	for k := 0; k < 100; k++ {
		err = f()
		if err == nil || !errors.Is(err, keystore.ErrNoMatch) {
			return err
		}
		noMatchRetries.Add(1)
		time.Sleep(20 * time.Millisecond)
	}
	return err
}

func listDir(dir string) (files []string, tmp []string) {
	es, _ := os.ReadDir(dir)
	for _, e := range es {
		if strings.HasPrefix(e.Name(), ".") || strings.Contains(e.Name(), ".tmp") {
			tmp = append(tmp, e.Name())
		} else {
			files = append(files, e.Name())
		}
	}
	return
}

func oneDir(r *vrt.Run, i int) {
	rng := r.Rand("dir", i)
	par := []sp{{2, 1}, {16, 1}, {256, 2}, {2, 1}, {64, 1}, {1024, 1}, {16, 2}, {4096, 6}}[rng.Intn(8)]
	if r.Race() && par.n > 256 {
		par = sp{16, 1}
	}
	dir, err := os.MkdirTemp(r.Scratch, "ks-")
	dir2, err2 := os.MkdirTemp(r.Scratch, "ks2-")
	if err != nil || err2 != nil {
		r.Inconclusive("scratch: %v %v", err, err2)
		return
	}
	defer os.RemoveAll(dir)
	defer os.RemoveAll(dir2)
	key, kclass := genKey(rng)
	D := new(big.Int).Set(key.PrivateKey.D)
	pw, pclass := genPass(rng)
	pwExp, _ := genPass(rng)
	pwNew, _ := genPass(rng)
	if equivPW(pwExp, pw) {
		pwExp += "x"
	}
	if equivPW(pwNew, pw) || equivPW(pwNew, pwExp) {
		pwNew += "yz"
	}
	var steps []string
	w := func() map[string]any {
		return map[string]any{"case": i, "priv": vrt.Hex(D.FillBytes(make([]byte, 32))), "pw_hex": vrt.Hex([]byte(pw)), "pwExport_hex": vrt.Hex([]byte(pwExp)), "pwNew_hex": vrt.Hex([]byte(pwNew)), "scryptN": par.n, "steps": steps}
	}
	fail := func(fp, msg string) { r.Violation("dir:"+fp, msg, w()) }
	step := func(s string) {
		steps = append(steps, s)
		r.Case("dir %d step %s", i, s)
		r.Count("dir_op_"+strings.SplitN(s, " ", 2)[0], 1)
	}
	// every regular file in the directory must be a complete key file, no temp files may remain
	checkDir := func(d string, wantFiles int, after string) {
		files, tmp := listDir(d)
		if len(tmp) > 0 {
			fail("temp-file-left", fmt.Sprintf("after %s the directory contains temporary files %v", after, tmp))
		}
		if len(files) != wantFiles {
			fail("file-count", fmt.Sprintf("after %s the directory has %d key files, want %d", after, len(files), wantFiles))
		}
		for _, f := range files {
			b, _ := os.ReadFile(filepath.Join(d, f))
			var fj fileJ
			if err := json.Unmarshal(b, &fj); err != nil || fj.Crypto.MAC == "" {
				fail("partial-file", fmt.Sprintf("after %s file %s is not a complete key file: %v", after, f, err))
			}
		}
	}
	fileOf := func(a accounts.Account) []byte { b, _ := os.ReadFile(a.URL.Path); return b }
	decryptsTo := func(js []byte, pass string, what string) {
		g, err := keystore.DecryptKey(js, pass)
		if err != nil || !sameKey(g, D) || g.Address != key.Address {
			fail("stored-key-mismatch", fmt.Sprintf("%s: DecryptKey of the stored file: err=%v", what, err))
		}
	}
	rejects := func(js []byte, pass string, what string) {
		if _, err := keystore.DecryptKey(js, pass); err == nil {
			fail("old-passphrase-still-valid", what+": the stored file decrypts with a passphrase that should no longer be valid")
		}
	}
	hash := make([]byte, 32)
	rng.Read(hash)
	signsAs := func(ks *keystore.KeyStore, a accounts.Account, what string) {
		var sig []byte
		err := retryNoMatch(func() (e error) { sig, e = ks.SignHash(a, hash); return })
		if err != nil {
			fail("sign-unlocked", fmt.Sprintf("%s: SignHash on an unlocked account failed: %v", what, err))
			return
		}
		pub, err := crypto.SigToPub(hash, sig)
		if err != nil || crypto.PubkeyToAddress(*pub) != key.Address {
			fail("sign-wrong-key", fmt.Sprintf("%s: signature recovers to another address (err %v)", what, err))
		}
	}

	ks := keystore.NewKeyStore(dir, par.n, par.p)
	privCopy := &ecdsa.PrivateKey{PublicKey: key.PrivateKey.PublicKey, D: new(big.Int).Set(D)}
	step("ImportECDSA")
	acc, err := ks.ImportECDSA(privCopy, pw)
	if err != nil {
		fail("import-ecdsa", fmt.Sprintf("ImportECDSA: %v", err))
		return
	}
	if acc.Address != key.Address {
		fail("import-address", fmt.Sprintf("ImportECDSA returned address %x want %x", acc.Address, key.Address))
	}
	checkDir(dir, 1, "ImportECDSA")
	decryptsTo(fileOf(acc), pw, "after ImportECDSA")
	if !ks.HasAddress(key.Address) {
		fail("has-address", "HasAddress false right after ImportECDSA")
	}
	step("ImportECDSA-duplicate")
	if _, err := ks.ImportECDSA(&ecdsa.PrivateKey{PublicKey: key.PrivateKey.PublicKey, D: new(big.Int).Set(D)}, pw); !errors.Is(err, keystore.ErrAccountAlreadyExists) {
		fail("import-duplicate", fmt.Sprintf("second ImportECDSA of the same key: err=%v, want ErrAccountAlreadyExists", err))
	}
	checkDir(dir, 1, "duplicate ImportECDSA")

	step("Unlock-wrong")
	mk := missKinds[rng.Intn(len(missKinds))]
	if bad, ok := nearMiss(rng, pw, mk); ok {
		if err := retryNoMatch(func() error { return ks.Unlock(acc, bad) }); err == nil {
			fail("unlock-wrong-passphrase:"+mk, fmt.Sprintf("Unlock accepted %q for %q", bad, pw))
		}
		if _, err := ks.SignHash(acc, hash); !errors.Is(err, keystore.ErrLocked) {
			fail("sign-while-locked", fmt.Sprintf("SignHash on a locked account: err=%v want ErrLocked", err))
		}
	}
	step("Unlock")
	if err := retryNoMatch(func() error { return ks.Unlock(acc, pw) }); err != nil {
		fail("unlock", fmt.Sprintf("Unlock with the right passphrase: %v", err))
	} else {
		signsAs(ks, acc, "after Unlock")
	}
	step("Lock")
	ks.Lock(acc.Address)
	if _, err := ks.SignHash(acc, hash); !errors.Is(err, keystore.ErrLocked) {
		fail("sign-after-lock", fmt.Sprintf("SignHash after Lock: err=%v want ErrLocked", err))
	}
	step("TimedUnlock")
	if err := retryNoMatch(func() error { return ks.TimedUnlock(acc, pw, time.Hour) }); err != nil {
		fail("timed-unlock", fmt.Sprintf("TimedUnlock: %v", err))
	} else {
		signsAs(ks, acc, "after TimedUnlock")
	}
	ks.Lock(acc.Address)
	step("SignHashWithPassphrase")
	{
		var sig []byte
		err := retryNoMatch(func() (e error) { sig, e = ks.SignHashWithPassphrase(acc, pw, hash); return })
		if err != nil {
			fail("sign-with-passphrase", err.Error())
		} else if pub, err := crypto.SigToPub(hash, sig); err != nil || crypto.PubkeyToAddress(*pub) != key.Address {
			fail("sign-wrong-key", "SignHashWithPassphrase signature recovers to another address")
		}
	}

	step("Export")
	var exp []byte
	err = retryNoMatch(func() (e error) { exp, e = ks.Export(acc, pw, pwExp); return })
	if err != nil {
		fail("export", fmt.Sprintf("Export: %v", err))
		return
	}
	decryptsTo(exp, pwExp, "exported JSON")
	rejects(exp, pw, "exported JSON")
	if _, err := ks.Export(acc, pwExp, "zz"); err == nil {
		fail("export-wrong-passphrase", "Export accepted the wrong passphrase")
	}
	checkDir(dir, 1, "Export")
	decryptsTo(fileOf(acc), pw, "after Export (stored file unchanged)")

	step("Import-other-dir")
	ksB := keystore.NewKeyStore(dir2, par.n, par.p)
	if _, err := ksB.Import(exp, pw, pwNew); err == nil {
		fail("import-wrong-passphrase", "Import accepted the wrong passphrase")
	}
	checkDir(dir2, 0, "failed Import")
	accB, err := ksB.Import(exp, pwExp, pwNew)
	if err != nil {
		fail("import", fmt.Sprintf("Import: %v", err))
	} else {
		if accB.Address != key.Address {
			fail("import-address", fmt.Sprintf("Import returned address %x", accB.Address))
		}
		checkDir(dir2, 1, "Import")
		decryptsTo(fileOf(accB), pwNew, "imported file")
		rejects(fileOf(accB), pwExp, "imported file")
	}

	step("Update")
	if err := retryNoMatch(func() error { return ks.Update(acc, pwNew, "q") }); err == nil {
		fail("update-wrong-passphrase", "Update accepted the wrong passphrase")
	}
	decryptsTo(fileOf(acc), pw, "after failed Update")
	if err := retryNoMatch(func() error { return ks.Update(acc, pw, pwNew) }); err != nil {
		fail("update", fmt.Sprintf("Update: %v", err))
	} else {
		checkDir(dir, 1, "Update")
		decryptsTo(fileOf(acc), pwNew, "after Update")
		rejects(fileOf(acc), pw, "after Update")
	}

	step("NewAccount")
	pwAcc, _ := genPass(rng)
	accN, err := ks.NewAccount(pwAcc)
	if err != nil {
		fail("new-account", err.Error())
	} else {
		checkDir(dir, 2, "NewAccount")
		g, err := keystore.DecryptKey(fileOf(accN), pwAcc)
		if err != nil || g.Address != accN.Address {
			fail("new-account-file", fmt.Sprintf("NewAccount file does not decrypt to the returned address: %v", err))
		}
		var fj fileJ
		json.Unmarshal(fileOf(accN), &fj)
		if plain, err := refDecryptV3(&fj, pwAcc); err != nil || g == nil || !bytes.Equal(plain, g.PrivateKey.D.FillBytes(make([]byte, 32))) {
			fail("new-account-ref", fmt.Sprintf("independent decryption of the NewAccount file disagrees: %v", err))
		}
	}

	// ---- reopen: a fresh KeyStore over the quiescent directory ----
	step("reopen")
	ks2 := keystore.NewKeyStore(dir, par.n, par.p)
	accs := ks2.Accounts()
	want := map[common.Address]bool{key.Address: true}
	if err == nil {
		want[accN.Address] = true
	}
	if len(accs) != len(want) {
		fail("reopen-accounts", fmt.Sprintf("fresh KeyStore lists %d accounts, want %d", len(accs), len(want)))
	}
	for _, a := range accs {
		if !want[a.Address] {
			fail("reopen-accounts", fmt.Sprintf("fresh KeyStore lists unknown address %x", a.Address))
		}
	}
	if a2, err := ks2.Find(accounts.Account{Address: key.Address}); err != nil {
		fail("reopen-find", fmt.Sprintf("fresh KeyStore cannot find the imported account: %v", err))
	} else {
		if err := ks2.Unlock(a2, pwNew); err != nil {
			fail("reopen-unlock", fmt.Sprintf("fresh KeyStore: Unlock with the updated passphrase: %v", err))
		} else {
			signsAs(ks2, a2, "fresh KeyStore")
		}
		ks2.Lock(a2.Address)
		if err := ks2.Unlock(a2, pw); err == nil {
			fail("reopen-old-passphrase", "fresh KeyStore: Unlock with the pre-Update passphrase succeeds")
		}
		step("Delete")
		if err := ks2.Delete(a2, pw); err == nil {
			fail("delete-wrong-passphrase", "Delete accepted the wrong passphrase")
		}
		checkDir(dir, len(want), "failed Delete")
		if err := ks2.Delete(a2, pwNew); err != nil {
			fail("delete", fmt.Sprintf("Delete: %v", err))
		} else {
			checkDir(dir, len(want)-1, "Delete")
			if ks2.HasAddress(key.Address) {
				fail("delete-still-listed", "account still listed after Delete")
			}
		}
	}
	r.Count("dir_roundtrips", 1)
	r.Eval(fmt.Sprintf("dir/key=%s/pw=%s/N=%d", kclass, pclass, par.n))
	if r.WantSample() {
		r.Sample(map[string]any{"kind": "dir-roundtrip", "steps": steps, "address": key.Address.Hex(), "scryptN": par.n})
	}
	runtime.KeepAlive(ks)
	runtime.KeepAlive(ksB)
}

func run(r *vrt.Run) {
	r.Rule("key cases: random secp256k1 scalars (random / 1,2,3,16 leading zero bytes / tiny / near the group order) x passphrase classes (empty, ASCII, multi-byte UTF-8 incl. NFC/NFD pairs, NUL, 1 KiB, surrounding spaces, invalid UTF-8) x scrypt (N,P) from {2..1024 cheap, 4096/6 light}; per key: EncryptKey layout + independent MAC/AES recomputation, DecryptKey round trip, 3 near-miss passphrases, 6 single-byte corruptions (per-field kinds in rotation + raw). foreign cases: harness-made pbkdf2 / scrypt(r!=8) / v1 files. dir cases: KeyStore directory round trips. signature = (phase, key class, passphrase class, N) resp. (corruption kind, outcome class) resp. (near-miss kind, passphrase class)")
	nKeys := r.N(300, 20000)
	nForeign := r.N(300, 20000)
	nDir := r.N(40, 1500)
	if r.Race() {
		nKeys, nForeign, nDir = nKeys/5, nForeign/5, nDir/4
	}
	t0 := time.Now()
	vrt.Par(nKeys, 0, func(i int) { oneKey(r, i) })
	t1 := time.Now()
	vrt.Par(nForeign, 0, func(i int) { oneForeign(r, i) })
	t2 := time.Now()
	defer func() {
		r.Extra("phase_wall_s", map[string]float64{"keys": t1.Sub(t0).Seconds(), "foreign": t2.Sub(t1).Seconds(), "dir": time.Since(t2).Seconds()})
		r.Logf("phase walls: keys %.1fs foreign %.1fs dir %.1fs", t1.Sub(t0).Seconds(), t2.Sub(t1).Seconds(), time.Since(t2).Seconds())
	}()
	// few concurrent KeyStores: each owns an inotify instance (128 per user on this machine)
	vrt.Par(nDir, 6, func(i int) { oneDir(r, i); runtime.GC() })
	r.Count("live_cache_nomatch_retries", int(noMatchRetries.Load()))
	if r.WantSample() {
		rng := r.Rand("sample", 0)
		k, _ := genKey(rng)
		js, _ := keystore.EncryptKey(k, "sample", 2, 1)
		r.Sample(map[string]any{"kind": "keyfile", "priv": vrt.Hex(k.PrivateKey.D.Bytes()), "passphrase": "sample", "keyjson": string(js)})
	}
	r.Require("decrypt_right", int64(nKeys*9/10))
	r.Require("mac_recomputed", int64(nKeys*9/10))
	r.Require("dir_roundtrips", int64(nDir*9/10))
	r.Require("iv_corruption_rejected_by_keystore", 3)
	r.Assume("golang.org/x/crypto scrypt/pbkdf2, crypto/aes and the harness Keccak (lib/refmpt) as reference primitives; the composition (which key half, what is MACed, padding of the scalar) is re-implemented by the harness")
	r.Assume("IV, address and id are not authenticated by the version-3 format: IV corruptions are judged at the KeyStore level (address comparison in GetKey)")
}
